(* C20: the functions of gen/ScalFuns.v — TRANSLATED from /repo/proto/*.go on every run by
   translator/minigo.go — are the hand model of model/Scalars.v.

   One equation per translated function.  The translation wraps every arithmetic result and every
   width-changing conversion to its Go type; the hand model wraps only where it matters.  Where the two
   differ the extra wrap is proved to be the identity; a premise is stated only where that needs one
   (DateTime.Time and DateTime64.Time: the stored value is an int64 / a uint32, i.e. the parameter has its
   Go type).  Functions that can panic in Go (division by a variable, panic(), Addr.As4) are translated
   to [option]; the equations show the division panics never happen.
   Functions without a hand model (NewDate, NewDate32, Precision.Duration) get their
   specification here. *)
From CH Require Import model.TypeStr gen.TypeNames proofs.TypeStrProofs.
From CH Require Import model.Scalars model.ScalCols gen.Consts gen.ScalFuns.
From CH Require Import proofs.CalendarProofs proofs.ScalarsProofs proofs.ScalarsProofs2 proofs.IntervalProofs.
From Coq Require Import Lia ZArith List Bool ZifyBool.
Import ListNotations.
Open Scope Z_scope.
Ltac Zify.zify_post_hook ::= Z.to_euclidean_division_equations.

(* ---- wraps ------------------------------------------------------------------------------------- *)
Lemma i64_range z : in_i64z (i64 z).
Proof. unfold in_i64z, i64, two63, two64. lia. Qed.
Lemma i64_mul_r a b : i64 (a * i64 b) = i64 (a * b).
Proof.
  unfold i64. f_equal. rewrite <- (Z.add_mod_idemp_l (a * ((b + two63) mod two64 - two63))) by (unfold two64; lia).
  rewrite <- (Z.add_mod_idemp_l (a * b)) by (unfold two64; lia). f_equal. f_equal.
  rewrite Z.mul_sub_distr_l, <- Zminus_mod_idemp_l, Z.mul_mod_idemp_r by (unfold two64; lia).
  rewrite Zminus_mod_idemp_l. f_equal. ring.
Qed.
Lemma i64_mul_l a b : i64 (i64 a * b) = i64 (a * b).
Proof. rewrite (Z.mul_comm (i64 a)), i64_mul_r. f_equal. ring. Qed.
Lemma i64_add_r a b : i64 (a + i64 b) = i64 (a + b).
Proof. unfold i64, two63, two64. lia. Qed.

(* wraps unfolded for lia (Z.quot / Z.rem / mod go through Z.to_euclidean_division_equations) *)
Ltac wraps := unfold in_i64z in *; unfold i64, i32, u16, u32, u64, u8, two16, two31, two32, two63, two64, secInDay in *.
Ltac split_ifs := repeat match goal with |- context [if ?c then _ else _] => destruct c eqn:? end.

(* the types of parameters, where an equation needs them *)
Definition is_u32 (z : Z) : Prop := 0 <= z < two32.

(* ---- Date ---------------------------------------------------------------------------------------- *)
Lemma go_Date_Unix_eq : forall d, go_Date_Unix d = date_Unix d.
Proof. intros d. unfold go_Date_Unix, date_Unix. apply i64_mul_r. Qed.

Lemma go_Date_Time_eq : forall loc d, go_Date_Time loc d = date_Time d.
Proof. intros loc d. unfold go_Date_Time, date_Time. rewrite go_Date_Unix_eq. reflexivity. Qed.

Lemma go_ToDate_eq : forall t, go_ToDate t = to_date t.
Proof.
  intros t. unfold go_ToDate, to_date. destruct (t_IsZero t); [reflexivity|]. cbv zeta.
  pose proof (i64_range (t_Unix t + t_ZoneOffset t)) as R. set (s := i64 (t_Unix t + t_ZoneOffset t)) in *.
  clearbody s. split_ifs; f_equal; wraps; lia.
Qed.

Lemma go_NewDate_eq : forall y m d, go_NewDate y m d = to_date (go_Date y m d 0 0 0 0 0).
Proof. intros. unfold go_NewDate. apply go_ToDate_eq. Qed.

(* ---- Date32 -------------------------------------------------------------------------------------- *)
Lemma go_Date32_Unix_eq : forall d, go_Date32_Unix d = date32_Unix d.
Proof. intros d. unfold go_Date32_Unix, date32_Unix. apply i64_mul_r. Qed.

Lemma go_Date32_Time_eq : forall loc d, go_Date32_Time loc d = date32_Time d.
Proof. intros loc d. unfold go_Date32_Time, date32_Time. rewrite go_Date32_Unix_eq. reflexivity. Qed.

Lemma go_ToDate32_eq : forall t, go_ToDate32 t = to_date32 t.
Proof.
  intros t. unfold go_ToDate32, to_date32. destruct (t_IsZero t); [reflexivity|]. cbv zeta.
  pose proof (i64_range (t_Unix t + t_ZoneOffset t)) as R. set (s := i64 (t_Unix t + t_ZoneOffset t)) in *.
  clearbody s. split_ifs; f_equal; wraps; lia.
Qed.

Lemma go_NewDate32_eq : forall y m d, go_NewDate32 y m d = to_date32 (go_Date y m d 0 0 0 0 0).
Proof. intros. unfold go_NewDate32. apply go_ToDate32_eq. Qed.

(* ---- DateTime ------------------------------------------------------------------------------------ *)
Lemma go_ToDateTime_eq : forall t, go_ToDateTime t = to_datetime t.
Proof. reflexivity. Qed.

(* d is a DateTime (uint32): int64(d) does not change it *)
Lemma go_DateTime_Time_eq : forall loc d, is_u32 d -> go_DateTime_Time loc d = datetime_Time loc d.
Proof.
  intros loc d H. unfold go_DateTime_Time, datetime_Time. rewrite i64_id; [reflexivity|].
  unfold is_u32, in_i64z, two32, two63 in *. lia.
Qed.

(* ---- DateTime64 ---------------------------------------------------------------------------------- *)
(* the loop of Precision.Scale, for every p (both sides are the same nine nested tests) *)
Lemma go_Precision_Scale_eq : forall p, go_Precision_Scale p = precision_Scale p.
Proof. intros p. unfold go_Precision_Scale, precision_Scale. vm_compute. reflexivity. Qed.

(* fuel: the translator gives the loop Z.to_nat PrecisionNano iterations because i > p is false at i = 0
   for an unsigned p; indeed more fuel never changes the result *)
Lemma go_Precision_Scale_fuel_sufficient : forall k p, 0 <= p ->
  go_Precision_Scale_for1 (Z.to_nat PrecisionNano + k) p PrecisionNano 1 =
  go_Precision_Scale_for1 (Z.to_nat PrecisionNano) p PrecisionNano 1.
Proof.
  intros k p Hp. change (Z.to_nat PrecisionNano) with 9%nat. change PrecisionNano with 9.
  assert (C : p = 0 \/ p = 1 \/ p = 2 \/ p = 3 \/ p = 4 \/ p = 5 \/ p = 6 \/ p = 7 \/ p = 8 \/ 9 <= p) by lia.
  repeat (destruct C as [->|C]); try (destruct k; reflexivity).
  cbn [Nat.add go_Precision_Scale_for1]. destruct (p <? 9) eqn:E; [lia|reflexivity].
Qed.

Lemma go_Precision_Valid_eq : forall p, go_Precision_Valid p = precision_Valid p.
Proof. reflexivity. Qed.

Lemma scale_cases p :
  In (precision_Scale p) [1; 10; 100; 1000; 10000; 100000; 1000000; 10000000; 100000000; 1000000000].
Proof.
  unfold precision_Scale. change (Z.to_nat PrecisionNano) with 9%nat. change PrecisionNano with 9.
  cbn [scale_loop].
  repeat match goal with |- context [if ?c then _ else _] => destruct c end; cbn; tauto.
Qed.

Ltac scale_case p :=
  let H := fresh "H" in
  pose proof (scale_cases p) as H; cbn [In] in H;
  repeat (destruct H as [H|H]); [..|contradiction]; rewrite <- H; clear H.

(* Precision.Duration: one tick in nanoseconds (no hand model in Scalars.v: this is its specification) *)
Lemma go_Precision_Duration_eq : forall p, go_Precision_Duration p = precision_Scale p.
Proof.
  intros p. unfold go_Precision_Duration. rewrite go_Precision_Scale_eq. scale_case p; reflexivity.
Qed.

(* the two divisions of ToDateTime64 never panic *)
Lemma go_ToDateTime64_eq : forall t p, go_ToDateTime64 t p = Some (to_datetime64 t p).
Proof.
  intros t p. unfold go_ToDateTime64, to_datetime64. destruct (t_IsZero t); [reflexivity|]. cbv zeta.
  rewrite go_Precision_Scale_eq. unfold t_Nanosecond, t_Unix.
  scale_case p; cbn [Z.eqb]; (change (i64 (Z.quot dur_Second ?s)) with (Z.quot ns_per_s s)); f_equal; apply i64_add_r.
Qed.

(* d is a DateTime64 (int64) *)
Lemma go_DateTime64_Time_eq : forall loc d p, in_i64z d ->
  go_DateTime64_Time loc d p = Some (datetime64_Time loc d p).
Proof.
  intros loc d p Hd. unfold go_DateTime64_Time, datetime64_Time. cbv zeta. rewrite go_Precision_Scale_eq.
  scale_case p; cbn [Z.eqb];
  match goal with |- context [i64 (Z.quot dur_Second ?s)] =>
    let v := eval vm_compute in (Z.quot ns_per_s s) in
    change (i64 (Z.quot dur_Second s)) with v; change (Z.quot ns_per_s s) with v end;
  cbn [Z.eqb]; f_equal; f_equal; unfold in_i64z, i64, two63, two64 in *; lia.
Qed.

(* ---- Int128 / UInt128 / Int256 / UInt256 --------------------------------------------------------- *)
Lemma go_Int128_Int_eq : forall i, go_Int128_Int i = int128_Int i.
Proof. reflexivity. Qed.
Lemma go_Int128_UInt64_eq : forall i, go_Int128_UInt64 i = int128_UInt64 i.
Proof. reflexivity. Qed.
Lemma go_Int128FromInt_eq : forall v, go_Int128FromInt v = int128_FromInt v.
Proof. reflexivity. Qed.
Lemma go_UInt128FromUInt64_eq : forall v, go_UInt128FromUInt64 v = uint128_FromUInt64 v.
Proof. reflexivity. Qed.
Lemma go_Int128FromUInt64_eq : forall v, go_Int128FromUInt64 v = int128_FromUInt64 v.
Proof. reflexivity. Qed.
Lemma go_UInt128_UInt64_eq : forall i, go_UInt128_UInt64 i = uint128_UInt64 i.
Proof. reflexivity. Qed.
Lemma go_UInt128_Int_eq : forall i, go_UInt128_Int i = uint128_Int i.
Proof. reflexivity. Qed.
Lemma go_UInt128FromInt_eq : forall v, go_UInt128FromInt v = uint128_FromInt v.
Proof. reflexivity. Qed.
Lemma go_Int256FromInt_eq : forall v, go_Int256FromInt v = int256_FromInt v.
Proof. intros v. unfold go_Int256FromInt, int256_FromInt. destruct (v <? 0); reflexivity. Qed.
Lemma go_UInt256FromInt_eq : forall v, go_UInt256FromInt v = uint256_FromInt v.
Proof. intros v. unfold go_UInt256FromInt, uint256_FromInt. apply go_Int256FromInt_eq. Qed.
Lemma go_UInt256FromUInt64_eq : forall v, go_UInt256FromUInt64 v = uint256_FromUInt64 v.
Proof. reflexivity. Qed.

(* ---- IPv4 / IPv6 --------------------------------------------------------------------------------- *)
Lemma go_IPv4_ToIP_eq : forall v, go_IPv4_ToIP v = ipv4_ToIP v.
Proof. reflexivity. Qed.
(* None = the panic of netip.Addr.As4 *)
Lemma go_ToIPv4_eq : forall ip, go_ToIPv4 ip = to_IPv4 ip.
Proof. intros ip. unfold go_ToIPv4, to_IPv4, option_map. destruct (addr_As4 ip); reflexivity. Qed.
Lemma go_IPv6_ToIP_eq : forall v, go_IPv6_ToIP v = ipv6_ToIP v.
Proof. reflexivity. Qed.
Lemma go_ToIPv6_eq : forall ip, go_ToIPv6 ip = to_IPv6 ip.
Proof. reflexivity. Qed.

(* ---- Interval.Add (None = the panic of the default branch) ---------------------------------------- *)
Lemma go_Interval_Add_eq : forall scale value t,
  go_Interval_Add (mk_go_Interval scale value) t = interval_Add scale value t.
Proof. reflexivity. Qed.

(* ---- the tie, as one statement -------------------------------------------------------------------- *)
Definition scalar_tie : Prop :=
  (forall d, go_Date_Unix d = date_Unix d) /\
  (forall loc d, go_Date_Time loc d = date_Time d) /\
  (forall t, go_ToDate t = to_date t) /\
  (forall y m d, go_NewDate y m d = to_date (go_Date y m d 0 0 0 0 0)) /\
  (forall d, go_Date32_Unix d = date32_Unix d) /\
  (forall loc d, go_Date32_Time loc d = date32_Time d) /\
  (forall t, go_ToDate32 t = to_date32 t) /\
  (forall y m d, go_NewDate32 y m d = to_date32 (go_Date y m d 0 0 0 0 0)) /\
  (forall t, go_ToDateTime t = to_datetime t) /\
  (forall loc d, 0 <= d < two32 -> go_DateTime_Time loc d = datetime_Time loc d) /\
  (forall p, go_Precision_Scale p = precision_Scale p) /\
  (forall k p, 0 <= p -> go_Precision_Scale_for1 (Z.to_nat PrecisionNano + k) p PrecisionNano 1 =
                         go_Precision_Scale_for1 (Z.to_nat PrecisionNano) p PrecisionNano 1) /\
  (forall p, go_Precision_Duration p = precision_Scale p) /\
  (forall p, go_Precision_Valid p = precision_Valid p) /\
  (forall t p, go_ToDateTime64 t p = Some (to_datetime64 t p)) /\
  (forall loc d p, in_i64z d -> go_DateTime64_Time loc d p = Some (datetime64_Time loc d p)) /\
  (forall i, go_Int128_Int i = int128_Int i) /\
  (forall i, go_Int128_UInt64 i = int128_UInt64 i) /\
  (forall v, go_Int128FromInt v = int128_FromInt v) /\
  (forall v, go_Int128FromUInt64 v = int128_FromUInt64 v) /\
  (forall i, go_UInt128_UInt64 i = uint128_UInt64 i) /\
  (forall i, go_UInt128_Int i = uint128_Int i) /\
  (forall v, go_UInt128FromInt v = uint128_FromInt v) /\
  (forall v, go_UInt128FromUInt64 v = uint128_FromUInt64 v) /\
  (forall v, go_Int256FromInt v = int256_FromInt v) /\
  (forall v, go_UInt256FromInt v = uint256_FromInt v) /\
  (forall v, go_UInt256FromUInt64 v = uint256_FromUInt64 v) /\
  (forall v, go_IPv4_ToIP v = ipv4_ToIP v) /\
  (forall ip, go_ToIPv4 ip = to_IPv4 ip) /\
  (forall v, go_IPv6_ToIP v = ipv6_ToIP v) /\
  (forall ip, go_ToIPv6 ip = to_IPv6 ip) /\
  (forall scale value t, go_Interval_Add (mk_go_Interval scale value) t = interval_Add scale value t).

Lemma scalar_tie_holds : scalar_tie.
Proof.
  unfold scalar_tie.
  repeat match goal with |- _ /\ _ => split end.
  - exact go_Date_Unix_eq.
  - exact go_Date_Time_eq.
  - exact go_ToDate_eq.
  - exact go_NewDate_eq.
  - exact go_Date32_Unix_eq.
  - exact go_Date32_Time_eq.
  - exact go_ToDate32_eq.
  - exact go_NewDate32_eq.
  - exact go_ToDateTime_eq.
  - exact go_DateTime_Time_eq.
  - exact go_Precision_Scale_eq.
  - exact go_Precision_Scale_fuel_sufficient.
  - exact go_Precision_Duration_eq.
  - exact go_Precision_Valid_eq.
  - exact go_ToDateTime64_eq.
  - exact go_DateTime64_Time_eq.
  - exact go_Int128_Int_eq.
  - exact go_Int128_UInt64_eq.
  - exact go_Int128FromInt_eq.
  - exact go_Int128FromUInt64_eq.
  - exact go_UInt128_UInt64_eq.
  - exact go_UInt128_Int_eq.
  - exact go_UInt128FromInt_eq.
  - exact go_UInt128FromUInt64_eq.
  - exact go_Int256FromInt_eq.
  - exact go_UInt256FromInt_eq.
  - exact go_UInt256FromUInt64_eq.
  - exact go_IPv4_ToIP_eq.
  - exact go_ToIPv4_eq.
  - exact go_IPv6_ToIP_eq.
  - exact go_ToIPv6_eq.
  - exact go_Interval_Add_eq.
Qed.

(* ---- main C20 theorems, restated over the translated functions ------------------------------------ *)
Theorem go_date32_rt : forall loc t,
  t_IsZero t = false -> - two31 <= local_day t < two31 ->
  go_ToDate32 t = local_day t /\
  go_Date32_Time loc (go_ToDate32 t) = mkT (86400 * local_day t) 0 0 /\
  t_Date (go_Date32_Time loc (go_ToDate32 t)) = t_Date t /\
  0 <= local_sec t - unix (go_Date32_Time loc (go_ToDate32 t)) < 86400.
Proof.
  intros loc t Hz Hr. rewrite go_ToDate32_eq, go_Date32_Time_eq. exact (date32_rt t Hz Hr).
Qed.

Theorem go_datetime64_rt : forall loc p t,
  0 <= p <= 9 -> wf_time t -> t_IsZero t = false -> in_i64z (ticks_of t p) ->
  exists v b, go_ToDateTime64 t p = Some v /\ v = ticks_of t p /\
              go_DateTime64_Time loc v p = Some b /\
              unix b = unix t /\ nsec b = nsec t - nsec t mod go_Precision_Scale p /\ zoff b = loc.
Proof.
  intros loc p t Hp Hw Hz Hr. destruct (datetime64_rt loc p t Hp Hw Hz Hr) as (E & Eu & En & Eo).
  exists (to_datetime64 t p), (datetime64_Time loc (to_datetime64 t p) p).
  rewrite go_ToDateTime64_eq, go_Precision_Scale_eq.
  rewrite go_DateTime64_Time_eq by (rewrite E; exact Hr). repeat split; assumption.
Qed.

Theorem go_interval_add_clock_units : forall scale unit_ns v t,
  In (scale, unit_ns) [(IntervalSecond, dur_Second); (IntervalMinute, dur_Minute); (IntervalHour, dur_Hour)] ->
  wf_time t -> - two61 <= unix t <= two61 -> in_i64z (unit_ns * v) ->
  exists t', go_Interval_Add (mk_go_Interval scale v) t = Some t' /\
             wf_time t' /\ total_ns t' = total_ns t + v * unit_ns /\ zoff t' = zoff t.
Proof. intros scale unit_ns v t. rewrite go_Interval_Add_eq. apply interval_add_clock_units. Qed.

Theorem go_interval_add_days : forall v t,
  wf_time t -> sane t -> - two31z <= v <= two31z ->
  go_Interval_Add (mk_go_Interval IntervalDay v) t = Some (mkT (unix t + v * 86400) (nsec t) (zoff t)).
Proof. intros v t. rewrite go_Interval_Add_eq. apply interval_add_days. Qed.

Theorem go_interval_add_months : forall v t,
  wf_time t -> sane t -> - two31z <= v <= two31z ->
  let '(y, m, d) := t_Date t in
  let y2 := y + (m - 1 + v) / 12 in
  let m2 := (m - 1 + v) mod 12 + 1 in
  exists t', go_Interval_Add (mk_go_Interval IntervalMonth v) t = Some t' /\
    nsec t' = nsec t /\ zoff t' = zoff t /\ t_Clock t' = t_Clock t /\
    local_day t' = days_from_civil y2 m2 1 + (d - 1) /\
    (d <= days_in_month y2 m2 -> t_Date t' = (y2, m2, d)).
Proof. intros v t. rewrite go_Interval_Add_eq. apply interval_add_months. Qed.

(* the known finding, now about the translated source itself: a quarter is FOUR months *)
Theorem go_interval_add_quarters_refuted :
  exists v t, wf_time t /\ sane t /\ - 715827882 <= v <= 715827882 /\
    go_Interval_Add (mk_go_Interval IntervalQuarter v) t = Some (mkT 1589536800 0 0) /\
    go_Interval_Add (mk_go_Interval IntervalMonth (3 * v)) t = Some (mkT 1586944800 0 0) /\
    t_Date t = (2020, 1, 15) /\ t_Date (mkT 1589536800 0 0) = (2020, 5, 15) /\
    t_Date (mkT 1586944800 0 0) = (2020, 4, 15) /\
    go_Interval_Add (mk_go_Interval IntervalQuarter v) t <> go_Interval_Add (mk_go_Interval IntervalMonth (3 * v)) t.
Proof.
  destruct interval_add_quarters_refuted as (v & t & H). exists v, t.
  rewrite !go_Interval_Add_eq. exact H.
Qed.

Theorem go_interval_add_quarters_impl : forall v t,
  - 536870912 <= v <= 536870912 ->
  go_Interval_Add (mk_go_Interval IntervalQuarter v) t = go_Interval_Add (mk_go_Interval IntervalMonth (4 * v)) t.
Proof. intros v t. rewrite !go_Interval_Add_eq. apply interval_add_quarters_impl. Qed.


(* ================================================================================================== *)
(* C20y: the temporal COLUMNS' methods, translated from proto/col_date*.go (gen/ScalFuns.v), are the    *)
(* hand model of model/ScalCols.v; AppendArr is the fold of Append; and, over the translated methods,  *)
(* every value appended after ANY history of one column object is read back by Row as the instant      *)
(* truncated to the column's CURRENT precision in its CURRENT location.                                *)
(* ================================================================================================== *)

(* ---- slices -------------------------------------------------------------------------------------- *)
Lemma slice_index_cases {A} (s : list A) i :
  (slice_oob s i = true /\ slice_at s i = None) \/ (slice_oob s i = false /\ exists x, slice_at s i = Some x).
Proof. unfold slice_oob. destruct (slice_at s i) as [x|]; [right; eauto | left; auto]. Qed.

Lemma slice_get_at s i x : slice_at s i = Some x -> slice_get s i = x.
Proof. unfold slice_get. intros ->. reflexivity. Qed.

Lemma slice_at_app_r {A} (s t : list A) i : 0 <= i -> slice_at (s ++ t) (slice_len s + i) = slice_at t i.
Proof.
  intros Hi. unfold slice_at, slice_len.
  destruct (Z.of_nat (length s) + i <? 0) eqn:E1; [lia|]. destruct (i <? 0) eqn:E2; [lia|].
  rewrite nth_error_app2 by lia. f_equal. lia.
Qed.

Lemma slice_at_last {A} (s : list A) x : slice_at (s ++ [x]) (slice_len s) = Some x.
Proof. replace (slice_len s) with (slice_len s + 0) by lia. rewrite slice_at_app_r by lia. reflexivity. Qed.

Lemma slice_at_nth {A} (s : list A) k : slice_at s (Z.of_nat k) = nth_error s k.
Proof. unfold slice_at. destruct (Z.of_nat k <? 0) eqn:E; [lia|]. rewrite Nat2Z.id. reflexivity. Qed.

Lemma slice_at_In {A} (s : list A) i x : slice_at s i = Some x -> In x s.
Proof. unfold slice_at. destruct (i <? 0); [discriminate|]. apply nth_error_In. Qed.

Lemma slice_at_mid (pre suf : list Z) z : slice_at (pre ++ z :: suf) (slice_len pre) = Some z.
Proof. replace (slice_len pre) with (slice_len pre + 0) by lia. rewrite slice_at_app_r by lia. reflexivity. Qed.

Lemma slice_set_mid (pre suf : list Z) z e : slice_set (pre ++ z :: suf) (slice_len pre) e = pre ++ e :: suf.
Proof.
  unfold slice_set, slice_len. destruct (Z.of_nat (length pre) <? 0) eqn:E; [lia|]. rewrite Nat2Z.id.
  clear E. induction pre as [|x pre IH]; [reflexivity|]. cbn [length app list_set]. rewrite IH. reflexivity.
Qed.

Lemma slice_len_snoc {A} (s : list A) x : slice_len (s ++ [x]) = slice_len s + 1.
Proof. unfold slice_len. rewrite app_length. cbn [length]. lia. Qed.

(* ---- the shape of the three `for i, v := range vs { dates[i] = f(v) }` loops ----------------------- *)
(* filling the zeroed buffer element by element IS the map; the index check never fails *)
Ltac fill_loop f :=
  let vs := fresh "vs" in let IH := fresh "IH" in let pre := fresh "pre" in let suf := fresh "suf" in
  let H := fresh "H" in let v := fresh "v" in let z := fresh "z" in
  intros vs; induction vs as [|v vs IH]; intros pre suf H;
  [ destruct suf; [|discriminate]; cbn; rewrite !app_nil_r; reflexivity
  | destruct suf as [|z suf]; [discriminate|]; cbn [map];
    cbn -[slice_oob slice_set slice_len Z.add];
    unfold slice_oob; rewrite slice_at_mid, slice_set_mid;
    replace (pre ++ f v :: suf) with ((pre ++ [f v]) ++ suf) by (rewrite <- app_assoc; reflexivity);
    rewrite <- (slice_len_snoc pre (f v)); rewrite IH by (cbn [length] in H; lia);
    rewrite <- app_assoc; reflexivity ].

Lemma go_ColDate_AppendArr_range1_eq : forall vs pre suf, length suf = length vs ->
  go_ColDate_AppendArr_range1 vs (slice_len pre) (pre ++ suf) = Some (pre ++ map go_ToDate vs).
Proof. fill_loop go_ToDate. Qed.
Lemma go_ColDate32_AppendArr_range1_eq : forall vs pre suf, length suf = length vs ->
  go_ColDate32_AppendArr_range1 vs (slice_len pre) (pre ++ suf) = Some (pre ++ map go_ToDate32 vs).
Proof. fill_loop go_ToDate32. Qed.
Lemma go_ColDateTime_AppendArr_range1_eq : forall vs pre suf, length suf = length vs ->
  go_ColDateTime_AppendArr_range1 vs (slice_len pre) (pre ++ suf) = Some (pre ++ map go_ToDateTime vs).
Proof. fill_loop go_ToDateTime. Qed.

Lemma slice_make_len {A} (vs : list A) : length (slice_make (slice_len vs)) = length vs.
Proof. unfold slice_make, slice_len. rewrite repeat_length. lia. Qed.

Lemma map_ext_eq {A B} (f g : A -> B) l : (forall x, f x = g x) -> map f l = map g l.
Proof. intros H. apply map_ext. exact H. Qed.

(* ---- ColDate ---------------------------------------------------------------------------------------- *)
Lemma go_ColDate_Append_eq : forall c v, go_ColDate_Append c v = col_date_AppendV c v.
Proof. intros. unfold go_ColDate_Append, col_date_AppendV. rewrite go_ToDate_eq. reflexivity. Qed.

(* the index checks of the batch never fail *)
Lemma go_ColDate_AppendArr_eq : forall c vs, go_ColDate_AppendArr c vs = Some (col_date_AppendArr c vs).
Proof.
  intros. unfold go_ColDate_AppendArr, col_date_AppendArr. cbv zeta.
  pose proof (go_ColDate_AppendArr_range1_eq vs [] (slice_make (slice_len vs)) (slice_make_len vs)) as R.
  cbn [app] in R. change (slice_len (@nil Z)) with 0 in R. rewrite R.
  cbn [app]. rewrite (map_ext_eq _ _ vs go_ToDate_eq). reflexivity.
Qed.

(* None = the index panic *)
Lemma go_ColDate_Row_eq : forall loc c i, go_ColDate_Row loc c i = col_date_RowAt c i.
Proof.
  intros. unfold go_ColDate_Row, col_date_RowAt.
  destruct (slice_index_cases c i) as [[-> ->]|[-> [x E]]]; [reflexivity|].
  rewrite E, (slice_get_at _ _ _ E), go_Date_Time_eq. reflexivity.
Qed.

(* ---- ColDate32 -------------------------------------------------------------------------------------- *)
Lemma go_ColDate32_Append_eq : forall c v, go_ColDate32_Append c v = col_date32_AppendV c v.
Proof. intros. unfold go_ColDate32_Append, col_date32_AppendV. rewrite go_ToDate32_eq. reflexivity. Qed.

Lemma go_ColDate32_AppendArr_eq : forall c vs, go_ColDate32_AppendArr c vs = Some (col_date32_AppendArr c vs).
Proof.
  intros. unfold go_ColDate32_AppendArr, col_date32_AppendArr. cbv zeta.
  pose proof (go_ColDate32_AppendArr_range1_eq vs [] (slice_make (slice_len vs)) (slice_make_len vs)) as R.
  cbn [app] in R. change (slice_len (@nil Z)) with 0 in R. rewrite R.
  cbn [app]. rewrite (map_ext_eq _ _ vs go_ToDate32_eq). reflexivity.
Qed.

Lemma go_ColDate32_Row_eq : forall loc c i, go_ColDate32_Row loc c i = col_date32_RowAt c i.
Proof.
  intros. unfold go_ColDate32_Row, col_date32_RowAt.
  destruct (slice_index_cases c i) as [[-> ->]|[-> [x E]]]; [reflexivity|].
  rewrite E, (slice_get_at _ _ _ E), go_Date32_Time_eq. reflexivity.
Qed.

(* ---- ColDateTime ------------------------------------------------------------------------------------ *)
(* c.loc() is never nil *)
Lemma go_ColDateTime_loc_eq : forall loc c, go_ColDateTime_loc loc c = Some (col_dt_loc loc c).
Proof. intros loc [d [l|]]; reflexivity. Qed.

(* the rows are DateTime values (uint32) *)
Lemma go_ColDateTime_Row_eq : forall loc c i, Forall is_u32 (dt_Data c) ->
  go_ColDateTime_Row loc c i = col_dt_RowAt loc c i.
Proof.
  intros loc c i F. unfold go_ColDateTime_Row, col_dt_RowAt.
  destruct (slice_index_cases (dt_Data c) i) as [[-> ->]|[-> [x E]]]; [reflexivity|].
  rewrite E, (slice_get_at _ _ _ E), go_ColDateTime_loc_eq.
  rewrite go_DateTime_Time_eq by (rewrite Forall_forall in F; apply F; eapply slice_at_In; exact E).
  reflexivity.
Qed.

Lemma go_ColDateTime_AppendRaw_eq : forall c d, go_ColDateTime_AppendRaw c d = col_dt_AppendRaw c d.
Proof. reflexivity. Qed.
Lemma go_ColDateTime_Append_eq : forall c v, go_ColDateTime_Append c v = col_dt_Append c v.
Proof. reflexivity. Qed.
Lemma go_ColDateTime_AppendArr_eq : forall c vs, go_ColDateTime_AppendArr c vs = Some (col_dt_AppendArr c vs).
Proof.
  intros. unfold go_ColDateTime_AppendArr, col_dt_AppendArr. cbv zeta.
  pose proof (go_ColDateTime_AppendArr_range1_eq vs [] (slice_make (slice_len vs)) (slice_make_len vs)) as R.
  cbn [app] in R. change (slice_len (@nil Z)) with 0 in R. rewrite R.
  reflexivity.
Qed.

(* Infer: what it does with the parsed zone (the parsing itself is the primitive parse_datetime_params) *)
Lemma go_ColDateTime_Infer_eq : forall tzdb c t,
  go_ColDateTime_Infer tzdb c t = col_dt_Infer (parse_datetime_params tzdb t) c.
Proof.
  intros. unfold go_ColDateTime_Infer, col_dt_Infer, parse_datetime_params, str_Trim, load_location.
  destruct (ct_Elem t) as [|x e]; [reflexivity|]. cbn [str_eqb bytes_eqb]. cbv zeta.
  destruct (tzdb _); reflexivity.
Qed.

(* ---- ColDateTime64 ---------------------------------------------------------------------------------- *)
Lemma go_ColDateTime64_WithPrecision_eq : forall c p, go_ColDateTime64_WithPrecision c p = col_dt64_WithPrecision c p.
Proof. reflexivity. Qed.
Lemma go_ColDateTime64_WithLocation_eq : forall c l, go_ColDateTime64_WithLocation c l = col_dt64_WithLocation c l.
Proof. reflexivity. Qed.
Lemma go_ColDateTime64_loc_eq : forall loc c, go_ColDateTime64_loc loc c = Some (col_dt64_loc loc c).
Proof. intros loc [d [l|] p s]; reflexivity. Qed.
Lemma go_ColDateTime64_AppendRaw_eq : forall c d, go_ColDateTime64_AppendRaw c d = col_dt64_AppendRaw c d.
Proof. reflexivity. Qed.

Lemma parse_uint8_le s n : parse_uint8 s = Some n -> (n <= 255)%N.
Proof.
  unfold parse_uint8. destruct s; [discriminate|]. destruct (digits_val 0 _) as [m|]; [|discriminate].
  destruct (m <=? 255)%N eqn:E; [|discriminate]. intros [= <-]. apply N.leb_le. exact E.
Qed.

(* Infer: precision, zone and the flag are replaced together and only when the whole type is accepted;
   the rows are kept (the parsing itself is the primitive parse_datetime64_params) *)
Lemma go_ColDateTime64_Infer_eq : forall tzdb c t,
  go_ColDateTime64_Infer tzdb c t = col_dt64_Infer (parse_datetime64_params tzdb t) c.
Proof.
  intros. unfold go_ColDateTime64_Infer, col_dt64_Infer, parse_datetime64_params, str_Trim, str_Cut,
    str_ParseUint8, load_location.
  destruct (ct_Elem t) as [|x e]; [reflexivity|]. cbn [str_eqb bytes_eqb].
  destruct (cut_byte 44%N (x :: e)) as [[pStr locStr] hasloc]. cbv zeta.
  destruct (parse_uint8 _) as [n|] eqn:P; [|reflexivity]. cbv iota beta.
  apply parse_uint8_le in P.
  assert (U : u8 (Z.of_N n) = Z.of_N n) by (unfold u8; lia).
  rewrite U. unfold go_Precision_Valid.
  assert (V : (Z.of_N n <=? PrecisionMax) = (n <=? precision_max)%N).
  { change PrecisionMax with 9. change precision_max with 9%N.
    destruct (Z.of_N n <=? 9) eqn:E1, (n <=? 9)%N eqn:E2; try reflexivity; lia. }
  rewrite V. destruct (n <=? precision_max)%N; [|reflexivity]. cbn [negb].
  destruct hasloc; [|reflexivity]. destruct (tzdb _); reflexivity.
Qed.

(* the rows are DateTime64 values (int64); None = the panics (no precision set, index) *)
Lemma go_ColDateTime64_Row_eq : forall loc c i, Forall in_i64z (dt64_Data c) ->
  go_ColDateTime64_Row loc c i = col_dt64_RowAt loc c i.
Proof.
  intros loc c i F. unfold go_ColDateTime64_Row, col_dt64_RowAt.
  destruct (dt64_PrecisionSet c); [|reflexivity]. cbn [negb].
  destruct (slice_index_cases (dt64_Data c) i) as [[-> ->]|[-> [x E]]]; [reflexivity|].
  rewrite E, (slice_get_at _ _ _ E), go_ColDateTime64_loc_eq.
  rewrite go_DateTime64_Time_eq by (rewrite Forall_forall in F; apply F; eapply slice_at_In; exact E).
  reflexivity.
Qed.

Lemma go_ColDateTime64_Append_eq : forall c v, go_ColDateTime64_Append c v = col_dt64_Append c v.
Proof.
  intros [d l p s] v. unfold go_ColDateTime64_Append, col_dt64_Append.
  cbn [dt64_Data dt64_Location dt64_Precision dt64_PrecisionSet]. destruct s; [|reflexivity].
  cbn [negb]. rewrite go_ToDateTime64_eq. reflexivity.
Qed.

Lemma go_ColDateTime64_AppendArr_range1_eq : forall vs k c,
  go_ColDateTime64_AppendArr_range1 vs k c =
  Some (mkColDT64 (dt64_Data c ++ map (fun v => to_datetime64 v (dt64_Precision c)) vs)
                  (dt64_Location c) (dt64_Precision c) (dt64_PrecisionSet c)).
Proof.
  induction vs as [|v vs IH]; intros k c.
  - cbn. rewrite app_nil_r. destruct c; reflexivity.
  - cbn [go_ColDateTime64_AppendArr_range1 map]. rewrite go_ToDateTime64_eq, IH.
    unfold go_ColDateTime64_AppendRaw. cbn [dt64_Data dt64_Location dt64_Precision dt64_PrecisionSet].
    rewrite <- app_assoc. reflexivity.
Qed.

Lemma go_ColDateTime64_AppendArr_eq : forall c vs, go_ColDateTime64_AppendArr c vs = col_dt64_AppendArr c vs.
Proof.
  intros. unfold go_ColDateTime64_AppendArr, col_dt64_AppendArr. destruct (dt64_PrecisionSet c) eqn:E; [|reflexivity].
  cbn [negb]. rewrite go_ColDateTime64_AppendArr_range1_eq, E. reflexivity.
Qed.

(* ---- AppendArr is the fold of Append (over the translated methods) --------------------------------- *)
Definition obind {A B} (o : option A) (f : A -> option B) : option B := match o with Some a => f a | None => None end.

Lemma fold_snoc_map {A} (f : A -> Z) vs : forall c, fold_left (fun c v => c ++ [f v]) vs c = c ++ map f vs.
Proof.
  induction vs as [|v vs IH]; intros c; cbn [fold_left map]; [rewrite app_nil_r; reflexivity|].
  rewrite IH, <- app_assoc. reflexivity.
Qed.

Lemma fold_left_ext_eq {A B} (f g : A -> B -> A) l : (forall a b, f a b = g a b) -> forall a, fold_left f l a = fold_left g l a.
Proof. intros H. induction l as [|b l IH]; intros a; cbn [fold_left]; [reflexivity|]. rewrite H. apply IH. Qed.

Theorem go_ColDate_AppendArr_is_fold : forall c vs,
  go_ColDate_AppendArr c vs = Some (fold_left go_ColDate_Append vs c).
Proof.
  intros. rewrite go_ColDate_AppendArr_eq. f_equal. unfold col_date_AppendArr.
  rewrite <- (fold_snoc_map to_date). symmetry. apply fold_left_ext_eq. intros. apply go_ColDate_Append_eq.
Qed.

Theorem go_ColDate32_AppendArr_is_fold : forall c vs,
  go_ColDate32_AppendArr c vs = Some (fold_left go_ColDate32_Append vs c).
Proof.
  intros. rewrite go_ColDate32_AppendArr_eq. f_equal. unfold col_date32_AppendArr.
  rewrite <- (fold_snoc_map to_date32). symmetry. apply fold_left_ext_eq. intros. apply go_ColDate32_Append_eq.
Qed.

Theorem go_ColDateTime_AppendArr_is_fold : forall c vs,
  go_ColDateTime_AppendArr c vs = Some (fold_left go_ColDateTime_Append vs c).
Proof.
  intros. rewrite go_ColDateTime_AppendArr_eq. f_equal. unfold col_dt_AppendArr.
  revert c. induction vs as [|v vs IH]; intros c; cbn [fold_left map].
  - rewrite app_nil_r. destruct c; reflexivity.
  - rewrite <- IH. unfold go_ColDateTime_Append. cbn [dt_Data dt_Location]. rewrite <- app_assoc. reflexivity.
Qed.

(* with a precision set the batch is the fold of Append (a panic of one Append would end the fold);
   without one both panic - the batch even when it is empty *)
Theorem go_ColDateTime64_AppendArr_is_fold : forall c vs,
  go_ColDateTime64_AppendArr c vs =
  if dt64_PrecisionSet c then fold_left (fun oc v => obind oc (fun c => go_ColDateTime64_Append c v)) vs (Some c)
  else None.
Proof.
  intros. rewrite go_ColDateTime64_AppendArr_eq. unfold col_dt64_AppendArr.
  destruct (dt64_PrecisionSet c) eqn:E; [|reflexivity].
  symmetry. revert c E. induction vs as [|v vs IH]; intros c E; cbn [fold_left map obind].
  - rewrite app_nil_r. destruct c; cbn in *; subst; reflexivity.
  - rewrite go_ColDateTime64_Append_eq. unfold col_dt64_Append. rewrite E.
    rewrite IH by (cbn; exact E). unfold col_dt64_AppendRaw. cbn [dt64_Data dt64_Location dt64_Precision dt64_PrecisionSet].
    rewrite <- app_assoc. reflexivity.
Qed.

(* ---- histories of ONE ColDateTime64 object, run on the TRANSLATED methods ---------------------------- *)
(* None = a panic (Append / AppendArr without a precision); a failed Infer returns an error and the run goes on *)
Definition go_dt64_step (tzdb : bytes -> option Z) (c : col_dt64) (op : dt64_op) : option col_dt64 :=
  match op with
  | OpAppend v => go_ColDateTime64_Append c v
  | OpAppendArr vs => go_ColDateTime64_AppendArr c vs
  | OpAppendRaw d => Some (go_ColDateTime64_AppendRaw c d)
  | OpInfer t => Some (fst (go_ColDateTime64_Infer tzdb c t))
  | OpWithPrecision p => Some (go_ColDateTime64_WithPrecision c p)
  | OpWithLocation l => Some (go_ColDateTime64_WithLocation c l)
  end.
Fixpoint go_dt64_run (tzdb : bytes -> option Z) (c : col_dt64) (h : list dt64_op) : option col_dt64 :=
  match h with
  | [] => Some c
  | op :: h' => obind (go_dt64_step tzdb c op) (fun c' => go_dt64_run tzdb c' h')
  end.

(* the parameters a history leaves, read off the operations alone: those of the LAST accepted Infer /
   WithPrecision / WithLocation; appends and rejected types change nothing *)
Definition dt64_params : Type := Z * option Z * bool.      (* precision, zone, precision set *)
Definition dt64_params_of (c : col_dt64) : dt64_params := (dt64_Precision c, dt64_Location c, dt64_PrecisionSet c).
Definition dt64_params_step (tzdb : bytes -> option Z) (q : dt64_params) (op : dt64_op) : dt64_params :=
  let '(p, l, s) := q in
  match op with
  | OpInfer t => match parse_datetime64_params tzdb t with Some (p', l') => (p', l', true) | None => q end
  | OpWithPrecision p' => (p', l, true)
  | OpWithLocation l' => (p, l', s)
  | _ => q
  end.

Lemma go_dt64_step_params : forall tzdb c op c',
  go_dt64_step tzdb c op = Some c' -> dt64_params_of c' = dt64_params_step tzdb (dt64_params_of c) op.
Proof.
  intros tzdb c op c' H. unfold dt64_params_of, dt64_params_step. destruct op as [v|vs|d|t|p|l]; cbn [go_dt64_step] in H.
  - rewrite go_ColDateTime64_Append_eq in H. unfold col_dt64_Append in H. destruct (dt64_PrecisionSet c) eqn:E; [|discriminate].
    injection H as <-. cbn. rewrite ?E. reflexivity.
  - rewrite go_ColDateTime64_AppendArr_eq in H. unfold col_dt64_AppendArr in H. destruct (dt64_PrecisionSet c) eqn:E; [|discriminate].
    injection H as <-. cbn. rewrite ?E. reflexivity.
  - injection H as <-. reflexivity.
  - injection H as <-. rewrite go_ColDateTime64_Infer_eq. unfold col_dt64_Infer.
    destruct (parse_datetime64_params tzdb t) as [[p l]|]; reflexivity.
  - injection H as <-. reflexivity.
  - injection H as <-. reflexivity.
Qed.

(* the statement the seeded change C20C violates: nothing but the operations' own parameters survives in the
   object - in particular nothing derived from an EARLIER precision *)
Theorem go_dt64_run_params : forall tzdb h c c',
  go_dt64_run tzdb c h = Some c' ->
  dt64_params_of c' = fold_left (dt64_params_step tzdb) h (dt64_params_of c).
Proof.
  intros tzdb h. induction h as [|op h IH]; intros c c' H; cbn [go_dt64_run fold_left] in *.
  - injection H as <-. reflexivity.
  - destruct (go_dt64_step tzdb c op) as [c1|] eqn:E; [|discriminate]. cbn [obind] in H.
    rewrite (IH _ _ H), (go_dt64_step_params _ _ _ _ E). reflexivity.
Qed.

(* a stored tick count read back *)
Lemma go_dt64_Row_stored : forall loc c i v,
  dt64_PrecisionSet c = true -> 0 <= dt64_Precision c <= 9 ->
  wf_time v -> t_IsZero v = false -> in_i64z (ticks_of v (dt64_Precision c)) ->
  slice_at (dt64_Data c) i = Some (to_datetime64 v (dt64_Precision c)) ->
  exists b, go_ColDateTime64_Row loc c i = Some b /\
    unix b = unix v /\ nsec b = nsec v - nsec v mod precision_Scale (dt64_Precision c) /\
    zoff b = col_loc loc (dt64_Location c).
Proof.
  intros loc c i v Hs Hp Hw Hz Hr E.
  destruct (datetime64_rt loc (dt64_Precision c) v Hp Hw Hz Hr) as (Et & Eu & En & Eo).
  unfold go_ColDateTime64_Row. rewrite Hs. cbn [negb].
  unfold slice_oob. rewrite E, (slice_get_at _ _ _ E), go_ColDateTime64_loc_eq.
  rewrite go_DateTime64_Time_eq by (rewrite Et; exact Hr).
  eexists. split; [reflexivity|]. cbn [t_In unix nsec zoff]. unfold col_dt64_loc. repeat split; assumption.
Qed.

Definition dt64_op_ok (op : dt64_op) : Prop :=
  match op with OpWithPrecision p => 0 <= p <= 9 | _ => True end.

Lemma parse_datetime64_params_valid tzdb t p l : parse_datetime64_params tzdb t = Some (p, l) -> 0 <= p <= 9.
Proof.
  unfold parse_datetime64_params. destruct (ct_Elem t) as [|x e]; [discriminate|].
  destruct (cut_byte 44%N (x :: e)) as [[pStr locStr] hasloc].
  destruct (parse_uint8 _) as [n|]; [|discriminate].
  destruct (n <=? precision_max)%N eqn:E; [|discriminate]. cbn [negb].
  change precision_max with 9%N in E. apply N.leb_le in E.
  destruct hasloc; [destruct (tzdb _); [|discriminate]|]; intros [= <- _]; lia.
Qed.

Lemma dt64_params_valid : forall tzdb h q, Forall dt64_op_ok h -> 0 <= fst (fst q) <= 9 ->
  0 <= fst (fst (fold_left (dt64_params_step tzdb) h q)) <= 9.
Proof.
  intros tzdb h. induction h as [|op h IH]; intros q F Hq; cbn [fold_left]; [exact Hq|].
  inversion F as [|? ? Hop F']; subst. apply IH; [exact F'|].
  destruct q as [[p l] s]. unfold dt64_params_step. destruct op as [v|vs|d|t|p'|l']; cbn in *; try exact Hq; try exact Hop.
  destruct (parse_datetime64_params tzdb t) as [[p' l']|] eqn:P; [|exact Hq].
  cbn. eapply parse_datetime64_params_valid. exact P.
Qed.

(* THE HISTORY STATEMENT.  Whatever was done to the object before - values appended at another precision,
   one by one or in batches, types with another precision or zone inferred, precision or zone set by hand -
   the next value appended is stored as the instant's tick count at the precision the history leaves and is
   read back by Row as that instant, rounded down to the tick, in the zone the history leaves. *)
Theorem go_dt64_history_append_row : forall tzdb loc h c0 c v p l,
  0 <= dt64_Precision c0 <= 9 -> Forall dt64_op_ok h ->
  go_dt64_run tzdb c0 h = Some c ->
  fold_left (dt64_params_step tzdb) h (dt64_params_of c0) = (p, l, true) ->
  wf_time v -> t_IsZero v = false -> in_i64z (ticks_of v p) ->
  exists c' b,
    go_ColDateTime64_Append c v = Some c' /\
    dt64_Data c' = dt64_Data c ++ [ticks_of v p] /\ dt64_params_of c' = (p, l, true) /\
    go_ColDateTime64_Row loc c' (slice_len (dt64_Data c)) = Some b /\
    unix b = unix v /\ nsec b = nsec v - nsec v mod precision_Scale p /\ zoff b = col_loc loc l.
Proof.
  intros tzdb loc h c0 c v p l Hp0 Hok Hrun Hpar Hw Hz Hr.
  pose proof (go_dt64_run_params _ _ _ _ Hrun) as Q. rewrite Hpar in Q.
  pose proof (dt64_params_valid tzdb h (dt64_params_of c0) Hok Hp0) as V. rewrite Hpar in V. cbn [fst] in V.
  unfold dt64_params_of in Q. injection Q as Qp Ql Qs.
  destruct (datetime64_rt loc p v V Hw Hz Hr) as (Et & _).
  rewrite go_ColDateTime64_Append_eq. unfold col_dt64_Append. rewrite Qs, Qp.
  destruct (go_dt64_Row_stored loc (col_dt64_AppendRaw c (to_datetime64 v p)) (slice_len (dt64_Data c)) v) as (b & Rb & Bu & Bn & Bo);
    unfold col_dt64_AppendRaw; cbn [dt64_Data dt64_Location dt64_Precision dt64_PrecisionSet]; rewrite ?Qp; try assumption.
  { apply slice_at_last. }
  exists (col_dt64_AppendRaw c (to_datetime64 v p)), b. unfold dt64_params_of, col_dt64_AppendRaw in *.
  cbn [dt64_Data dt64_Location dt64_Precision dt64_PrecisionSet] in *. rewrite Qp, Ql, Qs, Et in *. repeat split; assumption.
Qed.

(* the same for a batch: element k of the batch, on its own *)
Theorem go_dt64_history_appendarr_row : forall tzdb loc h c0 c vs k v p l,
  0 <= dt64_Precision c0 <= 9 -> Forall dt64_op_ok h ->
  go_dt64_run tzdb c0 h = Some c ->
  fold_left (dt64_params_step tzdb) h (dt64_params_of c0) = (p, l, true) ->
  nth_error vs k = Some v ->
  wf_time v -> t_IsZero v = false -> in_i64z (ticks_of v p) ->
  exists c' b,
    go_ColDateTime64_AppendArr c vs = Some c' /\
    dt64_Data c' = dt64_Data c ++ map (fun v => to_datetime64 v p) vs /\ dt64_params_of c' = (p, l, true) /\
    go_ColDateTime64_Row loc c' (slice_len (dt64_Data c) + Z.of_nat k) = Some b /\
    unix b = unix v /\ nsec b = nsec v - nsec v mod precision_Scale p /\ zoff b = col_loc loc l.
Proof.
  intros tzdb loc h c0 c vs k v p l Hp0 Hok Hrun Hpar Hk Hw Hz Hr.
  pose proof (go_dt64_run_params _ _ _ _ Hrun) as Q. rewrite Hpar in Q.
  pose proof (dt64_params_valid tzdb h (dt64_params_of c0) Hok Hp0) as V. rewrite Hpar in V. cbn [fst] in V.
  unfold dt64_params_of in Q. injection Q as Qp Ql Qs.
  rewrite go_ColDateTime64_AppendArr_eq. unfold col_dt64_AppendArr. rewrite Qs, Qp, Ql.
  set (c' := mkColDT64 _ _ _ _).
  destruct (go_dt64_Row_stored loc c' (slice_len (dt64_Data c) + Z.of_nat k) v) as (b & Rb & Bu & Bn & Bo);
    try assumption; try reflexivity.
  { subst c'. cbn [dt64_Data dt64_Precision]. rewrite slice_at_app_r by lia. rewrite slice_at_nth.
    rewrite nth_error_map, Hk. reflexivity. }
  exists c', b. subst c'. cbn in *. repeat split; assumption.
Qed.

(* ---- Date / Date32 / DateTime columns: batches whose values carry different zone offsets ------------- *)
(* the statement the seeded change C20A violates: every value of a batch lands on the calendar day it has in
   ITS OWN zone, whatever the zones of its neighbours in the batch *)
Theorem go_date_batch_row : forall loc c vs k v,
  nth_error vs k = Some v -> t_IsZero v = false -> 0 <= local_day v < 65536 ->
  exists c' b,
    go_ColDate_AppendArr c vs = Some c' /\ c' = c ++ map to_date vs /\
    go_ColDate_Row loc c' (slice_len c + Z.of_nat k) = Some b /\
    b = mkT (86400 * local_day v) 0 0 /\ t_Date b = t_Date v.
Proof.
  intros loc c vs k v Hk Hz Hr. destruct (date_rt v Hz Hr) as (E & Er & Ed & _).
  exists (c ++ map to_date vs), (date_Time (to_date v)).
  rewrite go_ColDate_AppendArr_eq, go_ColDate_Row_eq. unfold col_date_AppendArr, col_date_RowAt.
  rewrite slice_at_app_r by lia. rewrite slice_at_nth, nth_error_map, Hk. cbn [option_map].
  repeat split; assumption.
Qed.

Theorem go_date32_batch_row : forall loc c vs k v,
  nth_error vs k = Some v -> t_IsZero v = false -> - two31 <= local_day v < two31 ->
  exists c' b,
    go_ColDate32_AppendArr c vs = Some c' /\ c' = c ++ map to_date32 vs /\
    go_ColDate32_Row loc c' (slice_len c + Z.of_nat k) = Some b /\
    b = mkT (86400 * local_day v) 0 0 /\ t_Date b = t_Date v.
Proof.
  intros loc c vs k v Hk Hz Hr. destruct (date32_rt v Hz Hr) as (E & Er & Ed & _).
  exists (c ++ map to_date32 vs), (date32_Time (to_date32 v)).
  rewrite go_ColDate32_AppendArr_eq, go_ColDate32_Row_eq. unfold col_date32_AppendArr, col_date32_RowAt.
  rewrite slice_at_app_r by lia. rewrite slice_at_nth, nth_error_map, Hk. cbn [option_map].
  repeat split; assumption.
Qed.

(* single appends are the batches of one *)
Theorem go_date_append_row : forall loc c v,
  t_IsZero v = false -> 0 <= local_day v < 65536 ->
  go_ColDate_Row loc (go_ColDate_Append c v) (slice_len c) = Some (mkT (86400 * local_day v) 0 0).
Proof.
  intros loc c v Hz Hr. destruct (date_rt v Hz Hr) as (E & Er & _).
  rewrite go_ColDate_Append_eq, go_ColDate_Row_eq. unfold col_date_AppendV, col_date_RowAt.
  rewrite slice_at_last. cbn [option_map]. f_equal. exact Er.
Qed.
Theorem go_date32_append_row : forall loc c v,
  t_IsZero v = false -> - two31 <= local_day v < two31 ->
  go_ColDate32_Row loc (go_ColDate32_Append c v) (slice_len c) = Some (mkT (86400 * local_day v) 0 0).
Proof.
  intros loc c v Hz Hr. destruct (date32_rt v Hz Hr) as (E & Er & _).
  rewrite go_ColDate32_Append_eq, go_ColDate32_Row_eq. unfold col_date32_AppendV, col_date32_RowAt.
  rewrite slice_at_last. cbn [option_map]. f_equal. exact Er.
Qed.

(* ---- histories of one ColDateTime object ---------------------------------------------------------------- *)
Definition go_dt_step (tzdb : bytes -> option Z) (c : col_dt) (op : dt_op) : option col_dt :=
  match op with
  | DOpAppend v => Some (go_ColDateTime_Append c v)
  | DOpAppendArr vs => go_ColDateTime_AppendArr c vs
  | DOpAppendRaw d => Some (go_ColDateTime_AppendRaw c d)
  | DOpInfer t => Some (fst (go_ColDateTime_Infer tzdb c t))
  end.
Fixpoint go_dt_run (tzdb : bytes -> option Z) (c : col_dt) (h : list dt_op) : option col_dt :=
  match h with
  | [] => Some c
  | op :: h' => obind (go_dt_step tzdb c op) (fun c' => go_dt_run tzdb c' h')
  end.
Definition dt_zone_step (tzdb : bytes -> option Z) (l : option Z) (op : dt_op) : option Z :=
  match op with
  | DOpInfer t => match parse_datetime_params tzdb t with Some l' => l' | None => l end
  | _ => l
  end.

(* a history never panics, keeps uint32 rows, and leaves the zone of the last accepted type *)
Lemma go_dt_run_inv : forall tzdb h c, Forall is_u32 (dt_Data c) ->
  (forall op d, In op h -> op = DOpAppendRaw d -> is_u32 d) ->
  exists c', go_dt_run tzdb c h = Some c' /\ Forall is_u32 (dt_Data c') /\
             dt_Location c' = fold_left (dt_zone_step tzdb) h (dt_Location c).
Proof.
  intros tzdb h. induction h as [|op h IH]; intros c F R; cbn [go_dt_run fold_left].
  - exists c. auto.
  - assert (S1 : exists c1, go_dt_step tzdb c op = Some c1 /\ Forall is_u32 (dt_Data c1) /\
                            dt_Location c1 = dt_zone_step tzdb (dt_Location c) op).
    { assert (U : forall t, is_u32 (to_datetime t)).
      { intros t. unfold to_datetime. destruct (t_IsZero t); unfold is_u32, u32, two32; lia. }
      destruct op as [v|vs|d|t]; cbn [go_dt_step dt_zone_step].
      - eexists. split; [reflexivity|]. cbn. split; [|reflexivity]. apply Forall_app. split; [exact F|]. constructor; [apply U|constructor].
      - rewrite go_ColDateTime_AppendArr_eq. eexists. split; [reflexivity|]. cbn. split; [|reflexivity].
        apply Forall_app. split; [exact F|]. apply Forall_forall. intros x Hx. apply in_map_iff in Hx. destruct Hx as (t & <- & _). apply U.
      - eexists. split; [reflexivity|]. cbn. split; [|reflexivity]. apply Forall_app. split; [exact F|].
        constructor; [|constructor]. eapply R; [left; reflexivity|reflexivity].
      - rewrite go_ColDateTime_Infer_eq. unfold col_dt_Infer. destruct (parse_datetime_params tzdb t); cbn; eexists; (split; [reflexivity|]); cbn; auto. }
    destruct S1 as (c1 & E1 & F1 & L1). rewrite E1. cbn [obind].
    destruct (IH c1 F1) as (c' & E' & F' & L'); [intros op' d Hin; apply R; right; exact Hin|].
    exists c'. rewrite L1 in L'. auto.
Qed.

Theorem go_dt_history_append_row : forall tzdb loc h c0 c v,
  Forall is_u32 (dt_Data c0) -> (forall op d, In op h -> op = DOpAppendRaw d -> is_u32 d) ->
  go_dt_run tzdb c0 h = Some c ->
  t_IsZero v = false -> 0 <= unix v < two32 ->
  go_ColDateTime_Row loc (go_ColDateTime_Append c v) (slice_len (dt_Data c)) =
  Some (mkT (unix v) 0 (col_loc loc (fold_left (dt_zone_step tzdb) h (dt_Location c0)))).
Proof.
  intros tzdb loc h c0 c v F R Hrun Hz Hr.
  destruct (go_dt_run_inv tzdb h c0 F R) as (c1 & E1 & F1 & L1). rewrite Hrun in E1. injection E1 as <-.
  destruct (datetime_rt loc (dt_Location c) v Hz Hr) as (Et & _ & Erow).
  rewrite go_ColDateTime_Append_eq.
  assert (U : is_u32 (to_datetime v)) by (rewrite Et; unfold is_u32; exact Hr).
  rewrite go_ColDateTime_Row_eq.
  2:{ cbn. apply Forall_app. split; [exact F1|]. constructor; [exact U|constructor]. }
  unfold col_dt_RowAt, col_dt_Append, col_dt_AppendRaw. cbn [dt_Data dt_Location].
  rewrite slice_at_last. cbn [option_map]. unfold col_datetime_Append in Erow. rewrite Erow, L1. reflexivity.
Qed.

(* ---- the primitive parse_datetime64_params IS the parsing of model/TypeStr.v --------------------------- *)
(* TypeStr.datetime64_infer on a fresh column (old = None), with time.LoadLocation giving the zone [name l]
   for the offset the column model uses: accepted exactly when the primitive gives parameters, and then
   with the same precision and zone *)
Lemma parse_datetime64_params_is_TypeStr : forall (tzdb : bytes -> option Z) (name : Z -> bytes) t,
  datetime64_infer (fun s => option_map name (tzdb s)) None t =
  match parse_datetime64_params tzdb t with
  | Some (p, l) => rok (CDateTime64 (Z.to_N p) (option_map name l))
  | None => Err EInvalid
  end.
Proof.
  intros. unfold datetime64_infer, parse_datetime64_params, ct_Elem. rewrite elem_r_ok. cbn [rbind rok].
  destruct (elem t) as [|x e]; [reflexivity|].
  destruct (cut_byte 44%N (x :: e)) as [[pStr locStr] hasloc].
  destruct (parse_uint8 _) as [n|]; [|reflexivity].
  destruct (n <=? precision_max)%N; [|reflexivity]. cbn [negb].
  destruct hasloc; [destruct (tzdb _); cbn [option_map]|]; rewrite ?N2Z.id; reflexivity.
Qed.

Lemma parse_datetime_params_is_TypeStr : forall (tzdb : bytes -> option Z) (name : Z -> bytes) t,
  datetime_infer (fun s => option_map name (tzdb s)) t =
  match parse_datetime_params tzdb t with
  | Some l => rok (CDateTime (option_map name l))
  | None => Err EInvalid
  end.
Proof.
  intros. unfold datetime_infer, parse_datetime_params, ct_Elem. rewrite elem_r_ok. cbn [rbind rok].
  destruct (elem t) as [|x e]; [reflexivity|]. destruct (tzdb _); reflexivity.
Qed.

(* ---- the tie of the column methods, as one statement ---------------------------------------------------- *)
Definition column_tie : Prop :=
  (forall c v, go_ColDate_Append c v = col_date_AppendV c v) /\
  (forall c vs, go_ColDate_AppendArr c vs = Some (col_date_AppendArr c vs)) /\
  (forall loc c i, go_ColDate_Row loc c i = col_date_RowAt c i) /\
  (forall c v, go_ColDate32_Append c v = col_date32_AppendV c v) /\
  (forall c vs, go_ColDate32_AppendArr c vs = Some (col_date32_AppendArr c vs)) /\
  (forall loc c i, go_ColDate32_Row loc c i = col_date32_RowAt c i) /\
  (forall tzdb c t, go_ColDateTime_Infer tzdb c t = col_dt_Infer (parse_datetime_params tzdb t) c) /\
  (forall loc c, go_ColDateTime_loc loc c = Some (col_dt_loc loc c)) /\
  (forall loc c i, Forall (fun d => 0 <= d < two32) (dt_Data c) -> go_ColDateTime_Row loc c i = col_dt_RowAt loc c i) /\
  (forall c d, go_ColDateTime_AppendRaw c d = col_dt_AppendRaw c d) /\
  (forall c v, go_ColDateTime_Append c v = col_dt_Append c v) /\
  (forall c vs, go_ColDateTime_AppendArr c vs = Some (col_dt_AppendArr c vs)) /\
  (forall c p, go_ColDateTime64_WithPrecision c p = col_dt64_WithPrecision c p) /\
  (forall c l, go_ColDateTime64_WithLocation c l = col_dt64_WithLocation c l) /\
  (forall tzdb c t, go_ColDateTime64_Infer tzdb c t = col_dt64_Infer (parse_datetime64_params tzdb t) c) /\
  (forall loc c, go_ColDateTime64_loc loc c = Some (col_dt64_loc loc c)) /\
  (forall loc c i, Forall in_i64z (dt64_Data c) -> go_ColDateTime64_Row loc c i = col_dt64_RowAt loc c i) /\
  (forall c d, go_ColDateTime64_AppendRaw c d = col_dt64_AppendRaw c d) /\
  (forall c v, go_ColDateTime64_Append c v = col_dt64_Append c v) /\
  (forall c vs, go_ColDateTime64_AppendArr c vs = col_dt64_AppendArr c vs).

Lemma column_tie_holds : column_tie.
Proof.
  unfold column_tie.
  repeat match goal with |- _ /\ _ => split end.
  - exact go_ColDate_Append_eq.
  - exact go_ColDate_AppendArr_eq.
  - exact go_ColDate_Row_eq.
  - exact go_ColDate32_Append_eq.
  - exact go_ColDate32_AppendArr_eq.
  - exact go_ColDate32_Row_eq.
  - exact go_ColDateTime_Infer_eq.
  - exact go_ColDateTime_loc_eq.
  - exact go_ColDateTime_Row_eq.
  - exact go_ColDateTime_AppendRaw_eq.
  - exact go_ColDateTime_Append_eq.
  - exact go_ColDateTime_AppendArr_eq.
  - exact go_ColDateTime64_WithPrecision_eq.
  - exact go_ColDateTime64_WithLocation_eq.
  - exact go_ColDateTime64_Infer_eq.
  - exact go_ColDateTime64_loc_eq.
  - exact go_ColDateTime64_Row_eq.
  - exact go_ColDateTime64_AppendRaw_eq.
  - exact go_ColDateTime64_Append_eq.
  - exact go_ColDateTime64_AppendArr_eq.
Qed.

Definition appendarr_fold_tie : Prop :=
  (forall c vs, go_ColDate_AppendArr c vs = Some (fold_left go_ColDate_Append vs c)) /\
  (forall c vs, go_ColDate32_AppendArr c vs = Some (fold_left go_ColDate32_Append vs c)) /\
  (forall c vs, go_ColDateTime_AppendArr c vs = Some (fold_left go_ColDateTime_Append vs c)) /\
  (forall c vs, go_ColDateTime64_AppendArr c vs =
     if dt64_PrecisionSet c then fold_left (fun oc v => obind oc (fun c => go_ColDateTime64_Append c v)) vs (Some c)
     else None).
Lemma appendarr_fold_tie_holds : appendarr_fold_tie.
Proof.
  repeat split.
  - exact go_ColDate_AppendArr_is_fold.
  - exact go_ColDate32_AppendArr_is_fold.
  - exact go_ColDateTime_AppendArr_is_fold.
  - exact go_ColDateTime64_AppendArr_is_fold.
Qed.
