(* C20: the functions of gen/ScalFuns.v — TRANSLATED from /repo/proto/*.go on every run by
   translator/minigo.go — are the hand model of model/Scalars.v.

   One equation per translated function.  The translation wraps every arithmetic result and every
   width-changing conversion to its Go type; the hand model wraps only where it matters.  Where the two
   differ the extra wrap is proved to be the identity; a premise is stated only where that needs one
   (DateTime.Time and DateTime64.Time: the stored value is an int64 / a uint32, i.e. the parameter has its
   Go type).  Functions that can panic in Go (division by a variable, panic(), Addr.As4) are translated
   to [option]; the equations show the division panics never happen.
   Functions without a hand model (NewDate, NewDate32, Precision.Duration) get their
   specification here. *)
From CH Require Import model.Scalars gen.Consts gen.ScalFuns.
From CH Require Import proofs.CalendarProofs proofs.ScalarsProofs proofs.ScalarsProofs2 proofs.IntervalProofs.
From Coq Require Import Lia ZArith List Bool ZifyBool.
Import ListNotations.
Open Scope Z_scope.
Ltac Zify.zify_post_hook ::= Z.to_euclidean_division_equations.

(* ---- wraps ------------------------------------------------------------------------------------- *)
Lemma i64_range z : in_i64z (i64 z).
Proof. unfold in_i64z, i64, two63, two64. lia. Qed.
Lemma i64_mul_r a b : i64 (a * i64 b) = i64 (a * b).
Proof.
  unfold i64. f_equal. rewrite <- (Z.add_mod_idemp_l (a * ((b + two63) mod two64 - two63))) by (unfold two64; lia).
  rewrite <- (Z.add_mod_idemp_l (a * b)) by (unfold two64; lia). f_equal. f_equal.
  rewrite Z.mul_sub_distr_l, <- Zminus_mod_idemp_l, Z.mul_mod_idemp_r by (unfold two64; lia).
  rewrite Zminus_mod_idemp_l. f_equal. ring.
Qed.
Lemma i64_mul_l a b : i64 (i64 a * b) = i64 (a * b).
Proof. rewrite (Z.mul_comm (i64 a)), i64_mul_r. f_equal. ring. Qed.
Lemma i64_add_r a b : i64 (a + i64 b) = i64 (a + b).
Proof. unfold i64, two63, two64. lia. Qed.

(* wraps unfolded for lia (Z.quot / Z.rem / mod go through Z.to_euclidean_division_equations) *)
Ltac wraps := unfold in_i64z in *; unfold i64, i32, u16, u32, u64, u8, two16, two31, two32, two63, two64, secInDay in *.
Ltac split_ifs := repeat match goal with |- context [if ?c then _ else _] => destruct c eqn:? end.

(* the types of parameters, where an equation needs them *)
Definition is_u32 (z : Z) : Prop := 0 <= z < two32.

(* ---- Date ---------------------------------------------------------------------------------------- *)
Lemma go_Date_Unix_eq : forall d, go_Date_Unix d = date_Unix d.
Proof. intros d. unfold go_Date_Unix, date_Unix. apply i64_mul_r. Qed.

Lemma go_Date_Time_eq : forall loc d, go_Date_Time loc d = date_Time d.
Proof. intros loc d. unfold go_Date_Time, date_Time. rewrite go_Date_Unix_eq. reflexivity. Qed.

Lemma go_ToDate_eq : forall t, go_ToDate t = to_date t.
Proof.
  intros t. unfold go_ToDate, to_date. destruct (t_IsZero t); [reflexivity|]. cbv zeta.
  pose proof (i64_range (t_Unix t + t_ZoneOffset t)) as R. set (s := i64 (t_Unix t + t_ZoneOffset t)) in *.
  clearbody s. split_ifs; f_equal; wraps; lia.
Qed.

Lemma go_NewDate_eq : forall y m d, go_NewDate y m d = to_date (go_Date y m d 0 0 0 0 0).
Proof. intros. unfold go_NewDate. apply go_ToDate_eq. Qed.

(* ---- Date32 -------------------------------------------------------------------------------------- *)
Lemma go_Date32_Unix_eq : forall d, go_Date32_Unix d = date32_Unix d.
Proof. intros d. unfold go_Date32_Unix, date32_Unix. apply i64_mul_r. Qed.

Lemma go_Date32_Time_eq : forall loc d, go_Date32_Time loc d = date32_Time d.
Proof. intros loc d. unfold go_Date32_Time, date32_Time. rewrite go_Date32_Unix_eq. reflexivity. Qed.

Lemma go_ToDate32_eq : forall t, go_ToDate32 t = to_date32 t.
Proof.
  intros t. unfold go_ToDate32, to_date32. destruct (t_IsZero t); [reflexivity|]. cbv zeta.
  pose proof (i64_range (t_Unix t + t_ZoneOffset t)) as R. set (s := i64 (t_Unix t + t_ZoneOffset t)) in *.
  clearbody s. split_ifs; f_equal; wraps; lia.
Qed.

Lemma go_NewDate32_eq : forall y m d, go_NewDate32 y m d = to_date32 (go_Date y m d 0 0 0 0 0).
Proof. intros. unfold go_NewDate32. apply go_ToDate32_eq. Qed.

(* ---- DateTime ------------------------------------------------------------------------------------ *)
Lemma go_ToDateTime_eq : forall t, go_ToDateTime t = to_datetime t.
Proof. reflexivity. Qed.

(* d is a DateTime (uint32): int64(d) does not change it *)
Lemma go_DateTime_Time_eq : forall loc d, is_u32 d -> go_DateTime_Time loc d = datetime_Time loc d.
Proof.
  intros loc d H. unfold go_DateTime_Time, datetime_Time. rewrite i64_id; [reflexivity|].
  unfold is_u32, in_i64z, two32, two63 in *. lia.
Qed.

(* ---- DateTime64 ---------------------------------------------------------------------------------- *)
(* the loop of Precision.Scale, for every p (both sides are the same nine nested tests) *)
Lemma go_Precision_Scale_eq : forall p, go_Precision_Scale p = precision_Scale p.
Proof. intros p. unfold go_Precision_Scale, precision_Scale. vm_compute. reflexivity. Qed.

(* fuel: the translator gives the loop Z.to_nat PrecisionNano iterations because i > p is false at i = 0
   for an unsigned p; indeed more fuel never changes the result *)
Lemma go_Precision_Scale_fuel_sufficient : forall k p, 0 <= p ->
  go_Precision_Scale_for1 (Z.to_nat PrecisionNano + k) p PrecisionNano 1 =
  go_Precision_Scale_for1 (Z.to_nat PrecisionNano) p PrecisionNano 1.
Proof.
  intros k p Hp. change (Z.to_nat PrecisionNano) with 9%nat. change PrecisionNano with 9.
  assert (C : p = 0 \/ p = 1 \/ p = 2 \/ p = 3 \/ p = 4 \/ p = 5 \/ p = 6 \/ p = 7 \/ p = 8 \/ 9 <= p) by lia.
  repeat (destruct C as [->|C]); try (destruct k; reflexivity).
  cbn [Nat.add go_Precision_Scale_for1]. destruct (p <? 9) eqn:E; [lia|reflexivity].
Qed.

Lemma go_Precision_Valid_eq : forall p, go_Precision_Valid p = precision_Valid p.
Proof. reflexivity. Qed.

Lemma scale_cases p :
  In (precision_Scale p) [1; 10; 100; 1000; 10000; 100000; 1000000; 10000000; 100000000; 1000000000].
Proof.
  unfold precision_Scale. change (Z.to_nat PrecisionNano) with 9%nat. change PrecisionNano with 9.
  cbn [scale_loop].
  repeat match goal with |- context [if ?c then _ else _] => destruct c end; cbn; tauto.
Qed.

Ltac scale_case p :=
  let H := fresh "H" in
  pose proof (scale_cases p) as H; cbn [In] in H;
  repeat (destruct H as [H|H]); [..|contradiction]; rewrite <- H; clear H.

(* Precision.Duration: one tick in nanoseconds (no hand model in Scalars.v: this is its specification) *)
Lemma go_Precision_Duration_eq : forall p, go_Precision_Duration p = precision_Scale p.
Proof.
  intros p. unfold go_Precision_Duration. rewrite go_Precision_Scale_eq. scale_case p; reflexivity.
Qed.

(* the two divisions of ToDateTime64 never panic *)
Lemma go_ToDateTime64_eq : forall t p, go_ToDateTime64 t p = Some (to_datetime64 t p).
Proof.
  intros t p. unfold go_ToDateTime64, to_datetime64. destruct (t_IsZero t); [reflexivity|]. cbv zeta.
  rewrite go_Precision_Scale_eq. unfold t_Nanosecond, t_Unix.
  scale_case p; cbn [Z.eqb]; (change (i64 (Z.quot dur_Second ?s)) with (Z.quot ns_per_s s)); f_equal; apply i64_add_r.
Qed.

(* d is a DateTime64 (int64) *)
Lemma go_DateTime64_Time_eq : forall loc d p, in_i64z d ->
  go_DateTime64_Time loc d p = Some (datetime64_Time loc d p).
Proof.
  intros loc d p Hd. unfold go_DateTime64_Time, datetime64_Time. cbv zeta. rewrite go_Precision_Scale_eq.
  scale_case p; cbn [Z.eqb];
  match goal with |- context [i64 (Z.quot dur_Second ?s)] =>
    let v := eval vm_compute in (Z.quot ns_per_s s) in
    change (i64 (Z.quot dur_Second s)) with v; change (Z.quot ns_per_s s) with v end;
  cbn [Z.eqb]; f_equal; f_equal; unfold in_i64z, i64, two63, two64 in *; lia.
Qed.

(* ---- Int128 / UInt128 / Int256 / UInt256 --------------------------------------------------------- *)
Lemma go_Int128_Int_eq : forall i, go_Int128_Int i = int128_Int i.
Proof. reflexivity. Qed.
Lemma go_Int128_UInt64_eq : forall i, go_Int128_UInt64 i = int128_UInt64 i.
Proof. reflexivity. Qed.
Lemma go_Int128FromInt_eq : forall v, go_Int128FromInt v = int128_FromInt v.
Proof. reflexivity. Qed.
Lemma go_UInt128FromUInt64_eq : forall v, go_UInt128FromUInt64 v = uint128_FromUInt64 v.
Proof. reflexivity. Qed.
Lemma go_Int128FromUInt64_eq : forall v, go_Int128FromUInt64 v = int128_FromUInt64 v.
Proof. reflexivity. Qed.
Lemma go_UInt128_UInt64_eq : forall i, go_UInt128_UInt64 i = uint128_UInt64 i.
Proof. reflexivity. Qed.
Lemma go_UInt128_Int_eq : forall i, go_UInt128_Int i = uint128_Int i.
Proof. reflexivity. Qed.
Lemma go_UInt128FromInt_eq : forall v, go_UInt128FromInt v = uint128_FromInt v.
Proof. reflexivity. Qed.
Lemma go_Int256FromInt_eq : forall v, go_Int256FromInt v = int256_FromInt v.
Proof. intros v. unfold go_Int256FromInt, int256_FromInt. destruct (v <? 0); reflexivity. Qed.
Lemma go_UInt256FromInt_eq : forall v, go_UInt256FromInt v = uint256_FromInt v.
Proof. intros v. unfold go_UInt256FromInt, uint256_FromInt. apply go_Int256FromInt_eq. Qed.
Lemma go_UInt256FromUInt64_eq : forall v, go_UInt256FromUInt64 v = uint256_FromUInt64 v.
Proof. reflexivity. Qed.

(* ---- IPv4 / IPv6 --------------------------------------------------------------------------------- *)
Lemma go_IPv4_ToIP_eq : forall v, go_IPv4_ToIP v = ipv4_ToIP v.
Proof. reflexivity. Qed.
(* None = the panic of netip.Addr.As4 *)
Lemma go_ToIPv4_eq : forall ip, go_ToIPv4 ip = to_IPv4 ip.
Proof. intros ip. unfold go_ToIPv4, to_IPv4, option_map. destruct (addr_As4 ip); reflexivity. Qed.
Lemma go_IPv6_ToIP_eq : forall v, go_IPv6_ToIP v = ipv6_ToIP v.
Proof. reflexivity. Qed.
Lemma go_ToIPv6_eq : forall ip, go_ToIPv6 ip = to_IPv6 ip.
Proof. reflexivity. Qed.

(* ---- Interval.Add (None = the panic of the default branch) ---------------------------------------- *)
Lemma go_Interval_Add_eq : forall scale value t,
  go_Interval_Add (mk_go_Interval scale value) t = interval_Add scale value t.
Proof. reflexivity. Qed.

(* ---- the tie, as one statement -------------------------------------------------------------------- *)
Definition scalar_tie : Prop :=
  (forall d, go_Date_Unix d = date_Unix d) /\
  (forall loc d, go_Date_Time loc d = date_Time d) /\
  (forall t, go_ToDate t = to_date t) /\
  (forall y m d, go_NewDate y m d = to_date (go_Date y m d 0 0 0 0 0)) /\
  (forall d, go_Date32_Unix d = date32_Unix d) /\
  (forall loc d, go_Date32_Time loc d = date32_Time d) /\
  (forall t, go_ToDate32 t = to_date32 t) /\
  (forall y m d, go_NewDate32 y m d = to_date32 (go_Date y m d 0 0 0 0 0)) /\
  (forall t, go_ToDateTime t = to_datetime t) /\
  (forall loc d, 0 <= d < two32 -> go_DateTime_Time loc d = datetime_Time loc d) /\
  (forall p, go_Precision_Scale p = precision_Scale p) /\
  (forall k p, 0 <= p -> go_Precision_Scale_for1 (Z.to_nat PrecisionNano + k) p PrecisionNano 1 =
                         go_Precision_Scale_for1 (Z.to_nat PrecisionNano) p PrecisionNano 1) /\
  (forall p, go_Precision_Duration p = precision_Scale p) /\
  (forall p, go_Precision_Valid p = precision_Valid p) /\
  (forall t p, go_ToDateTime64 t p = Some (to_datetime64 t p)) /\
  (forall loc d p, in_i64z d -> go_DateTime64_Time loc d p = Some (datetime64_Time loc d p)) /\
  (forall i, go_Int128_Int i = int128_Int i) /\
  (forall i, go_Int128_UInt64 i = int128_UInt64 i) /\
  (forall v, go_Int128FromInt v = int128_FromInt v) /\
  (forall v, go_Int128FromUInt64 v = int128_FromUInt64 v) /\
  (forall i, go_UInt128_UInt64 i = uint128_UInt64 i) /\
  (forall i, go_UInt128_Int i = uint128_Int i) /\
  (forall v, go_UInt128FromInt v = uint128_FromInt v) /\
  (forall v, go_UInt128FromUInt64 v = uint128_FromUInt64 v) /\
  (forall v, go_Int256FromInt v = int256_FromInt v) /\
  (forall v, go_UInt256FromInt v = uint256_FromInt v) /\
  (forall v, go_UInt256FromUInt64 v = uint256_FromUInt64 v) /\
  (forall v, go_IPv4_ToIP v = ipv4_ToIP v) /\
  (forall ip, go_ToIPv4 ip = to_IPv4 ip) /\
  (forall v, go_IPv6_ToIP v = ipv6_ToIP v) /\
  (forall ip, go_ToIPv6 ip = to_IPv6 ip) /\
  (forall scale value t, go_Interval_Add (mk_go_Interval scale value) t = interval_Add scale value t).

Lemma scalar_tie_holds : scalar_tie.
Proof.
  unfold scalar_tie.
  repeat match goal with |- _ /\ _ => split end.
  - exact go_Date_Unix_eq.
  - exact go_Date_Time_eq.
  - exact go_ToDate_eq.
  - exact go_NewDate_eq.
  - exact go_Date32_Unix_eq.
  - exact go_Date32_Time_eq.
  - exact go_ToDate32_eq.
  - exact go_NewDate32_eq.
  - exact go_ToDateTime_eq.
  - exact go_DateTime_Time_eq.
  - exact go_Precision_Scale_eq.
  - exact go_Precision_Scale_fuel_sufficient.
  - exact go_Precision_Duration_eq.
  - exact go_Precision_Valid_eq.
  - exact go_ToDateTime64_eq.
  - exact go_DateTime64_Time_eq.
  - exact go_Int128_Int_eq.
  - exact go_Int128_UInt64_eq.
  - exact go_Int128FromInt_eq.
  - exact go_Int128FromUInt64_eq.
  - exact go_UInt128_UInt64_eq.
  - exact go_UInt128_Int_eq.
  - exact go_UInt128FromInt_eq.
  - exact go_UInt128FromUInt64_eq.
  - exact go_Int256FromInt_eq.
  - exact go_UInt256FromInt_eq.
  - exact go_UInt256FromUInt64_eq.
  - exact go_IPv4_ToIP_eq.
  - exact go_ToIPv4_eq.
  - exact go_IPv6_ToIP_eq.
  - exact go_ToIPv6_eq.
  - exact go_Interval_Add_eq.
Qed.

(* ---- main C20 theorems, restated over the translated functions ------------------------------------ *)
Theorem go_date32_rt : forall loc t,
  t_IsZero t = false -> - two31 <= local_day t < two31 ->
  go_ToDate32 t = local_day t /\
  go_Date32_Time loc (go_ToDate32 t) = mkT (86400 * local_day t) 0 0 /\
  t_Date (go_Date32_Time loc (go_ToDate32 t)) = t_Date t /\
  0 <= local_sec t - unix (go_Date32_Time loc (go_ToDate32 t)) < 86400.
Proof.
  intros loc t Hz Hr. rewrite go_ToDate32_eq, go_Date32_Time_eq. exact (date32_rt t Hz Hr).
Qed.

Theorem go_datetime64_rt : forall loc p t,
  0 <= p <= 9 -> wf_time t -> t_IsZero t = false -> in_i64z (ticks_of t p) ->
  exists v b, go_ToDateTime64 t p = Some v /\ v = ticks_of t p /\
              go_DateTime64_Time loc v p = Some b /\
              unix b = unix t /\ nsec b = nsec t - nsec t mod go_Precision_Scale p /\ zoff b = loc.
Proof.
  intros loc p t Hp Hw Hz Hr. destruct (datetime64_rt loc p t Hp Hw Hz Hr) as (E & Eu & En & Eo).
  exists (to_datetime64 t p), (datetime64_Time loc (to_datetime64 t p) p).
  rewrite go_ToDateTime64_eq, go_Precision_Scale_eq.
  rewrite go_DateTime64_Time_eq by (rewrite E; exact Hr). repeat split; assumption.
Qed.

Theorem go_interval_add_clock_units : forall scale unit_ns v t,
  In (scale, unit_ns) [(IntervalSecond, dur_Second); (IntervalMinute, dur_Minute); (IntervalHour, dur_Hour)] ->
  wf_time t -> - two61 <= unix t <= two61 -> in_i64z (unit_ns * v) ->
  exists t', go_Interval_Add (mk_go_Interval scale v) t = Some t' /\
             wf_time t' /\ total_ns t' = total_ns t + v * unit_ns /\ zoff t' = zoff t.
Proof. intros scale unit_ns v t. rewrite go_Interval_Add_eq. apply interval_add_clock_units. Qed.

Theorem go_interval_add_days : forall v t,
  wf_time t -> sane t -> - two31z <= v <= two31z ->
  go_Interval_Add (mk_go_Interval IntervalDay v) t = Some (mkT (unix t + v * 86400) (nsec t) (zoff t)).
Proof. intros v t. rewrite go_Interval_Add_eq. apply interval_add_days. Qed.

Theorem go_interval_add_months : forall v t,
  wf_time t -> sane t -> - two31z <= v <= two31z ->
  let '(y, m, d) := t_Date t in
  let y2 := y + (m - 1 + v) / 12 in
  let m2 := (m - 1 + v) mod 12 + 1 in
  exists t', go_Interval_Add (mk_go_Interval IntervalMonth v) t = Some t' /\
    nsec t' = nsec t /\ zoff t' = zoff t /\ t_Clock t' = t_Clock t /\
    local_day t' = days_from_civil y2 m2 1 + (d - 1) /\
    (d <= days_in_month y2 m2 -> t_Date t' = (y2, m2, d)).
Proof. intros v t. rewrite go_Interval_Add_eq. apply interval_add_months. Qed.

(* the known finding, now about the translated source itself: a quarter is FOUR months *)
Theorem go_interval_add_quarters_refuted :
  exists v t, wf_time t /\ sane t /\ - 715827882 <= v <= 715827882 /\
    go_Interval_Add (mk_go_Interval IntervalQuarter v) t = Some (mkT 1589536800 0 0) /\
    go_Interval_Add (mk_go_Interval IntervalMonth (3 * v)) t = Some (mkT 1586944800 0 0) /\
    t_Date t = (2020, 1, 15) /\ t_Date (mkT 1589536800 0 0) = (2020, 5, 15) /\
    t_Date (mkT 1586944800 0 0) = (2020, 4, 15) /\
    go_Interval_Add (mk_go_Interval IntervalQuarter v) t <> go_Interval_Add (mk_go_Interval IntervalMonth (3 * v)) t.
Proof.
  destruct interval_add_quarters_refuted as (v & t & H). exists v, t.
  rewrite !go_Interval_Add_eq. exact H.
Qed.

Theorem go_interval_add_quarters_impl : forall v t,
  - 536870912 <= v <= 536870912 ->
  go_Interval_Add (mk_go_Interval IntervalQuarter v) t = go_Interval_Add (mk_go_Interval IntervalMonth (4 * v)) t.
Proof. intros v t. rewrite !go_Interval_Add_eq. apply interval_add_quarters_impl. Qed.
