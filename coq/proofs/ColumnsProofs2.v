(* Monotonicity of the column decoders (a successful decode did not look past what it consumed),
   state prefixes, prefix rejection (C07) and equivalence of the two builds (C15). *)
From CH Require Import model.Columns proofs.PrimProofs proofs.ColumnsProofs.
From CH Require Import gen.Codes gen.Consts.
From Coq Require Import ZifyN ZifyNat ZifyBool.
Ltac Zify.zify_post_hook ::= Z.div_mod_to_equations.
Open Scope N_scope.
Open Scope list_scope.

Lemma blen_app a b : blen (a ++ b) = blen a + blen b.
Proof. unfold blen. rewrite app_length. lia. Qed.

Lemma mono_read_rawN n : mono (read_rawN n).
Proof. unfold read_rawN. apply mono_bind; [apply mono_alloc|intros; apply mono_read_nN]. Qed.

Lemma mono_dec_fix w n : mono (dec_fix w n).
Proof.
  unfold dec_fix. destruct (n =? 0); [apply mono_ret|].
  apply mono_bind; [apply mono_read_rawN|intros; apply mono_ret].
Qed.

Lemma mono_check_rows z : mono (check_rows z).
Proof.
  unfold check_rows. destruct (z <? 0)%Z; [apply mono_fail|].
  destruct (maxRowsInBLock <? z)%Z; [apply mono_fail|apply mono_ret].
Qed.

Lemma mono_repN {A} n (p : parser A) : mono p -> mono (repN n p).
Proof.
  intros Hp s a r more H. unfold repN in *.
  destruct (n <=? blen s) eqn:E.
  - replace (n <=? blen (s ++ more)) with true by (rewrite blen_app; lia).
    now apply (mono_rep _ _ Hp).
  - destruct (rep (length s) p s); discriminate.
Qed.

Lemma mono_dec_seq {T D} (f : T -> parser D) ts : Forall (fun t => mono (f t)) ts -> mono (dec_seq f ts).
Proof.
  induction 1 as [|t0 ts' H0 Hts IH]; cbn [dec_seq]; [apply mono_ret|].
  apply mono_bind; [exact H0|]. intros d0. apply mono_bind; [exact IH|]. intros; apply mono_ret.
Qed.

Lemma mono_unit_seq {T} (f : T -> parser unit) ts : Forall (fun t => mono (f t)) ts -> mono (unit_seq f ts).
Proof.
  induction 1 as [|t0 ts' H0 Hts IH]; cbn [unit_seq]; [apply mono_ret|].
  apply mono_bind; [exact H0|]. intros _. exact IH.
Qed.

Lemma mono_crash {A} c : mono (fun _ : bytes => @Crash A c).
Proof. intros s a r more H. discriminate. Qed.

Lemma mono_dec_bool b n : mono (dec_bool b n).
Proof.
  destruct b; unfold dec_bool.
  - apply mono_bind; [apply mono_read_rawN|]. intros bs. apply mono_if; [apply mono_ret|apply mono_fail].
  - apply mono_if; [apply mono_ret|apply mono_read_rawN].
Qed.

Theorem mono_dec b t : forall n, mono (dec b t n).
Proof.
  induction t as [name w| | | | |sz| | |name w defs|t IH|t IH|t IH|k v IHk IHv|ts IH|name t IH] using ty_ind';
    intros n; cbn [dec].
  - apply mono_pmap, mono_dec_fix.
  - apply mono_pmap, mono_dec_bool.
  - destruct b.
    + apply mono_bind; [apply mono_read_rawN|intros; apply mono_ret].
    + apply mono_if; [apply mono_ret|]. apply mono_bind; [apply mono_read_rawN|intros; apply mono_ret].
  - apply mono_pmap, mono_repN, mono_get_str.
  - apply mono_pmap, mono_repN, mono_get_str.
  - destruct sz; [apply mono_if; [apply mono_fail|apply mono_ret]|apply mono_pmap, mono_read_rawN].
  - apply mono_if; [apply mono_ret|]. apply mono_bind; [apply mono_read_rawN|intros; apply mono_ret].
  - apply mono_bind; [apply mono_dec_fix|]. intros xs. apply mono_bind; [apply mono_dec_fix|intros; apply mono_ret].
  - apply mono_bind; [apply mono_dec_fix|]. intros raw.
    destruct (mapM _ raw); [apply mono_ret|apply mono_fail].
  - apply mono_bind; [apply mono_dec_fix|]. intros offs.
    apply mono_if; [apply mono_fail|].
    apply mono_bind; [apply mono_check_rows|]. intros size.
    apply mono_bind; [apply IH|intros; apply mono_ret].
  - apply mono_bind; [apply mono_dec_fix|]. intros nulls.
    apply mono_bind; [apply IH|intros; apply mono_ret].
  - apply mono_if; [apply mono_ret|].
    apply mono_bind; [apply mono_get_i64|]. intros meta. cbv zeta.
    apply mono_if; [apply mono_fail|]. apply mono_if; [apply mono_fail|].
    apply mono_bind; [apply mono_get_i64|]. intros irows.
    apply mono_bind; [apply mono_check_rows|]. intros isz.
    apply mono_bind; [apply IH|]. intros idx.
    apply mono_bind; [apply mono_get_i64|]. intros krows.
    apply mono_bind; [apply mono_check_rows|]. intros _.
    apply mono_bind; [apply mono_dec_fix|]. intros keys.
    apply mono_if; [apply mono_fail|].
    destruct (mapM _ keys); [apply mono_ret|apply mono_crash].
  - apply mono_if; [apply mono_ret|].
    apply mono_bind; [apply mono_dec_fix|]. intros offs.
    apply mono_if; [apply mono_fail|].
    apply mono_bind; [apply mono_check_rows|]. intros cnt.
    apply mono_bind; [apply IHk|]. intros dk.
    apply mono_bind; [apply IHv|intros; apply mono_ret].
  - apply mono_pmap, mono_dec_seq. eapply Forall_impl; [|exact IH]. intros t0 H0. apply H0.
  - apply IH.
Qed.

Theorem mono_dec_state t : mono (dec_state t).
Proof.
  induction t as [name w| | | | |sz| | |name w defs|t IH|t IH|t IH|k v IHk IHv|ts IH|name t IH] using ty_ind';
    cbn [dec_state]; try apply mono_ret; try exact IH.
  - apply mono_bind; [apply mono_get_u64|]. intros v. apply mono_if; [apply mono_ret|apply mono_fail].
  - apply mono_bind; [apply mono_get_i64|]. intros v. apply mono_if; [exact IH|apply mono_fail].
  - apply mono_bind; [exact IHk|intros; exact IHv].
  - now apply mono_unit_seq.
Qed.

(* the state prefix round-trips *)
Theorem state_roundtrip t : forall rest, dec_state t (enc_state t ++ rest) = Ok tt rest.
Proof.
  induction t as [name w| | | | |sz| | |name w defs|t IH|t IH|t IH|k v IHk IHv|ts IH|name t IH] using ty_ind';
    intros rest; cbn [dec_state enc_state]; try reflexivity; try apply IH.
  - unfold bind. rewrite <- app_assoc, IHk. apply IHv.
  - induction IH as [|t0 ts' H0 Hts IHts]; cbn [map List.concat unit_seq]; [reflexivity|].
    unfold bind. rewrite <- app_assoc, H0. apply IHts.
Qed.

(* what Results.DecodeResult runs for one column of a block with n rows *)
Definition dec_column (b : build) (t : ty) (n : N) : parser cdata :=
  if n =? 0 then ret (empty t) else dec_state t ;;; dec b t n.
Definition enc_column (b : build) (t : ty) (d : cdata) : bytes :=
  if rows t d =? 0 then [] else enc_state t ++ enc b t d.

Lemma mono_dec_column b t n : mono (dec_column b t n).
Proof.
  unfold dec_column. apply mono_if; [apply mono_ret|].
  apply mono_bind; [apply mono_dec_state|intros; apply mono_dec].
Qed.

Theorem column_roundtrip t b b' n d rest :
  wf_ty t = true -> n <= max_rows -> wfd t n d -> rows t d = n ->
  dec_column b' t n (enc_column b t d ++ rest) = Ok d rest.
Proof.
  intros Hwt Hn Hd Hr. unfold dec_column, enc_column. rewrite Hr.
  destruct (n =? 0) eqn:E.
  - apply N.eqb_eq in E. rewrite E in Hd. cbn [app]. unfold ret. f_equal. symmetry. now apply wfd_zero.
  - unfold bind. rewrite <- app_assoc, state_roundtrip. now apply col_roundtrip.
Qed.

(* C07 for columns: every proper prefix of a column's encoding is rejected *)
Theorem column_prefix_rejected t b b' n d :
  wf_ty t = true -> n <= max_rows -> wfd t n d -> rows t d = n ->
  forall k, (k < length (enc_column b t d))%nat ->
  is_ok (dec_column b' t n (firstn k (enc_column b t d))) = false.
Proof.
  intros Hwt Hn Hd Hr k Hk.
  apply (prefix_rejected_firstn (dec_column b' t n) (enc_column b t d) d).
  - apply mono_dec_column.
  - rewrite <- (app_nil_r (enc_column b t d)). now apply column_roundtrip.
  - exact Hk.
Qed.

(* C15: the two builds produce the same bytes and, on input accepted by both, the same column *)
Theorem safe_unsafe_encode_eq t d n : wf_ty t = true -> wfd t n d -> enc Safe t d = enc Unsafe t d.
Proof.
  revert d n.
  induction t as [name w| | | | |sz| | |name w defs|t IH|t IH|t IH|k v IHk IHv|ts IH|name t IH] using ty_ind';
    intros d n Hwt Hd;
    lazymatch goal with
    | H : wfd (TNamed _ _) _ _ |- _ => idtac
    | _ => destruct d; cbn [wfd] in Hd; try contradiction
    end; cbn [enc]; rewrite ?enc_fix_eq; try reflexivity.
  - destruct Hd as [_ Hvs]. now rewrite !enc_bool_id.
  - destruct Hd as [_ [_ [_ Hd]]]. cbn [wf_ty] in Hwt. f_equal. eapply IH; eassumption.
  - destruct Hd as [_ [_ Hd]]. cbn [wf_ty] in Hwt. f_equal. eapply IH; eassumption.
  - destruct Hd as [_ [Hty Hp]]. cbn [wf_ty] in Hwt. apply andb_true_iff in Hwt as [Hwt Hlc].
    destruct vals; [reflexivity|].
    cbn [prepare] in Hp.
    assert (Hdty : forallb (has_ty t) (dedup (v :: vals)) = true)
      by (apply (forallb_sub _ (v :: vals)); [apply dedup_sub|assumption]).
    rewrite (of_rows_flat t _ Hlc Hdty) in Hp.
    destruct (mapM _ (v :: vals)); [|discriminate]. injection Hp as Hidx _ _.
    do 3 f_equal. eapply IH; [exact Hwt|]. rewrite <- Hidx. now apply wfd_flat.
  - destruct Hd as [_ [_ [_ [Hdk Hdv]]]]. cbn [wf_ty] in Hwt. apply andb_true_iff in Hwt as [Hwk Hwv].
    destruct offs; [reflexivity|]. f_equal. f_equal; [eapply IHk|eapply IHv]; eassumption.
  - cbn [wf_ty] in Hwt. revert ds Hd.
    induction IH as [|t0 ts' H0 Hts IHts]; intros [|d0 ds] Hd; try contradiction; [reflexivity|].
    cbn [forallb] in Hwt. apply andb_true_iff in Hwt as [Hw0 Hws]. destruct Hd as [Hd0 Hd].
    cbn [cat2]. f_equal; [eapply H0; eassumption|now apply IHts].
  - cbn [wf_ty] in Hwt. cbn [wfd] in Hd. eapply IH; eassumption.
Qed.

(* decoding what either build wrote gives the same column under either build: instances of col_roundtrip *)
Theorem safe_unsafe_decode_eq t b n d rest :
  wf_ty t = true -> n <= max_rows -> wfd t n d ->
  dec Safe t n (enc b t d ++ rest) = dec Unsafe t n (enc b t d ++ rest).
Proof. intros Hwt Hn Hd. now rewrite !col_roundtrip. Qed.

(* Bool: the one place where the builds differ - bytes other than 0/1 are rejected by the pure-Go
   build and kept as they are by the default build *)
Lemma bool_divergence x rest : 2 <= x -> x < 256 ->
  is_ok (dec Safe TBool 1 (x :: rest)) = false /\ dec Unsafe TBool 1 (x :: rest) = Ok (DBool [x]) rest.
Proof.
  intros H2 H256. cbn [dec]. unfold pmap, bind, dec_bool.
  change (1 =? 0) with false. cbv iota.
  assert (Hr : read_rawN 1 (x :: rest) = Ok [x] rest).
  { change (x :: rest) with ([x] ++ rest). change 1 with (blen [x]) at 1. apply read_rawN_app. }
  unfold bind. rewrite Hr. cbn [forallb].
  replace (x =? Z.to_N boolTrue) with false by (change (Z.to_N boolTrue) with 1; lia).
  replace (x =? Z.to_N boolFalse) with false by (change (Z.to_N boolFalse) with 0; lia).
  split; reflexivity.
Qed.
