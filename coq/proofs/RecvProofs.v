(* C03: the receive loop of Client.Do delivers what the server sent — proofs over model/Recv.v.

   Part 1  blocks: what Block.EncodeBlock wrote is decoded by DecodeBlock into the bound columns
           (over col_roundtrip of ColumnsProofs), for typed / Auto / empty / nil bindings.
   Part 2  the compressed path (one frame per block) and the plain path.
   Part 3  exception chains of any depth.
   Part 4  one packet of the script against one step of the specification; the whole script. *)
From CH Require Import model.Recv.
From CH Require Import proofs.PrimProofs proofs.FieldsProofs proofs.MessagesProofs proofs.ColumnsProofs proofs.CompressProofs.
From CH Require Import gen.Features gen.Codes gen.Consts.
From Coq Require Import ZifyN ZifyNat ZifyBool.
Ltac Zify.zify_post_hook ::= Z.div_mod_to_equations.
Open Scope N_scope.
Open Scope list_scope.

(* ---------- small facts ------------------------------------------------------------------ *)
Lemma uvarint_byte n rest : n < 128 -> uvarint (n :: rest) = Ok n rest.
Proof.
  intros Hn. unfold uvarint. cbn [get_uv].
  destruct (N.ltb_spec n 128); [|lia].
  cbn [N.eqb andb]. f_equal. change (2 ^ (7 * 0)) with 1. lia.
Qed.

Lemma F2_length {A B} (R : A -> B -> Prop) l l' : Forall2 R l l' -> length l = length l'.
Proof. induction 1; cbn [length]; congruence. Qed.

Lemma some_inj {A} (a b : A) : Some a = Some b -> a = b.
Proof. now intros [= ->]. Qed.

Lemma put_str_nil : put_str [] = [0].
Proof. reflexivity. Qed.

Lemma dec_state_enc t : forall rest, dec_state t (enc_state t ++ rest) = Ok tt rest.
Proof.
  induction t as [name w| | | | |sz| | |name w defs|t IH|t IH|t IH|k v IHk IHv|ts IH|name t IH] using ty_ind';
    intros rest; cbn [dec_state enc_state]; try reflexivity; try apply IH.
  (* JSON and LowCardinality: the version constants are closed terms, the tactics above compute them *)
  - (* Map *) unfold bind. rewrite <- app_assoc, IHk. apply IHv.
  - (* Tuple *) induction IH as [|t0 ts' Ht0 Hts IHts]; cbn [map concat unit_seq]; [reflexivity|].
    unfold bind. rewrite <- app_assoc, Ht0. apply IHts.
Qed.

(* ---------- Part 1: blocks ------------------------------------------------------------------ *)
(* a column as the server sends it ([c]) and as it arrives ([c']: the same column, prepared) *)
Definition col_ok (nrows : N) (c c' : col) : Prop :=
  c_name c' = c_name c /\ c_ty c' = c_ty c /\
  wf_ty (c_ty c) = true /\
  rows (c_ty c) (c_data c) = nrows /\
  prepare (c_ty c) (c_data c) = Some (c_data c') /\
  rows (c_ty c) (c_data c') = nrows /\
  wfd (c_ty c) nrows (c_data c') /\
  blen (c_name c) < 2 ^ 63 /\ blen (type_str (c_ty c)) < 2 ^ 63.

Lemma prepared_ok nrows cols cols' : Forall2 (col_ok nrows) cols cols' -> prepared cols = Some cols'.
Proof.
  unfold prepared. induction 1 as [|c c' cols cols' Hc Hcs IH]; [reflexivity|].
  destruct Hc as (Hn & Ht & _ & _ & Hp & _). cbn [mapM]. rewrite Hp, IH.
  destruct c' as [n' t' d']. cbn in *. now subst.
Qed.

Lemma get_int_nat n rest : (Z.of_nat n <= maxColumnsInBlock)%Z -> get_int (put_int (Z.of_nat n) ++ rest) = Ok (Z.of_nat n) rest.
Proof. intros Hn. apply get_int_put. unfold in_i64. unfold maxColumnsInBlock in Hn. lia. Qed.

Lemma get_int_rows n rest : n <= max_rows -> get_int (put_int (Z.of_N n) ++ rest) = Ok (Z.of_N n) rest.
Proof. intros Hn. apply get_int_put. unfold in_i64. unfold max_rows, maxRowsInBLock in Hn. lia. Qed.

Section Blocks.
  Variable conflicts : bytes -> bytes -> bool.
  Variable infer_target : ty -> bytes -> option ty.
  Variable infer_auto : bytes -> option ty.
  Hypothesis conflicts_refl : forall s, conflicts s s = false.

  (* a bound column accepts a column of the block: same name (or a name to infer), and its own
     Infer leaves it a column of the block's type *)
  Definition accepts (t c : col) : Prop :=
    (c_name t = [] \/ c_name t = c_name c) /\
    infer_target (c_ty t) (type_str (c_ty c)) = Some (c_ty c).

  Lemma header_rt v name t rest :
    blen name < 2 ^ 63 -> blen (type_str t) < 2 ^ 63 ->
    dec_col_header v (enc_start v name t ++ rest) = Ok (name, type_str t) rest.
  Proof.
    intros Hn Ht. unfold dec_col_header, enc_start, bind. rewrite <- !app_assoc.
    rewrite get_str_put by exact Hn. rewrite get_str_put by exact Ht.
    destruct (gate v FeatureCustomSerialization).
    - rewrite get_bool_put. reflexivity.
    - reflexivity.
  Qed.

  (* the data of one column *)
  Lemma coldata_rt b b' nrows c c' rest :
    nrows <= max_rows -> col_ok nrows c c' ->
    (if nrows =? 0 then ret (empty (c_ty c)) else dec_state (c_ty c) ;;; dec b' (c_ty c) nrows)
      ((if rows (c_ty c) (c_data c') =? 0 then [] else enc_state (c_ty c) ++ enc b (c_ty c) (c_data c')) ++ rest)
    = Ok (c_data c') rest.
  Proof.
    intros Hn (_ & _ & Hwt & _ & _ & Hr' & Hwfd & _). rewrite Hr'.
    destruct (N.eqb_spec nrows 0) as [->|Hnz].
    - cbn [app]. unfold ret. f_equal. symmetry. now apply wfd_zero.
    - unfold bind. rewrite <- app_assoc, dec_state_enc. now apply col_roundtrip.
  Qed.

  Lemma dec_targets_rt b b' v nrows : nrows <= max_rows -> forall cols cols' ts,
    Forall2 (col_ok nrows) cols cols' -> Forall2 accepts ts cols ->
    exists body, enc_cols b v nrows cols = Some body /\
      forall rest, dec_targets conflicts infer_target b' v nrows ts (body ++ rest) = Ok cols' rest.
  Proof.
    intros Hn cols cols' ts Hok. revert ts.
    induction Hok as [|c c' cols cols' Hc Hcs IH]; intros ts Hacc.
    - inversion Hacc; subst. exists []. split; [reflexivity|]. intros rest. reflexivity.
    - inversion Hacc as [|t c0 ts' cols0 Ht Hts]; subst.
      destruct (IH _ Hts) as (body & Hb & Hd).
      pose proof Hc as (Hname & Hty & Hwt & Hr & Hp & Hr' & Hwfd & Hnl & Htl).
      cbn [enc_cols]. rewrite Hr, N.eqb_refl. cbn [negb]. rewrite Hp, Hb.
      eexists. split; [reflexivity|]. intros rest.
      cbn [dec_targets]. unfold bind at 1. rewrite <- !app_assoc.
      rewrite header_rt by assumption.
      destruct Ht as (Htn & Hinf).
      assert (Htname : (match c_name t with [] => c_name c | _ => c_name t end) = c_name c).
      { destruct Htn as [E|E]; rewrite E; [reflexivity|]. now destruct (c_name c). }
      rewrite Htname, bytes_eqb_refl. cbn [negb]. rewrite Hinf, conflicts_refl.
      unfold bind. rewrite (coldata_rt b b' nrows c c' _ Hn Hc).
      rewrite Hd. unfold ret. f_equal. f_equal.
      destruct c' as [n' t' d']. cbn in *. now subst.
  Qed.

  Lemma dec_auto_rt b b' v nrows : nrows <= max_rows -> forall cols cols',
    Forall2 (col_ok nrows) cols cols' ->
    Forall (fun c => infer_auto (type_str (c_ty c)) = Some (c_ty c)) cols ->
    exists body, enc_cols b v nrows cols = Some body /\
      forall rest, dec_auto_cols infer_auto b' v nrows (length cols) (body ++ rest) = Ok cols' rest.
  Proof.
    intros Hn cols cols' Hok.
    induction Hok as [|c c' cols cols' Hc Hcs IH]; intros Hinf.
    - exists []. split; [reflexivity|]. intros rest. reflexivity.
    - inversion Hinf as [|c0 cols0 Hi His]; subst.
      destruct (IH His) as (body & Hb & Hd).
      pose proof Hc as (Hname & Hty & Hwt & Hr & Hp & Hr' & Hwfd & Hnl & Htl).
      cbn [enc_cols]. rewrite Hr, N.eqb_refl. cbn [negb]. rewrite Hp, Hb.
      eexists. split; [reflexivity|]. intros rest.
      cbn [length dec_auto_cols]. unfold bind at 1. rewrite <- !app_assoc.
      rewrite header_rt by assumption. rewrite Hi.
      unfold bind. rewrite (coldata_rt b b' nrows c c' _ Hn Hc).
      rewrite Hd. unfold ret. f_equal. f_equal.
      destruct c' as [n' t' d']. cbn in *. now subst.
  Qed.

  (* header-only blocks (no rows): what an absent or empty binding skips *)
  Lemma skip_headers_rt b v : forall cols cols',
    Forall2 (col_ok 0) cols cols' ->
    exists body, enc_cols b v 0 cols = Some body /\ (length cols <= length body)%nat /\
      forall rest, skip_headers v (length cols) (body ++ rest) = Ok tt rest.
  Proof.
    intros cols cols' Hok.
    induction Hok as [|c c' cols cols' Hc Hcs IH].
    - exists []. split; [reflexivity|]. split; [cbn; lia|]. intros rest. reflexivity.
    - destruct IH as (body & Hb & Hl & Hd).
      pose proof Hc as (Hname & Hty & Hwt & Hr & Hp & Hr' & Hwfd & Hnl & Htl).
      cbn [enc_cols]. rewrite Hr, N.eqb_refl. cbn [negb]. rewrite Hp, Hb, Hr'. cbn [N.eqb app].
      eexists. split; [reflexivity|]. split.
      + rewrite app_length. cbn [length].
        assert (1 <= length (enc_start v (c_name c) (c_ty c)))%nat; [|lia].
        unfold enc_start. rewrite app_length.
        pose proof (put_str_nonempty (c_name c)). destruct (put_str (c_name c)); [congruence|cbn [length]; lia].
      + intros rest. cbn [length skip_headers]. unfold bind. rewrite <- !app_assoc.
        rewrite header_rt by assumption. apply Hd.
  Qed.

  Lemma enc_cols_some b v nrows cols cols' :
    Forall2 (col_ok nrows) cols cols' -> exists body, enc_cols b v nrows cols = Some body.
  Proof.
    induction 1 as [|c c' cols cols' Hc Hcs IH]; [now exists []|].
    destruct IH as (body & Hb). destruct Hc as (_ & _ & _ & Hr & Hp & _).
    cbn [enc_cols]. rewrite Hr, N.eqb_refl. cbn [negb]. rewrite Hp, Hb. eexists. reflexivity.
  Qed.

  (* how a block fits the binding of Query.Result *)
  Definition fits (tg : rtarget) (nrows : N) (cols : list col) : Prop :=
    match tg with
    | TgNil => nrows = 0
    | TgTyped [] => nrows = 0 \/ cols = []
    | TgTyped ts => Forall2 accepts ts cols
    | TgAuto [] => Forall (fun c => infer_auto (type_str (c_ty c)) = Some (c_ty c)) cols
    | TgAuto ts => Forall2 accepts ts cols
    end.

  Lemma binfo_rt v info rest : in_i32 (bi_bucket info) ->
    (if gate v FeatureBlockInfo then decode_BlockInfo blank_block_info else ret blank_block_info)
      ((if gate v FeatureBlockInfo then encode_BlockInfo info else []) ++ rest) = Ok (info_at v info) rest.
  Proof.
    intros Hb. unfold info_at. destruct (gate v FeatureBlockInfo); [now apply BlockInfo_rt|reflexivity].
  Qed.

  Lemma ncols_range n : (Z.of_nat n <= maxColumnsInBlock)%Z ->
    ((maxColumnsInBlock <? Z.of_nat n) || (Z.of_nat n <? 0))%Z = false.
  Proof. intros Hn. apply orb_false_iff. split; apply Z.ltb_ge; lia. Qed.


  Lemma end_test (cols : list col) nrows :
    ((Z.of_nat (length cols) =? 0) && (Z.of_N nrows =? 0))%Z = is_end_marker nrows cols.
  Proof.
    unfold is_end_marker. destruct cols; cbn [length].
    - cbn [Z.of_nat Z.eqb andb]. destruct (N.eqb_spec nrows 0); destruct (Z.eqb_spec (Z.of_N nrows) 0); try reflexivity; lia.
    - replace (Z.of_nat (S (length cols)) =? 0)%Z with false by (symmetry; apply Z.eqb_neq; lia). reflexivity.
  Qed.

  Lemma nat_of_len (cols : list col) : N.to_nat (Z.to_N (Z.of_nat (length cols))) = length cols.
  Proof. lia. Qed.
  Lemma N_of_len (cols : list col) : Z.to_N (Z.of_nat (length cols)) = N.of_nat (length cols).
  Proof. lia. Qed.

  Ltac hdr Hb Hc Hn :=
    unfold bind; rewrite <- ?app_assoc; rewrite (binfo_rt _ _ _ Hb); cbv beta iota;
    rewrite (get_int_nat _ _ Hc), (ncols_range _ Hc); cbv beta iota;
    rewrite (get_int_rows _ _ Hn); cbv beta iota;
    rewrite (check_rows_ok _ Hn); cbv beta iota; rewrite end_test.

  Lemma enc_cols_length b v nrows : forall cols body,
    enc_cols b v nrows cols = Some body -> (length cols <= length body)%nat.
  Proof.
    induction cols as [|c0 cols IH]; intros body Hb; [cbn; lia|].
    cbn [enc_cols] in Hb. destruct (negb _); [discriminate|]. destruct (prepare _ _); [|discriminate].
    destruct (enc_cols _ _ _ cols) as [r|] eqn:Er; [|discriminate]. injection Hb as <-.
    specialize (IH _ eq_refl). rewrite !app_length. cbn [length].
    unfold enc_start. rewrite app_length.
    pose proof (put_str_nonempty (c_name c0)). destruct (put_str (c_name c0)); [congruence|cbn [length]; lia].
  Qed.

  Lemma block_parser_rt c tg info nrows cols cols' :
    in_i32 (bi_bucket info) -> nrows <= max_rows -> (Z.of_nat (length cols) <= maxColumnsInBlock)%Z ->
    Forall2 (col_ok nrows) cols cols' -> (is_end_marker nrows cols = false -> fits tg nrows cols) ->
    exists body, encode_block (c_build c) (c_rev c) info nrows cols = Some body /\
      forall rest, block_parser conflicts infer_target infer_auto c tg (body ++ rest) =
        Ok (info_at (c_rev c) info, Z.of_nat (length cols), Z.of_N nrows,
            if is_end_marker nrows cols then tg else tg_with tg cols') rest.
  Proof.
    intros Hb Hn Hc Hok Hfit.
    destruct (enc_cols_some (c_build c) (c_rev c) nrows cols cols' Hok) as (body & Hbody).
    unfold encode_block, encode_raw_block. rewrite Hbody. cbn [option_map].
    eexists. split; [reflexivity|]. intros rest.
    pose proof (enc_cols_length _ _ _ _ _ Hbody) as Hlen.
    assert (Hguard : (N.of_nat (length cols) <=? blen (body ++ rest)) = true).
    { apply N.leb_le. unfold blen. rewrite app_length. lia. }
    destruct (is_end_marker nrows cols) eqn:Hend.
    - (* the empty block: nothing is decoded, nothing is bound *)
      assert (Hnil : cols = []) by (destruct cols; [reflexivity|discriminate]).
      subst cols. cbn [enc_cols] in Hbody. injection Hbody as <-.
      destruct tg as [|ts|ts]; cbn [block_parser]; unfold decode_block, decode_block_nil, decode_raw_block;
        hdr Hb Hc Hn; rewrite Hend; reflexivity.
    - specialize (Hfit eq_refl).
      destruct tg as [|ts|ts]; cbn [block_parser fits] in *.
      + (* q.Result == nil: only header blocks *)
        subst nrows. destruct (skip_headers_rt (c_build c) (c_rev c) cols cols' Hok) as (body' & Hb' & Hl & Hd).
        rewrite Hb' in Hbody. injection Hbody as <-.
        unfold decode_block_nil. hdr Hb Hc Hn. rewrite Hend. cbv beta iota.
        change (0 <? 0) with false. cbv beta iota.
        rewrite N_of_len, Nat2N.id, Hguard, Hd. reflexivity.
      + destruct ts as [|t0 ts].
        * (* an empty proto.Results: headers are skipped, nothing is bound *)
          unfold decode_block, decode_raw_block. hdr Hb Hc Hn. rewrite Hend. cbv beta iota.
          cbn [decode_result].
          destruct Hfit as [->| ->].
          -- destruct (skip_headers_rt (c_build c) (c_rev c) cols cols' Hok) as (body' & Hb' & Hl & Hd).
             rewrite Hb' in Hbody. injection Hbody as <-.
             change (negb (0 =? 0)) with false. rewrite andb_false_r. cbv beta iota.
             rewrite N_of_len, Nat2N.id, Hguard. unfold bind. rewrite Hd. reflexivity.
          -- inversion Hok; subst. cbn in Hbody. injection Hbody as <-.
             change (negb (Z.to_N (Z.of_nat (length (@nil col))) =? 0)) with false. cbn [andb]. cbv beta iota.
             rewrite N_of_len, Nat2N.id, Hguard. reflexivity.
        * destruct (dec_targets_rt (c_build c) (c_build c) (c_rev c) nrows Hn cols cols' (t0 :: ts) Hok Hfit) as (body' & Hb' & Hd).
          rewrite Hb' in Hbody. injection Hbody as <-.
          unfold decode_block, decode_raw_block. hdr Hb Hc Hn. rewrite Hend. cbv beta iota.
          cbn [decode_result]. unfold target. rewrite N_of_len.
          rewrite (F2_length _ _ _ Hfit), N.eqb_refl. cbn [negb]. rewrite Hd. reflexivity.
      + destruct ts as [|t0 ts].
        * (* Results.Auto, first block: columns are inferred and appended *)
          destruct (dec_auto_rt (c_build c) (c_build c) (c_rev c) nrows Hn cols cols' Hok Hfit) as (body' & Hb' & Hd).
          rewrite Hb' in Hbody. injection Hbody as <-.
          unfold decode_block, decode_raw_block. hdr Hb Hc Hn. rewrite Hend. cbv beta iota.
          cbn [decode_auto]. rewrite N_of_len, Nat2N.id, Hguard, Hd. reflexivity.
        * destruct (dec_targets_rt (c_build c) (c_build c) (c_rev c) nrows Hn cols cols' (t0 :: ts) Hok Hfit) as (body' & Hb' & Hd).
          rewrite Hb' in Hbody. injection Hbody as <-.
          unfold decode_block, decode_raw_block. hdr Hb Hc Hn. rewrite Hend. cbv beta iota.
          cbn [decode_auto decode_result]. unfold target. rewrite N_of_len.
          rewrite (F2_length _ _ _ Hfit), N.eqb_refl. cbn [negb]. rewrite Hd. reflexivity.
  Qed.
End Blocks.

(* ---------- Part 3: exception chains ---------------------------------------------------------- *)
Definition exc_ok (e : exc) : Prop := fields_typed L_Exception (exc_fields e false) = true.

Lemma exc_typed e b : exc_ok e -> fields_typed L_Exception (exc_fields e b) = true.
Proof. unfold exc_ok, exc_fields. cbn [fields_typed L_Exception F fk fv_typed]. now rewrite !andb_true_r. Qed.

Lemma exc_decode e b rest : exc_ok e ->
  decode_Exception (encode_Exception (exc_fields e b) ++ rest) = Ok (exc_fields e b) rest.
Proof.
  intros He. rewrite Exception_rt by now apply exc_typed.
  rewrite project_nogate; [reflexivity|reflexivity|now apply exc_typed].
Qed.

Lemma read_exceptions_rt : forall next top fuel rest,
  (length next < fuel)%nat -> exc_ok top -> Forall exc_ok next ->
  read_exceptions fuel (encode_chain top next ++ rest) = Ok (top :: next) rest.
Proof.
  induction next as [|n next IH]; intros top fuel rest Hf Ht Hn;
    (destruct fuel as [|fuel]; [cbn [length] in Hf; lia|]); cbn [read_exceptions encode_chain].
  - unfold bind. rewrite exc_decode by assumption. cbn [exc_fields]. destruct top; reflexivity.
  - inversion Hn as [|n0 next0 Hn0 Hns]; subst.
    unfold bind. rewrite <- app_assoc, exc_decode by assumption. cbn [exc_fields].
    rewrite IH by (cbn [length] in Hf; assumption || lia). destruct top; reflexivity.
Qed.

Lemma encode_Exception_nonempty e b : (1 <= length (encode_Exception (exc_fields e b)))%nat.
Proof.
  unfold encode_Exception, exc_fields. cbn [encode_fields L_Exception F fgates fk gate_in forallb enc_field].
  unfold put_i32, put_u32. cbn [le_put app length]. lia.
Qed.

Lemma encode_chain_length : forall next top, (length next < length (encode_chain top next))%nat.
Proof.
  induction next as [|n next IH]; intros top; cbn [encode_chain length].
  - pose proof (encode_Exception_nonempty top false). lia.
  - rewrite app_length. pose proof (encode_Exception_nonempty top true). specialize (IH n). lia.
Qed.

Lemma client_exception_rt top next rest : exc_ok top -> Forall exc_ok next ->
  client_exception (encode_chain top next ++ rest) = Ok {| x_top := top ; x_next := next |} rest.
Proof.
  intros Ht Hn. unfold client_exception, bind.
  rewrite read_exceptions_rt; [reflexivity| |assumption|assumption].
  rewrite app_length. pose proof (encode_chain_length next top). lia.
Qed.

(* every code of the chain is what errors.Is finds; IsCode sees the top code *)
Lemma errors_is_chain top next c :
  errors_is {| x_top := top ; x_next := next |} c = true <-> In c (map e_code (top :: next)).
Proof.
  unfold errors_is, collect_codes. cbn [x_top x_next map]. rewrite existsb_exists. split.
  - intros (x & Hin & Hx). apply Z.eqb_eq in Hx. now subst.
  - intros Hin. exists c. split; [exact Hin|apply Z.eqb_refl].
Qed.

Lemma is_code_top top next c :
  is_code {| x_top := top ; x_next := next |} [c] = true <-> e_code top = c.
Proof. unfold is_code. cbn [existsb x_top]. rewrite orb_false_r. apply Z.eqb_eq. Qed.

(* ---------- Part 2: the plain and the compressed path ---------------------------------------------- *)
Section Paths.
  Variable H : bytes -> N * N.
  Variable comp : method -> bytes -> option bytes.
  Variable decomp : N -> bytes -> N -> option bytes.
  Hypothesis codec : codec_rt comp decomp.

  Lemma read_comp_ok {A} fuel (p : parser A) carry under a lft :
    p carry = Ok a lft -> read_comp H decomp fuel p carry under = Ok (a, lft) under.
  Proof. intros Hp. destruct fuel; cbn [read_comp]; rewrite Hp; reflexivity. Qed.

  (* the payload of a block packet: the block itself, or one frame holding it *)
  Lemma via_rt {A} c cmp m (p : parser A) a body payload rest :
    p [] = Err EEof -> (forall r, p (body ++ r) = Ok a r) ->
    (if c_comp c && cmp
     then match compress_frame H comp m body with inr f => Some f | inl _ => None end
     else Some body) = Some payload ->
    (c_comp c && cmp = true -> blen body <= maxDataSize /\
       forall f, compress_frame H comp m body = inr f -> blen f <= 25 + maxBlockSize) ->
    via H decomp c cmp p [] (payload ++ rest) = Ok (a, []) rest.
  Proof.
    intros Hnil Hp Hpl Hsz. unfold via. destruct (c_comp c && cmp).
    - destruct (compress_frame H comp m body) as [e|f] eqn:Ef; [discriminate|]. injection Hpl as <-.
      destruct (Hsz eq_refl) as (Hb & Hf).
      cbn [read_comp]. rewrite Hnil.
      rewrite (read_block_written H comp decomp m body f rest codec Ef Hb (Hf f eq_refl)).
      cbn [app]. apply read_comp_ok. rewrite <- (app_nil_r body). apply Hp.
    - injection Hpl as <-. rewrite Hp. reflexivity.
  Qed.
End Paths.

(* ---------- Part 4: the script ------------------------------------------------------------------------ *)
Section Script.
  Variable conflicts : bytes -> bytes -> bool.
  Variable infer_target : ty -> bytes -> option ty.
  Variable infer_auto : bytes -> option ty.
  Variable H : bytes -> N * N.
  Variable comp : method -> bytes -> option bytes.
  Variable decomp : N -> bytes -> N -> option bytes.
  Variable meth : method.
  Hypothesis conflicts_refl : forall s, conflicts s s = false.
  Hypothesis codec : codec_rt comp decomp.

  Notation recv_step := (recv_step conflicts infer_target infer_auto H decomp).
  Notation recv_loop := (recv_loop conflicts infer_target infer_auto H decomp).
  Notation recv := (recv conflicts infer_target infer_auto H decomp).
  Notation dispatch := (dispatch conflicts infer_target infer_auto H decomp).
  Notation on_data := (on_data conflicts infer_target infer_auto H decomp).
  Notation on_log_pkt := (on_log_pkt conflicts infer_target infer_auto H decomp).
  Notation on_pevents_pkt := (on_pevents_pkt conflicts infer_target infer_auto H decomp).
  Notation block_parser := (block_parser conflicts infer_target infer_auto).
  Notation encode_packet := (encode_packet H comp meth).
  Notation encode_packets := (encode_packets H comp meth).
  Notation encode_block_packet := (encode_block_packet H comp meth).
  Notation accepts := (accepts infer_target).
  Notation fits := (fits infer_target infer_auto).

  (* ---- well-formed scripts ------------------------------------------------------------------- *)
  (* a ProfileEvents block: five columns for the typed targets and the value column for the ColAuto *)
  Definition pe_fits (cols : list col) : Prop :=
    exists c5 v, cols = c5 ++ [v] /\ Forall2 accepts pe_fixed c5 /\
                 c_name v = pe_value_name /\ infer_auto (type_str (c_ty v)) = Some (c_ty v).

  Definition packet_ok (c : cfg) (tg : rtarget) (p : packet) : Prop :=
    match p with
    | PBlock k info nrows cols =>
      in_i32 (bi_bucket info) /\ nrows <= max_rows /\ (Z.of_nat (length cols) <= maxColumnsInBlock)%Z /\
      (exists cols', Forall2 (col_ok nrows) cols cols' /\
         (is_end_marker nrows cols = false ->
          match k with
          | BData | BTotals => fits tg nrows cols
          | BLog => Forall2 accepts log_fixed cols
          | BPEvents => pe_fits cols
          end)) /\
      (c_comp c && compressible (Z.to_N (bkind_code k)) = true ->
       forall body, encode_block (c_build c) (c_rev c) info nrows cols = Some body ->
         blen body <= maxDataSize /\
         forall f, compress_frame H comp meth body = inr f -> blen f <= 25 + maxBlockSize)
    | PProgress xs => fields_typed L_Progress xs = true
    | PProfile xs => fields_typed L_Profile xs = true
    | PTableColumns xs => fields_typed L_TableColumns xs = true
    | PException top next => exc_ok top /\ Forall exc_ok next
    | PEnd => True
    end.

  (* the binding after a packet (what the next block is decoded into) *)
  Definition tg_after (tg : rtarget) (p : packet) : rtarget :=
    match p with
    | PBlock BData _ nrows cols | PBlock BTotals _ nrows cols =>
      if is_end_marker nrows cols then tg
      else match prepared cols with Some cols' => tg_with tg cols' | None => tg end
    | _ => tg
    end.

  Fixpoint script_ok (c : cfg) (tg : rtarget) (ps : list packet) : Prop :=
    match ps with
    | [] => True
    | p :: ps' => packet_ok c tg p /\ script_ok c (tg_after tg p) ps'
    end.

  (* ---- model state against specification state ------------------------------------------------- *)
  Definition rel (st : rstate) (ss : sstate) : Prop :=
    r_first st = s_first ss /\ r_tg st = s_tg ss /\ r_carry st = [] /\ r_trace st = s_trace ss.

  Definition R (rest : bytes) (x : step_res) (y : spec_res) : Prop :=
    match y with
    | SContinue ss' => exists st', x = Continue st' rest /\ rel st' ss'
    | SDone o ss' => exists st' r, x = Done o st' r /\ rel st' ss'
    end.

  Lemma call_R h e st ss rest k ks :
    rel st ss -> (forall st' ss', rel st' ss' -> R rest (k st') (ks ss')) ->
    R rest (call h e st rest k) (scall h e ss ks).
  Proof.
    intros Hr Hk. unfold call, scall. destruct h as [f|]; [|now apply Hk].
    destruct Hr as (H1 & H2 & H3 & H4). rewrite H4.
    assert (Hrel : rel (push st e) {| s_first := s_first ss ; s_tg := s_tg ss ; s_trace := s_trace ss ++ [e] |}).
    { unfold rel, push. cbn. rewrite H4. auto. }
    destruct (f _).
    - now apply Hk.
    - cbn. eexists _, _. split; [reflexivity|exact Hrel].
  Qed.

  Lemma call_each_R {X} h (mk : X -> event) l : forall st ss rest k ks,
    rel st ss -> (forall st' ss', rel st' ss' -> R rest (k st') (ks ss')) ->
    R rest (call_each h mk l st rest k) (scall_each h mk l ss ks).
  Proof.
    induction l as [|x l IH]; intros st ss rest k ks Hr Hk; cbn [call_each scall_each].
    - now apply Hk.
    - apply call_R; [exact Hr|]. intros st' ss' Hr'. now apply IH.
  Qed.

  (* ---- the packet code ------------------------------------------------------------------------- *)
  Lemma recv_step_code c hs st z tail :
    Z.to_N z < 128 -> is_server_code (Z.to_N z) = true ->
    recv_step c hs st (code_byte z ++ tail) = dispatch c hs (Z.to_N z mod 256) st tail.
  Proof.
    intros Hz Hs. unfold Recv.recv_step, code_byte. cbn [app]. rewrite uvarint_byte by exact Hz.
    unfold lift. rewrite Hs. reflexivity.
  Qed.

  Lemma block_parser_nil c tg : block_parser c tg [] = Err EEof.
  Proof.
    destruct tg; cbn [Recv.block_parser]; unfold decode_block, decode_block_nil, bind;
      destruct (gate (c_rev c) FeatureBlockInfo); reflexivity.
  Qed.

  Lemma temp_table_rt v rest :
    temp_table v ((if gate v FeatureTempTables then put_str [] else []) ++ rest) = Ok tt rest.
  Proof.
    unfold temp_table. destruct (gate v FeatureTempTables); [|reflexivity].
    unfold bind. rewrite get_str_put by (vm_compute; reflexivity). reflexivity.
  Qed.

  Lemma ebp_inv c k info nrows cols bytes :
    encode_block_packet c k info nrows cols = Some bytes ->
    exists body pl,
      encode_block (c_build c) (c_rev c) info nrows cols = Some body /\
      (if c_comp c && compressible (Z.to_N (bkind_code k))
       then match compress_frame H comp meth body with inr f => Some f | inl _ => None end
       else Some body) = Some pl /\
      bytes = code_byte (bkind_code k) ++ (if gate (c_rev c) FeatureTempTables then put_str [] else []) ++ pl.
  Proof.
    unfold Recv.encode_block_packet. destruct (encode_block _ _ _ _ _) as [body|]; [|discriminate].
    destruct (if c_comp c && compressible (Z.to_N (bkind_code k)) then _ else _) as [pl|] eqn:E; [|discriminate].
    intros [= <-]. exists body, pl. repeat split. exact E.
  Qed.

  (* decodeBlock up to the handler: temp-table name, then the block through the plain or the compressed path *)
  Lemma decode_block_read {A} c k (p : parser A) a info nrows cols bytes rest :
    encode_block_packet c k info nrows cols = Some bytes ->
    p [] = Err EEof ->
    (forall body, encode_block (c_build c) (c_rev c) info nrows cols = Some body -> forall r, p (body ++ r) = Ok a r) ->
    (c_comp c && compressible (Z.to_N (bkind_code k)) = true ->
     forall body, encode_block (c_build c) (c_rev c) info nrows cols = Some body ->
       blen body <= maxDataSize /\
       forall f, compress_frame H comp meth body = inr f -> blen f <= 25 + maxBlockSize) ->
    exists tail, bytes = code_byte (bkind_code k) ++ tail /\
      (temp_table (c_rev c) ;;; via H decomp c (compressible (Z.to_N (bkind_code k))) p []) (tail ++ rest) = Ok (a, []) rest.
  Proof.
    intros He Hnil Hp Hsz. destruct (ebp_inv _ _ _ _ _ _ He) as (body & pl & Hb & Hpl & ->).
    eexists. split; [reflexivity|]. unfold bind. rewrite <- app_assoc, temp_table_rt.
    eapply via_rt; [exact codec|exact Hnil|exact (Hp body Hb)|exact Hpl|].
    intros Hc. exact (Hsz Hc body Hb).
  Qed.

  Lemma bkind_code_small k : Z.to_N (bkind_code k) < 128 /\ is_server_code (Z.to_N (bkind_code k)) = true.
  Proof. destruct k; split; reflexivity. Qed.

  (* ---- Data / Totals ------------------------------------------------------------------------------ *)
  Lemma data_R c hs st ss k info nrows cols bytes rest :
    (k = BData \/ k = BTotals) ->
    rel st ss -> packet_ok c (s_tg ss) (PBlock k info nrows cols) ->
    encode_block_packet c k info nrows cols = Some bytes ->
    R rest (recv_step c hs st (bytes ++ rest)) (spec_step c hs ss (PBlock k info nrows cols)).
  Proof.
    intros Hk Hr (Hb & Hn & Hc & (cols' & Hok & Hfit) & Hsz) He.
    destruct Hr as (R1 & R2 & R3 & R4).
    assert (Hfit' : is_end_marker nrows cols = false -> fits (r_tg st) nrows cols).
    { intros E. rewrite R2. destruct Hk; subst k; exact (Hfit E). }
    destruct (block_parser_rt conflicts infer_target infer_auto conflicts_refl c (r_tg st) info nrows cols cols' Hb Hn Hc Hok Hfit')
      as (body0 & Hbody0 & Hdec).
    destruct (decode_block_read c k (block_parser c (r_tg st)) _ info nrows cols bytes rest He (block_parser_nil c _)
                (fun body Hbd r => ltac:(rewrite Hbody0 in Hbd; injection Hbd as <-; exact (Hdec r))) Hsz)
      as (tail & -> & Hread).
    destruct (bkind_code_small k) as (Hsmall & Hsc).
    rewrite <- app_assoc, recv_step_code by assumption.
    assert (Hdisp : dispatch c hs (Z.to_N (bkind_code k) mod 256) st (tail ++ rest)
                    = on_data c hs (Z.to_N (bkind_code k)) st (tail ++ rest)).
    { destruct Hk; subst k; reflexivity. }
    rewrite Hdisp. unfold Recv.on_data. rewrite R3, Hread. unfold lift.
    rewrite end_test.
    assert (Hspec : spec_step c hs ss (PBlock k info nrows cols) =
      if is_end_marker nrows cols then SContinue ss else
      match prepared cols with
      | None => SDone (OErr RFuel) ss
      | Some cols' =>
        let tg' := tg_with (s_tg ss) cols' in
        let st1 := {| s_first := s_first ss ; s_tg := tg' ; s_trace := s_trace ss |} in
        match on_result hs with
        | Some _ =>
          scall (on_result hs)
                (EvResult (info_at (c_rev c) info) (Z.of_nat (length cols)) (Z.of_N nrows) (bound_of tg'))
                st1 SContinue
        | None =>
          if negb (s_first ss) then SDone (OErr RNoOnResult) st1
          else SContinue {| s_first := if 0 <? nrows then false else true ; s_tg := tg' ; s_trace := s_trace ss |}
        end
      end).
    { destruct Hk; subst k; reflexivity. }
    rewrite Hspec. clear Hspec Hdisp.
    destruct (is_end_marker nrows cols) eqn:Hend.
    - cbn. eexists. split; [reflexivity|]. unfold rel. cbn. auto.
    - rewrite (prepared_ok _ _ _ Hok). cbv zeta. rewrite <- R2.
      destruct (on_result hs) as [f|] eqn:Hres.
      + apply call_R.
        * unfold rel. cbn. rewrite R2. auto.
        * intros st' ss' Hr'. cbn. eexists. split; [reflexivity|exact Hr'].
      + cbn [r_first]. rewrite R1. destruct (s_first ss); cbn [negb].
        * cbn. eexists. split; [reflexivity|]. unfold rel. cbn. repeat split; try assumption.
          destruct nrows; reflexivity.
        * cbn. eexists _, _. split; [reflexivity|]. unfold rel. cbn. auto.
  Qed.

  (* ---- Log ------------------------------------------------------------------------------------------ *)
  Lemma typed_inv c ts s i nc nr ts' r :
    block_parser c (TgTyped ts) s = Ok (i, nc, nr, TgTyped ts') r ->
    decode_block conflicts infer_target infer_auto false (c_build c) (c_rev c) ts s = Ok (i, nc, nr, ts') r.
  Proof.
    cbn [Recv.block_parser]. unfold bind.
    destruct (decode_block _ _ _ _ _ _ _ _) as [[[[i0 c0] r0] t0] r1|e|x]; cbn; [|discriminate|discriminate].
    intros [= -> -> -> -> ->]. reflexivity.
  Qed.

  Lemma log_block_nil b v : decode_log_block conflicts infer_target infer_auto b v [] = Err EEof.
  Proof. unfold decode_log_block, decode_block, bind. destruct (gate v FeatureBlockInfo); reflexivity. Qed.

  Lemma log_R c hs st ss info nrows cols bytes rest :
    rel st ss -> packet_ok c (s_tg ss) (PBlock BLog info nrows cols) ->
    encode_block_packet c BLog info nrows cols = Some bytes ->
    R rest (recv_step c hs st (bytes ++ rest)) (spec_step c hs ss (PBlock BLog info nrows cols)).
  Proof.
    intros Hr (Hb & Hn & Hc & (cols' & Hok & Hfit) & Hsz) He.
    destruct Hr as (R1 & R2 & R3 & R4).
    destruct (block_parser_rt conflicts infer_target infer_auto conflicts_refl c (TgTyped log_fixed) info nrows cols cols' Hb Hn Hc Hok Hfit)
      as (body0 & Hbody0 & Hdec).
    destruct (decode_block_read c BLog (decode_log_block conflicts infer_target infer_auto (c_build c) (c_rev c))
                (info_at (c_rev c) info, Z.of_nat (length cols), Z.of_N nrows, if is_end_marker nrows cols then log_fixed else cols')
                info nrows cols bytes rest He (log_block_nil _ _)
                (fun body Hbd r => ltac:(rewrite Hbody0 in Hbd; injection Hbd as <-; apply typed_inv; rewrite (Hdec r);
                                         destruct (is_end_marker nrows cols); reflexivity)) Hsz)
      as (tail & -> & Hread).
    rewrite <- app_assoc, recv_step_code by reflexivity.
    change (dispatch c hs (Z.to_N (bkind_code BLog) mod 256) st (tail ++ rest))
      with (on_log_pkt c hs (Z.to_N (bkind_code BLog)) st (tail ++ rest)).
    unfold Recv.on_log_pkt. rewrite R3, Hread. unfold lift. rewrite end_test.
    cbn [spec_step]. destruct (is_end_marker nrows cols) eqn:Hend.
    - cbn. eexists. split; [reflexivity|]. unfold rel. cbn. auto.
    - rewrite (prepared_ok _ _ _ Hok).
      assert (Hrel1 : rel {| r_first := r_first st ; r_tg := r_tg st ; r_carry := [] ; r_trace := r_trace st |} ss)
        by (unfold rel; cbn; auto).
      destruct (on_logs hs) as [f|] eqn:E1; [|destruct (on_log hs) as [g|] eqn:E2].
      + apply call_R; [exact Hrel1|]. intros st2 ss2 Hr2. apply call_each_R; [exact Hr2|].
        intros st3 ss3 Hr3. cbn. eexists. split; [reflexivity|exact Hr3].
      + apply call_R; [exact Hrel1|]. intros st2 ss2 Hr2. apply call_each_R; [exact Hr2|].
        intros st3 ss3 Hr3. cbn. eexists. split; [reflexivity|exact Hr3].
      + cbn. eexists. split; [reflexivity|exact Hrel1].
  Qed.

  (* ---- ProfileEvents ------------------------------------------------------------------------------- *)
  Lemma enc_cols_app b v n : forall a x bb y,
    enc_cols b v n a = Some x -> enc_cols b v n bb = Some y -> enc_cols b v n (a ++ bb) = Some (x ++ y).
  Proof.
    induction a as [|c0 a IH]; intros x bb y Ha Hbb; cbn [app enc_cols] in *.
    - injection Ha as <-. exact Hbb.
    - destruct (negb _); [discriminate|]. destruct (prepare _ _); [|discriminate].
      destruct (enc_cols b v n a) as [r|] eqn:Er; [|discriminate]. injection Ha as <-.
      rewrite (IH r bb y eq_refl Hbb). now rewrite <- !app_assoc.
  Qed.

  Ltac hdr Hb Hc Hn :=
    unfold bind; rewrite <- ?app_assoc; rewrite (binfo_rt _ _ _ Hb); cbv beta iota;
    rewrite (get_int_nat _ _ Hc), (ncols_range _ Hc); cbv beta iota;
    rewrite (get_int_rows _ _ Hn); cbv beta iota;
    rewrite (check_rows_ok _ Hn); cbv beta iota; rewrite end_test.

  Lemma pe_block_nil b v : decode_pe_block conflicts infer_target infer_auto b v [] = Err EEof.
  Proof. unfold decode_pe_block, bind. destruct (gate v FeatureBlockInfo); reflexivity. Qed.

  Lemma pe_block_rt c info nrows cols cols' :
    in_i32 (bi_bucket info) -> nrows <= max_rows -> (Z.of_nat (length cols) <= maxColumnsInBlock)%Z ->
    Forall2 (col_ok nrows) cols cols' -> (is_end_marker nrows cols = false -> pe_fits cols) ->
    exists body, encode_block (c_build c) (c_rev c) info nrows cols = Some body /\
      forall r, decode_pe_block conflicts infer_target infer_auto (c_build c) (c_rev c) (body ++ r) =
        Ok (info_at (c_rev c) info, Z.of_nat (length cols), Z.of_N nrows,
            if is_end_marker nrows cols then [] else cols') r.
  Proof.
    intros Hb Hn Hc Hok Hfit.
    destruct (enc_cols_some (c_build c) (c_rev c) nrows cols cols' Hok) as (body & Hbody).
    unfold encode_block, encode_raw_block. rewrite Hbody. cbn [option_map].
    eexists. split; [reflexivity|]. intros r.
    destruct (is_end_marker nrows cols) eqn:Hend.
    - assert (Hnil : cols = []) by (destruct cols; [reflexivity|discriminate]).
      subst cols. cbn [enc_cols] in Hbody. injection Hbody as <-.
      unfold decode_pe_block. hdr Hb Hc Hn. rewrite Hend. reflexivity.
    - destruct (Hfit eq_refl) as (c5 & v & -> & Hacc & Hvn & Hvi).
      apply Forall2_app_inv_l in Hok as (c5' & vl' & Hok5 & Hokv & ->).
      inversion Hokv as [|v0 v' l0 l0' Hv Hnil']; subst. inversion Hnil'; subst.
      destruct (dec_targets_rt conflicts infer_target conflicts_refl (c_build c) (c_build c) (c_rev c) nrows Hn c5 c5' pe_fixed Hok5 Hacc)
        as (body5 & Hb5 & Hd5).
      pose proof Hv as (Hname & Hty & Hwt & Hr & Hp & Hr' & Hwfd & Hnl & Htl).
      assert (Hbv : enc_cols (c_build c) (c_rev c) nrows [v] =
                    Some (enc_start (c_rev c) (c_name v) (c_ty v) ++
                          (if rows (c_ty v) (c_data v') =? 0 then [] else enc_state (c_ty v) ++ enc (c_build c) (c_ty v) (c_data v')) ++ [])).
      { cbn [enc_cols]. rewrite Hr, N.eqb_refl. cbn [negb]. rewrite Hp. reflexivity. }
      rewrite (enc_cols_app _ _ _ _ _ _ _ Hb5 Hbv) in Hbody. injection Hbody as <-.
      assert (Hlen6 : Z.of_nat (length (c5 ++ [v])) = 6%Z).
      { rewrite app_length. rewrite <- (F2_length _ _ _ Hacc). reflexivity. }
      unfold decode_pe_block. hdr Hb Hc Hn. rewrite Hend. cbv beta iota.
      rewrite Hlen6. change (negb (6 =? 6)%Z) with false. cbv beta iota.
      rewrite <- ?app_assoc. rewrite Hd5. cbv beta iota.
      unfold dec_auto_target, bind. rewrite header_rt by assumption. cbv beta iota.
      rewrite Hvn, bytes_eqb_refl. cbn [negb]. rewrite Hvi, conflicts_refl.
      rewrite (coldata_rt (c_build c) (c_build c) nrows v v' _ Hn Hv). cbv beta iota. unfold ret.
      cbn [app]. f_equal. f_equal. f_equal. f_equal.
      destruct v' as [n' t' d']. cbn in *. subst. now rewrite <- Hvn.
  Qed.

  Lemma pevents_R c hs st ss info nrows cols bytes rest :
    rel st ss -> packet_ok c (s_tg ss) (PBlock BPEvents info nrows cols) ->
    encode_block_packet c BPEvents info nrows cols = Some bytes ->
    R rest (recv_step c hs st (bytes ++ rest)) (spec_step c hs ss (PBlock BPEvents info nrows cols)).
  Proof.
    intros Hr (Hb & Hn & Hc & (cols' & Hok & Hfit) & Hsz) He.
    destruct Hr as (R1 & R2 & R3 & R4).
    destruct (pe_block_rt c info nrows cols cols' Hb Hn Hc Hok Hfit) as (body0 & Hbody0 & Hdec).
    destruct (decode_block_read c BPEvents (decode_pe_block conflicts infer_target infer_auto (c_build c) (c_rev c))
                _ info nrows cols bytes rest He (pe_block_nil _ _)
                (fun body Hbd r => ltac:(rewrite Hbody0 in Hbd; injection Hbd as <-; exact (Hdec r))) Hsz)
      as (tail & -> & Hread).
    rewrite <- app_assoc, recv_step_code by reflexivity.
    change (dispatch c hs (Z.to_N (bkind_code BPEvents) mod 256) st (tail ++ rest))
      with (on_pevents_pkt c hs (Z.to_N (bkind_code BPEvents)) st (tail ++ rest)).
    unfold Recv.on_pevents_pkt. rewrite R3, Hread. unfold lift. rewrite end_test.
    cbn [spec_step]. destruct (is_end_marker nrows cols) eqn:Hend.
    - cbn. eexists. split; [reflexivity|]. unfold rel. cbn. auto.
    - rewrite (prepared_ok _ _ _ Hok). cbn [option_map].
      assert (Hrel1 : rel {| r_first := r_first st ; r_tg := r_tg st ; r_carry := [] ; r_trace := r_trace st |} ss)
        by (unfold rel; cbn; auto).
      assert (Hgo : forall evs,
                R rest (call (on_pevents hs) (EvPEvents evs) {| r_first := r_first st ; r_tg := r_tg st ; r_carry := [] ; r_trace := r_trace st |} rest
                          (fun st2 => call_each (on_pevent hs) EvPEvent evs st2 rest (fun st3 => Continue st3 rest)))
                       (scall (on_pevents hs) (EvPEvents evs) ss (fun st2 => scall_each (on_pevent hs) EvPEvent evs st2 SContinue))).
      { intros evs. apply call_R; [exact Hrel1|]. intros st2 ss2 Hr2. apply call_each_R; [exact Hr2|].
        intros st3 ss3 Hr3. cbn. eexists. split; [reflexivity|exact Hr3]. }
      destruct (on_pevents hs) as [f|] eqn:E1; [|destruct (on_pevent hs) as [g|] eqn:E2].
      + destruct (pe_all cols') as [evs|]; [apply Hgo|]. cbn. eexists _, _. split; [reflexivity|exact Hrel1].
      + destruct (pe_all cols') as [evs|]; [apply Hgo|]. cbn. eexists _, _. split; [reflexivity|exact Hrel1].
      + cbn. eexists. split; [reflexivity|exact Hrel1].
  Qed.

  (* ---- every packet ------------------------------------------------------------------------------------ *)
  Lemma packet_R c hs st ss p bytes rest :
    rel st ss -> packet_ok c (s_tg ss) p -> encode_packet c p = Some bytes ->
    R rest (recv_step c hs st (bytes ++ rest)) (spec_step c hs ss p).
  Proof.
    intros Hr Hok He. destruct p as [k info nrows cols|xs|xs|xs|top next|]; cbn [Recv.encode_packet] in He.
    - destruct k; [apply data_R; auto|apply data_R; auto|now apply log_R|now apply pevents_R].
    - (* Progress *)
      apply some_inj in He. subst bytes. cbn [packet_ok] in Hok. rewrite <- app_assoc, recv_step_code by reflexivity.
      change (dispatch c hs (Z.to_N ServerCodeProgress mod 256) st (encode_Progress (c_rev c) xs ++ rest))
        with (lift (decode_Progress (c_rev c) (encode_Progress (c_rev c) xs ++ rest)) st
                (fun ys s2 => call (on_progress hs) (EvProgress ys) st s2 (fun st' => Continue st' s2))).
      rewrite Progress_rt by exact Hok. unfold lift. cbn [spec_step].
      apply call_R; [exact Hr|]. intros st' ss' Hr'. cbn. eexists. split; [reflexivity|exact Hr'].
    - (* Profile *)
      apply some_inj in He. subst bytes. cbn [packet_ok] in Hok.
      destruct (Profile_rt rest xs Hok) as (b & Hb & Hd). rewrite Hb.
      change (Z.to_N ServerCodeProfile :: b) with (code_byte ServerCodeProfile ++ b).
      rewrite <- app_assoc, recv_step_code by reflexivity.
      change (dispatch c hs (Z.to_N ServerCodeProfile mod 256) st (b ++ rest))
        with (lift (decode_Profile (b ++ rest)) st
                (fun ys s2 => call (on_profile hs) (EvProfile ys) st s2 (fun st' => Continue st' s2))).
      rewrite Hd. unfold lift. cbn [spec_step].
      rewrite project_nogate by (reflexivity || exact Hok).
      apply call_R; [exact Hr|]. intros st' ss' Hr'. cbn. eexists. split; [reflexivity|exact Hr'].
    - (* TableColumns: read and ignored *)
      apply some_inj in He. subst bytes. cbn [packet_ok] in Hok.
      destruct (TableColumns_rt rest xs Hok) as (b & Hb & Hd). rewrite Hb.
      change (Z.to_N ServerCodeTableColumns :: b) with (code_byte ServerCodeTableColumns ++ b).
      rewrite <- app_assoc, recv_step_code by reflexivity.
      change (dispatch c hs (Z.to_N ServerCodeTableColumns mod 256) st (b ++ rest))
        with (lift (decode_TableColumns (b ++ rest)) st (fun _ s2 => Continue st s2)).
      rewrite Hd. unfold lift. cbn. eexists. split; [reflexivity|exact Hr].
    - (* Exception *)
      apply some_inj in He. subst bytes. destruct Hok as (Ht & Hn). rewrite <- app_assoc, recv_step_code by reflexivity.
      change (dispatch c hs (Z.to_N ServerCodeException mod 256) st (encode_chain top next ++ rest))
        with (lift (client_exception (encode_chain top next ++ rest)) st (fun e s2 => Done (OExc e) st s2)).
      rewrite client_exception_rt by assumption. unfold lift. cbn. eexists _, _. split; [reflexivity|exact Hr].
    - (* EndOfStream *)
      apply some_inj in He. subst bytes. rewrite recv_step_code by reflexivity.
      cbn. eexists _, _. split; [reflexivity|exact Hr].
  Qed.

  (* ---- the binding after a packet, as the specification threads it ------------------------------------- *)
  Lemma scall_inv h e st k ss' : scall h e st k = SContinue ss' ->
    exists st', s_tg st' = s_tg st /\ k st' = SContinue ss'.
  Proof.
    unfold scall. destruct h as [f|]; [|intros Hk; eexists; split; [reflexivity|exact Hk]].
    destruct (f _); [|discriminate]. intros Hk. eexists. split; [|exact Hk]. reflexivity.
  Qed.

  Lemma scall_each_inv {X} h (mk : X -> event) l : forall st k ss',
    scall_each h mk l st k = SContinue ss' -> exists st', s_tg st' = s_tg st /\ k st' = SContinue ss'.
  Proof.
    induction l as [|x l IH]; intros st k ss' Hk; cbn [scall_each] in Hk.
    - eexists. split; [reflexivity|exact Hk].
    - apply scall_inv in Hk as (st1 & Ht1 & Hk). apply IH in Hk as (st2 & Ht2 & Hk).
      exists st2. split; [congruence|exact Hk].
  Qed.

  Lemma spec_step_tg c hs ss p ss' :
    spec_step c hs ss p = SContinue ss' -> s_tg ss' = tg_after (s_tg ss) p.
  Proof.
    destruct p as [k info nrows cols|xs|xs|xs|top next|]; cbn [spec_step tg_after]; try discriminate.
    - assert (Hdata : (if is_end_marker nrows cols then SContinue ss else
        match prepared cols with
        | None => SDone (OErr RFuel) ss
        | Some cols' =>
          let tg' := tg_with (s_tg ss) cols' in
          let st1 := {| s_first := s_first ss ; s_tg := tg' ; s_trace := s_trace ss |} in
          match on_result hs with
          | Some _ =>
            scall (on_result hs)
                  (EvResult (info_at (c_rev c) info) (Z.of_nat (length cols)) (Z.of_N nrows) (bound_of tg'))
                  st1 SContinue
          | None =>
            if negb (s_first ss) then SDone (OErr RNoOnResult) st1
            else SContinue {| s_first := if 0 <? nrows then false else true ; s_tg := tg' ; s_trace := s_trace ss |}
          end
        end) = SContinue ss' ->
        s_tg ss' = (if is_end_marker nrows cols then s_tg ss
                    else match prepared cols with Some cols' => tg_with (s_tg ss) cols' | None => s_tg ss end)).
      { destruct (is_end_marker nrows cols); [now intros [= <-]|].
        destruct (prepared cols) as [cols'|]; [|discriminate]. cbv zeta.
        destruct (on_result hs).
        - intros Hk. apply scall_inv in Hk as (st' & Ht & [= <-]). exact Ht.
        - destruct (negb (s_first ss)); [discriminate|]. now intros [= <-]. }
      destruct k; try exact Hdata.
      + (* Log *)
        destruct (is_end_marker nrows cols); [now intros [= <-]|].
        destruct (on_logs hs) eqn:E1; [|destruct (on_log hs) eqn:E2]; try (now intros [= <-]);
          (destruct (prepared cols); [|discriminate]);
          intros Hk; apply scall_inv in Hk as (st1 & Ht1 & Hk); apply scall_each_inv in Hk as (st2 & Ht2 & [= <-]); congruence.
      + (* ProfileEvents *)
        destruct (is_end_marker nrows cols); [now intros [= <-]|].
        destruct (on_pevents hs) eqn:E1; [|destruct (on_pevent hs) eqn:E2]; try (now intros [= <-]);
          (destruct (option_map pe_all (prepared cols)) as [[evs|]|]; [|discriminate|discriminate]);
          intros Hk; apply scall_inv in Hk as (st1 & Ht1 & Hk); apply scall_each_inv in Hk as (st2 & Ht2 & [= <-]); congruence.
    - intros Hk. apply scall_inv in Hk as (st' & Ht & [= <-]). exact Ht.
    - intros Hk. apply scall_inv in Hk as (st' & Ht & [= <-]). exact Ht.
    - now intros [= <-].
  Qed.

  (* ---- the whole script ---------------------------------------------------------------------------------- *)
  Lemma script_R c hs : forall ps fuel st ss stream rest,
    rel st ss -> script_ok c (s_tg ss) ps -> encode_packets c ps = Some stream -> (length ps < fuel)%nat ->
    match spec_run c hs ss ps with
    | (Some o, ss') => exists st' r, recv_loop fuel c hs st (stream ++ rest) = (o, st', r) /\ rel st' ss'
    | (None, ss') => exists st', rel st' ss' /\
                     recv_loop fuel c hs st (stream ++ rest) = recv_loop (fuel - length ps) c hs st' rest
    end.
  Proof.
    induction ps as [|p ps IH]; intros fuel st ss stream rest Hr Hok He Hf.
    - cbn in He. injection He as <-. cbn [spec_run length app]. exists st. split; [exact Hr|]. now rewrite Nat.sub_0_r.
    - cbn [Recv.encode_packets] in He.
      destruct (encode_packet c p) as [a|] eqn:Ea; [|discriminate].
      destruct (encode_packets c ps) as [b|] eqn:Eb; [|discriminate]. injection He as <-.
      destruct Hok as (Hp & Hps).
      destruct fuel as [|fuel]; [cbn [length] in Hf; lia|].
      pose proof (packet_R c hs st ss p a (b ++ rest) Hr Hp Ea) as HR.
      cbn [spec_run Recv.recv_loop]. rewrite <- app_assoc.
      destruct (spec_step c hs ss p) as [ss1|o ss1] eqn:Es; cbn [R] in HR.
      + destruct HR as (st1 & -> & Hr1).
        pose proof (spec_step_tg _ _ _ _ _ Es) as Htg. rewrite <- Htg in Hps.
        specialize (IH fuel st1 ss1 b rest Hr1 Hps eq_refl ltac:(cbn [length] in Hf; lia)).
        destruct (spec_run c hs ss1 ps) as [[o|] ss2]; [exact IH|].
        destruct IH as (st2 & Hr2 & ->). exists st2. split; [exact Hr2|]. reflexivity.
      + destruct HR as (st1 & r & -> & Hr1). eexists _, _. split; [reflexivity|exact Hr1].
  Qed.

  Lemma rel_init tg : rel (st_init tg) (sst_init tg).
  Proof. unfold rel. cbn. auto. Qed.

  Lemma encode_packets_length c : forall ps stream, encode_packets c ps = Some stream -> (length ps <= length stream)%nat.
  Proof.
    induction ps as [|p ps IH]; intros stream He; [cbn; lia|].
    cbn [Recv.encode_packets] in He.
    destruct (encode_packet c p) as [a|] eqn:Ea; [|discriminate].
    destruct (encode_packets c ps) as [b|] eqn:Eb; [|discriminate]. injection He as <-.
    specialize (IH _ eq_refl). rewrite app_length. cbn [length].
    assert (1 <= length a)%nat; [|lia].
    destruct p as [k info nrows cols|xs|xs|xs|top next|]; cbn [Recv.encode_packet] in Ea.
    - apply ebp_inv in Ea as (body & pl & _ & _ & ->). cbn [code_byte app length]. lia.
    - injection Ea as <-. cbn [code_byte app length]. lia.
    - injection Ea as <-. cbn [encode_Profile code_byte app length]. lia.
    - injection Ea as <-. cbn [encode_TableColumns code_byte app length]. lia.
    - injection Ea as <-. cbn [code_byte app length]. lia.
    - injection Ea as <-. cbn [code_byte length]. lia.
  Qed.

  (* ---- the theorems of props/C03.v ----------------------------------------------------------------------- *)
  (* a script whose first terminating event (EndOfStream, exception, failing callback, default-handler
     rule) is reached: Do's receiver returns exactly that outcome, whatever follows on the wire; the
     callbacks saw exactly the expected trace and the bound columns are those of the last block *)
  Theorem recv_refines_spec c hs tg ps stream rest o :
    script_ok c tg ps -> encode_packets c ps = Some stream ->
    expected_outcome c hs tg ps = Some o ->
    exists st r, recv c hs tg (stream ++ rest) = (o, st, r) /\
      r_trace st = expected_trace c hs tg ps /\
      r_tg st = s_tg (snd (spec_run c hs (sst_init tg) ps)).
  Proof.
    intros Hok He Ho. unfold Recv.recv, expected_outcome, expected_trace in *.
    pose proof (script_R c hs ps (S (length (stream ++ rest))) (st_init tg) (sst_init tg) stream rest
                  (rel_init tg) Hok He) as Hs.
    assert (Hf : (length ps < S (length (stream ++ rest)))%nat).
    { pose proof (encode_packets_length c ps stream He). rewrite app_length. lia. }
    specialize (Hs Hf).
    destruct (spec_run c hs (sst_init tg) ps) as [[o'|] ss']; cbn [fst snd] in *; [|discriminate].
    injection Ho as ->. destruct Hs as (st' & r & Hrun & (_ & Htg & _ & Htr)).
    exists st', r. auto.
  Qed.

  (* a script without a terminating event, after which the server closes the connection: the receiver
     fails on the next packet read; every callback of the script was made *)
  Theorem recv_unterminated c hs tg ps stream :
    script_ok c tg ps -> encode_packets c ps = Some stream ->
    expected_outcome c hs tg ps = None ->
    exists st r, recv c hs tg stream = (OErr (RDecode EEof), st, r) /\
      r_trace st = expected_trace c hs tg ps.
  Proof.
    intros Hok He Ho. unfold Recv.recv, expected_outcome, expected_trace in *.
    pose proof (script_R c hs ps (S (length stream)) (st_init tg) (sst_init tg) stream []
                  (rel_init tg) Hok He) as Hs.
    assert (Hf : (length ps < S (length stream))%nat).
    { pose proof (encode_packets_length c ps stream He). lia. }
    specialize (Hs Hf). rewrite app_nil_r in Hs.
    destruct (spec_run c hs (sst_init tg) ps) as [[o'|] ss']; cbn [fst snd] in *; [discriminate|].
    destruct Hs as (st' & (_ & _ & _ & Htr) & Hrun). rewrite Hrun.
    destruct (S (length stream) - length ps)%nat as [|k] eqn:Ek; [lia|].
    cbn [Recv.recv_loop]. unfold Recv.recv_step. cbn. eexists _, _. split; [reflexivity|exact Htr].
  Qed.

  (* both cases at once: the callback trace is the expected one; the outcome is the script's first
     terminating event, or the read error on the closed connection when the script has none *)
  Theorem recv_full c hs tg ps stream rest :
    script_ok c tg ps -> encode_packets c ps = Some stream ->
    (expected_outcome c hs tg ps = None -> rest = []) ->
    exists st r,
      recv c hs tg (stream ++ rest) =
        (match expected_outcome c hs tg ps with Some o => o | None => OErr (RDecode EEof) end, st, r) /\
      r_trace st = expected_trace c hs tg ps.
  Proof.
    intros Hok He Hrest. destruct (expected_outcome c hs tg ps) as [o|] eqn:Eo.
    - destruct (recv_refines_spec c hs tg ps stream rest o Hok He Eo) as (st & r & Hrun & Htr & _).
      exists st, r. auto.
    - rewrite (Hrest eq_refl), app_nil_r. now apply recv_unterminated.
  Qed.
End Script.

(* ---------- what makes the specification return nil ------------------------------------------------------ *)
Lemma scall_done h e st k o ss' : scall h e st k = SDone o ss' ->
  o = OErr RHandler \/ exists st', k st' = SDone o ss'.
Proof.
  unfold scall. destruct h as [f|]; [|intros Hk; right; eexists; exact Hk].
  destruct (f _); [intros Hk; right; eexists; exact Hk|]. intros [= <- <-]. now left.
Qed.

Lemma scall_each_done {X} h (mk : X -> event) l : forall st k o ss',
  scall_each h mk l st k = SDone o ss' -> o = OErr RHandler \/ exists st', k st' = SDone o ss'.
Proof.
  induction l as [|x l IH]; intros st k o ss' Hk; cbn [scall_each] in Hk.
  - right. eexists. exact Hk.
  - apply scall_done in Hk as [->|(st1 & Hk)]; [now left|]. now apply IH in Hk.
Qed.

Lemma spec_step_nil c hs ss p ss' : spec_step c hs ss p = SDone ONil ss' -> p = PEnd.
Proof.
  destruct p as [k info nrows cols|xs|xs|xs|top next|]; cbn [spec_step]; try discriminate; try reflexivity.
  - assert (Hdata : (if is_end_marker nrows cols then SContinue ss else
      match prepared cols with
      | None => SDone (OErr RFuel) ss
      | Some cols' =>
        let tg' := tg_with (s_tg ss) cols' in
        let st1 := {| s_first := s_first ss ; s_tg := tg' ; s_trace := s_trace ss |} in
        match on_result hs with
        | Some _ =>
          scall (on_result hs)
                (EvResult (info_at (c_rev c) info) (Z.of_nat (length cols)) (Z.of_N nrows) (bound_of tg'))
                st1 SContinue
        | None =>
          if negb (s_first ss) then SDone (OErr RNoOnResult) st1
          else SContinue {| s_first := if 0 <? nrows then false else true ; s_tg := tg' ; s_trace := s_trace ss |}
        end
      end) = SDone ONil ss' -> PBlock k info nrows cols = PEnd).
    { destruct (is_end_marker nrows cols); [discriminate|].
      destruct (prepared cols) as [cols'|]; [|discriminate]. cbv zeta.
      destruct (on_result hs).
      - intros Hk. apply scall_done in Hk as [|(st' & ?)]; discriminate.
      - destruct (negb (s_first ss)); discriminate. }
    destruct k; try exact Hdata.
    + destruct (is_end_marker nrows cols); [discriminate|].
      destruct (on_logs hs) eqn:E1; [|destruct (on_log hs) eqn:E2]; try discriminate;
        (destruct (prepared cols); [|discriminate]);
        intros Hk; apply scall_done in Hk as [|(st1 & Hk)]; try discriminate;
        apply scall_each_done in Hk as [|(st2 & ?)]; discriminate.
    + destruct (is_end_marker nrows cols); [discriminate|].
      destruct (on_pevents hs) eqn:E1; [|destruct (on_pevent hs) eqn:E2]; try discriminate;
        (destruct (option_map pe_all (prepared cols)) as [[evs|]|]; [|discriminate|discriminate]);
        intros Hk; apply scall_done in Hk as [|(st1 & Hk)]; try discriminate;
        apply scall_each_done in Hk as [|(st2 & ?)]; discriminate.
  - intros Hk. apply scall_done in Hk as [|(st' & ?)]; discriminate.
  - intros Hk. apply scall_done in Hk as [|(st' & ?)]; discriminate.
Qed.

Lemma spec_run_app c hs : forall ps1 ss ps2,
  spec_run c hs ss (ps1 ++ ps2) =
  match spec_run c hs ss ps1 with
  | (Some o, s) => (Some o, s)
  | (None, s) => spec_run c hs s ps2
  end.
Proof.
  induction ps1 as [|p ps1 IH]; intros ss ps2; cbn [app spec_run]; [reflexivity|].
  destruct (spec_step c hs ss p); [apply IH|reflexivity].
Qed.

(* nil exactly when the script reaches an EndOfStream packet before any other terminating event
   (server exception, failing callback, the default result handler's second block, a
   ProfileEvents value column of a foreign type) *)
Theorem spec_nil_iff c hs : forall ps ss,
  fst (spec_run c hs ss ps) = Some ONil <->
  exists ps1 ps2, ps = ps1 ++ PEnd :: ps2 /\ fst (spec_run c hs ss ps1) = None.
Proof.
  induction ps as [|p ps IH]; intros ss; cbn [spec_run].
  - split; [discriminate|]. intros (ps1 & ps2 & E & _). destruct ps1; discriminate.
  - destruct (spec_step c hs ss p) as [ss1|o ss1] eqn:Es.
    + rewrite IH. split.
      * intros (ps1 & ps2 & -> & Hn). exists (p :: ps1), ps2. split; [reflexivity|].
        cbn [spec_run]. now rewrite Es.
      * intros (ps1 & ps2 & E & Hn). destruct ps1 as [|q ps1].
        -- cbn in E. injection E as -> ->. cbn in Es. discriminate.
        -- cbn in E. injection E as -> ->. exists ps1, ps2. split; [reflexivity|].
           cbn [spec_run] in Hn. now rewrite Es in Hn.
    + cbn [fst]. split.
      * intros [= ->]. apply spec_step_nil in Es as ->. exists [], ps. split; reflexivity.
      * intros (ps1 & ps2 & E & Hn). destruct ps1 as [|q ps1].
        -- cbn in E. injection E as -> ->. cbn in Es. now injection Es as <- <-.
        -- cbn in E. injection E as -> ->. cbn [spec_run] in Hn. rewrite Es in Hn. discriminate.
Qed.

(* ---------- the statements of props/C03.v that combine the two halves ------------------------------------ *)
Section Final.
  Variable conflicts : bytes -> bytes -> bool.
  Variable infer_target : ty -> bytes -> option ty.
  Variable infer_auto : bytes -> option ty.
  Variable H : bytes -> N * N.
  Variable comp : method -> bytes -> option bytes.
  Variable decomp : N -> bytes -> N -> option bytes.
  Variable meth : method.
  Hypothesis conflicts_refl : forall s, conflicts s s = false.
  Hypothesis codec : codec_rt comp decomp.

  Notation recv := (recv conflicts infer_target infer_auto H decomp).
  Notation encode_packets := (encode_packets H comp meth).
  Notation script_ok := (script_ok infer_target infer_auto H comp meth).

  Theorem recv_nil_iff_thm c hs tg ps stream rest :
    script_ok c tg ps -> encode_packets c ps = Some stream ->
    (expected_outcome c hs tg ps = None -> rest = []) ->
    (fst (fst (recv c hs tg (stream ++ rest))) = ONil <->
     exists ps1 ps2, ps = ps1 ++ PEnd :: ps2 /\ expected_outcome c hs tg ps1 = None).
  Proof.
    intros Hok He Hrest.
    destruct (recv_full conflicts infer_target infer_auto H comp decomp meth conflicts_refl codec
                c hs tg ps stream rest Hok He Hrest) as (st & r & Hrun & _).
    rewrite Hrun. cbn [fst]. unfold expected_outcome in *. rewrite <- spec_nil_iff.
    destruct (fst (spec_run c hs (sst_init tg) ps)) as [o|].
    - split; [now intros ->|now intros [= ->]].
    - split; discriminate.
  Qed.

  Theorem exception_chain_thm c hs tg ps1 top next ps2 stream rest :
    script_ok c tg (ps1 ++ PException top next :: ps2) ->
    encode_packets c (ps1 ++ PException top next :: ps2) = Some stream ->
    expected_outcome c hs tg ps1 = None ->
    let e := {| x_top := top ; x_next := next |} in
    (exists st r, recv c hs tg (stream ++ rest) = (OExc e, st, r) /\
                  r_trace st = expected_trace c hs tg ps1) /\
    (forall code, errors_is e code = true <-> In code (map e_code (top :: next))) /\
    (forall code, is_code e [code] = true <-> e_code top = code).
  Proof.
    intros Hok He Hn e. split; [|split; [apply errors_is_chain|apply is_code_top]].
    assert (Hrun : spec_run c hs (sst_init tg) (ps1 ++ PException top next :: ps2) =
                   (Some (OExc e), snd (spec_run c hs (sst_init tg) ps1))).
    { rewrite spec_run_app. unfold expected_outcome in Hn.
      destruct (spec_run c hs (sst_init tg) ps1) as [[o|] s1]; cbn [fst snd] in *; [discriminate|]. reflexivity. }
    destruct (recv_refines_spec conflicts infer_target infer_auto H comp decomp meth conflicts_refl codec
                c hs tg _ stream rest (OExc e) Hok He) as (st & r & Hr & Htr & _).
    { unfold expected_outcome. now rewrite Hrun. }
    exists st, r. split; [exact Hr|]. rewrite Htr. unfold expected_trace. now rewrite Hrun.
  Qed.
End Final.
