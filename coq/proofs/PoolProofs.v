(* C11: invariants of the pool model (coq/model/Pool.v) over every operation history.
   P1 an acquired resource has exactly one owner (a handle or the running health check), an idle one none;
   P2 idle + tokens held <= MaxConns, hence total <= MaxConns;
   P3 destroyed is absorbing;  P4 a released handle holds no resource. *)
From CH Require Import model.Pool.
From Coq Require Import List NArith Bool Arith Lia.
Import ListNotations.
Open Scope nat_scope.

(* ---- lists --------------------------------------------------------------------------------- *)
Lemma upd_length : forall A (l : list A) i x, length (upd l i x) = length l.
Proof. induction l; destruct i; cbn; intros; auto. Qed.

Lemma nth_error_upd : forall A (l : list A) i x y j,
  nth_error l i = Some y -> nth_error (upd l i x) j = if Nat.eqb i j then Some x else nth_error l j.
Proof.
  induction l; intros i x y j H.
  - destruct i; discriminate.
  - destruct i, j; cbn in *; auto. eapply IHl; eauto.
Qed.

Lemma nth_error_upd_none : forall A (l : list A) i x,
  nth_error l i = None -> upd l i x = l.
Proof.
  induction l; intros i x H; destruct i; cbn in *; auto; try discriminate. f_equal; auto.
Qed.

Lemma upd_upd : forall A (l : list A) i a b, upd (upd l i a) i b = upd l i b.
Proof. induction l; destruct i; cbn; intros; auto. f_equal; auto. Qed.

Definition b2n (b : bool) : nat := if b then 1 else 0.

Lemma cnt_app : forall f l x, cnt f (l ++ [x]) = cnt f l + b2n (f (r_status x)).
Proof.
  intros. unfold cnt. rewrite filter_app, app_length. cbn. destruct (f (r_status x)); cbn; lia.
Qed.

Lemma cnt_upd : forall f l i x y, nth_error l i = Some y ->
  cnt f (upd l i x) + b2n (f (r_status y)) = cnt f l + b2n (f (r_status x)).
Proof.
  induction l; intros i x y H.
  - destruct i; discriminate.
  - destruct i; cbn in H.
    + inversion H; subst. unfold cnt; cbn. destruct (f (r_status x)), (f (r_status y)); cbn; lia.
    + specialize (IHl _ x _ H). unfold cnt in *; cbn. destruct (f (r_status a)); cbn; lia.
Qed.

Lemma total_split : forall l, cnt in_pool l = cnt is_idle l + cnt holds_token l.
Proof.
  induction l; auto. unfold cnt in *; cbn. destruct (r_status a); cbn; lia.
Qed.

(* ---- the invariant --------------------------------------------------------------------------- *)
Definition hc_pending (p : pool) : list nat := match hc p with Some (_, l) => l | None => [] end.

Definition owned (p : pool) (r : nat) : Prop :=
  (exists h, nth_error (handles p) h = Some (Some r)) \/ In r (hc_pending p).

(* [t]: a resource in transit between the idle stack and an owner (inside one operation) *)
Record pinv_t (t : option nat) (p : pool) : Prop := {
  i_h_acq : forall h r, nth_error (handles p) h = Some (Some r) -> status_of p r = Some RAcquired /\ t <> Some r;
  i_h_inj : forall h1 h2 r, nth_error (handles p) h1 = Some (Some r) ->
                            nth_error (handles p) h2 = Some (Some r) -> h1 = h2;
  i_hc_acq : forall r, In r (hc_pending p) ->
               status_of p r = Some RAcquired /\ t <> Some r /\ forall h, nth_error (handles p) h <> Some (Some r);
  i_hc_nd : NoDup (hc_pending p);
  i_owner : forall r, status_of p r = Some RAcquired -> owned p r \/ t = Some r;
  i_t : forall r, t = Some r -> status_of p r = Some RAcquired;
  i_idle : forall r, In r (idle p) <-> status_of p r = Some RIdle;
  i_idle_nd : NoDup (idle p);
  i_cnt : length (idle p) + held p + ghosts p <= c_max (p_cfg p);
  i_icnt : cnt is_idle (ress p) = length (idle p);
  i_open : forall r x, get_res p r = Some x -> r_status x = RIdle -> r_cclosed x = false;
  i_dead : forall r x, get_res p r = Some x -> r_status x = RDead -> r_cclosed x = true;
  i_hc_open : forall r x, In r (hc_pending p) -> get_res p r = Some x -> r_cclosed x = false;
  i_ghost : pclosed p = false -> ghosts p = 0
}.

Definition pinv := pinv_t None.

Ltac nrm := unfold status_of, closed_of, get_res, set_res, pd_destroy, hc_push, hc_pending, owned,
                   held, total, stat_idle, stat_acquired, stat_constructing in *;
            cbn [ress idle handles hc pclosed now p_cfg spawned constructing ghosts
                 set_ress set_idle set_handles set_hc set_pclosed set_now set_spawned set_constructing set_ghosts
                 r_status r_created r_lastused r_cclosed with_status with_lastused with_cclosed option_map] in *.

Lemma status_get : forall p r s, status_of p r = Some s -> exists x, get_res p r = Some x /\ r_status x = s.
Proof.
  unfold status_of. intros p r s H. destruct (get_res p r) as [x|]; cbn in H; try discriminate.
  inversion H. eauto.
Qed.

Lemma pinit_inv : forall c, pinv (pinit c).
Proof.
  intros c. constructor; cbn; try (intros; destruct h; discriminate).
  - intros h1 h2 r H; destruct h1; discriminate.
  - intros r [].
  - constructor.
  - intros r H. unfold status_of, get_res in H. cbn in H. destruct r; discriminate.
  - discriminate.
  - intros r; split; [intros [] | intros H; unfold status_of, get_res in H; cbn in H; destruct r; discriminate].
  - constructor.
  - unfold held, cnt; cbn. lia.
  - reflexivity.
  - intros r x H; unfold get_res in H; cbn in H; destruct r; discriminate.
  - intros r x H; unfold get_res in H; cbn in H; destruct r; discriminate.
  - intros r x [].
  - reflexivity.
Qed.

Lemma om_upd : forall (l : list resrc) r x y r', nth_error l r = Some y ->
  option_map r_status (nth_error (upd l r x) r') =
  if Nat.eqb r r' then Some (r_status x) else option_map r_status (nth_error l r').
Proof.
  intros. rewrite (nth_error_upd _ _ _ _ _ r' H). destruct (Nat.eqb r r'); reflexivity.
Qed.

Ltac eqd a b := destruct (Nat.eqb_spec a b); [subst|].

(* the status of the resource on top of the idle stack *)
Lemma idle_top : forall t p r rest x, pinv_t t p -> idle p = r :: rest -> get_res p r = Some x ->
  r_status x = RIdle /\ ~ In r rest /\ NoDup rest.
Proof.
  intros t p r rest x I Hi Hg.
  assert (status_of p r = Some RIdle) as Hs by (apply (i_idle _ _ I); rewrite Hi; left; auto).
  unfold status_of in Hs. rewrite Hg in Hs. cbn in Hs. inversion Hs.
  pose proof (i_idle_nd _ _ I) as Hnd. rewrite Hi in Hnd. inversion Hnd; subst. auto.
Qed.

(* pop the idle stack: the resource becomes acquired and is in transit *)
Lemma L_pop : forall p r rest x, pinv p -> idle p = r :: rest -> get_res p r = Some x ->
  pinv_t (Some r) (set_idle (set_res p r (with_status x RAcquired)) rest).
Proof.
  intros p r rest x I Hi Hg.
  destruct (idle_top _ _ _ _ _ I Hi Hg) as (Hx & Hnr & Hnd).
  assert (Hsr : status_of p r = Some RIdle) by (unfold status_of; rewrite Hg; cbn; congruence).
  constructor; nrm.
  - intros h r' Hh. destruct (i_h_acq _ _ I _ _ Hh) as [Hs _]. nrm.
    rewrite (om_upd _ _ _ _ _ Hg). eqd r r'; [congruence|]. split; congruence.
  - apply (i_h_inj _ _ I).
  - intros r' Hin. destruct (i_hc_acq _ _ I _ Hin) as (Hs & _ & Hh). nrm.
    rewrite (om_upd _ _ _ _ _ Hg). eqd r r'; [congruence|]. repeat split; auto; congruence.
  - apply (i_hc_nd _ _ I).
  - intros r'. rewrite (om_upd _ _ _ _ _ Hg). eqd r r'; auto.
    intros Hs. destruct (i_owner _ _ I _ Hs) as [Ho|]; [left; exact Ho | discriminate].
  - intros r' Ht. inversion Ht; subst. rewrite (om_upd _ _ _ _ _ Hg). rewrite Nat.eqb_refl. reflexivity.
  - intros r'. rewrite (om_upd _ _ _ _ _ Hg). pose proof (i_idle _ _ I r') as Hii. rewrite Hi in Hii. nrm.
    eqd r r'.
    + split; [intros; contradiction | discriminate].
    + rewrite <- Hii. cbn. split; [auto | intros [|]; [contradiction | auto]].
  - exact Hnd.
  - pose proof (i_cnt _ _ I) as Hc. rewrite Hi in Hc. nrm.
    pose proof (cnt_upd holds_token _ _ (with_status x RAcquired) _ Hg) as Hu. rewrite Hx in Hu. cbn in *. lia.
  - pose proof (i_icnt _ _ I) as Hc. rewrite Hi in Hc. nrm.
    pose proof (cnt_upd is_idle _ _ (with_status x RAcquired) _ Hg) as Hu. rewrite Hx in Hu. cbn in *. lia.
  - intros r' x'. rewrite (nth_error_upd _ _ _ _ _ r' Hg). eqd r r'.
    + intros Hq; inversion Hq; subst. cbn. discriminate.
    + apply (i_open _ _ I).
  - intros r' x'. rewrite (nth_error_upd _ _ _ _ _ r' Hg). eqd r r'.
    + intros Hq; inversion Hq; subst. cbn. discriminate.
    + apply (i_dead _ _ I).
  - intros r' x' Hin. rewrite (nth_error_upd _ _ _ _ _ r' Hg). eqd r r'.
    + destruct (i_hc_acq _ _ I _ Hin) as (Hs & _). nrm. congruence.
    + apply (i_hc_open _ _ I); auto.
  - apply (i_ghost _ _ I).
Qed.

Lemma nth_error_snoc : forall A (l : list A) x h v,
  nth_error (l ++ [x]) h = Some v -> nth_error l h = Some v \/ (h = length l /\ v = x).
Proof.
  intros A l x h v H. destruct (Nat.lt_ge_cases h (length l)).
  - rewrite nth_error_app1 in H by auto. auto.
  - rewrite nth_error_app2 in H by auto. destruct (h - length l) eqn:E; cbn in H.
    + inversion H. right. split; [lia | auto].
    + destruct n; discriminate.
Qed.

Lemma nth_error_snoc_l : forall A (l : list A) x h v,
  nth_error l h = Some v -> nth_error (l ++ [x]) h = Some v.
Proof.
  intros. rewrite nth_error_app1; auto. apply nth_error_Some. congruence.
Qed.

(* hand the resource in transit to a new handle (getConn) *)
Lemma L_give_handle : forall p r, pinv_t (Some r) p -> pinv (set_handles p (handles p ++ [Some r])).
Proof.
  intros p r I.
  assert (Hnh : forall h, nth_error (handles p) h <> Some (Some r)).
  { intros h Hh. destruct (i_h_acq _ _ I _ _ Hh) as [_ Hn]. congruence. }
  constructor; nrm.
  - intros h r' Hh. apply nth_error_snoc in Hh. destruct Hh as [Hh | [_ Hh]].
    + destruct (i_h_acq _ _ I _ _ Hh). split; [auto | discriminate].
    + inversion Hh; subst. split; [apply (i_t _ _ I); auto | discriminate].
  - intros h1 h2 r' H1 H2. apply nth_error_snoc in H1. apply nth_error_snoc in H2.
    destruct H1 as [H1 | [E1 H1]], H2 as [H2 | [E2 H2]].
    + eapply (i_h_inj _ _ I); eauto.
    + inversion H2; subst. exfalso. eapply Hnh; eauto.
    + inversion H1; subst. exfalso. eapply Hnh; eauto.
    + congruence.
  - intros r' Hin. destruct (i_hc_acq _ _ I _ Hin) as (Hs & Hn & Hh). nrm.
    repeat split; auto; try discriminate.
    intros h Hq. apply nth_error_snoc in Hq. destruct Hq as [Hq | [_ Hq]]; [eapply Hh; eauto | congruence].
  - apply (i_hc_nd _ _ I).
  - intros r' Hs. left. destruct (i_owner _ _ I _ Hs) as [[[h Hh] | Hin] | Ht].
    + left. exists h. apply nth_error_snoc_l; auto.
    + right; auto.
    + inversion Ht; subst. left. exists (length (handles p)). rewrite nth_error_app2 by lia.
      rewrite Nat.sub_diag. reflexivity.
  - discriminate.
  - apply (i_idle _ _ I).
  - apply (i_idle_nd _ _ I).
  - apply (i_cnt _ _ I).
  - apply (i_icnt _ _ I).
  - apply (i_open _ _ I).
  - apply (i_dead _ _ I).
  - apply (i_hc_open _ _ I).
  - apply (i_ghost _ _ I).
Qed.

(* a handle that holds nothing (failed Acquire) *)
Lemma L_none_handle : forall t p, pinv_t t p -> pinv_t t (set_handles p (handles p ++ [None])).
Proof.
  intros t p I.
  constructor; nrm.
  - intros h r' Hh. apply nth_error_snoc in Hh. destruct Hh as [Hh | [_ Hh]]; [|discriminate].
    apply (i_h_acq _ _ I _ _ Hh).
  - intros h1 h2 r' H1 H2. apply nth_error_snoc in H1. apply nth_error_snoc in H2.
    destruct H1 as [H1 | [E1 H1]], H2 as [H2 | [E2 H2]]; try discriminate.
    eapply (i_h_inj _ _ I); eauto.
  - intros r' Hin. destruct (i_hc_acq _ _ I _ Hin) as (Hs & Hn & Hh). nrm.
    repeat split; auto.
    intros h Hq. apply nth_error_snoc in Hq. destruct Hq as [Hq | [_ Hq]]; [eapply Hh; eauto | congruence].
  - apply (i_hc_nd _ _ I).
  - intros r' Hs. destruct (i_owner _ _ I _ Hs) as [[[h Hh] | Hin] | Ht]; auto.
    left. left. exists h. apply nth_error_snoc_l; auto.
  - apply (i_t _ _ I).
  - apply (i_idle _ _ I).
  - apply (i_idle_nd _ _ I).
  - apply (i_cnt _ _ I).
  - apply (i_icnt _ _ I).
  - apply (i_open _ _ I).
  - apply (i_dead _ _ I).
  - apply (i_hc_open _ _ I).
  - apply (i_ghost _ _ I).
Qed.

Lemma NoDup_app_snoc : forall (l : list nat) x, NoDup l -> ~ In x l -> NoDup (l ++ [x]).
Proof.
  induction l; intros x Hn Hx; cbn.
  - constructor; auto.
  - inversion Hn; subst. constructor.
    + intros Hin. apply in_app_or in Hin. destruct Hin as [|[|[]]]; [contradiction | subst; apply Hx; left; auto].
    + apply IHl; auto. intros Hin; apply Hx; right; auto.
Qed.

(* hand the resource in transit to the health check (AcquireAllIdle) *)
Lemma L_give_hc : forall p r, pinv_t (Some r) p ->
  (forall x, get_res p r = Some x -> r_cclosed x = false) -> pinv (hc_push p r).
Proof.
  intros p r I Hopen.
  assert (Hnh : forall h, nth_error (handles p) h <> Some (Some r)).
  { intros h Hh. destruct (i_h_acq _ _ I _ _ Hh) as [_ Hn]. congruence. }
  assert (Hnp : ~ In r (hc_pending p)).
  { intros Hin. destruct (i_hc_acq _ _ I _ Hin) as (_ & Hn & _). congruence. }
  assert (Hpend : hc_pending (hc_push p r) = hc_pending p ++ [r]).
  { unfold hc_push, hc_pending. destruct (hc p) as [[t0 l]|]; reflexivity. }
  constructor; try rewrite Hpend.
  - intros h r' Hh. replace (handles (hc_push p r)) with (handles p) in Hh by (unfold hc_push; destruct (hc p) as [[? ?]|]; reflexivity).
    destruct (i_h_acq _ _ I _ _ Hh). split; [|discriminate].
    unfold hc_push; destruct (hc p) as [[? ?]|]; auto.
  - replace (handles (hc_push p r)) with (handles p) by (unfold hc_push; destruct (hc p) as [[? ?]|]; reflexivity).
    apply (i_h_inj _ _ I).
  - replace (handles (hc_push p r)) with (handles p) by (unfold hc_push; destruct (hc p) as [[? ?]|]; reflexivity).
    replace (status_of (hc_push p r)) with (status_of p) by (unfold hc_push; destruct (hc p) as [[? ?]|]; reflexivity).
    intros r' Hin. apply in_app_or in Hin. destruct Hin as [Hin | [Hin | []]].
    + destruct (i_hc_acq _ _ I _ Hin) as (Hs & Hn & Hh). repeat split; auto. discriminate.
    + subst. repeat split; [apply (i_t _ _ I); auto | discriminate | auto].
  - apply NoDup_app_snoc; auto. apply (i_hc_nd _ _ I).
  - replace (status_of (hc_push p r)) with (status_of p) by (unfold hc_push; destruct (hc p) as [[? ?]|]; reflexivity).
    intros r' Hs. left. unfold owned. rewrite Hpend.
    replace (handles (hc_push p r)) with (handles p) by (unfold hc_push; destruct (hc p) as [[? ?]|]; reflexivity).
    destruct (i_owner _ _ I _ Hs) as [[Hh | Hin] | Ht]; auto.
    + right. apply in_or_app; auto.
    + inversion Ht; subst. right. apply in_or_app; right; left; auto.
  - discriminate.
  - replace (status_of (hc_push p r)) with (status_of p) by (unfold hc_push; destruct (hc p) as [[? ?]|]; reflexivity).
    replace (idle (hc_push p r)) with (idle p) by (unfold hc_push; destruct (hc p) as [[? ?]|]; reflexivity).
    apply (i_idle _ _ I).
  - replace (idle (hc_push p r)) with (idle p) by (unfold hc_push; destruct (hc p) as [[? ?]|]; reflexivity).
    apply (i_idle_nd _ _ I).
  - replace (idle (hc_push p r)) with (idle p) by (unfold hc_push; destruct (hc p) as [[? ?]|]; reflexivity).
    replace (held (hc_push p r)) with (held p) by (unfold hc_push; destruct (hc p) as [[? ?]|]; reflexivity).
    replace (p_cfg (hc_push p r)) with (p_cfg p) by (unfold hc_push; destruct (hc p) as [[? ?]|]; reflexivity).
    replace (ghosts (hc_push p r)) with (ghosts p) by (unfold hc_push; destruct (hc p) as [[? ?]|]; reflexivity).
    apply (i_cnt _ _ I).
  - replace (idle (hc_push p r)) with (idle p) by (unfold hc_push; destruct (hc p) as [[? ?]|]; reflexivity).
    replace (ress (hc_push p r)) with (ress p) by (unfold hc_push; destruct (hc p) as [[? ?]|]; reflexivity).
    apply (i_icnt _ _ I).
  - replace (get_res (hc_push p r)) with (get_res p) by (unfold hc_push; destruct (hc p) as [[? ?]|]; reflexivity).
    apply (i_open _ _ I).
  - replace (get_res (hc_push p r)) with (get_res p) by (unfold hc_push; destruct (hc p) as [[? ?]|]; reflexivity).
    apply (i_dead _ _ I).
  - replace (get_res (hc_push p r)) with (get_res p) by (unfold hc_push; destruct (hc p) as [[? ?]|]; reflexivity).
    intros r' x' Hin. apply in_app_or in Hin. destruct Hin as [Hin | [Hin | []]].
    + apply (i_hc_open _ _ I); auto.
    + subst. apply Hopen.
  - replace (pclosed (hc_push p r)) with (pclosed p) by (unfold hc_push; destruct (hc p) as [[? ?]|]; reflexivity).
    replace (ghosts (hc_push p r)) with (ghosts p) by (unfold hc_push; destruct (hc p) as [[? ?]|]; reflexivity).
    apply (i_ghost _ _ I).
Qed.

Lemma nth_snoc : forall A (l : list A) x r,
  nth_error (l ++ [x]) r = if Nat.eqb r (length l) then Some x else nth_error l r.
Proof.
  intros. eqd r (length l).
  - rewrite nth_error_app2 by lia. rewrite Nat.sub_diag. reflexivity.
  - destruct (Nat.lt_ge_cases r (length l)).
    + apply nth_error_app1; auto.
    + rewrite nth_error_app2 by lia. destruct (r - length l) eqn:E; [lia|].
      cbn. destruct n0; cbn; symmetry; apply nth_error_None; lia.
Qed.

Lemma st_lt : forall p r s, status_of p r = Some s -> r < length (ress p).
Proof.
  intros p r s H. unfold status_of, get_res in H. apply nth_error_Some. destruct (nth_error (ress p) r); [discriminate | discriminate].
Qed.

(* construct a resource (createNewResource + constructor): acquired, in transit *)
Lemma L_create : forall p t1 t2, pinv p -> idle p = [] -> held p < c_max (p_cfg p) -> pclosed p = false ->
  pinv_t (Some (length (ress p))) (set_ress p (ress p ++ [mkRes RAcquired t1 t2 false])).
Proof.
  intros p t1 t2 I Hi Hh Hnc. pose proof (i_ghost _ _ I Hnc) as Hgh.
  constructor; nrm.
  - intros h r' Hq. destruct (i_h_acq _ _ I _ _ Hq) as [Hs _]. pose proof (st_lt _ _ _ Hs). nrm.
    rewrite nth_snoc. eqd r' (length (ress p)); [lia|]. split; [auto | intros E; inversion E; lia].
  - apply (i_h_inj _ _ I).
  - intros r' Hin. destruct (i_hc_acq _ _ I _ Hin) as (Hs & _ & Hq). pose proof (st_lt _ _ _ Hs). nrm.
    rewrite nth_snoc. eqd r' (length (ress p)); [lia|]. repeat split; auto. intros E; inversion E; lia.
  - apply (i_hc_nd _ _ I).
  - intros r'. rewrite nth_snoc. eqd r' (length (ress p)); auto.
    intros Hs. destruct (i_owner _ _ I _ Hs) as [Ho|]; [left; exact Ho | discriminate].
  - intros r' Ht. inversion Ht; subst. rewrite nth_snoc, Nat.eqb_refl. reflexivity.
  - intros r'. rewrite nth_snoc. pose proof (i_idle _ _ I r') as Hii. nrm. eqd r' (length (ress p)).
    + rewrite Hi. split; [intros [] | discriminate].
    + exact Hii.
  - apply (i_idle_nd _ _ I).
  - rewrite cnt_app. rewrite Hi. cbn. lia.
  - rewrite cnt_app. cbn. rewrite Nat.add_0_r. apply (i_icnt _ _ I).
  - intros r' x'. rewrite nth_snoc. eqd r' (length (ress p)).
    + intros Hq; inversion Hq; subst. cbn. discriminate.
    + apply (i_open _ _ I).
  - intros r' x'. rewrite nth_snoc. eqd r' (length (ress p)).
    + intros Hq; inversion Hq; subst. cbn. discriminate.
    + apply (i_dead _ _ I).
  - intros r' x' Hin. rewrite nth_snoc. eqd r' (length (ress p)).
    + destruct (i_hc_acq _ _ I _ Hin) as (Hs & _). apply st_lt in Hs. lia.
    + apply (i_hc_open _ _ I); auto.
  - apply (i_ghost _ _ I).
Qed.

(* a handle gives up its resource (res := c.res; c.res = nil) *)
Lemma L_take_handle : forall p h r, pinv p -> nth_error (handles p) h = Some (Some r) ->
  pinv_t (Some r) (set_handles p (upd (handles p) h None)).
Proof.
  intros p h r I Hh.
  assert (Hu : forall h' v, nth_error (upd (handles p) h None) h' = Some (Some v) ->
                            h' <> h /\ nth_error (handles p) h' = Some (Some v)).
  { intros h' v Hq. rewrite (nth_error_upd _ _ _ _ _ h' Hh) in Hq. eqd h h'; [discriminate | auto]. }
  constructor; nrm.
  - intros h' r' Hq. apply Hu in Hq. destruct Hq as [Hne Hq]. destruct (i_h_acq _ _ I _ _ Hq) as [Hs _].
    split; auto. intros E; inversion E; subst. apply Hne. eapply (i_h_inj _ _ I); eauto.
  - intros h1 h2 r' H1 H2. apply Hu in H1. apply Hu in H2. destruct H1, H2. eapply (i_h_inj _ _ I); eauto.
  - intros r' Hin. destruct (i_hc_acq _ _ I _ Hin) as (Hs & _ & Hq). nrm. repeat split; auto.
    + intros E; inversion E; subst. eapply Hq; eauto.
    + intros h' Hq'. apply Hu in Hq'. destruct Hq'. eapply Hq; eauto.
  - apply (i_hc_nd _ _ I).
  - intros r' Hs. destruct (i_owner _ _ I _ Hs) as [[[h' Hq] | Hin] | Ht]; try discriminate.
    + eqd h h'.
      * right. congruence.
      * left. left. exists h'. rewrite (nth_error_upd _ _ _ _ _ h' Hh). destruct (Nat.eqb_spec h h'); [contradiction | auto].
    + left. right. auto.
  - intros r' Ht. inversion Ht; subst. apply (i_h_acq _ _ I _ _ Hh).
  - apply (i_idle _ _ I).
  - apply (i_idle_nd _ _ I).
  - apply (i_cnt _ _ I).
  - apply (i_icnt _ _ I).
  - apply (i_open _ _ I).
  - apply (i_dead _ _ I).
  - apply (i_hc_open _ _ I).
  - apply (i_ghost _ _ I).
Qed.

(* the health check takes the next resource of its list *)
Lemma L_take_hc : forall p t0 r rest, pinv p -> hc p = Some (t0, r :: rest) ->
  pinv_t (Some r) (set_hc p (hc_rest t0 rest)).
Proof.
  intros p t0 r rest I Hc.
  assert (Hp : hc_pending p = r :: rest) by (unfold hc_pending; rewrite Hc; auto).
  assert (Hp' : hc_pending (set_hc p (hc_rest t0 rest)) = rest) by (unfold hc_pending, hc_rest; reflexivity).
  pose proof (i_hc_nd _ _ I) as Hnd. rewrite Hp in Hnd. inversion Hnd; subst.
  pose proof (i_hc_acq _ _ I) as Hacq. rewrite Hp in Hacq.
  pose proof (i_owner _ _ I) as Hown. unfold owned in Hown. rewrite Hp in Hown.
  pose proof (i_hc_open _ _ I) as Hopen. rewrite Hp in Hopen.
  constructor; unfold owned; try rewrite Hp'; clear Hp Hp';
    cbn [ress idle handles hc pclosed now p_cfg set_hc].
  - intros h r' Hq. destruct (i_h_acq _ _ I _ _ Hq) as [Hs _]. split; auto.
    intros E; inversion E; subst. destruct (Hacq r') as (_ & _ & Hx); [left; auto|]. eapply Hx; eauto.
  - apply (i_h_inj _ _ I).
  - intros r' Hin. destruct (Hacq r') as (Hs & _ & Hq); [right; auto|]. repeat split; auto.
    intros E; inversion E; subst. contradiction.
  - auto.
  - intros r' Hs. destruct (Hown _ Hs) as [[Hq | Hin] | Ht]; try discriminate.
    + left. left. auto.
    + destruct Hin as [|Hin]; [right; congruence|]. left. right. exact Hin.
  - intros r' Ht. inversion Ht; subst. apply Hacq. left; auto.
  - apply (i_idle _ _ I).
  - apply (i_idle_nd _ _ I).
  - apply (i_cnt _ _ I).
  - apply (i_icnt _ _ I).
  - apply (i_open _ _ I).
  - apply (i_dead _ _ I).
  - intros r' x' Hin. apply Hopen. right; auto.
  - apply (i_ghost _ _ I).
Qed.

Lemma transit_status : forall p r x, pinv_t (Some r) p -> get_res p r = Some x -> r_status x = RAcquired.
Proof.
  intros p r x I Hg. pose proof (i_t _ _ I r eq_refl) as Hs. unfold status_of in Hs. rewrite Hg in Hs.
  cbn in Hs. congruence.
Qed.

Lemma transit_unowned : forall p r, pinv_t (Some r) p ->
  (forall h, nth_error (handles p) h <> Some (Some r)) /\ ~ In r (hc_pending p) /\ ~ In r (idle p).
Proof.
  intros p r I. repeat split.
  - intros h Hh. destruct (i_h_acq _ _ I _ _ Hh) as [_ Hn]. congruence.
  - intros Hin. destruct (i_hc_acq _ _ I _ Hin) as (_ & Hn & _). congruence.
  - intros Hin. apply (i_idle _ _ I) in Hin. rewrite (i_t _ _ I r eq_refl) in Hin. discriminate.
Qed.

(* the resource in transit leaves the set of acquired resources without becoming idle:
   Destroy (RDestroying) or a release into a closed pool (RClosing) *)
Lemma L_settle_off : forall p r x s, pinv_t (Some r) p -> get_res p r = Some x ->
  s = RDestroying \/ s = RClosing -> pinv (set_res p r (with_status x s)).
Proof.
  intros p r x s I Hg Hs.
  pose proof (transit_status _ _ _ I Hg) as Hx.
  destruct (transit_unowned _ _ I) as (Hnh & Hnp & Hni).
  assert (Hsa : s <> RAcquired /\ s <> RIdle /\ s <> RDead) by (destruct Hs; subst; repeat split; discriminate).
  destruct Hsa as (Hs1 & Hs2 & Hs3).
  constructor; nrm.
  - intros h r' Hh. destruct (i_h_acq _ _ I _ _ Hh) as [Hst Hn]. nrm.
    rewrite (om_upd _ _ _ _ _ Hg). eqd r r'; [congruence|]. split; [auto | discriminate].
  - apply (i_h_inj _ _ I).
  - intros r' Hin. destruct (i_hc_acq _ _ I _ Hin) as (Hst & Hn & Hh). nrm.
    rewrite (om_upd _ _ _ _ _ Hg). eqd r r'; [congruence|]. repeat split; auto; discriminate.
  - apply (i_hc_nd _ _ I).
  - intros r'. rewrite (om_upd _ _ _ _ _ Hg). eqd r r'.
    + cbn. intros E; inversion E; congruence.
    + intros Hst. destruct (i_owner _ _ I _ Hst) as [Ho|E]; [left; exact Ho | inversion E; congruence].
  - discriminate.
  - intros r'. rewrite (om_upd _ _ _ _ _ Hg). pose proof (i_idle _ _ I r') as Hii. nrm. eqd r r'.
    + cbn. split; [intros; contradiction | intros E; inversion E; congruence].
    + exact Hii.
  - apply (i_idle_nd _ _ I).
  - pose proof (i_cnt _ _ I) as Hc. nrm.
    pose proof (cnt_upd holds_token _ _ (with_status x s) _ Hg) as Hu. rewrite Hx in Hu. cbn in Hu.
    destruct Hs; subst; cbn in *; lia.
  - pose proof (i_icnt _ _ I) as Hc. nrm.
    pose proof (cnt_upd is_idle _ _ (with_status x s) _ Hg) as Hu. rewrite Hx in Hu. cbn in Hu.
    destruct Hs; subst; cbn in *; lia.
  - intros r' x'. rewrite (nth_error_upd _ _ _ _ _ r' Hg). eqd r r'.
    + intros Hq; inversion Hq; subst. cbn. congruence.
    + apply (i_open _ _ I).
  - intros r' x'. rewrite (nth_error_upd _ _ _ _ _ r' Hg). eqd r r'.
    + intros Hq; inversion Hq; subst. cbn. congruence.
    + apply (i_dead _ _ I).
  - intros r' x' Hin. rewrite (nth_error_upd _ _ _ _ _ r' Hg). eqd r r'; [contradiction|].
    apply (i_hc_open _ _ I); auto.
  - apply (i_ghost _ _ I).
Qed.

(* the resource in transit goes back on the idle stack *)
Lemma L_settle_idle : forall p r x lu, pinv_t (Some r) p -> get_res p r = Some x -> r_cclosed x = false ->
  pinv (set_idle (set_res p r (with_status (with_lastused x lu) RIdle)) (r :: idle p)).
Proof.
  intros p r x lu I Hg Hcc.
  pose proof (transit_status _ _ _ I Hg) as Hx.
  destruct (transit_unowned _ _ I) as (Hnh & Hnp & Hni).
  constructor; nrm.
  - intros h r' Hh. destruct (i_h_acq _ _ I _ _ Hh) as [Hst Hn]. nrm.
    rewrite (om_upd _ _ _ _ _ Hg). eqd r r'; [congruence|]. split; [auto | discriminate].
  - apply (i_h_inj _ _ I).
  - intros r' Hin. destruct (i_hc_acq _ _ I _ Hin) as (Hst & Hn & Hh). nrm.
    rewrite (om_upd _ _ _ _ _ Hg). eqd r r'; [congruence|]. repeat split; auto; discriminate.
  - apply (i_hc_nd _ _ I).
  - intros r'. rewrite (om_upd _ _ _ _ _ Hg). eqd r r'.
    + cbn. discriminate.
    + intros Hst. destruct (i_owner _ _ I _ Hst) as [Ho|E]; [left; exact Ho | inversion E; congruence].
  - discriminate.
  - intros r'. rewrite (om_upd _ _ _ _ _ Hg). pose proof (i_idle _ _ I r') as Hii. nrm. eqd r r'.
    + cbn. split; auto.
    + cbn. rewrite <- Hii. split; [intros [|]; [contradiction | auto] | auto].
  - constructor; auto. apply (i_idle_nd _ _ I).
  - pose proof (i_cnt _ _ I) as Hc. nrm.
    pose proof (cnt_upd holds_token _ _ (with_status (with_lastused x lu) RIdle) _ Hg) as Hu. rewrite Hx in Hu. cbn in *. lia.
  - pose proof (i_icnt _ _ I) as Hc. nrm.
    pose proof (cnt_upd is_idle _ _ (with_status (with_lastused x lu) RIdle) _ Hg) as Hu. rewrite Hx in Hu. cbn in *. lia.
  - intros r' x'. rewrite (nth_error_upd _ _ _ _ _ r' Hg). eqd r r'.
    + intros Hq; inversion Hq; subst. cbn. auto.
    + apply (i_open _ _ I).
  - intros r' x'. rewrite (nth_error_upd _ _ _ _ _ r' Hg). eqd r r'.
    + intros Hq; inversion Hq; subst. cbn. discriminate.
    + apply (i_dead _ _ I).
  - intros r' x' Hin. rewrite (nth_error_upd _ _ _ _ _ r' Hg). eqd r r'; [contradiction|].
    apply (i_hc_open _ _ I); auto.
  - apply (i_ghost _ _ I).
Qed.

(* a request on an acquired resource may close its client; nothing else changes *)
Lemma L_setcc : forall t p r x b, pinv_t t p -> get_res p r = Some x -> r_status x = RAcquired ->
  ~ In r (hc_pending p) -> pinv_t t (set_res p r (with_cclosed x b)).
Proof.
  intros t p r x b I Hg Hx Hnp.
  assert (Hst : forall r', option_map r_status (nth_error (upd (ress p) r (with_cclosed x b)) r') = status_of p r').
  { intros r'. rewrite (om_upd _ _ _ _ _ Hg). eqd r r'; auto. unfold status_of. rewrite Hg. reflexivity. }
  constructor; nrm; try (setoid_rewrite Hst).
  - apply (i_h_acq _ _ I).
  - apply (i_h_inj _ _ I).
  - apply (i_hc_acq _ _ I).
  - apply (i_hc_nd _ _ I).
  - apply (i_owner _ _ I).
  - apply (i_t _ _ I).
  - apply (i_idle _ _ I).
  - apply (i_idle_nd _ _ I).
  - pose proof (i_cnt _ _ I) as Hc. nrm.
    pose proof (cnt_upd holds_token _ _ (with_cclosed x b) _ Hg) as Hu. cbn in *. lia.
  - pose proof (i_icnt _ _ I) as Hc. nrm.
    pose proof (cnt_upd is_idle _ _ (with_cclosed x b) _ Hg) as Hu. cbn in *. lia.
  - intros r' x'. rewrite (nth_error_upd _ _ _ _ _ r' Hg). eqd r r'.
    + intros Hq; inversion Hq; subst. cbn. congruence.
    + apply (i_open _ _ I).
  - intros r' x'. rewrite (nth_error_upd _ _ _ _ _ r' Hg). eqd r r'.
    + intros Hq; inversion Hq; subst. cbn. congruence.
    + apply (i_dead _ _ I).
  - intros r' x' Hin. rewrite (nth_error_upd _ _ _ _ _ r' Hg). eqd r r'; [contradiction|].
    apply (i_hc_open _ _ I); auto.
  - apply (i_ghost _ _ I).
Qed.

(* a goroutine started by Destroy / by a removal finishes: the destructor closes the client *)
Lemma L_finish : forall t p r, pinv_t t p -> pinv_t t (pd_finish p r).
Proof.
  intros t p r I. unfold pd_finish. destruct (get_res p r) as [x|] eqn:Hg; auto.
  destruct (r_status x) eqn:Hx; auto.
  all: assert (Hst : forall r' s, s = RAcquired \/ s = RIdle ->
          (option_map r_status (nth_error (upd (ress p) r (with_status (with_cclosed x true) RDead)) r') = Some s
           <-> status_of p r' = Some s))
    by (intros r' s Hs; rewrite (om_upd _ _ _ _ _ Hg); eqd r r';
        [ unfold status_of; rewrite Hg; cbn; rewrite Hx; split; intros E; inversion E; destruct Hs; congruence
        | reflexivity ]).
  all: constructor; nrm.
  all: try solve [ apply (i_h_inj _ _ I) | apply (i_hc_nd _ _ I) | apply (i_idle_nd _ _ I) | apply (i_ghost _ _ I) ].
  all: try solve [ intros h r' Hh; destruct (i_h_acq _ _ I _ _ Hh) as [Hs Hn]; split; auto; apply Hst; auto ].
  all: try solve [ intros r' Hin; destruct (i_hc_acq _ _ I _ Hin) as (Hs & Hn & Hh); repeat split; auto; apply Hst; auto ].
  all: try solve [ intros r' Hs; apply Hst in Hs; auto; apply (i_owner _ _ I _ Hs) ].
  all: try solve [ intros r' Ht; apply Hst; auto; apply (i_t _ _ I _ Ht) ].
  all: try solve [ intros r'; rewrite Hst by auto; apply (i_idle _ _ I) ].
  all: try solve [ pose proof (i_cnt _ _ I) as Hc; nrm;
                   pose proof (cnt_upd holds_token _ _ (with_status (with_cclosed x true) RDead) _ Hg) as Hu;
                   rewrite Hx in Hu; cbn in *; lia ].
  all: try solve [ pose proof (i_icnt _ _ I) as Hc; nrm;
                   pose proof (cnt_upd is_idle _ _ (with_status (with_cclosed x true) RDead) _ Hg) as Hu;
                   rewrite Hx in Hu; cbn in *; lia ].
  all: try solve [ intros r' x'; rewrite (nth_error_upd _ _ _ _ _ r' Hg); eqd r r';
                   [ intros Hq; inversion Hq; subst; cbn; (discriminate || auto) | (apply (i_open _ _ I) || apply (i_dead _ _ I)) ] ].
  all: intros r' x' Hin; rewrite (nth_error_upd _ _ _ _ _ r' Hg); eqd r r';
       [ destruct (i_hc_acq _ _ I _ Hin) as (Hs & _); nrm; rewrite Hg in Hs; cbn in Hs; congruence
       | apply (i_hc_open _ _ I); auto ].
Qed.

(* ---- the operations ------------------------------------------------------------------------- *)
Definition cinv (p : pool) : Prop := pclosed p = true -> idle p = [] /\ hc p = None.
Definition pgood (p : pool) : Prop := pinv p /\ cinv p.

Lemma L_now : forall t p x, pinv_t t p -> pinv_t t (set_now p x).
Proof. intros t p x I. destruct I. constructor; auto. Qed.
Lemma L_closed : forall t p, pinv_t t p -> pinv_t t (set_pclosed p true).
Proof. intros t p I. destruct I. constructor; auto. discriminate. Qed.
Lemma L_spawned : forall t p x, pinv_t t p -> pinv_t t (set_spawned p x).
Proof. intros t p x I. destruct I. constructor; auto. Qed.

Lemma L_hc_same : forall t p h, pinv_t t p -> hc_pending (set_hc p h) = hc_pending p -> pinv_t t (set_hc p h).
Proof.
  intros t p h I E. destruct I. constructor; unfold owned in *; try rewrite E; auto.
Qed.
Lemma L_constr : forall t p l, pinv_t t p ->
  length (idle p) + (cnt holds_token (ress p) + length l) + ghosts p <= c_max (p_cfg p) ->
  pinv_t t (set_constructing p l).
Proof. intros t p l I H. destruct I. constructor; auto. Qed.

Lemma idle_get : forall t p r, pinv_t t p -> In r (idle p) -> exists x, get_res p r = Some x /\ r_status x = RIdle.
Proof. intros t p r I Hin. apply (i_idle _ _ I) in Hin. apply status_get; auto. Qed.

Lemma total_eq : forall t p, pinv_t t p -> total p = length (idle p) + held p + ghosts p.
Proof. intros t p I. unfold total, held. rewrite total_split. pose proof (i_icnt _ _ I) as H. lia. Qed.

Lemma pd_acquire_ok : forall p d, pinv p ->
  match pd_acquire p d with
  | AGot p' r => pinv_t (Some r) p' /\ pclosed p = false /\ pclosed p' = false
  | AFail p' => p' = p
  | ACrash => False
  end.
Proof.
  intros p d I. unfold pd_acquire.
  destruct (c_max (p_cfg p) <=? held p) eqn:Hm; auto.
  destruct (pclosed p) eqn:Hc; auto.
  apply Nat.leb_gt in Hm.
  destruct (idle p) as [|r rest] eqn:Hi.
  - pose proof (total_eq _ _ I) as Ht. rewrite Hi in Ht. cbn in Ht. pose proof (i_ghost _ _ I Hc) as Hgh.
    destruct (c_max (p_cfg p) <=? total p) eqn:Hm2; [apply Nat.leb_le in Hm2; lia|].
    destruct d; auto. split; [|auto]. apply L_create; auto.
  - destruct (idle_get _ p r I) as (x & Hg & Hx); [rewrite Hi; left; auto|].
    rewrite Hg. split; [|auto]. apply L_pop; auto.
Qed.

Lemma ch_acquire_ok : forall p d, pgood p -> exists p' o, ch_acquire p d = POk p' o /\ pgood p'.
Proof.
  intros p d [I C]. unfold ch_acquire. pose proof (pd_acquire_ok p d I) as H.
  destruct (pd_acquire p d) as [p' r | p' | ].
  - destruct H as (I' & Hc & Hc'). eexists _, _. split; [reflexivity|]. split.
    + apply L_give_handle; auto.
    + intros Hq. cbn in Hq. congruence.
  - subst. eexists _, _. split; [reflexivity|]. split.
    + apply L_none_handle; auto.
    + exact C.
  - contradiction.
Qed.

Lemma ch_release_ok : forall p h, pgood p -> exists p' o, ch_release p h = POk p' o /\ pgood p'.
Proof.
  intros p h [I C]. unfold ch_release.
  destruct (nth_error (handles p) h) as [[r|]|] eqn:Hh; try (eexists _, _; split; [reflexivity | split; auto]).
  pose proof (L_take_handle _ _ _ I Hh) as I1.
  set (p1 := set_handles p (upd (handles p) h None)) in *.
  destruct (status_get p1 r RAcquired (i_t _ _ I1 r eq_refl)) as (x & Hg & Hx).
  rewrite Hg, Hx. cbn [is_acq negb].
  destruct (r_cclosed x || expired_life (p_cfg p) (now p) (r_created x)) eqn:Hd.
  - eexists _, _. split; [reflexivity|]. split.
    + apply L_settle_off; auto.
    + intros Hq. apply C in Hq. exact Hq.
  - apply orb_false_iff in Hd. destruct Hd as [Hcc _].
    eexists _, _. split; [reflexivity|]. unfold pd_release. cbn [pclosed p1 set_handles].
    destruct (pclosed p) eqn:Hc.
    + split; [apply L_settle_off; auto|]. intros _. apply C in Hc. exact Hc.
    + split; [apply L_settle_idle; auto|]. intros Hq. cbn in Hq. congruence.
Qed.

Lemma ch_do_ok : forall p h k c, pgood p -> exists p' o, ch_do p h k c = POk p' o /\ pgood p'.
Proof.
  intros p h k c [I C]. unfold ch_do.
  destruct (nth_error (handles p) h) as [[r|]|] eqn:Hh; try (eexists _, _; split; [reflexivity | split; auto]).
  destruct (i_h_acq _ _ I _ _ Hh) as [Hs _].
  destruct (status_get p r RAcquired Hs) as (x & Hg & Hx).
  rewrite Hg, Hx. cbn [is_acq negb].
  destruct (r_cclosed x); eexists _, _; (split; [reflexivity|]); split; auto.
  apply L_setcc; auto.
  intros Hin. destruct (i_hc_acq _ _ I _ Hin) as (_ & _ & Hn). eapply Hn; eauto.
Qed.

Lemma pool_do_ok : forall p d k c, pgood p -> exists p' o, pool_do p d k c = POk p' o /\ pgood p'.
Proof.
  intros p d k c G. unfold pool_do.
  destruct (ch_acquire_ok p d G) as (p1 & o1 & E1 & G1). rewrite E1.
  destruct o1; try (eexists _, _; split; [reflexivity | auto]).
  destruct (ch_do_ok p1 (length (handles p)) k c G1) as (p2 & o2 & E2 & G2). rewrite E2.
  destruct (ch_release_ok p2 (length (handles p)) G2) as (p3 & o3 & E3 & G3). rewrite E3.
  eexists _, _; split; [reflexivity | auto].
Qed.

Lemma hc_push_fields : forall p r, pclosed (hc_push p r) = pclosed p /\ idle (hc_push p r) = idle p /\
  ress (hc_push p r) = ress p /\ handles (hc_push p r) = handles p /\ p_cfg (hc_push p r) = p_cfg p /\ now (hc_push p r) = now p.
Proof. intros. unfold hc_push. destruct (hc p) as [[? ?]|]; cbn; auto 10. Qed.

Lemma hc_take_ok : forall k p, pinv p -> pinv (hc_take k p) /\ pclosed (hc_take k p) = pclosed p.
Proof.
  induction k; intros p I; cbn; auto.
  destruct (idle p) as [|r rest] eqn:Hi; auto.
  destruct (idle_get _ p r I) as (x & Hg & Hx); [rewrite Hi; left; auto|]. rewrite Hg.
  pose proof (L_pop _ _ _ _ I Hi Hg) as I1.
  assert (I2 : pinv (hc_push (set_idle (set_res p r (with_status x RAcquired)) rest) r)).
  { apply L_give_hc; auto. intros x'. unfold get_res, set_res. cbn.
    rewrite (nth_error_upd _ _ _ _ _ r Hg), Nat.eqb_refl. intros E; inversion E; subst. cbn.
    apply (i_open _ _ I _ _ Hg Hx). }
  destruct (IHk _ I2) as [I3 Hc]. split; auto. rewrite Hc.
  destruct (hc_push_fields (set_idle (set_res p r (with_status x RAcquired)) rest) r) as (E & _). rewrite E. reflexivity.
Qed.

Lemma tick_begin_ok : forall p, pgood p -> pgood (tick_begin p).
Proof.
  intros p [I C]. unfold tick_begin. destruct (hc p) eqn:Hh; [split; auto|].
  destruct (pclosed p) eqn:Hc; [split; auto|].
  assert (I0 : pinv (set_hc p (Some (now p, [])))).
  { apply L_hc_same; auto. unfold hc_pending. cbn. rewrite Hh. reflexivity. }
  destruct (hc_take_ok (sem_all (c_max (p_cfg p) - held p) (length (idle p))) _ I0) as [I' Hc'].
  split; auto. intros Hq. cbn in Hc'. congruence.
Qed.

Lemma tick_step_ok : forall p, pgood p -> exists p' o, tick_step p = POk p' o /\ pgood p'.
Proof.
  intros p [I C]. unfold tick_step.
  destruct (hc p) as [[t0 [|r rest]]|] eqn:Hh; try (eexists _, _; split; [reflexivity | split; auto]).
  assert (Hnc : pclosed p = false).
  { destruct (pclosed p) eqn:Hc; auto. apply C in Hc. destruct Hc; congruence. }
  pose proof (L_take_hc _ _ _ _ I Hh) as I1.
  set (p1 := set_hc p (hc_rest t0 rest)) in *.
  destruct (status_get p1 r RAcquired (i_t _ _ I1 r eq_refl)) as (x & Hg & Hx).
  rewrite Hg, Hx. cbn [is_acq negb].
  assert (Hcc : r_cclosed x = false).
  { apply (i_hc_open _ _ I r); [unfold hc_pending; rewrite Hh; left; auto | exact Hg]. }
  assert (Cd : cinv (pd_destroy p1 r x)) by (intros Hq; cbn in Hq; congruence).
  destruct (expired_life (p_cfg p) t0 (r_created x)).
  { eexists _, _. split; [reflexivity|]. split; auto. apply L_settle_off; auto. }
  destruct (expired_idle (p_cfg p) (now p) (r_lastused x)).
  { eexists _, _. split; [reflexivity|]. split; auto. apply L_settle_off; auto. }
  eexists _, _. split; [reflexivity|]. unfold pd_release. cbn [pclosed p1 set_hc]. rewrite Hnc.
  split; [apply L_settle_idle; auto|]. intros Hq. cbn in Hq. congruence.
Qed.

Lemma close_idle_ok : forall k p, pinv p -> k = length (idle p) ->
  pinv (close_idle k p) /\ idle (close_idle k p) = [] /\ hc (close_idle k p) = hc p /\ pclosed (close_idle k p) = pclosed p.
Proof.
  induction k; intros p I Hk; cbn.
  - destruct (idle p); [auto | discriminate].
  - destruct (idle p) as [|r rest] eqn:Hi; [discriminate|].
    destruct (idle_get _ p r I) as (x & Hg & Hx); [rewrite Hi; left; auto|]. rewrite Hg.
    pose proof (L_pop _ _ _ _ I Hi Hg) as I1.
    set (p1 := set_idle (set_res p r (with_status x RAcquired)) rest) in *.
    assert (Hg1 : get_res p1 r = Some (with_status x RAcquired)).
    { unfold p1, get_res, set_res. cbn. rewrite (nth_error_upd _ _ _ _ _ r Hg), Nat.eqb_refl. reflexivity. }
    pose proof (L_settle_off _ _ _ RClosing I1 Hg1 (or_intror eq_refl)) as I2.
    assert (E : set_res p1 r (with_status (with_status x RAcquired) RClosing) =
                set_idle (set_res p r (with_status x RClosing)) rest).
    { unfold p1, set_res, set_idle, set_ress. cbn. rewrite upd_upd. reflexivity. }
    rewrite E in I2.
    destruct (IHk _ I2) as (I3 & Hi3 & Hh3 & Hc3); [cbn in *; congruence|].
    split; [exact I3 | split; [exact Hi3 | split; [exact Hh3 | exact Hc3]]].
Qed.

Lemma ch_close_ok : forall p, pgood p -> pgood (ch_close p).
Proof.
  intros p [I C]. unfold ch_close. destruct (pclosed p) eqn:Hc; [split; auto|].
  destruct (hc p) eqn:Hh; [split; auto; intros Hq; congruence|].
  destruct (close_idle_ok (length (idle p)) (set_pclosed p true)) as (I' & Hi & Hh' & Hc'); auto.
  { apply L_closed; auto. }
  split; auto. intros _. split; auto. rewrite Hh'. exact Hh.
Qed.


(* ---- checkMinConns and the creations it starts; createIdleResources ------------------------------- *)
Lemma check_min_ok : forall p, pgood p -> pgood (check_min p).
Proof.
  intros p [I C]. unfold check_min. destruct (hc p) as [[t0 [|r rest]]|] eqn:Hh; try (split; auto; fail).
  split.
  - apply L_spawned. apply L_hc_same; auto. unfold hc_pending. cbn. rewrite Hh. reflexivity.
  - intros Hq. cbn in Hq. apply C in Hq. destruct Hq; congruence.
Qed.

Lemma remove_nth_length : forall A (l : list A) i t, nth_error l i = Some t -> S (length (remove_nth i l)) = length l.
Proof.
  induction l; intros i t H; destruct i; cbn in *; try discriminate; auto. f_equal. eapply IHl; eauto.
Qed.

(* a resource constructed by CreateResource enters an open pool: idle, on top of the stack *)
Lemma L_add_idle : forall p t, pinv p -> length (idle p) + held p + ghosts p < c_max (p_cfg p) ->
  pinv (set_idle (set_ress p (ress p ++ [mkRes RIdle t t false])) (length (ress p) :: idle p)).
Proof.
  intros p t I Hroom.
  assert (Hni : ~ In (length (ress p)) (idle p)).
  { intros Hin. apply (i_idle _ _ I) in Hin. apply st_lt in Hin. lia. }
  constructor; nrm.
  - intros h r' Hq. destruct (i_h_acq _ _ I _ _ Hq) as [Hs _]. pose proof (st_lt _ _ _ Hs). nrm.
    rewrite nth_snoc. eqd r' (length (ress p)); [lia|]. split; [auto | discriminate].
  - apply (i_h_inj _ _ I).
  - intros r' Hin. destruct (i_hc_acq _ _ I _ Hin) as (Hs & _ & Hq). pose proof (st_lt _ _ _ Hs). nrm.
    rewrite nth_snoc. eqd r' (length (ress p)); [lia|]. repeat split; auto. discriminate.
  - apply (i_hc_nd _ _ I).
  - intros r'. rewrite nth_snoc. eqd r' (length (ress p)); [cbn; discriminate|].
    intros Hs. destruct (i_owner _ _ I _ Hs) as [Ho|]; [left; exact Ho | discriminate].
  - discriminate.
  - intros r'. rewrite nth_snoc. pose proof (i_idle _ _ I r') as Hii. nrm. eqd r' (length (ress p)).
    + cbn. split; auto.
    + cbn. rewrite <- Hii. split; [intros [|]; [congruence | auto] | auto].
  - constructor; auto. apply (i_idle_nd _ _ I).
  - rewrite cnt_app. cbn. lia.
  - rewrite cnt_app. cbn. pose proof (i_icnt _ _ I). lia.
  - intros r' x'. rewrite nth_snoc. eqd r' (length (ress p)).
    + intros Hq; inversion Hq; subst. cbn. auto.
    + apply (i_open _ _ I).
  - intros r' x'. rewrite nth_snoc. eqd r' (length (ress p)).
    + intros Hq; inversion Hq; subst. cbn. discriminate.
    + apply (i_dead _ _ I).
  - intros r' x' Hin. rewrite nth_snoc. eqd r' (length (ress p)).
    + destruct (i_hc_acq _ _ I _ Hin) as (Hs & _). apply st_lt in Hs. lia.
    + apply (i_hc_open _ _ I); auto.
  - apply (i_ghost _ _ I).
Qed.

(* ... enters a closed pool: its destructor is started; puddle keeps counting it *)
Lemma L_add_ghost : forall p t, pinv p -> pclosed p = true -> length (idle p) + held p + ghosts p < c_max (p_cfg p) ->
  pinv (set_ghosts (set_ress p (ress p ++ [mkRes RClosing t t false])) (S (ghosts p))).
Proof.
  intros p t I Hc Hroom.
  constructor; nrm.
  - intros h r' Hq. destruct (i_h_acq _ _ I _ _ Hq) as [Hs _]. pose proof (st_lt _ _ _ Hs). nrm.
    rewrite nth_snoc. eqd r' (length (ress p)); [lia|]. split; [auto | discriminate].
  - apply (i_h_inj _ _ I).
  - intros r' Hin. destruct (i_hc_acq _ _ I _ Hin) as (Hs & _ & Hq). pose proof (st_lt _ _ _ Hs). nrm.
    rewrite nth_snoc. eqd r' (length (ress p)); [lia|]. repeat split; auto. discriminate.
  - apply (i_hc_nd _ _ I).
  - intros r'. rewrite nth_snoc. eqd r' (length (ress p)); [cbn; discriminate|].
    intros Hs. destruct (i_owner _ _ I _ Hs) as [Ho|]; [left; exact Ho | discriminate].
  - discriminate.
  - intros r'. rewrite nth_snoc. pose proof (i_idle _ _ I r') as Hii. nrm. eqd r' (length (ress p)).
    + cbn. split; [|discriminate]. intros Hin. apply Hii in Hin.
      assert (Hlt : length (ress p) < length (ress p)); [|lia].
      apply nth_error_Some. destruct (nth_error (ress p) (length (ress p))); [discriminate | discriminate].
    + exact Hii.
  - apply (i_idle_nd _ _ I).
  - rewrite cnt_app. cbn. lia.
  - rewrite cnt_app. cbn. pose proof (i_icnt _ _ I). lia.
  - intros r' x'. rewrite nth_snoc. eqd r' (length (ress p)).
    + intros Hq; inversion Hq; subst. cbn. discriminate.
    + apply (i_open _ _ I).
  - intros r' x'. rewrite nth_snoc. eqd r' (length (ress p)).
    + intros Hq; inversion Hq; subst. cbn. discriminate.
    + apply (i_dead _ _ I).
  - intros r' x' Hin. rewrite nth_snoc. eqd r' (length (ress p)).
    + destruct (i_hc_acq _ _ I _ Hin) as (Hs & _). apply st_lt in Hs. lia.
    + apply (i_hc_open _ _ I); auto.
  - congruence.
Qed.

Lemma add_created_ok : forall p t, pgood p -> length (idle p) + held p + ghosts p < c_max (p_cfg p) ->
  pgood (add_created p t).
Proof.
  intros p t [I C] Hroom. unfold add_created. destruct (pclosed p) eqn:Hc.
  - split; [apply L_add_ghost; auto|]. intros _. apply C. exact Hc.
  - split; [apply L_add_idle; auto|]. intros Hq. cbn in Hq. congruence.
Qed.

Lemma spawn_begin_ok : forall p, pgood p -> pgood (spawn_begin p).
Proof.
  intros p [I C]. unfold spawn_begin. destruct (spawned p) as [|n] eqn:Hs; [split; auto|].
  destruct (create_refused p) eqn:Hr.
  - split; [apply L_spawned; auto | exact C].
  - unfold create_refused in Hr. apply orb_false_iff in Hr. destruct Hr as [Hr H3].
    apply orb_false_iff in Hr. destruct Hr as [H1 H2]. apply Nat.leb_gt in H1, H3.
    pose proof (total_eq _ _ I) as Ht. unfold held in *.
    split; [|exact C]. apply L_constr; [apply L_spawned; auto|]. rewrite app_length.
    cbn [length ress idle ghosts p_cfg constructing set_spawned]. lia.
Qed.

Lemma spawn_end_ok : forall p i d, pgood p -> pgood (spawn_end p i d).
Proof.
  intros p i d [I C]. unfold spawn_end. destruct (nth_error (constructing p) i) as [t|] eqn:Hn; [|split; auto].
  pose proof (remove_nth_length _ _ _ _ Hn) as Hl. pose proof (i_cnt _ _ I) as Hcnt. unfold held in Hcnt.
  assert (G1 : pgood (set_constructing p (remove_nth i (constructing p)))).
  { split; [|exact C]. apply L_constr; auto. lia. }
  destruct d; [|exact G1]. apply add_created_ok; auto. unfold held.
  cbn [ress idle ghosts p_cfg constructing set_constructing]. lia.
Qed.

Lemma create_resource_ok : forall p d, pgood p -> pgood (fst (create_resource p d)).
Proof.
  intros p d G. unfold create_resource. destruct (create_refused p) eqn:Hr; [exact G|].
  destruct d; [|exact G]. cbn [fst]. apply add_created_ok; auto.
  unfold create_refused in Hr. apply orb_false_iff in Hr. destruct Hr as [_ H3]. apply Nat.leb_gt in H3.
  rewrite (total_eq _ _ (proj1 G)) in H3. exact H3.
Qed.

Lemma create_idle_ok : forall k dials p, pgood p -> pgood (fst (create_idle k dials p)).
Proof.
  induction k; intros dials p G; cbn; auto.
  pose proof (create_resource_ok p (hd true dials) G) as G1.
  destruct (create_resource p (hd true dials)) as [p' [|]]; cbn [fst] in *; auto.
Qed.

Theorem pstep_good : forall p o, pgood p -> exists p' ob, pstep p o = POk p' ob /\ pgood p'.
Proof.
  intros p o G. destruct o; cbn [pstep].
  - apply ch_acquire_ok; auto.
  - apply ch_release_ok; auto.
  - apply ch_do_ok; auto.
  - apply ch_do_ok; auto.
  - apply pool_do_ok; auto.
  - apply pool_do_ok; auto.
  - eexists _, _; split; [reflexivity | apply tick_begin_ok; auto].
  - apply tick_step_ok; auto.
  - eexists _, _; split; [reflexivity|]. destruct G as [I C]. split; [apply L_now; auto | exact C].
  - eexists _, _; split; [reflexivity|]. destruct G as [I C]. split; [apply L_finish; auto|].
    intros Hq. unfold pd_finish in *. destruct (get_res p r) as [x|]; [|auto].
    destruct (r_status x); auto.
  - eexists _, _; split; [reflexivity | apply ch_close_ok; auto].
  - eexists _, _; split; [reflexivity | apply check_min_ok; auto].
  - eexists _, _; split; [reflexivity | apply spawn_begin_ok; auto].
  - eexists _, _; split; [reflexivity | apply spawn_end_ok; auto].
Qed.

Lemma pinit_good : forall c, pgood (pinit c).
Proof. intros c. split; [apply pinit_inv | intros H; discriminate]. Qed.

(* newPool *)
Lemma pnew_good : forall c dials, pgood (pnew c dials).
Proof.
  intros c dials. unfold pnew. pose proof (create_idle_ok (c_min c) dials (pinit c) (pinit_good c)) as G.
  destruct (create_idle (c_min c) dials (pinit c)) as [p [|]]; cbn [fst] in G; auto. apply ch_close_ok; auto.
Qed.

Theorem prun_good : forall ops p, pgood p -> exists p', prun p ops = Some p' /\ pgood p'.
Proof.
  induction ops; intros p G; cbn; eauto.
  destruct (pstep_good p a G) as (p' & ob & E & G'). rewrite E. auto.
Qed.

(* ---- reachable states ------------------------------------------------------------------------- *)
Definition reachable (c : cfg) (p : pool) : Prop := exists dials ops, prun (pnew c dials) ops = Some p.

Theorem reachable_good : forall c p, reachable c p -> pgood p.
Proof.
  intros c p (dials & ops & H). destruct (prun_good ops (pnew c dials) (pnew_good c dials)) as (p' & E & G). congruence.
Qed.

(* no operation history makes puddle panic *)
Theorem never_crashes : forall c dials ops, exists p, prun (pnew c dials) ops = Some p /\ pgood p.
Proof. intros. apply prun_good. apply pnew_good. Qed.

Lemma handle_of_spec : forall p h r, handle_of p h = Some r <-> nth_error (handles p) h = Some (Some r).
Proof.
  intros. unfold handle_of. destruct (nth_error (handles p) h) as [[r'|]|]; split; intros H; inversion H; auto.
Qed.

(* P1 *)
Theorem one_holder_good : forall p h1 h2 r, pgood p ->
  handle_of p h1 = Some r -> handle_of p h2 = Some r ->
  h1 = h2 /\ status_of p r = Some RAcquired /\ ~ In r (hc_pending p) /\ ~ In r (idle p).
Proof.
  intros p h1 h2 r [I C] H1 H2. apply handle_of_spec in H1. apply handle_of_spec in H2.
  destruct (i_h_acq _ _ I _ _ H1) as [Hs _]. repeat split; auto.
  - eapply (i_h_inj _ _ I); eauto.
  - intros Hin. destruct (i_hc_acq _ _ I _ Hin) as (_ & _ & Hn). eapply Hn; eauto.
  - intros Hin. apply (i_idle _ _ I) in Hin. congruence.
Qed.

(* P2 *)
Theorem total_le_max_good : forall p, pgood p ->
  total p <= c_max (p_cfg p) /\ total p = stat_idle p + stat_acquired p + stat_constructing p /\
  stat_idle p = length (idle p) + ghosts p /\ (pclosed p = false -> ghosts p = 0).
Proof.
  intros p [I C]. pose proof (total_eq _ _ I). pose proof (i_cnt _ _ I). pose proof (i_icnt _ _ I).
  unfold stat_acquired, stat_constructing, stat_idle, held in *. repeat split; try lia. apply (i_ghost _ _ I).
Qed.

(* what an Acquire hands out is a live connection: the client of the resource behind a fresh handle is open *)
Theorem acquire_gives_open : forall p d p', pgood p -> pstep p (PAcquire d) = POk p' OOk ->
  exists r x, handle_of p' (length (handles p)) = Some r /\ get_res p' r = Some x /\
              r_status x = RAcquired /\ r_cclosed x = false /\
              (forall h, handle_of p h <> Some r).
Proof.
  intros p d p' [I C] H. cbn in H. unfold ch_acquire, pd_acquire in H.
  destruct (c_max (p_cfg p) <=? held p); [inversion H|].
  destruct (pclosed p); [inversion H|].
  destruct (idle p) as [|r rest] eqn:Hi.
  - destruct (c_max (p_cfg p) <=? total p); [discriminate|]. destruct d; [|inversion H].
    inversion H; subst; clear H. exists (length (ress p)), (mkRes RAcquired (now p) (now p) false).
    unfold handle_of, get_res. cbn. rewrite !nth_snoc, !Nat.eqb_refl. repeat split; auto.
    intros h Hh. apply handle_of_spec in Hh. destruct (i_h_acq _ _ I _ _ Hh) as [Hs _]. apply st_lt in Hs. lia.
  - destruct (idle_get _ p r I) as (x & Hg & Hx); [rewrite Hi; left; auto|]. rewrite Hg in H.
    inversion H; subst; clear H. exists r, (with_status x RAcquired).
    unfold handle_of, get_res. cbn. rewrite nth_snoc, Nat.eqb_refl.
    rewrite (nth_error_upd _ _ _ _ _ r Hg), Nat.eqb_refl. repeat split; auto.
    + cbn. apply (i_open _ _ I _ _ Hg Hx).
    + intros h Hh. apply handle_of_spec in Hh. destruct (i_h_acq _ _ I _ _ Hh) as [Hs _].
      unfold status_of in Hs. rewrite Hg in Hs. cbn in Hs. congruence.
Qed.

(* P4: Release *)
Theorem release_clears : forall p h p' o, pstep p (PRelease h) = POk p' o -> handle_of p' h = None.
Proof.
  intros p h p' o H. cbn in H. unfold ch_release in H. unfold handle_of.
  destruct (nth_error (handles p) h) as [[r|]|] eqn:Hh.
  - assert (E : handles p' = upd (handles p) h None).
    { unfold get_res in H. cbn in H. destruct (nth_error (ress p) r) as [x|]; [|discriminate].
      destruct (negb (is_acq (r_status x))); [discriminate|].
      destruct (r_cclosed x || expired_life (p_cfg p) (now p) (r_created x)).
      - inversion H; subst. reflexivity.
      - inversion H; subst. unfold pd_release. cbn. destruct (pclosed p); reflexivity. }
    rewrite E, (nth_error_upd _ _ _ _ _ h Hh), Nat.eqb_refl. reflexivity.
  - inversion H; subst. rewrite Hh. reflexivity.
  - inversion H; subst. rewrite Hh. reflexivity.
Qed.

Theorem release_again_noop : forall p h, handle_of p h = None -> pstep p (PRelease h) = POk p OOk.
Proof.
  intros p h H. cbn. unfold ch_release. unfold handle_of in H.
  destruct (nth_error (handles p) h) as [[r|]|]; auto. discriminate.
Qed.

Theorem release_others_untouched : forall p h p' o, pgood p -> pstep p (PRelease h) = POk p' o ->
  forall h', h' <> h -> handle_of p' h' = handle_of p h' /\
    forall r', handle_of p h' = Some r' -> get_res p' r' = get_res p r'.
Proof.
  intros p h p' o [I C] H h' Hne. cbn in H. unfold ch_release in H.
  destruct (nth_error (handles p) h) as [[r|]|] eqn:Hh.
  2: { inversion H; subst; split; auto. }
  2: { inversion H; subst; split; auto. }
  unfold get_res in H. cbn in H. destruct (nth_error (ress p) r) as [x|] eqn:Hg; [|discriminate].
  destruct (negb (is_acq (r_status x))); [discriminate|].
  assert (E : handles p' = upd (handles p) h None /\ exists x', ress p' = upd (ress p) r x').
  { destruct (r_cclosed x || expired_life (p_cfg p) (now p) (r_created x)).
    - inversion H; subst. split; [reflexivity | eexists; reflexivity].
    - inversion H; subst. unfold pd_release. cbn. destruct (pclosed p); (split; [reflexivity | eexists; reflexivity]). }
  destruct E as [Eh [x' Er]]. split.
  - unfold handle_of. rewrite Eh, (nth_error_upd _ _ _ _ _ h' Hh).
    destruct (Nat.eqb_spec h h'); [congruence | reflexivity].
  - intros r' Hr'. apply handle_of_spec in Hr'. unfold get_res. rewrite Er, (nth_error_upd _ _ _ _ _ r' Hg).
    eqd r r'; auto. exfalso. apply Hne. eapply (i_h_inj _ _ I); eauto.
Qed.

(* after Close, with every handle released and every goroutine finished, every connection is closed *)
Theorem closed_released_all_closed : forall p, pgood p -> pclosed p = true ->
  (forall h, handle_of p h = None) ->
  (forall r, status_of p r <> Some RDestroying /\ status_of p r <> Some RClosing) ->
  forall r x, get_res p r = Some x -> r_status x = RDead /\ r_cclosed x = true.
Proof.
  intros p [I C] Hc Hh Hf r x Hg. destruct (C Hc) as [Hi Hhc].
  assert (Hs : status_of p r = Some (r_status x)) by (unfold status_of; rewrite Hg; reflexivity).
  destruct (r_status x) eqn:Hx.
  - apply (i_idle _ _ I) in Hs. rewrite Hi in Hs. destruct Hs.
  - destruct (i_owner _ _ I _ Hs) as [[[h Hq] | Hin] | Ht]; try discriminate.
    + apply handle_of_spec in Hq. rewrite Hh in Hq. discriminate.
    + unfold hc_pending in Hin. rewrite Hhc in Hin. destruct Hin.
  - destruct (Hf r). contradiction.
  - destruct (Hf r). contradiction.
  - split; auto. apply (i_dead _ _ I _ _ Hg Hx).
Qed.

(* ---- P3: destroyed is absorbing; a closed client stays closed ---------------------------------- *)
Definition gone (s : rstatus) : bool := match s with RDestroying | RClosing | RDead => true | _ => false end.
Definition res_ok (x x' : resrc) : Prop :=
  (gone (r_status x) = true -> gone (r_status x') = true) /\
  (r_cclosed x = true -> r_cclosed x' = true) /\ r_created x' = r_created x.
Definition evolves (l l' : list resrc) : Prop :=
  forall r x, nth_error l r = Some x -> exists x', nth_error l' r = Some x' /\ res_ok x x'.

Lemma res_ok_refl : forall x, res_ok x x.
Proof. intros; repeat split; auto. Qed.
Lemma ev_refl : forall l, evolves l l.
Proof. intros l r x H. exists x. split; auto. apply res_ok_refl. Qed.
Lemma ev_trans : forall a b c, evolves a b -> evolves b c -> evolves a c.
Proof.
  intros a b c H1 H2 r x Hx. destruct (H1 _ _ Hx) as (y & Hy & (A1 & A2 & A3)).
  destruct (H2 _ _ Hy) as (z & Hz & (B1 & B2 & B3)). exists z. split; auto. repeat split; auto. congruence.
Qed.
Lemma ev_upd : forall l r0 x0 x', nth_error l r0 = Some x0 -> res_ok x0 x' -> evolves l (upd l r0 x').
Proof.
  intros l r0 x0 x' H0 Hok r x Hx. rewrite (nth_error_upd _ _ _ _ _ r H0). eqd r0 r.
  - exists x'. split; auto. congruence.
  - exists x. split; auto. apply res_ok_refl.
Qed.
Lemma ev_app : forall l x, evolves l (l ++ [x]).
Proof. intros l x r y H. exists y. split; [apply nth_error_snoc_l; auto | apply res_ok_refl]. Qed.

Lemma ok_live : forall x x', gone (r_status x) = false -> r_cclosed x' = r_cclosed x -> r_created x' = r_created x -> res_ok x x'.
Proof. intros x x' H1 H2 H3. repeat split; auto; congruence. Qed.

Lemma ev_pd_acquire : forall p d p' r, pinv p -> pd_acquire p d = AGot p' r -> evolves (ress p) (ress p').
Proof.
  intros p d p' r I H. unfold pd_acquire in H.
  destruct (c_max (p_cfg p) <=? held p); [discriminate|]. destruct (pclosed p); [discriminate|].
  destruct (idle p) as [|r0 rest] eqn:Hi.
  - destruct (c_max (p_cfg p) <=? total p); [discriminate|]. destruct d; [|discriminate].
    inversion H; subst. cbn. apply ev_app.
  - destruct (idle_get _ p r0 I) as (x & Hg & Hx); [rewrite Hi; left; auto|]. rewrite Hg in H.
    inversion H; subst. cbn. eapply ev_upd; eauto. apply ok_live; auto. rewrite Hx; auto.
Qed.

Lemma ev_ch_acquire : forall p d p' o, pinv p -> ch_acquire p d = POk p' o -> evolves (ress p) (ress p').
Proof.
  intros p d p' o I H. unfold ch_acquire in H. destruct (pd_acquire p d) as [p1 r| p1 |] eqn:E; [| |discriminate].
  - inversion H; subst. cbn. eapply ev_pd_acquire; eauto.
  - inversion H; subst. cbn. pose proof (pd_acquire_ok p d I) as Hk. rewrite E in Hk. subst. apply ev_refl.
Qed.

Lemma ev_ch_release : forall p h p' o, ch_release p h = POk p' o -> evolves (ress p) (ress p').
Proof.
  intros p h p' o H. unfold ch_release in H.
  destruct (nth_error (handles p) h) as [[r|]|]; try (inversion H; subst; apply ev_refl).
  unfold get_res in H. cbn in H. destruct (nth_error (ress p) r) as [x|] eqn:Hg; [|discriminate].
  destruct (r_status x) eqn:Hx; cbn in H; try discriminate.
  destruct (r_cclosed x || expired_life (p_cfg p) (now p) (r_created x)).
  - inversion H; subst. cbn. eapply ev_upd; eauto. apply ok_live; auto. rewrite Hx; auto.
  - inversion H; subst. unfold pd_release. cbn. destruct (pclosed p); cbn; (eapply ev_upd; eauto; apply ok_live; auto; rewrite Hx; auto).
Qed.

Lemma ev_ch_do : forall p h k c p' o, ch_do p h k c = POk p' o -> evolves (ress p) (ress p').
Proof.
  intros p h k c p' o H. unfold ch_do in H.
  destruct (nth_error (handles p) h) as [[r|]|]; try (inversion H; subst; apply ev_refl).
  unfold get_res in H. destruct (nth_error (ress p) r) as [x|] eqn:Hg; [|discriminate].
  destruct (r_status x) eqn:Hx; cbn in H; try discriminate.
  destruct (r_cclosed x) eqn:Hc; inversion H; subst; [apply ev_refl|].
  cbn. eapply ev_upd; eauto. repeat split; cbn; auto; try congruence; try (rewrite Hx; discriminate).
Qed.

Lemma ev_pool_do : forall p d k c p' o, pgood p -> pool_do p d k c = POk p' o -> evolves (ress p) (ress p').
Proof.
  intros p d k c p' o G H. unfold pool_do in H.
  destruct (ch_acquire_ok p d G) as (p1 & o1 & E1 & G1). rewrite E1 in H.
  pose proof (ev_ch_acquire _ _ _ _ (proj1 G) E1) as V1.
  destruct o1; try (inversion H; subst; exact V1).
  destruct (ch_do p1 (length (handles p)) k c) as [p2 o2|] eqn:E2; [|discriminate].
  destruct (ch_release p2 (length (handles p))) as [p3 o3|] eqn:E3; [|discriminate].
  inversion H; subst. eapply ev_trans; [exact V1|]. eapply ev_trans; [eapply ev_ch_do; eauto | eapply ev_ch_release; eauto].
Qed.

Lemma ev_hc_take : forall k p, pinv p -> evolves (ress p) (ress (hc_take k p)).
Proof.
  induction k; intros p I; cbn; [apply ev_refl|].
  destruct (idle p) as [|r rest] eqn:Hi; [apply ev_refl|].
  destruct (idle_get _ p r I) as (x & Hg & Hx); [rewrite Hi; left; auto|]. rewrite Hg.
  pose proof (L_pop _ _ _ _ I Hi Hg) as I1.
  assert (I2 : pinv (hc_push (set_idle (set_res p r (with_status x RAcquired)) rest) r)).
  { apply L_give_hc; auto. intros x'. unfold get_res, set_res. cbn.
    rewrite (nth_error_upd _ _ _ _ _ r Hg), Nat.eqb_refl. intros E; inversion E; subst. cbn.
    apply (i_open _ _ I _ _ Hg Hx). }
  eapply ev_trans; [|apply IHk; exact I2].
  destruct (hc_push_fields (set_idle (set_res p r (with_status x RAcquired)) rest) r) as (_ & _ & E & _). rewrite E.
  cbn. eapply ev_upd; eauto. apply ok_live; auto. rewrite Hx; auto.
Qed.

Lemma ev_tick_step : forall p p' o, tick_step p = POk p' o -> evolves (ress p) (ress p').
Proof.
  intros p p' o H. unfold tick_step in H.
  destruct (hc p) as [[t0 [|r rest]]|]; try (inversion H; subst; apply ev_refl).
  unfold get_res in H. cbn in H. destruct (nth_error (ress p) r) as [x|] eqn:Hg; [|discriminate].
  destruct (r_status x) eqn:Hx; cbn in H; try discriminate.
  destruct (expired_life (p_cfg p) t0 (r_created x)).
  { inversion H; subst. cbn. eapply ev_upd; eauto. apply ok_live; auto. rewrite Hx; auto. }
  destruct (expired_idle (p_cfg p) (now p) (r_lastused x)).
  { inversion H; subst. cbn. eapply ev_upd; eauto. apply ok_live; auto. rewrite Hx; auto. }
  inversion H; subst. unfold pd_release. cbn. destruct (pclosed p); cbn; (eapply ev_upd; eauto; apply ok_live; auto; rewrite Hx; auto).
Qed.

Lemma ev_close_idle : forall k p, pinv p -> k = length (idle p) -> evolves (ress p) (ress (close_idle k p)).
Proof.
  induction k; intros p I Hk; cbn; [apply ev_refl|].
  destruct (idle p) as [|r rest] eqn:Hi; [apply ev_refl|].
  destruct (idle_get _ p r I) as (x & Hg & Hx); [rewrite Hi; left; auto|]. rewrite Hg.
  assert (I2 : pinv (set_idle (set_res p r (with_status x RClosing)) rest)).
  { pose proof (L_pop _ _ _ _ I Hi Hg) as I1.
    set (p1 := set_idle (set_res p r (with_status x RAcquired)) rest) in *.
    assert (Hg1 : get_res p1 r = Some (with_status x RAcquired)).
    { unfold p1, get_res, set_res. cbn. rewrite (nth_error_upd _ _ _ _ _ r Hg), Nat.eqb_refl. reflexivity. }
    pose proof (L_settle_off _ _ _ RClosing I1 Hg1 (or_intror eq_refl)) as I2.
    assert (E : set_res p1 r (with_status (with_status x RAcquired) RClosing) =
                set_idle (set_res p r (with_status x RClosing)) rest).
    { unfold p1, set_res, set_idle, set_ress. cbn. rewrite upd_upd. reflexivity. }
    rewrite E in I2. exact I2. }
  eapply ev_trans; [|apply IHk; [exact I2 | cbn in *; congruence]].
  cbn. eapply ev_upd; eauto. apply ok_live; auto. rewrite Hx; auto.
Qed.

Lemma ev_finish : forall p r, evolves (ress p) (ress (pd_finish p r)).
Proof.
  intros p r. unfold pd_finish. destruct (get_res p r) as [x|] eqn:Hg; [|apply ev_refl].
  destruct (r_status x) eqn:Hx; try apply ev_refl; cbn; (eapply ev_upd; eauto; repeat split; auto).
Qed.

Lemma ev_add_created : forall p t, evolves (ress p) (ress (add_created p t)).
Proof. intros p t. unfold add_created. destruct (pclosed p); cbn; apply ev_app. Qed.
Lemma ev_spawn_end : forall p i d, evolves (ress p) (ress (spawn_end p i d)).
Proof.
  intros p i d. unfold spawn_end. destruct (nth_error (constructing p) i); [|apply ev_refl].
  destruct d; [|apply ev_refl]. apply (ev_add_created (set_constructing p (remove_nth i (constructing p)))).
Qed.

Theorem pstep_evolves : forall p o p' ob, pgood p -> pstep p o = POk p' ob -> evolves (ress p) (ress p').
Proof.
  intros p o p' ob G H. destruct o; cbn [pstep] in H.
  - eapply ev_ch_acquire; eauto. apply G.
  - eapply ev_ch_release; eauto.
  - eapply ev_ch_do; eauto.
  - eapply ev_ch_do; eauto.
  - eapply ev_pool_do; eauto.
  - eapply ev_pool_do; eauto.
  - inversion H; subst. unfold tick_begin. destruct (hc p) eqn:Hh; [apply ev_refl|]. destruct (pclosed p); [apply ev_refl|].
    apply (ev_hc_take _ (set_hc p (Some (now p, [])))).
    apply L_hc_same; [apply G|]. unfold hc_pending. cbn. rewrite Hh. reflexivity.
  - eapply ev_tick_step; eauto.
  - inversion H; subst. apply ev_refl.
  - inversion H; subst. apply ev_finish.
  - inversion H; subst. unfold ch_close. destruct (pclosed p); [apply ev_refl|]. destruct (hc p); [apply ev_refl|].
    apply (ev_close_idle (length (idle p)) (set_pclosed p true)); auto. apply L_closed. apply G.
  - inversion H; subst. unfold check_min. destruct (hc p) as [[? [|? ?]]|]; apply ev_refl.
  - inversion H; subst. unfold spawn_begin. destruct (spawned p); [apply ev_refl|].
    destruct (create_refused p); apply ev_refl.
  - inversion H; subst. apply ev_spawn_end.
Qed.

Theorem prun_evolves : forall ops p p', pgood p -> prun p ops = Some p' -> evolves (ress p) (ress p') /\ pgood p'.
Proof.
  induction ops; intros p p' G H; cbn in H.
  - inversion H; subst. split; [apply ev_refl | auto].
  - destruct (pstep_good p a G) as (p1 & ob & E & G1). rewrite E in H.
    destruct (IHops _ _ G1 H) as [V G']. split; auto. eapply ev_trans; [eapply pstep_evolves; eauto | exact V].
Qed.

(* a resource that is being destroyed / has been removed never comes back: no handle, not idle, not with
   the health check, in any later state *)
Theorem gone_forever : forall p r x ops p', pgood p -> get_res p r = Some x -> gone (r_status x) = true ->
  prun p ops = Some p' ->
  exists x', get_res p' r = Some x' /\ gone (r_status x') = true /\
             (r_cclosed x = true -> r_cclosed x' = true) /\
             (forall h, handle_of p' h <> Some r) /\ ~ In r (idle p') /\ ~ In r (hc_pending p').
Proof.
  intros p r x ops p' G Hg Hx H. destruct (prun_evolves _ _ _ G H) as [V [I' C']].
  destruct (V _ _ Hg) as (x' & Hg' & (A1 & A2 & A3)). exists x'. specialize (A1 Hx).
  assert (Hs : status_of p' r = Some (r_status x')) by (unfold status_of, get_res in *; rewrite Hg'; reflexivity).
  repeat split; auto.
  - intros h Hh. apply handle_of_spec in Hh. destruct (i_h_acq _ _ I' _ _ Hh) as [Hq _].
    rewrite Hs in Hq. inversion Hq as [E]. rewrite E in A1. discriminate.
  - intros Hin. apply (i_idle _ _ I') in Hin. rewrite Hs in Hin. inversion Hin as [E]. rewrite E in A1. discriminate.
  - intros Hin. destruct (i_hc_acq _ _ I' _ Hin) as (Hq & _). rewrite Hs in Hq. inversion Hq as [E]. rewrite E in A1. discriminate.
Qed.

(* Release of a handle whose client is closed or whose connection is past its lifetime destroys the
   resource; it is never handed out again *)
Theorem release_dead_destroys : forall p h r x, pgood p -> handle_of p h = Some r -> get_res p r = Some x ->
  r_cclosed x = true \/ expired_life (p_cfg p) (now p) (r_created x) = true ->
  exists p', pstep p (PRelease h) = POk p' OOk /\ status_of p' r = Some RDestroying /\
    forall ops p'', prun p' ops = Some p'' ->
      (exists x'', get_res p'' r = Some x'' /\ gone (r_status x'') = true) /\
      (forall h', handle_of p'' h' <> Some r) /\ ~ In r (idle p'') /\ ~ In r (hc_pending p'').
Proof.
  intros p h r x G Hh Hg Hd.
  destruct (pstep_good p (PRelease h) G) as (p' & ob & E & G').
  assert (E' := E). cbn in E. unfold ch_release in E. apply handle_of_spec in Hh. rewrite Hh in E.
  unfold get_res in E, Hg. cbn in E. rewrite Hg in E.
  destruct (negb (is_acq (r_status x))); [discriminate|].
  assert (Hdd : r_cclosed x || expired_life (p_cfg p) (now p) (r_created x) = true)
    by (destruct Hd as [Hd|Hd]; rewrite Hd; auto using orb_true_r).
  rewrite Hdd in E. inversion E; subst p' ob. clear E.
  eexists. split; [exact E'|]. split.
  - unfold status_of, get_res. cbn. rewrite (nth_error_upd _ _ _ _ _ r Hg), Nat.eqb_refl. reflexivity.
  - intros ops p'' Hr.
    edestruct (gone_forever _ r (with_status x RDestroying) ops p'' G') as (x'' & Hg'' & Hx'' & _ & R1 & R2 & R3); eauto.
    + unfold get_res. cbn. rewrite (nth_error_upd _ _ _ _ _ r Hg), Nat.eqb_refl. reflexivity.
    + repeat split; eauto.
Qed.

(* ---- the health check ------------------------------------------------------------------------- *)
Definition tick_verdict (c : cfg) (t0 tnow : N) (x : resrc) : bool :=
  expired_life c t0 (r_created x) || expired_idle c tnow (r_lastused x).

(* one iteration of the loop: what happens to the resource it visits, and that nothing else is touched *)
Lemma tick_step_spec : forall p t0 r rest x, pgood p -> hc p = Some (t0, r :: rest) -> get_res p r = Some x ->
  exists p', tick_step p = POk p' ONone /\ hc p' = hc_rest t0 rest /\ now p' = now p /\ p_cfg p' = p_cfg p /\
    pclosed p' = pclosed p /\ handles p' = handles p /\
    (forall r', r' <> r -> get_res p' r' = get_res p r') /\
    (forall r', In r' (idle p) -> In r' (idle p')) /\
    (if tick_verdict (p_cfg p) t0 (now p) x then status_of p' r = Some RDestroying
     else status_of p' r = Some RIdle /\ In r (idle p')).
Proof.
  intros p t0 r rest x [I C] Hh Hg.
  assert (Hnc : pclosed p = false).
  { destruct (pclosed p) eqn:Hc; auto. apply C in Hc. destruct Hc; congruence. }
  assert (Hx : r_status x = RAcquired).
  { destruct (i_hc_acq _ _ I r) as (Hs & _); [unfold hc_pending; rewrite Hh; left; auto|].
    unfold status_of in Hs. rewrite Hg in Hs. cbn in Hs. congruence. }
  unfold tick_step, tick_verdict. rewrite Hh. unfold get_res in *. cbn. rewrite Hg, Hx. cbn [is_acq negb].
  assert (Hu : forall x' r', r' <> r -> nth_error (upd (ress p) r x') r' = nth_error (ress p) r').
  { intros x' r' Hne. rewrite (nth_error_upd _ _ _ _ _ r' Hg). destruct (Nat.eqb_spec r r'); congruence. }
  assert (Hs : forall x', option_map r_status (nth_error (upd (ress p) r x') r) = Some (r_status x')).
  { intros x'. rewrite (nth_error_upd _ _ _ _ _ r Hg), Nat.eqb_refl. reflexivity. }
  destruct (expired_life (p_cfg p) t0 (r_created x)); cbn [orb].
  { eexists. split; [reflexivity|]. unfold status_of, get_res. cbn. repeat split; auto. apply Hs. }
  destruct (expired_idle (p_cfg p) (now p) (r_lastused x)).
  { eexists. split; [reflexivity|]. unfold status_of, get_res. cbn. repeat split; auto. apply Hs. }
  eexists. split; [reflexivity|]. unfold pd_release, status_of, get_res. cbn. rewrite Hnc. cbn.
  repeat split; auto. apply Hs.
Qed.

Definition hc_time (p : pool) : N := match hc p with Some (t, _) => t | None => now p end.

Lemma hc_push_hc : forall p r, hc (hc_push p r) = Some (hc_time p, hc_pending p ++ [r]).
Proof. intros. unfold hc_push, hc_time, hc_pending. destruct (hc p) as [[t l]|]; reflexivity. Qed.

(* AcquireAllIdle when it gets every idle resource *)
Lemma hc_take_spec : forall l p, pinv p -> idle p = l ->
  let p1 := hc_take (length l) p in
  pinv p1 /\ idle p1 = [] /\ now p1 = now p /\ p_cfg p1 = p_cfg p /\ pclosed p1 = pclosed p /\ handles p1 = handles p /\
  hc p1 = match l with [] => hc p | _ => Some (hc_time p, hc_pending p ++ l) end /\
  (forall r, ~ In r l -> get_res p1 r = get_res p r) /\
  (forall r x, In r l -> get_res p r = Some x -> get_res p1 r = Some (with_status x RAcquired)).
Proof.
  induction l as [|r rest IH]; intros p I Hi; cbn.
  - split; [exact I|]. split; [exact Hi|]. do 5 (split; [reflexivity|]). split; [auto|]. intros ? ? [].
  - rewrite Hi. destruct (idle_get _ p r I) as (x & Hg & Hx); [rewrite Hi; left; auto|]. rewrite Hg.
    destruct (idle_top _ _ _ _ _ I Hi Hg) as (_ & Hnr & Hnd).
    pose proof (L_pop _ _ _ _ I Hi Hg) as I1.
    set (p0 := set_idle (set_res p r (with_status x RAcquired)) rest) in *.
    assert (Hg0 : forall r', get_res p0 r' = if Nat.eqb r r' then Some (with_status x RAcquired) else get_res p r').
    { intros r'. unfold p0, get_res, set_res. cbn. apply (nth_error_upd _ _ _ _ _ r' Hg). }
    assert (I2 : pinv (hc_push p0 r)).
    { apply L_give_hc; auto. intros x'. rewrite Hg0, Nat.eqb_refl. intros E; inversion E; subst. cbn.
      apply (i_open _ _ I _ _ Hg Hx). }
    destruct (hc_push_fields p0 r) as (F1 & F2 & F3 & F4 & F5 & F6).
    assert (Hi2 : idle (hc_push p0 r) = rest) by (rewrite F2; reflexivity).
    destruct (IH _ I2 Hi2) as (J1 & J2 & J3 & J4 & J5 & J5' & J6 & J7 & J8).
    assert (Hp2 : hc_pending (hc_push p0 r) = hc_pending p ++ [r]).
    { unfold hc_pending at 1. rewrite hc_push_hc. reflexivity. }
    assert (Ht2 : hc_time (hc_push p0 r) = hc_time p).
    { unfold hc_time at 1. rewrite hc_push_hc. reflexivity. }
    assert (Hgr : forall r', get_res (hc_push p0 r) r' = get_res p0 r') by (intros; unfold get_res; rewrite F3; reflexivity).
    split; [exact J1|]. split; [exact J2|]. split; [rewrite J3, F6; reflexivity|].
    split; [rewrite J4, F5; reflexivity|]. split; [rewrite J5, F1; reflexivity|].
    split; [rewrite J5', F4; reflexivity|]. split; [|split].
    + rewrite J6. destruct rest.
      * rewrite hc_push_hc. reflexivity.
      * rewrite Hp2, Ht2, <- app_assoc. reflexivity.
    + intros r' Hn. rewrite J7 by (intros Hin; apply Hn; right; auto). rewrite Hgr, Hg0.
      destruct (Nat.eqb_spec r r'); auto. exfalso. apply Hn. left; auto.
    + intros r' x' [E | Hin] Hg'.
      * subst r'. rewrite J7 by auto. rewrite Hgr, Hg0, Nat.eqb_refl. congruence.
      * apply J8; auto. rewrite Hgr, Hg0. destruct (Nat.eqb_spec r r'); [subst r'; contradiction | auto].
Qed.

(* what the idle pass leaves alone: Stat().TotalResources() (a resource being destroyed is still counted),
   the creations started by earlier ticks *)
Definition frame (p p' : pool) : Prop :=
  total p' = total p /\ spawned p' = spawned p /\ constructing p' = constructing p /\ ghosts p' = ghosts p.
Lemma frame_refl : forall p, frame p p.
Proof. intros; repeat split. Qed.
Lemma frame_trans : forall a b c, frame a b -> frame b c -> frame a c.
Proof. intros a b c (A1 & A2 & A3 & A4) (B1 & B2 & B3 & B4). repeat split; congruence. Qed.

Lemma cnt_upd_same : forall f l i x y, nth_error l i = Some y -> f (r_status x) = f (r_status y) ->
  cnt f (upd l i x) = cnt f l.
Proof. intros f l i x y H E. pose proof (cnt_upd f l i x y H) as Hu. rewrite E in Hu. lia. Qed.

Lemma frame_set_res : forall p r x y, get_res p r = Some y -> in_pool (r_status x) = in_pool (r_status y) ->
  frame p (set_res p r x).
Proof.
  intros p r x y Hg E. unfold frame, total, set_res. cbn [ress constructing ghosts spawned set_ress].
  rewrite (cnt_upd_same in_pool _ _ x y Hg E). auto.
Qed.

Lemma hc_take_frame : forall k p, pinv p -> frame p (hc_take k p).
Proof.
  induction k; intros p I; cbn; [apply frame_refl|].
  destruct (idle p) as [|r rest] eqn:Hi; [apply frame_refl|].
  destruct (idle_get _ p r I) as (x & Hg & Hx); [rewrite Hi; left; auto|]. rewrite Hg.
  pose proof (L_pop _ _ _ _ I Hi Hg) as I1.
  assert (I2 : pinv (hc_push (set_idle (set_res p r (with_status x RAcquired)) rest) r)).
  { apply L_give_hc; auto. intros x'. unfold get_res, set_res. cbn.
    rewrite (nth_error_upd _ _ _ _ _ r Hg), Nat.eqb_refl. intros E; inversion E; subst. cbn.
    apply (i_open _ _ I _ _ Hg Hx). }
  eapply frame_trans; [|apply IHk; exact I2].
  pose proof (frame_set_res p r (with_status x RAcquired) x Hg) as F. rewrite Hx in F. specialize (F eq_refl).
  unfold frame, total, hc_push in *. destruct (hc (set_idle (set_res p r (with_status x RAcquired)) rest)) as [[? ?]|]; exact F.
Qed.

Lemma tick_step_frame : forall p p' o, pgood p -> tick_step p = POk p' o -> frame p p'.
Proof.
  intros p p' o [I C] H. unfold tick_step in H.
  destruct (hc p) as [[t0 [|r rest]]|] eqn:Hh; try (inversion H; subst; apply frame_refl).
  assert (Hnc : pclosed p = false).
  { destruct (pclosed p) eqn:Hc; auto. apply C in Hc. destruct Hc; congruence. }
  unfold get_res in H. cbn in H. destruct (nth_error (ress p) r) as [x|] eqn:Hg; [|discriminate].
  destruct (r_status x) eqn:Hx; cbn in H; try discriminate.
  assert (F : forall x', in_pool (r_status x') = true -> frame p (set_res (set_hc p (hc_rest t0 rest)) r x')).
  { intros x' E. apply (frame_set_res (set_hc p (hc_rest t0 rest)) r x' x Hg). rewrite Hx. exact E. }
  destruct (expired_life (p_cfg p) t0 (r_created x)); [inversion H; subst; apply F; reflexivity|].
  destruct (expired_idle (p_cfg p) (now p) (r_lastused x)); [inversion H; subst; apply F; reflexivity|].
  inversion H; subst. unfold pd_release. cbn [pclosed set_hc]. rewrite Hnc.
  specialize (F (with_status (with_lastused x (r_lastused x)) RIdle) eq_refl).
  unfold frame, total in *. exact F.
Qed.

Lemma tick_all_spec : forall l p t0, pgood p -> hc p = Some (t0, l) ->
  exists p', tick_all (length l) p = Some p' /\ hc p' = Some (t0, []) /\ pgood p' /\ now p' = now p /\ handles p' = handles p /\
    p_cfg p' = p_cfg p /\ pclosed p' = pclosed p /\ frame p p' /\
    (forall r, ~ In r l -> get_res p' r = get_res p r) /\
    (forall r, In r (idle p) -> In r (idle p')) /\
    forall r x, In r l -> get_res p r = Some x ->
      if tick_verdict (p_cfg p) t0 (now p) x then status_of p' r = Some RDestroying
      else status_of p' r = Some RIdle /\ In r (idle p').
Proof.
  induction l as [|r rest IH]; intros p t0 G Hh.
  { exists p. cbn. split; [destruct (hc p) as [[? [|? ?]]|]; reflexivity|]. split; [exact Hh|]. split; [exact G|].
    do 4 (split; [reflexivity|]). split; [apply frame_refl|]. split; [auto|]. split; [auto|]. intros ? ? []. }
  pose proof (proj1 G) as I.
  assert (Hpend : hc_pending p = r :: rest) by (unfold hc_pending; rewrite Hh; auto).
  pose proof (i_hc_nd _ _ I) as Hnd. rewrite Hpend in Hnd. inversion Hnd as [|? ? Hnr Hnd']; subst.
  destruct (i_hc_acq _ _ I r) as (Hs & _); [rewrite Hpend; left; auto|].
  destruct (status_get _ _ _ Hs) as (x & Hg & Hx).
  destruct (tick_step_spec p t0 r rest x G Hh Hg) as (p1 & E1 & H1 & N1 & C1 & K1 & HH1 & U1 & S1 & V1).
  destruct (tick_step_ok p G) as (p1' & o1 & E1' & G1). rewrite E1 in E1'. inversion E1'; subst p1' o1. clear E1'.
  pose proof (tick_step_frame _ _ _ G E1) as F1.
  cbn [length tick_all]. rewrite Hh, E1.
  assert (H1' : hc p1 = Some (t0, rest)) by exact H1.
  destruct (IH p1 t0 G1 H1') as (p' & E & Hn' & G' & N' & HH' & C' & K' & F' & U' & S' & V').
  exists p'. rewrite E.
  split; [reflexivity|]. split; [exact Hn'|]. split; [exact G'|]. split; [congruence|]. split; [congruence|].
  split; [congruence|]. split; [congruence|]. split; [eapply frame_trans; eauto|].
  split; [|split; [intros r' Hin; apply S'; apply S1; exact Hin|]].
  + intros r' Hn. rewrite U' by (intros Hin; apply Hn; right; auto). apply U1. intros E2; subst. apply Hn. left; auto.
  + intros r' x' [E2 | Hin] Hg'.
    * subst r'. assert (x' = x) by congruence. subst x'.
      assert (Hsame : status_of p' r = status_of p1 r) by (unfold status_of; rewrite U'; auto).
      destruct (tick_verdict (p_cfg p) t0 (now p) x).
      -- congruence.
      -- destruct V1 as [V1a V1b]. split; [congruence | apply S'; auto].
    * assert (r' <> r) by (intros E2; subst; contradiction).
      specialize (V' r' x' Hin). rewrite U1 in V' by auto. rewrite C1, N1 in V'. apply V'. exact Hg'.
Qed.

(* the idle pass of a tick on an open pool: exactly the idle resources past their lifetime or idle time are
   destroyed - whatever MinConns is -, the others stay idle; nothing else is touched *)
Lemma tick_pass_spec : forall p, pgood p -> hc p = None -> pclosed p = false ->
  exists p', tick_pass p = Some p' /\ hc p' = Some (now p, []) /\ pgood p' /\
    now p' = now p /\ p_cfg p' = p_cfg p /\ pclosed p' = false /\ frame p p' /\
    (forall r x, In r (idle p) -> get_res p r = Some x ->
       if tick_verdict (p_cfg p) (now p) (now p) x then status_of p' r = Some RDestroying
       else status_of p' r = Some RIdle /\ In r (idle p')) /\
    (forall r, ~ In r (idle p) -> get_res p' r = get_res p r) /\ handles p' = handles p.
Proof.
  intros p G Hh Hc. pose proof (proj1 G) as I.
  unfold tick_pass, tick_begin. rewrite Hh, Hc.
  assert (Hk : sem_all (c_max (p_cfg p) - held p) (length (idle p)) = length (idle p)).
  { unfold sem_all. pose proof (i_cnt _ _ I) as Hcnt.
    destruct (Nat.leb_spec (length (idle p)) (c_max (p_cfg p) - held p)); [auto | lia]. }
  rewrite Hk.
  set (p0 := set_hc p (Some (now p, []))).
  assert (I0 : pinv p0).
  { apply L_hc_same; auto. unfold hc_pending. cbn. rewrite Hh. reflexivity. }
  destruct (hc_take_spec (idle p) p0 I0 eq_refl) as (J1 & J2 & J3 & J4 & J5 & J5' & J6 & J7 & J8).
  pose proof (hc_take_frame (length (idle p)) p0 I0) as F0.
  change (idle p0) with (idle p) in *.
  set (p1 := hc_take (length (idle p)) p0) in *.
  assert (G1 : pgood p1) by (split; [exact J1 | intros Hq; cbn in J5; congruence]).
  assert (Hh1 : hc p1 = Some (now p, idle p)).
  { rewrite J6. destruct (idle p); reflexivity. }
  destruct (tick_all_spec (idle p) p1 (now p) G1 Hh1) as (p' & E & Hn' & G' & N' & HH' & C' & K' & F' & U' & S' & V').
  exists p'. split; [exact E|]. split; [exact Hn'|]. split; [exact G'|].
  split; [rewrite N', J3; reflexivity|]. split; [rewrite C', J4; reflexivity|].
  split; [rewrite K', J5; exact Hc|]. split; [eapply frame_trans; [exact F0 | exact F']|].
  split; [|split].
  + intros r x Hin Hg. specialize (V' r (with_status x RAcquired) Hin (J8 _ _ Hin Hg)).
    rewrite J4, J3 in V'. exact V'.
  + intros r Hn. rewrite U' by auto. apply J7; auto.
  + rewrite HH', J5'. reflexivity.
Qed.

(* a whole tick on an open pool: the idle pass, then checkMinConns starts MinConns - Total goroutines *)
Theorem tick_full_spec : forall p, pgood p -> hc p = None -> pclosed p = false ->
  exists p', tick_full p = Some p' /\ hc p' = None /\ pgood p' /\
    (forall r x, In r (idle p) -> get_res p r = Some x ->
       if tick_verdict (p_cfg p) (now p) (now p) x then status_of p' r = Some RDestroying
       else status_of p' r = Some RIdle /\ In r (idle p')) /\
    (forall r, ~ In r (idle p) -> get_res p' r = get_res p r) /\ handles p' = handles p /\
    total p' = total p /\ constructing p' = constructing p /\
    spawned p' = spawned p + (c_min (p_cfg p) - total p).
Proof.
  intros p G Hh Hc.
  destruct (tick_pass_spec p G Hh Hc) as (p1 & E & Hh1 & G1 & N1 & C1 & K1 & (F1 & F2 & F3 & F4) & V & U & HH).
  unfold tick_full. rewrite E. cbn [option_map]. exists (check_min p1).
  pose proof (check_min_ok p1 G1) as G'. unfold check_min in *. rewrite Hh1 in *.
  split; [reflexivity|]. split; [reflexivity|]. split; [exact G'|].
  split; [exact V|]. split; [exact U|]. split; [exact HH|].
  unfold total in *. cbn [ress constructing ghosts spawned set_spawned set_hc]. rewrite C1, F1, F2.
  repeat split; auto.
Qed.

(* ---- statements over histories (what props/C11.v quotes) ---------------------------------------- *)
Lemma hist_good : forall c dials ops p, prun (pnew c dials) ops = Some p -> pgood p.
Proof. intros c dials ops p H. apply (reachable_good c). exists dials, ops. exact H. Qed.

Theorem h_pool_inv : forall c dials ops, exists p, prun (pnew c dials) ops = Some p /\ pinv p /\ cinv p.
Proof. intros. destruct (never_crashes c dials ops) as (p & E & G). exists p. split; auto. Qed.

Theorem h_one_holder : forall c dials ops p h1 h2 r, prun (pnew c dials) ops = Some p ->
  handle_of p h1 = Some r -> handle_of p h2 = Some r ->
  h1 = h2 /\ status_of p r = Some RAcquired /\ ~ In r (hc_pending p) /\ ~ In r (idle p).
Proof. intros. eapply one_holder_good; eauto. eapply hist_good; eauto. Qed.

Lemma hc_take_cfg : forall k p, p_cfg (hc_take k p) = p_cfg p.
Proof.
  induction k; intros p; cbn; auto. destruct (idle p); auto. destruct (get_res p n); auto. rewrite IHk.
  destruct (hc_push_fields (set_idle (set_res p n (with_status r RAcquired)) l) n) as (_ & _ & _ & _ & F & _).
  rewrite F. reflexivity.
Qed.
Lemma close_idle_cfg : forall k p, p_cfg (close_idle k p) = p_cfg p.
Proof.
  induction k; intros p; cbn; auto. destruct (idle p); auto. destruct (get_res p n); auto. rewrite IHk. reflexivity.
Qed.

Ltac crush H :=
  repeat match type of H with context [match ?e with _ => _ end] => destruct e eqn:? end;
  try discriminate; inversion H; subst; cbn; auto.

Lemma pd_acquire_cfg : forall q d,
  match pd_acquire q d with AGot p' _ => p_cfg p' = p_cfg q | AFail p' => p_cfg p' = p_cfg q | ACrash => True end.
Proof.
  intros q d. unfold pd_acquire. destruct (c_max (p_cfg q) <=? held q); auto. destruct (pclosed q); auto.
  destruct (idle q).
  - destruct (c_max (p_cfg q) <=? total q); auto. destruct d; auto.
  - destruct (get_res q n); auto.
Qed.
Lemma ch_acquire_cfg : forall q d q1 o, ch_acquire q d = POk q1 o -> p_cfg q1 = p_cfg q.
Proof.
  intros q d q1 o H. unfold ch_acquire in H. pose proof (pd_acquire_cfg q d) as A.
  destruct (pd_acquire q d); inversion H; subst; cbn; auto.
Qed.
Lemma ch_release_cfg : forall q h q1 o, ch_release q h = POk q1 o -> p_cfg q1 = p_cfg q.
Proof. intros q h q1 o H. unfold ch_release, pd_release, pd_destroy in H. crush H. Qed.
Lemma ch_do_cfg : forall q h k cl q1 o, ch_do q h k cl = POk q1 o -> p_cfg q1 = p_cfg q.
Proof. intros q h k cl q1 o H. unfold ch_do in H. crush H. Qed.
Lemma pool_do_cfg : forall q d k cl q1 o, pool_do q d k cl = POk q1 o -> p_cfg q1 = p_cfg q.
Proof.
  intros q d k cl q1 o H. unfold pool_do in H. destruct (ch_acquire q d) as [p1 o1|] eqn:E1; [|discriminate].
  apply ch_acquire_cfg in E1. destruct o1; try (inversion H; subst; auto; fail).
  destruct (ch_do p1 _ k cl) as [p2 o2|] eqn:E2; [|discriminate]. apply ch_do_cfg in E2.
  destruct (ch_release p2 _) as [p3 o3|] eqn:E3; [|discriminate]. apply ch_release_cfg in E3. inversion H; subst. congruence.
Qed.
Lemma ch_close_cfg : forall p, p_cfg (ch_close p) = p_cfg p.
Proof. intros p. unfold ch_close. destruct (pclosed p); auto. destruct (hc p); auto. rewrite close_idle_cfg. reflexivity. Qed.
Lemma add_created_cfg : forall p t, p_cfg (add_created p t) = p_cfg p.
Proof. intros. unfold add_created. destruct (pclosed p); reflexivity. Qed.
Lemma create_idle_cfg : forall k dials p, p_cfg (fst (create_idle k dials p)) = p_cfg p.
Proof.
  induction k; intros dials p; cbn; auto. unfold create_resource.
  destruct (create_refused p); auto. destruct (hd true dials); auto.
  rewrite IHk. apply add_created_cfg.
Qed.
Lemma pnew_cfg : forall c dials, p_cfg (pnew c dials) = c.
Proof.
  intros c dials. unfold pnew. pose proof (create_idle_cfg (c_min c) dials (pinit c)) as H.
  destruct (create_idle (c_min c) dials (pinit c)) as [p [|]]; cbn [fst] in H; [exact H|]. rewrite ch_close_cfg. exact H.
Qed.
Lemma pstep_cfg : forall p o p' ob, pstep p o = POk p' ob -> p_cfg p' = p_cfg p.
Proof.
  intros p o p' ob H. destruct o; cbn [pstep] in H.
  - eapply ch_acquire_cfg; eauto.
  - eapply ch_release_cfg; eauto.
  - eapply ch_do_cfg; eauto.
  - eapply ch_do_cfg; eauto.
  - eapply pool_do_cfg; eauto.
  - eapply pool_do_cfg; eauto.
  - inversion H; subst. unfold tick_begin. destruct (hc p); auto. destruct (pclosed p); auto. rewrite hc_take_cfg. reflexivity.
  - unfold tick_step, pd_release, pd_destroy in H. crush H.
  - inversion H; subst; auto.
  - inversion H; subst. unfold pd_finish. destruct (get_res p r); auto. destruct (r_status r0); auto.
  - inversion H; subst. apply ch_close_cfg.
  - inversion H; subst. unfold check_min. destruct (hc p) as [[? [|? ?]]|]; reflexivity.
  - inversion H; subst. unfold spawn_begin. destruct (spawned p); auto. destruct (create_refused p); reflexivity.
  - inversion H; subst. unfold spawn_end. destruct (nth_error (constructing p) i); auto. destruct dial_ok; auto.
    rewrite add_created_cfg. reflexivity.
Qed.
Lemma prun_cfg : forall ops p p', prun p ops = Some p' -> p_cfg p' = p_cfg p.
Proof.
  induction ops; intros p p' H; cbn in H; [inversion H; auto|].
  destruct (pstep p a) as [p1 o|] eqn:E; [|discriminate]. rewrite (IHops _ _ H). eapply pstep_cfg; eauto.
Qed.

Theorem h_total_le_max : forall c dials ops p, prun (pnew c dials) ops = Some p ->
  total p <= c_max c /\ total p = stat_idle p + stat_acquired p + stat_constructing p /\
  stat_idle p = length (idle p) + ghosts p /\ (pclosed p = false -> ghosts p = 0).
Proof.
  intros c dials ops p H. pose proof (total_le_max_good p (hist_good _ _ _ _ H)) as T.
  rewrite (prun_cfg _ _ _ H), pnew_cfg in T. exact T.
Qed.

(* ---- winding a pool down: Close, release every handle, let every creation in flight and every goroutine finish ---- *)
Definition drain_ops (p : pool) (dials : list bool) : list pop :=
  PClose :: map PRelease (seq 0 (length (handles p)))
    ++ repeat PSpawnBegin (spawned p)
    ++ map (PSpawnEnd 0) dials
    ++ map PFinish (seq 0 (length (ress p) + length dials)).

Definition npending (p : pool) (r : nat) : Prop :=
  status_of p r <> Some RDestroying /\ status_of p r <> Some RClosing.

Lemma release_shape : forall p h p' o, pstep p (PRelease h) = POk p' o ->
  length (handles p') = length (handles p) /\ length (ress p') = length (ress p) /\
  pclosed p' = pclosed p /\ hc p' = hc p /\ spawned p' = spawned p /\ constructing p' = constructing p.
Proof.
  intros p h p' o H. cbn in H. unfold ch_release in H.
  destruct (nth_error (handles p) h) as [[r|]|]; try (inversion H; subst; auto 10; fail).
  unfold get_res in H. cbn in H. destruct (nth_error (ress p) r) as [x|]; [|discriminate].
  destruct (negb (is_acq (r_status x))); [discriminate|].
  destruct (r_cclosed x || expired_life (p_cfg p) (now p) (r_created x)).
  - inversion H; subst. cbn. rewrite !upd_length. auto 10.
  - inversion H; subst. unfold pd_release. cbn. destruct (pclosed p) eqn:Hc; cbn; rewrite !upd_length; auto 10.
Qed.

Lemma rel_all : forall l p, pgood p -> exists p', prun p (map PRelease l) = Some p' /\ pgood p' /\
  pclosed p' = pclosed p /\ hc p' = hc p /\ length (handles p') = length (handles p) /\
  length (ress p') = length (ress p) /\ spawned p' = spawned p /\ constructing p' = constructing p /\
  (forall h, In h l -> handle_of p' h = None) /\ (forall h, handle_of p h = None -> handle_of p' h = None).
Proof.
  induction l as [|a l IH]; intros p G; cbn [map prun].
  - exists p. split; [reflexivity|]. split; [exact G|]. repeat split; auto. intros ? [].
  - destruct (pstep_good p (PRelease a) G) as (p1 & o & E & G1). rewrite E.
    destruct (release_shape _ _ _ _ E) as (S1 & S2 & S3 & S4 & S5 & S6).
    assert (K : forall h, handle_of p h = None -> handle_of p1 h = None).
    { intros h Hh. destruct (Nat.eq_dec h a) as [->|Hne]; [eapply release_clears; eauto|].
      destruct (release_others_untouched _ _ _ _ G E h Hne) as [Hq _]. congruence. }
    destruct (IH p1 G1) as (p' & E' & G' & T1 & T2 & T3 & T4 & T4a & T4b & T5 & T6).
    exists p'. split; [exact E'|]. split; [exact G'|]. split; [congruence|]. split; [congruence|].
    split; [congruence|]. split; [congruence|]. split; [congruence|]. split; [congruence|]. split.
    + intros h [->|Hin]; [apply T6; eapply release_clears; eauto | apply T5; auto].
    + intros h Hh. apply T6. apply K. exact Hh.
Qed.

Lemma finish_shape : forall p r, handles (pd_finish p r) = handles p /\ pclosed (pd_finish p r) = pclosed p /\
  hc (pd_finish p r) = hc p /\ length (ress (pd_finish p r)) = length (ress p) /\
  spawned (pd_finish p r) = spawned p /\ constructing (pd_finish p r) = constructing p /\ ghosts (pd_finish p r) = ghosts p /\
  npending (pd_finish p r) r /\ (forall r', npending p r' -> npending (pd_finish p r) r').
Proof.
  intros p r. unfold pd_finish. destruct (get_res p r) as [x|] eqn:Hg.
  2: { do 7 (split; [reflexivity|]). split; [|auto].
       unfold npending, status_of. rewrite Hg. cbn. split; discriminate. }
  assert (Hdead : let p' := set_res p r (with_status (with_cclosed x true) RDead) in
            handles p' = handles p /\ pclosed p' = pclosed p /\ hc p' = hc p /\ length (ress p') = length (ress p) /\
            spawned p' = spawned p /\ constructing p' = constructing p /\ ghosts p' = ghosts p /\
            npending p' r /\ (forall r', npending p r' -> npending p' r')).
  { cbn. rewrite upd_length. do 7 (split; [reflexivity|]).
    assert (Hs : forall r', status_of (set_res p r (with_status (with_cclosed x true) RDead)) r' =
                            if Nat.eqb r r' then Some RDead else status_of p r').
    { intros r'. unfold status_of, get_res, set_res in *. cbn. rewrite (nth_error_upd _ _ _ _ _ r' Hg).
      destruct (Nat.eqb r r'); reflexivity. }
    unfold npending. split.
    - rewrite Hs, Nat.eqb_refl. split; discriminate.
    - intros r' Hn. rewrite Hs. destruct (Nat.eqb r r'); [split; discriminate | exact Hn]. }
  assert (Hsame : r_status x <> RDestroying -> r_status x <> RClosing -> npending p r).
  { intros A B. unfold npending, status_of. rewrite Hg. cbn. split; intros E; inversion E; contradiction. }
  destruct (r_status x) eqn:Hx; try exact Hdead;
    (do 7 (split; [reflexivity|]); split; [apply Hsame; discriminate | auto]).
Qed.

Lemma fin_all : forall l p, exists p', prun p (map PFinish l) = Some p' /\ handles p' = handles p /\
  pclosed p' = pclosed p /\ hc p' = hc p /\ length (ress p') = length (ress p) /\
  spawned p' = spawned p /\ constructing p' = constructing p /\ ghosts p' = ghosts p /\
  (forall r, In r l -> npending p' r) /\ (forall r, npending p r -> npending p' r).
Proof.
  induction l as [|a l IH]; intros p; cbn [map prun pstep].
  - exists p. split; [reflexivity|]. repeat split; auto; try (intros ? []); apply H.
  - destruct (finish_shape p a) as (F1 & F2 & F3 & F4 & F4a & F4b & F4c & F5 & F6).
    destruct (IH (pd_finish p a)) as (p' & E & T1 & T2 & T3 & T4 & T4a & T4b & T4c & T5 & T6).
    exists p'. split; [exact E|]. split; [congruence|]. split; [congruence|]. split; [congruence|]. split; [congruence|].
    split; [congruence|]. split; [congruence|]. split; [congruence|]. split.
    + intros r [->|Hin]; [apply T6; exact F5 | apply T5; auto].
    + intros r Hn. apply T6. apply F6. exact Hn.
Qed.

Lemma prun_app : forall a b p, prun p (a ++ b) = match prun p a with Some p1 => prun p1 b | None => None end.
Proof. induction a; intros b p; cbn; auto. destruct (pstep p a); auto. Qed.

Lemma close_idle_len : forall k q, length (handles (close_idle k q)) = length (handles q) /\
  length (ress (close_idle k q)) = length (ress q) /\ spawned (close_idle k q) = spawned q /\
  constructing (close_idle k q) = constructing q.
Proof.
  induction k; intros q; cbn; auto. destruct (idle q); auto. destruct (get_res q n) eqn:Hg; auto.
  destruct (IHk (set_idle (set_res q n (with_status r RClosing)) l)) as (A & B & C & D). rewrite A, B, C, D. cbn.
  rewrite upd_length. auto.
Qed.

(* the goroutines of checkMinConns that find the pool closed give up *)
Lemma begin_all_closed : forall k p, pclosed p = true ->
  exists p', prun p (repeat PSpawnBegin k) = Some p' /\ handles p' = handles p /\ pclosed p' = true /\ hc p' = hc p /\
    ress p' = ress p /\ constructing p' = constructing p /\ spawned p' = spawned p - k.
Proof.
  induction k; intros p Hc; cbn [repeat prun pstep].
  - exists p. repeat split; auto. lia.
  - assert (E : handles (spawn_begin p) = handles p /\ pclosed (spawn_begin p) = true /\ hc (spawn_begin p) = hc p /\
                ress (spawn_begin p) = ress p /\ constructing (spawn_begin p) = constructing p /\
                spawned (spawn_begin p) = spawned p - 1).
    { unfold spawn_begin. destruct (spawned p) as [|n] eqn:Hs; [rewrite Hs; auto 10|].
      unfold create_refused. rewrite Hc, orb_true_r. cbn. repeat split; auto. lia. }
    destruct E as (E1 & E2 & E3 & E4 & E5 & E6).
    destruct (IHk (spawn_begin p) E2) as (p' & R & T1 & T2 & T3 & T4 & T5 & T6).
    exists p'. split; [exact R|]. repeat split; try congruence. lia.
Qed.

(* the creations in flight complete, whatever their dials do: into a closed pool *)
Lemma end_all_closed : forall dials p, pclosed p = true -> length dials = length (constructing p) ->
  exists p', prun p (map (PSpawnEnd 0) dials) = Some p' /\ handles p' = handles p /\ pclosed p' = true /\ hc p' = hc p /\
    spawned p' = spawned p /\ constructing p' = [] /\ length (ress p') = length (ress p) + length (filter (fun d => d) dials).
Proof.
  induction dials as [|d dials IH]; intros p Hc Hl; cbn [map prun pstep].
  - exists p. destruct (constructing p); [|discriminate]. repeat split; auto.
  - destruct (constructing p) as [|t l] eqn:Hcs; [discriminate|].
    assert (E : handles (spawn_end p 0 d) = handles p /\ pclosed (spawn_end p 0 d) = true /\ hc (spawn_end p 0 d) = hc p /\
                spawned (spawn_end p 0 d) = spawned p /\ constructing (spawn_end p 0 d) = l /\
                length (ress (spawn_end p 0 d)) = length (ress p) + (if d then 1 else 0)).
    { unfold spawn_end. rewrite Hcs. cbn [nth_error remove_nth]. destruct d.
      - unfold add_created. cbn [pclosed set_constructing]. rewrite Hc. cbn. rewrite app_length. cbn. auto 10.
      - cbn. repeat split; auto. }
    destruct E as (E1 & E2 & E3 & E4 & E5 & E6).
    destruct (IH (spawn_end p 0 d) E2) as (p' & R & T1 & T2 & T3 & T4 & T5 & T6).
    { rewrite E5. cbn in Hl. lia. }
    exists p'. split; [exact R|]. repeat split; try congruence.
    rewrite T6, E6. cbn [filter]. destruct d; cbn; lia.
Qed.

(* from every reachable state in which no tick is in progress: Close, then a Release of every handle, then every
   goroutine of checkMinConns runs, every creation in flight completes (with any dial outcomes) and every
   goroutine puddle started ends: every connection ever opened is closed and nothing is in flight *)
Theorem drain_closes_everything : forall p dials, pgood p -> hc p = None -> length dials = length (constructing p) ->
  exists p', prun p (drain_ops p dials) = Some p' /\
    length (ress p') = length (ress p) + length (filter (fun d => d) dials) /\
    spawned p' = 0 /\ constructing p' = [] /\ total p' = ghosts p' /\
    forall r x, get_res p' r = Some x -> r_status x = RDead /\ r_cclosed x = true.
Proof.
  intros p dials G Hh Hl. unfold drain_ops. cbn [prun pstep].
  pose proof (ch_close_ok p G) as G0.
  assert (C0 : pclosed (ch_close p) = true /\ hc (ch_close p) = None /\
               length (handles (ch_close p)) = length (handles p) /\ length (ress (ch_close p)) = length (ress p) /\
               spawned (ch_close p) = spawned p /\ constructing (ch_close p) = constructing p).
  { unfold ch_close. destruct (pclosed p) eqn:Hc; [auto 10|]. rewrite Hh.
    destruct (close_idle_ok (length (idle p)) (set_pclosed p true)) as (_ & _ & Q1 & Q2); auto.
    { apply L_closed. apply G. }
    split; [rewrite Q2; reflexivity|]. split; [rewrite Q1; exact Hh|].
    destruct (close_idle_len (length (idle p)) (set_pclosed p true)) as (A & B & C & D). rewrite A, B, C, D. auto. }
  destruct C0 as (C1 & C2 & C3 & C4 & C5 & C6).
  rewrite prun_app.
  destruct (rel_all (seq 0 (length (handles p))) (ch_close p) G0) as (p1 & E1 & G1 & T1 & T2 & T3 & T4 & T4a & T4b & T5 & T6).
  rewrite E1. rewrite prun_app.
  destruct (begin_all_closed (spawned p) p1 ltac:(congruence)) as (p2 & E2 & B1 & B2 & B3 & B4 & B5 & B6).
  rewrite E2. rewrite prun_app.
  destruct (end_all_closed dials p2 B2 ltac:(congruence)) as (p3 & E3 & D1 & D2 & D3 & D4 & D5 & D6).
  rewrite E3.
  destruct (fin_all (seq 0 (length (ress p) + length dials)) p3) as (p4 & E4 & F1 & F2 & F3 & F4 & F4a & F4b & F4c & F5 & F6).
  exists p4. split; [exact E4|].
  assert (Hlen : length (ress p4) = length (ress p) + length (filter (fun d => d) dials)) by congruence.
  split; [exact Hlen|]. split; [rewrite F4a, D4, B6; lia|]. split; [congruence|].
  assert (G2 : pgood p2).
  { destruct (prun_good (repeat PSpawnBegin (spawned p)) p1 G1) as (q & Eq & Gq). congruence. }
  assert (G3 : pgood p3).
  { destruct (prun_good (map (PSpawnEnd 0) dials) p2 G2) as (q & Eq & Gq). congruence. }
  assert (G4 : pgood p4).
  { destruct (prun_good (map PFinish (seq 0 (length (ress p) + length dials))) p3 G3) as (q & Eq & Gq). congruence. }
  assert (All : forall r x, get_res p4 r = Some x -> r_status x = RDead /\ r_cclosed x = true).
  { apply closed_released_all_closed; auto.
    - congruence.
    - intros h. unfold handle_of. rewrite F1, D1, B1. fold (handle_of p1 h).
      destruct (Nat.lt_ge_cases h (length (handles p))).
      + apply T5. apply in_seq. lia.
      + unfold handle_of. assert (nth_error (handles p1) h = None) as -> by (apply nth_error_None; lia). reflexivity.
    - intros r. assert (Hfl : length (filter (fun d : bool => d) dials) <= length dials).
      { clear. induction dials as [|d l IHl]; cbn; auto. destruct d; cbn; lia. }
      destruct (Nat.lt_ge_cases r (length (ress p) + length dials)).
      + apply F5. apply in_seq. lia.
      + unfold status_of, get_res. assert (nth_error (ress p4) r = None) as -> by (apply nth_error_None; lia).
        cbn. split; discriminate. }
  split; [|exact All].
  unfold total, cnt. assert (Hf : forall l, (forall x, In x l -> r_status x = RDead) -> filter (fun x => in_pool (r_status x)) l = []).
  { induction l; intros Hl'; cbn; auto. rewrite (Hl' a) by (left; auto). cbn. apply IHl. intros; apply Hl'; right; auto. }
  rewrite Hf.
  - rewrite F4b, D5. reflexivity.
  - intros x Hin. apply In_nth_error in Hin. destruct Hin as [r Hr]. apply (All r x Hr).
Qed.

Theorem h_drain : forall c dials0 ops p dials, prun (pnew c dials0) ops = Some p -> hc p = None ->
  length dials = length (constructing p) ->
  exists p', prun p (drain_ops p dials) = Some p' /\
    length (ress p') = length (ress p) + length (filter (fun d => d) dials) /\
    spawned p' = 0 /\ constructing p' = [] /\ total p' = ghosts p' /\
    forall r x, get_res p' r = Some x -> r_status x = RDead /\ r_cclosed x = true.
Proof. intros c dials0 ops p dials H. apply drain_closes_everything. eapply hist_good; eauto. Qed.

(* ---- MinConns ------------------------------------------------------------------------------------ *)
Ltac sim := cbn [ress idle handles hc pclosed now p_cfg spawned constructing ghosts length
                 set_ress set_idle set_handles set_hc set_pclosed set_now set_spawned set_constructing set_ghosts].
Ltac sim_in H := cbn [ress idle handles hc pclosed now p_cfg spawned constructing ghosts length
                 set_ress set_idle set_handles set_hc set_pclosed set_now set_spawned set_constructing set_ghosts] in H.
Definition is_destr (s : rstatus) : bool := match s with RDestroying => true | _ => false end.
(* connections in the pool whose Destroy goroutine has not finished: puddle (Stat, checkMinConns) still counts them *)
Definition destroying (p : pool) : nat := cnt is_destr (ress p).
(* connections in the pool that are idle or in the hands of a holder *)
Definition live (p : pool) : nat := cnt is_idle (ress p) + cnt is_acq (ress p).

Lemma nth_error_app1_some : forall A (l l' : list A) i x, nth_error l i = Some x -> nth_error (l ++ l') i = Some x.
Proof. intros A l l' i x H. rewrite nth_error_app1; auto. apply nth_error_Some. congruence. Qed.

Lemma token_split : forall l, cnt holds_token l = cnt is_acq l + cnt is_destr l.
Proof. induction l; auto. unfold cnt in *; cbn. destruct (r_status a); cbn; lia. Qed.

Lemma total_live : forall p, total p = live p + destroying p + length (constructing p) + ghosts p.
Proof. intros p. unfold total, live, destroying. rewrite total_split, token_split. lia. Qed.

(* what is left of the promise of checkMinConns: Total + goroutines not yet run >= MinConns, unless the pool is full *)
Definition min_promise (p : pool) : Prop :=
  c_min (p_cfg p) <= total p + spawned p \/ c_max (p_cfg p) <= total p.

Lemma spawn_begin_open : forall p, pgood p -> pclosed p = false -> min_promise p ->
  let p' := spawn_begin p in
  pclosed p' = false /\ min_promise p' /\ spawned p' = spawned p - 1 /\ ress p' = ress p /\ idle p' = idle p /\
  handles p' = handles p /\ hc p' = hc p /\ ghosts p' = ghosts p /\ p_cfg p' = p_cfg p.
Proof.
  intros p [I C] Hc J. unfold spawn_begin. destruct (spawned p) as [|n] eqn:Hs.
  { rewrite Hs. repeat split; auto. }
  destruct (create_refused p) eqn:Hr.
  - sim. repeat split; auto; try lia. right. unfold create_refused in Hr. rewrite Hc, orb_false_r in Hr.
    apply orb_true_iff in Hr. pose proof (total_eq _ _ I) as Ht.
    destruct Hr as [Hr|Hr]; apply Nat.leb_le in Hr; unfold min_promise, total in *; sim; lia.
  - sim. repeat split; auto; try lia. unfold min_promise, total in *. sim. rewrite app_length. sim.
    rewrite Hs in J. lia.
Qed.

Lemma begin_all_open : forall k p, pgood p -> pclosed p = false -> min_promise p ->
  exists p', prun p (repeat PSpawnBegin k) = Some p' /\ pgood p' /\ pclosed p' = false /\ min_promise p' /\
    spawned p' = spawned p - k /\ ress p' = ress p /\ idle p' = idle p /\ handles p' = handles p /\ hc p' = hc p /\
    ghosts p' = ghosts p /\ p_cfg p' = p_cfg p.
Proof.
  induction k; intros p G Hc J; cbn [repeat prun pstep].
  - exists p. split; [reflexivity|]. split; [exact G|]. split; [exact Hc|]. split; [exact J|]. split; [lia|].
    repeat split; reflexivity.
  - destruct (spawn_begin_open p G Hc J) as (A1 & A2 & A3 & A4 & A5 & A6 & A7 & A8 & A9).
    destruct (IHk (spawn_begin p) (spawn_begin_ok p G) A1 A2) as (p' & E & G' & B1 & B2 & B3 & B4 & B5 & B6 & B7 & B8 & B9).
    exists p'. split; [exact E|]. split; [exact G'|]. split; [exact B1|]. split; [exact B2|]. split; [lia|].
    repeat split; congruence.
Qed.

Lemma spawn_end_open : forall p t l, pclosed p = false -> constructing p = t :: l ->
  let p' := spawn_end p 0 true in
  pclosed p' = false /\ constructing p' = l /\ spawned p' = spawned p /\ total p' = total p /\
  destroying p' = destroying p /\ live p' = S (live p) /\ handles p' = handles p /\ hc p' = hc p /\ ghosts p' = ghosts p /\
  p_cfg p' = p_cfg p /\ ress p' = ress p ++ [mkRes RIdle t t false].
Proof.
  intros p t l Hc Hl. unfold spawn_end, add_created. rewrite Hl. cbn [nth_error remove_nth pclosed set_constructing].
  rewrite Hc. unfold total, destroying, live. sim.
  rewrite !cnt_app, Hl. cbn [r_status is_idle is_acq is_destr in_pool b2n length]. repeat split; auto; lia.
Qed.

Lemma end_all_open : forall l p, pgood p -> pclosed p = false -> constructing p = l ->
  exists p', prun p (repeat (PSpawnEnd 0 true) (length l)) = Some p' /\ pgood p' /\ pclosed p' = false /\
    constructing p' = [] /\ spawned p' = spawned p /\ total p' = total p /\ destroying p' = destroying p /\
    live p' = live p + length l /\ handles p' = handles p /\ hc p' = hc p /\ ghosts p' = ghosts p /\ p_cfg p' = p_cfg p /\
    exists extra, ress p' = ress p ++ extra.
Proof.
  induction l as [|t l IH]; intros p G Hc Hl; cbn [length repeat prun pstep].
  - exists p. split; [reflexivity|]. split; [exact G|]. split; [exact Hc|]. split; [exact Hl|].
    split; [reflexivity|]. split; [reflexivity|]. split; [reflexivity|]. split; [lia|].
    do 4 (split; [reflexivity|]). exists []. rewrite app_nil_r. reflexivity.
  - destruct (spawn_end_open p t l Hc Hl) as (A1 & A2 & A3 & A4 & A5 & A6 & A7 & A8 & A9 & A10 & A11).
    destruct (IH (spawn_end p 0 true) (spawn_end_ok p 0 true G) A1 A2) as (p' & E & G' & B1 & B2 & B3 & B4 & B5 & B6 & B7 & B8 & B9 & B10 & (ex & B11)).
    exists p'. split; [exact E|]. split; [exact G'|]. split; [exact B1|]. split; [exact B2|].
    split; [congruence|]. split; [congruence|]. split; [congruence|]. split; [lia|].
    do 4 (split; [congruence|]). exists (mkRes RIdle t t false :: ex). rewrite B11, A11, <- app_assoc. reflexivity.
Qed.

(* checkMinConns and the creations it starts, all dials succeeding, nothing else happening meanwhile: the pool
   holds at least min(MinConns, MaxConns) resources, none of them under construction.  The count is puddle's:
   it includes connections whose Destroy goroutine had not finished when checkMinConns read Stat() ([destroying]);
   when there was none, all of them are live connections *)
Theorem check_min_restores : forall p t0, pgood p -> hc p = Some (t0, []) ->
  exists p1 p2, prun (check_min p) (repeat PSpawnBegin (spawned (check_min p))) = Some p1 /\
    prun p1 (repeat (PSpawnEnd 0 true) (length (constructing p1))) = Some p2 /\
    pgood p2 /\ hc p2 = None /\ pclosed p2 = false /\ spawned p2 = 0 /\ constructing p2 = [] /\ ghosts p2 = 0 /\
    handles p2 = handles p /\
    Nat.min (c_min (p_cfg p)) (c_max (p_cfg p)) <= total p2 /\
    total p2 = live p2 + destroying p2 /\ destroying p2 = destroying p /\
    (forall r x, get_res p r = Some x -> get_res p2 r = Some x).
Proof.
  intros p t0 G Hh. pose proof (check_min_ok p G) as G0.
  assert (Hnc : pclosed p = false).
  { destruct (pclosed p) eqn:Hc; auto. apply (proj2 G) in Hc. destruct Hc; congruence. }
  assert (S0 : pclosed (check_min p) = false /\ min_promise (check_min p) /\ hc (check_min p) = None /\
               ress (check_min p) = ress p /\ handles (check_min p) = handles p /\ p_cfg (check_min p) = p_cfg p /\
               ghosts (check_min p) = ghosts p).
  { unfold check_min. rewrite Hh. sim. repeat split; auto. left. unfold min_promise, total. sim. lia. }
  destruct S0 as (S1 & S2 & S3 & S4 & S5 & S6 & S7).
  destruct (begin_all_open (spawned (check_min p)) _ G0 S1 S2) as (p1 & E1 & G1 & B1 & B2 & B3 & B4 & B5 & B6 & B7 & B8 & B9).
  destruct (end_all_open (constructing p1) p1 G1 B1 eq_refl) as (p2 & E2 & G2 & D1 & D2 & D3 & D4 & D5 & D6 & D7 & D8 & D9 & D10 & (ex & D11)).
  exists p1, p2. split; [exact E1|]. split; [exact E2|]. split; [exact G2|]. split; [congruence|]. split; [exact D1|].
  split; [rewrite D3, B3; lia|]. split; [exact D2|].
  assert (Hg : ghosts p2 = 0) by (apply (i_ghost _ _ (proj1 G2)); exact D1).
  split; [exact Hg|]. split; [congruence|]. split; [|split; [|split]].
  - rewrite D4. destruct B2 as [J|J]; rewrite B9, S6 in J; try rewrite B3 in J; lia.
  - rewrite (total_live p2), D2, Hg. cbn [length]. lia.
  - rewrite D5. unfold destroying. rewrite B4, S4. reflexivity.
  - intros r x Hg'. unfold get_res in *. rewrite D11, B4, S4. apply nth_error_app1_some; exact Hg'.
Qed.

(* a whole tick of an open pool and what it starts, all dials succeeding: every idle connection past its lifetime
   or idle time is on its way out - also when that takes the pool to or below MinConns -, every other resource and
   every handle is untouched, and the pool has been refilled as far as puddle's count allows *)
Theorem tick_restores : forall p, pgood p -> hc p = None -> pclosed p = false ->
  exists p0 p1 p2, tick_pass p = Some p0 /\ hc p0 = Some (now p, []) /\
    prun (check_min p0) (repeat PSpawnBegin (spawned (check_min p0))) = Some p1 /\
    prun p1 (repeat (PSpawnEnd 0 true) (length (constructing p1))) = Some p2 /\
    pgood p2 /\ hc p2 = None /\ pclosed p2 = false /\ spawned p2 = 0 /\ constructing p2 = [] /\ handles p2 = handles p /\
    Nat.min (c_min (p_cfg p)) (c_max (p_cfg p)) <= total p2 /\
    total p2 = live p2 + destroying p2 /\ destroying p2 = destroying p0 /\
    (forall r x, In r (idle p) -> get_res p r = Some x ->
       if tick_verdict (p_cfg p) (now p) (now p) x then status_of p2 r = Some RDestroying
       else status_of p2 r = Some RIdle) /\
    (forall r x, ~ In r (idle p) -> get_res p r = Some x -> get_res p2 r = Some x).
Proof.
  intros p G Hh Hc.
  destruct (tick_pass_spec p G Hh Hc) as (p0 & E & Hh0 & G0 & N0 & C0 & K0 & F0 & V & U & HH).
  destruct (check_min_restores p0 (now p) G0 Hh0) as (p1 & p2 & E1 & E2 & G2 & R1 & R2 & R3 & R4 & R5 & R6 & R7 & R8 & R9 & R10).
  exists p0, p1, p2. split; [exact E|]. split; [exact Hh0|]. split; [exact E1|]. split; [exact E2|].
  split; [exact G2|]. split; [exact R1|]. split; [exact R2|]. split; [exact R3|]. split; [exact R4|].
  split; [congruence|]. split; [rewrite <- C0; exact R7|]. split; [exact R8|]. split; [exact R9|]. split.
  - intros r x Hin Hg. specialize (V r x Hin Hg).
    assert (Keep : forall s, status_of p0 r = Some s -> status_of p2 r = Some s).
    { intros s Hs. destruct (status_get _ _ _ Hs) as (x0 & Hg0 & Hx0). unfold status_of. rewrite (R10 _ _ Hg0). cbn. congruence. }
    destruct (tick_verdict (p_cfg p) (now p) (now p) x); [apply Keep; exact V | apply Keep; apply V].
  - intros r x Hn Hg. apply R10. rewrite U; auto.
Qed.

(* newPool: what createIdleResources leaves *)
Lemma create_idle_count : forall k dials p p', create_idle k dials p = (p', true) -> pclosed p = false ->
  pclosed p' = false /\ length (idle p') = length (idle p) + k /\ total p' = total p + k /\ live p' = live p + k /\
  handles p' = handles p /\ hc p' = hc p /\ spawned p' = spawned p /\ constructing p' = constructing p.
Proof.
  induction k; intros dials p p' H Hc; cbn in H.
  - inversion H; subst. repeat split; auto.
  - unfold create_resource in H. destruct (create_refused p); [discriminate|].
    destruct (hd true dials); [|discriminate].
    apply IHk in H.
    + unfold add_created in H. rewrite Hc in H. destruct H as (A1 & A2 & A3 & A4 & A5 & A6 & A7 & A8).
      unfold total, live in *.
      cbn [ress idle handles hc pclosed ghosts spawned constructing set_ress set_idle length] in *.
      rewrite !cnt_app in *. cbn [r_status is_idle is_acq is_destr in_pool b2n length] in *. repeat split; auto; lia.
    + unfold add_created. rewrite Hc. exact Hc.
Qed.

Lemma create_idle_shape : forall k dials p p' b, create_idle k dials p = (p', b) ->
  hc p' = hc p /\ handles p' = handles p /\ (pclosed p = false -> pclosed p' = false).
Proof.
  induction k; intros dials p p' b H; cbn in H.
  - inversion H; subst. auto.
  - unfold create_resource in H. destruct (create_refused p); [inversion H; subst; auto|].
    destruct (hd true dials); [|inversion H; subst; auto].
    apply IHk in H. destruct H as (A1 & A2 & A3). unfold add_created in *.
    destruct (pclosed p) eqn:Hc; cbn in *; repeat split; auto. discriminate.
Qed.

Lemma close_idle_handles : forall k q, handles (close_idle k q) = handles q.
Proof.
  induction k; intros q; cbn; auto. destruct (idle q); auto. destruct (get_res q n); auto. rewrite IHk. reflexivity.
Qed.

Theorem pnew_spec : forall c dials,
  if pnew_ok c dials
  then let p := pnew c dials in
       pclosed p = false /\ c_min c <= c_max c /\ total p = c_min c /\ length (idle p) = c_min c /\ live p = c_min c /\
       handles p = [] /\ hc p = None /\ spawned p = 0 /\ constructing p = []
  else pclosed (pnew c dials) = true /\ idle (pnew c dials) = [] /\ handles (pnew c dials) = [] /\ hc (pnew c dials) = None.
Proof.
  intros c dials. unfold pnew_ok.
  pose proof (pnew_good c dials) as G. pose proof (pnew_cfg c dials) as Hcfg. unfold pnew in *.
  pose proof (create_idle_ok (c_min c) dials (pinit c) (pinit_good c)) as Gp.
  destruct (create_idle (c_min c) dials (pinit c)) as [p [|]] eqn:E; cbn [snd fst] in *.
  - destruct (create_idle_count _ _ _ _ E eq_refl) as (A1 & A2 & A3 & A4 & A5 & A6 & A7 & A8).
    pose proof (total_le_max_good p G) as (T1 & _). rewrite Hcfg in T1.
    unfold total, live in *. cbn in *. repeat split; auto; lia.
  - destruct (create_idle_shape _ _ _ _ _ E) as (H1 & H2 & H3). cbn in H1, H2. specialize (H3 eq_refl).
    assert (Hcl : pclosed (ch_close p) = true /\ handles (ch_close p) = []).
    { unfold ch_close. rewrite H3, H1.
      destruct (close_idle_ok (length (idle p)) (set_pclosed p true)) as (_ & _ & _ & Q2); auto.
      { apply L_closed. apply Gp. }
      rewrite Q2, close_idle_handles. auto. }
    destruct Hcl as [Q1 Q2]. destruct (proj2 G Q1) as [Q3 Q4]. auto.
Qed.

(* ---- a closed pool with no creation in flight never dials again ----------------------------------- *)
Lemma pd_acquire_closed : forall p d, pclosed p = true -> pd_acquire p d = AFail p.
Proof. intros p d Hc. unfold pd_acquire. destruct (c_max (p_cfg p) <=? held p); auto. rewrite Hc. reflexivity. Qed.

Definition quiet (p p' : pool) : Prop :=
  pclosed p' = true /\ constructing p' = [] /\ length (ress p') = length (ress p).

Lemma ch_do_shape : forall p h k c p' o, ch_do p h k c = POk p' o ->
  pclosed p' = pclosed p /\ constructing p' = constructing p /\ length (ress p') = length (ress p).
Proof.
  intros p h k c p' o H. unfold ch_do in H.
  destruct (nth_error (handles p) h) as [[r|]|]; try (inversion H; subst; auto; fail).
  destruct (get_res p r) as [x|]; [|discriminate]. destruct (negb (is_acq (r_status x))); [discriminate|].
  destruct (r_cclosed x); inversion H; subst; auto. cbn. rewrite upd_length. auto.
Qed.

Lemma pstep_closed_quiet : forall p o p' ob, pgood p -> pclosed p = true -> constructing p = [] ->
  pstep p o = POk p' ob -> quiet p p'.
Proof.
  intros p o p' ob G Hc Hn H. unfold quiet.
  assert (Hh : hc p = None) by (apply (proj2 G); exact Hc).
  assert (Acq : forall d q o1, ch_acquire p d = POk q o1 ->
            pclosed q = true /\ constructing q = [] /\ length (ress q) = length (ress p) /\ o1 = OErr).
  { intros d q o1 E. unfold ch_acquire in E. rewrite (pd_acquire_closed p d Hc) in E. inversion E; subst. cbn. auto. }
  assert (PD : forall d k c, pool_do p d k c = POk p' ob ->
            pclosed p' = true /\ constructing p' = [] /\ length (ress p') = length (ress p)).
  { intros d k c E. unfold pool_do in E. destruct (ch_acquire p d) as [q o1|] eqn:E1; [|discriminate].
    destruct (Acq _ _ _ E1) as (A1 & A2 & A3 & A4). subst o1. inversion E; subst. auto. }
  destruct o; cbn [pstep] in H.
  - destruct (Acq _ _ _ H) as (A1 & A2 & A3 & _). auto.
  - destruct (release_shape _ _ _ _ H) as (_ & S2 & S3 & _ & _ & S6). repeat split; congruence.
  - destruct (ch_do_shape _ _ _ _ _ _ H) as (S1 & S2 & S3). repeat split; congruence.
  - destruct (ch_do_shape _ _ _ _ _ _ H) as (S1 & S2 & S3). repeat split; congruence.
  - eapply PD; eauto.
  - eapply PD; eauto.
  - inversion H; subst. unfold tick_begin. rewrite Hh, Hc. auto.
  - unfold tick_step in H. rewrite Hh in H. inversion H; subst. auto.
  - inversion H; subst. cbn. auto.
  - inversion H; subst. destruct (finish_shape p r) as (_ & F2 & _ & F4 & _ & F6 & _). repeat split; congruence.
  - inversion H; subst. unfold ch_close. rewrite Hc. auto.
  - inversion H; subst. unfold check_min. rewrite Hh. auto.
  - inversion H; subst. unfold spawn_begin. destruct (spawned p); auto.
    unfold create_refused. rewrite Hc, orb_true_r. cbn. auto.
  - inversion H; subst. unfold spawn_end. rewrite Hn. destruct i; cbn; auto.
Qed.

Theorem closed_pool_dials_no_more : forall ops p p', pgood p -> pclosed p = true -> constructing p = [] ->
  prun p ops = Some p' -> quiet p p'.
Proof.
  induction ops as [|o ops IH]; intros p p' G Hc Hn H; cbn in H.
  - inversion H; subst. unfold quiet. auto.
  - destruct (pstep_good p o G) as (p1 & ob & E & G1). rewrite E in H.
    destruct (pstep_closed_quiet _ _ _ _ G Hc Hn E) as (Q1 & Q2 & Q3).
    destruct (IH _ _ G1 Q1 Q2 H) as (R1 & R2 & R3). unfold quiet. repeat split; congruence.
Qed.

(* the seeded change this guards against (keep expired idle connections while Total <= MinConns): an idle
   connection past its lifetime or idle time is destroyed by the tick also when the pool is at or below MinConns *)
Theorem expired_idle_destroyed_at_floor : forall p r x, pgood p -> hc p = None -> pclosed p = false ->
  total p <= c_min (p_cfg p) -> In r (idle p) -> get_res p r = Some x ->
  expired_life (p_cfg p) (now p) (r_created x) = true \/ expired_idle (p_cfg p) (now p) (r_lastused x) = true ->
  exists p', tick_full p = Some p' /\ status_of p' r = Some RDestroying /\ ~ In r (idle p') /\
    (forall h, handle_of p' h <> Some r) /\ total p' = total p.
Proof.
  intros p r x G Hh Hc _ Hin Hg Hexp.
  destruct (tick_full_spec p G Hh Hc) as (p' & E & Hh' & G' & V & _ & _ & T & _).
  exists p'. split; [exact E|]. specialize (V r x Hin Hg). unfold tick_verdict in V.
  assert (Hb : expired_life (p_cfg p) (now p) (r_created x) || expired_idle (p_cfg p) (now p) (r_lastused x) = true).
  { destruct Hexp as [H|H]; rewrite H; auto using orb_true_r. }
  rewrite Hb in V. split; [exact V|]. split; [|split; [|exact T]].
  - intros Hi. apply (i_idle _ _ (proj1 G')) in Hi. congruence.
  - intros h Hq. apply handle_of_spec in Hq. destruct (i_h_acq _ _ (proj1 G') _ _ Hq) as [Hs _]. congruence.
Qed.
