(* L5 proofs: compressed frames (C05; prefix_rejected_compressed is also cited by C07). *)
From CH Require Import model.Compress proofs.PrimProofs gen.Consts.
From Coq Require Import ZifyN ZifyNat ZifyBool.
Ltac Zify.zify_post_hook ::= Z.div_mod_to_equations.
Open Scope N_scope.

(* ---- layout obligations, by computation over the generated constants -------- *)
Lemma layout_holds : layout_ok = true.
Proof. vm_compute. reflexivity. Qed.

Lemma hRawSize_is : hRawSize = (checksumSize + 1)%nat. Proof. reflexivity. Qed.
Lemma hDataSize_is : hDataSize = (hRawSize + 4)%nat. Proof. reflexivity. Qed.
Lemma hMethod_is : hMethod = checksumSize. Proof. reflexivity. Qed.
Lemma headerSize_is : headerSize = 25%nat. Proof. reflexivity. Qed.
Lemma headerSize_sum : N.of_nat headerSize = N.of_nat checksumSize + compressHeaderSize. Proof. reflexivity. Qed.
Lemma maxDataSize_le : maxDataSize <= 2 ^ 32. Proof. vm_compute. discriminate. Qed.
Lemma maxDataSize_lt : maxDataSize < 2 ^ 32. Proof. vm_compute. reflexivity. Qed.
Lemma maxBlockSize_lt : maxBlockSize + compressHeaderSize < 2 ^ 32. Proof. vm_compute. reflexivity. Qed.
Lemma chs_is : compressHeaderSize = 9. Proof. reflexivity. Qed.
Lemma enc_distinct : encNone <> encLZ4 /\ encNone <> encZSTD /\ encLZ4 <> encZSTD /\ encLZ4HC = encLZ4.
Proof. repeat split; vm_compute; discriminate. Qed.

(* ---- lists ---------------------------------------------------------------- *)
Lemma firstn_app_len {A} (a b : list A) n : length a = n -> firstn n (a ++ b) = a.
Proof. intros <-. rewrite firstn_app, Nat.sub_diag, firstn_all. cbn. apply app_nil_r. Qed.
Lemma skipn_app_len {A} (a b : list A) n : length a = n -> skipn n (a ++ b) = b.
Proof. intros <-. rewrite skipn_app, Nat.sub_diag, skipn_all. reflexivity. Qed.
Lemma blen_app a b : blen (a ++ b) = blen a + blen b.
Proof. unfold blen. rewrite app_length. lia. Qed.
Lemma blen_nil_inv (a : bytes) : blen a = 0 -> a = [].
Proof. destruct a; [reflexivity|]. unfold blen. cbn [length]. lia. Qed.
Lemma skipn_add {A} a b (l : list A) : skipn (a + b) l = skipn b (skipn a l).
Proof.
  revert l; induction a; intros l; [reflexivity|]. destruct l; [cbn; rewrite skipn_nil; reflexivity|].
  cbn [skipn Nat.add]. apply IHa.
Qed.
Lemma repeatN_length {A} (x : A) n : length (repeatN x n) = n.
Proof. induction n; cbn; congruence. Qed.

(* a list of known length becomes an explicit list *)
Ltac explode l :=
  match goal with
  | Hl : length l = O |- _ => destruct l; [clear Hl|discriminate Hl]
  | Hl : length l = S _ |- _ =>
    destruct l as [|? l]; [discriminate Hl|]; cbn [length] in Hl; apply eq_add_S in Hl; explode l
  end.

Lemma le_get_inj a b : wf_bytes a -> wf_bytes b -> length a = length b -> le_get a = le_get b -> a = b.
Proof.
  intros Ha Hb Hl He. rewrite <- (le_put_get a Ha), <- (le_put_get b Hb). congruence.
Qed.

Lemma wf_firstn n (b : bytes) : wf_bytes b -> wf_bytes (firstn n b).
Proof.
  unfold wf_bytes. revert b; induction n; intros b Hb; [constructor|].
  destruct b; [constructor|]. inversion Hb; subst. cbn [firstn]. constructor; auto.
Qed.
Lemma wf_skipn n (b : bytes) : wf_bytes b -> wf_bytes (skipn n b).
Proof.
  unfold wf_bytes. revert b; induction n; intros b Hb; [exact Hb|].
  destruct b; [constructor|]. inversion Hb; subst. cbn [skipn]. auto.
Qed.
Lemma wf_app_inv a b : wf_bytes (a ++ b) -> wf_bytes a /\ wf_bytes b.
Proof. unfold wf_bytes. rewrite Forall_app. tauto. Qed.

Lemma pair_eqb_eq a b : pair_eqb a b = true <-> a = b.
Proof.
  destruct a as [a1 a2], b as [b1 b2]. unfold pair_eqb. cbn [fst snd].
  rewrite andb_true_iff, !N.eqb_eq. split; [intros [-> ->]; reflexivity|intros E; inversion E; auto].
Qed.

(* ---- specification vocabulary ----------------------------------------------- *)
(* the 16 checksum bytes of a hash value *)
Definition ck_bytes (h : N * N) : bytes := le_put 8 (fst h) ++ le_put 8 (snd h).
(* the hash value stored in the first 16 bytes of a frame *)
Definition ck_pair (f : bytes) : N * N := (le_get (firstn 8 f), le_get (firstn 8 (skipn 8 f))).
(* everything the checksum covers *)
Definition mk_body (mb : N) (rs4 ds4 payload : bytes) : bytes := mb :: rs4 ++ ds4 ++ payload.

Lemma ck_bytes_length h : length (ck_bytes h) = 16%nat.
Proof. unfold ck_bytes. rewrite app_length, !le_put_length. reflexivity. Qed.

Lemma ck_pair_bytes a b tail : a < 2 ^ 64 -> b < 2 ^ 64 -> ck_pair (ck_bytes (a, b) ++ tail) = (a, b).
Proof.
  intros Ha Hb. unfold ck_pair, ck_bytes. cbn [fst snd]. rewrite <- app_assoc.
  rewrite (firstn_app_len (le_put 8 a)) by apply le_put_length.
  rewrite (skipn_app_len (le_put 8 a)) by apply le_put_length.
  rewrite (firstn_app_len (le_put 8 b)) by apply le_put_length.
  rewrite !le_get_put_small; [reflexivity| |]; assumption.
Qed.

Lemma ck_pair_inj a b : wf_bytes a -> wf_bytes b -> length a = 16%nat -> length b = 16%nat ->
  ck_pair a = ck_pair b -> a = b.
Proof.
  intros Wa Wb La Lb E. unfold ck_pair in E. inversion E as [[E1 E2]].
  rewrite <- (firstn_skipn 8 a), <- (firstn_skipn 8 b).
  assert (firstn 8 a = firstn 8 b) as ->.
  { apply le_get_inj; auto using wf_firstn. rewrite !firstn_length. lia. }
  f_equal.
  assert (firstn 8 (skipn 8 a) = firstn 8 (skipn 8 b)) as E3.
  { apply le_get_inj; auto using wf_firstn, wf_skipn. rewrite !firstn_length, !skipn_length. lia. }
  rewrite !firstn_all2 in E3 by (rewrite skipn_length; lia). exact E3.
Qed.

Section Codec.
Variable H : bytes -> N * N.
Variable comp : method -> bytes -> option bytes.
Variable decomp : N -> bytes -> N -> option bytes.

Notation h128 := (h128 H).
Notation compress_frame := (compress_frame H comp).
Notation decode_payload := (decode_payload decomp).
Notation read_block := (read_block H decomp).
Notation cr_read := (cr_read H decomp).
Notation run_reads := (run_reads H decomp).

Lemma h128_range b : fst (h128 b) < 2 ^ 64 /\ snd (h128 b) < 2 ^ 64.
Proof. unfold Compress.h128. cbn [fst snd]. split; apply N.mod_upper_bound; discriminate. Qed.

Lemma ck_pair_h128 b tail : ck_pair (ck_bytes (h128 b) ++ tail) = h128 b.
Proof.
  destruct (h128_range b) as [H1 H2]. destruct (h128 b) as [x y] eqn:E. cbn [fst snd] in *.
  apply ck_pair_bytes; assumption.
Qed.

(* the compressed bytes behind a frame: the codec's output, or the payload itself for None *)
Definition codec_out (m : method) (p : bytes) : option bytes :=
  match m with MNone => Some p | _ => comp m p end.

(* ---- shape of a written frame ------------------------------------------------ *)
Lemma compress_frame_shape m p f :
  compress_frame m p = inr f ->
  exists c, codec_out m p = Some c /\ blen c + 9 < 2 ^ 32 /\
    f = ck_bytes (h128 (mk_body (method_enc m) (le_put 4 (blen c + 9)) (le_put 4 (blen p)) c))
        ++ mk_body (method_enc m) (le_put 4 (blen c + 9)) (le_put 4 (blen p)) c.
Proof.
  unfold Compress.compress_frame. fold (codec_out m p).
  destruct (codec_out m p) as [c|]; [|discriminate].
  rewrite chs_is. destruct (2 ^ 32 - 1 <? blen c + 9) eqn:Eo; [discriminate|].
  intros E. injection E as <-. exists c. split; [reflexivity|]. split; [lia|].
  change hMethod with 16%nat. change hRawSize with 17%nat. change hDataSize with 21%nat.
  change headerSize with 25%nat.
  unfold mk_body, ck_bytes.
  generalize (blen c + 9) as rs. generalize (blen p) as ds. generalize (method_enc m) as mb. intros mb ds rs.
  cbn [repeatN app put_at length skipn le_put].
  reflexivity.
Qed.

Lemma frame_length m p f c :
  compress_frame m p = inr f -> codec_out m p = Some c -> blen f = 25 + blen c.
Proof.
  intros Hf Hc. apply compress_frame_shape in Hf. destruct Hf as (c' & Hc' & _ & ->).
  rewrite Hc in Hc'. injection Hc' as <-.
  rewrite blen_app. unfold blen at 1. rewrite ck_bytes_length. unfold mk_body, blen.
  cbn [length]. rewrite !app_length, !le_put_length. lia.
Qed.

(* ---- readBlock on a stream of at least headerSize bytes, header destructured - *)
Definition rb_spec (ck : bytes) (mb : N) (rs4 ds4 tail : bytes) : (cerr + bytes) * bytes * list N :=
  let rawSizeZ := (Z.of_N (le_get rs4) - 9)%Z in
  let dataSize := le_get ds4 in
  if maxDataSize <? dataSize then (inl CEDataSize, tail, [])
  else if ((rawSizeZ <? 0) || (Z.of_N maxBlockSize <? rawSizeZ))%Z then (inl CERawSize, tail, [])
  else
    let rawSize := Z.to_N rawSizeZ in
    let allocs := [dataSize; 25 + rawSize] in
    if blen tail <? rawSize then (inl (CEReadRaw (is_nil tail)), [], allocs)
    else
      let payload := firstn (N.to_nat rawSize) tail in
      let u2 := skipn (N.to_nat rawSize) tail in
      let h := h128 (mk_body mb rs4 ds4 payload) in
      if negb (pair_eqb (ck_pair ck) h) then (inl (CECorrupt h (ck_pair ck) rawSize dataSize), u2, allocs)
      else (decode_payload mb payload rawSize dataSize, u2, allocs).

Lemma read_block_spec ck mb rs4 ds4 tail :
  length ck = 16%nat -> length rs4 = 4%nat -> length ds4 = 4%nat ->
  read_block (ck ++ mb :: rs4 ++ ds4 ++ tail) = rb_spec ck mb rs4 ds4 tail.
Proof.
  intros Lc Lr Ld. explode ck. explode rs4. explode ds4.
  unfold Compress.read_block, rb_spec.
  change hMethod with 16%nat. change hRawSize with 17%nat. change hDataSize with 21%nat.
  change headerSize with 25%nat. rewrite chs_is.
  cbn [app length Nat.ltb Nat.leb firstn skipn nth].
  change (Z.of_N 9) with 9%Z. change (N.of_nat 25) with 25.
  unfold ck_pair, mk_body. cbn [app firstn skipn].
  reflexivity.
Qed.

Lemma read_block_short (u : bytes) : (length u < 25)%nat -> read_block u = (inl (CEHeader (is_nil u)), [], []).
Proof.
  intros Hl. unfold Compress.read_block. change headerSize with 25%nat.
  destruct (Nat.ltb_spec (length u) 25); [reflexivity|lia].
Qed.

(* every stream of at least 25 bytes has the destructured form *)
Lemma split_header (u : bytes) : (25 <= length u)%nat ->
  exists ck mb rs4 ds4 tail, u = ck ++ mb :: rs4 ++ ds4 ++ tail /\
    length ck = 16%nat /\ length rs4 = 4%nat /\ length ds4 = 4%nat.
Proof.
  intros Hl.
  exists (firstn 16 u), (nth 16 u 0), (firstn 4 (skipn 17 u)), (firstn 4 (skipn 21 u)), (skipn 25 u).
  repeat split; try (rewrite firstn_length, ?skipn_length; lia).
  do 25 (destruct u as [|? u]; [cbn in Hl; lia|]). reflexivity.
Qed.

(* ---- reading back a written frame -------------------------------------------- *)
(* the one hypothesis about the codecs *)
Definition codec_rt : Prop :=
  forall m p c, m <> MNone -> comp m p = Some c -> decomp (method_enc m) c (blen p) = Some p.

Lemma le_get_put4 v : v < 2 ^ 32 -> le_get (le_put 4 v) = v.
Proof. intros Hv. apply le_get_put_small. exact Hv. Qed.

Lemma ck_pair_h128' b : ck_pair (ck_bytes (h128 b)) = h128 b.
Proof. rewrite <- (app_nil_r (ck_bytes (h128 b))). apply ck_pair_h128. Qed.

Lemma ck_pair_app ck tail : length ck = 16%nat -> ck_pair (ck ++ tail) = ck_pair ck.
Proof. intros L. explode ck. reflexivity. Qed.

Lemma to_nat_blen (c : bytes) : N.to_nat (blen c) = length c.
Proof. unfold blen. apply Nat2N.id. Qed.

Lemma decode_written m p c :
  codec_rt -> codec_out m p = Some c -> decode_payload (method_enc m) c (blen c) (blen p) = inr p.
Proof.
  intros Hrt Hc. destruct enc_distinct as (E1 & E2 & E3 & E4). unfold Compress.decode_payload.
  destruct m; cbn [method_enc codec_out] in *.
  - injection Hc as <-.
    destruct (N.eqb_spec encNone encLZ4); [contradiction|].
    destruct (N.eqb_spec encNone encZSTD); [contradiction|]. cbn [orb].
    rewrite !N.eqb_refl. reflexivity.
  - pose proof (Hrt MLZ4 p c ltac:(discriminate) Hc) as Hd. cbn [method_enc] in Hd.
    rewrite N.eqb_refl. cbn [orb]. rewrite Hd, N.eqb_refl. reflexivity.
  - pose proof (Hrt (MLZ4HC level) p c ltac:(discriminate) Hc) as Hd. cbn [method_enc] in Hd.
    rewrite E4 in *. rewrite N.eqb_refl. cbn [orb]. rewrite Hd, N.eqb_refl. reflexivity.
  - pose proof (Hrt MZSTD p c ltac:(discriminate) Hc) as Hd. cbn [method_enc] in Hd.
    rewrite (N.eqb_refl encZSTD), orb_true_r. rewrite Hd, N.eqb_refl. reflexivity.
Qed.

(* rb_spec once the size fields are known to be the true sizes and within limits *)
Lemma rb_spec_sized ck mb rs ds payload more :
  rs = blen payload -> rs <= maxBlockSize -> ds <= maxDataSize ->
  rb_spec ck mb (le_put 4 (rs + 9)) (le_put 4 ds) (payload ++ more) =
  let h := h128 (mk_body mb (le_put 4 (rs + 9)) (le_put 4 ds) payload) in
  if negb (pair_eqb (ck_pair ck) h) then (inl (CECorrupt h (ck_pair ck) rs ds), more, [ds; 25 + rs])
  else (decode_payload mb payload rs ds, more, [ds; 25 + rs]).
Proof.
  intros Hrs Hr Hd. pose proof maxDataSize_lt. pose proof maxBlockSize_lt. rewrite chs_is in *.
  unfold rb_spec. rewrite !le_get_put4 by lia.
  replace (Z.of_N (rs + 9) - 9)%Z with (Z.of_N rs) by lia. rewrite N2Z.id.
  destruct (N.ltb_spec maxDataSize ds); [lia|].
  destruct (Z.ltb_spec (Z.of_N rs) 0); [lia|].
  destruct (Z.ltb_spec (Z.of_N maxBlockSize) (Z.of_N rs)); [lia|]. cbn [orb].
  destruct (N.ltb_spec (blen (payload ++ more)) rs); [rewrite blen_app in *; lia|].
  subst rs. rewrite to_nat_blen.
  rewrite firstn_app_len, skipn_app_len by reflexivity. reflexivity.
Qed.

Lemma read_block_written m p f more :
  codec_rt -> compress_frame m p = inr f -> blen p <= maxDataSize -> blen f <= 25 + maxBlockSize ->
  read_block (f ++ more) = (inr p, more, [blen p; blen f]).
Proof.
  intros Hrt Hf Hp Hfl. destruct (compress_frame_shape _ _ _ Hf) as (c & Hc & Ho & Ef).
  pose proof (frame_length _ _ _ _ Hf Hc) as Hlen. rewrite Hlen in *. rewrite Ef.
  unfold mk_body. rewrite <- app_assoc. cbn [app]. rewrite <- !app_assoc.
  rewrite read_block_spec by (first [apply ck_bytes_length | apply le_put_length]).
  rewrite rb_spec_sized by (reflexivity || lia). cbv zeta.
  rewrite ck_pair_h128'. unfold mk_body.
  replace (pair_eqb _ _) with true by (symmetry; apply pair_eqb_eq; reflexivity).
  cbn [negb]. rewrite (decode_written _ _ _ Hrt Hc). reflexivity.
Qed.

(* ---- frames_roundtrip ---------------------------------------------------------- *)
Definition pending (s : crd) : bytes := skipn (N.to_nat (cr_pos s)) (cr_data s).

(* a written frame within the reader's limits *)
Definition frame_ok (mp : method * bytes) (f : bytes) : Prop :=
  compress_frame (fst mp) (snd mp) = inr f /\ blen (snd mp) <= maxDataSize /\ blen f <= 25 + maxBlockSize.

Definition payloads (specs : list (method * bytes)) : bytes := concat (map snd specs).

Fixpoint n_ok (rs : list rres) : nat :=
  match rs with [] => O | ROk _ :: rs' => S (n_ok rs') | RErr _ :: rs' => n_ok rs' end.
Definition has_err (rs : list rres) : Prop := exists e, In (RErr e) rs.
Definition only_eof (rs : list rres) : Prop := forall e, In (RErr e) rs -> e = CEHeader true.

Definition mu (s : crd) (specs : list (method * bytes)) : nat :=
  (length (pending s) + length (payloads specs) + length specs)%nat.

Lemma cr_read_buffered n s :
  (blen (cr_data s) <=? cr_pos s) = false ->
  let k := N.min n (blen (pending s)) in
  cr_read n s = (ROk (firstn (N.to_nat k) (pending s)),
                 {| cr_data := cr_data s ; cr_pos := cr_pos s + k ; cr_under := cr_under s ; cr_peak := cr_peak s |})
  /\ pending {| cr_data := cr_data s ; cr_pos := cr_pos s + k ; cr_under := cr_under s ; cr_peak := cr_peak s |}
     = skipn (N.to_nat k) (pending s)
  /\ (0 < length (pending s))%nat.
Proof.
  intros Hb. cbv zeta. unfold Compress.cr_read. rewrite Hb. fold (pending s). split; [reflexivity|].
  unfold pending. cbn [cr_pos cr_data]. split.
  - rewrite N2Nat.inj_add. apply skipn_add.
  - apply N.leb_gt in Hb. rewrite skipn_length. unfold blen in Hb. lia.
Qed.

Lemma cr_read_refill_pending (n : N) s : (blen (cr_data s) <=? cr_pos s) = true -> pending s = [].
Proof.
  intros Hb. apply N.leb_le in Hb. unfold pending. apply skipn_all2. unfold blen in Hb. lia.
Qed.

Lemma firstn_skipn_len {A} k (l : list A) : (length (firstn k l) + length (skipn k l) = length l)%nat.
Proof. rewrite <- app_length, firstn_skipn. reflexivity. Qed.

Lemma rt_step n s specs fs :
  codec_rt -> Forall2 frame_ok specs fs -> cr_under s = concat fs -> 1 <= n ->
  exists r s', cr_read n s = (r, s') /\
  exists specs' fs', Forall2 frame_ok specs' fs' /\ cr_under s' = concat fs' /\
    ((r = RErr (CEHeader true) /\ mu s specs = O /\ mu s' specs' = O) \/
     (exists out, r = ROk out /\ out ++ pending s' ++ payloads specs' = pending s ++ payloads specs /\
                  (mu s' specs' < mu s specs)%nat)).
Proof.
  intros Hrt Hfs Hu Hn.
  destruct (blen (cr_data s) <=? cr_pos s) eqn:Hb.
  - (* refill *)
    pose proof (cr_read_refill_pending n s Hb) as Hp.
    unfold Compress.cr_read. rewrite Hb, Hu.
    destruct Hfs as [|[m p] f specs0 fs0 Hf Hfs0].
    + cbn [concat]. rewrite read_block_short by (cbn; lia). cbn [is_nil].
      eexists _, _. split; [reflexivity|]. exists [], []. split; [constructor|]. split; [reflexivity|].
      left. unfold mu. rewrite Hp. cbn. auto.
    + destruct Hf as (Hf & Hpl & Hfl). cbn [fst snd] in *. cbn [concat].
      rewrite (read_block_written m p f (concat fs0) Hrt Hf Hpl Hfl).
      eexists _, _. split; [reflexivity|]. exists specs0, fs0. split; [exact Hfs0|]. split; [reflexivity|].
      right. eexists. split; [reflexivity|]. unfold mu. rewrite Hp.
      unfold pending, payloads. cbn [cr_pos cr_data map concat snd app length]. split.
      * rewrite app_assoc, firstn_skipn. reflexivity.
      * rewrite app_length. pose proof (firstn_skipn_len (N.to_nat (N.min n (blen p))) p). lia.
  - destruct (cr_read_buffered n s Hb) as (Hr & Hp & Hpos). cbv zeta in *.
    eexists _, _. split; [exact Hr|]. exists specs, fs. split; [exact Hfs|]. split; [exact Hu|].
    right. eexists. split; [reflexivity|]. unfold mu. rewrite Hp. split.
    + rewrite app_assoc, firstn_skipn. reflexivity.
    + pose proof (firstn_skipn_len (N.to_nat (N.min n (blen (pending s)))) (pending s)) as Hl.
      rewrite firstn_length in Hl. unfold blen in *. lia.
Qed.

Lemma run_reads_length ns : forall s, length (fst (run_reads ns s)) = length ns.
Proof.
  induction ns as [|n ns IH]; intros s; [reflexivity|]. cbn [Compress.run_reads].
  destruct (cr_read n s) as [r s1]. specialize (IH s1). destruct (run_reads ns s1) as [rs s2].
  cbn [fst length] in *. congruence.
Qed.

Lemma rt_run :
  codec_rt -> forall sizes s specs fs,
  Forall2 frame_ok specs fs -> cr_under s = concat fs -> Forall (fun n => 1 <= n) sizes ->
  exists outs s', run_reads sizes s = (outs, s') /\
  exists specs' fs', Forall2 frame_ok specs' fs' /\ cr_under s' = concat fs' /\
    data_of outs ++ pending s' ++ payloads specs' = pending s ++ payloads specs /\
    only_eof outs /\ (mu s' specs' + n_ok outs <= mu s specs)%nat /\ (has_err outs -> mu s' specs' = O).
Proof.
  intros Hrt sizes. induction sizes as [|n sizes IH]; intros s specs fs Hfs Hu Hsz.
  - exists [], s. split; [reflexivity|]. exists specs, fs. repeat split; auto.
    + intros e [].
    + cbn. lia.
    + intros [e []].
  - inversion Hsz as [|? ? Hn Hsz']; subst.
    destruct (rt_step n s specs fs Hrt Hfs Hu Hn) as (r & s1 & Hr & specs1 & fs1 & Hfs1 & Hu1 & Hcase).
    destruct (IH s1 specs1 fs1 Hfs1 Hu1 Hsz') as (outs & s2 & Hrun & specs2 & fs2 & Hfs2 & Hu2 & Hcons & Heof & Hmu & Herr).
    cbn [Compress.run_reads]. rewrite Hr, Hrun. eexists _, _. split; [reflexivity|].
    exists specs2, fs2. split; [exact Hfs2|]. split; [exact Hu2|].
    destruct Hcase as [(-> & Hm0 & Hm1)|(out & -> & Hout & Hlt)].
    + (* end of stream *)
      assert (Hz : mu s2 specs2 = O) by lia.
      unfold mu in Hm0, Hm1, Hz.
      assert (pending s = [] /\ payloads specs = []) as [-> ->] by (split; apply length_zero_iff_nil; lia).
      assert (pending s1 = [] /\ payloads specs1 = []) as [E1 E2] by (split; apply length_zero_iff_nil; lia).
      rewrite E1, E2 in Hcons. cbn [data_of n_ok]. split; [exact Hcons|]. split.
      * intros e [He|He]; [congruence|]. apply Heof, He.
      * unfold mu in *. cbn [length] in *. split; [lia|]. intros _. lia.
    + cbn [data_of n_ok]. split.
      * rewrite <- Hout, <- Hcons, <- !app_assoc. reflexivity.
      * split; [intros e [He|He]; [discriminate|apply Heof, He]|].
        split; [lia|]. intros [e [He|He]]; [discriminate|]. apply Herr. exists e. exact He.
Qed.

Lemma n_ok_has_err rs : (n_ok rs < length rs)%nat -> has_err rs.
Proof.
  induction rs as [|[b|e] rs IH]; cbn [n_ok length]; intros Hl; [lia| |].
  - destruct IH as [e He]; [lia|]. exists e. right. exact He.
  - exists e. left. reflexivity.
Qed.

(* For every list of written frames within the limits (each with its own method and level) and
   every sequence of reads of size >= 1: no error other than the clean end of stream; what was
   handed out is always a prefix of the concatenated payloads (so it does not depend on the read
   sizes); the end of stream is reported only after all of it was handed out; and
   |payloads| + |frames| + 1 reads always get there. *)
Theorem frames_roundtrip_thm :
  codec_rt -> forall specs fs sizes,
  Forall2 frame_ok specs fs -> Forall (fun n => 1 <= n) sizes ->
  let outs := fst (run_reads sizes (cr_init (concat fs))) in
  only_eof outs /\
  (exists rest, data_of outs ++ rest = payloads specs) /\
  (has_err outs -> data_of outs = payloads specs) /\
  ((length (payloads specs) + length specs < length sizes)%nat ->
   has_err outs /\ data_of outs = payloads specs).
Proof.
  intros Hrt specs fs sizes Hfs Hsz.
  destruct (rt_run Hrt sizes (cr_init (concat fs)) specs fs Hfs eq_refl Hsz)
    as (outs & s' & Hrun & specs' & fs' & Hfs' & Hu' & Hcons & Heof & Hmu & Herr).
  pose proof (run_reads_length sizes (cr_init (concat fs))) as Hlen.
  rewrite Hrun in *. cbn [fst] in *.
  change (pending (cr_init (concat fs))) with (@nil N) in Hcons. cbn [app] in Hcons.
  assert (Hall : has_err outs -> data_of outs = payloads specs).
  { intros He. specialize (Herr He). unfold mu in Herr.
    assert (pending s' = [] /\ payloads specs' = []) as [E1 E2] by (split; apply length_zero_iff_nil; lia).
    rewrite E1, E2, app_nil_r in Hcons. exact Hcons. }
  split; [exact Heof|]. split; [eexists; exact Hcons|]. split; [exact Hall|].
  intros Hlong. assert (He : has_err outs).
  { apply n_ok_has_err. unfold mu in Hmu. change (pending (cr_init (concat fs))) with (@nil N) in Hmu.
    cbn [length] in Hmu. lia. }
  split; [exact He|exact (Hall He)].
Qed.

(* ---- what readBlock consumes, and what it accepts ------------------------------ *)
(* a frame that verifies: the checksum field is the hash of everything after it, the size fields
   are the true sizes and within the limits, and the codec named by the method byte yields p *)
Definition verified_frame (fb p : bytes) : Prop :=
  exists ck mb rs4 ds4 payload,
    fb = ck ++ mk_body mb rs4 ds4 payload /\
    length ck = 16%nat /\ length rs4 = 4%nat /\ length ds4 = 4%nat /\
    le_get rs4 = blen payload + 9 /\ blen payload <= maxBlockSize /\ le_get ds4 <= maxDataSize /\
    ck_pair ck = h128 (mk_body mb rs4 ds4 payload) /\
    decode_payload mb payload (blen payload) (le_get ds4) = inr p.

(* what decode_payload = inr means *)
Lemma decode_payload_inr mb payload rs ds p :
  decode_payload mb payload rs ds = inr p <->
  ((mb = encLZ4 \/ mb = encZSTD) /\ decomp mb payload ds = Some p /\ blen p = ds) \/
  (mb = encNone /\ rs = ds /\ p = payload).
Proof.
  destruct enc_distinct as (E1 & E2 & E3 & E4). unfold Compress.decode_payload.
  destruct (N.eqb_spec mb encLZ4) as [->|N1]; cbn [orb].
  - destruct (decomp encLZ4 payload ds) as [out|]; [|split; [discriminate|intros [(_ & D & _)|(D & _)]; congruence]].
    destruct (N.eqb_spec (blen out) ds).
    + split; [intros E; injection E as <-; left; auto|intros [(_ & D & _)|(D & _)]; congruence].
    + split; [discriminate|intros [(_ & D & L)|(D & _)]; [injection D as ->; contradiction|congruence]].
  - destruct (N.eqb_spec mb encZSTD) as [->|N2].
    + destruct (decomp encZSTD payload ds) as [out|]; [|split; [discriminate|intros [(_ & D & _)|(D & _)]; congruence]].
      destruct (N.eqb_spec (blen out) ds).
      * split; [intros E; injection E as <-; left; auto|intros [(_ & D & _)|(D & _)]; congruence].
      * split; [discriminate|intros [(_ & D & L)|(D & _)]; [injection D as ->; contradiction|congruence]].
    + destruct (N.eqb_spec mb encNone) as [->|N3].
      * destruct (N.eqb_spec rs ds).
        -- split; [intros E; injection E as <-; right; auto|intros [([D|D] & _)|(_ & _ & ->)]; congruence].
        -- split; [discriminate|intros [([D|D] & _)|(_ & D & _)]; congruence].
      * split; [discriminate|intros [([D|D] & _)|(D & _)]; congruence].
Qed.

Lemma read_block_consumes u r u' al :
  read_block u = (r, u', al) ->
  exists c, u = c ++ u' /\ match r with inr d => verified_frame c d | inl _ => True end.
Proof.
  intros Hr. destruct (Nat.lt_ge_cases (length u) 25) as [Hs|Hl].
  - rewrite read_block_short in Hr by exact Hs. inversion Hr; subst. exists u. rewrite app_nil_r. auto.
  - destruct (split_header u Hl) as (ck & mb & rs4 & ds4 & tail & -> & Lc & Lr & Ld).
    rewrite read_block_spec in Hr by assumption. unfold rb_spec in Hr.
    set (hdr := ck ++ mb :: rs4 ++ ds4).
    assert (Eh : forall t, ck ++ mb :: rs4 ++ ds4 ++ t = hdr ++ t).
    { intros t. unfold hdr. rewrite <- app_assoc. cbn [app]. rewrite <- !app_assoc. reflexivity. }
    destruct (maxDataSize <? le_get ds4) eqn:C1.
    { inversion Hr; subst. exists hdr. rewrite Eh. auto. }
    destruct ((Z.of_N (le_get rs4) - 9 <? 0)%Z || (Z.of_N maxBlockSize <? Z.of_N (le_get rs4) - 9)%Z) eqn:C2.
    { inversion Hr; subst. exists hdr. rewrite Eh. auto. }
    apply orb_false_iff in C2. destruct C2 as [C2 C3].
    apply Z.ltb_ge in C2, C3. apply N.ltb_ge in C1.
    set (rs := Z.to_N (Z.of_N (le_get rs4) - 9)) in *.
    destruct (blen tail <? rs) eqn:C4.
    { inversion Hr; subst. eexists. rewrite app_nil_r. auto. }
    apply N.ltb_ge in C4.
    set (payload := firstn (N.to_nat rs) tail) in *.
    assert (Et : tail = payload ++ skipn (N.to_nat rs) tail) by (symmetry; apply firstn_skipn).
    assert (Lp : blen payload = rs).
    { unfold payload, blen. rewrite firstn_length. unfold blen in C4. lia. }
    destruct (negb (pair_eqb (ck_pair ck) (h128 (mk_body mb rs4 ds4 payload)))) eqn:C5.
    { inversion Hr; subst. exists (hdr ++ payload). rewrite Eh, <- app_assoc, <- Et. auto. }
    apply negb_false_iff, pair_eqb_eq in C5.
    inversion Hr; subst. exists (hdr ++ payload). rewrite Eh, <- app_assoc, <- Et. split; [reflexivity|].
    destruct (decode_payload mb payload rs (le_get ds4)) as [e|d] eqn:Ed; [exact I|].
    exists ck, mb, rs4, ds4, payload. rewrite Lp.
    repeat split; auto; try lia.
    unfold hdr, mk_body. rewrite <- app_assoc. cbn [app]. rewrite <- !app_assoc. reflexivity.
Qed.

(* ---- reader_history_inv -------------------------------------------------------- *)
(* ps are the payloads of verified frames lying one after another (possibly with rejected
   stretches between them) in a stream *)
Inductive frames_in : bytes -> list bytes -> Prop :=
| fi_nil : frames_in [] []
| fi_junk j u ps : frames_in u ps -> frames_in (j ++ u) ps
| fi_frame fb p u ps : verified_frame fb p -> frames_in u ps -> frames_in (fb ++ u) (p :: ps).

Lemma frames_in_app a ps b qs : frames_in a ps -> frames_in b qs -> frames_in (a ++ b) (ps ++ qs).
Proof.
  induction 1; intros Hb; cbn [app]; auto.
  - rewrite <- app_assoc. apply fi_junk. auto.
  - rewrite <- app_assoc. apply fi_frame; auto.
Qed.
Lemma frames_in_junk j : frames_in j [].
Proof. rewrite <- (app_nil_r j). apply fi_junk, fi_nil. Qed.
Lemma frames_in_one fb p : verified_frame fb p -> frames_in fb [p].
Proof. intros Hv. rewrite <- (app_nil_r fb). apply fi_frame; [exact Hv|apply fi_nil]. Qed.

Definition out_bytes (r : rres) : bytes := match r with ROk b => b | RErr _ => [] end.

Lemma hist_step u0 s consumed ps returned n :
  u0 = consumed ++ cr_under s -> frames_in consumed ps -> returned ++ pending s = concat ps ->
  exists r s', cr_read n s = (r, s') /\
  exists consumed' ps', u0 = consumed' ++ cr_under s' /\ frames_in consumed' ps' /\
    (returned ++ out_bytes r) ++ pending s' = concat ps' /\
    (forall e, r = RErr e -> cr_data s' = [] /\ pending s' = []).
Proof.
  intros Hu Hf Hret.
  destruct (blen (cr_data s) <=? cr_pos s) eqn:Hb.
  - pose proof (cr_read_refill_pending n s Hb) as Hp. rewrite Hp, app_nil_r in Hret.
    unfold Compress.cr_read. rewrite Hb.
    destruct (read_block (cr_under s)) as [[r u'] al] eqn:Hr.
    destruct (read_block_consumes _ _ _ _ Hr) as (c & Ec & Hv).
    destruct r as [e|d].
    + eexists _, _. split; [reflexivity|]. exists (consumed ++ c), ps. cbn [cr_under cr_data out_bytes].
      split; [rewrite Hu, Ec, app_assoc; reflexivity|]. split.
      * rewrite <- (app_nil_r ps). apply frames_in_app; [exact Hf|apply frames_in_junk].
      * split; [|intros _ _; split; reflexivity]. unfold pending. cbn [cr_pos cr_data]. cbn. rewrite !app_nil_r. exact Hret.
    + eexists _, _. split; [reflexivity|]. exists (consumed ++ c), (ps ++ [d]). cbn [cr_under out_bytes].
      split; [rewrite Hu, Ec, app_assoc; reflexivity|]. split.
      * apply frames_in_app; [exact Hf|apply frames_in_one, Hv].
      * split; [|intros e He; discriminate]. unfold pending. cbn [cr_pos cr_data].
        rewrite <- app_assoc, firstn_skipn, concat_app. cbn [concat]. rewrite app_nil_r, Hret. reflexivity.
  - destruct (cr_read_buffered n s Hb) as (Hr & Hp & _). cbv zeta in *.
    eexists _, _. split; [exact Hr|]. exists consumed, ps. cbn [cr_under out_bytes].
    split; [exact Hu|]. split; [exact Hf|]. split; [|intros e He; discriminate].
    rewrite Hp, <- app_assoc, firstn_skipn. exact Hret.
Qed.

(* For EVERY stream u (any bytes at all) and EVERY sequence of reads of any sizes, reads after any
   number of failures included: the bytes handed out so far, followed by what is still buffered,
   are exactly the payloads of verified frames found one after another in the part of u consumed
   so far - so every byte handed out belongs to a verified frame and is handed out once, in order. *)
Theorem reader_history_inv_thm : forall u sizes,
  let '(outs, s') := run_reads sizes (cr_init u) in
  exists consumed ps, u = consumed ++ cr_under s' /\ frames_in consumed ps /\
    data_of outs ++ pending s' = concat ps.
Proof.
  intros u sizes.
  assert (G : forall sizes s consumed ps returned,
    u = consumed ++ cr_under s -> frames_in consumed ps -> returned ++ pending s = concat ps ->
    let '(outs, s') := run_reads sizes s in
    exists consumed' ps', u = consumed' ++ cr_under s' /\ frames_in consumed' ps' /\
      (returned ++ data_of outs) ++ pending s' = concat ps').
  { clear sizes. induction sizes as [|n sizes IH]; intros s consumed ps returned Hu Hf Hret.
    - cbn [Compress.run_reads data_of]. exists consumed, ps. rewrite app_nil_r. auto.
    - destruct (hist_step u s consumed ps returned n Hu Hf Hret)
        as (r & s1 & Hr & consumed1 & ps1 & Hu1 & Hf1 & Hret1 & _).
      cbn [Compress.run_reads]. rewrite Hr.
      specialize (IH s1 consumed1 ps1 (returned ++ out_bytes r) Hu1 Hf1 Hret1).
      destruct (run_reads sizes s1) as [outs s2].
      destruct IH as (consumed2 & ps2 & Hu2 & Hf2 & Hret2). exists consumed2, ps2.
      split; [exact Hu2|]. split; [exact Hf2|].
      rewrite <- Hret2. destruct r; cbn [data_of out_bytes]; rewrite <- ?app_assoc, ?app_nil_r; reflexivity. }
  specialize (G sizes (cr_init u) [] [] [] eq_refl fi_nil eq_refl).
  destruct (run_reads sizes (cr_init u)) as [outs s']. exact G.
Qed.

(* a failed read leaves nothing buffered: the next read starts at the underlying stream *)
Lemma failed_read_drops_buffer_thm n s e s' :
  cr_read n s = (RErr e, s') -> cr_data s' = [] /\ cr_pos s' = 0 /\ pending s' = [].
Proof.
  unfold Compress.cr_read. destruct (blen (cr_data s) <=? cr_pos s); [|discriminate].
  destruct (read_block (cr_under s)) as [[[e1|d] u'] al]; [|discriminate].
  intros E. inversion E; subst. cbn. auto.
Qed.

(* ---- limits_before_alloc -------------------------------------------------------- *)
Lemma read_block_allocs u r u' al :
  read_block u = (r, u', al) ->
  al = [] \/ exists ds rs, al = [ds; 25 + rs] /\ ds <= maxDataSize /\ rs <= maxBlockSize.
Proof.
  intros Hr. destruct (Nat.lt_ge_cases (length u) 25) as [Hs|Hl].
  - rewrite read_block_short in Hr by exact Hs. inversion Hr; auto.
  - destruct (split_header u Hl) as (ck & mb & rs4 & ds4 & tail & -> & Lc & Lr & Ld).
    rewrite read_block_spec in Hr by assumption. unfold rb_spec in Hr.
    destruct (maxDataSize <? le_get ds4) eqn:C1; [inversion Hr; auto|].
    destruct ((Z.of_N (le_get rs4) - 9 <? 0)%Z || (Z.of_N maxBlockSize <? Z.of_N (le_get rs4) - 9)%Z) eqn:C2;
      [inversion Hr; auto|].
    apply orb_false_iff in C2. destruct C2 as [C2 C3]. apply Z.ltb_ge in C2, C3. apply N.ltb_ge in C1.
    right. exists (le_get ds4), (Z.to_N (Z.of_N (le_get rs4) - 9)).
    split; [|split; [exact C1|lia]].
    destruct (blen tail <? _); [inversion Hr; reflexivity|].
    destruct (negb _); inversion Hr; reflexivity.
Qed.

Definition alloc_bound : N := N.max maxDataSize (25 + maxBlockSize).

Lemma max_list_le l a b : a <= b -> Forall (fun x => x <= b) l -> max_list l a <= b.
Proof.
  unfold max_list. revert a. induction l as [|x l IH]; intros a Ha Hl; [exact Ha|].
  inversion Hl; subst. cbn [fold_left]. apply IH; [lia|assumption].
Qed.

Lemma cr_read_peak n s : cr_peak s <= alloc_bound -> cr_peak (snd (cr_read n s)) <= alloc_bound.
Proof.
  intros Hp. unfold Compress.cr_read. destruct (blen (cr_data s) <=? cr_pos s); [|exact Hp].
  destruct (read_block (cr_under s)) as [[r u'] al] eqn:Hr.
  assert (Hal : Forall (fun x => x <= alloc_bound) al).
  { destruct (read_block_allocs _ _ _ _ Hr) as [->|(ds & rs & -> & Hd & Hrs)]; [constructor|].
    unfold alloc_bound. repeat constructor; lia. }
  destruct r; cbn [snd cr_peak]; apply max_list_le; assumption.
Qed.

(* a size field above its cap is answered with the limit error before anything is allocated,
   and over any history of reads of any stream no allocation request exceeds the caps *)
Theorem limits_before_alloc_thm :
  (forall u : bytes, (headerSize <= length u)%nat ->
     maxDataSize < le_get (firstn 4 (skipn hDataSize u)) ->
     read_block u = (inl CEDataSize, skipn headerSize u, [])) /\
  (forall u : bytes, (headerSize <= length u)%nat ->
     le_get (firstn 4 (skipn hDataSize u)) <= maxDataSize ->
     le_get (firstn 4 (skipn hRawSize u)) < compressHeaderSize \/
     maxBlockSize + compressHeaderSize < le_get (firstn 4 (skipn hRawSize u)) ->
     read_block u = (inl CERawSize, skipn headerSize u, [])) /\
  (forall u r u' al, read_block u = (r, u', al) ->
     al = [] \/ exists ds rs, al = [ds; N.of_nat headerSize + rs] /\ ds <= maxDataSize /\ rs <= maxBlockSize) /\
  (forall u sizes, cr_peak (snd (run_reads sizes (cr_init u))) <= N.max maxDataSize (N.of_nat headerSize + maxBlockSize)).
Proof.
  change headerSize with 25%nat. change hDataSize with 21%nat. change hRawSize with 17%nat.
  rewrite chs_is. change (N.of_nat 25) with 25.
  split; [|split; [|split]].
  - intros u Hl Hd. destruct (split_header u Hl) as (ck & mb & rs4 & ds4 & tail & -> & Lc & Lr & Ld).
    rewrite read_block_spec by assumption. unfold rb_spec.
    explode ck. explode rs4. explode ds4. cbn [app skipn firstn] in *.
    apply N.ltb_lt in Hd. rewrite Hd. reflexivity.
  - intros u Hl Hd Hrs. destruct (split_header u Hl) as (ck & mb & rs4 & ds4 & tail & -> & Lc & Lr & Ld).
    rewrite read_block_spec by assumption. unfold rb_spec.
    explode ck. explode rs4. explode ds4. cbn [app skipn firstn] in *.
    apply N.ltb_ge in Hd. rewrite Hd.
    match goal with |- context [(?a <? 0)%Z || (?b <? ?c)%Z] =>
      replace ((a <? 0)%Z || (b <? c)%Z) with true; [reflexivity|] end.
    symmetry. apply orb_true_iff. destruct Hrs; [left|right]; apply Z.ltb_lt; lia.
  - exact read_block_allocs.
  - intros u sizes. fold alloc_bound.
    assert (G : forall sizes s, cr_peak s <= alloc_bound -> cr_peak (snd (run_reads sizes s)) <= alloc_bound).
    { clear u sizes. induction sizes as [|n sizes IH]; intros s Hs; [exact Hs|].
      cbn [Compress.run_reads]. pose proof (cr_read_peak n s Hs) as H1.
      destruct (cr_read n s) as [r s1]. cbn [snd] in H1. specialize (IH s1 H1).
      destruct (run_reads sizes s1). exact IH. }
    apply G. cbn. unfold alloc_bound. lia.
Qed.

(* ---- altered frames -------------------------------------------------------------- *)
Lemma app_eq_len {A} (a a' b b' : list A) : length a = length a' -> a ++ b = a' ++ b' -> a = a' /\ b = b'.
Proof.
  revert a'; induction a as [|x a IH]; destruct a' as [|y a']; cbn [length app]; intros L E; try discriminate; auto.
  injection E as -> E. destruct (IH a' ltac:(lia) E). subst; auto.
Qed.

(* a second input with the CityHash128 of [body] *)
Definition collision (body : bytes) : Prop := exists b, b <> body /\ h128 b = h128 body.

Lemma altered_cases (f f' ck body : bytes) :
  f = ck ++ body -> length ck = 16%nat -> length f' = length f -> f' <> f ->
  firstn 16 f' = firstn 16 f \/ skipn 16 f' = skipn 16 f ->
  (exists body', f' = ck ++ body' /\ body' <> body /\ length body' = length body) \/
  (exists ck', f' = ck' ++ body /\ ck' <> ck /\ length ck' = 16%nat).
Proof.
  intros -> Lc Ll Hne [Hc|Hc].
  - left. exists (skipn 16 f'). rewrite firstn_app_len in Hc by exact Lc.
    assert (f' = ck ++ skipn 16 f') as E by (rewrite <- Hc; symmetry; apply firstn_skipn).
    split; [exact E|]. split.
    + intros Eb. apply Hne. rewrite E, Eb. reflexivity.
    + rewrite skipn_length, Ll, app_length. lia.
  - right. exists (firstn 16 f'). rewrite skipn_app_len in Hc by exact Lc.
    assert (f' = firstn 16 f' ++ body) as E by (rewrite <- Hc; symmetry; apply firstn_skipn).
    split; [exact E|]. split.
    + intros Eb. apply Hne. rewrite E, Eb. reflexivity.
    + rewrite firstn_length, Ll, app_length. lia.
Qed.

Lemma split_body (body' : bytes) n : length body' = (9 + n)%nat ->
  exists mb' rs4' ds4' c', body' = mk_body mb' rs4' ds4' c' /\
    length rs4' = 4%nat /\ length ds4' = 4%nat /\ length c' = n.
Proof.
  intros L. do 9 (destruct body' as [|? body']; [cbn in L; lia|]).
  exists n0, [n1; n2; n3; n4], [n5; n6; n7; n8], body'. cbn in L. repeat split; auto. lia.
Qed.

Lemma mk_body_length mb rs4 ds4 c : length rs4 = 4%nat -> length ds4 = 4%nat ->
  length (mk_body mb rs4 ds4 c) = (9 + length c)%nat.
Proof. intros L1 L2. unfold mk_body. cbn [length]. rewrite !app_length. lia. Qed.

Lemma mk_body_inj mb rs4 ds4 c mb' rs4' ds4' c' :
  length rs4 = length rs4' -> length ds4 = length ds4' ->
  mk_body mb rs4 ds4 c = mk_body mb' rs4' ds4' c' -> mb = mb' /\ rs4 = rs4' /\ ds4 = ds4' /\ c = c'.
Proof.
  intros L1 L2 E. unfold mk_body in E. injection E as Em E.
  destruct (app_eq_len _ _ _ _ L1 E) as [E1 Eb2].
  destruct (app_eq_len _ _ _ _ L2 Eb2) as [E2 E3]. auto.
Qed.

Lemma frame_app_assoc ck mb rs4 ds4 c more :
  (ck ++ mk_body mb rs4 ds4 c) ++ more = ck ++ mb :: rs4 ++ ds4 ++ (c ++ more).
Proof. unfold mk_body. rewrite <- app_assoc. cbn [app]. rewrite <- !app_assoc. reflexivity. Qed.

Lemma rb_spec_accept ck mb rs4 ds4 tail d u' al :
  rb_spec ck mb rs4 ds4 tail = (inr d, u', al) ->
  exists rs, le_get rs4 = rs + 9 /\ rs <= blen tail /\
    ck_pair ck = h128 (mk_body mb rs4 ds4 (firstn (N.to_nat rs) tail)).
Proof.
  unfold rb_spec.
  destruct (maxDataSize <? le_get ds4); [discriminate|].
  destruct ((Z.of_N (le_get rs4) - 9 <? 0)%Z || (Z.of_N maxBlockSize <? Z.of_N (le_get rs4) - 9)%Z) eqn:C2; [discriminate|].
  apply orb_false_iff in C2. destruct C2 as [C2 C3]. apply Z.ltb_ge in C2, C3.
  destruct (blen tail <? _) eqn:C4; [discriminate|]. apply N.ltb_ge in C4.
  destruct (negb _) eqn:C5; [discriminate|]. apply negb_false_iff, pair_eqb_eq in C5.
  intros _. exists (Z.to_N (Z.of_N (le_get rs4) - 9)). repeat split; [lia|exact C4|exact C5].
Qed.

Lemma wf_ck_bytes h : wf_bytes (ck_bytes h).
Proof. unfold ck_bytes. apply wf_app; apply le_put_wf. Qed.

(* A written frame in which either the checksum field or the part it covers was altered (one
   byte or many, same length) is accepted by readBlock only if CityHash128 collides on the
   original body. *)
Theorem altered_frame_rejected_thm : forall m p f f' more d u' al,
  compress_frame m p = inr f -> wf_bytes f' -> length f' = length f -> f' <> f ->
  firstn 16 f' = firstn 16 f \/ skipn 16 f' = skipn 16 f ->
  read_block (f' ++ more) = (inr d, u', al) ->
  collision (skipn 16 f).
Proof.
  intros m p f f' more d u' al Hf Wf Ll Hne Hconf Hacc.
  destruct (compress_frame_shape _ _ _ Hf) as (c & Hc & Ho & Ef).
  set (rs4 := le_put 4 (blen c + 9)) in *. set (ds4 := le_put 4 (blen p)) in *.
  set (mb := method_enc m) in *. set (body := mk_body mb rs4 ds4 c) in *.
  assert (Lr : length rs4 = 4%nat) by apply le_put_length.
  assert (Ld : length ds4 = 4%nat) by apply le_put_length.
  assert (Lck : length (ck_bytes (h128 body)) = 16%nat) by apply ck_bytes_length.
  assert (Es : skipn 16 f = body) by (rewrite Ef; apply skipn_app_len, Lck).
  assert (Grs : le_get rs4 = blen c + 9) by (apply le_get_put4; exact Ho).
  rewrite Es.
  destruct (altered_cases f f' _ _ Ef Lck Ll Hne Hconf) as [(body' & E' & Nb & Lb)|(ck' & E' & Nc & Lc')].
  - unfold body in Lb. rewrite mk_body_length in Lb by assumption.
    destruct (split_body body' _ Lb) as (mb' & rs4' & ds4' & c' & -> & Lr' & Ld' & Lc').
    rewrite E', frame_app_assoc, read_block_spec in Hacc by assumption.
    destruct (rb_spec_accept _ _ _ _ _ _ _ _ Hacc) as (rs & Hrs & Hle & Hck).
    rewrite ck_pair_h128' in Hck.
    eexists. split; [|symmetry; exact Hck].
    intros Eb. unfold body in Eb. apply mk_body_inj in Eb; [|congruence|congruence].
    destruct Eb as (Em & E1 & E2 & E3). subst mb' rs4' ds4'.
    assert (rs = blen c) by lia. subst rs. rewrite to_nat_blen, <- Lc', firstn_app_len in E3 by reflexivity.
    subst c'. apply Nb. reflexivity.
  - exfalso. unfold body at 1 in E'.
    rewrite E', frame_app_assoc, read_block_spec in Hacc by assumption.
    destruct (rb_spec_accept _ _ _ _ _ _ _ _ Hacc) as (rs & Hrs & Hle & Hck).
    assert (rs = blen c) by lia. subst rs. rewrite to_nat_blen, firstn_app_len in Hck by reflexivity.
    fold body in Hck. rewrite <- (ck_pair_h128' body) in Hck.
    apply Nc. apply ck_pair_inj; auto.
    + rewrite E' in Wf. apply wf_app_inv in Wf. tauto.
    + apply wf_ck_bytes.
Qed.

Lemma len_fields ck mb rs4 ds4 t : length ck = 16%nat -> length rs4 = 4%nat -> length ds4 = 4%nat ->
  firstn 8 (skipn 17 (ck ++ mk_body mb rs4 ds4 t)) = rs4 ++ ds4.
Proof. intros L1 L2 L3. explode ck. explode rs4. explode ds4. reflexivity. Qed.

(* ... and when the two length fields are intact the error is CorruptedDataErr carrying the hash
   actually computed and the reference found in the frame, and exactly the frame is consumed *)
Theorem corrupt_error_when_lengths_intact_thm : forall m p f f' more,
  compress_frame m p = inr f -> blen p <= maxDataSize -> blen f <= 25 + maxBlockSize ->
  wf_bytes f' -> length f' = length f -> f' <> f ->
  firstn 16 f' = firstn 16 f \/ skipn 16 f' = skipn 16 f ->
  firstn 8 (skipn 17 f') = firstn 8 (skipn 17 f) ->
  collision (skipn 16 f) \/
  read_block (f' ++ more) =
    (inl (CECorrupt (h128 (skipn 16 f')) (ck_pair f') (blen f - 25) (blen p)), more, [blen p; blen f]).
Proof.
  intros m p f f' more Hf Hp Hfl Wf Ll Hne Hconf Hlen.
  destruct (compress_frame_shape _ _ _ Hf) as (c & Hc & Ho & Ef).
  pose proof (frame_length _ _ _ _ Hf Hc) as Hlf. rewrite Hlf in *.
  replace (25 + blen c - 25) with (blen c) by lia.
  set (rs4 := le_put 4 (blen c + 9)) in *. set (ds4 := le_put 4 (blen p)) in *.
  set (mb := method_enc m) in *. set (body := mk_body mb rs4 ds4 c) in *.
  assert (Lr : length rs4 = 4%nat) by apply le_put_length.
  assert (Ld : length ds4 = 4%nat) by apply le_put_length.
  assert (Lck : length (ck_bytes (h128 body)) = 16%nat) by apply ck_bytes_length.
  assert (Es : skipn 16 f = body) by (rewrite Ef; apply skipn_app_len, Lck).
  rewrite Es.
  destruct (altered_cases f f' _ _ Ef Lck Ll Hne Hconf) as [(body' & E' & Nb & Lb)|(ck' & E' & Nc & Lc')].
  - unfold body in Lb. rewrite mk_body_length in Lb by assumption.
    destruct (split_body body' _ Lb) as (mb' & rs4' & ds4' & c' & -> & Lr' & Ld' & Lc').
    rewrite E', Ef in Hlen. unfold body in Hlen. rewrite !len_fields in Hlen by assumption.
    destruct (app_eq_len rs4' rs4 ds4' ds4 ltac:(lia) Hlen) as [Er Ed]. rewrite Er, Ed in *. clear Er Ed.
    assert (Ebc : blen c = blen c') by (unfold blen; congruence).
    rewrite E', frame_app_assoc, read_block_spec by assumption.
    unfold rs4, ds4. rewrite rb_spec_sized by (assumption || lia). cbv zeta. fold rs4 ds4.
    rewrite ck_pair_h128'.
    destruct (pair_eqb (h128 body) (h128 (mk_body mb' rs4 ds4 c'))) eqn:Ep.
    + left. apply pair_eqb_eq in Ep. eexists. split; [exact Nb|]. symmetry. exact Ep.
    + right. cbn [negb]. rewrite skipn_app_len by exact Lck. rewrite ck_pair_app by exact Lck.
      rewrite ck_pair_h128'. reflexivity.
  - right. unfold body at 1 in E'.
    rewrite E', frame_app_assoc, read_block_spec by assumption.
    unfold rs4, ds4. rewrite rb_spec_sized by (reflexivity || lia). cbv zeta. fold rs4 ds4 body.
    destruct (pair_eqb (ck_pair ck') (h128 body)) eqn:Ep.
    + exfalso. apply pair_eqb_eq in Ep. rewrite <- (ck_pair_h128' body) in Ep.
      apply Nc. apply ck_pair_inj; auto.
      * rewrite E' in Wf. apply wf_app_inv in Wf. tauto.
      * apply wf_ck_bytes.
    + cbn [negb]. rewrite skipn_app_len by exact Lc'. rewrite ck_pair_app by exact Lc'. reflexivity.
Qed.

(* ---- every single-byte alteration ------------------------------------------------ *)
Fixpoint alter (i : nat) (v : N) (l : bytes) : bytes :=
  match l with
  | [] => []
  | x :: l' => match i with O => v :: l' | S j => x :: alter j v l' end
  end.

Lemma alter_length i v : forall l, length (alter i v l) = length l.
Proof. induction i; destruct l; cbn; auto. Qed.
Lemma alter_firstn i v : forall k l, (k <= i)%nat -> firstn k (alter i v l) = firstn k l.
Proof.
  induction i; intros k l Hk.
  - assert (k = O) by lia. subst. reflexivity.
  - destruct l; [reflexivity|]. destruct k; [reflexivity|]. cbn [alter firstn]. f_equal. apply IHi. lia.
Qed.
Lemma alter_skipn i v : forall k l, (i < k)%nat -> skipn k (alter i v l) = skipn k l.
Proof.
  induction i; intros k l Hk; (destruct l; [reflexivity|]); (destruct k; [lia|]); cbn [alter skipn].
  - reflexivity.
  - apply IHi. lia.
Qed.
Lemma alter_nth i v : forall l, (i < length l)%nat -> nth i (alter i v l) 0 = v.
Proof. induction i; destruct l; cbn [length alter nth]; intros Hl; try lia; auto. apply IHi. lia. Qed.

Lemma alter_facts i v (f : bytes) : (i < length f)%nat -> v <> nth i f 0 ->
  length (alter i v f) = length f /\ alter i v f <> f /\
  (firstn 16 (alter i v f) = firstn 16 f \/ skipn 16 (alter i v f) = skipn 16 f) /\
  ((i < 17 \/ 25 <= i)%nat -> firstn 8 (skipn 17 (alter i v f)) = firstn 8 (skipn 17 f)).
Proof.
  intros Hi Hv. split; [apply alter_length|]. split.
  { intros E. apply Hv. rewrite <- E at 1. symmetry. apply alter_nth, Hi. }
  split.
  { destruct (Nat.lt_ge_cases i 16); [right; apply alter_skipn; assumption|left; apply alter_firstn; assumption]. }
  intros [Hlt|Hge].
  - rewrite alter_skipn by exact Hlt. reflexivity.
  - rewrite !firstn_skipn_comm. cbn [Nat.add]. rewrite alter_firstn by exact Hge. reflexivity.
Qed.

Lemma cr_read_init n u :
  cr_read n (cr_init u) =
  match read_block u with
  | (inl e, u', al) => (RErr e, {| cr_data := [] ; cr_pos := 0 ; cr_under := u' ; cr_peak := max_list al 0 |})
  | (inr d, u', al) => (ROk (firstn (N.to_nat (N.min n (blen d))) d),
                        {| cr_data := d ; cr_pos := N.min n (blen d) ; cr_under := u' ; cr_peak := max_list al 0 |})
  end.
Proof. reflexivity. Qed.

(* every single-byte alteration, at every offset, of a written frame makes the read fail
   (whatever follows the frame in the stream), unless CityHash128 collides *)
Theorem single_byte_alteration_rejected_thm : forall m p f i v more n,
  compress_frame m p = inr f -> (i < length f)%nat -> v <> nth i f 0 -> wf_bytes (alter i v f) ->
  collision (skipn 16 f) \/
  exists e s', cr_read n (cr_init (alter i v f ++ more)) = (RErr e, s').
Proof.
  intros m p f i v more n Hf Hi Hv Wf.
  destruct (alter_facts i v f Hi Hv) as (Ll & Hne & Hconf & _).
  rewrite cr_read_init.
  destruct (read_block (alter i v f ++ more)) as [[[e|d] u'] al] eqn:Hr.
  - right. eexists _, _. reflexivity.
  - left. eapply altered_frame_rejected_thm; eauto.
Qed.

(* ... and outside the two length fields the error is the corruption error with both checksums,
   and the reader is positioned exactly after the altered frame *)
Theorem single_byte_corrupt_error_thm : forall m p f i v more n,
  compress_frame m p = inr f -> blen p <= maxDataSize -> blen f <= 25 + maxBlockSize ->
  (i < length f)%nat -> (i < 17 \/ 25 <= i)%nat -> v <> nth i f 0 -> wf_bytes (alter i v f) ->
  collision (skipn 16 f) \/
  exists s', cr_read n (cr_init (alter i v f ++ more)) =
    (RErr (CECorrupt (h128 (skipn 16 (alter i v f))) (ck_pair (alter i v f)) (blen f - 25) (blen p)), s')
    /\ cr_under s' = more /\ cr_data s' = [].
Proof.
  intros m p f i v more n Hf Hp Hfl Hi Hout Hv Wf.
  destruct (alter_facts i v f Hi Hv) as (Ll & Hne & Hconf & Hlen).
  destruct (corrupt_error_when_lengths_intact_thm m p f (alter i v f) more Hf Hp Hfl Wf Ll Hne Hconf (Hlen Hout))
    as [Hc|Hr]; [left; exact Hc|right].
  rewrite cr_read_init, Hr. eexists. split; [reflexivity|]. split; reflexivity.
Qed.

(* ---- prefix_rejected_compressed (cited by C07) ------------------------------------ *)
Definition eof_class (e : cerr) : Prop :=
  match e with CEHeader _ | CEReadRaw _ => True | _ => False end.

(* every proper prefix of a written frame makes the first read fail; within the reader's limits
   the failure is an end-of-input error and the stream is consumed whole *)
Theorem prefix_rejected_compressed_thm : forall m p f k n,
  compress_frame m p = inr f -> (k < length f)%nat ->
  exists e s', cr_read n (cr_init (firstn k f)) = (RErr e, s') /\
    (blen p <= maxDataSize -> blen f <= 25 + maxBlockSize -> eof_class e /\ cr_under s' = []).
Proof.
  intros m p f k n Hf Hk. rewrite cr_read_init.
  destruct (Nat.lt_ge_cases k 25) as [Hs|Hl].
  - rewrite read_block_short by (rewrite firstn_length; lia).
    eexists _, _. split; [reflexivity|]. intros _ _. split; [exact I|reflexivity].
  - destruct (compress_frame_shape _ _ _ Hf) as (c & Hc & Ho & Ef).
    pose proof (frame_length _ _ _ _ Hf Hc) as Hlf.
    set (rs4 := le_put 4 (blen c + 9)) in *. set (ds4 := le_put 4 (blen p)) in *.
    set (mb := method_enc m) in *.
    assert (Lr : length rs4 = 4%nat) by apply le_put_length.
    assert (Ld : length ds4 = 4%nat) by apply le_put_length.
    set (ck := ck_bytes (h128 (mk_body mb rs4 ds4 c))) in *.
    assert (Lck : length ck = 16%nat) by apply ck_bytes_length.
    assert (Efk : firstn k f = ck ++ mb :: rs4 ++ ds4 ++ firstn (k - 25) c).
    { rewrite Ef. unfold mk_body.
      replace (ck ++ mb :: rs4 ++ ds4 ++ c) with ((ck ++ mb :: rs4 ++ ds4) ++ c)
        by (rewrite <- app_assoc; cbn [app]; rewrite <- !app_assoc; reflexivity).
      assert (Lh : length (ck ++ mb :: rs4 ++ ds4) = 25%nat)
        by (rewrite app_length; cbn [length]; rewrite app_length; lia).
      rewrite firstn_app, Lh, firstn_all2 by lia.
      rewrite <- app_assoc. cbn [app]. rewrite <- !app_assoc. reflexivity. }
    rewrite Efk, read_block_spec by assumption. unfold rb_spec.
    assert (Grs : le_get rs4 = blen c + 9) by (apply le_get_put4; exact Ho). rewrite Grs.
    replace (Z.of_N (blen c + 9) - 9)%Z with (Z.of_N (blen c)) by lia. rewrite N2Z.id.
    assert (Hlen : length f = (25 + length c)%nat) by (unfold blen in Hlf; lia).
    assert (Gds : blen p <= maxDataSize -> le_get ds4 = blen p)
      by (intros; apply le_get_put4; pose proof maxDataSize_lt; lia).
    destruct (N.ltb_spec maxDataSize (le_get ds4)) as [C1|C1].
    { eexists _, _. split; [reflexivity|]. intros Hp _. rewrite (Gds Hp) in C1. lia. }
    destruct (Z.ltb_spec (Z.of_N (blen c)) 0); [lia|].
    destruct (Z.ltb_spec (Z.of_N maxBlockSize) (Z.of_N (blen c))) as [C2|C2]; cbn [orb].
    { eexists _, _. split; [reflexivity|]. intros _ Hfl. lia. }
    destruct (N.ltb_spec (blen (firstn (k - 25) c)) (blen c)) as [C3|C3].
    + eexists _, _. split; [reflexivity|]. intros _ _. split; [exact I|reflexivity].
    + exfalso. unfold blen in C3. rewrite firstn_length in C3. lia.
Qed.

(* a frame the writer produced (within the limits) is a verified frame carrying its payload *)
Lemma written_frame_verified m p f :
  codec_rt -> frame_ok (m, p) f -> verified_frame f p.
Proof.
  intros Hrt (Hf & Hp & Hfl). cbn [fst snd] in *.
  pose proof (read_block_written m p f [] Hrt Hf Hp Hfl) as Hr.
  destruct (read_block_consumes _ _ _ _ Hr) as (c & Ec & Hv).
  rewrite !app_nil_r in Ec. subst c. exact Hv.
Qed.
End Codec.
