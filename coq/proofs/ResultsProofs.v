(* C18: binding result blocks to targets (model/Results.v).

   - [infer_st] never panics; a failed Infer of a ColEnum / ColDateTime / ColInterval leaves the column as it was
   - the loop of model/Results.v refines Block.dec_targets / Block.decode_result for typed targets
   - success is characterised exactly by the relation [bound]; failure by a bound prefix, one failing step, an untouched rest
   - names, once known, never change, whatever blocks arrive
   - Infer adopts the server's parameters, independently of what the column held before *)
From CH Require Import model.Columns model.Block model.TypeStr model.Results.
From CH Require Import proofs.PrimProofs proofs.ColumnsProofs proofs.ColumnsProofs2 proofs.BlockProofs proofs.TypeStrProofs.
From CH Require Import gen.Features gen.Consts.
From Coq Require Import ZifyN ZifyNat ZifyBool.
Ltac Zify.zify_post_hook ::= Z.div_mod_to_equations.
Open Scope N_scope.
Open Scope list_scope.

(* ---- ColumnType.Conflicts as a boolean -------------------------------------------------- *)
Lemma conflicts_b_ok c b : conflicts_b c b = TypeStrProofs.conflicts c b.
Proof. unfold conflicts_b. now rewrite conflicts_r_ok. Qed.

Lemma conflicts_b_refl s : conflicts_b s s = false.
Proof. unfold conflicts_b. now rewrite conflicts_r_refl. Qed.

Lemma conflicts_b_sym a b : conflicts_b a b = conflicts_b b a.
Proof. unfold conflicts_b. now rewrite conflicts_r_sym. Qed.

Section ResProofs.
  Variable zone : bytes -> option bytes.
  Variable tl : bytes -> bytes.

  Notation infer_st := (infer_st zone tl).
  Notation infer_tcol := (infer_tcol zone tl).
  Notation infer_target := (infer_target zone tl).
  Notation infer_auto := (infer_auto zone tl).
  Notation bind_one := (bind_one zone tl).
  Notation bind_targets := (bind_targets zone tl).
  Notation bind_result := (bind_result zone tl).
  Notation auto_result := (auto_result zone tl).
  Notation decode_block_st := (decode_block_st zone tl).
  Notation run_blocks := (run_blocks zone tl).

  (* ---- ColTuple.Infer / ColNamed.Infer as functions of their own --------------------------------- *)
  (* `if s, ok := v.(Inferable); ok { s.Infer(..) }` *)
  Definition opt_infer (t : ty) (s : bytes) : ty * iout := if inferable_ty t then infer_st t s else (t, IOk).

  (* the loop of ColTuple.Infer over the elements and the arguments of Tuple(...): element i gets argument i, trimmed;
     the first failure stops the loop and leaves the later elements untouched *)
  Fixpoint tup_infer (ts : list ty) (args : list bytes) : list ty * iout :=
    match ts, args with
    | t0 :: r, a :: ar =>
      let '(t0', o) := opt_infer t0 (trim_space a) in
      match o with
      | IOk => let '(r', o') := tup_infer r ar in (t0' :: r', o')
      | _ => (t0' :: r, o)
      end
    | _, _ => (ts, IOk)
    end.

  Lemma infer_st_tuple ts s : infer_st (TTuple ts) s =
    if existsb inferable_ty ts then
      if negb (length (split_type_args (elem s)) =? length ts)%nat then (TTuple ts, IErr)
      else let '(ts', o) := tup_infer ts (split_type_args (elem s)) in (TTuple ts', o)
    else (TTuple ts, IOk).
  Proof.
    cbn [Results.infer_st]. destruct (existsb inferable_ty ts); [|reflexivity]. rewrite elem_r_ok. cbn [rok].
    destruct (negb _); [reflexivity|].
    reflexivity.   (* the nested fix of [infer_st] is [tup_infer] up to unfolding [opt_infer] *)
  Qed.

  Lemma infer_st_named n d s : infer_st (TNamed n d) s =
    if inferable_ty d then
      match cut_prefix (n ++ [32]) s with
      | Some e => let '(d', o) := infer_st d e in (TNamed n d', o)
      | None => (TNamed n d, IErr)
      end
    else (TNamed n d, IOk).
  Proof. reflexivity. Qed.

  (* whatever relation every element's Infer keeps, the loop keeps element by element *)
  Lemma tup_infer_rel (R : ty -> ty -> Prop) : (forall t, R t t) -> forall ts,
    Forall (fun t => forall s, R t (fst (infer_st t s))) ts -> forall args, Forall2 R ts (fst (tup_infer ts args)).
  Proof.
    intros Rr ts H. assert (Hrefl : forall l, Forall2 R l l) by (induction l; constructor; auto).
    induction H as [|t0 r H0 _ IH]; intros args; [destruct args; constructor|].
    destruct args as [|a ar]; [apply Hrefl|]. cbn [tup_infer].
    assert (H1 : R t0 (fst (opt_infer t0 (trim_space a)))) by (unfold opt_infer; destruct (inferable_ty t0); [apply H0|apply Rr]).
    destruct (opt_infer t0 (trim_space a)) as [t0' o]. cbn [fst] in H1.
    destruct o; [|cbn [fst]; constructor; [exact H1|apply Hrefl]..].
    specialize (IH ar). destruct (tup_infer r ar) as [r' o']. cbn [fst] in *. now constructor.
  Qed.

  (* ---- Infer never slices out of range ----------------------------------------------------- *)
  Lemma dt64_infer_no_crash name s : snd (dt64_infer zone name s) <> ICrash.
  Proof.
    unfold dt64_infer. rewrite elem_r_ok. cbn [rok].
    destruct (elem s); [cbn; discriminate|].
    destruct (cut_byte 44 _) as [[pStr locStr] hasloc].
    destruct (parse_uint8 _); [|cbn; discriminate].
    destruct (negb _); [cbn; discriminate|].
    destruct hasloc; [destruct (zone _)|]; cbn; discriminate.
  Qed.

  Lemma datetime_infer_no_crash s : is_crash (datetime_infer zone s) = false.
  Proof.
    unfold datetime_infer. rewrite elem_r_ok. cbn [rbind rok].
    destruct (elem s); [reflexivity|]. destruct (zone _); reflexivity.
  Qed.

  Lemma interval_infer_no_crash s : is_crash (interval_infer tl s) = false.
  Proof.
    unfold interval_infer. destruct (interval_scale_string tl s); [|reflexivity].
    destruct (bytes_eqb _ _); reflexivity.
  Qed.

  Lemma enum_infer_no_crash s : is_crash (enum_infer s) = false.
  Proof.
    unfold enum_infer. rewrite base_r_ok. cbn [rbind rok].
    destruct (negb _); [reflexivity|]. destruct (negb _); [reflexivity|]. rewrite elem_r_ok. cbn [rbind rok].
    destruct (enum_parse _); reflexivity.
  Qed.

  Lemma of_res_no_crash t w r : is_crash r = false -> snd (of_res t w r) <> ICrash.
  Proof. destruct r; cbn; intros; discriminate. Qed.

  Theorem infer_st_no_crash : forall t s, snd (infer_st t s) <> ICrash.
  Proof.
    induction t using ty_ind'; intros s; cbn [Results.infer_st]; try (cbn; discriminate).
    - destruct (fix_kind name w); try (cbn; discriminate).
      + apply of_res_no_crash, datetime_infer_no_crash.
      + pose proof (dt64_infer_no_crash name s) as H. destruct (dt64_infer zone name s). exact H.
      + apply of_res_no_crash, interval_infer_no_crash.
    - pose proof (enum_infer_no_crash s) as H. destruct (enum_infer s) as [c r|e|c]; cbn in H; try discriminate.
      destruct (ty_of_col c); cbn; discriminate.
    - destruct (inferable_ty t); [|cbn; discriminate]. rewrite elem_r_ok. cbn [rok].
      specialize (IHt (elem s)). destruct (infer_st t (elem s)). exact IHt.
    - destruct (inferable_ty t); [|cbn; discriminate]. rewrite elem_r_ok. cbn [rok].
      specialize (IHt (elem s)). destruct (infer_st t (elem s)). exact IHt.
    - destruct (inferable_ty t); [|cbn; discriminate]. rewrite elem_r_ok. cbn [rok].
      specialize (IHt (elem s)). destruct (infer_st t (elem s)). exact IHt.
    - rewrite elem_r_ok. cbn [rok]. destruct (split_type_args (elem s)) as [|kt [|vt [|x l]]]; try (cbn; discriminate).
      assert (Hk : snd (if inferable_ty t1 then infer_st t1 (trim_space kt) else (t1, IOk)) <> ICrash)
        by (destruct (inferable_ty t1); [apply IHt1|cbn; discriminate]).
      destruct (if inferable_ty t1 then infer_st t1 (trim_space kt) else (t1, IOk)) as [k' ok].
      destruct ok; cbn in Hk; try congruence; try (cbn; discriminate).
      assert (Hv : snd (if inferable_ty t2 then infer_st t2 (trim_space vt) else (t2, IOk)) <> ICrash)
        by (destruct (inferable_ty t2); [apply IHt2|cbn; discriminate]).
      destruct (if inferable_ty t2 then infer_st t2 (trim_space vt) else (t2, IOk)) as [v' ov]. exact Hv.
    - change (snd (infer_st (TTuple ts) s) <> ICrash). rewrite infer_st_tuple. destruct (existsb inferable_ty ts); [|cbn; discriminate].
      destruct (negb _); [cbn; discriminate|].
      assert (Hg : forall args, snd (tup_infer ts args) <> ICrash).
      { induction H as [|t0 ts' Ht0 _ IH]; intros [|a ar]; try (cbn; discriminate). cbn [tup_infer].
        assert (H0 : snd (opt_infer t0 (trim_space a)) <> ICrash)
          by (unfold opt_infer; destruct (inferable_ty t0); [apply Ht0|cbn; discriminate]).
        destruct (opt_infer t0 (trim_space a)) as [t0' o].
        destruct o; cbn in H0; try congruence; try (cbn; discriminate).
        specialize (IH ar). destruct (tup_infer ts' ar). exact IH. }
      specialize (Hg (split_type_args (elem s))). destruct (tup_infer ts _). exact Hg.
    - destruct (inferable_ty t); [|cbn; discriminate]. destruct (cut_prefix _ s) as [e|]; [|cbn; discriminate].
      specialize (IHt e). destruct (infer_st t e). exact IHt.
  Qed.

  (* a column that is not Inferable is left alone *)
  Lemma infer_target_plain t s : inferable_ty t = false -> infer_target t s = Some t.
  Proof. intros H. unfold Results.infer_target. now rewrite H. Qed.

  Lemma infer_tcol_no_crash c s : snd (infer_tcol c s) <> ICrash.
  Proof.
    destruct c as [t d| |dt t d]; cbn [Results.infer_tcol].
    - destruct (inferable_ty t); [|cbn; discriminate].
      pose proof (infer_st_no_crash t s). destruct (infer_st t s). exact H.
    - unfold auto_fresh. destruct (infer_auto s); cbn; discriminate.
    - destruct (negb (conflicts_b dt s)); [|unfold auto_fresh; destruct (infer_auto s); cbn; discriminate].
      destruct (negb (inferable_ty t)); [cbn; discriminate|].
      pose proof (infer_st_no_crash t s). destruct (infer_st t s) as [t' o].
      destruct o; cbn in H; try congruence; try (cbn; discriminate).
      unfold auto_fresh. destruct (infer_auto s); cbn; discriminate.
  Qed.

  (* ---- the header of one column ---------------------------------------------------------- *)
  Lemma read_header_spec v s :
    match read_header v s with
    | inl (n, t, s') => dec_col_header v s = Ok (n, t) s'
    | inr (SFail _ e) => dec_col_header v s = Err e
    | inr (SCrash c) => dec_col_header v s = Crash c
    | inr (SOk _) => False
    end.
  Proof.
    unfold read_header, dec_col_header, bind.
    destruct (get_str s) as [name s1|e|c]; [|reflexivity|reflexivity].
    destruct (get_str s1) as [tstr s2|e|c]; [|reflexivity|reflexivity].
    unfold ret. destruct (gate v FeatureCustomSerialization); [|reflexivity].
    destruct (get_bool s2) as [cs s3|e|c]; [|reflexivity|reflexivity].
    destruct cs; reflexivity.
  Qed.

  Lemma read_header_fail_kind v s k e : read_header v s = inr (SFail k e) -> k = FHeader \/ k = FCustom.
  Proof.
    unfold read_header.
    destruct ((name <- get_str;; tstr <- get_str;; ret (name, tstr)) s) as [[n t0] s1|e0|c0].
    - destruct (gate v FeatureCustomSerialization); [|discriminate].
      destruct (get_bool s1) as [[|] s2|e1|c1]; intros Hx; inversion Hx; subst; auto.
    - intros Hx; inversion Hx; auto.
    - discriminate.
  Qed.

  (* ---- success, characterised ------------------------------------------------------------- *)
  (* [bound b v nrows ts s ts' rest]: reading [s], every target of [ts] in turn finds the header of a column whose
     name is its own (or its own is blank), whose type its Infer accepts and does not conflict with its Type()
     afterwards, and the column's bytes — those directly behind that header — decode into it *)
  Inductive bound (b : build) (v nrows : N) : list rtarget -> bytes -> list rtarget -> bytes -> Prop :=
  | bound_nil s : bound b v nrows [] s [] s
  | bound_cons t ts s name tstr s1 c1 ty' d s2 ts' s3 :
      read_header v s = inl (name, tstr, s1) ->
      (rt_name t = [] \/ rt_name t = name) ->
      infer_tcol (rt_col t) tstr = (c1, IOk) ->
      conflicts_b tstr (tcol_type c1) = false ->
      tcol_ty c1 = Some ty' ->
      dec_body b ty' nrows s1 = Ok d s2 ->
      bound b v nrows ts s2 ts' s3 ->
      bound b v nrows (t :: ts) s ({| rt_name := name ; rt_col := set_data c1 d |} :: ts') s3.

  Lemma tname_eq (n name : bytes) :
    bytes_eqb (match n with [] => name | _ :: _ => n end) name = true ->
    (n = [] \/ n = name) /\ (match n with [] => name | _ :: _ => n end) = name.
  Proof.
    intros H. apply TypeStrProofs.bytes_eqb_eq in H. destruct n; [now split; [left|]|]. split; [now right|exact H].
  Qed.

  Lemma bind_one_ok b v nrows t s t' s' :
    bind_one b v nrows t s = (t', SOk s') ->
    exists name tstr s1 c1 ty' d,
      read_header v s = inl (name, tstr, s1) /\ (rt_name t = [] \/ rt_name t = name) /\
      infer_tcol (rt_col t) tstr = (c1, IOk) /\ conflicts_b tstr (tcol_type c1) = false /\
      tcol_ty c1 = Some ty' /\ dec_body b ty' nrows s1 = Ok d s' /\
      t' = {| rt_name := name ; rt_col := set_data c1 d |}.
  Proof.
    unfold Results.bind_one. pose proof (read_header_spec v s) as Hs.
    destruct (read_header v s) as [[[name tstr] s1]|o]; [clear Hs|intros [= _ ->]; contradiction].
    destruct (negb (bytes_eqb _ name)) eqn:En; [intros Hx; inversion Hx|].
    apply negb_false_iff, tname_eq in En. destruct En as [Hn Htn]. rewrite Htn.
    destruct (infer_tcol (rt_col t) tstr) as [c1 o] eqn:Ei.
    destruct o; try (intros Hx; now inversion Hx).
    destruct (conflicts_b tstr (tcol_type c1)) eqn:Ec; [intros Hx; inversion Hx|].
    destruct (tcol_ty c1) as [ty'|] eqn:Et; [|intros Hx; inversion Hx].
    destruct (dec_body b ty' nrows s1) as [d s3|e|c] eqn:Ed; intros Hx; inversion Hx; subst; clear Hx.
    now exists name, tstr, s1, c1, ty', d.
  Qed.

  Lemma bind_one_ok_intro b v nrows t s name tstr s1 c1 ty' d s2 :
    read_header v s = inl (name, tstr, s1) -> (rt_name t = [] \/ rt_name t = name) ->
    infer_tcol (rt_col t) tstr = (c1, IOk) -> conflicts_b tstr (tcol_type c1) = false ->
    tcol_ty c1 = Some ty' -> dec_body b ty' nrows s1 = Ok d s2 ->
    bind_one b v nrows t s = ({| rt_name := name ; rt_col := set_data c1 d |}, SOk s2).
  Proof.
    intros Hh Hn Hi Hc Ht Hd. unfold Results.bind_one. rewrite Hh.
    assert (Htn : (match rt_name t with [] => name | _ :: _ => rt_name t end) = name)
      by (destruct Hn as [->| ->]; [reflexivity|destruct name; reflexivity]).
    rewrite Htn, TypeStrProofs.bytes_eqb_refl. cbn [negb]. now rewrite Hi, Hc, Ht, Hd.
  Qed.

  Theorem bind_ok_iff b v nrows : forall ts i s ts' rest,
    bind_targets b v nrows i ts s = (ts', BOk rest) <-> bound b v nrows ts s ts' rest.
  Proof.
    induction ts as [|t ts IH]; intros i s ts' rest; cbn [Results.bind_targets].
    - split; [intros [= <- <-]; constructor|intros Hx; inversion Hx; reflexivity].
    - split.
      + destruct (bind_one b v nrows t s) as [t1 o] eqn:E1. destruct o as [s1|k e|c]; try (intros Hx; now inversion Hx).
        destruct (bind_targets b v nrows (S i) ts s1) as [r o] eqn:Er. intros [= <- ->].
        apply bind_one_ok in E1. destruct E1 as (name & tstr & s0 & c1 & ty' & d & Hh & Hn & Hi & Hc & Ht & Hd & ->).
        econstructor; eauto. now apply (IH (S i)).
      + intros H. inversion H as [|? ? ? name tstr s1 c1 ty' d s2 ts1 s3 Hh Hn Hi Hc Ht Hd Hb]; subst.
        rewrite (bind_one_ok_intro b v nrows t s name tstr s1 c1 ty' d s2) by assumption.
        apply (IH (S i)) in Hb. now rewrite Hb.
  Qed.

  (* what [bound] says, target by target *)
  Lemma bound_length b v nrows ts s ts' rest : bound b v nrows ts s ts' rest -> length ts' = length ts.
  Proof. induction 1; cbn [length]; congruence. Qed.

  Lemma bound_names b v nrows ts s ts' rest : bound b v nrows ts s ts' rest ->
    Forall2 (fun t t' => rt_name t = [] \/ rt_name t = rt_name t') ts ts'.
  Proof. induction 1; constructor; auto. Qed.

  (* names the caller gave are enforced: with no blank name, a block binds only if its names are the targets' *)
  Lemma bound_names_enforced b v nrows ts s ts' rest : bound b v nrows ts s ts' rest ->
    Forall (fun t => rt_name t <> []) ts -> map rt_name ts' = map rt_name ts.
  Proof.
    intros H. apply bound_names in H. induction H as [|t t' ts ts' [Hn|Hn] _ IH]; intros Hf; [reflexivity| |];
      inversion Hf; subst; [contradiction|]. cbn [map]. now rewrite Hn, IH.
  Qed.

  (* after a successful bind no target's Type() conflicts with the type the server named for its column, and its
     contents have the block's row count when the column codec is the one of C01 *)
  Lemma bound_types b v nrows ts s ts' rest : bound b v nrows ts s ts' rest ->
    Forall (fun t' => exists tstr, conflicts_b tstr (tcol_type (rt_col t')) = false) ts'.
  Proof.
    induction 1; constructor; auto. exists tstr. cbn [rt_col].
    replace (tcol_type (set_data c1 d)) with (tcol_type c1) by (destruct c1; reflexivity). assumption.
  Qed.

  (* ---- failure, characterised ------------------------------------------------------------- *)
  Theorem bind_fail_shape b v nrows : forall ts i s ts' j k e,
    bind_targets b v nrows i ts s = (ts', BFail j k e) ->
    exists pre t post pre' t' s1,
      ts = pre ++ t :: post /\ ts' = pre' ++ t' :: post /\ j = (i + length pre)%nat /\
      bound b v nrows pre s pre' s1 /\ bind_one b v nrows t s1 = (t', SFail k e).
  Proof.
    induction ts as [|t ts IH]; intros i s ts' j k e; cbn [Results.bind_targets]; [intros Hx; inversion Hx|].
    destruct (bind_one b v nrows t s) as [t1 o] eqn:E1. destruct o as [s1|k1 e1|c].
    - destruct (bind_targets b v nrows (S i) ts s1) as [r o] eqn:Er. intros [= <- ->].
      apply IH in Er. destruct Er as (pre & t0 & post & pre' & t0' & s2 & -> & -> & -> & Hb & H1).
      apply bind_one_ok in E1. destruct E1 as (name & tstr & s0 & c1 & ty' & d & Hh & Hn & Hi & Hc & Ht & Hd & ->).
      exists (t :: pre), t0, post, ({| rt_name := name ; rt_col := set_data c1 d |} :: pre'), t0', s2.
      repeat split; [cbn [length]; lia| |assumption]. econstructor; eauto.
    - intros [= <- <- <- <-]. exists [], t, ts, [], t1, s. repeat split; [cbn [length]; lia|constructor|assumption].
    - intros Hx; inversion Hx.
  Qed.

  (* the failing step: why it failed and what the target is left with *)
  Definition fail_reason (b : build) (v nrows : N) (t : rtarget) (s : bytes) (k : bfail) (e : err) (t' : rtarget) : Prop :=
    match k with
    | FHeader => t' = t /\ dec_col_header v s = Err e
    | FCustom => t' = t /\ dec_col_header v s = Err EInvalid
    | FName => t' = t /\ exists name tstr s1, read_header v s = inl (name, tstr, s1) /\ rt_name t <> [] /\ rt_name t <> name
    | FInfer => exists name tstr s1 c1, read_header v s = inl (name, tstr, s1) /\ (rt_name t = [] \/ rt_name t = name) /\
                  infer_tcol (rt_col t) tstr = (c1, IErr) /\ t' = {| rt_name := name ; rt_col := c1 |} /\
                  tcol_data c1 = tcol_data (rt_col t)
    | FType => exists name tstr s1 c1, read_header v s = inl (name, tstr, s1) /\ (rt_name t = [] \/ rt_name t = name) /\
                  infer_tcol (rt_col t) tstr = (c1, IOk) /\ conflicts_b tstr (tcol_type c1) = true /\
                  t' = {| rt_name := name ; rt_col := c1 |}
    | FDecode => exists name tstr s1 c1 ty', read_header v s = inl (name, tstr, s1) /\ (rt_name t = [] \/ rt_name t = name) /\
                  infer_tcol (rt_col t) tstr = (c1, IOk) /\ conflicts_b tstr (tcol_type c1) = false /\
                  tcol_ty c1 = Some ty' /\ dec_body b ty' nrows s1 = Err e /\
                  t' = {| rt_name := name ; rt_col := set_data c1 (body_part b ty' nrows s1) |}
    | FBlock | FCount => False
    end.

  Lemma infer_tcol_err_data c s c1 : infer_tcol c s = (c1, IErr) -> tcol_data c1 = tcol_data c.
  Proof.
    destruct c as [t d| |dt t d]; cbn [Results.infer_tcol].
    - destruct (inferable_ty t); [|intros Hx; inversion Hx]. destruct (infer_st t s). intros Hx; inversion Hx; subst; reflexivity.
    - unfold auto_fresh. destruct (infer_auto s); [intros Hx; inversion Hx|intros Hx; inversion Hx; subst; reflexivity].
    - destruct (negb (conflicts_b dt s)).
      + destruct (negb (inferable_ty t)); [intros Hx; inversion Hx|].
        destruct (infer_st t s) as [t' o]. destruct o; try (intros Hx; now inversion Hx).
        unfold auto_fresh. destruct (infer_auto s); [intros Hx; inversion Hx|intros Hx; inversion Hx; subst; reflexivity].
      + unfold auto_fresh. destruct (infer_auto s); [intros Hx; inversion Hx|intros Hx; inversion Hx; subst; reflexivity].
  Qed.

  Theorem bind_one_fail b v nrows t s t' k e :
    bind_one b v nrows t s = (t', SFail k e) -> fail_reason b v nrows t s k e t'.
  Proof.
    unfold Results.bind_one. pose proof (read_header_spec v s) as Hs.
    destruct (read_header v s) as [[[name tstr] s1]|o] eqn:Eh.
    2:{ intros [= <- ->]. unfold read_header in Eh.
        destruct ((name <- get_str;; tstr <- get_str;; ret (name, tstr)) s) as [[n ts0] s1|e0|c0]; cbn in *.
        - destruct (gate v FeatureCustomSerialization); [|discriminate].
          destruct (get_bool s1) as [[|] s2|e1|c1]; inversion Eh; subst; cbn; now split.
        - inversion Eh; subst. cbn. now split.
        - discriminate. }
    destruct (negb (bytes_eqb _ name)) eqn:En.
    { intros [= <- <- <-]. cbn. destruct (rt_name t) as [|x n] eqn:Rn.
      - now rewrite TypeStrProofs.bytes_eqb_refl in En.
      - split; [destruct t; cbn in *; now rewrite Rn|].
        exists name, tstr, s1. split; [exact Eh|]. split; [discriminate|].
        intros <-. now rewrite TypeStrProofs.bytes_eqb_refl in En. }
    apply negb_false_iff, tname_eq in En. destruct En as [Hn Htn]. rewrite Htn.
    destruct (infer_tcol (rt_col t) tstr) as [c1 o] eqn:Ei.
    destruct o.
    - destruct (conflicts_b tstr (tcol_type c1)) eqn:Ec.
      { intros [= <- <- <-]. cbn. now exists name, tstr, s1, c1. }
      destruct (tcol_ty c1) as [ty'|] eqn:Et; [|intros Hx; inversion Hx].
      destruct (dec_body b ty' nrows s1) as [d s3|e0|c] eqn:Ed; intros Hx; inversion Hx; subst; clear Hx.
      cbn. now exists name, tstr, s1, c1, ty'.
    - intros [= <- <- <-]. cbn. exists name, tstr, s1, c1. repeat split; try assumption.
      now apply infer_tcol_err_data in Ei.
    - intros Hx; inversion Hx.
  Qed.

  Lemma infer_tcol_data c s c1 o : infer_tcol c s = (c1, o) ->
    tcol_data c1 = tcol_data c \/ exists ty', tcol_ty c1 = Some ty' /\ tcol_data c1 = Some (empty ty').
  Proof.
    destruct c as [t d| |dt t d]; cbn [Results.infer_tcol].
    - destruct (inferable_ty t); [destruct (infer_st t s)|]; intros Hx; inversion Hx; subst; now left.
    - unfold auto_fresh. destruct (infer_auto s) as [ty'|]; intros Hx; inversion Hx; subst; [right; now exists ty'|now left].
    - destruct (negb (conflicts_b dt s)).
      + destruct (negb (inferable_ty t)); [intros Hx; inversion Hx; subst; now left|].
        destruct (infer_st t s) as [t' o']. destruct o'; try (intros Hx; inversion Hx; subst; now left).
        unfold auto_fresh. destruct (infer_auto s) as [ty'|]; intros Hx; inversion Hx; subst; [right; now exists ty'|now left].
      + unfold auto_fresh. destruct (infer_auto s) as [ty'|]; intros Hx; inversion Hx; subst; [right; now exists ty'|now left].
  Qed.

  (* in every failing step the target's contents are what they were, or an empty (reset / newly created) column, or -
     after a DecodeState / DecodeColumn error - what the column's own decoder had stored when it gave up, which is a
     function of the target's type, the block's row count and the bytes [s1] directly behind the target's OWN column
     header (model/DecPart.v): never the data of another column *)
  Corollary failing_target_contents b v nrows t s t' k e :
    bind_one b v nrows t s = (t', SFail k e) ->
    tcol_data (rt_col t') = tcol_data (rt_col t) \/
    (exists ty', tcol_ty (rt_col t') = Some ty' /\ tcol_data (rt_col t') = Some (empty ty')) \/
    (exists ty' name tstr s1, read_header v s = inl (name, tstr, s1) /\ k = FDecode /\
       tcol_ty (rt_col t') = Some ty' /\ tcol_data (rt_col t') = Some (body_part b ty' nrows s1)).
  Proof.
    intros H. apply bind_one_fail in H. destruct k; cbv beta iota delta [fail_reason] in H; try contradiction.
    - destruct H as [-> _]. now left.
    - destruct H as [-> _]. now left.
    - destruct H as [-> _]. now left.
    - destruct H as (name & tstr & s1 & c1 & _ & _ & _ & -> & Hd). now left.
    - destruct H as (name & tstr & s1 & c1 & _ & _ & Hi & _ & ->). cbn [rt_col].
      apply infer_tcol_data in Hi. destruct Hi as [Hi|Hi]; [now left|right; now left].
    - destruct H as (name & tstr & s1 & c1 & ty' & Hh & _ & _ & _ & Ht & _ & ->). cbn [rt_col].
      right. right. exists ty', name, tstr, s1. split; [exact Hh|]. split; [reflexivity|].
      destruct c1 as [t1 d1| |dt1 t1 d1]; cbn [tcol_ty] in Ht; [|discriminate|];
        injection Ht as ->; cbn [tcol_ty tcol_data set_data]; now split.
  Qed.

  (* ---- Results.DecodeResult ------------------------------------------------------------------ *)
  Theorem bind_result_ok b v ncols nrows ts s ts' rest :
    bind_result b v ncols nrows ts s = (ts', BOk rest) ->
    (ts = [] /\ ts' = [] /\ (ncols = 0 \/ nrows = 0)) \/
    (ts <> [] /\ ncols = N.of_nat (length ts) /\ bound b v nrows ts s ts' rest).
  Proof.
    unfold Results.bind_result. destruct ts as [|t ts].
    - destruct (negb (ncols =? 0) && negb (nrows =? 0)) eqn:E; [intros Hx; inversion Hx|].
      intros H. left. repeat split.
      + destruct (ncols <=? blen s); [now injection H|]. now injection H.
      + apply andb_false_iff in E. destruct E as [E|E]; apply negb_false_iff in E; lia.
    - destruct (negb (ncols =? N.of_nat (length (t :: ts)))) eqn:E; [intros Hx; inversion Hx|].
      intros H. right. apply bind_ok_iff in H. repeat split; [discriminate| |assumption].
      apply negb_false_iff in E. lia.
  Qed.

  Theorem bind_result_ok_intro b v nrows ts s ts' rest :
    ts <> [] -> bound b v nrows ts s ts' rest ->
    bind_result b v (N.of_nat (length ts)) nrows ts s = (ts', BOk rest).
  Proof.
    intros Hne Hb. unfold Results.bind_result. destruct ts as [|t ts]; [contradiction|].
    rewrite N.eqb_refl. cbn [negb]. now apply bind_ok_iff.
  Qed.

  Theorem bind_result_fail b v ncols nrows ts s ts' j k e :
    bind_result b v ncols nrows ts s = (ts', BFail j k e) ->
    (k = FCount /\ ts' = ts /\ ncols <> N.of_nat (length ts) /\ (ts = [] -> nrows <> 0)) \/
    (ts = [] /\ ts' = [] /\ k <> FCount) \/
    (ts <> [] /\ ncols = N.of_nat (length ts) /\
     exists pre t post pre' t' s1,
       ts = pre ++ t :: post /\ ts' = pre' ++ t' :: post /\ j = length pre /\
       bound b v nrows pre s pre' s1 /\ bind_one b v nrows t s1 = (t', SFail k e) /\
       fail_reason b v nrows t s1 k e t').
  Proof.
    unfold Results.bind_result. destruct ts as [|t ts].
    - destruct (negb (ncols =? 0) && negb (nrows =? 0)) eqn:E.
      + intros [= <- <- <- <-]. left. apply andb_true_iff in E. destruct E as [E1 E2].
        apply negb_true_iff in E1, E2. repeat split; cbn [length]; lia.
      + intros H. right. left.
        assert (Hk : forall n i s0 j0 k0 e0, skip_cols v i n s0 = BFail j0 k0 e0 -> k0 <> FCount).
        { induction n as [|n IH]; intros i s0 j0 k0 e0; cbn [skip_cols]; [discriminate|].
          destruct (read_header v s0) as [[[? ?] s2]|[?|k1 e1|c1]] eqn:Eh; try discriminate; [apply IH|].
          intros Hx; inversion Hx; subst. apply read_header_fail_kind in Eh. destruct Eh as [-> | ->]; discriminate. }
        destruct (ncols <=? blen s).
        * injection H as <- H. repeat split. now apply Hk in H.
        * injection H as <- H. repeat split.
          destruct (skip_cols v 0 (length s) s) eqn:Es; [injection H as _ <- _; discriminate| |discriminate].
          injection H as <- <- <-. now apply Hk in Es.
    - destruct (negb (ncols =? N.of_nat (length (t :: ts)))) eqn:E.
      + intros [= <- <- <- <-]. left. apply negb_true_iff in E. repeat split; [lia|discriminate].
      + intros H. right. right. apply negb_false_iff in E. repeat split; [discriminate|lia|].
        apply bind_fail_shape in H. destruct H as (pre & t0 & post & pre' & t0' & s1 & H1 & H2 & H3 & H4 & H5).
        exists pre, t0, post, pre', t0', s1. repeat split; try assumption. now apply bind_one_fail.
  Qed.

  (* ---- refinement of model/Block.v -------------------------------------------------------------- *)
  Definition as_res (r : list rtarget * bout) : res (list rtarget) :=
    match snd r with BOk rest => Ok (fst r) rest | BFail _ _ e => Err e | BCrash c => Crash c end.

  Definition proj (r : list rtarget * bout) : res (list Block.col) :=
    match snd r with
    | BOk rest => match mapM col_of_target (fst r) with Some cs => Ok cs rest | None => Err EFuel end
    | BFail _ _ e => Err e
    | BCrash c => Crash c
    end.

  Theorem bind_targets_refines b v nrows : forall cs i s,
    proj (bind_targets b v nrows i (map typed_target cs) s) = dec_targets conflicts_b infer_target b v nrows cs s.
  Proof.
    induction cs as [|c cs IH]; intros i s; [reflexivity|].
    cbn [map Results.bind_targets dec_targets]. unfold Results.bind_one, bind at 1.
    pose proof (read_header_spec v s) as Hs.
    destruct (read_header v s) as [[[name tstr] s1]|o].
    2:{ destruct o as [?|k e|cr]; [contradiction| |]; rewrite Hs; reflexivity. }
    rewrite Hs. cbn [typed_target rt_name rt_col].
    destruct (negb (bytes_eqb (match c_name c with [] => name | _ :: _ => c_name c end) name)) eqn:En; [reflexivity|].
    cbn [Results.infer_tcol]. unfold Results.infer_target in *.
    pose proof (infer_st_no_crash (c_ty c) tstr) as Hnc.
    destruct (inferable_ty (c_ty c)).
    - destruct (infer_st (c_ty c) tstr) as [ty' o]. destruct o; cbn [snd] in Hnc; [|reflexivity|congruence].
      cbn [tcol_type tcol_ty set_data].
      destruct (conflicts_b tstr (type_str ty')); [reflexivity|].
      unfold bind at 1. change (if nrows =? 0 then ret (empty ty') else dec_state ty';;; dec b ty' nrows) with (dec_body b ty' nrows).
      destruct (dec_body b ty' nrows s1) as [d s3|e|cr]; [|reflexivity|reflexivity].
      specialize (IH (S i) s3). unfold bind at 1.
      destruct (bind_targets b v nrows (S i) (map typed_target cs) s3) as [r o].
      unfold proj in IH |- *. cbn [fst snd] in IH |- *.
      destruct o as [rest|j k e|cr]; rewrite <- IH; [|reflexivity|reflexivity].
      cbn [mapM col_of_target rt_col rt_name]. destruct (mapM col_of_target r); reflexivity.
    - cbn [tcol_type tcol_ty set_data].
      destruct (conflicts_b tstr (type_str (c_ty c))); [reflexivity|].
      unfold bind at 1. change (if nrows =? 0 then ret (empty (c_ty c)) else dec_state (c_ty c);;; dec b (c_ty c) nrows) with (dec_body b (c_ty c) nrows).
      destruct (dec_body b (c_ty c) nrows s1) as [d s3|e|cr]; [|reflexivity|reflexivity].
      specialize (IH (S i) s3). unfold bind at 1.
      destruct (bind_targets b v nrows (S i) (map typed_target cs) s3) as [r o].
      unfold proj in IH |- *. cbn [fst snd] in IH |- *.
      destruct o as [rest|j k e|cr]; rewrite <- IH; [|reflexivity|reflexivity].
      cbn [mapM col_of_target rt_col rt_name]. destruct (mapM col_of_target r); reflexivity.
  Qed.

  (* Results.DecodeResult of model/Block.v and of model/Results.v agree on typed targets *)
  Theorem bind_result_refines b v ncols nrows c cs s :
    proj (bind_result b v ncols nrows (map typed_target (c :: cs)) s) =
    decode_result conflicts_b infer_target b v ncols nrows (c :: cs) s.
  Proof.
    unfold Results.bind_result, decode_result, target. cbn [map]. cbn [length]. rewrite map_length.
    destruct (negb (ncols =? N.of_nat (S (length cs)))); [reflexivity|].
    apply (bind_targets_refines b v nrows (c :: cs) 0%nat s).
  Qed.

  Lemma col_of_target_inv l : forall cs, mapM col_of_target l = Some cs -> l = map typed_target cs.
  Proof.
    induction l as [|t l IH]; intros cs; cbn [mapM]; [now intros [= <-]|].
    destruct (col_of_target t) as [c|] eqn:Et; [|discriminate].
    destruct (mapM col_of_target l) as [r|]; [|discriminate]. intros [= <-]. cbn [map]. rewrite <- (IH r eq_refl). f_equal.
    unfold col_of_target in Et. destruct t as [n [ty d| |dt ty d]]; cbn in Et; try discriminate. now injection Et as <-.
  Qed.

  (* equal schemas: every target ends up holding exactly the name, type and contents of its own column *)
  Theorem bind_holds_own_data b b' v nrows cols ts bs rest :
    nrows <= max_rows -> Forall (col_ok infer_target nrows) cols -> Forall2 binds cols ts ->
    enc_cols b v nrows cols = Some bs ->
    bind_targets b' v nrows 0 (map typed_target ts) (bs ++ rest) = (map typed_target cols, BOk rest).
  Proof.
    intros Hn Hok Hb Henc.
    pose proof (dec_targets_rt conflicts_b infer_target conflicts_b_refl b b' v nrows Hn cols ts bs rest Hok Hb Henc) as H.
    rewrite <- (bind_targets_refines b' v nrows ts 0%nat (bs ++ rest)) in H. unfold proj in H.
    destruct (bind_targets b' v nrows 0 (map typed_target ts) (bs ++ rest)) as [r o]. cbn [fst snd] in H.
    destruct o as [rest'|j k e|cr]; try discriminate.
    destruct (mapM col_of_target r) as [cs|] eqn:Em; [|discriminate]. injection H as -> ->.
    now rewrite (col_of_target_inv r cols Em).
  Qed.

  (* ---- names ------------------------------------------------------------------------------------- *)
  (* every target that existed still exists at its position, and a name it had is the name it has *)
  Definition names_kept (ts ts' : list rtarget) : Prop :=
    forall i t, nth_error ts i = Some t ->
    exists t', nth_error ts' i = Some t' /\ (rt_name t <> [] -> rt_name t' = rt_name t).

  Lemma names_kept_refl ts : names_kept ts ts.
  Proof. intros i t H. now exists t. Qed.

  Lemma names_kept_trans a b c : names_kept a b -> names_kept b c -> names_kept a c.
  Proof.
    intros H1 H2 i t Ht. destruct (H1 i t Ht) as (t1 & Ht1 & Hn1). destruct (H2 i t1 Ht1) as (t2 & Ht2 & Hn2).
    exists t2. split; [assumption|]. intros Hne. rewrite <- (Hn1 Hne). apply Hn2. now rewrite (Hn1 Hne).
  Qed.

  Lemma names_kept_of_Forall2 ts ts' :
    Forall2 (fun t t' => rt_name t <> [] -> rt_name t' = rt_name t) ts ts' -> names_kept ts ts'.
  Proof.
    induction 1 as [|t t' ts ts' H0 _ IH]; intros i x Hx; [destruct i; discriminate|].
    destruct i; cbn [nth_error] in *; [injection Hx as <-; now exists t'|now apply IH].
  Qed.

  Lemma Forall2_refl_names ts : Forall2 (fun t t' : rtarget => rt_name t <> [] -> rt_name t' = rt_name t) ts ts.
  Proof. induction ts; constructor; auto. Qed.

  Lemma bind_one_name b v nrows t s : rt_name t <> [] -> rt_name (fst (bind_one b v nrows t s)) = rt_name t.
  Proof.
    intros Hn. unfold Results.bind_one.
    destruct (read_header v s) as [[[name tstr] s1]|o]; [|reflexivity].
    assert (Htn : (match rt_name t with [] => name | _ :: _ => rt_name t end) = rt_name t)
      by (destruct (rt_name t); [contradiction|reflexivity]).
    rewrite Htn.
    destruct (negb _); [reflexivity|].
    destruct (infer_tcol _ _) as [c1 o]. destruct o; try reflexivity.
    destruct (conflicts_b _ _); [reflexivity|]. destruct (tcol_ty c1); [|reflexivity].
    destruct (dec_body _ _ _ _); reflexivity.
  Qed.

  Lemma bind_targets_names b v nrows : forall ts i s,
    Forall2 (fun t t' => rt_name t <> [] -> rt_name t' = rt_name t) ts (fst (bind_targets b v nrows i ts s)).
  Proof.
    induction ts as [|t ts IH]; intros i s; cbn [Results.bind_targets]; [constructor|].
    pose proof (bind_one_name b v nrows t s) as H1.
    destruct (bind_one b v nrows t s) as [t1 o]. cbn [fst] in H1.
    destruct o as [s1|k e|c].
    - specialize (IH (S i) s1). destruct (bind_targets b v nrows (S i) ts s1) as [r o]. cbn [fst] in *. now constructor.
    - cbn [fst]. constructor; [assumption|apply Forall2_refl_names].
    - cbn [fst]. constructor; [assumption|apply Forall2_refl_names].
  Qed.

  Lemma bind_result_names b v ncols nrows ts s : names_kept ts (fst (bind_result b v ncols nrows ts s)).
  Proof.
    unfold Results.bind_result. destruct ts as [|t ts].
    - intros i x Hx. destruct i; discriminate.
    - destruct (negb _); [apply names_kept_refl|]. apply names_kept_of_Forall2, bind_targets_names.
  Qed.

  Lemma auto_result_names b v ncols nrows ts s : names_kept ts (fst (auto_result b v ncols nrows ts s)).
  Proof.
    unfold Results.auto_result. destruct ts as [|t ts]; [intros i x Hx; destruct i; discriminate|].
    apply bind_result_names.
  Qed.

  Theorem names_sticky_block auto b v ts s : names_kept ts (bo_targets (decode_block_st auto b v ts s)).
  Proof.
    unfold Results.decode_block_st.
    destruct ((if gate v FeatureBlockInfo then decode_BlockInfo blank_block_info else ret blank_block_info) s) as [i s1|e|c];
      try apply names_kept_refl.
    destruct (get_int s1) as [c s2|e|cr]; try apply names_kept_refl.
    destruct ((maxColumnsInBlock <? c) || (c <? 0))%Z; [apply names_kept_refl|].
    destruct ((r <- get_int;; n <- check_rows r;; ret (r, n)) s2) as [[r n] s3|e|cr]; try apply names_kept_refl.
    destruct ((c =? 0) && (r =? 0))%Z; [apply names_kept_refl|].
    destruct auto.
    - pose proof (auto_result_names b v (Z.to_N c) n ts s3) as H.
      destruct (auto_result b v (Z.to_N c) n ts s3). exact H.
    - pose proof (bind_result_names b v (Z.to_N c) n ts s3) as H.
      destruct (bind_result b v (Z.to_N c) n ts s3). exact H.
  Qed.

  (* whatever blocks arrive, in whatever order, well formed or not *)
  Theorem names_sticky auto b v : forall blocks ts,
    Forall (names_kept ts) (map bo_targets (run_blocks auto b v ts blocks)).
  Proof.
    induction blocks as [|s blocks IH]; intros ts; cbn [Results.run_blocks map]; constructor.
    - apply names_sticky_block.
    - eapply Forall_impl; [|apply IH]. intros ts2. apply names_kept_trans, names_sticky_block.
  Qed.

  (* ---- Infer adopts the server's parameters, and only those ------------------------------------------ *)
  Lemma dt64_infer_ok name1 name2 s n : dt64_infer zone name1 s = (n, IOk) -> dt64_infer zone name2 s = (n, IOk).
  Proof.
    unfold dt64_infer. destruct (elem_r s) as [e r|e|c]; try (intros Hx; now inversion Hx).
    destruct e; [intros Hx; now inversion Hx|].
    destruct (cut_byte 44 _) as [[pStr locStr] hasloc].
    destruct (parse_uint8 _); [|intros Hx; now inversion Hx].
    destruct (negb _); [intros Hx; now inversion Hx|].
    destruct hasloc; [destruct (zone _)|]; intros Hx; now inversion Hx.
  Qed.

  (* a ColEnum: the type string, the width and the value mapping afterwards are a function of the server's type alone *)
  Theorem infer_enum_adopts n1 w1 d1 n2 w2 d2 s t' :
    infer_st (TEnum n1 w1 d1) s = (t', IOk) ->
    infer_st (TEnum n2 w2 d2) s = (t', IOk) /\ type_str t' = s /\
    exists ds, t' = TEnum s (if bytes_eqb (base s) T_Enum8 then 1 else 2)%nat ds /\
               enum_parse (split_byte 44 (elem s)) = Some ds.
  Proof.
    cbn [Results.infer_st]. unfold enum_infer. rewrite base_r_ok, elem_r_ok. cbn [rbind rok].
    destruct (negb (has_prefix _ _)); [intros Hx; now inversion Hx|].
    destruct (negb (bytes_eqb (base s) T_Enum8 || bytes_eqb (base s) T_Enum16)); [intros Hx; now inversion Hx|].
    destruct (enum_parse (split_byte 44 (elem s))) as [ds|]; [|intros Hx; now inversion Hx].
    cbn [ty_of_col]. intros Hx; inversion Hx; subst. repeat split. now exists ds.
  Qed.

  (* a ColDateTime / ColDateTime64 / ColInterval: the Type() afterwards does not depend on the zone, precision or
     scale the column had *)
  Theorem infer_fix_adopts name1 name2 w s t' :
    fix_kind name1 w = fix_kind name2 w -> fix_kind name1 w <> FPlain ->
    infer_st (TFix name1 w) s = (t', IOk) -> infer_st (TFix name2 w) s = (t', IOk).
  Proof.
    intros Hk Hp. cbn [Results.infer_st]. rewrite <- Hk. destruct (fix_kind name1 w); [contradiction| | |].
    - unfold of_res. destruct (datetime_infer zone s); intros Hx; now inversion Hx.
    - destruct (dt64_infer zone name1 s) as [n o] eqn:E. intros Hx; inversion Hx; subst.
      now rewrite (dt64_infer_ok name1 name2 s n E).
    - unfold of_res. destruct (interval_infer tl s); intros Hx; now inversion Hx.
  Qed.

  (* ColInterval adopts exactly the server's name *)
  Theorem infer_interval_adopts name w s t' :
    fix_kind name w = FInterval -> infer_st (TFix name w) s = (t', IOk) -> t' = TFix s w.
  Proof.
    intros Hk. cbn [Results.infer_st]. rewrite Hk. unfold of_res, interval_infer.
    destruct (interval_scale_string tl s) as [k|]; [|intros Hx; now inversion Hx].
    destruct (bytes_eqb (nth k interval_names []) s) eqn:E; [|intros Hx; now inversion Hx].
    apply TypeStrProofs.bytes_eqb_eq in E. intros Hx; inversion Hx; subst. cbn [col_type]. reflexivity.
  Qed.

  (* whatever Infer accepted, the bind went on only if the target's Type() afterwards does not conflict with the
     server's type: first component of [bound] *)
End ResProofs.
