(* C18, extension: adoption is independent of nesting; the state of a failing target.

   Which wrappers hand Infer on to the columns they wrap (read from /repo/proto, after the two repairs made for this
   extension):
     ColArr.Infer             col_arr.go      Data.Infer(t.Elem())                        when Data is Inferable
     ColNullable.Infer        col_nullable.go         Values.Infer(t.Elem())    (added by the repair: before it ColNullable and
     ColLowCardinality.Infer  col_low_cardinality.go  index.Infer(t.Elem())      ColLowCardinality had no Infer method and a
                                              leaf below them silently kept the parameters it was built with)
     ColMap.Infer      col_map.go      splitTypeArgs(t.Elem()) - the commas outside parentheses and quotes - must give two
                                       pieces: Keys.Infer(TrimSpace(first)), then Values.Infer(TrimSpace(second))  (repaired:
                                       before, the string was cut at its first comma and any further comma was an error)
     ColTuple.Infer    col_tuple.go    splitTypeArgs(t.Elem()) must give as many pieces as the tuple has elements (checked when
                                       there is an Inferable element); element i gets Infer(TrimSpace(piece i))  (repaired
                                       by the C18y extension: before, every Inferable member got the WHOLE string t, so that a
                                       tuple with an adopting member rejected its own type)
     ColNamed.Infer    col_tuple.go    the string must be "<Name> <type>" (strings.CutPrefix): ColumnOf.Infer(<type>)  (repaired
                                       together with ColTuple.Infer: it used to forward the string unchanged)
     ColAuto.Infer     col_auto.go     a compatible type is handed to the held column (top level only: a ColAuto is
                                       not a ColumnOf[T], so it cannot be wrapped)
   Adopting leaves: ColEnum, ColDateTime, ColDateTime64, ColInterval.  ColFixedStr and the decimals do not implement
   Inferable.  model/Results.v [infer_st] / [inferable_ty] mirror exactly this.

   - [skel t]: the static shape of a target - everything but the parameters Infer can replace
   - [infer_st_indep]: outcome and (on success) resulting column of Infer are functions of the shape and the server's
     type string alone; [infer_st_skel]: Infer never changes the shape; hence a later Infer forgets an earlier one
   - [adopted]: the parameters each reached leaf holds are those spelled at its position in the server's string
   - typed targets keep their shape through any sequence of blocks, failed ones included; after any such history a
     well-formed block whose names fit binds exactly ([after_history_bind_ok], [failed_bind_then_bind_ok])
   - the residue of a failed decode (model/DecPart.v): readable for the flat kinds, not in general *)
From CH Require Import model.Columns model.Block model.TypeStr model.DecPart model.Results.
From CH Require Import proofs.PrimProofs proofs.ColumnsProofs proofs.ColumnsProofs2 proofs.BlockProofs proofs.TypeStrProofs
  proofs.ResultsProofs.
From CH Require Import gen.Features gen.Consts gen.TypeNames.
From Coq Require Import ZifyN ZifyNat ZifyBool.
Ltac Zify.zify_post_hook ::= Z.div_mod_to_equations.
Open Scope N_scope.
Open Scope list_scope.

(* ---- the static shape of a target --------------------------------------------------------------- *)
(* the parameters Infer replaces are erased: a DateTime's zone, a DateTime64's precision and zone, an Interval's
   scale, an Enum's name, width and definitions, at every depth; a column that is not Inferable is kept verbatim *)
Inductive wrapk := WArr | WNullable | WLowCard.
Definition wrap_ty (k : wrapk) (d : ty) : ty :=
  match k with WArr => TArr d | WNullable => TNullable d | WLowCard => TLowCard d end.

Inductive shape :=
| SLeaf (t : ty)                   (* nothing Infer can change: a column that is not Inferable *)
| SAdopt (k : fixk) (w : nat)      (* ColDateTime / ColDateTime64 / ColInterval *)
| SEnum                            (* ColEnum *)
| SWrap (k : wrapk) (d : shape)    (* ColArr / ColNullable / ColLowCardinality *)
| SMap (k v : shape) | STuple (ts : list shape) | SNamed (n : bytes) (d : shape).

Fixpoint skel (t : ty) : shape :=
  match t with
  | TFix name w => match fix_kind name w with FPlain => SLeaf t | k => SAdopt k w end
  | TEnum _ _ _ => SEnum
  | TArr d => SWrap WArr (skel d)
  | TNullable d => SWrap WNullable (skel d)
  | TLowCard d => SWrap WLowCard (skel d)
  | TMap k v => SMap (skel k) (skel v)
  | TTuple ts => STuple (map skel ts)
  | TNamed n d => SNamed n (skel d)
  | _ => SLeaf t
  end.

Lemma skel_wrap k d : skel (wrap_ty k d) = SWrap k (skel d).
Proof. destruct k; reflexivity. Qed.

Lemma skel_fix n1 w1 n2 w2 : skel (TFix n1 w1) = skel (TFix n2 w2) ->
  w1 = w2 /\ fix_kind n1 w1 = fix_kind n2 w2 /\ (fix_kind n1 w1 = FPlain -> n1 = n2).
Proof.
  cbn [skel]. destruct (fix_kind n1 w1) eqn:E1; destruct (fix_kind n2 w2) eqn:E2; intros H; inversion H; subst;
    repeat split; congruence.
Qed.

Definition shape_inferable (x : shape) : bool := match x with SLeaf _ => false | _ => true end.
Lemma inferable_skel t : inferable_ty t = shape_inferable (skel t).
Proof. destruct t; cbn [inferable_ty skel shape_inferable]; try reflexivity. destruct (fix_kind name w); reflexivity. Qed.

Lemma skel_inferable : forall t1 t2, skel t1 = skel t2 -> inferable_ty t1 = inferable_ty t2.
Proof. intros t1 t2 H. now rewrite !inferable_skel, H. Qed.

(* a column that is not Inferable has nothing to erase *)
Lemma skel_leaf t : inferable_ty t = false -> skel t = SLeaf t.
Proof.
  destruct t; cbn [inferable_ty skel]; try discriminate; try reflexivity.
  destruct (fix_kind name w); [reflexivity|discriminate..].
Qed.
Lemma skel_plain t1 t2 : inferable_ty t1 = false -> skel t1 = skel t2 -> t1 = t2.
Proof.
  intros Hi H. pose proof (skel_inferable _ _ H) as Hi2. rewrite Hi in Hi2. symmetry in Hi2.
  rewrite (skel_leaf _ Hi), (skel_leaf _ Hi2) in H. now injection H.
Qed.

(* ---- Infer reaches below Array / Map / Tuple / Named only ----------------------------------------- *)
Section ResProofs2.
  Variable zone : bytes -> option bytes.
  Variable tl : bytes -> bytes.

  Notation infer_st := (infer_st zone tl).
  Notation infer_tcol := (infer_tcol zone tl).
  Notation infer_target := (infer_target zone tl).
  Notation bind_one := (bind_one zone tl).
  Notation bind_targets := (bind_targets zone tl).
  Notation bind_result := (bind_result zone tl).
  Notation auto_result := (auto_result zone tl).
  Notation decode_block_st := (decode_block_st zone tl).
  Notation run_blocks := (run_blocks zone tl).
  Notation bound := (bound zone tl).

  (* what the wrappers do, equation by equation *)
  Lemma infer_st_wrap k d s : infer_st (wrap_ty k d) s =
    if inferable_ty d then let '(d', o) := infer_st d (elem s) in (wrap_ty k d', o) else (wrap_ty k d, IOk).
  Proof. destruct k; cbn [wrap_ty Results.infer_st]; now rewrite elem_r_ok. Qed.

  Notation opt_infer := (opt_infer zone tl).
  Notation tup_infer := (tup_infer zone tl).

  Lemma infer_st_map k v s : infer_st (TMap k v) s =
    match split_type_args (elem s) with
    | [kt; vt] =>
      let '(k', ok) := opt_infer k (trim_space kt) in
      match ok with
      | IOk => let '(v', ov) := opt_infer v (trim_space vt) in (TMap k' v', ov)
      | _ => (TMap k' v, ok)
      end
    | _ => (TMap k v, IErr)
    end.
  Proof. cbn [Results.infer_st]. now rewrite elem_r_ok. Qed.

  (* ---- the leaves ------------------------------------------------------------------------------------- *)
  Lemma fix_kind_w n w :
    (fix_kind n w = FDateTime -> w = 4%nat) /\ (fix_kind n w = FDateTime64 -> w = 8%nat) /\ (fix_kind n w = FInterval -> w = 8%nat).
  Proof.
    unfold fix_kind. rewrite base_r_ok. cbn [rok].
    destruct (bytes_eqb (base n) T_DateTime); cbn [andb].
    - destruct (w =? 4)%nat eqn:E4; [repeat split; intros; try discriminate; now apply Nat.eqb_eq|].
      destruct (bytes_eqb (base n) T_DateTime64); cbn [andb].
      + destruct (w =? 8)%nat eqn:E8; [repeat split; intros; try discriminate; now apply Nat.eqb_eq|].
        destruct (existsb _ _); cbn [andb]; repeat split; intros; discriminate.
      + destruct (existsb _ _); cbn [andb]; [|repeat split; intros; discriminate].
        destruct (w =? 8)%nat eqn:E8; repeat split; intros; try discriminate; now apply Nat.eqb_eq.
    - destruct (bytes_eqb (base n) T_DateTime64); cbn [andb].
      + destruct (w =? 8)%nat eqn:E8; [repeat split; intros; try discriminate; now apply Nat.eqb_eq|].
        destruct (existsb _ _); cbn [andb]; repeat split; intros; discriminate.
      + destruct (existsb _ _); cbn [andb]; [|repeat split; intros; discriminate].
        destruct (w =? 8)%nat eqn:E8; repeat split; intros; try discriminate; now apply Nat.eqb_eq.
  Qed.

  Lemma fix_kind_datetime z : fix_kind (col_type (CDateTime z)) 4 = FDateTime.
  Proof.
    destruct z as [l|]; [|reflexivity]. cbn [col_type]. rewrite with_params_one. unfold fix_kind, wrap.
    rewrite base_r_ok, base_wrap by (reflexivity || discriminate). reflexivity.
  Qed.

  Lemma fix_kind_datetime64 p z : fix_kind (col_type (CDateTime64 p z)) 8 = FDateTime64.
  Proof.
    cbn [col_type]. set (params := dec_of_N p :: _).
    assert (H : with_params T_DateTime64 params = T_DateTime64 ++ 40 :: join_with [44; 32] params ++ [41]) by reflexivity.
    rewrite H. unfold fix_kind. rewrite base_r_ok, base_wrap by (reflexivity || discriminate). reflexivity.
  Qed.

  Lemma interval_names_kind : Forall (fun nm => fix_kind nm 8 = FInterval) interval_names.
  Proof. vm_compute. repeat constructor. Qed.

  Lemma interval_infer_ok s c r : interval_infer tl s = Ok c r -> col_type c = s /\ In s interval_names.
  Proof.
    unfold interval_infer, interval_scale_string.
    assert (Hk : forall k, (k < length interval_names)%nat -> bytes_eqb (nth k interval_names []) s = true ->
                 col_type (CInterval k) = s /\ In s interval_names).
    { intros k Hlt E. apply TypeStrProofs.bytes_eqb_eq in E. cbn [col_type]. split; [exact E|]. rewrite <- E. now apply nth_In. }
    destruct (interval_find s 0 interval_names interval_lower_names) as [k|] eqn:E1.
    - apply interval_find_some in E1. destruct (bytes_eqb (nth k interval_names []) s) eqn:E; [|discriminate].
      intros [= <- _]. apply Hk; [lia|exact E].
    - destruct (interval_find (tl s) 0 interval_names interval_lower_names) as [k|] eqn:E2; [|discriminate].
      apply interval_find_some in E2. destruct (bytes_eqb (nth k interval_names []) s) eqn:E; [|discriminate].
      intros [= <- _]. apply Hk; [lia|exact E].
  Qed.

  (* the name a ColDateTime64 reports after Infer: its own, or one built from the server's string *)
  Definition dt64_params (s : bytes) : option (N * option bytes) :=
    match elem s with
    | [] => None
    | e =>
      let '(pStr, locStr, hasloc) := cut_byte 44 e in
      match parse_uint8 (trim_set [39; 32] pStr) with
      | None => None
      | Some n =>
        if negb (n <=? precision_max) then None
        else if hasloc then
          match zone (trim_set [39; 32] locStr) with
          | Some l => Some (n, Some l)
          | None => None
          end
        else Some (n, None)
      end
    end.
  Lemma dt64_infer_spec name s :
    dt64_infer zone name s =
    match dt64_params s with
    | Some (p, z) => (col_type (CDateTime64 p z), IOk)
    | None => (name, IErr)
    end.
  Proof.
    unfold dt64_infer, dt64_params. rewrite elem_r_ok. cbn [rok].
    destruct (elem s); [reflexivity|].
    destruct (cut_byte 44 _) as [[pStr locStr] hasloc].
    destruct (parse_uint8 _); [|reflexivity].
    destruct (negb _); [reflexivity|].
    destruct hasloc; [destruct (zone _)|]; reflexivity.
  Qed.

  (* ColDateTime.Infer: the zone spelled in the server's string, as time.LoadLocation names it *)
  Definition dt_params (s : bytes) : option (option bytes) :=
    match elem s with
    | [] => Some None
    | e => match zone (trim_set [39] e) with Some l => Some (Some l) | None => None end
    end.
  Lemma datetime_infer_spec s :
    datetime_infer zone s = match dt_params s with Some z => rok (CDateTime z) | None => Err EInvalid end.
  Proof.
    unfold datetime_infer, dt_params. rewrite elem_r_ok. cbn [rbind rok].
    destruct (elem s); [reflexivity|]. destruct (zone _); reflexivity.
  Qed.

  Definition enum_params (s : bytes) : option (nat * list (bytes * Z)) :=
    if negb (has_prefix (s2b "Enum") (base s)) then None
    else if negb (bytes_eqb (base s) T_Enum8 || bytes_eqb (base s) T_Enum16) then None
    else match enum_parse (split_byte 44 (elem s)) with
         | Some ds => Some ((if bytes_eqb (base s) T_Enum8 then 1 else 2)%nat, ds)
         | None => None
         end.
  Lemma infer_st_enum n w d s :
    infer_st (TEnum n w d) s = match enum_params s with Some (w', ds) => (TEnum s w' ds, IOk) | None => (TEnum n w d, IErr) end.
  Proof.
    cbn [Results.infer_st]. unfold enum_infer, enum_params. rewrite base_r_ok, elem_r_ok. cbn [rbind rok].
    destruct (negb (has_prefix _ _)); [reflexivity|].
    destruct (negb (bytes_eqb (base s) T_Enum8 || bytes_eqb (base s) T_Enum16)); [reflexivity|].
    destruct (enum_parse _); reflexivity.
  Qed.

  Lemma infer_st_fix name w s :
    infer_st (TFix name w) s =
    match fix_kind name w with
    | FPlain => (TFix name w, IOk)
    | FDateTime => match dt_params s with Some z => (TFix (col_type (CDateTime z)) w, IOk) | None => (TFix name w, IErr) end
    | FDateTime64 => match dt64_params s with Some (p, z) => (TFix (col_type (CDateTime64 p z)) w, IOk) | None => (TFix name w, IErr) end
    | FInterval => if is_ok (interval_infer tl s) then (TFix s w, IOk) else (TFix name w, IErr)
    end.
  Proof.
    cbn [Results.infer_st]. destruct (fix_kind name w); [reflexivity| | |].
    - rewrite datetime_infer_spec. destruct (dt_params s); reflexivity.
    - rewrite dt64_infer_spec. destruct (dt64_params s) as [[p z]|]; reflexivity.
    - unfold of_res. destruct (interval_infer tl s) as [c r|e|c] eqn:E; cbn [is_ok].
      + apply interval_infer_ok in E. destruct E as [E Hin]. now rewrite E.
      + reflexivity.
      + pose proof (interval_infer_no_crash tl s) as Hc. rewrite E in Hc. discriminate.
  Qed.

  (* ---- Infer never changes the shape (whatever its outcome) ----------------------------------------------- *)
  Lemma skel_adopting n w k : fix_kind n w = k -> k <> FPlain -> skel (TFix n w) = SAdopt k w.
  Proof. intros E Hk. cbn [skel]. rewrite E. destruct k; [contradiction|reflexivity..]. Qed.

  Lemma opt_infer_skel t s : (forall s0, skel (fst (infer_st t s0)) = skel t) -> skel (fst (opt_infer t s)) = skel t.
  Proof. intros IH. unfold opt_infer. destruct (inferable_ty t); [apply IH|reflexivity]. Qed.

  Lemma infer_st_skel_wrap k d : (forall s, skel (fst (infer_st d s)) = skel d) ->
    forall s, skel (fst (infer_st (wrap_ty k d) s)) = skel (wrap_ty k d).
  Proof.
    intros IH s. rewrite infer_st_wrap. destruct (inferable_ty d); [|reflexivity].
    specialize (IH (elem s)). destruct (infer_st d (elem s)) as [d' o]. cbn [fst] in *. now rewrite !skel_wrap, IH.
  Qed.

  Theorem infer_st_skel : forall t s, skel (fst (infer_st t s)) = skel t.
  Proof.
    induction t as [name w| | | | |sz| | |name w defs|t IH|t IH|t IH|k v IHk IHv|ts IH|name t IH] using ty_ind';
      intros s; try reflexivity.
    - rewrite infer_st_fix. destruct (fix_kind name w) eqn:E; [reflexivity| | |].
      + destruct (dt_params s) as [z|]; [|reflexivity]. cbn [fst].
        pose proof (proj1 (fix_kind_w name w) E) as ->.
        rewrite (skel_adopting _ _ _ (fix_kind_datetime z)), (skel_adopting _ _ _ E); (reflexivity || discriminate).
      + destruct (dt64_params s) as [[p z]|]; [|reflexivity]. cbn [fst].
        pose proof (proj1 (proj2 (fix_kind_w name w)) E) as ->.
        rewrite (skel_adopting _ _ _ (fix_kind_datetime64 p z)), (skel_adopting _ _ _ E); (reflexivity || discriminate).
      + destruct (interval_infer tl s) as [c r|e|c] eqn:Ei; cbn [is_ok]; [|reflexivity..]. cbn [fst].
        pose proof (proj2 (proj2 (fix_kind_w name w)) E) as ->.
        apply interval_infer_ok in Ei. destruct Ei as [_ Hin].
        pose proof (proj1 (Forall_forall _ _) interval_names_kind s Hin) as Hk. cbn beta in Hk.
        rewrite (skel_adopting _ _ _ Hk), (skel_adopting _ _ _ E); (reflexivity || discriminate).
    - rewrite infer_st_enum. destruct (enum_params s) as [[w' ds]|]; reflexivity.
    - apply (infer_st_skel_wrap WArr t IH).
    - apply (infer_st_skel_wrap WNullable t IH).
    - apply (infer_st_skel_wrap WLowCard t IH).
    - rewrite infer_st_map. destruct (split_type_args (elem s)) as [|kt [|vt [|x l]]]; try reflexivity.
      pose proof (opt_infer_skel k (trim_space kt) IHk) as Hk.
      pose proof (opt_infer_skel v (trim_space vt) IHv) as Hv.
      destruct (opt_infer k (trim_space kt)) as [k' ok]. cbn [fst] in Hk.
      destruct ok; [|cbn [fst skel]; now rewrite Hk..].
      destruct (opt_infer v (trim_space vt)) as [v' ov]. cbn [fst skel] in *. now rewrite Hk, Hv.
    - rewrite infer_st_tuple. destruct (existsb inferable_ty ts); [|reflexivity]. destruct (negb _); [reflexivity|].
      pose proof (tup_infer_rel zone tl (fun t t' => skel t' = skel t) (fun t => eq_refl) ts IH (split_type_args (elem s))) as HF.
      destruct (tup_infer ts _) as [ts' o]. cbn [fst skel] in *. f_equal.
      clear -HF. induction HF; cbn [map]; congruence.
    - rewrite infer_st_named. destruct (inferable_ty t); [|reflexivity]. destruct (cut_prefix _ s) as [e|]; [|reflexivity].
      specialize (IH e). destruct (infer_st t e) as [d' o]. cbn [fst skel] in *. now rewrite IH.
  Qed.

  (* ---- nesting independence: outcome and adopted column are functions of the shape and the server's string ---- *)
  Definition same_infer (t1 t2 : ty) (s : bytes) : Prop :=
    snd (infer_st t1 s) = snd (infer_st t2 s) /\ (snd (infer_st t1 s) = IOk -> fst (infer_st t1 s) = fst (infer_st t2 s)).

  Lemma skel_inv_leaf t x : skel t = SLeaf x -> t = x.
  Proof. destruct t; cbn [skel]; try discriminate; try (now intros [= <-]). destruct (fix_kind name w); try discriminate. now intros [= <-]. Qed.
  Lemma skel_inv_adopt t k w : skel t = SAdopt k w -> exists n, t = TFix n w /\ fix_kind n w = k /\ k <> FPlain.
  Proof.
    destruct t; cbn [skel]; try discriminate. destruct (fix_kind name w0) eqn:E; try discriminate;
      intros [= <- <-]; exists name; repeat split; (assumption || discriminate).
  Qed.
  Lemma skel_inv_enum t : skel t = SEnum -> exists n w d, t = TEnum n w d.
  Proof. destruct t; cbn [skel]; try discriminate; [destruct (fix_kind name w); discriminate|]. intros _. now exists name, w, defs. Qed.
  Lemma skel_inv_wrap t k x : skel t = SWrap k x -> exists d, t = wrap_ty k d /\ skel d = x.
  Proof.
    destruct t; cbn [skel]; try discriminate; [destruct (fix_kind name w); discriminate|..]; intros [= <- <-]; now exists t.
  Qed.
  Lemma skel_inv_map t x y : skel t = SMap x y -> exists k v, t = TMap k v /\ skel k = x /\ skel v = y.
  Proof. destruct t; cbn [skel]; try discriminate; [destruct (fix_kind name w); discriminate|]. intros [= <- <-]. now exists t1, t2. Qed.
  Lemma skel_inv_tuple t l : skel t = STuple l -> exists ts, t = TTuple ts /\ map skel ts = l.
  Proof. destruct t; cbn [skel]; try discriminate; [destruct (fix_kind name w); discriminate|]. intros [= <-]. now exists ts. Qed.
  Lemma skel_inv_named t n x : skel t = SNamed n x -> exists d, t = TNamed n d /\ skel d = x.
  Proof. destruct t; cbn [skel]; try discriminate; [destruct (fix_kind name w); discriminate|]. intros [= <- <-]. now exists t. Qed.

  Lemma same_infer_refl t s : same_infer t t s.
  Proof. now split. Qed.

  Lemma opt_infer_same t1 t2 s : skel t1 = skel t2 -> (forall s0, same_infer t1 t2 s0) ->
    snd (opt_infer t1 s) = snd (opt_infer t2 s) /\ (snd (opt_infer t1 s) = IOk -> fst (opt_infer t1 s) = fst (opt_infer t2 s)).
  Proof.
    intros Hs IH. unfold opt_infer. rewrite <- (skel_inferable _ _ Hs).
    destruct (inferable_ty t1) eqn:Ei; [apply IH|]. cbn [fst snd]. split; [reflexivity|]. intros _. now apply skel_plain.
  Qed.

  Lemma infer_st_indep_wrap k d : (forall t2 s, skel d = skel t2 -> same_infer d t2 s) ->
    forall t2 s, skel (wrap_ty k d) = skel t2 -> same_infer (wrap_ty k d) t2 s.
  Proof.
    intros IH t2 s H. rewrite skel_wrap in H. symmetry in H. apply skel_inv_wrap in H. destruct H as (d2 & -> & Hd). symmetry in Hd.
    unfold same_infer. rewrite !infer_st_wrap, <- (skel_inferable _ _ Hd).
    destruct (inferable_ty d) eqn:Ei.
    - destruct (IH d2 (elem s) Hd) as [Ho Hf].
      destruct (infer_st d (elem s)) as [a oa]. destruct (infer_st d2 (elem s)) as [b ob]. cbn [fst snd] in *.
      split; [exact Ho|]. intros Hx. now rewrite (Hf Hx).
    - cbn [fst snd]. split; [reflexivity|]. intros _. f_equal. now apply skel_plain.
  Qed.

  Theorem infer_st_indep : forall t1 t2 s, skel t1 = skel t2 -> same_infer t1 t2 s.
  Proof.
    induction t1 as [name w| | | | |sz| | |name w defs|t IH|t IH|t IH|k v IHk IHv|ts IH|name t IH] using ty_ind';
      intros t2 s H;
      try (cbn [skel] in H; symmetry in H; apply skel_inv_leaf in H; subst t2; apply same_infer_refl).
    - cbn [skel] in H. destruct (fix_kind name w) eqn:E.
      + symmetry in H. apply skel_inv_leaf in H. subst t2. apply same_infer_refl.
      + symmetry in H. apply skel_inv_adopt in H. destruct H as (n2 & -> & E2 & _).
        unfold same_infer. rewrite !infer_st_fix, E, E2. destruct (dt_params s); cbn [fst snd]; split; (reflexivity || discriminate).
      + symmetry in H. apply skel_inv_adopt in H. destruct H as (n2 & -> & E2 & _).
        unfold same_infer. rewrite !infer_st_fix, E, E2. destruct (dt64_params s) as [[p z]|]; cbn [fst snd]; split; (reflexivity || discriminate).
      + symmetry in H. apply skel_inv_adopt in H. destruct H as (n2 & -> & E2 & _).
        unfold same_infer. rewrite !infer_st_fix, E, E2. destruct (is_ok _); cbn [fst snd]; split; (reflexivity || discriminate).
    - cbn [skel] in H. symmetry in H. apply skel_inv_enum in H. destruct H as (n2 & w2 & d2 & ->).
      unfold same_infer. rewrite !infer_st_enum. destruct (enum_params s) as [[w' ds]|]; cbn [fst snd]; split; (reflexivity || discriminate).
    - apply (infer_st_indep_wrap WArr t IH t2 s H).
    - apply (infer_st_indep_wrap WNullable t IH t2 s H).
    - apply (infer_st_indep_wrap WLowCard t IH t2 s H).
    - cbn [skel] in H. symmetry in H. apply skel_inv_map in H. destruct H as (k2 & v2 & -> & Hk & Hv). symmetry in Hk, Hv.
      unfold same_infer. rewrite !infer_st_map.
      destruct (split_type_args (elem s)) as [|kt [|vt [|x l]]]; try (cbn [fst snd]; split; [reflexivity|discriminate]).
      destruct (opt_infer_same k k2 (trim_space kt) Hk (fun s0 => IHk k2 s0 Hk)) as [Hok Hfk].
      destruct (opt_infer_same v v2 (trim_space vt) Hv (fun s0 => IHv v2 s0 Hv)) as [Hov Hfv].
      destruct (opt_infer k (trim_space kt)) as [ka oka]. destruct (opt_infer k2 (trim_space kt)) as [kb okb].
      cbn [fst snd] in Hok, Hfk. subst okb.
      destruct oka; [|cbn [fst snd]; split; [reflexivity|discriminate]..].
      rewrite (Hfk eq_refl).
      destruct (opt_infer v (trim_space vt)) as [va ova]. destruct (opt_infer v2 (trim_space vt)) as [vb ovb].
      cbn [fst snd] in *. subst ovb. split; [reflexivity|]. intros Hx. now rewrite (Hfv Hx).
    - cbn [skel] in H. symmetry in H. apply skel_inv_tuple in H. destruct H as (ts2 & -> & Hm). symmetry in Hm.
      unfold same_infer. rewrite !infer_st_tuple.
      assert (He : existsb inferable_ty ts2 = existsb inferable_ty ts).
      { clear -Hm. revert ts2 Hm. induction ts as [|a r IHr]; intros [|b r2] Hm; try discriminate; [reflexivity|].
        cbn [map] in Hm. injection Hm as H0 Hr. cbn [existsb]. now rewrite (skel_inferable _ _ H0), (IHr r2 Hr). }
      assert (Hl : length ts2 = length ts) by (rewrite <- (map_length skel ts2), <- Hm; apply map_length).
      assert (Hplain : existsb inferable_ty ts = false -> ts = ts2).
      { clear -Hm. revert ts2 Hm. induction ts as [|a r IHr]; intros [|b r2] Hm; try discriminate; [reflexivity|].
        cbn [map] in Hm. injection Hm as H0 Hr. cbn [existsb]. intros Hx. apply orb_false_iff in Hx. destruct Hx as [Ha Hr'].
        now rewrite (skel_plain _ _ Ha H0), (IHr r2 Hr Hr'). }
      rewrite He, Hl. destruct (existsb inferable_ty ts).
      2:{ cbn [fst snd]. split; [reflexivity|]. intros _. now rewrite Hplain. }
      destruct (negb _) eqn:El; [cbn [fst snd]; split; [reflexivity|discriminate]|].
      apply negb_false_iff, Nat.eqb_eq in El.
      assert (Hg : forall args, length args = length ts ->
                   snd (tup_infer ts args) = snd (tup_infer ts2 args) /\
                   (snd (tup_infer ts args) = IOk -> fst (tup_infer ts args) = fst (tup_infer ts2 args))).
      { clear He Hl Hplain El. revert ts2 Hm. induction IH as [|t0 r Ht0 _ IHr]; intros ts2 Hm args Hla.
        - destruct ts2; [|discriminate]. now split.
        - destruct ts2 as [|u0 r2]; [discriminate|]. cbn [map] in Hm. injection Hm as H0 Hr.
          destruct args as [|a ar]; [discriminate|]. cbn [length] in Hla. injection Hla as Hla.
          cbn [ResultsProofs.tup_infer].
          destruct (opt_infer_same t0 u0 (trim_space a) H0 (fun s0 => Ht0 u0 s0 H0)) as [Ho Hf].
          destruct (opt_infer t0 (trim_space a)) as [x ox]. destruct (opt_infer u0 (trim_space a)) as [y oy].
          cbn [fst snd] in Ho, Hf. subst oy.
          destruct ox; [|cbn [fst snd]; split; [reflexivity|discriminate]..].
          rewrite (Hf eq_refl). destruct (IHr r2 Hr ar Hla) as [Ho2 Hf2].
          destruct (tup_infer r ar) as [ra oa2]. destruct (tup_infer r2 ar) as [rb ob2]. cbn [fst snd] in *.
          subst ob2. split; [reflexivity|]. intros Hx. now rewrite (Hf2 Hx). }
      destruct (Hg _ El) as [Ho Hf].
      destruct (tup_infer ts _) as [x ox]. destruct (tup_infer ts2 _) as [y oy]. cbn [fst snd] in *.
      split; [exact Ho|]. intros Hx. now rewrite (Hf Hx).
    - cbn [skel] in H. symmetry in H. apply skel_inv_named in H. destruct H as (d2 & -> & Hd). symmetry in Hd.
      unfold same_infer. rewrite !infer_st_named, <- (skel_inferable _ _ Hd).
      destruct (inferable_ty t) eqn:Ei.
      + destruct (cut_prefix _ s) as [e|]; [|cbn [fst snd]; split; [reflexivity|discriminate]].
        destruct (IH d2 e Hd) as [Ho Hf].
        destruct (infer_st t e) as [x ox]. destruct (infer_st d2 e) as [y oy]. cbn [fst snd] in *.
        split; [exact Ho|]. intros Hx. now rewrite (Hf Hx).
      + cbn [fst snd]. split; [reflexivity|]. intros _. f_equal. now apply skel_plain.
  Qed.

  (* in the form the brief asks for *)
  Corollary infer_nesting_independent t1 t2 s t' :
    skel t1 = skel t2 -> infer_st t1 s = (t', IOk) -> infer_st t2 s = (t', IOk).
  Proof.
    intros Hs H. destruct (infer_st_indep t1 t2 s Hs) as [Ho Hf]. rewrite H in Ho, Hf. cbn [fst snd] in *.
    destruct (infer_st t2 s) as [b ob]. cbn [fst snd] in *. subst ob. now rewrite (Hf eq_refl).
  Qed.

  (* a second Infer re-adopts: whatever an earlier Infer (successful or not, with whatever string) left in the column,
     the result is what the column as first built would have given - nothing of the earlier type survives *)
  Corollary second_infer_forgets_first t s1 s2 t2 :
    infer_st (fst (infer_st t s1)) s2 = (t2, IOk) <-> infer_st t s2 = (t2, IOk).
  Proof.
    split; apply infer_nesting_independent; [|symmetry]; apply infer_st_skel.
  Qed.

  (* ---- what is adopted: the parameters spelled at the leaf's position in the server's string --------------------- *)
  (* [adopted t' s]: walking the server's string the way the wrappers split it (Array, Nullable, LowCardinality: Elem();
     Map and Tuple: the top-level arguments of Elem(), trimmed; Named: what follows its own name), every leaf holds exactly the parameters of
     the piece it was handed: an Enum that piece as its type, the width of its base and the definitions parsed from
     it; a DateTime the zone named there (as time.LoadLocation reports it) or none; a DateTime64 the precision and the
     zone named there or none; an Interval that piece as its name.  Columns that are not Inferable are untouched
     ([infer_st_skel]). *)
  Fixpoint adopted (t' : ty) (s : bytes) : Prop :=
    match t' with
    | TFix n w =>
      match fix_kind n w with
      | FPlain => True
      | FDateTime => exists z, dt_params s = Some z /\ n = col_type (CDateTime z)
      | FDateTime64 => exists p z, dt64_params s = Some (p, z) /\ n = col_type (CDateTime64 p z)
      | FInterval => n = s /\ In s interval_names
      end
    | TEnum n w defs => enum_params s = Some (w, defs) /\ n = s
    | TArr d | TNullable d | TLowCard d => inferable_ty d = true -> adopted d (elem s)
    | TMap k v =>
      match split_type_args (elem s) with
      | [kt; vt] => (inferable_ty k = true -> adopted k (trim_space kt)) /\ (inferable_ty v = true -> adopted v (trim_space vt))
      | _ => False
      end
    | TTuple ts =>
      existsb inferable_ty ts = true ->
      length (split_type_args (elem s)) = length ts /\
      (fix go (l : list ty) (args : list bytes) : Prop :=
         match l, args with
         | t0 :: r, a :: ar => (inferable_ty t0 = true -> adopted t0 (trim_space a)) /\ go r ar
         | _, _ => True
         end) ts (split_type_args (elem s))
    | TNamed n d => inferable_ty d = true -> exists e, cut_prefix (n ++ [32]) s = Some e /\ adopted d e
    | _ => True
    end.

  Lemma infer_keeps_inferable t s : inferable_ty (fst (infer_st t s)) = inferable_ty t.
  Proof. apply skel_inferable, infer_st_skel. Qed.

  Lemma opt_adopted t s t' :
    (forall s0 t0, infer_st t s0 = (t0, IOk) -> adopted t0 s0) ->
    opt_infer t s = (t', IOk) -> inferable_ty t' = true -> adopted t' s.
  Proof.
    intros IH. unfold opt_infer. destruct (inferable_ty t) eqn:Ei.
    - intros H _. now apply IH.
    - intros [= <-] Hx. congruence.
  Qed.

  Lemma adopted_wrap k d s : adopted (wrap_ty k d) s = (inferable_ty d = true -> adopted d (elem s)).
  Proof. destruct k; reflexivity. Qed.

  Lemma infer_adopts_wrap k d : (forall s t', infer_st d s = (t', IOk) -> adopted t' s) ->
    forall s t', infer_st (wrap_ty k d) s = (t', IOk) -> adopted t' s.
  Proof.
    intros IH s t'. rewrite infer_st_wrap. destruct (inferable_ty d) eqn:Ei.
    - destruct (infer_st d (elem s)) as [d' o] eqn:Ed. intros [= <- ->]. rewrite adopted_wrap. intros _. now apply IH.
    - intros [= <-]. rewrite adopted_wrap. congruence.
  Qed.

  Theorem infer_adopts : forall t s t', infer_st t s = (t', IOk) -> adopted t' s.
  Proof.
    induction t as [name w| | | | |sz| | |name w defs|t IH|t IH|t IH|k v IHk IHv|ts IH|name t IH] using ty_ind';
      intros s t'; try (intros [= <-]; exact I).
    - rewrite infer_st_fix. destruct (fix_kind name w) eqn:E.
      + intros Hx; apply (f_equal fst) in Hx; cbn [fst] in Hx; subst t'. cbn [adopted]. now rewrite E.
      + destruct (dt_params s) as [z|] eqn:Ez; [|discriminate]. intros Hx; apply (f_equal fst) in Hx; cbn [fst] in Hx; subst t'. cbn [adopted].
        pose proof (proj1 (fix_kind_w name w) E) as ->. rewrite fix_kind_datetime. now exists z.
      + destruct (dt64_params s) as [[p z]|] eqn:Ez; [|discriminate]. intros Hx; apply (f_equal fst) in Hx; cbn [fst] in Hx; subst t'. cbn [adopted].
        pose proof (proj1 (proj2 (fix_kind_w name w)) E) as ->. rewrite fix_kind_datetime64. now exists p, z.
      + destruct (interval_infer tl s) as [c r|e|c] eqn:Ei; cbn [is_ok]; [|discriminate..]. intros Hx; apply (f_equal fst) in Hx; cbn [fst] in Hx; subst t'. cbn [adopted].
        pose proof (proj2 (proj2 (fix_kind_w name w)) E) as ->.
        apply interval_infer_ok in Ei. destruct Ei as [_ Hin].
        pose proof (proj1 (Forall_forall _ _) interval_names_kind s Hin) as Hk. cbn beta in Hk. rewrite Hk. now split.
    - rewrite infer_st_enum. destruct (enum_params s) as [[w' ds]|] eqn:Ee; [|discriminate]. intros Hx; apply (f_equal fst) in Hx; cbn [fst] in Hx; subst t'. cbn [adopted]. now split.
    - apply (infer_adopts_wrap WArr t IH).
    - apply (infer_adopts_wrap WNullable t IH).
    - apply (infer_adopts_wrap WLowCard t IH).
    - rewrite infer_st_map. destruct (split_type_args (elem s)) as [|kt [|vt [|x l]]] eqn:Ecut; try discriminate.
      destruct (opt_infer k (trim_space kt)) as [k' ok] eqn:Ek. destruct ok; [|discriminate..].
      destruct (opt_infer v (trim_space vt)) as [v' ov] eqn:Ev. intros [= <- ->].
      cbn [adopted]. rewrite Ecut.
      split.
      + now apply (opt_adopted k (trim_space kt) k' IHk).
      + now apply (opt_adopted v (trim_space vt) v' IHv).
    - rewrite infer_st_tuple. destruct (existsb inferable_ty ts) eqn:Ee.
      2:{ intros [= <-]. cbn [adopted]. intros Hx. congruence. }
      destruct (negb _) eqn:El; [discriminate|]. apply negb_false_iff, Nat.eqb_eq in El.
      destruct (tup_infer ts _) as [ts' o] eqn:Et. intros [= <- ->]. cbn [adopted]. intros _.
      assert (Hl' : length ts' = length ts).
      { pose proof (tup_infer_rel zone tl (fun _ _ => True) (fun _ => I) ts) as HF.
        assert (HT : Forall (fun t : ty => forall s0 : bytes, True) ts) by (apply Forall_forall; auto).
        specialize (HF HT (split_type_args (elem s))). rewrite Et in HF. cbn [fst] in HF. clear -HF. induction HF; cbn [length]; congruence. }
      split; [congruence|]. clear El Hl' Ee.
      revert Et. generalize (split_type_args (elem s)) as args. revert ts'.
      induction IH as [|t0 r Ht0 _ IHr]; intros ts' args Et; destruct args as [|a ar];
        cbn [ResultsProofs.tup_infer] in Et; try (apply (f_equal fst) in Et; cbn [fst] in Et; subst ts'; exact I).
      destruct (opt_infer t0 (trim_space a)) as [t0' o0] eqn:E0.
      destruct o0; [|discriminate..].
      destruct (tup_infer r ar) as [r' o'] eqn:Er. injection Et as <- ->.
      split; [|now apply IHr]. now apply (opt_adopted t0 (trim_space a) t0' Ht0).
    - rewrite infer_st_named. destruct (inferable_ty t) eqn:Ei.
      + destruct (cut_prefix _ s) as [e|] eqn:Ec; [|discriminate].
        destruct (infer_st t e) as [d' o] eqn:Ed. intros [= <- ->]. cbn [adopted]. intros _. exists e. split; [exact Ec|]. now apply IH.
      + intros Hx; apply (f_equal fst) in Hx; cbn [fst] in Hx; subst t'. cbn [adopted]. congruence.
  Qed.

  (* ---- typed targets keep their shape through every block, bound or not ------------------------------------------- *)
  Definition typed_as (x : shape) (t : rtarget) : Prop := exists ty d, rt_col t = CTyped ty d /\ skel ty = x.
  Definition shapes (ts : list rtarget) (xs : list shape) : Prop := Forall2 (fun t x => typed_as x t) ts xs.

  Lemma infer_tcol_typed ty d s : exists ty', fst (infer_tcol (CTyped ty d) s) = CTyped ty' d /\ skel ty' = skel ty.
  Proof.
    cbn [Results.infer_tcol]. destruct (inferable_ty ty).
    - pose proof (infer_st_skel ty s) as H. destruct (infer_st ty s) as [t' o]. cbn [fst] in *. now exists t'.
    - now exists ty.
  Qed.

  Lemma set_data_typed c x d : (exists ty d0, c = CTyped ty d0 /\ skel ty = x) -> exists ty d0, set_data c d = CTyped ty d0 /\ skel ty = x.
  Proof. intros (ty & d0 & -> & H). now exists ty, d. Qed.

  Lemma bind_one_shape b v nrows t s x : typed_as x t -> typed_as x (fst (bind_one b v nrows t s)).
  Proof.
    intros (ty & d & Hc & Hs). unfold Results.bind_one.
    destruct (read_header v s) as [[[name tstr] s1]|o]; [|now exists ty, d].
    destruct (negb _); [now exists ty, d|].
    rewrite Hc. destruct (infer_tcol_typed ty d tstr) as (ty' & Hi & Hs').
    destruct (infer_tcol (CTyped ty d) tstr) as [c1 o]. cbn [fst] in Hi. subst c1.
    assert (H1 : exists ty0 d0, CTyped ty' d = CTyped ty0 d0 /\ skel ty0 = x) by (exists ty', d; split; congruence).
    destruct o; cbn [fst]; try exact H1.
    destruct (conflicts_b _ _); [exact H1|]. cbn [tcol_ty].
    destruct (dec_body b ty' nrows s1); cbn [fst rt_col]; now apply set_data_typed.
  Qed.

  Lemma bind_targets_shapes b v nrows : forall ts i s xs, shapes ts xs -> shapes (fst (bind_targets b v nrows i ts s)) xs.
  Proof.
    induction ts as [|t ts IH]; intros i s xs H; cbn [Results.bind_targets]; [exact H|].
    inversion H as [|? x ? xs' Ht Hts]; subst.
    pose proof (bind_one_shape b v nrows t s x Ht) as H1.
    destruct (bind_one b v nrows t s) as [t1 o]. cbn [fst] in H1.
    destruct o as [s1|k e|c]; [|now constructor..].
    specialize (IH (S i) s1 xs' Hts). destruct (bind_targets b v nrows (S i) ts s1) as [r o]. cbn [fst] in *. now constructor.
  Qed.

  Lemma bind_result_shapes b v ncols nrows ts s xs : shapes ts xs -> shapes (fst (bind_result b v ncols nrows ts s)) xs.
  Proof.
    intros H. unfold Results.bind_result. destruct ts as [|t ts].
    - destruct (negb (ncols =? 0) && negb (nrows =? 0)); [exact H|]. destruct (ncols <=? blen s); exact H.
    - destruct (negb _); [exact H|]. now apply bind_targets_shapes.
  Qed.

  Lemma block_shapes auto b v ts s xs : ts <> [] -> shapes ts xs -> shapes (bo_targets (decode_block_st auto b v ts s)) xs.
  Proof.
    intros Hne H. unfold Results.decode_block_st.
    destruct ((if gate v FeatureBlockInfo then decode_BlockInfo blank_block_info else ret blank_block_info) s) as [i s1|e|c];
      try exact H.
    destruct (get_int s1) as [c s2|e|cr]; try exact H.
    destruct ((maxColumnsInBlock <? c) || (c <? 0))%Z; [exact H|].
    destruct ((r <- get_int;; n <- check_rows r;; ret (r, n)) s2) as [[r n] s3|e|cr]; try exact H.
    destruct ((c =? 0) && (r =? 0))%Z; [exact H|].
    assert (Ha : auto_result b v (Z.to_N c) n ts s3 = bind_result b v (Z.to_N c) n ts s3)
      by (unfold Results.auto_result; destruct ts; [contradiction|reflexivity]).
    destruct auto; [rewrite Ha|];
      pose proof (bind_result_shapes b v (Z.to_N c) n ts s3 xs H) as H1;
      destruct (bind_result b v (Z.to_N c) n ts s3); exact H1.
  Qed.

  Lemma shapes_nonempty ts xs : shapes ts xs -> ts <> [] -> xs <> [].
  Proof. intros H Hne. destruct H; [contradiction|discriminate]. Qed.
  Lemma shapes_nonempty' ts xs : shapes ts xs -> xs <> [] -> ts <> [].
  Proof. intros H Hne. destruct H; [contradiction|discriminate]. Qed.

  (* whatever blocks arrive: every typed target is still a typed target of the same shape *)
  Theorem history_shapes auto b v : forall blocks ts xs, ts <> [] -> shapes ts xs ->
    Forall (fun ts' => shapes ts' xs) (map bo_targets (run_blocks auto b v ts blocks)).
  Proof.
    induction blocks as [|s blocks IH]; intros ts xs Hne H; cbn [Results.run_blocks map]; constructor.
    - now apply block_shapes.
    - apply IH; [|now apply block_shapes].
      eapply shapes_nonempty'; [apply block_shapes; eassumption|]. eapply shapes_nonempty; eassumption.
  Qed.

  (* ---- a bind does not depend on the parameters (or contents) its targets held before ------------------------------- *)
  Definition same_target (t1 t2 : rtarget) : Prop :=
    rt_name t1 = rt_name t2 /\
    exists ty1 d1 ty2 d2, rt_col t1 = CTyped ty1 d1 /\ rt_col t2 = CTyped ty2 d2 /\ skel ty1 = skel ty2.

  Lemma infer_tcol_indep ty1 d1 ty2 d2 s c1 :
    skel ty1 = skel ty2 -> infer_tcol (CTyped ty1 d1) s = (c1, IOk) ->
    exists ty', c1 = CTyped ty' d1 /\ infer_tcol (CTyped ty2 d2) s = (CTyped ty' d2, IOk).
  Proof.
    intros Hs. cbn [Results.infer_tcol]. rewrite <- (skel_inferable _ _ Hs). destruct (inferable_ty ty1) eqn:Ei.
    - destruct (infer_st ty1 s) as [t' o] eqn:E. intros [= <- ->]. exists t'. split; [reflexivity|].
      now rewrite (infer_nesting_independent ty1 ty2 s t' Hs E).
    - intros [= <-]. exists ty1. split; [reflexivity|]. now rewrite (skel_plain ty1 ty2 Ei Hs).
  Qed.

  Lemma bind_one_indep b v nrows t1 t2 s t' s' :
    same_target t1 t2 -> bind_one b v nrows t1 s = (t', SOk s') -> bind_one b v nrows t2 s = (t', SOk s').
  Proof.
    intros (Hn & ty1 & d1 & ty2 & d2 & H1 & H2 & Hs) H.
    apply bind_one_ok in H. destruct H as (name & tstr & s1 & c1 & ty' & d & Hh & Hnm & Hi & Hc & Ht & Hd & ->).
    rewrite H1 in Hi. destruct (infer_tcol_indep ty1 d1 ty2 d2 tstr c1 Hs Hi) as (ty0 & -> & Hi2).
    cbn [tcol_ty] in Ht. injection Ht as ->. cbn [set_data].
    replace (CTyped ty' d) with (set_data (CTyped ty' d2) d) by reflexivity.
    apply (bind_one_ok_intro zone tl b v nrows t2 s name tstr s1 (CTyped ty' d2) ty' d s'); try assumption.
    - now rewrite <- Hn.
    - now rewrite H2.
    - reflexivity.
  Qed.

  Lemma bind_targets_indep b v nrows : forall ts1 ts2 i s ts' rest,
    Forall2 same_target ts1 ts2 ->
    bind_targets b v nrows i ts1 s = (ts', BOk rest) -> bind_targets b v nrows i ts2 s = (ts', BOk rest).
  Proof.
    induction ts1 as [|t1 ts1 IH]; intros ts2 i s ts' rest HF; inversion HF as [|? t2 ? ts2' Ht Hts]; subst;
      cbn [Results.bind_targets]; [trivial|].
    destruct (bind_one b v nrows t1 s) as [t1' o] eqn:E1. destruct o as [s1|k e|c]; try (intros Hx; now inversion Hx).
    rewrite (bind_one_indep b v nrows t1 t2 s t1' s1 Ht E1).
    destruct (bind_targets b v nrows (S i) ts1 s1) as [r o] eqn:Er. intros [= <- ->].
    now rewrite (IH ts2' (S i) s1 r rest Hts Er).
  Qed.

  (* ---- after ANY history a well-formed block binds exactly ------------------------------------------------------- *)
  (* the block's column [c] fits target [t]: the target is a typed column of the block column's shape, and its name -
     as it is NOW, possibly filled in by an earlier (even a failed) block - is blank or the column's *)
  Definition fits (c : Block.col) (t : rtarget) : Prop :=
    (rt_name t = [] \/ rt_name t = c_name c) /\ typed_as (skel (c_ty c)) t.

  Lemma fits_binds cols ts : Forall2 fits cols ts ->
    exists ts2, Forall2 binds cols ts2 /\ Forall2 same_target (map typed_target ts2) ts.
  Proof.
    induction 1 as [|c t cols ts [Hn (ty & d & Hc & Hs)] _ (ts2 & Hb & Hsame)]; [exists []; split; constructor|].
    exists ({| c_name := rt_name t ; c_ty := c_ty c ; c_data := d |} :: ts2). split.
    - constructor; [|exact Hb]. split; [reflexivity|]. cbn [c_name]. destruct Hn as [->| ->]; [now right|now left].
    - cbn [map]. constructor; [|exact Hsame]. split; [reflexivity|].
      exists (c_ty c), d, ty, d. cbn [typed_target rt_col c_ty c_data]. repeat split; congruence.
  Qed.

  Theorem fitting_block_binds b b' v nrows cols ts bs rest :
    nrows <= max_rows -> Forall (col_ok infer_target nrows) cols -> Forall2 fits cols ts ->
    enc_cols b v nrows cols = Some bs ->
    bind_result b' v (N.of_nat (length cols)) nrows ts (bs ++ rest) = (map typed_target cols, BOk rest).
  Proof.
    intros Hn Hok Hfit Henc.
    destruct (fits_binds cols ts Hfit) as (ts2 & Hb & Hsame).
    pose proof (bind_holds_own_data zone tl b b' v nrows cols ts2 bs rest Hn Hok Hb Henc) as H.
    apply (bind_targets_indep b' v nrows _ ts 0%nat _ _ _ Hsame) in H.
    unfold Results.bind_result. destruct ts as [|t ts].
    - inversion Hfit; subst. cbn in Henc. injection Henc as <-. cbn [length app map]. cbn. 
      replace (0 <=? blen rest) with true by lia. reflexivity.
    - assert (Hl : length cols = length (t :: ts)) by (clear -Hfit; induction Hfit; cbn [length]; congruence).
      rewrite Hl, N.eqb_refl. cbn [negb]. exact H.
  Qed.

  (* ... in particular after a failed bind: the block [s0] may be anything (truncated, altered, of another schema) and
     may have failed at any column for any reason, leaving that target half decoded *)
  Theorem failed_bind_then_bind_ok_proof auto b0 v0 ts s0 b b' v nrows cols bs rest :
    Forall2 (fun c t => typed_as (skel (c_ty c)) t) cols ts ->
    Forall2 (fun c t1 => rt_name t1 = [] \/ rt_name t1 = c_name c) cols (bo_targets (decode_block_st auto b0 v0 ts s0)) ->
    nrows <= max_rows -> Forall (col_ok infer_target nrows) cols -> enc_cols b v nrows cols = Some bs ->
    bind_result b' v (N.of_nat (length cols)) nrows (bo_targets (decode_block_st auto b0 v0 ts s0)) (bs ++ rest)
    = (map typed_target cols, BOk rest).
  Proof.
    intros Hsh Hnm Hn Hok Henc. apply (fitting_block_binds b b' v nrows cols _ bs rest Hn Hok); [|exact Henc].
    destruct ts as [|t ts].
    - inversion Hsh; subst. inversion Hnm; subst. constructor.
    - assert (H : shapes (bo_targets (decode_block_st auto b0 v0 (t :: ts) s0)) (map (fun c => skel (c_ty c)) cols)).
      { apply block_shapes; [discriminate|]. clear -Hsh. unfold shapes.
        induction Hsh; cbn [map]; constructor; assumption. }
      revert Hnm H. generalize (bo_targets (decode_block_st auto b0 v0 (t :: ts) s0)). clear.
      induction cols as [|c cols IH]; intros l Hnm H; inversion Hnm; subst; [constructor|].
      cbn [map] in H. inversion H; subst. constructor; [now split|]. now apply IH.
  Qed.

  (* ... and after any sequence of blocks against the same targets *)
  Theorem after_history_bind_ok auto b0 v0 blocks ts tsN b b' v nrows cols bs rest :
    Forall2 (fun c t => typed_as (skel (c_ty c)) t) cols ts -> ts <> [] ->
    In tsN (map bo_targets (run_blocks auto b0 v0 ts blocks)) ->
    Forall2 (fun c t1 => rt_name t1 = [] \/ rt_name t1 = c_name c) cols tsN ->
    nrows <= max_rows -> Forall (col_ok infer_target nrows) cols -> enc_cols b v nrows cols = Some bs ->
    bind_result b' v (N.of_nat (length cols)) nrows tsN (bs ++ rest) = (map typed_target cols, BOk rest).
  Proof.
    intros Hsh Hne Hin Hnm Hn Hok Henc. apply (fitting_block_binds b b' v nrows cols _ bs rest Hn Hok); [|exact Henc].
    assert (H0 : shapes ts (map (fun c => skel (c_ty c)) cols))
      by (clear -Hsh; unfold shapes; induction Hsh; cbn [map]; constructor; assumption).
    pose proof (history_shapes auto b0 v0 blocks ts _ Hne H0) as HF.
    pose proof (proj1 (Forall_forall _ _) HF tsN Hin) as H. cbn beta in H.
    revert Hnm H. clear. revert tsN.
    induction cols as [|c cols IH]; intros l Hnm H; inversion Hnm; subst; [constructor|].
    cbn [map] in H. inversion H; subst. constructor; [now split|]. now apply IH.
  Qed.
End ResProofs2.

(* ---- the residue of a failed decode (model/DecPart.v) ------------------------------------------------------------------ *)
(* flat kinds: one Go slice (or counter) per column.  For these the half-decoded column is still consistent: Rows() is at
   most the block's row count and Row(i) returns for every i below Rows() *)
Definition flat (t : ty) : bool :=
  match t with
  | TFix _ _ | TBool | TUUID | TStr | TJSON | TFixedStr _ | TNothing | TEnum _ _ _ => true
  | _ => false
  end.

Lemma chunks_len w k : forall b, length (chunks w k b) = k.
Proof. induction k as [|k IH]; intros b; cbn [chunks length]; [reflexivity|now rewrite IH]. Qed.

Lemma zfill_length n s : length (zfill n s) = n.
Proof. unfold zfill. rewrite app_length, firstn_length, repeat_length. lia. Qed.

Lemma part_fix_length inpl w n s : length (part_fix inpl w n s) = 0%nat \/ length (part_fix inpl w n s) = N.to_nat n.
Proof.
  unfold part_fix. destruct (inpl && negb (n =? 0)); [right|now left]. now rewrite map_length, chunks_len.
Qed.

Lemma str_prefix_length : forall fuel s, (length (str_prefix fuel s) <= fuel)%nat.
Proof.
  induction fuel as [|k IH]; intros s; cbn [str_prefix length]; [lia|].
  destruct (get_str s) as [x s'|e|c]; cbn [length]; [specialize (IH s')|..]; lia.
Qed.

Lemma nth_readable {A} (f : A -> val) (l : list A) :
  forallb (fun i => match option_map f (nth_error l i) with Some _ => true | None => false end) (seq 0 (length l)) = true.
Proof.
  apply forallb_forall. intros i Hi. apply in_seq in Hi.
  destruct (nth_error l i) eqn:E; [reflexivity|]. apply nth_error_None in E. lia.
Qed.

Theorem residue_flat_proof b t n s : flat t = true ->
  readableb t (dec_part b t n s) = true /\ rows t (dec_part b t n s) <= n.
Proof.
  destruct t; cbn [flat]; try discriminate; intros _; unfold readableb; cbn [dec_part rows row].
  - (* generated fixed width *)
    set (l := part_fix _ _ _ _). unfold blen. rewrite Nat2N.id. split; [apply nth_readable|].
    destruct (part_fix_length (in_place b (is_u8 name w)) w n s) as [H|H]; fold l in H; lia.
  - set (l := part_fix _ _ _ _). unfold blen. rewrite Nat2N.id. split; [apply (nth_readable (fun b0 => VBool (negb (b0 =? 0))))|].
    destruct (part_fix_length (in_place b false) 1 n s) as [H|H]; fold l in H; lia.
  - rewrite Nat2N.id. split; [apply nth_readable|].
    destruct (in_place b false && negb (n =? 0)); cbn [length]; [rewrite chunks_len|]; lia.
  - set (l := str_part n s). rewrite Nat2N.id. split; [apply nth_readable|].
    subst l. unfold str_part. pose proof (str_prefix_length (if n <=? blen s then N.to_nat n else length s) s) as H.
    unfold blen in *. destruct (n <=? N.of_nat (length s)) eqn:E; lia.
  - set (l := str_part n s). rewrite Nat2N.id. split; [apply nth_readable|].
    subst l. unfold str_part. pose proof (str_prefix_length (if n <=? blen s then N.to_nat n else length s) s) as H.
    unfold blen in *. destruct (n <=? N.of_nat (length s)) eqn:E; lia.
  - (* FixedString *)
    destruct n0 as [|m]; [cbn [rows]; split; [reflexivity|lia]|].
    assert (Hb : exists buf0, (if gen_fixedstr (S m)
                  then DFixedStr (if in_place b false && negb (n =? 0) then zfill (N.to_nat n * S m) s else [])
                  else DFixedStr (zfill (N.to_nat n * S m) s)) = DFixedStr buf0 /\
                 (length buf0 = 0%nat \/ length buf0 = (N.to_nat n * S m)%nat)).
    { destruct (gen_fixedstr (S m)); [destruct (in_place b false && negb (n =? 0))|];
        eexists; (split; [reflexivity|]); rewrite ?zfill_length; cbn [length]; auto. }
    destruct Hb as (buf0 & -> & Hl). cbn [rows row].
    assert (Hr : N.to_nat (blen buf0 / N.of_nat (S m)) = (length buf0 / S m)%nat).
    { unfold blen. rewrite <- Nat2N.inj_div. apply Nat2N.id. }
    split.
    + rewrite Hr. apply forallb_forall. intros i Hi. apply in_seq in Hi.
      replace (Nat.leb ((i + 1) * S m) (length buf0)) with true; [reflexivity|]. symmetry. apply Nat.leb_le.
      assert (H1 : (i + 1 <= length buf0 / S m)%nat) by lia.
      apply (Nat.mul_le_mono_r _ _ (S m)) in H1.
      pose proof (Nat.mul_div_le (length buf0) (S m)) as H2. lia.
    + assert (Hq : (length buf0 / S m <= N.to_nat n)%nat).
      { destruct Hl as [->| ->]; [rewrite Nat.div_0_l by lia; lia|rewrite Nat.div_mul by lia; lia]. }
      lia.
  - (* Nothing *)
    split; [|lia]. apply forallb_forall. intros i Hi. apply in_seq in Hi.
    replace (N.of_nat i <? n) with true by lia. reflexivity.
  - (* Enum: Values is assigned on success only *)
    destruct (dec_fix w n s); cbn [rows row length]; (split; [reflexivity|lia]).
Qed.

(* ... not so below a wrapper: a Nullable(String) whose null map arrived but whose strings did not reports 2 rows and
   has none; Row(0) of the real column panics (index out of range), the model's [row] is [None] *)
Example residue_nullable_unreadable :
  let t := TNullable TStr in
  let s := [0; 1; 5; 97] in
  dec Safe t 2 s = Err EEof /\ dec_part Safe t 2 s = DNullable [0; 1] (DBytes []) /\
  rows t (dec_part Safe t 2 s) = 2 /\ row t (dec_part Safe t 2 s) 0 = None /\ readableb t (dec_part Safe t 2 s) = false.
Proof. vm_compute. repeat split. Qed.

Lemma residue_unreadable_in_general : ~ (forall b t n s, readableb t (dec_part b t n s) = true).
Proof. intros H. specialize (H Safe (TNullable TStr) 2 [0; 1; 5; 97]). vm_compute in H. discriminate. Qed.
