(* C01, inference path: a printed column type infers itself (for the class ColAuto.Infer supports,
   model/AutoClass.v), and a block round-trips through Results.Auto() — first block (decodeAuto) and
   every later block of the same schema (DecodeResult on the columns decodeAuto kept).
   Statements over the real instances of model/Results.v: conflicts_b, infer_target, infer_auto. *)
From CH Require Import model.Columns model.ColState model.Block model.TypeStr model.Results model.AutoClass.
From CH Require Import proofs.PrimProofs proofs.FieldsProofs proofs.MessagesProofs proofs.ColumnsProofs
  proofs.ColumnsProofs2 proofs.BlockProofs proofs.TypeStrProofs proofs.ResultsProofs
  proofs.ColStateProofs proofs.ColStateProofs2.
From CH Require Import gen.InferTable gen.Methods gen.TypeNames gen.Codecs gen.Consts gen.Features.
From Coq Require Import ZifyN ZifyNat ZifyBool.
Ltac Zify.zify_post_hook ::= Z.div_mod_to_equations.
Open Scope N_scope.
Open Scope list_scope.

(* ====================================================================================== *)
(* 1. strings: strip, decimal numbers, trimming, cutting, splitting                        *)
(* ====================================================================================== *)
Lemma strip_prefix_spec p : forall s r, strip_prefix p s = Some r -> s = p ++ r.
Proof.
  induction p as [|x p IH]; intros s r; cbn [strip_prefix].
  - now intros [= <-].
  - destruct s as [|y s]; [discriminate|]. destruct (x =? y) eqn:E; [|discriminate].
    apply N.eqb_eq in E. subst y. intros H. cbn [app]. f_equal. now apply IH.
Qed.

Lemma strip_spec p q s m : strip p q s = Some m -> s = p ++ m ++ q.
Proof.
  unfold strip. destruct (strip_prefix p s) as [r|] eqn:E1; [|discriminate].
  destruct (strip_prefix (rev q) (rev r)) as [m'|] eqn:E2; [|discriminate].
  cbn [option_map]. intros [= <-].
  apply strip_prefix_spec in E1. apply strip_prefix_spec in E2.
  subst s. f_equal. rewrite <- (rev_involutive r), E2, rev_app_distr, rev_involutive. reflexivity.
Qed.

(* ---- decimal printing and parsing ---- *)
Lemma dec_digits_spec fuel : forall n acc, (0 < fuel)%nat -> n < 10 ^ N.of_nat fuel ->
  exists ds, dec_digits fuel n acc = ds ++ acc /\ ds <> [] /\ forallb is_digit ds = true /\
             forall a r, digits_val a (ds ++ r) = digits_val (a * 10 ^ N.of_nat (length ds) + n) r.
Proof.
  induction fuel as [|f IH]; intros n acc Hf Hn; [lia|].
  cbn [dec_digits]. destruct (n <? 10) eqn:E.
  - exists [48 + n]. split; [reflexivity|]. split; [discriminate|].
    split; [cbn [forallb is_digit]; unfold is_digit; lia|].
    intros a r. cbn [app digits_val length]. unfold is_digit.
    replace ((48 <=? 48 + n) && (48 + n <=? 57)) with true by lia.
    f_equal. change (N.of_nat 1) with 1. lia.
  - assert (Hf' : (0 < f)%nat).
    { destruct f; [|lia]. change (10 ^ N.of_nat 1) with 10 in Hn. lia. }
    assert (Hn' : n / 10 < 10 ^ N.of_nat f).
    { replace (N.of_nat (S f)) with (N.succ (N.of_nat f)) in Hn by lia. rewrite N.pow_succ_r' in Hn.
      apply N.div_lt_upper_bound; lia. }
    destruct (IH (n / 10) ((48 + n mod 10) :: acc) Hf' Hn') as (ds & Hd & Hne & Hdig & Hval).
    exists (ds ++ [48 + n mod 10]). split; [rewrite Hd, <- app_assoc; reflexivity|].
    split; [destruct ds; discriminate|].
    split.
    { rewrite forallb_app, Hdig. cbn [forallb]. unfold is_digit.
      assert (n mod 10 < 10) by (apply N.mod_lt; lia). lia. }
    intros a r. rewrite <- app_assoc. cbn [app]. rewrite Hval. cbn [digits_val]. unfold is_digit.
    assert (Hm : n mod 10 < 10) by (apply N.mod_lt; lia).
    replace ((48 <=? 48 + n mod 10) && (48 + n mod 10 <=? 57)) with true by lia.
    f_equal. rewrite app_length. cbn [length].
    replace (N.of_nat (length ds + 1)) with (N.succ (N.of_nat (length ds))) by lia.
    rewrite N.pow_succ_r'. pose proof (N.div_mod n 10). lia.
Qed.

Lemma dec_of_N_spec n : exists ds, dec_of_N n = ds /\ ds <> [] /\ forallb is_digit ds = true /\
  forall a r, digits_val a (ds ++ r) = digits_val (a * 10 ^ N.of_nat (length ds) + n) r.
Proof.
  unfold dec_of_N.
  assert (Hn : n < 10 ^ N.of_nat (S (N.to_nat (N.size n)))).
  { destruct n as [|p]; [reflexivity|].
    pose proof (N.size_gt (Npos p)) as H.
    replace (N.of_nat (S (N.to_nat (N.size (N.pos p))))) with (N.succ (N.size (N.pos p))) by lia.
    rewrite N.pow_succ_r'.
    assert (2 ^ N.size (N.pos p) <= 10 ^ N.size (N.pos p)) by (apply N.pow_le_mono_l; lia). lia. }
  destruct (dec_digits_spec _ n [] (Nat.lt_0_succ _) Hn) as (ds & Hd & Hne & Hdig & Hval).
  exists ds. rewrite Hd, app_nil_r. auto.
Qed.

Lemma digits_val_dec n : digits_val 0 (dec_of_N n) = Some n.
Proof.
  destruct (dec_of_N_spec n) as (ds & -> & _ & _ & Hval).
  specialize (Hval 0 []). rewrite app_nil_r in Hval. rewrite Hval. cbn [digits_val]. f_equal; lia.
Qed.
Lemma dec_of_N_digits n : forallb is_digit (dec_of_N n) = true.
Proof. destruct (dec_of_N_spec n) as (ds & -> & _ & H & _). exact H. Qed.
Lemma dec_of_N_nonempty n : dec_of_N n <> [].
Proof. destruct (dec_of_N_spec n) as (ds & -> & H & _). exact H. Qed.

Lemma digit_cases c : is_digit c = true ->
  c = 48 \/ c = 49 \/ c = 50 \/ c = 51 \/ c = 52 \/ c = 53 \/ c = 54 \/ c = 55 \/ c = 56 \/ c = 57.
Proof. unfold is_digit. lia. Qed.

Lemma atoi_unsigned c r : is_digit c = true ->
  atoi (c :: r) = match digits_val 0 (c :: r) with
                  | None => None
                  | Some n => if in_i64b (Z.of_N n) then Some (Z.of_N n) else None
                  end.
Proof.
  intros H. destruct (digit_cases c H) as [->|[->|[->|[->|[->|[->|[->|[->|[->| ->]]]]]]]]]; reflexivity.
Qed.

Lemma atoi_dec_of_N n : in_i64b (Z.of_N n) = true -> atoi (dec_of_N n) = Some (Z.of_N n).
Proof.
  intros Hi. pose proof (digits_val_dec n) as Hv. pose proof (dec_of_N_digits n) as Hd.
  pose proof (dec_of_N_nonempty n) as Hne.
  destruct (dec_of_N n) as [|c r]; [contradiction|].
  cbn [forallb] in Hd. apply andb_prop in Hd as [Hc _].
  rewrite (atoi_unsigned c r Hc), Hv, Hi. reflexivity.
Qed.

Lemma atoi_dec_of_Z z : in_i64b z = true -> atoi (dec_of_Z z) = Some z.
Proof.
  intros Hi. destruct z as [|p|p]; cbn [dec_of_Z].
  - reflexivity.
  - rewrite <- (Z2N.id (Z.pos p)) at 2 by lia. apply atoi_dec_of_N. rewrite Z2N.id by lia. exact Hi.
  - pose proof (digits_val_dec (Npos p)) as Hv. pose proof (dec_of_N_nonempty (Npos p)) as Hne.
    unfold atoi. destruct (dec_of_N (N.pos p)) as [|c r] eqn:E; [contradiction|].
    rewrite Hv. change (- Z.of_N (N.pos p))%Z with (Z.neg p). now rewrite Hi.
Qed.

(* ---- strings.TrimSpace ---- *)
Definition plainb (c : N) : bool := (c <? 128) && negb (ascii_space c).

Lemma ltrim_space_plain c s : plainb c = true -> ltrim_space (c :: s) = c :: s.
Proof.
  unfold plainb. intros H. apply andb_prop in H as [H1 H2]. apply negb_true_iff in H2.
  cbn [ltrim_space]. rewrite H2.
  destruct s as [|d s2]; [reflexivity|].
  replace (c =? 194) with false by lia. cbn [andb].
  destruct s2 as [|e s3]; [reflexivity|].
  replace (c =? 225) with false by lia. replace (c =? 226) with false by lia. replace (c =? 227) with false by lia.
  reflexivity.
Qed.

Lemma ltrim_space_rev_plain e s : plainb e = true -> ltrim_space_rev (e :: s) = e :: s.
Proof.
  unfold plainb. intros H. apply andb_prop in H as [H1 H2]. apply negb_true_iff in H2.
  cbn [ltrim_space_rev]. rewrite H2.
  destruct s as [|d s2]; [reflexivity|].
  replace (e =? 133) with false by lia. replace (e =? 160) with false by lia. cbn [orb]. rewrite andb_false_r.
  destruct s2 as [|c s3]; [reflexivity|].
  replace (e =? 128) with false by lia. replace (128 <=? e) with false by lia.
  replace (e =? 168) with false by lia. replace (e =? 169) with false by lia. replace (e =? 175) with false by lia.
  replace (e =? 159) with false by lia.
  cbn [andb orb]. rewrite !andb_false_r. reflexivity.
Qed.

Lemma ltrim_space_rev_spaces n h : ltrim_space_rev (repeat 32 n ++ h) = ltrim_space_rev h.
Proof. induction n as [|n IH]; cbn [repeat app]; [reflexivity|]. cbn [ltrim_space_rev]. exact IH. Qed.

Lemma rev_repeat {A} (x : A) n : rev (repeat x n) = repeat x n.
Proof.
  induction n as [|n IH]; [reflexivity|]. cbn [repeat rev]. rewrite IH.
  clear IH. induction n as [|n IH]; [reflexivity|]. cbn [repeat app]. now rewrite IH.
Qed.

Lemma rev_last (s : bytes) : s <> [] -> rev s = last s 0 :: rev (removelast s).
Proof.
  intros H. rewrite (app_removelast_last 0 H) at 1. rewrite rev_app_distr. reflexivity.
Qed.

(* a string that begins and ends with a plain ASCII character, with blanks around it *)
Lemma trim_space_core a b c s : plainb c = true -> plainb (last (c :: s) 0) = true ->
  trim_space (repeat 32 a ++ (c :: s) ++ repeat 32 b) = c :: s.
Proof.
  intros Hc Hl. unfold trim_space. rewrite ltrim_space_spaces.
  cbn [app]. rewrite (ltrim_space_plain c _ Hc).
  change (c :: s ++ repeat 32 b) with ((c :: s) ++ repeat 32 b).
  rewrite rev_app_distr, rev_repeat, ltrim_space_rev_spaces.
  rewrite (rev_last (c :: s)) by discriminate.
  rewrite (ltrim_space_rev_plain _ _ Hl).
  rewrite <- (rev_last (c :: s)) by discriminate. apply rev_involutive.
Qed.

Lemma digit_plain c : is_digit c = true -> plainb c = true.
Proof. unfold is_digit, plainb, ascii_space. lia. Qed.

Lemma forallb_last (f : N -> bool) (s : bytes) : s <> [] -> forallb f s = true -> f (last s 0) = true.
Proof.
  intros Hne H. rewrite (app_removelast_last 0 Hne) in H. rewrite forallb_app in H.
  apply andb_prop in H as [_ H]. cbn [forallb] in H. now rewrite andb_true_r in H.
Qed.

Lemma trim_space_digits a b ds : ds <> [] -> forallb is_digit ds = true ->
  trim_space (repeat 32 a ++ ds ++ repeat 32 b) = ds.
Proof.
  intros Hne Hd. destruct ds as [|c s]; [contradiction|].
  apply trim_space_core.
  - cbn [forallb] in Hd. apply andb_prop in Hd as [Hc _]. now apply digit_plain.
  - apply digit_plain. now apply (forallb_last is_digit (c :: s)).
Qed.

Lemma dec_of_Z_ends z : exists c s, dec_of_Z z = c :: s /\ plainb c = true /\ plainb (last (c :: s) 0) = true.
Proof.
  destruct z as [|p|p]; cbn [dec_of_Z].
  - exists 48, []. repeat split.
  - pose proof (dec_of_N_digits (Z.to_N (Z.pos p))) as Hd. pose proof (dec_of_N_nonempty (Z.to_N (Z.pos p))) as Hne.
    destruct (dec_of_N (Z.to_N (Z.pos p))) as [|c s]; [contradiction|]. exists c, s. split; [reflexivity|].
    split; [cbn [forallb] in Hd; apply andb_prop in Hd as [Hc _]; now apply digit_plain|].
    apply digit_plain. now apply (forallb_last is_digit (c :: s)).
  - pose proof (dec_of_N_digits (N.pos p)) as Hd. pose proof (dec_of_N_nonempty (N.pos p)) as Hne.
    exists 45, (dec_of_N (N.pos p)). split; [reflexivity|]. split; [reflexivity|].
    destruct (dec_of_N (N.pos p)) as [|c s]; [contradiction|].
    change (last (45 :: c :: s) 0) with (last (c :: s) 0).
    apply digit_plain. now apply (forallb_last is_digit (c :: s)).
Qed.

(* ---- strings.Trim(s, cutset) ---- *)
Lemma ltrim_set_strip cs pre s : forallb (fun c => mem_byte c cs) pre = true ->
  ltrim_set cs (pre ++ s) = ltrim_set cs s.
Proof.
  induction pre as [|c pre IH]; cbn [forallb app]; [reflexivity|].
  intros H. apply andb_prop in H as [H1 H2]. cbn [ltrim_set]. rewrite H1. now apply IH.
Qed.
Lemma ltrim_set_head cs c s : mem_byte c cs = false -> ltrim_set cs (c :: s) = c :: s.
Proof. intros H. cbn [ltrim_set]. now rewrite H. Qed.

Lemma trim_set_core cs pre post c s :
  forallb (fun x => mem_byte x cs) pre = true -> forallb (fun x => mem_byte x cs) post = true ->
  mem_byte c cs = false -> mem_byte (last (c :: s) 0) cs = false ->
  trim_set cs (pre ++ (c :: s) ++ post) = c :: s.
Proof.
  intros Hpre Hpost Hc Hl. unfold trim_set, rtrim_set.
  rewrite (ltrim_set_strip cs pre _ Hpre). cbn [app]. rewrite (ltrim_set_head cs c _ Hc).
  change (c :: s ++ post) with ((c :: s) ++ post).
  rewrite rev_app_distr.
  rewrite ltrim_set_strip by (rewrite forallb_forall in *; intros x Hx; apply Hpost; now apply in_rev).
  rewrite (rev_last (c :: s)) by discriminate. rewrite (ltrim_set_head cs _ _ Hl).
  rewrite <- (rev_last (c :: s)) by discriminate. apply rev_involutive.
Qed.

Lemma trim_set_nil cs pre : forallb (fun x => mem_byte x cs) pre = true -> trim_set cs pre = [].
Proof.
  intros H. unfold trim_set, rtrim_set.
  rewrite <- (app_nil_r pre), (ltrim_set_strip cs pre [] H). reflexivity.
Qed.

(* ---- strings.Cut / strings.Split on one byte ---- *)
Lemma cut_byte_app sep a b : mem_byte sep a = false -> cut_byte sep (a ++ sep :: b) = (a, b, true).
Proof.
  induction a as [|c a IH]; cbn [mem_byte app cut_byte].
  - now rewrite N.eqb_refl.
  - intros H. apply orb_false_iff in H as [H1 H2]. rewrite H1, (IH H2). reflexivity.
Qed.
Lemma cut_byte_none sep a : mem_byte sep a = false -> cut_byte sep a = (a, [], false).
Proof.
  induction a as [|c a IH]; cbn [mem_byte cut_byte]; [reflexivity|].
  intros H. apply orb_false_iff in H as [H1 H2]. rewrite H1, (IH H2). reflexivity.
Qed.
Lemma split_byte_none sep a : mem_byte sep a = false -> split_byte sep a = [a].
Proof.
  induction a as [|c a IH]; cbn [mem_byte split_byte]; [reflexivity|].
  intros H. apply orb_false_iff in H as [H1 H2]. rewrite H1, (IH H2). reflexivity.
Qed.
Lemma mem_byte_app c a b : mem_byte c (a ++ b) = mem_byte c a || mem_byte c b.
Proof. induction a as [|x a IH]; cbn [app mem_byte]; [reflexivity|]. now rewrite IH, orb_assoc. Qed.
Lemma mem_byte_repeat c x n : x <> c -> mem_byte c (repeat x n) = false.
Proof. intros H. induction n as [|n IH]; cbn [repeat mem_byte]; [reflexivity|]. rewrite IH. lia. Qed.
Lemma mem_byte_digits c ds : forallb is_digit ds = true -> is_digit c = false -> mem_byte c ds = false.
Proof.
  induction ds as [|x ds IH]; cbn [forallb mem_byte]; [reflexivity|].
  intros H Hc. apply andb_prop in H as [H1 H2]. rewrite (IH H2 Hc).
  destruct (x =? c) eqn:E; [|reflexivity]. apply N.eqb_eq in E. subst. congruence.
Qed.

(* ====================================================================================== *)
(* 2. the type string of the column ColAuto creates                                        *)
(* ====================================================================================== *)
Lemma type_str_ty_of_col : forall c t, ty_of_col c = Some t -> type_str t = col_type c.
Proof.
  induction c as [go|k|loc|p loc|tn eb defs|k IHk v IHv|d IH|d IH|d IH]; intros t; cbn [ty_of_col].
  - destruct (bytes_eqb go (s2b "ColStr")) eqn:E1; [apply bytes_eqb_eq in E1; subst; now intros [= <-]|].
    destruct (bytes_eqb go (s2b "ColBool")) eqn:E2; [apply bytes_eqb_eq in E2; subst; now intros [= <-]|].
    destruct (bytes_eqb go (s2b "ColUUID")) eqn:E3; [apply bytes_eqb_eq in E3; subst; now intros [= <-]|].
    destruct (bytes_eqb go (s2b "ColNothing")) eqn:E4; [apply bytes_eqb_eq in E4; subst; now intros [= <-]|].
    destruct (gen_width go); cbn [option_map]; [|discriminate]. now intros [= <-].
  - now intros [= <-].
  - now intros [= <-].
  - now intros [= <-].
  - now intros [= <-].
  - destruct (ty_of_col k) as [a|]; [|discriminate]. destruct (ty_of_col v) as [b|]; [|discriminate].
    intros [= <-]. cbn [type_str col_type]. rewrite (IHk a eq_refl), (IHv b eq_refl).
    unfold with_params. cbn [join_with]. change (s2b "Map(") with (T_Map ++ [40]).
    rewrite <- !app_assoc. reflexivity.
  - destruct (ty_of_col d) as [a|]; [|discriminate]. intros [= <-]. cbn [type_str col_type option_map].
    rewrite (IH a eq_refl). reflexivity.
  - destruct (ty_of_col d) as [a|]; [|discriminate]. intros [= <-]. cbn [type_str col_type option_map].
    rewrite (IH a eq_refl). reflexivity.
  - destruct (ty_of_col d) as [a|]; [|discriminate]. intros [= <-]. cbn [type_str col_type option_map].
    rewrite (IH a eq_refl). reflexivity.
Qed.

Lemma leaf_match_sound t c : leaf_match t c = true -> ty_of_col c = Some t.
Proof.
  unfold leaf_match. destruct (ty_of_col c) as [t'|]; [|discriminate].
  destruct t', t; try discriminate; try reflexivity.
  1: { intros H. apply andb_prop in H as [H1 H2]. apply bytes_eqb_eq in H1. apply Nat.eqb_eq in H2. now subst. }
  all: repeat match goal with |- context [match ?x with _ => _ end] => destruct x; try discriminate; try reflexivity end.
Qed.

(* ====================================================================================== *)
(* 3. ColAuto.Infer on printed types                                                      *)
(* ====================================================================================== *)
Definition table_miss (t : bytes) : Prop :=
  switch_on t infer_table = None /\ has_prefix T_Interval t = false /\ switch_on t auto_switch = None.

Definition bases : list bytes :=
  [T_Array; T_Nullable; T_LowCardinality; T_DateTime; T_DateTime64; T_Decimal; T_Decimal32; T_Decimal64;
   T_Decimal128; T_Decimal256; T_Enum8; T_Enum16].

Lemma bases_miss B y : In B bases -> table_miss (B ++ 40 :: y).
Proof.
  intros H. unfold bases in H. cbn [In] in H.
  repeat (destruct H as [<-|H]; [repeat split; vm_compute; reflexivity|]). contradiction.
Qed.
Lemma bases_plain B : In B bases -> index_byte 40 B = None /\ B <> [].
Proof.
  intros H. unfold bases in H. cbn [In] in H.
  repeat (destruct H as [<-|H]; [split; [reflexivity|discriminate]|]). contradiction.
Qed.

Section Leaves.
  Variable zone : bytes -> option bytes.
  Variable tl : bytes -> bytes.
  Notation infer_step := (infer_step zone tl).
  Notation infer_f := (infer_f zone tl).

  (* `switch t.Base()` of ColAuto.Infer *)
  Definition infer_base (rec : bytes -> res TypeStr.col) (bs t : bytes) : res TypeStr.col :=
    if bytes_eqb bs T_Array then wrap_infer rec HArray CArr t
    else if bytes_eqb bs T_Nullable then wrap_infer rec HNullable CNullable t
    else if bytes_eqb bs T_LowCardinality then wrap_infer rec HLowCardinality CLowCard t
    else if bytes_eqb bs T_DateTime then datetime_infer zone t
    else if bytes_eqb bs T_Decimal then
      e <~ elem_r t ;;
      match decimal_prec e with
      | None => Err EInvalid
      | Some prec =>
        if ((1 <=? prec) && (prec <? 10))%Z then rok (CGen (s2b "ColDecimal32"))
        else if ((10 <=? prec) && (prec <? 19))%Z then rok (CGen (s2b "ColDecimal64"))
        else if ((19 <=? prec) && (prec <? 39))%Z then rok (CGen (s2b "ColDecimal128"))
        else if ((39 <=? prec) && (prec <? 77))%Z then rok (CGen (s2b "ColDecimal256"))
        else Err EInvalid
      end
    else if bytes_eqb bs T_Decimal32 then rok (CGen (s2b "ColDecimal32"))
    else if bytes_eqb bs T_Decimal64 then rok (CGen (s2b "ColDecimal64"))
    else if bytes_eqb bs T_Decimal128 then rok (CGen (s2b "ColDecimal128"))
    else if bytes_eqb bs T_Decimal256 then rok (CGen (s2b "ColDecimal256"))
    else if bytes_eqb bs T_Enum8 || bytes_eqb bs T_Enum16 then enum_infer t
    else if bytes_eqb bs T_DateTime64 then datetime64_infer zone None t
    else Err EUnsupported.

  Lemma infer_step_miss rec t : table_miss t -> infer_step rec t = infer_base rec (base t) t.
  Proof.
    intros (H1 & H2 & H3). unfold TypeStr.infer_step. rewrite H1, H2, H3. cbn [of_ctor].
    rewrite base_r_ok. reflexivity.
  Qed.

  Lemma infer_step_wrapped rec B x : In B bases ->
    infer_step rec (B ++ 40 :: x ++ [41]) = infer_base rec B (B ++ 40 :: x ++ [41]).
  Proof.
    intros HB. rewrite infer_step_miss by (now apply bases_miss).
    destruct (bases_plain B HB) as [H1 H2]. now rewrite base_wrap.
  Qed.

  (* ---- leaves without parameters: by computation over the regenerated tables ---- *)
  Lemma plain_ok : Forall (fun c => forall rec, infer_step rec (col_type c) = rok c) plain_leaves.
  Proof.
    let l := eval vm_compute in plain_leaves in change plain_leaves with l.
    repeat (apply Forall_cons; [intros rec; vm_compute; reflexivity|]). apply Forall_nil.
  Qed.

  (* ---- wrappers ---- *)
  Lemma wrap_infer_ok rec h mk B x c : In B bases -> rec x = rok c -> has_method h c = true ->
    wrap_infer rec h mk (B ++ 40 :: x ++ [41]) = rok (mk c).
  Proof.
    intros HB Hr Hm. destruct (bases_plain B HB) as [H1 H2].
    unfold wrap_infer. rewrite elem_r_ok, elem_wrap by assumption. cbn [rbind rok].
    rewrite Hr. cbn [rbind rok]. now rewrite Hm.
  Qed.

  (* ---- zones ---- *)
  Lemma ends_clean_inv z : ends_clean [39; 32] z = true ->
    exists c s, z = c :: s /\ c <> 39 /\ c <> 32 /\ last (c :: s) 0 <> 39 /\ last (c :: s) 0 <> 32.
  Proof.
    unfold ends_clean. destruct z as [|c s]; [discriminate|]. intros H. exists c, s.
    split; [reflexivity|]. cbn [mem_byte] in H. lia.
  Qed.

  Lemma zone_ok_inv z : zone_ok zone z = true ->
    zone z = Some z /\ exists c s, z = c :: s /\ c <> 39 /\ c <> 32 /\ last (c :: s) 0 <> 39 /\ last (c :: s) 0 <> 32.
  Proof.
    unfold zone_ok. intros H. apply andb_prop in H as [H1 H2]. split; [|now apply ends_clean_inv].
    destruct (zone z) as [z'|]; [|discriminate]. apply bytes_eqb_eq in H2. now subst.
  Qed.

  Lemma datetime_zone_ok z : zone_ok zone z = true ->
    datetime_infer zone (T_DateTime ++ 40 :: (39 :: z ++ [39]) ++ [41]) = rok (CDateTime (Some z)).
  Proof.
    intros Hz. destruct (zone_ok_inv z Hz) as (Hzone & c & s & -> & Hc1 & Hc2 & Hl1 & Hl2).
    unfold datetime_infer. rewrite elem_r_ok, elem_wrap by (reflexivity || discriminate). cbn [rbind rok].
    cbn [app].
    replace (trim_set [39] (39 :: c :: s ++ [39])) with (c :: s).
    { now rewrite Hzone. }
    symmetry. apply (trim_set_core [39] [39] [39] c s); try reflexivity; cbn [mem_byte]; lia.
  Qed.

  Lemma precisions_inv p : In p precisions ->
    exists d, dec_of_N p = [d] /\ is_digit d = true /\ parse_uint8 (trim_set [39; 32] [d]) = Some p /\
              (p <=? precision_max) = true.
  Proof.
    intros H. let l := eval vm_compute in precisions in change precisions with l in H. cbn [In] in H.
    repeat (destruct H as [<-|H]; [eexists; repeat split; vm_compute; reflexivity|]). contradiction.
  Qed.

  Lemma datetime64_zone_ok p z : In p precisions -> zone_ok zone z = true ->
    datetime64_infer zone None (T_DateTime64 ++ 40 :: (dec_of_N p ++ 44 :: 32 :: 39 :: z ++ [39]) ++ [41])
    = rok (CDateTime64 p (Some z)).
  Proof.
    intros Hp Hz. destruct (zone_ok_inv z Hz) as (Hzone & c & s & -> & Hc1 & Hc2 & Hl1 & Hl2).
    destruct (precisions_inv p Hp) as (d & -> & Hd & Hparse & Hle).
    unfold datetime64_infer. rewrite elem_r_ok, elem_wrap by (reflexivity || discriminate). cbn [rbind rok].
    cbn [app].
    pose proof (cut_byte_app 44 [d] (32 :: 39 :: c :: s ++ [39])) as Hcut. cbn [app mem_byte] in Hcut.
    rewrite Hcut by (unfold is_digit in Hd; lia).
    rewrite Hparse, Hle. cbn [negb].
    replace (trim_set [39; 32] (32 :: 39 :: c :: s ++ [39])) with (c :: s).
    { now rewrite Hzone. }
    symmetry. apply (trim_set_core [39; 32] [32; 39] [39] c s); try reflexivity; cbn [mem_byte]; lia.
  Qed.

  (* ---- decimals ---- *)
  Lemma decimal_class_lt pr go : decimal_class pr = Some go -> pr < 77.
  Proof. unfold decimal_class. repeat match goal with |- context [if ?b then _ else _] => destruct b eqn:? end; try discriminate; lia. Qed.

  Lemma decimal_ok rec pr sc go : decimal_class pr = Some go ->
    infer_base rec T_Decimal (decimal_str pr sc) = rok (CGen go).
  Proof.
    intros Hc. pose proof (decimal_class_lt pr go Hc) as Hlt.
    assert (E : decimal_str pr sc = T_Decimal ++ 40 :: (dec_of_N pr ++ 44 :: 32 :: dec_of_N sc) ++ [41]).
    { unfold decimal_str. rewrite <- !app_assoc. reflexivity. }
    rewrite E. clear E.
    change (infer_base rec T_Decimal ?t) with
      (e <~ elem_r t ;;
       match decimal_prec e with
       | None => Err EInvalid
       | Some prec =>
         if ((1 <=? prec) && (prec <? 10))%Z then rok (CGen (s2b "ColDecimal32"))
         else if ((10 <=? prec) && (prec <? 19))%Z then rok (CGen (s2b "ColDecimal64"))
         else if ((19 <=? prec) && (prec <? 39))%Z then rok (CGen (s2b "ColDecimal128"))
         else if ((39 <=? prec) && (prec <? 77))%Z then rok (CGen (s2b "ColDecimal256"))
         else Err EInvalid
       end).
    rewrite elem_r_ok, elem_wrap by (reflexivity || discriminate). cbn [rbind rok].
    unfold decimal_prec.
    rewrite cut_byte_app by (apply mem_byte_digits; [apply dec_of_N_digits|reflexivity]).
    pose proof (dec_of_N_nonempty pr) as Hne.
    destruct (dec_of_N pr) as [|c0 r0] eqn:Ed; [contradiction|]. rewrite <- Ed.
    pose proof (trim_space_digits 0 0 (dec_of_N pr)) as Ht. cbn [repeat app] in Ht. rewrite app_nil_r in Ht.
    rewrite Ht; [|rewrite Ed; discriminate|apply dec_of_N_digits].
    rewrite atoi_dec_of_N by (unfold in_i64b; lia).
    revert Hc. unfold decimal_class.
    destruct ((1 <=? pr) && (pr <? 10)) eqn:P1.
    { intros [= <-]. replace ((1 <=? Z.of_N pr) && (Z.of_N pr <? 10))%Z with true by lia. reflexivity. }
    replace ((1 <=? Z.of_N pr) && (Z.of_N pr <? 10))%Z with false by lia.
    destruct ((10 <=? pr) && (pr <? 19)) eqn:P2.
    { intros [= <-]. replace ((10 <=? Z.of_N pr) && (Z.of_N pr <? 19))%Z with true by lia. reflexivity. }
    replace ((10 <=? Z.of_N pr) && (Z.of_N pr <? 19))%Z with false by lia.
    destruct ((19 <=? pr) && (pr <? 39)) eqn:P3.
    { intros [= <-]. replace ((19 <=? Z.of_N pr) && (Z.of_N pr <? 39))%Z with true by lia. reflexivity. }
    replace ((19 <=? Z.of_N pr) && (Z.of_N pr <? 39))%Z with false by lia.
    destruct ((39 <=? pr) && (pr <? 77)) eqn:P4; [|discriminate].
    intros [= <-]. replace ((39 <=? Z.of_N pr) && (Z.of_N pr <? 77))%Z with true by lia. reflexivity.
  Qed.

  Lemma decimal_n_ok rec T go t : In (T, go) decimal_n_cols -> infer_base rec T t = rok (CGen go).
  Proof.
    intros H. unfold decimal_n_cols in H. cbn [In] in H.
    repeat (destruct H as [[= <- <-]|H]; [reflexivity|]). contradiction.
  Qed.
End Leaves.

Ltac norm_app := repeat progress (cbn [app]; rewrite <- ?app_assoc).
(* ---- enum definitions: ColEnum.parse reads back what was printed ---- *)
Lemma last_app_ne {A} (l1 l2 : list A) d : l2 <> [] -> last (l1 ++ l2) d = last l2 d.
Proof.
  intros H. induction l1 as [|x l1 IH]; [reflexivity|]. cbn [app].
  destruct (l1 ++ l2) eqn:E; [destruct l1; [contradiction|discriminate]|]. cbn [last] in *. exact IH.
Qed.

Lemma dec_of_Z_no c z : is_digit c = false -> c <> 45 -> mem_byte c (dec_of_Z z) = false.
Proof.
  intros Hc H45. destruct z as [|p|p]; cbn [dec_of_Z].
  - apply mem_byte_digits; [apply dec_of_N_digits|exact Hc].
  - apply mem_byte_digits; [apply dec_of_N_digits|exact Hc].
  - cbn [mem_byte]. rewrite (mem_byte_digits c _ (dec_of_N_digits _) Hc). lia.
Qed.

Lemma enum_name_ok_inv n : enum_name_ok n = true ->
  mem_byte 44 n = false /\ mem_byte 61 n = false /\
  (n = [] \/ exists c s, n = c :: s /\ c <> 39 /\ last (c :: s) 0 <> 39).
Proof.
  unfold enum_name_ok. intros H. apply andb_prop in H as [H H3]. apply andb_prop in H as [H1 H2].
  apply negb_true_iff in H1, H2. repeat split; try assumption.
  destruct n as [|c s]; [now left|]. right. exists c, s. split; [reflexivity|]. lia.
Qed.

Lemma enum_def_no_comma sp d : enum_name_ok (fst d) = true -> mem_byte 44 (enum_def_str sp d) = false.
Proof.
  intros H. destruct (enum_name_ok_inv _ H) as (H1 & _ & _). unfold enum_def_str.
  rewrite !mem_byte_app, H1, !mem_byte_repeat by lia.
  rewrite dec_of_Z_no by (reflexivity || lia). reflexivity.
Qed.

Lemma enum_elem_trim sp a d : trim_space (repeat 32 a ++ enum_def_str sp d) = enum_def_str sp d.
Proof.
  destruct (dec_of_Z_ends (snd d)) as (c & s & Hz & Hc & Hl).
  unfold enum_def_str. cbn [app].
  pose proof (trim_space_core a 0 39 (fst d ++ [39] ++ repeat 32 sp ++ [61] ++ repeat 32 sp ++ dec_of_Z (snd d))) as H.
  cbn [repeat] in H. rewrite app_nil_r in H. apply H; [reflexivity|].
  replace (39 :: fst d ++ [39] ++ repeat 32 sp ++ [61] ++ repeat 32 sp ++ dec_of_Z (snd d))
    with ((39 :: fst d ++ [39] ++ repeat 32 sp ++ [61] ++ repeat 32 sp) ++ dec_of_Z (snd d))
    by (norm_app; reflexivity).
  rewrite last_app_ne by (rewrite Hz; discriminate). now rewrite Hz.
Qed.

Lemma enum_def_cut sp d : enum_name_ok (fst d) = true ->
  cut_byte 61 (enum_def_str sp d) = (39 :: fst d ++ 39 :: repeat 32 sp, repeat 32 sp ++ dec_of_Z (snd d), true).
Proof.
  intros H. destruct (enum_name_ok_inv _ H) as (_ & H2 & _). unfold enum_def_str.
  replace ([39] ++ fst d ++ [39] ++ repeat 32 sp ++ [61] ++ repeat 32 sp ++ dec_of_Z (snd d))
    with ((39 :: fst d ++ 39 :: repeat 32 sp) ++ 61 :: repeat 32 sp ++ dec_of_Z (snd d))
    by (norm_app; reflexivity).
  apply cut_byte_app. cbn [mem_byte]. rewrite mem_byte_app, H2. cbn [mem_byte]. rewrite mem_byte_repeat by lia. reflexivity.
Qed.

Lemma enum_rhs_atoi sp z : in_i64b z = true -> atoi (trim_space (repeat 32 sp ++ dec_of_Z z)) = Some z.
Proof.
  intros Hi. destruct (dec_of_Z_ends z) as (c & s & Hz & Hc & Hl).
  pose proof (trim_space_core sp 0 c s Hc Hl) as H. cbn [repeat] in H. rewrite app_nil_r in H.
  rewrite Hz, H, <- Hz. now apply atoi_dec_of_Z.
Qed.

Lemma enum_lhs_name sp n : enum_name_ok n = true ->
  trim_set [39] (trim_space (39 :: n ++ 39 :: repeat 32 sp)) = n.
Proof.
  intros H. destruct (enum_name_ok_inv _ H) as (_ & _ & Hn).
  pose proof (trim_space_core 0 sp 39 (n ++ [39])) as Ht. cbn [repeat app] in Ht.
  replace (39 :: n ++ 39 :: repeat 32 sp) with (39 :: (n ++ [39]) ++ repeat 32 sp)
    by (norm_app; reflexivity).
  rewrite Ht; [|reflexivity|].
  2:{ change (39 :: n ++ [39]) with ((39 :: n) ++ [39]). rewrite last_app_ne by discriminate. reflexivity. }
  destruct Hn as [->|(c & s & -> & Hc & Hl)]; [reflexivity|].
  apply (trim_set_core [39] [39] [39] c s); try reflexivity; cbn [mem_byte]; lia.
Qed.

Lemma enum_parse_ok sp : forall els defs,
  Forall2 (fun el d => exists a, el = repeat 32 a ++ enum_def_str sp d) els defs ->
  forallb (fun d => enum_name_ok (fst d) && in_i64b (snd d)) defs = true -> enum_parse els = Some defs.
Proof.
  intros els defs H. induction H as [|el d els defs (a & ->) _ IH]; intros Hok; [reflexivity|].
  cbn [forallb] in Hok. apply andb_prop in Hok as [Hd Hok]. apply andb_prop in Hd as [Hn Hz].
  cbn [enum_parse]. rewrite enum_elem_trim, (enum_def_cut sp d Hn). cbn [negb].
  rewrite (enum_rhs_atoi sp _ Hz), (IH Hok), (enum_lhs_name sp _ Hn). destruct d; reflexivity.
Qed.

Lemma split_join sp (f : bytes * Z -> bytes) : forall defs a, defs <> [] ->
  (forall d, In d defs -> mem_byte 44 (f d) = false) ->
  Forall2 (fun el d => exists a, el = repeat 32 a ++ f d)
          (split_byte 44 (repeat 32 a ++ join_with (44 :: repeat 32 sp) (map f defs))) defs.
Proof.
  induction defs as [|d defs IH]; intros a Hne Hf; [contradiction|].
  assert (Hd : mem_byte 44 (repeat 32 a ++ f d) = false).
  { rewrite mem_byte_app, mem_byte_repeat by lia. apply Hf. now left. }
  destruct defs as [|d2 defs].
  - cbn [map join_with]. rewrite (split_byte_none 44 _ Hd). constructor; [now exists a|constructor].
  - replace (repeat 32 a ++ join_with (44 :: repeat 32 sp) (map f (d :: d2 :: defs)))
      with ((repeat 32 a ++ f d) ++ 44 :: (repeat 32 sp ++ join_with (44 :: repeat 32 sp) (map f (d2 :: defs))))
      by (cbn [map join_with]; norm_app; reflexivity).
    rewrite split_byte_app, (split_byte_none 44 _ Hd). cbn [app].
    constructor; [now exists a|]. apply IH; [discriminate|]. intros d0 Hd0. apply Hf. now right.
Qed.

Section EnumLeaf.
  Variable zone : bytes -> option bytes.
  Variable tl : bytes -> bytes.

  Lemma enum_base_in w : In (enum_base w) bases.
  Proof. unfold enum_base, bases. destruct (w =? 1)%nat; cbn [In]; auto 20. Qed.

  Lemma enum_str_ok w sp defs : defs <> [] ->
    forallb (fun d => enum_name_ok (fst d) && in_i64b (snd d)) defs = true ->
    enum_infer (enum_str w sp defs) = rok (CEnum (enum_str w sp defs) (enum_base w) defs).
  Proof.
    intros Hne Hok. destruct (bases_plain _ (enum_base_in w)) as [H1 H2].
    unfold enum_infer. rewrite base_r_ok. unfold enum_str at 1 2.
    change (enum_base w ++ [40] ++ ?j ++ [41]) with (enum_base w ++ 40 :: j ++ [41]).
    rewrite base_wrap, elem_r_ok, elem_wrap by assumption. cbn [rbind rok].
    assert (Hb : has_prefix (s2b "Enum") (enum_base w) = true /\
                 (bytes_eqb (enum_base w) T_Enum8 || bytes_eqb (enum_base w) T_Enum16) = true)
      by (unfold enum_base; destruct (w =? 1)%nat; split; reflexivity).
    destruct Hb as [-> ->]. cbn [negb].
    pose proof (split_join sp (enum_def_str sp) defs 0 Hne) as Hs. cbn [repeat app] in Hs.
    rewrite (enum_parse_ok sp _ defs); [reflexivity| |exact Hok].
    apply Hs. intros d Hd. apply enum_def_no_comma. rewrite forallb_forall in Hok.
    specialize (Hok d Hd). now apply andb_prop in Hok as [? _].
  Qed.

  Lemma enum_base_dispatch rec w t : infer_base zone rec (enum_base w) t = enum_infer t.
  Proof. unfold enum_base. destruct (w =? 1)%nat; reflexivity. Qed.
End EnumLeaf.

Lemma find_map_some {A B} (f : A -> option B) l y : find_map f l = Some y -> exists x, In x l /\ f x = Some y.
Proof.
  induction l as [|x l IH]; cbn [find_map]; [discriminate|].
  destruct (f x) as [y'|] eqn:E.
  - intros [= <-]. exists x. cbn [In]. auto.
  - intros H. destruct (IH H) as (x' & Hin & Hx). exists x'. cbn [In]. auto.
Qed.

Ltac in_bases := unfold bases; cbn [In]; auto 20.

Section Main.
  Variable zone : bytes -> option bytes.
  Variable tl : bytes -> bytes.
  Notation infer_step := (infer_step zone tl).
  Notation infer_f := (infer_f zone tl).
  Notation infer_base := (infer_base zone).

  Lemma decimal_n_base T go : In (T, go) decimal_n_cols -> In T bases.
  Proof.
    intros H. unfold decimal_n_cols in H. cbn [In] in H.
    repeat (destruct H as [[= <- <-]|H]; [in_bases|]). contradiction.
  Qed.

  Lemma param_leaf_ok name c rec : param_leaf zone name = Some c -> infer_step rec name = rok c.
  Proof.
    unfold param_leaf.
    destruct (strip (T_DateTime ++ [40; 39]) [39; 41] name) as [z|] eqn:E1.
    { destruct (zone_ok zone z) eqn:Hz; [|discriminate]. intros [= <-]. apply strip_spec in E1.
      assert (E : name = T_DateTime ++ 40 :: (39 :: z ++ [39]) ++ [41]) by (rewrite E1; norm_app; reflexivity).
      rewrite E, infer_step_wrapped by in_bases.
      change (infer_base rec T_DateTime ?t) with (datetime_infer zone t). now apply datetime_zone_ok. }
    destruct (find_map _ precisions) as [[p z]|] eqn:E2.
    { destruct (zone_ok zone z) eqn:Hz; [|discriminate]. intros [= <-].
      destruct (find_map_some _ _ _ E2) as (p' & Hp & Hs).
      revert Hs. destruct (strip (T_DateTime64 ++ _) _ name) as [z'|] eqn:E; [|discriminate]. cbn [option_map]. intros [= -> ->].
      apply strip_spec in E.
      assert (E' : name = T_DateTime64 ++ 40 :: (dec_of_N p ++ 44 :: 32 :: 39 :: z ++ [39]) ++ [41])
        by (rewrite E; norm_app; reflexivity).
      rewrite E', infer_step_wrapped by in_bases.
      change (infer_base rec T_DateTime64 ?t) with (datetime64_infer zone None t). now apply datetime64_zone_ok. }
    destruct (strip (T_Decimal ++ [40]) [41] name) as [mid|] eqn:E3.
    { destruct (cut_byte 44 mid) as [[ps rest] fnd].
      destruct (digits_val 0 ps) as [pr|]; [|discriminate].
      destruct (strip_prefix [32] rest) as [ss|]; [|discriminate].
      destruct (digits_val 0 ss) as [sc|]; [|discriminate].
      destruct (bytes_eqb name (decimal_str pr sc)) eqn:En; [|discriminate]. apply bytes_eqb_eq in En.
      destruct (decimal_class pr) as [go|] eqn:Ec; [|discriminate]. cbn [option_map]. intros [= <-].
      rewrite En at 1.
      assert (E : decimal_str pr sc = T_Decimal ++ 40 :: (dec_of_N pr ++ 44 :: 32 :: dec_of_N sc) ++ [41])
        by (unfold decimal_str; norm_app; reflexivity).
      rewrite E, infer_step_wrapped, <- E by in_bases. now apply decimal_ok. }
    intros H. destruct (find_map_some _ _ _ H) as ([T go] & Hin & Hs). cbn [fst snd] in Hs.
    destruct (strip (T ++ [40]) [41] name) as [ss|]; [|discriminate].
    destruct (digits_val 0 ss) as [sc|]; [|discriminate].
    destruct (bytes_eqb name (decimal_n_str T sc)) eqn:En; [|discriminate]. apply bytes_eqb_eq in En.
    injection Hs as <-. rewrite En. unfold decimal_n_str.
    change (T ++ [40] ++ dec_of_N sc ++ [41]) with (T ++ 40 :: dec_of_N sc ++ [41]).
    rewrite infer_step_wrapped by (now apply (decimal_n_base T go)). now apply decimal_n_ok.
  Qed.

  Lemma enum_leaf_ok name w defs c rec : enum_leaf name w defs = Some c ->
    infer_step rec name = rok c /\ ty_of_col c = Some (TEnum name w defs).
  Proof.
    unfold enum_leaf.
    destruct (((w =? 1)%nat || (w =? 2)%nat) && _ && _ && _) eqn:H; [|discriminate]. intros [= <-].
    apply andb_prop in H as [H Hname]. apply andb_prop in H as [H Hok]. apply andb_prop in H as [Hw Hne].
    assert (Hne' : defs <> []) by (destruct defs; [discriminate|discriminate]).
    split.
    - assert (Hsp : exists sp, name = enum_str w sp defs).
      { apply orb_prop in Hname as [E|E]; apply bytes_eqb_eq in E; eauto. }
      destruct Hsp as [sp ->].
      rewrite <- (enum_str_ok w sp defs Hne' Hok). unfold enum_str.
      change (enum_base w ++ [40] ++ ?j ++ [41]) with (enum_base w ++ 40 :: j ++ [41]).
      rewrite infer_step_wrapped by apply enum_base_in. apply enum_base_dispatch.
    - cbn [ty_of_col]. unfold enum_base.
      apply orb_prop in Hw as [E|E]; apply Nat.eqb_eq in E; subst w; reflexivity.
  Qed.

  Lemma leaf_col_ok t c rec : leaf_col zone t = Some c ->
    infer_step rec (type_str t) = rok c /\ exists t', ty_of_col c = Some t'.
  Proof.
    unfold leaf_col. destruct (find (leaf_match t) plain_leaves) as [c0|] eqn:Ef.
    - intros [= <-]. apply find_some in Ef as [Hin Hm]. apply leaf_match_sound in Hm.
      split; [|eauto]. rewrite (type_str_ty_of_col _ _ Hm).
      pose proof (plain_ok zone tl) as Hp. rewrite Forall_forall in Hp. now apply Hp.
    - destruct t; try discriminate.
      + destruct (param_leaf zone name) as [c0|] eqn:Ep; [|discriminate].
        destruct (ty_of_col c0) as [[]|] eqn:Et; try discriminate.
        destruct (_ =? _)%nat; [|discriminate]. intros [= <-]. cbn [type_str].
        split; [now apply param_leaf_ok|eauto].
      + intros H. destruct (enum_leaf_ok _ _ _ _ rec H) as [H1 H2]. split; [exact H1|eauto].
  Qed.

  Lemma wrapped_length (B s : bytes) n : (length (B ++ 40%N :: s ++ [41%N]) < S n)%nat -> (length s < n)%nat.
  Proof. rewrite app_length. cbn [length]. rewrite app_length. cbn [length]. lia. Qed.

  Lemma acol_infer_f : forall t c, acol zone t = Some c ->
    forall m, (length (type_str t) < m)%nat -> infer_f m (type_str t) = rok c.
  Proof.
    induction t; intros c Hc m Hn; cbn [acol] in Hc; try (match type of Hc with None = Some _ => discriminate Hc end);
      (destruct m as [|m]; [lia|]); cbn [TypeStr.infer_f];
      try (apply (leaf_col_ok _ _ _ Hc)).
    - unfold wrap_col in Hc. destruct (acol zone t) as [c0|] eqn:E; [|discriminate].
      destruct (has_method HArray c0) eqn:Hm; [|discriminate]. injection Hc as <-.
      change (type_str (TArr t)) with (T_Array ++ 40 :: type_str t ++ [41]) in *.
      rewrite infer_step_wrapped by in_bases.
      change (infer_base ?r T_Array ?x) with (wrap_infer r HArray CArr x).
      apply wrap_infer_ok; [in_bases| |exact Hm]. apply IHt; [reflexivity|]. now apply wrapped_length in Hn.
    - unfold wrap_col in Hc. destruct (acol zone t) as [c0|] eqn:E; [|discriminate].
      destruct (has_method HNullable c0) eqn:Hm; [|discriminate]. injection Hc as <-.
      change (type_str (TNullable t)) with (T_Nullable ++ 40 :: type_str t ++ [41]) in *.
      rewrite infer_step_wrapped by in_bases.
      change (infer_base ?r T_Nullable ?x) with (wrap_infer r HNullable CNullable x).
      apply wrap_infer_ok; [in_bases| |exact Hm]. apply IHt; [reflexivity|]. now apply wrapped_length in Hn.
    - unfold wrap_col in Hc. destruct (acol zone t) as [c0|] eqn:E; [|discriminate].
      destruct (has_method HLowCardinality c0) eqn:Hm; [|discriminate]. injection Hc as <-.
      change (type_str (TLowCard t)) with (T_LowCardinality ++ 40 :: type_str t ++ [41]) in *.
      rewrite infer_step_wrapped by in_bases.
      change (infer_base ?r T_LowCardinality ?x) with (wrap_infer r HLowCardinality CLowCard x).
      apply wrap_infer_ok; [in_bases| |exact Hm]. apply IHt; [reflexivity|]. now apply wrapped_length in Hn.
  Qed.

  Lemma acol_infer_col t c : acol zone t = Some c -> infer_col zone tl (type_str t) = rok c.
  Proof. intros H. unfold infer_col. apply acol_infer_f; [exact H|lia]. Qed.

  Lemma inferable_inv t : inferable zone t = true ->
    exists c, acol zone t = Some c /\ ty_of_col c = Some (norm zone t).
  Proof.
    unfold inferable, norm. destruct (acol zone t) as [c|]; [|discriminate].
    destruct (ty_of_col c) as [t'|] eqn:E; [|discriminate]. intros _. exists c. auto.
  Qed.

  (* the printed type of an inferable tree infers itself *)
  Theorem type_str_infers_itself t : inferable zone t = true ->
    infer_auto zone tl (type_str t) = Some (norm zone t).
  Proof.
    intros H. destruct (inferable_inv t H) as (c & Hc & Ht).
    unfold infer_auto. now rewrite (acol_infer_col t c Hc).
  Qed.

  (* the created column's Type() does not conflict with the type it was inferred from, either way *)
  Theorem norm_no_conflict t : inferable zone t = true ->
    conflicts_b (type_str t) (type_str (norm zone t)) = false /\
    conflicts_b (type_str (norm zone t)) (type_str t) = false.
  Proof.
    intros H. destruct (inferable_inv t H) as (c & Hc & Ht).
    pose proof (acol_infer_f t c Hc (S (length (type_str t))) (Nat.lt_succ_diag_r _)) as Hi.
    pose proof (infer_f_sound zone tl (S (length (type_str t))) (type_str t) c [] Hi) as Hs.
    rewrite (type_str_ty_of_col _ _ Ht).
    assert (E : conflicts_b (type_str t) (col_type c) = false).
    { unfold conflicts_b. rewrite Hs. reflexivity. }
    split; [exact E|]. rewrite conflicts_b_sym. exact E.
  Qed.
End Main.

(* ====================================================================================== *)
(* 4. the created column reads and decodes exactly as the original one                     *)
(* ====================================================================================== *)
(* equal up to the names of fixed-width leaves (the codecs never look at them) *)
Inductive rename_eq : ty -> ty -> Prop :=
| RE_refl t : rename_eq t t
| RE_fix n n' w : rename_eq (TFix n w) (TFix n' w)
| RE_arr a b : rename_eq a b -> rename_eq (TArr a) (TArr b)
| RE_nullable a b : rename_eq a b -> rename_eq (TNullable a) (TNullable b)
| RE_lowcard a b : rename_eq a b -> rename_eq (TLowCard a) (TLowCard b).

Lemma mapM_ext {X Y} (f g : X -> option Y) l : (forall x, f x = g x) -> mapM f l = mapM g l.
Proof. intros H. induction l as [|x l IH]; cbn [mapM]; [reflexivity|]. now rewrite H, IH. Qed.

Ltac step :=
  cbv beta;
  match goal with
  | |- (match ?x with _ => _ end) = (match ?x with _ => _ end) => destruct x
  | |- (if ?x then _ else _) = (if ?x then _ else _) => destruct x
  | |- (match ?x with _ => _ end) _ = (match ?x with _ => _ end) _ => destruct x
  | |- (if ?x then _ else _) _ = (if ?x then _ else _) _ => destruct x
  end; try reflexivity.

Lemma re_rows a b : rename_eq a b -> forall d, rows a d = rows b d.
Proof. induction 1; intros d; cbn [rows]; reflexivity. Qed.

Lemma re_empty a b : rename_eq a b -> empty a = empty b.
Proof. induction 1 as [| | ? ? ? IH| ? ? ? IH| ? ? ? IH]; cbn [empty]; try reflexivity; now rewrite IH. Qed.

Lemma re_dec_state a b : rename_eq a b -> dec_state a = dec_state b.
Proof. induction 1 as [| | ? ? ? IH| ? ? ? IH| ? ? ? IH]; cbn [dec_state]; try reflexivity; try assumption; now rewrite IH. Qed.

Lemma re_enc_state a b : rename_eq a b -> enc_state a = enc_state b.
Proof. induction 1 as [| | ? ? ? IH| ? ? ? IH| ? ? ? IH]; cbn [enc_state]; try reflexivity; try assumption; now rewrite IH. Qed.

Lemma re_row a b : rename_eq a b -> forall d i, row a d i = row b d i.
Proof.
  induction 1 as [t|n n' w|a b H IH|a b H IH|a b H IH]; intros d i; try reflexivity.
  - destruct d; try reflexivity. cbn [row]. step. f_equal. apply mapM_ext. intros x. apply IH.
  - destruct d; try reflexivity. cbn [row]. now rewrite IH.
Qed.

Lemma re_dec bld a b : rename_eq a b -> forall n s, dec bld a n s = dec bld b n s.
Proof.
  induction 1 as [t|nm nm' w|a b H IH|a b H IH|a b H IH]; intros n s; try reflexivity.
  - cbn [dec]. unfold bind. repeat step. now rewrite IH.
  - cbn [dec]. unfold bind. repeat step. now rewrite IH.
  - cbn [dec]. rewrite (re_empty _ _ (RE_lowcard _ _ H)). step. unfold bind. repeat step.
    rewrite IH. step. repeat step.
    match goal with
    | |- context [mapM (fun k => row a ?idx (N.to_nat k)) ?ks] =>
      rewrite (mapM_ext (fun k => row a idx (N.to_nat k)) (fun k => row b idx (N.to_nat k)) ks)
        by (intros; now apply re_row)
    end.
    reflexivity.
Qed.


Section NormCodec.
  Variable zone : bytes -> option bytes.
  Variable tl : bytes -> bytes.
  Notation norm := (norm zone).
  Notation inferable := (inferable zone).

  (* what the parametrised leaves are *)
  Lemma param_leaf_inv name c : param_leaf zone name = Some c ->
    (exists z, zone_ok zone z = true /\ name = T_DateTime ++ 40 :: (39 :: z ++ [39]) ++ [41] /\ c = CDateTime (Some z)) \/
    (exists p z, In p precisions /\ zone_ok zone z = true /\
                 name = T_DateTime64 ++ 40 :: (dec_of_N p ++ 44 :: 32 :: 39 :: z ++ [39]) ++ [41] /\
                 c = CDateTime64 p (Some z)) \/
    (exists pr sc go, decimal_class pr = Some go /\ name = decimal_str pr sc /\ c = CGen go) \/
    (exists T go sc, In (T, go) decimal_n_cols /\ name = decimal_n_str T sc /\ c = CGen go).
  Proof.
    unfold param_leaf.
    destruct (strip (T_DateTime ++ [40; 39]) [39; 41] name) as [z|] eqn:E1.
    { destruct (zone_ok zone z) eqn:Hz; [|discriminate]. intros [= <-]. apply strip_spec in E1.
      left. exists z. repeat split; [exact Hz|]. rewrite E1. norm_app. reflexivity. }
    clear E1.
    destruct (find_map _ precisions) as [[p z]|] eqn:E2.
    { destruct (zone_ok zone z) eqn:Hz; [|discriminate]. intros [= <-].
      destruct (find_map_some _ _ _ E2) as (p' & Hp & Hs).
      revert Hs. destruct (strip _ _ name) as [z'|] eqn:E; [|discriminate]. cbn [option_map]. intros [= -> ->].
      apply strip_spec in E. right. left. exists p, z. repeat split; try assumption.
      rewrite E. norm_app. reflexivity. }
    clear E2.
    destruct (strip (T_Decimal ++ [40]) [41] name) as [mid|] eqn:E3.
    { destruct (cut_byte 44 mid) as [[ps rest] fnd].
      destruct (digits_val 0 ps) as [pr|]; [|discriminate].
      destruct (strip_prefix [32] rest) as [ss|]; [|discriminate].
      destruct (digits_val 0 ss) as [sc|]; [|discriminate].
      destruct (bytes_eqb name (decimal_str pr sc)) eqn:En; [|discriminate]. apply bytes_eqb_eq in En.
      destruct (decimal_class pr) as [go|] eqn:Ec; [|discriminate]. cbn [option_map]. intros [= <-].
      right. right. left. exists pr, sc, go. auto. }
    intros H. destruct (find_map_some _ _ _ H) as ([T go] & Hin & Hs). cbn [fst snd] in Hs.
    destruct (strip (T ++ [40]) [41] name) as [ss|]; [|discriminate].
    destruct (digits_val 0 ss) as [sc|]; [|discriminate].
    destruct (bytes_eqb name (decimal_n_str T sc)) eqn:En; [|discriminate]. apply bytes_eqb_eq in En.
    injection Hs as <-. right. right. right. exists T, go, sc. auto.
  Qed.

  Lemma decimal_class_in pr go : decimal_class pr = Some go -> exists T, In (T, go) decimal_n_cols.
  Proof.
    unfold decimal_class, decimal_n_cols.
    repeat match goal with |- context [if ?b then _ else _] => destruct b end; try discriminate;
      intros [= <-]; eexists; cbn [In]; eauto 10.
  Qed.

  (* ---- norm changes leaf names only ---- *)
  Lemma leaf_rename t c t' : leaf_col zone t = Some c -> ty_of_col c = Some t' -> rename_eq t t'.
  Proof.
    unfold leaf_col. destruct (find (leaf_match t) plain_leaves) as [c0|] eqn:Ef.
    - intros [= <-] Ht. apply find_some in Ef as [_ Hm]. apply leaf_match_sound in Hm.
      rewrite Hm in Ht. injection Ht as <-. constructor.
    - destruct t; try discriminate.
      + destruct (param_leaf zone name) as [c0|]; [|discriminate].
        destruct (ty_of_col c0) as [[]|] eqn:Et; try discriminate.
        destruct (_ =? _)%nat eqn:Ew; [|discriminate]. apply Nat.eqb_eq in Ew. subst.
        intros [= <-] Ht. rewrite Et in Ht. injection Ht as <-. constructor.
      + intros H Ht. destruct (enum_leaf_ok zone tl _ _ _ _ (fun _ => Err EFuel) H) as [_ H2].
        rewrite H2 in Ht. injection Ht as <-. constructor.
  Qed.

  Lemma acol_rename : forall t c t', acol zone t = Some c -> ty_of_col c = Some t' -> rename_eq t t'.
  Proof.
    induction t; intros c t' Hc Ht; cbn [acol] in Hc; try (match type of Hc with None = Some _ => discriminate Hc end);
      try (apply (leaf_rename _ _ _ Hc Ht));
      unfold wrap_col in Hc; (destruct (acol zone t) as [c0|] eqn:E; [|discriminate]);
      (destruct (has_method _ c0); [|discriminate]); injection Hc as <-; cbn [ty_of_col] in Ht;
      (destruct (ty_of_col c0) as [t0|] eqn:E0; [|discriminate]); cbn [option_map] in Ht; injection Ht as <-;
      constructor; now apply (IHt c0).
  Qed.

  Lemma norm_rename t : inferable t = true -> rename_eq t (norm t).
  Proof. intros H. destruct (inferable_inv zone t H) as (c & Hc & Ht). now apply (acol_rename t c). Qed.

  (* ---- the created column adopts the printed type again (a later block) ---- *)
  Lemma plain_infer_st :
    Forall (fun c => match ty_of_col c with
                     | Some t => infer_st zone tl t (col_type c) = (t, IOk)
                     | None => True
                     end) plain_leaves.
  Proof.
    let l := eval vm_compute in plain_leaves in change plain_leaves with l.
    repeat (apply Forall_cons; [vm_compute; reflexivity|]). apply Forall_nil.
  Qed.

  Lemma dt64_infer_of nm s c r : datetime64_infer zone None s = Ok c r -> dt64_infer zone nm s = (col_type c, IOk).
  Proof.
    unfold datetime64_infer, dt64_infer. rewrite elem_r_ok. cbn [rbind rok].
    destruct (elem s) as [|x e]; [discriminate|].
    destruct (cut_byte 44 (x :: e)) as [[pStr locStr] hasloc].
    destruct (parse_uint8 _) as [p|]; [|discriminate].
    destruct (negb (p <=? precision_max)); [discriminate|].
    destruct hasloc.
    - destruct (zone _) as [l|]; [|discriminate]. now intros [= <- <-].
    - now intros [= <- <-].
  Qed.

  Lemma decimal_n_ty T go : In (T, go) decimal_n_cols ->
    exists w, ty_of_col (CGen go) = Some (TFix T w) /\ fix_kind T w = FPlain.
  Proof.
    intros H. unfold decimal_n_cols in H. cbn [In] in H.
    repeat (destruct H as [[= <- <-]|H]; [eexists; split; vm_compute; reflexivity|]). contradiction.
  Qed.
  Lemma infer_st_fix n w s : infer_st zone tl (TFix n w) s =
    match fix_kind n w with
    | FPlain => (TFix n w, IOk)
    | FDateTime => of_res (TFix n w) w (datetime_infer zone s)
    | FInterval => of_res (TFix n w) w (interval_infer tl s)
    | FDateTime64 => let '(n', o) := dt64_infer zone n s in (TFix n' w, o)
    end.
  Proof. reflexivity. Qed.
  Lemma fix_kind_datetime x : fix_kind (T_DateTime ++ 40 :: x ++ [41]) 4 = FDateTime.
  Proof. unfold fix_kind. rewrite base_r_ok, base_wrap by (reflexivity || discriminate). reflexivity. Qed.
  Lemma fix_kind_datetime64 x : fix_kind (T_DateTime64 ++ 40 :: x ++ [41]) 8 = FDateTime64.
  Proof. unfold fix_kind. rewrite base_r_ok, base_wrap by (reflexivity || discriminate). reflexivity. Qed.

  Lemma leaf_infer_st t c t' : leaf_col zone t = Some c -> ty_of_col c = Some t' ->
    infer_st zone tl t' (type_str t) = (t', IOk).
  Proof.
    unfold leaf_col. destruct (find (leaf_match t) plain_leaves) as [c0|] eqn:Ef.
    - intros [= <-] Ht. apply find_some in Ef as [Hin Hm]. apply leaf_match_sound in Hm.
      rewrite Hm in Ht. injection Ht as <-. rewrite (type_str_ty_of_col _ _ Hm).
      pose proof plain_infer_st as Hp. rewrite Forall_forall in Hp. specialize (Hp _ Hin). now rewrite Hm in Hp.
    - destruct t; try discriminate.
      + destruct (param_leaf zone name) as [c0|] eqn:Ep; [|discriminate]. cbn [type_str].
        destruct (param_leaf_inv _ _ Ep) as [(z & Hz & -> & ->)|[(p & z & Hp & Hz & -> & ->)|[(pr & sc & go & Hc & -> & ->)|(T & go & sc & Hin & -> & ->)]]].
        * change (ty_of_col (CDateTime (Some z)))
            with (Some (TFix (T_DateTime ++ 40 :: (39 :: z ++ [39]) ++ [41]) 4)).
          cbv iota beta. destruct (4 =? w)%nat eqn:Ew; [|discriminate]. apply Nat.eqb_eq in Ew. subst w.
          intros Hc0. assert (c = CDateTime (Some z)) by congruence. subst c. clear Hc0.
          change (ty_of_col (CDateTime (Some z)))
            with (Some (TFix (T_DateTime ++ 40 :: (39 :: z ++ [39]) ++ [41]) 4)).
          intros Ht. assert (Ht' : t' = TFix (T_DateTime ++ 40 :: (39 :: z ++ [39]) ++ [41]) 4) by congruence.
          rewrite Ht'. clear Ht Ht'.
          rewrite infer_st_fix, fix_kind_datetime.
          rewrite (datetime_zone_ok zone tl z Hz). reflexivity.
        * change (ty_of_col (CDateTime64 p (Some z)))
            with (Some (TFix (T_DateTime64 ++ 40 :: (dec_of_N p ++ 44 :: 32 :: 39 :: z ++ [39]) ++ [41]) 8)).
          cbv iota beta. destruct (8 =? w)%nat eqn:Ew; [|discriminate]. apply Nat.eqb_eq in Ew. subst w.
          intros Hc0. assert (c = CDateTime64 p (Some z)) by congruence. subst c. clear Hc0.
          change (ty_of_col (CDateTime64 p (Some z)))
            with (Some (TFix (T_DateTime64 ++ 40 :: (dec_of_N p ++ 44 :: 32 :: 39 :: z ++ [39]) ++ [41]) 8)).
          intros Ht.
          assert (Ht' : t' = TFix (T_DateTime64 ++ 40 :: (dec_of_N p ++ 44 :: 32 :: 39 :: z ++ [39]) ++ [41]) 8) by congruence.
          rewrite Ht'. clear Ht Ht'.
          rewrite infer_st_fix, fix_kind_datetime64.
          rewrite (dt64_infer_of _ _ _ _ (datetime64_zone_ok zone tl p z Hp Hz)). reflexivity.
        * destruct (decimal_class_in _ _ Hc) as (T & Hin).
          destruct (decimal_n_ty T go Hin) as (w' & Hty & Hfk). rewrite Hty.
          destruct (w' =? w)%nat eqn:Ew; [|discriminate]. apply Nat.eqb_eq in Ew. subst w.
          intros [= <-]. rewrite Hty. intros [= <-]. rewrite infer_st_fix, Hfk. reflexivity.
        * destruct (decimal_n_ty T go Hin) as (w' & Hty & Hfk). rewrite Hty.
          destruct (w' =? w)%nat eqn:Ew; [|discriminate]. apply Nat.eqb_eq in Ew. subst w.
          intros [= <-]. rewrite Hty. intros [= <-]. rewrite infer_st_fix, Hfk. reflexivity.
      + intros H Ht. destruct (enum_leaf_ok zone tl _ _ _ _ (fun _ => Err EFuel) H) as [_ H2].
        rewrite H2 in Ht. injection Ht as <-. cbn [type_str infer_st].
        revert H. unfold enum_leaf.
        destruct (((w =? 1)%nat || (w =? 2)%nat) && _ && _ && _) eqn:Hb; [|discriminate]. intros [= <-].
        apply andb_prop in Hb as [Hb Hname]. apply andb_prop in Hb as [Hb Hok]. apply andb_prop in Hb as [Hw Hne].
        assert (Hne' : defs <> []) by (destruct defs; discriminate).
        assert (Hsp : exists sp, name = enum_str w sp defs).
        { apply orb_prop in Hname as [E|E]; apply bytes_eqb_eq in E; eauto. }
        destruct Hsp as [sp Hn]. pose proof (enum_str_ok w sp defs Hne' Hok) as He. rewrite <- Hn in He.
        rewrite He. unfold rok. cbv beta iota. rewrite H2. reflexivity.
  Qed.
End NormCodec.

(* ====================================================================================== *)
(* 5. blocks through Results.Auto()                                                        *)
(* ====================================================================================== *)
Section BlockAuto.
  Variable zone : bytes -> option bytes.
  Variable tl : bytes -> bytes.
  Notation infer_target := (Results.infer_target zone tl).
  Notation infer_auto := (Results.infer_auto zone tl).
  Notation norm := (norm zone).
  Notation inferable := (inferable zone).
  Notation norm_col := (norm_col zone).

  (* written so that it holds whether or not ColNullable / ColLowCardinality forward Infer to their element *)
  Lemma acol_infer_st : forall t c t', acol zone t = Some c -> ty_of_col c = Some t' ->
    infer_st zone tl t' (type_str t) = (t', IOk).
  Proof.
    induction t; intros c t' Hc Ht; cbn [acol] in Hc; try (match type of Hc with None = Some _ => discriminate Hc end);
      try (apply (leaf_infer_st zone tl _ _ _ Hc Ht));
      unfold wrap_col in Hc; (destruct (acol zone t) as [c0|] eqn:E; [|discriminate]);
      (destruct (has_method _ c0); [|discriminate]); injection Hc as <-; cbn [ty_of_col] in Ht;
      (destruct (ty_of_col c0) as [t0|] eqn:E0; [|discriminate]); cbn [option_map] in Ht; injection Ht as <-;
      try change (type_str (TArr t)) with (T_Array ++ 40 :: type_str t ++ [41]);
      try change (type_str (TNullable t)) with (T_Nullable ++ 40 :: type_str t ++ [41]);
      try change (type_str (TLowCard t)) with (T_LowCardinality ++ 40 :: type_str t ++ [41]);
      cbn [infer_st];
      try (destruct (inferable_ty t0); [|reflexivity];
           rewrite elem_r_ok, elem_wrap by (reflexivity || discriminate); unfold rok; cbv beta iota;
           rewrite (IHt c0 t0 eq_refl E0));
      reflexivity.
  Qed.

  Theorem norm_infer_target t : inferable t = true -> infer_target (norm t) (type_str t) = Some (norm t).
  Proof.
    intros H. destruct (inferable_inv zone t H) as (c & Hc & Ht).
    unfold Results.infer_target. rewrite (acol_infer_st t c _ Hc Ht). now destruct (inferable_ty (norm t)).
  Qed.

  (* a prepared input column with [nrows] rows of an inferable type *)
  Definition col_ok_auto (nrows : N) (c : Block.col) : Prop :=
    inferable (c_ty c) = true /\ wf_ty (c_ty c) = true /\ str_ok (c_name c) /\ str_ok (type_str (c_ty c)) /\
    rows (c_ty c) (c_data c) = nrows /\ wfd (c_ty c) nrows (c_data c) /\
    prepare (c_ty c) (c_data c) = Some (c_data c).

  (* the column ColAuto created reads the body the original column wrote *)
  Lemma body_rt b b' nrows t t' d r : rename_eq t t' -> wf_ty t = true -> nrows <= max_rows ->
    wfd t nrows d -> rows t d = nrows ->
    (if nrows =? 0 then ret (empty t') else dec_state t';;; dec b' t' nrows)
      ((if rows t d =? 0 then [] else enc_state t ++ enc b t d) ++ r) = Ok d r.
  Proof.
    intros Hre Hwt Hn Hd Hr.
    pose proof (column_roundtrip t b b' nrows d r Hwt Hn Hd Hr) as H. unfold dec_column, enc_column in H.
    rewrite <- (re_empty t t' Hre), <- (re_dec_state t t' Hre).
    destruct (nrows =? 0); [exact H|]. unfold bind in *.
    destruct (dec_state t _) as [u s1| |]; try exact H. now rewrite <- (re_dec b' t t' Hre).
  Qed.

  Lemma dec_auto_cols_rt b b' v nrows : nrows <= max_rows -> forall cols bs rest,
    Forall (col_ok_auto nrows) cols -> enc_cols b v nrows cols = Some bs ->
    dec_auto_cols infer_auto b' v nrows (length cols) (bs ++ rest) = Ok (map norm_col cols) rest.
  Proof.
    intros Hn cols. induction cols as [|c cols IH]; intros bs rest Hok Henc.
    - cbn in Henc. injection Henc as <-. reflexivity.
    - inversion Hok as [|? ? Hc Hcs]; subst.
      destruct Hc as [Hinf [Hwt [Hname [Htstr [Hrows [Hwfd Hprep]]]]]].
      cbn [enc_cols] in Henc. rewrite Hrows, N.eqb_refl in Henc. cbn [negb] in Henc.
      rewrite Hprep, Hrows in Henc.
      destruct (enc_cols b v nrows cols) as [r|] eqn:Er; [|discriminate]. injection Henc as <-.
      cbn [dec_auto_cols length map]. unfold bind at 1. rewrite <- !app_assoc.
      rewrite col_header_rt by assumption.
      rewrite (type_str_infers_itself zone tl _ Hinf).
      unfold bind.
      pose proof (body_rt b b' nrows (c_ty c) (norm (c_ty c)) (c_data c) (r ++ rest)
                    (norm_rename zone tl _ Hinf) Hwt Hn Hwfd Hrows) as Hcol.
      rewrite Hrows in Hcol. unfold bind in Hcol. rewrite Hcol.
      rewrite (IH r rest Hcs eq_refl). reflexivity.
  Qed.

  Lemma put_str_nonempty s : (1 <= length (put_str s))%nat.
  Proof.
    unfold put_str, put_uvarint. rewrite app_length.
    assert (1 <= length (put_uv 9 (blen s mod 2 ^ 64)))%nat; [|lia].
    cbn [put_uv]. destruct (_ <? 128); cbn [length]; lia.
  Qed.

  Lemma enc_cols_len b v nrows : forall cols r, enc_cols b v nrows cols = Some r -> (length cols <= length r)%nat.
  Proof.
    induction cols as [|c cols IH]; intros r H; [cbn [length]; lia|].
    cbn [enc_cols] in H. destruct (negb _); [discriminate|].
    destruct (prepare _ _); [|discriminate]. destruct (enc_cols b v nrows cols) as [r'|]; [|discriminate].
    injection H as <-. specialize (IH r' eq_refl). unfold enc_start. rewrite !app_length. cbn [length].
    pose proof (put_str_nonempty (c_name c)). lia.
  Qed.

  (* first block: Results.Auto() on an empty Results *)
  Theorem block_roundtrip_auto b b' v i nrows cols bs rest :
    nrows <= max_rows -> (Z.of_nat (length cols) <= maxColumnsInBlock)%Z -> in_i32 (bi_bucket i) ->
    Forall (col_ok_auto nrows) cols ->
    encode_block b v i nrows cols = Some bs ->
    decode_block conflicts_b infer_target infer_auto true b' v [] (bs ++ rest)
    = Ok ((if gate v FeatureBlockInfo then i else blank_block_info),
          Z.of_nat (length cols), Z.of_N nrows, map norm_col cols) rest.
  Proof.
    intros Hn Hc Hi Hok Henc.
    unfold encode_block, encode_raw_block in Henc.
    destruct (enc_cols b v nrows cols) as [r|] eqn:Er; [|discriminate]. cbn [option_map] in Henc.
    injection Henc as <-.
    unfold decode_block, bind. rewrite <- !app_assoc.
    assert (Hinfo : (if gate v FeatureBlockInfo then decode_BlockInfo blank_block_info else ret blank_block_info)
                      ((if gate v FeatureBlockInfo then encode_BlockInfo i else []) ++
                       put_int (Z.of_nat (length cols)) ++ put_int (Z.of_N nrows) ++ r ++ rest)
                    = Ok (if gate v FeatureBlockInfo then i else blank_block_info)
                         (put_int (Z.of_nat (length cols)) ++ put_int (Z.of_N nrows) ++ r ++ rest)).
    { destruct (gate v FeatureBlockInfo); [now apply BlockInfo_rt|reflexivity]. }
    rewrite Hinfo. unfold decode_raw_block, bind.
    unfold maxColumnsInBlock in Hc |- *.
    rewrite get_int_put by (unfold in_i64; lia).
    replace ((1000000 <? Z.of_nat (length cols)) || (Z.of_nat (length cols) <? 0))%Z with false by lia.
    rewrite get_int_put by (unfold in_i64, max_rows, maxRowsInBLock in *; lia).
    rewrite check_rows_ok by exact Hn.
    destruct ((Z.of_nat (length cols) =? 0)%Z && (Z.of_N nrows =? 0)%Z) eqn:E0.
    - assert (cols = []) as -> by (destruct cols; [reflexivity|cbn [length] in E0; lia]).
      cbn in Er. injection Er as <-. reflexivity.
    - unfold decode_auto.
      pose proof (enc_cols_len b v nrows cols r Er) as Hlen.
      replace (Z.to_N (Z.of_nat (length cols)) <=? blen (r ++ rest)) with true
        by (unfold blen; rewrite app_length; lia).
      replace (N.to_nat (Z.to_N (Z.of_nat (length cols)))) with (length cols) by lia.
      rewrite (dec_auto_cols_rt b b' v nrows Hn cols r rest Hok Er). reflexivity.
  Qed.

  (* a later block of the same schema: DecodeResult on the columns the first block left *)
  Definition holds (c t : Block.col) : Prop := c_name t = c_name c /\ c_ty t = norm (c_ty c).

  Lemma dec_targets_next b b' v nrows : nrows <= max_rows -> forall cols ts bs rest,
    Forall (col_ok_auto nrows) cols -> Forall2 holds cols ts ->
    enc_cols b v nrows cols = Some bs ->
    dec_targets conflicts_b infer_target b' v nrows ts (bs ++ rest) = Ok (map norm_col cols) rest.
  Proof.
    intros Hn cols. induction cols as [|c cols IH]; intros ts bs rest Hok Hb Henc.
    - inversion Hb; subst. cbn in Henc. injection Henc as <-. reflexivity.
    - inversion Hb as [|? t ? ts' Hbt Hbs]; subst. inversion Hok as [|? ? Hc Hcs]; subst.
      destruct Hc as [Hinf [Hwt [Hname [Htstr [Hrows [Hwfd Hprep]]]]]].
      destruct Hbt as [Hnm Hty].
      cbn [enc_cols] in Henc. rewrite Hrows, N.eqb_refl in Henc. cbn [negb] in Henc.
      rewrite Hprep, Hrows in Henc.
      destruct (enc_cols b v nrows cols) as [r|] eqn:Er; [|discriminate]. injection Henc as <-.
      cbn [dec_targets map]. unfold bind at 1. rewrite <- !app_assoc.
      rewrite col_header_rt by assumption.
      assert (Htn : (match c_name t with [] => c_name c | _ :: _ => c_name t end) = c_name c)
        by (rewrite Hnm; destruct (c_name c); reflexivity).
      rewrite Htn, bytes_eqb_refl. cbn [negb]. rewrite Hty, (norm_infer_target _ Hinf).
      destruct (norm_no_conflict zone tl _ Hinf) as [Hcf _]. rewrite Hcf.
      unfold bind.
      pose proof (body_rt b b' nrows (c_ty c) (norm (c_ty c)) (c_data c) (r ++ rest)
                    (norm_rename zone tl _ Hinf) Hwt Hn Hwfd Hrows) as Hcol.
      rewrite Hrows in Hcol. unfold bind in Hcol. rewrite Hcol.
      rewrite (IH ts' r rest Hcs Hbs eq_refl). reflexivity.
  Qed.

  Theorem block_roundtrip_auto_next b b' v i nrows cols ts bs rest :
    nrows <= max_rows -> (Z.of_nat (length cols) <= maxColumnsInBlock)%Z -> in_i32 (bi_bucket i) ->
    Forall (col_ok_auto nrows) cols -> Forall2 holds cols ts -> cols <> [] ->
    encode_block b v i nrows cols = Some bs ->
    decode_block conflicts_b infer_target infer_auto true b' v ts (bs ++ rest)
    = Ok ((if gate v FeatureBlockInfo then i else blank_block_info),
          Z.of_nat (length cols), Z.of_N nrows, map norm_col cols) rest.
  Proof.
    intros Hn Hc Hi Hok Hb Hne Henc.
    unfold encode_block, encode_raw_block in Henc.
    destruct (enc_cols b v nrows cols) as [r|] eqn:Er; [|discriminate]. cbn [option_map] in Henc.
    injection Henc as <-.
    unfold decode_block, bind. rewrite <- !app_assoc.
    assert (Hinfo : (if gate v FeatureBlockInfo then decode_BlockInfo blank_block_info else ret blank_block_info)
                      ((if gate v FeatureBlockInfo then encode_BlockInfo i else []) ++
                       put_int (Z.of_nat (length cols)) ++ put_int (Z.of_N nrows) ++ r ++ rest)
                    = Ok (if gate v FeatureBlockInfo then i else blank_block_info)
                         (put_int (Z.of_nat (length cols)) ++ put_int (Z.of_N nrows) ++ r ++ rest)).
    { destruct (gate v FeatureBlockInfo); [now apply BlockInfo_rt|reflexivity]. }
    rewrite Hinfo. unfold decode_raw_block, bind.
    unfold maxColumnsInBlock in Hc |- *.
    rewrite get_int_put by (unfold in_i64; lia).
    replace ((1000000 <? Z.of_nat (length cols)) || (Z.of_nat (length cols) <? 0))%Z with false by lia.
    rewrite get_int_put by (unfold in_i64, max_rows, maxRowsInBLock in *; lia).
    rewrite check_rows_ok by exact Hn.
    destruct cols as [|c cols']; [contradiction|]. set (cols := c :: cols') in *.
    replace ((Z.of_nat (length cols) =? 0)%Z) with false by (unfold cols; cbn [length]; lia).
    cbn [andb].
    inversion Hb as [|? t ? ts' Hbt Hbs]; subst.
    unfold decode_auto, decode_result.
    assert (Hlen : length cols' = length ts') by (clear -Hbs; induction Hbs; cbn [length]; congruence).
    assert (El : (Z.to_N (Z.of_nat (length cols)) =? N.of_nat (length (t :: ts'))) = true)
      by (unfold cols; cbn [length]; rewrite <- Hlen; lia).
    unfold target. rewrite El. cbn [negb].
    rewrite (dec_targets_next b b' v nrows Hn cols (t :: ts') r rest Hok Hb Er).
    reflexivity.
  Qed.
End BlockAuto.

(* ====================================================================================== *)
(* 6. Go row values                                                                       *)
(* ====================================================================================== *)
Lemma abs_rename a b d : rename_eq a b -> abs a d = abs b d.
Proof.
  intros H. unfold abs, nrows. rewrite (re_rows a b H). apply mapM_ext. intros i. now apply re_row.
Qed.

Section ValuesAuto.
  Variable zone : bytes -> option bytes.
  Variable tl : bytes -> bytes.
  Notation infer_target := (Results.infer_target zone tl).
  Notation infer_auto := (Results.infer_auto zone tl).
  Notation norm := (norm zone).
  Notation norm_col := (norm_col zone).

  (* [fst s]: a column object as the caller filled it, holding the rows [snd s];
     [c]: the same column after Prepare, as EncodeBlock writes it *)
  Definition src_ok (nrows : N) (s : Block.col * list val) (c : Block.col) : Prop :=
    c_name c = c_name (fst s) /\ c_ty c = c_ty (fst s) /\
    inferable zone (c_ty c) = true /\ c16_ty (c_ty c) = true /\
    str_ok (c_name c) /\ str_ok (type_str (c_ty c)) /\
    inv (c_ty c, c_data (fst s)) (snd s) /\
    prepare (c_ty c) (c_data (fst s)) = Some (c_data c) /\
    small (c_ty c) (c_data c) /\ rows (c_ty c) (c_data c) = nrows.

  (* what a reader of the Results finds: the caller's names and rows *)
  Definition read_back (nrows : N) (s : Block.col * list val) (c' : Block.col) : Prop :=
    c_name c' = c_name (fst s) /\ c_ty c' = norm (c_ty (fst s)) /\
    rows (c_ty c') (c_data c') = nrows /\ abs (c_ty c') (c_data c') = Some (snd s).

  Lemma src_col_ok nrows s c : src_ok nrows s c ->
    col_ok_auto zone nrows c /\ read_back nrows s (norm_col c).
  Proof.
    intros (Hnm & Hty & Hinf & Hc16 & Hsn & Hst & [Hg Ha] & Hp & Hs & Hr). cbn [fst snd] in Hg, Ha.
    destruct (prepare_ok (c_ty c) _ _ Hp) as (R & W & G & I).
    assert (Hwt : wf_ty (c_ty c) = true).
    { pose proof Hc16 as Hx. unfold c16_ty in Hx. apply andb_true_iff in Hx. exact (proj1 Hx). }
    assert (Hw : wfd (c_ty c) (rows (c_ty c) (c_data c)) (c_data c)) 
      by exact (good_wfd (c_ty c) Hc16 (c_data c) (G Hg) Hs I).
    pose proof (norm_rename zone tl _ Hinf) as Hre.
    split.
    - unfold col_ok_auto. rewrite Hr in Hw. exact (conj Hinf (conj Hwt (conj Hsn (conj Hst (conj Hr (conj Hw I)))))).
    - unfold read_back, AutoClass.norm_col. cbn [c_name c_ty c_data]. rewrite <- Hty.
      repeat split; [exact Hnm| |].
      + now rewrite <- (re_rows _ _ Hre).
      + rewrite <- (abs_rename _ _ (c_data c) Hre), <- Ha. now apply abs_same.
  Qed.

  Lemma src_all nrows srcs cols : Forall2 (src_ok nrows) srcs cols ->
    Forall (col_ok_auto zone nrows) cols /\ Forall2 (read_back nrows) srcs (map norm_col cols).
  Proof.
    induction 1 as [|s c srcs cols H _ [IH1 IH2]]; [split; constructor|].
    destruct (src_col_ok nrows s c H) as [H1 H2]. split; cbn [map]; constructor; assumption.
  Qed.

  Theorem values_roundtrip_auto b b' v i nrows srcs cols bs rest :
    nrows <= max_rows -> (Z.of_nat (length cols) <= maxColumnsInBlock)%Z -> in_i32 (bi_bucket i) ->
    Forall2 (src_ok nrows) srcs cols ->
    encode_block b v i nrows cols = Some bs ->
    exists cols',
      decode_block conflicts_b infer_target infer_auto true b' v [] (bs ++ rest)
      = Ok ((if gate v FeatureBlockInfo then i else blank_block_info),
            Z.of_nat (length cols), Z.of_N nrows, cols') rest /\
      Forall2 (read_back nrows) srcs cols'.
  Proof.
    intros Hn Hc Hi Hs Henc. destruct (src_all nrows srcs cols Hs) as [H1 H2].
    exists (map norm_col cols). split; [|exact H2].
    now apply (block_roundtrip_auto zone tl b b' v i nrows cols bs rest).
  Qed.
End ValuesAuto.

(* ====================================================================================== *)
(* 7. what [norm] is                                                                      *)
(* ====================================================================================== *)
Lemma re_enc bld a b : rename_eq a b -> forall d, enc bld a d = enc bld b d.
Proof.
  induction 1 as [t|nm nm' w|a b H IH|a b H IH|a b H IH]; intros d; try reflexivity;
    destruct d; try reflexivity; cbn [enc].
  - now rewrite IH.
  - now rewrite IH.
  - destruct vals; [reflexivity|]. now rewrite IH, (re_rows a b H).
Qed.

Section NormFacts.
  Variable zone : bytes -> option bytes.
  Variable tl : bytes -> bytes.

  (* the codecs, the accessors and the reset state of the created column are those of the original *)
  Theorem norm_same_codec t : inferable zone t = true ->
    (forall b d, enc b (norm zone t) d = enc b t d) /\ enc_state (norm zone t) = enc_state t /\
    (forall b n s, dec b (norm zone t) n s = dec b t n s) /\ dec_state (norm zone t) = dec_state t /\
    empty (norm zone t) = empty t /\
    (forall d, rows (norm zone t) d = rows t d) /\ (forall d i, row (norm zone t) d i = row t d i).
  Proof.
    intros H. pose proof (norm_rename zone tl t H) as Hre.
    repeat split; intros; symmetry;
      [now apply re_enc|now apply re_enc_state|now apply re_dec|now apply re_dec_state|now apply re_empty|
       now apply re_rows|now apply re_row].
  Qed.

  (* the only leaves that come back under another name are the decimals: Decimal(P, S) and DecimalN(S)
     come back as the bare DecimalN of the same width *)
  Theorem norm_leaf name w : inferable zone (TFix name w) = true ->
    norm zone (TFix name w) = TFix name w \/
    exists T go, In (T, go) decimal_n_cols /\ norm zone (TFix name w) = TFix T w /\
                 (exists pr sc, name = decimal_str pr sc) \/
                 In (T, go) decimal_n_cols /\ norm zone (TFix name w) = TFix T w /\ exists sc, name = decimal_n_str T sc.
  Proof.
    intros H. destruct (inferable_inv zone _ H) as (c & Hc & Ht). cbn [acol] in Hc.
    revert Hc. unfold leaf_col. destruct (find _ plain_leaves) as [c0|] eqn:Ef.
    - intros [= <-]. apply find_some in Ef as [_ Hm]. apply leaf_match_sound in Hm.
      left. rewrite Hm in Ht. now injection Ht.
    - destruct (param_leaf zone name) as [c0|] eqn:Ep; [|discriminate].
      destruct (param_leaf_inv zone _ _ Ep) as [(z & Hz & Hn & ->)|[(p & z & Hp & Hz & Hn & ->)|[(pr & sc & go & Hcl & Hn & ->)|(T & go & sc & Hin & Hn & ->)]]].
      + change (ty_of_col (CDateTime (Some z))) with (Some (TFix (T_DateTime ++ 40 :: (39 :: z ++ [39]) ++ [41]) 4)).
        cbv iota beta. destruct (4 =? w)%nat eqn:Ew; [|discriminate]. apply Nat.eqb_eq in Ew. subst w.
        intros Hc0. assert (c = CDateTime (Some z)) by congruence. subst c.
        change (ty_of_col (CDateTime (Some z))) with (Some (TFix (T_DateTime ++ 40 :: (39 :: z ++ [39]) ++ [41]) 4)) in Ht.
        left. rewrite Hn. congruence.
      + change (ty_of_col (CDateTime64 p (Some z)))
          with (Some (TFix (T_DateTime64 ++ 40 :: (dec_of_N p ++ 44 :: 32 :: 39 :: z ++ [39]) ++ [41]) 8)).
        cbv iota beta. destruct (8 =? w)%nat eqn:Ew; [|discriminate]. apply Nat.eqb_eq in Ew. subst w.
        intros Hc0. assert (c = CDateTime64 p (Some z)) by congruence. subst c.
        change (ty_of_col (CDateTime64 p (Some z)))
          with (Some (TFix (T_DateTime64 ++ 40 :: (dec_of_N p ++ 44 :: 32 :: 39 :: z ++ [39]) ++ [41]) 8)) in Ht.
        left. rewrite Hn. congruence.
      + destruct (decimal_class_in _ _ Hcl) as (T & Hin).
        destruct (decimal_n_ty T go Hin) as (w' & Hty & _). rewrite Hty.
        destruct (w' =? w)%nat eqn:Ew; [|discriminate]. apply Nat.eqb_eq in Ew. subst w.
        intros [= <-]. rewrite Hty in Ht. right. exists T, go. left. repeat split; [exact Hin|congruence|eauto].
      + destruct (decimal_n_ty T go Hin) as (w' & Hty & _). rewrite Hty.
        destruct (w' =? w)%nat eqn:Ew; [|discriminate]. apply Nat.eqb_eq in Ew. subst w.
        intros [= <-]. rewrite Hty in Ht. right. exists T, go. right. repeat split; [exact Hin|congruence|eauto].
  Qed.
End NormFacts.
