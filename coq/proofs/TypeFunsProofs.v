(* C19: the ColumnType functions translated from the Go source on every run (gen/TypeFuns.v, written by
   translator/gostr.go) are the hand model of model/TypeStr.v — for all byte strings.

   Style: every equation is proved by unfolding both sides and analysing the same elementary tests (equalities of
   byte strings, integer comparisons, the results of cut/atoi) one at a time, not by syntactic identity: a harmless
   rewrite of the Go source (statements reordered, an `if` turned into a `switch`, a helper extracted, a local
   renamed) goes through; a change of meaning leaves a goal `rok x = rok y` that is not closed.                      *)
From CH Require Import model.TypeStr proofs.TypeStrProofs gen.TypeNames gen.TypeFuns.
From Coq Require Import ZifyN ZifyNat ZifyBool.
Open Scope N_scope.
Open Scope list_scope.

(* ---------- the case-analysis tactic ------------------------------------------------------------------- *)
Ltac gs_names :=
  unfold T_Int8, T_Int16, T_Array, T_Nullable, T_LowCardinality, T_DateTime, T_DateTime64, T_Enum8, T_Enum16,
    T_Map, T_Decimal, T_Decimal32, T_Decimal64, T_Decimal128, T_Decimal256 in *.

(* the leftmost elementary test of a boolean expression *)
Ltac gs_atom b :=
  lazymatch b with
  | andb ?x _ => gs_atom x
  | orb ?x _ => gs_atom x
  | negb ?x => gs_atom x
  | Bool.eqb ?x _ => gs_atom x
  | if ?x then _ else _ => gs_atom x
  | _ => b
  end.

Ltac gs_red := cbn [rbind rok andb orb negb Bool.eqb fst snd app].

(* at a leaf: the two sides agree, or the tests taken on the way contradict each other (this is what sees through
   `n < 10` rewritten as `n <= 9`) *)
Ltac gs_only_Z_tests :=
  repeat match goal with
         | H : ?t = _ |- _ =>
           lazymatch t with
           | Z.ltb _ _ => fail
           | Z.leb _ _ => fail
           | Z.eqb _ _ => fail
           | _ => clear H
           end
         end.

Ltac gs_leaf :=
  solve [ reflexivity
        | discriminate
        | congruence
        | exfalso; gs_only_Z_tests; lia
        | repeat match goal with
                 | H : bytes_eqb _ _ = true |- _ => apply bytes_eqb_eq in H
                 | H : bytes_eqb _ _ = false |- _ => apply bytes_eqb_neq in H
                 end; congruence ].

(* `a == b` and `b == a` are one test *)
Ltac gs_symnorm :=
  repeat match goal with
         | |- context [bytes_eqb ?a ?b] =>
           tryif constr_eq a b then fail else
           match goal with |- context [bytes_eqb b a] => rewrite (bytes_eqb_sym b a) end
         end.

(* a comparison of two integer constants is computed, any other test is a case distinction *)
Ltac gs_split a :=
  lazymatch a with
  | Z.ltb _ _ => gs_split_z a
  | Z.leb _ _ => gs_split_z a
  | Z.eqb _ _ => gs_split_z a
  | _ => destruct a eqn:?
  end
with gs_split_z a :=
  let v := eval cbv in a in
  lazymatch v with
  | true => change a with true
  | false => change a with false
  | _ => destruct a eqn:?
  end.

(* depth first, without backtracking: the first leaf that does not close fails the whole proof at once (a changed
   source must break the build quickly, not after exploring every path) *)
Ltac gs_go :=
  gs_red;
  lazymatch goal with
  | |- ?l = ?r =>
    tryif constr_eq l r then reflexivity else
    lazymatch goal with
    | |- context [if ?b then _ else _] => let a := gs_atom b in gs_split a; gs_go
    | |- context [match ?x with _ => _ end] => destruct x eqn:?; gs_go
    | _ => gs_leaf
    end
  end.

Ltac gs_cases := gs_symnorm; gs_go.

Lemma bytes_eqb_nil_r c : bytes_eqb c [] = match c with [] => true | _ => false end.
Proof. destruct c; reflexivity. Qed.

(* ---------- Base, Elem: equal to the model, and the guards exclude the slice panic ------------------------ *)
Lemma go_Base_eq c : go_Base c = base_r c.
Proof.
  unfold go_Base, base_r, parens. rewrite bytes_eqb_nil_r. destruct c as [|x c]; [reflexivity|].
  cbv zeta.
  gs_cases.
Qed.

Lemma go_Elem_eq c : go_Elem c = elem_r c.
Proof.
  unfold go_Elem, elem_r, parens. rewrite bytes_eqb_nil_r. destruct c as [|x c]; [reflexivity|].
  cbv zeta.
  gs_cases.
Qed.

(* "never panics": the guards of the translated Base/Elem exclude the out-of-range slice *)
Corollary go_Base_no_panic c : go_Base c = rok (base c).
Proof. rewrite go_Base_eq. apply base_r_ok. Qed.
Corollary go_Elem_no_panic c : go_Elem c = rok (elem c).
Proof. rewrite go_Elem_eq. apply elem_r_ok. Qed.

(* ---------- isDecimalN, normalizeCommas, IsArray ----------------------------------------------------------- *)
Lemma go_isDecimalN_eq c : go_isDecimalN c = is_decimal_n c.
Proof. unfold go_isDecimalN, is_decimal_n. gs_names. gs_cases. Qed.

Lemma go_normalizeCommas_eq c : go_normalizeCommas c = normalize_commas c.
Proof. unfold go_normalizeCommas, normalize_commas. cbv zeta. cbn [app]. reflexivity. Qed.

Lemma go_IsArray_eq c : go_IsArray c = is_array c.
Proof. unfold go_IsArray, is_array. gs_names. reflexivity. Qed.

(* ---------- decimalDowncast --------------------------------------------------------------------------------- *)
Lemma go_decimalDowncast_eq c : go_decimalDowncast c = decimal_downcast_r c.
Proof.
  unfold go_decimalDowncast, decimal_downcast_r, decimal_prec.
  autounfold with gostr_helpers.
  repeat match goal with
         | |- context [go_Base ?x] => rewrite (go_Base_no_panic x)
         | |- context [go_Elem ?x] => rewrite (go_Elem_no_panic x)
         end.
  rewrite ?base_r_ok, ?elem_r_ok.
  cbv zeta. gs_red.
  repeat match goal with |- context [go_isDecimalN ?x] => rewrite (go_isDecimalN_eq x) end.
  gs_names.
  rewrite ?bytes_eqb_nil_r.
  gs_cases.
Qed.

Corollary go_decimalDowncast_no_panic c : go_decimalDowncast c = rok (decimal_downcast c).
Proof. rewrite go_decimalDowncast_eq. apply decimal_downcast_r_ok. Qed.

(* ---------- Conflicts ----------------------------------------------------------------------------------------- *)
(* one call of the translated body is one call of the model's body, whatever the recursive call is *)
Lemma go_Conflicts_step_eq rec c b : go_Conflicts_step rec c b = conf_body rec c b.
Proof.
  unfold go_Conflicts_step, conf_body, enum_int_clause, dec_clause, is_enum, is_wrapper, is_dt.
  autounfold with gostr_helpers.
  repeat match goal with
         | |- context [go_Base ?x] => rewrite (go_Base_no_panic x)
         | |- context [go_Elem ?x] => rewrite (go_Elem_no_panic x)
         | |- context [go_decimalDowncast ?x] => rewrite (go_decimalDowncast_no_panic x)
         end.
  cbv zeta. gs_red.
  repeat match goal with
         | |- context [go_normalizeCommas ?x] => rewrite (go_normalizeCommas_eq x)
         | |- context [go_isDecimalN ?x] => rewrite (go_isDecimalN_eq x)
         end.
  gs_names.
  gs_cases.
Qed.

Lemma go_Conflicts_fuel_eq n : forall c b, go_Conflicts_fuel n c b = conflicts_f n c b.
Proof.
  induction n as [|n IH]; intros c b; [reflexivity|].
  cbn [go_Conflicts_fuel conflicts_f]. rewrite go_Conflicts_step_eq, conf_step_body.
  apply conf_body_ext. intros _ _. apply IH.
Qed.

Theorem go_Conflicts_eq c b : go_Conflicts c b = conflicts_r c b.
Proof. unfold go_Conflicts, conflicts_r. apply go_Conflicts_fuel_eq. Qed.

(* the fuel of the translation is never exhausted: any fuel above the length of either argument gives the same
   result, which is a value (no panic, no EFuel) *)
Theorem go_Conflicts_fuel_enough n c b :
  (length c < n \/ length b < n)%nat -> go_Conflicts_fuel n c b = go_Conflicts c b.
Proof.
  intros H. unfold go_Conflicts. rewrite !go_Conflicts_fuel_eq. apply conflicts_f_fuel; lia.
Qed.

Theorem go_Conflicts_no_panic c b : exists r, go_Conflicts c b = rok r.
Proof. rewrite go_Conflicts_eq. apply conflicts_r_no_panic. Qed.

(* the recursive equation of the translated source: Conflicts is its own body applied to itself *)
Theorem go_Conflicts_equation c b : go_Conflicts c b = go_Conflicts_step go_Conflicts c b.
Proof.
  rewrite go_Conflicts_step_eq, go_Conflicts_eq, conflicts_r_unfold.
  apply conf_body_ext. intros _ _. symmetry. apply go_Conflicts_eq.
Qed.

(* ---------- the conjunction --------------------------------------------------------------------------------- *)
Definition type_functions_are_source_stmt : Prop :=
  (forall c, go_Base c = base_r c) /\
  (forall c, go_Elem c = elem_r c) /\
  (forall c, go_isDecimalN c = is_decimal_n c) /\
  (forall c, go_decimalDowncast c = decimal_downcast_r c) /\
  (forall c, go_normalizeCommas c = normalize_commas c) /\
  (forall c, go_IsArray c = is_array c) /\
  (forall rec c b, go_Conflicts_step rec c b = conf_step rec c b) /\
  (forall c b, go_Conflicts c b = conflicts_r c b).

Theorem type_functions_are_source_proof : type_functions_are_source_stmt.
Proof.
  unfold type_functions_are_source_stmt.
  refine (conj go_Base_eq (conj go_Elem_eq (conj go_isDecimalN_eq (conj go_decimalDowncast_eq
          (conj go_normalizeCommas_eq (conj go_IsArray_eq (conj _ go_Conflicts_eq))))))).
  intros rec c b. rewrite go_Conflicts_step_eq. symmetry. apply conf_step_body.
Qed.

(* ---------- the C19 theorems over the translated source ------------------------------------------------------ *)
(* premises are stated on the translated functions too: `go_Base c = rok B` reads "c.Base() returns B" *)
Lemma go_Base_inv c B : go_Base c = rok B -> base c = B.
Proof. rewrite go_Base_no_panic. unfold rok. now intros [= ->]. Qed.
Lemma go_Elem_inv c e : go_Elem c = rok e -> elem c = e.
Proof. rewrite go_Elem_no_panic. unfold rok. now intros [= ->]. Qed.

Theorem src_base_elem_no_panic c :
  (exists B, go_Base c = rok B) /\
  (exists e, go_Elem c = rok e /\ (c <> [] -> (length e < length c)%nat)) /\
  (exists d, go_decimalDowncast c = rok d).
Proof.
  split; [|split].
  - exists (base c). apply go_Base_no_panic.
  - exists (elem c). split; [apply go_Elem_no_panic | apply elem_shorter].
  - exists (decimal_downcast c). apply go_decimalDowncast_no_panic.
Qed.

Theorem src_conflicts_refl c : go_Conflicts c c = rok false.
Proof. rewrite go_Conflicts_eq. apply conflicts_r_refl. Qed.

Theorem src_conflicts_sym c b : go_Conflicts c b = go_Conflicts b c.
Proof. rewrite (go_Conflicts_eq c b), (go_Conflicts_eq b c). apply conflicts_r_sym. Qed.

Theorem src_enum8_int8 c : go_Base c = rok T_Enum8 ->
  go_Conflicts c T_Int8 = rok false /\ go_Conflicts T_Int8 c = rok false.
Proof. intros H. apply go_Base_inv in H. rewrite (go_Conflicts_eq c T_Int8), (go_Conflicts_eq T_Int8 c). now apply conflicts_enum8_int8. Qed.

Theorem src_enum16_int16 c : go_Base c = rok T_Enum16 ->
  go_Conflicts c T_Int16 = rok false /\ go_Conflicts T_Int16 c = rok false.
Proof. intros H. apply go_Base_inv in H. rewrite (go_Conflicts_eq c T_Int16), (go_Conflicts_eq T_Int16 c). now apply conflicts_enum16_int16. Qed.

Theorem src_enum_enum c b B : go_Base c = rok B -> go_Base b = rok B -> is_enum B = true ->
  go_Conflicts c b = rok false.
Proof.
  intros Hc Hb He. apply go_Base_inv in Hc. apply go_Base_inv in Hb. rewrite go_Conflicts_eq.
  apply conflicts_enum_enum; congruence.
Qed.

Theorem src_decimal_alias c e p a :
  go_Base c = rok T_Decimal -> go_Elem c = rok e -> decimal_prec e = Some p -> decimal_alias p = Some a ->
  go_Conflicts c a = rok false /\ go_Conflicts a c = rok false.
Proof.
  intros Hc He Hp Ha. apply go_Base_inv in Hc. apply go_Elem_inv in He. subst e. rewrite (go_Conflicts_eq c a), (go_Conflicts_eq a c).
  now apply (conflicts_decimal_alias c p a).
Qed.

Theorem src_decimal_same_class c b ec eb p q a :
  go_Base c = rok T_Decimal -> go_Base b = rok T_Decimal -> go_Elem c = rok ec -> go_Elem b = rok eb ->
  decimal_prec ec = Some p -> decimal_prec eb = Some q ->
  decimal_alias p = Some a -> decimal_alias q = Some a -> go_Conflicts c b = rok false.
Proof.
  intros Hc Hb Hec Heb Hp Hq Ha Hqa.
  apply go_Base_inv in Hc. apply go_Base_inv in Hb. apply go_Elem_inv in Hec. apply go_Elem_inv in Heb. subst ec eb.
  rewrite go_Conflicts_eq. now apply (conflicts_decimal_same_class c b p q a).
Qed.

Theorem src_decimal_n_scale c B : go_Base c = rok B -> go_isDecimalN B = true ->
  go_Conflicts c B = rok false /\ go_Conflicts B c = rok false.
Proof.
  intros Hc Hn. apply go_Base_inv in Hc. subst B. rewrite go_isDecimalN_eq in Hn. rewrite (go_Conflicts_eq c (base c)), (go_Conflicts_eq (base c) c).
  now apply conflicts_decimal_n_scale.
Qed.

Theorem src_comma_spacing c b B :
  go_Base c = rok B -> go_Base b = rok B -> dec_clause B B = false ->
  go_normalizeCommas c = go_normalizeCommas b -> go_Conflicts c b = rok false.
Proof.
  intros Hc Hb Hd Hn. apply go_Base_inv in Hc. apply go_Base_inv in Hb.
  rewrite (go_normalizeCommas_eq c), (go_normalizeCommas_eq b) in Hn.
  rewrite go_Conflicts_eq. apply conflicts_normalized; congruence.
Qed.

Theorem src_spaces_after_comma B x y n :
  index_byte 40 B = None -> B <> [] -> dec_clause B B = false ->
  go_Conflicts (B ++ 40 :: (x ++ 44 :: y) ++ [41]) (B ++ 40 :: (x ++ 44 :: repeat 32 n ++ y) ++ [41]) = rok false.
Proof. intros. rewrite go_Conflicts_eq. now apply conflicts_spaces_after_comma. Qed.

Theorem src_timezone c b B : go_Base c = rok B -> go_Base b = rok B -> is_dt B = true -> go_Conflicts c b = rok false.
Proof.
  intros Hc Hb Hd. apply go_Base_inv in Hc. apply go_Base_inv in Hb. rewrite go_Conflicts_eq.
  apply conflicts_datetime; congruence.
Qed.

Theorem src_elementwise W x y : is_wrapper W = true ->
  go_Conflicts (wrap W x) (wrap W y) =
  if bytes_eqb (go_normalizeCommas (wrap W x)) (go_normalizeCommas (wrap W y)) then rok false else go_Conflicts x y.
Proof.
  intros H. rewrite (go_Conflicts_eq (wrap W x) (wrap W y)), (go_Conflicts_eq x y), (go_normalizeCommas_eq (wrap W x)), (go_normalizeCommas_eq (wrap W y)).
  now apply conflicts_elementwise.
Qed.

Theorem src_elementwise_compat W x y : is_wrapper W = true ->
  go_Conflicts x y = rok false -> go_Conflicts (wrap W x) (wrap W y) = rok false.
Proof. intros H. rewrite (go_Conflicts_eq x y), (go_Conflicts_eq (wrap W x) (wrap W y)). now apply conflicts_elementwise_compat. Qed.

Theorem src_conflicts_diff_base c b cB bB :
  go_Base c = rok cB -> go_Base b = rok bB -> cB <> bB ->
  enum_int_clause cB bB c b = false -> dec_clause cB bB = false -> go_Conflicts c b = rok true.
Proof.
  intros Hc Hb Hne He Hd. apply go_Base_inv in Hc. apply go_Base_inv in Hb. subst cB bB.
  rewrite go_Conflicts_eq. now apply conflicts_diff_base.
Qed.

Theorem src_conflicts_same_base c b B :
  go_Base c = rok B -> go_Base b = rok B -> dec_clause B B = false -> is_enum B = false ->
  is_wrapper B = false -> is_dt B = false ->
  go_Conflicts c b = rok (negb (bytes_eqb (go_normalizeCommas c) (go_normalizeCommas b))).
Proof.
  intros Hc Hb Hd He Hw Ht. apply go_Base_inv in Hc. apply go_Base_inv in Hb.
  rewrite go_Conflicts_eq, (go_normalizeCommas_eq c), (go_normalizeCommas_eq b).
  apply conflicts_same_base_other; congruence.
Qed.
