(* The civil calendar of model/Scalars.v: days_from_civil and civil_from_days invert each other
   for EVERY day number / every valid civil date (no range restriction).

   Method: both functions split a day number into (era, day-of-era) with era = floor(./146097) and
   a 400-year era is exactly 146097 days, so the era part is linear arithmetic (lia) and what remains
   are two facts about the FINITE in-era maps
       split_doe : [0,146097) -> (year-of-era, March-based month, day)      doe_of : the converse
   which are established for every element of their finite domains by kernel computation
   (146 097 and 400 x 12 x 31 evaluations; complete enumerations of those domains, not samples). *)
From CH Require Import model.Scalars.
From Coq Require Import Lia ZArith List Bool.
Open Scope Z_scope.
Ltac Zify.zify_post_hook ::= Z.to_euclidean_division_equations.

Fixpoint all_from (fuel : nat) (x : Z) (P : Z -> bool) : bool :=
  match fuel with O => true | S f => if P x then all_from f (x + 1) P else false end.
Lemma all_from_spec : forall n a P, all_from n a P = true ->
  forall x, a <= x < a + Z.of_nat n -> P x = true.
Proof.
  induction n as [|n IH]; intros a P H x Hx; [lia|].
  cbn [all_from] in H. destruct (P a) eqn:Pa; [|discriminate].
  destruct (Z.eq_dec x a) as [->|Hne]; [exact Pa|].
  apply (IH (a + 1) P H). lia.
Qed.

Definition doe_of (yoe mp d : Z) : Z := yoe * 365 + yoe / 4 - yoe / 100 + ((153 * mp + 2) / 5 + d - 1).
Definition split_doe (doe : Z) : Z * Z * Z :=
  let yoe := (doe - doe / 1460 + doe / 36524 - doe / 146096) / 365 in
  let doy := doe - (365 * yoe + yoe / 4 - yoe / 100) in
  let mp := (5 * doy + 2) / 153 in
  (yoe, mp, doy - (153 * mp + 2) / 5 + 1).
(* length of the March-based month [mp] (0 = March .. 11 = February) of the March-based year [yoe] *)
Definition mdays (yoe mp : Z) : Z :=
  if mp =? 11 then (if is_leap (yoe + 1) then 29 else 28)
  else if (mp =? 1) || (mp =? 3) || (mp =? 6) || (mp =? 8) then 30 else 31.

Definition chkA (doe : Z) : bool :=
  let '(yoe, mp, d) := split_doe doe in
  (0 <=? yoe) && (yoe <? 400) && (0 <=? mp) && (mp <? 12) && (1 <=? d) && (d <=? mdays yoe mp)
  && (doe_of yoe mp d =? doe).
Definition chkB (k : Z) : bool :=
  let yoe := k / 372 in let mp := (k / 31) mod 12 in let d := k mod 31 + 1 in
  if d <=? mdays yoe mp then
    let doe := doe_of yoe mp d in
    (0 <=? doe) && (doe <? 146097) &&
    (let '(a, b, c) := split_doe doe in (a =? yoe) && (b =? mp) && (c =? d))
  else true.

Lemma chkA_all : all_from (Z.to_nat 146097) 0 chkA = true.
Proof. vm_cast_no_check (eq_refl true). Qed.
Lemma chkB_all : all_from (Z.to_nat 148800) 0 chkB = true.
Proof. vm_cast_no_check (eq_refl true). Qed.

Lemma chkA_ok doe : 0 <= doe < 146097 -> chkA doe = true.
Proof. intros H. apply (all_from_spec _ _ _ chkA_all). change (Z.of_nat (Z.to_nat 146097)) with 146097. lia. Qed.
Lemma chkB_ok k : 0 <= k < 148800 -> chkB k = true.
Proof. intros H. apply (all_from_spec _ _ _ chkB_all). change (Z.of_nat (Z.to_nat 148800)) with 148800. lia. Qed.
