(* C16: whatever the column decoders accept is a usable column with every row readable
   ([dec_valid] of ColStateProofs.v is a theorem, not a hypothesis, for the pure-Go build and for every
   type tree without Bool under the default build, which keeps Bool bytes other than 0/1 as they are). *)
From CH Require Import model.Columns model.ColState proofs.PrimProofs proofs.ColumnsProofs proofs.ColumnsProofs2 proofs.ColStateProofs.
From CH Require Import gen.Codes gen.Consts.
From Coq Require Import ZifyN ZifyNat ZifyBool.
Ltac Zify.zify_post_hook ::= Z.div_mod_to_equations.
Open Scope N_scope.
Open Scope list_scope.

(* ---------- the unread input stays well-formed ---------------------------------------------- *)
(* input that exists in memory: bytes, fewer than 2^63 of them *)
Definition wfl (s : bytes) : Prop := wf_bytes s /\ blen s < 2 ^ 63.
Definition keeps {A} (p : parser A) : Prop := forall s a r, wfl s -> p s = Ok a r -> wfl r.

Lemma wf_firstn k s : wf_bytes s -> wf_bytes (firstn k s).
Proof. unfold wf_bytes. intros H. rewrite <- (firstn_skipn k s) in H. now apply Forall_app in H as [H _]. Qed.
Lemma wf_skipn k s : wf_bytes s -> wf_bytes (skipn k s).
Proof. unfold wf_bytes. intros H. rewrite <- (firstn_skipn k s) in H. now apply Forall_app in H as [_ H]. Qed.
Lemma wf_rev s : wf_bytes s -> wf_bytes (rev s).
Proof. unfold wf_bytes. intros H. apply Forall_forall. intros x Hx. apply in_rev in Hx. rewrite Forall_forall in H. now apply H. Qed.

Lemma wfl_firstn k s : wfl s -> wfl (firstn k s).
Proof. intros [H1 H2]. split; [now apply wf_firstn|]. unfold blen in *. rewrite firstn_length. lia. Qed.
Lemma wfl_skipn k s : wfl s -> wfl (skipn k s).
Proof. intros [H1 H2]. split; [now apply wf_skipn|]. unfold blen in *. rewrite skipn_length. lia. Qed.

Lemma bind_inv {A B} (p : parser A) (f : A -> parser B) s b r :
  bind p f s = Ok b r -> exists a s', p s = Ok a s' /\ f a s' = Ok b r.
Proof. unfold bind. destruct (p s) as [a s'| |]; try discriminate. intros H. now exists a, s'. Qed.

Lemma keeps_ret {A} (a : A) : keeps (ret a).
Proof. intros s a' r Hs H. inversion H; now subst. Qed.
Lemma keeps_fail {A} e : keeps (@fail A e).
Proof. intros s a r _ H; discriminate. Qed.
Lemma keeps_bind {A B} (p : parser A) (f : A -> parser B) : keeps p -> (forall a, keeps (f a)) -> keeps (bind p f).
Proof. intros Hp Hf s b r Hs H. apply bind_inv in H as [a [s' [H1 H2]]]. eapply Hf; [|exact H2]. eapply Hp; eassumption. Qed.
Lemma keeps_pmap {A B} (f : A -> B) p : keeps p -> keeps (pmap f p).
Proof. intros H. apply keeps_bind; [assumption|intros; apply keeps_ret]. Qed.
Lemma keeps_if {A} (b : bool) (p q : parser A) : keeps p -> keeps q -> keeps (if b then p else q).
Proof. destruct b; auto. Qed.
Lemma keeps_alloc n : keeps (alloc n).
Proof. intros s a r Hs H. unfold alloc in H. destruct (alloc_ok n (length s)); [|discriminate]. inversion H; now subst. Qed.
Lemma read_n_inv n s a r : read_n n s = Ok a r -> a = firstn n s /\ r = skipn n s /\ (n <= length s)%nat.
Proof. unfold read_n. destruct (Nat.leb n (length s)) eqn:E; [|discriminate]. apply Nat.leb_le in E. intros H. inversion H. auto. Qed.
Lemma keeps_read_n n : keeps (read_n n).
Proof. intros s a r Hs H. apply read_n_inv in H as [_ [-> _]]. now apply wfl_skipn. Qed.
Lemma read_nN_inv n s a r : read_nN n s = Ok a r -> a = firstn (N.to_nat n) s /\ r = skipn (N.to_nat n) s /\ n <= blen s.
Proof.
  unfold read_nN. destruct (n <=? blen s) eqn:E; [|discriminate]. intros H. apply read_n_inv in H as [H1 [H2 _]].
  repeat split; auto. lia.
Qed.
Lemma keeps_read_nN n : keeps (read_nN n).
Proof. intros s a r Hs H. apply read_nN_inv in H as [_ [-> _]]. now apply wfl_skipn. Qed.
Lemma keeps_read_raw n : keeps (read_raw n).
Proof. apply keeps_bind; [apply keeps_alloc|intros; apply keeps_read_n]. Qed.
Lemma keeps_get_uv f : forall i acc, keeps (get_uv f i acc).
Proof.
  induction f as [|f IH]; intros i acc s a r Hs H; [discriminate|].
  destruct s as [|b s]; [discriminate|]. cbn [get_uv] in H.
  assert (Hs' : wfl s) by (destruct Hs as [H1 H2]; inversion H1; subst; split; [assumption|unfold blen in *; cbn [length] in H2; lia]).
  destruct (b <? 128).
  - destruct ((i =? 9) && (1 <? b)); [discriminate|]. inversion H; now subst.
  - eapply IH; eassumption.
Qed.
Lemma keeps_get_int : keeps get_int. Proof. apply keeps_pmap, keeps_get_uv. Qed.
Lemma keeps_strlen : keeps strlen.
Proof. apply keeps_bind; [apply keeps_get_int|]. intros z. apply keeps_if; [apply keeps_fail|apply keeps_ret]. Qed.
Lemma keeps_get_str : keeps get_str.
Proof. apply keeps_bind; [apply keeps_strlen|]. intros n. apply keeps_bind; [apply keeps_alloc|]. intros _. apply keeps_read_nN. Qed.
Lemma keeps_get_u64 : keeps get_u64. Proof. apply keeps_pmap, keeps_read_raw. Qed.
Lemma keeps_get_i64 : keeps get_i64. Proof. apply keeps_pmap, keeps_get_u64. Qed.
Lemma keeps_rep {A} n (p : parser A) : keeps p -> keeps (rep n p).
Proof.
  intros Hp. induction n as [|n IH]; cbn [rep]; [apply keeps_ret|].
  apply keeps_bind; [assumption|]. intros x. apply keeps_bind; [assumption|]. intros xs. apply keeps_ret.
Qed.
Lemma keeps_repN {A} n (p : parser A) : keeps p -> keeps (repN n p).
Proof.
  intros Hp s a r Hs H. unfold repN in H. destruct (n <=? blen s).
  - eapply keeps_rep; eassumption.
  - destruct (rep (length s) p s); discriminate.
Qed.
Lemma keeps_read_rawN n : keeps (read_rawN n).
Proof. apply keeps_bind; [apply keeps_alloc|intros; apply keeps_read_nN]. Qed.
Lemma keeps_dec_fix w n : keeps (dec_fix w n).
Proof. unfold dec_fix. apply keeps_if; [apply keeps_ret|]. apply keeps_bind; [apply keeps_read_rawN|intros; apply keeps_ret]. Qed.
Lemma keeps_check_rows z : keeps (check_rows z).
Proof. unfold check_rows. apply keeps_if; [apply keeps_fail|]. apply keeps_if; [apply keeps_fail|apply keeps_ret]. Qed.
Lemma keeps_dec_bool b n : keeps (dec_bool b n).
Proof.
  destruct b; unfold dec_bool.
  - apply keeps_bind; [apply keeps_read_rawN|]. intros bs. apply keeps_if; [apply keeps_ret|apply keeps_fail].
  - apply keeps_if; [apply keeps_ret|apply keeps_read_rawN].
Qed.
Lemma keeps_dec_seq {T D} (f : T -> parser D) ts : Forall (fun t => keeps (f t)) ts -> keeps (dec_seq f ts).
Proof.
  induction 1 as [|t0 ts' H0 Hts IH]; cbn [dec_seq]; [apply keeps_ret|].
  apply keeps_bind; [exact H0|]. intros d0. apply keeps_bind; [exact IH|]. intros; apply keeps_ret.
Qed.
Lemma keeps_crash {A} c : keeps (fun _ : bytes => @Crash A c).
Proof. intros s a r _ H. discriminate. Qed.

Theorem keeps_dec b t : forall n, keeps (dec b t n).
Proof.
  induction t as [name w| | | | |sz| | |name w defs|t IH|t IH|t IH|k v IHk IHv|ts IH|name t IH] using ty_ind';
    intros n; cbn [dec].
  - apply keeps_pmap, keeps_dec_fix.
  - apply keeps_pmap, keeps_dec_bool.
  - destruct b.
    + apply keeps_bind; [apply keeps_read_rawN|intros; apply keeps_ret].
    + apply keeps_if; [apply keeps_ret|]. apply keeps_bind; [apply keeps_read_rawN|intros; apply keeps_ret].
  - apply keeps_pmap, keeps_repN, keeps_get_str.
  - apply keeps_pmap, keeps_repN, keeps_get_str.
  - destruct sz; [apply keeps_if; [apply keeps_fail|apply keeps_ret]|apply keeps_pmap, keeps_read_rawN].
  - apply keeps_if; [apply keeps_ret|]. apply keeps_bind; [apply keeps_read_rawN|intros; apply keeps_ret].
  - apply keeps_bind; [apply keeps_dec_fix|]. intros xs. apply keeps_bind; [apply keeps_dec_fix|intros; apply keeps_ret].
  - apply keeps_bind; [apply keeps_dec_fix|]. intros raw.
    destruct (mapM _ raw); [apply keeps_ret|apply keeps_fail].
  - apply keeps_bind; [apply keeps_dec_fix|]. intros offs.
    apply keeps_if; [apply keeps_fail|].
    apply keeps_bind; [apply keeps_check_rows|]. intros size.
    apply keeps_bind; [apply IH|intros; apply keeps_ret].
  - apply keeps_bind; [apply keeps_dec_fix|]. intros nulls.
    apply keeps_bind; [apply IH|intros; apply keeps_ret].
  - apply keeps_if; [apply keeps_ret|].
    apply keeps_bind; [apply keeps_get_i64|]. intros meta. cbv zeta.
    apply keeps_if; [apply keeps_fail|]. apply keeps_if; [apply keeps_fail|].
    apply keeps_bind; [apply keeps_get_i64|]. intros irows.
    apply keeps_bind; [apply keeps_check_rows|]. intros isz.
    apply keeps_bind; [apply IH|]. intros idx.
    apply keeps_bind; [apply keeps_get_i64|]. intros krows.
    apply keeps_bind; [apply keeps_check_rows|]. intros _.
    apply keeps_bind; [apply keeps_dec_fix|]. intros keys.
    apply keeps_if; [apply keeps_fail|].
    destruct (mapM _ keys); [apply keeps_ret|apply keeps_crash].
  - apply keeps_if; [apply keeps_ret|].
    apply keeps_bind; [apply keeps_dec_fix|]. intros offs.
    apply keeps_if; [apply keeps_fail|].
    apply keeps_bind; [apply keeps_check_rows|]. intros cnt.
    apply keeps_bind; [apply IHk|]. intros dk.
    apply keeps_bind; [apply IHv|intros; apply keeps_ret].
  - apply keeps_pmap, keeps_dec_seq. eapply Forall_impl; [|exact IH]. intros t0 H0. apply H0.
  - apply IH.
Qed.

(* ---------- inversion of the primitive decoders ---------------------------------------------------- *)
Lemma read_rawN_inv n s a r : wfl s -> read_rawN n s = Ok a r -> blen a = n /\ wfl a /\ wfl r.
Proof.
  intros Hs H. apply bind_inv in H as [u [s' [H1 H2]]]. unfold alloc in H1.
  destruct (alloc_ok n (length s)); [|discriminate]. inversion H1; subst s'.
  apply read_nN_inv in H2 as [-> [-> Hle]].
  split; [unfold blen in *; rewrite firstn_length; lia|]. split; [now apply wfl_firstn|now apply wfl_skipn].
Qed.

Lemma chunks_length w k : forall b, length (chunks w k b) = k.
Proof. induction k as [|k IH]; intros b; cbn [chunks length]; [reflexivity|now rewrite IH]. Qed.
Lemma chunks_wf w k : forall b, wf_bytes b -> Forall (fun c => wf_bytes c /\ (length c <= w)%nat) (chunks w k b).
Proof.
  induction k as [|k IH]; intros b Hb; cbn [chunks]; constructor.
  - split; [now apply wf_firstn|rewrite firstn_length; lia].
  - apply IH. now apply wf_skipn.
Qed.
Lemma chunks_exact w k : forall b, length b = (k * w)%nat -> Forall (fun c => length c = w) (chunks w k b).
Proof.
  induction k as [|k IH]; intros b Hb; cbn [chunks]; constructor.
  - rewrite firstn_length. lia.
  - apply IH. rewrite skipn_length. lia.
Qed.

Lemma dec_fix_inv w n s vs r : wfl s -> dec_fix w n s = Ok vs r ->
  blen vs = n /\ Forall (fun v => v < 256 ^ N.of_nat w) vs.
Proof.
  intros Hs H. unfold dec_fix in H. destruct (n =? 0) eqn:E.
  - inversion H; subst. split; [unfold blen; cbn [length]; lia|constructor].
  - apply bind_inv in H as [bs [s' [H1 H2]]]. inversion H2; subst.
    apply read_rawN_inv in H1 as [Hl [[Hw _] _]]; [|assumption].
    split; [unfold blen; rewrite map_length, chunks_length; lia|].
    apply Forall_forall. intros x Hx. apply in_map_iff in Hx as [c [<- Hc]].
    pose proof (chunks_wf w (N.to_nat n) bs Hw) as HF. rewrite Forall_forall in HF. destruct (HF c Hc) as [Hcw Hcl].
    pose proof (le_get_bound c Hcw) as Hb.
    assert (Hp : 256 ^ N.of_nat (length c) <= 256 ^ N.of_nat w) by (apply N.pow_le_mono_r; lia). lia.
Qed.

Lemma get_str_inv s x r : wfl s -> get_str s = Ok x r -> wf_bytes x /\ blen x < 2 ^ 63.
Proof.
  intros Hs H. unfold get_str in H. apply bind_inv in H as [n [s1 [H1 H2]]]. apply bind_inv in H2 as [u [s2 [H2 H3]]].
  assert (Hs1 : wfl s1) by (eapply keeps_strlen; eassumption).
  assert (Hs2 : wfl s2) by (eapply keeps_alloc; eassumption).
  apply read_nN_inv in H3 as [-> _]. exact (wfl_firstn (N.to_nat n) s2 Hs2).
Qed.

Lemma rep_str_inv k : forall s vs r, wfl s -> rep k get_str s = Ok vs r ->
  length vs = k /\ Forall (fun x => wf_bytes x /\ blen x < 2 ^ 63) vs.
Proof.
  induction k as [|k IH]; intros s vs r Hs H; cbn [rep] in H.
  - inversion H; subst. split; [reflexivity|constructor].
  - apply bind_inv in H as [x [s1 [H1 H2]]]. apply bind_inv in H2 as [xs [s2 [H2 H3]]]. inversion H3; subst.
    assert (Hs1 : wfl s1) by (eapply keeps_get_str; eassumption).
    destruct (IH s1 xs r Hs1 H2) as [Hl HF]. split; [cbn [length]; lia|]. constructor; [|exact HF].
    exact (get_str_inv s x s1 Hs H1).
Qed.

Lemma repN_inv {A} n (p : parser A) s vs r : repN n p s = Ok vs r -> rep (N.to_nat n) p s = Ok vs r.
Proof. unfold repN. destruct (n <=? blen s); [auto|]. destruct (rep (length s) p s); discriminate. Qed.

Lemma check_rows_inv z s m r : check_rows z s = Ok m r -> (0 <= z)%Z /\ m = Z.to_N z /\ r = s.
Proof.
  unfold check_rows. destruct (z <? 0)%Z eqn:E1; [discriminate|]. destruct (maxRowsInBLock <? z)%Z; [discriminate|].
  intros H. inversion H; subst. repeat split. lia.
Qed.

Lemma last_or0_bound l B : 0 < B -> Forall (fun v => v < B) l -> last_or0 l < B.
Proof.
  intros HB H. unfold last_or0. destruct l as [|x l]; [exact HB|].
  rewrite Forall_forall in H. apply H. destruct (exists_last (l := x :: l)) as [l' [y E]]; [discriminate|].
  rewrite E, last_last. apply in_or_app. right. now left.
Qed.

Lemma to_i64_nonneg x : x < 2 ^ 64 -> (0 <= to_i64 x)%Z -> Z.to_N (to_i64 x) = x.
Proof.
  unfold to_i64, to_signed. change (2 ^ (64 - 1)) with 9223372036854775808. change (2 ^ Z.of_N 64)%Z with 18446744073709551616%Z.
  change (2 ^ 64) with 18446744073709551616. destruct (x <? 9223372036854775808) eqn:E; lia.
Qed.

(* ---------- every row of an accepted column is readable ----------------------------------------- *)
Definition readable (t : ty) (d : cdata) : Prop := forall i, (i < nrows t d)%nat -> row t d i <> None.

Lemma mapM_some {X Y} (f : X -> option Y) l : (forall x, In x l -> f x <> None) -> mapM f l <> None.
Proof.
  induction l as [|x l IH]; intros H; cbn [mapM]; [discriminate|].
  destruct (f x) eqn:E; [|exfalso; apply (H x); [now left|exact E]].
  destruct (mapM f l) eqn:E2; [discriminate|]. exfalso. apply IH; [|reflexivity]. intros z Hz. apply H. now right.
Qed.

Lemma readable_abs t d : readable t d -> exists l, abs t d = Some l.
Proof.
  intros H. unfold abs. destruct (mapM (row t d) (seq 0 (nrows t d))) as [l|] eqn:E; [now exists l|].
  exfalso. revert E. apply mapM_some. intros i Hi. apply in_seq in Hi. apply H. lia.
Qed.

Lemma nth_error_lt {A} (l : list A) i : (i < length l)%nat -> nth_error l i <> None.
Proof. intros H E. apply nth_error_None in E. lia. Qed.

Lemma row_has_ty t d i v : lc_elem t = true -> good t d -> row t d i = Some v -> has_ty t v = true.
Proof.
  destruct t; cbn [lc_elem]; try discriminate; intros _ Hg H; destruct d; cbn [good] in Hg; try contradiction; cbn [row] in H.
  - destruct (nth_error vs i) as [x|] eqn:E; [|discriminate]. injection H as <-. cbn [has_ty].
    rewrite Forall_forall in Hg. apply nth_error_In in E. apply N.ltb_lt. now apply Hg.
  - destruct (nth_error vs i) as [x|]; [|discriminate]. injection H as <-. reflexivity.
  - destruct (nth_error vs i) as [x|] eqn:E; [|discriminate]. injection H as <-. cbn [has_ty].
    rewrite Forall_forall in Hg. apply nth_error_In in E. destruct (Hg x E) as [H1 H2].
    apply andb_true_iff. split; [now apply Nat.eqb_eq|now apply wf_bytesb_spec].
  - destruct (nth_error vs i) as [x|] eqn:E; [|discriminate]. injection H as <-. cbn [has_ty].
    rewrite Forall_forall in Hg. apply nth_error_In in E. destruct (Hg x E) as [H1 H2].
    apply andb_true_iff. split; [now apply wf_bytesb_spec|now apply N.ltb_lt].
  - destruct (nth_error vs i) as [x|] eqn:E; [|discriminate]. injection H as <-. cbn [has_ty].
    rewrite Forall_forall in Hg. apply nth_error_In in E. destruct (Hg x E) as [H1 H2].
    apply andb_true_iff. split; [now apply wf_bytesb_spec|now apply N.ltb_lt].
  - destruct (N.of_nat i <? n); [|discriminate]. injection H as <-. reflexivity.
  - destruct Hg as [_ [Hx Hy]]. destruct (nth_error xs i) as [x|] eqn:Ex; [|discriminate].
    destruct (nth_error ys i) as [y|] eqn:Ey; [|discriminate]. injection H as <-. cbn [has_ty].
    rewrite Forall_forall in Hx, Hy. apply nth_error_In in Ex, Ey.
    apply andb_true_iff. split; apply N.ltb_lt; auto.
Qed.

(* the default build keeps Bool bytes other than 0/1 (C15 bool_divergence): such columns are outside [good] *)
Fixpoint no_bool (t : ty) : bool :=
  match t with
  | TBool => false
  | TArr t' | TNullable t' | TLowCard t' | TNamed _ t' => no_bool t'
  | TMap k v => no_bool k && no_bool v
  | TTuple ts => forallb no_bool ts
  | _ => true
  end.
Definition okb (b : build) (t : ty) : bool := match b with Safe => true | Unsafe => no_bool t end.

Definition dec_ok (t : ty) : Prop := forall b n s d r, okb b t = true -> wfl s -> dec b t n s = Ok d r ->
  good t d /\ rows t d = n /\ readable t d.

Lemma dec_ok_fix name w : dec_ok (TFix name w).
Proof.
  intros b n s d r _ Hs H. cbn [dec] in H. apply bind_inv in H as [vs [s' [H1 H2]]]. inversion H2; subst.
  destruct (dec_fix_inv _ _ _ _ _ Hs H1) as [Hl HF]. cbn [good rows]. split; [exact HF|]. split; [exact Hl|].
  intros i Hi. unfold nrows in Hi. cbn [rows row] in *. unfold blen in Hi.
  destruct (nth_error vs i) eqn:E; [discriminate|]. apply nth_error_None in E. lia.
Qed.

Lemma dec_ok_bool : dec_ok TBool.
Proof.
  intros b n s d r Hb Hs H. destruct b; [|discriminate]. cbn [dec] in H. apply bind_inv in H as [vs [s' [H1 H2]]].
  inversion H2; subst. unfold dec_bool in H1. apply bind_inv in H1 as [bs [s1 [H1 H3]]].
  destruct (forallb _ bs) eqn:E; [|discriminate]. inversion H3; subst.
  apply read_rawN_inv in H1 as [Hl _]; [|assumption]. cbn [good rows]. split; [|split; [exact Hl|]].
  - apply Forall_forall. intros x Hx. rewrite forallb_forall in E. specialize (E x Hx).
    change (Z.to_N boolTrue) with 1 in E. change (Z.to_N boolFalse) with 0 in E. lia.
  - intros i Hi. unfold nrows in Hi. cbn [rows row] in *. unfold blen in Hi.
    destruct (nth_error vs i) eqn:E2; [discriminate|]. apply nth_error_None in E2. lia.
Qed.

Lemma uuid_cols n bs : blen bs = n * 16 -> wf_bytes bs ->
  let vs := map swap16 (chunks 16 (N.to_nat n) bs) in
  Forall (fun x => length x = 16%nat /\ wf_bytes x) vs /\ N.of_nat (length vs) = n.
Proof.
  intros Hl Hw vs. split.
  - apply Forall_forall. intros x Hx. apply in_map_iff in Hx as [c [<- Hc]].
    pose proof (chunks_exact 16 (N.to_nat n) bs) as He. rewrite Forall_forall in He.
    assert (Hc16 : length c = 16%nat) by (apply He; [unfold blen in Hl; lia|exact Hc]).
    pose proof (chunks_wf 16 (N.to_nat n) bs Hw) as Hf. rewrite Forall_forall in Hf. destruct (Hf c Hc) as [Hcw _].
    split; [now apply swap16_length|]. unfold swap16. apply wf_app; apply wf_rev; [now apply wf_firstn|now apply wf_skipn].
  - unfold vs. rewrite map_length, chunks_length. lia.
Qed.

Lemma dec_ok_uuid : dec_ok TUUID.
Proof.
  intros b n s d r _ Hs H. cbn [dec] in H.
  assert (G : forall vs, Forall (fun x => length x = 16%nat /\ wf_bytes x) vs -> N.of_nat (length vs) = n ->
              good TUUID (DBytes vs) /\ rows TUUID (DBytes vs) = n /\ readable TUUID (DBytes vs)).
  { intros vs HF Hl. cbn [good rows]. split; [exact HF|]. split; [exact Hl|].
    intros i Hi. unfold nrows in Hi. cbn [rows row] in *.
    destruct (nth_error vs i) eqn:E; [discriminate|]. apply nth_error_None in E. lia. }
  destruct b.
  - apply bind_inv in H as [bs [s' [H1 H2]]]. inversion H2; subst.
    apply read_rawN_inv in H1 as [Hl [[Hw _] _]]; [|assumption]. destruct (uuid_cols n bs Hl Hw) as [A B]. now apply G.
  - destruct (n =? 0) eqn:E.
    + inversion H; subst. apply G; [constructor|cbn [length]; lia].
    + apply bind_inv in H as [bs [s' [H1 H2]]]. inversion H2; subst.
      apply read_rawN_inv in H1 as [Hl [[Hw _] _]]; [|assumption]. destruct (uuid_cols n bs Hl Hw) as [A B]. now apply G.
Qed.

Lemma dec_ok_strlike t : (t = TStr \/ t = TJSON) -> dec_ok t.
Proof.
  intros Ht b n s d r _ Hs H.
  assert (H' : pmap DBytes (repN n get_str) s = Ok d r) by (destruct Ht; subst; exact H).
  apply bind_inv in H' as [vs [s' [H1 H2]]]. inversion H2; subst. apply repN_inv in H1.
  destruct (rep_str_inv _ _ _ _ Hs H1) as [Hl HF].
  assert (G : good t (DBytes vs) /\ rows t (DBytes vs) = n /\ (forall i, (i < N.to_nat n)%nat -> row t (DBytes vs) i <> None)).
  { destruct Ht; subst; cbn [good rows row]; (split; [exact HF|]); (split; [lia|]); intros i Hi;
      (destruct (nth_error vs i) eqn:E; [discriminate|]); apply nth_error_None in E; lia. }
  destruct G as [G1 [G2 G3]]. split; [exact G1|]. split; [exact G2|]. intros i Hi. unfold nrows in Hi. rewrite G2 in Hi. now apply G3.
Qed.

Lemma dec_ok_fstr sz : (0 < sz)%nat -> dec_ok (TFixedStr sz).
Proof.
  intros Hsz b n s d r _ Hs H. cbn [dec] in H. destruct sz as [|sz']; [lia|].
  apply bind_inv in H as [buf [s' [H1 H2]]]. inversion H2; subst.
  apply read_rawN_inv in H1 as [Hl [[Hw _] _]]; [|assumption].
  assert (Hlen : length buf = (N.to_nat n * S sz')%nat) by (unfold blen in Hl; lia).
  assert (Hr : rows (TFixedStr (S sz')) (DFixedStr buf) = n).
  { cbn [rows]. rewrite Hl. apply N.div_mul. lia. }
  split; [cbn [good]; split; [now exists (N.to_nat n)|exact Hw]|]. split; [exact Hr|].
  intros i Hi. unfold nrows in Hi. rewrite Hr in Hi. cbn [row].
  replace (Nat.leb ((i + 1) * S sz') (length buf)) with true by (symmetry; apply Nat.leb_le; nia). discriminate.
Qed.

Lemma dec_ok_nothing : dec_ok TNothing.
Proof.
  intros b n s d r _ Hs H. cbn [dec] in H.
  assert (G : good TNothing (DNothing n) /\ rows TNothing (DNothing n) = n /\ readable TNothing (DNothing n)).
  { cbn [good rows]. split; [exact I|]. split; [reflexivity|]. intros i Hi. unfold nrows in Hi. cbn [rows row] in *.
    replace (N.of_nat i <? n) with true by lia. discriminate. }
  destruct (n =? 0) eqn:E.
  - inversion H; subst. apply N.eqb_eq in E. subst n. exact G.
  - apply bind_inv in H as [u [s' [H1 H2]]]. inversion H2; subst. exact G.
Qed.

Lemma dec_ok_point : dec_ok TPoint.
Proof.
  intros b n s d r _ Hs H. cbn [dec] in H. apply bind_inv in H as [xs [s1 [H1 H2]]]. apply bind_inv in H2 as [ys [s2 [H2 H3]]].
  inversion H3; subst. assert (Hs1 : wfl s1) by (eapply keeps_dec_fix; eassumption).
  destruct (dec_fix_inv _ _ _ _ _ Hs H1) as [Lx Fx]. destruct (dec_fix_inv _ _ _ _ _ Hs1 H2) as [Ly Fy].
  change (256 ^ N.of_nat 8) with (2 ^ 64) in Fx, Fy. cbn [good rows]. unfold blen in *.
  split; [split; [lia|split; assumption]|]. split; [exact Lx|].
  intros i Hi. unfold nrows in Hi. cbn [rows row] in *. unfold blen in Hi.
  destruct (nth_error xs i) eqn:Ex; [|apply nth_error_None in Ex; lia].
  destruct (nth_error ys i) eqn:Ey; [discriminate|apply nth_error_None in Ey; lia].
Qed.

Lemma dec_ok_enum name w defs : dec_ok (TEnum name w defs).
Proof.
  intros b n s d r _ Hs H. cbn [dec] in H. apply bind_inv in H as [raw [s1 [H1 H2]]].
  destruct (mapM _ raw) as [vals|] eqn:E; [|discriminate]. inversion H2; subst.
  destruct (dec_fix_inv _ _ _ _ _ Hs H1) as [Lr _]. apply mapM_length in E. cbn [good rows]. unfold blen in *.
  split; [exact I|]. split; [lia|]. intros i Hi. unfold nrows in Hi. cbn [rows row] in *.
  destruct (nth_error vals i) eqn:Ev; [discriminate|apply nth_error_None in Ev; lia].
Qed.

Lemma offsets_size offs m (s r : bytes) : Forall (fun v => v < 256 ^ N.of_nat 8) offs ->
  check_rows (to_i64 (last_or0 offs)) s = Ok m r -> m = last_or0 offs /\ r = s.
Proof.
  intros HF H. apply check_rows_inv in H as [Hz [-> ->]]. split; [|reflexivity].
  apply to_i64_nonneg; [|exact Hz]. change (2 ^ 64) with (256 ^ N.of_nat 8). apply last_or0_bound; [reflexivity|exact HF].
Qed.

Lemma slices_readable t' d' offs i e : monotoneb 0 offs = true -> rows t' d' = last_or0 offs -> readable t' d' ->
  nth_error offs i = Some e ->
  mapM (row t' d') (seq (N.to_nat (slice_start offs i)) (N.to_nat e - N.to_nat (slice_start offs i))) <> None.
Proof.
  intros Hm Hr Hd Hi. apply mapM_some. intros x Hx. apply in_seq in Hx. apply Hd. unfold nrows. rewrite Hr.
  pose proof (monotone_nth_le offs i e Hm Hi). pose proof (slice_start_le offs i e Hm Hi). lia.
Qed.

Lemma dec_ok_arr t' : dec_ok t' -> dec_ok (TArr t').
Proof.
  intros IH b n s d r Hb Hs H. cbn [dec] in H. apply bind_inv in H as [offs [s1 [H1 H2]]].
  destruct (monotoneb 0 offs) eqn:Hm; [|discriminate]. cbn [negb] in H2.
  apply bind_inv in H2 as [size [s2 [H2 H3]]]. apply bind_inv in H3 as [d' [s3 [H3 H4]]]. inversion H4; subst.
  assert (Hs1 : wfl s1) by (eapply keeps_dec_fix; eassumption).
  destruct (dec_fix_inv _ _ _ _ _ Hs H1) as [Lo Fo]. destruct (offsets_size offs size s1 s2 Fo H2) as [-> ->].
  assert (Hb' : okb b t' = true) by (destruct b; [reflexivity|exact Hb]).
  destruct (IH b _ _ _ _ Hb' Hs1 H3) as [G [R Rd]]. cbn [good rows].
  split; [split; [exact Hm|split; [exact R|exact G]]|]. split; [exact Lo|].
  intros i Hi. unfold nrows in Hi. cbn [rows row] in *. unfold blen in Hi.
  destruct (nth_error offs i) as [e|] eqn:Ei; [|apply nth_error_None in Ei; lia].
  pose proof (slices_readable t' d' offs i e Hm R Rd Ei) as Hsl. unfold slice_start in Hsl.
  destruct (mapM _ _); [discriminate|contradiction].
Qed.

Lemma dec_ok_nullable t' : dec_ok t' -> dec_ok (TNullable t').
Proof.
  intros IH b n s d r Hb Hs H. cbn [dec] in H. apply bind_inv in H as [nulls [s1 [H1 H2]]].
  apply bind_inv in H2 as [d' [s2 [H2 H3]]]. inversion H3; subst.
  assert (Hs1 : wfl s1) by (eapply keeps_dec_fix; eassumption).
  destruct (dec_fix_inv _ _ _ _ _ Hs H1) as [Ln Fn]. change (256 ^ N.of_nat 1) with 256 in Fn.
  assert (Hb' : okb b t' = true) by (destruct b; [reflexivity|exact Hb]).
  destruct (IH b _ _ _ _ Hb' Hs1 H2) as [G [R Rd]]. cbn [good rows].
  split; [split; [congruence|split; [exact Fn|exact G]]|]. split; [exact Ln|].
  intros i Hi. unfold nrows in Hi. cbn [rows row] in *. unfold blen in Hi.
  destruct (nth_error nulls i) eqn:En; [|apply nth_error_None in En; lia].
  destruct (row t' d' i) eqn:Er; [discriminate|]. exfalso. apply (Rd i); [unfold nrows; unfold blen in *; lia|exact Er].
Qed.

Lemma mapM_rows_has_ty t' idx keys vals : lc_elem t' = true -> good t' idx ->
  mapM (fun k => row t' idx (N.to_nat k)) keys = Some vals -> forallb (has_ty t') vals = true.
Proof.
  intros Hlc Hg. revert vals. induction keys as [|k keys IH]; intros vals H; cbn [mapM] in H.
  - injection H as <-. reflexivity.
  - destruct (row t' idx (N.to_nat k)) as [v|] eqn:E; [|discriminate].
    destruct (mapM _ keys) as [r|]; [|discriminate]. injection H as <-. cbn [forallb].
    rewrite (row_has_ty t' idx _ v Hlc Hg E). now apply IH.
Qed.

Lemma dec_ok_lc t' : lc_elem t' = true -> dec_ok t' -> dec_ok (TLowCard t').
Proof.
  intros Hlc IH b n s d r Hb Hs H. cbn [dec] in H. destruct (n =? 0) eqn:En.
  - inversion H; subst. apply N.eqb_eq in En. subst n. cbn [empty good rows]. split; [reflexivity|]. split; [reflexivity|].
    intros i Hi. unfold nrows in Hi. cbn [rows length] in Hi. lia.
  - apply bind_inv in H as [meta [s1 [H1 H2]]]. cbv zeta in H2.
    destruct (negb (N.testbit (wrap64 meta) 9)); [discriminate|]. destruct (3 <? wrap64 meta mod 256); [discriminate|].
    apply bind_inv in H2 as [irows [s2 [H2 H3]]]. apply bind_inv in H3 as [isz [s3 [H3 H4]]].
    apply bind_inv in H4 as [idx [s4 [H4 H5]]]. apply bind_inv in H5 as [krows [s5 [H5 H6]]].
    apply bind_inv in H6 as [u [s6 [H6 H7]]]. apply bind_inv in H7 as [keys [s7 [H7 H8]]].
    destruct (negb (forallb _ keys)); [discriminate|].
    destruct (mapM (fun k => row t' idx (N.to_nat k)) keys) as [vals|] eqn:Ev; [|discriminate]. inversion H8; subst.
    assert (Hs1 : wfl s1) by (eapply keeps_get_i64; eassumption).
    assert (Hs2 : wfl s2) by (eapply keeps_get_i64; eassumption).
    assert (Hs3 : wfl s3) by (eapply keeps_check_rows; eassumption).
    assert (Hs4 : wfl s4) by (eapply keeps_dec; eassumption).
    assert (Hs5 : wfl s5) by (eapply keeps_get_i64; eassumption).
    assert (Hs6 : wfl s6) by (eapply keeps_check_rows; eassumption).
    assert (Hb' : okb b t' = true) by (destruct b; [reflexivity|exact Hb]).
    destruct (IH b _ _ _ _ Hb' Hs3 H4) as [G _].
    destruct (dec_fix_inv _ _ _ _ _ Hs6 H7) as [Lk _]. pose proof (mapM_length _ _ _ Ev) as Lv. unfold blen in Lk.
    cbn [good rows]. split; [now apply (mapM_rows_has_ty t' idx keys)|]. split; [lia|].
    intros i Hi. unfold nrows in Hi. cbn [rows row] in *.
    destruct (nth_error vals i) eqn:E; [discriminate|apply nth_error_None in E; lia].
Qed.

Lemma dec_ok_map tk tv : dec_ok tk -> dec_ok tv -> dec_ok (TMap tk tv).
Proof.
  intros IHk IHv b n s d r Hb Hs H. cbn [dec] in H. destruct (n =? 0) eqn:En.
  - inversion H; subst. apply N.eqb_eq in En. subst n. destruct (empty_ok (TMap tk tv)) as [G R].
    split; [exact G|]. split; [exact R|]. intros i Hi. unfold nrows in Hi. cbn [rows empty] in Hi. unfold blen in Hi. cbn [length] in Hi. lia.
  - apply bind_inv in H as [offs [s1 [H1 H2]]].
    destruct (monotoneb 0 offs) eqn:Hm; [|discriminate]. cbn [negb] in H2.
    apply bind_inv in H2 as [cnt [s2 [H2 H3]]]. apply bind_inv in H3 as [dk [s3 [H3 H4]]].
    apply bind_inv in H4 as [dv [s4 [H4 H5]]]. inversion H5; subst.
    assert (Hs1 : wfl s1) by (eapply keeps_dec_fix; eassumption).
    destruct (dec_fix_inv _ _ _ _ _ Hs H1) as [Lo Fo]. destruct (offsets_size offs cnt s1 s2 Fo H2) as [-> ->].
    assert (Hs3 : wfl s3) by (eapply keeps_dec; eassumption).
    assert (Hbk : okb b tk = true) by (destruct b; [reflexivity|cbn [okb no_bool] in Hb; now apply andb_true_iff in Hb as [? _]]).
    assert (Hbv : okb b tv = true) by (destruct b; [reflexivity|cbn [okb no_bool] in Hb; now apply andb_true_iff in Hb as [_ ?]]).
    destruct (IHk b _ _ _ _ Hbk Hs1 H3) as [Gk [Rk Rdk]]. destruct (IHv b _ _ _ _ Hbv Hs3 H4) as [Gv [Rv Rdv]].
    cbn [good rows]. split; [repeat split; assumption|]. split; [exact Lo|].
    intros i Hi. unfold nrows in Hi. cbn [rows row] in *. unfold blen in Hi.
    destruct (nth_error offs i) as [e|] eqn:Ei; [|apply nth_error_None in Ei; lia].
    match goal with |- option_map _ ?m <> None => assert (Hm' : m <> None); [|destruct m; [discriminate|contradiction]] end.
    apply mapM_some. intros x Hx. apply in_seq in Hx.
    pose proof (monotone_nth_le offs i e Hm Ei) as Hle. pose proof (slice_start_le offs i e Hm Ei) as Hsl. unfold slice_start in Hsl.
    destruct (row tk dk x) eqn:Ek; [|exfalso; apply (Rdk x); [unfold nrows; lia|exact Ek]].
    destruct (row tv dv x) eqn:Evv; [discriminate|exfalso; apply (Rdv x); [unfold nrows; lia|exact Evv]].
Qed.

Lemma dec_seq_ok b n ts : Forall (fun t0 => okb b t0 = true /\ dec_ok t0) ts -> forall s ds r, wfl s ->
  dec_seq (fun t0 => dec b t0 n) ts s = Ok ds r ->
  all2 (fun t0 d0 => good t0 d0 /\ rows t0 d0 = n) ts ds /\
  (forall i, (i < N.to_nat n)%nat -> map2o (fun t0 d0 => row t0 d0 i) ts ds <> None).
Proof.
  induction 1 as [|t0 ts [Hb0 H0] Hts IH]; intros s ds r Hs H; cbn [dec_seq] in H.
  - inversion H; subst. split; [exact I|]. intros i _. discriminate.
  - apply bind_inv in H as [d0 [s1 [H1 H2]]]. apply bind_inv in H2 as [ds' [s2 [H2 H3]]]. inversion H3; subst.
    assert (Hs1 : wfl s1) by (eapply keeps_dec; eassumption).
    destruct (H0 b _ _ _ _ Hb0 Hs H1) as [G [R Rd]]. destruct (IH _ _ _ Hs1 H2) as [A B].
    split; [cbn [all2]; split; [split; assumption|exact A]|].
    intros i Hi. cbn [map2o]. destruct (row t0 d0 i) eqn:E; [|exfalso; apply (Rd i); [unfold nrows; lia|exact E]].
    specialize (B i Hi). destruct (map2o _ ts ds'); [discriminate|contradiction].
Qed.

Lemma dec_ok_tuple ts : ts <> [] -> Forall dec_ok ts -> dec_ok (TTuple ts).
Proof.
  intros Hne IH b n s d r Hb Hs H. cbn [dec] in H. apply bind_inv in H as [ds [s1 [H1 H2]]]. inversion H2; subst.
  assert (HF : Forall (fun t0 => okb b t0 = true /\ dec_ok t0) ts).
  { apply Forall_forall. intros t0 Ht0. rewrite Forall_forall in IH. split; [|now apply IH].
    destruct b; [reflexivity|]. cbn [okb no_bool] in Hb. rewrite forallb_forall in Hb. now apply Hb. }
  destruct (dec_seq_ok b n ts HF s ds r Hs H1) as [A B].
  assert (Hr : rows (TTuple ts) (DTuple ds) = n).
  { destruct ts as [|t0 ts]; [contradiction|]. destruct ds as [|d0 ds]; [contradiction|]. destruct A as [[_ R] _]. exact R. }
  split; [cbn [good]; rewrite Hr; exact A|]. split; [exact Hr|].
  intros i Hi. unfold nrows in Hi. rewrite Hr in Hi. cbn [row]. specialize (B i Hi).
  destruct (map2o _ ts ds); [discriminate|contradiction].
Qed.

Lemma dec_ok_named name t' : dec_ok t' -> dec_ok (TNamed name t').
Proof. intros IH b n s d r Hb Hs H. apply (IH b n s d r); [destruct b; [reflexivity|exact Hb]|exact Hs|exact H]. Qed.

Theorem dec_good : forall t, c16_ty t = true -> dec_ok t.
Proof.
  unfold c16_ty.
  induction t as [name w| | | | |sz| | |name w defs|t IH|t IH|t IH|k v IHk IHv|ts IH|name t IH] using ty_ind';
    intros Hc; apply andb_true_iff in Hc as [Hw Ht]; cbn [wf_ty tuples_ok] in Hw, Ht.
  - apply dec_ok_fix.
  - apply dec_ok_bool.
  - apply dec_ok_uuid.
  - apply dec_ok_strlike. now left.
  - apply dec_ok_strlike. now right.
  - apply dec_ok_fstr. apply andb_true_iff in Hw as [Hw _]. now apply Nat.ltb_lt.
  - apply dec_ok_nothing.
  - apply dec_ok_point.
  - apply dec_ok_enum.
  - apply dec_ok_arr, IH. now rewrite Hw, Ht.
  - apply dec_ok_nullable, IH. now rewrite Hw, Ht.
  - apply andb_true_iff in Hw as [Hw Hlc]. apply dec_ok_lc; [exact Hlc|]. apply IH. now rewrite Hw, Ht.
  - apply andb_true_iff in Hw as [Hwk Hwv]. apply andb_true_iff in Ht as [Htk Htv].
    apply dec_ok_map; [apply IHk; now rewrite Hwk, Htk|apply IHv; now rewrite Hwv, Htv].
  - destruct ts as [|t0 ts]; [discriminate|]. apply dec_ok_tuple; [discriminate|].
    rewrite forallb_forall in Hw, Ht. rewrite Forall_forall in IH. apply Forall_forall. intros x Hx.
    apply IH; [exact Hx|]. now rewrite (Hw x Hx), (Ht x Hx).
  - apply dec_ok_named, IH. now rewrite Hw, Ht.
Qed.

(* the side condition of decode steps is a theorem: for in-memory input (bytes, fewer than 2^63 of them), under the
   pure-Go build for every type tree and under the default build for every type tree without Bool *)
Theorem dec_valid_proved b t n bs : c16_ty t = true -> okb b t = true -> wf_bytes bs -> blen bs < 2 ^ 63 ->
  dec_valid b t n bs.
Proof.
  intros Hc Hb Hw Hl d rest H. unfold dec_col in H. destruct (n =? 0) eqn:En.
  - inversion H; subst. split; [apply empty_ok|]. exists []. apply abs_empty.
  - apply bind_inv in H as [u [s1 [H1 H2]]].
    assert (Hs1 : wfl s1).
    { assert (K : keeps (dec_state t)).
      { clear. induction t as [name w| | | | |sz| | |name w defs|t IH|t IH|t IH|k v IHk IHv|ts IH|name t IH] using ty_ind';
          cbn [dec_state]; try apply keeps_ret; try exact IH.
        - apply keeps_bind; [apply keeps_get_u64|]. intros v. apply keeps_if; [apply keeps_ret|apply keeps_fail].
        - apply keeps_bind; [apply keeps_get_i64|]. intros v. apply keeps_if; [exact IH|apply keeps_fail].
        - apply keeps_bind; [exact IHk|intros; exact IHv].
        - induction IH as [|t0 ts' H0 Hts IHts]; cbn [unit_seq]; [apply keeps_ret|]. apply keeps_bind; [exact H0|intros; exact IHts]. }
      eapply K; [split; eassumption|exact H1]. }
    destruct (dec_good t Hc b n s1 d rest Hb Hs1 H2) as [G [_ Rd]]. split; [exact G|now apply readable_abs].
Qed.

(* ---------- the history theorem with the decode side condition discharged ---------------------------- *)
Definition op_valid_mem (b : build) (s : ty * cdata) (o : cop) : Prop :=
  match o with
  | OAppend v => has_ty (fst s) v = true
  | OAppendArr vs => forallb (has_ty (fst s)) vs = true
  | OInfer t' => same_shape (fst s) t' = true -> c16_ty t' = true /\ okb b t' = true
  | ODecode n bs _ => wf_bytes bs /\ blen bs < 2 ^ 63      (* any in-memory input at all, well-formed or not *)
  | _ => True
  end.

Fixpoint refines_mem (b : build) (s : ty * cdata) (l : option (list val)) (ops : list cop) : Prop :=
  match ops with
  | [] => True
  | o :: ops' =>
    op_valid_mem b s o ->
    let r := cstep b s o in
    let l' := lstep b (fst s) l o (snd r) in
    claim b s l o (fst r) (snd r) l' /\ refines_mem b (fst r) l' ops'
  end.

Lemma cstep_ty b t d o : fst (fst (cstep b (t, d) o)) = t \/
  exists t', o = OInfer t' /\ same_shape t t' = true /\ fst (fst (cstep b (t, d) o)) = t'.
Proof.
  destruct o; cbn [cstep fst snd];
    try (left; repeat match goal with |- context [match ?x with _ => _ end] => destruct x end; reflexivity).
  destruct (same_shape t t') eqn:E; [right; exists t'; auto|left; reflexivity].
Qed.

Theorem reuse_refines_list_mem_proof : forall ops b s l,
  c16_ty (fst s) = true -> okb b (fst s) = true -> (forall x, l = Some x -> inv s x) -> refines_mem b s l ops.
Proof.
  induction ops as [|o ops IH]; intros b [t d] l Hc Hb Hinv; cbn [refines_mem]; [exact I|].
  intros Hv. cbn [fst] in *.
  assert (Hv' : op_valid b (t, d) o).
  { destruct o; cbn [op_valid op_valid_mem fst] in *; auto.
    - intros Hs. now destruct (Hv Hs).
    - destruct Hv as [Hw Hl]. now apply dec_valid_proved. }
  pose proof (step_ok b t d l o Hc Hinv Hv') as Hs. cbv zeta in Hs.
  split; [exact Hs|]. destruct Hs as [Hc' [Hinv' _]]. apply IH; [exact Hc'| |exact Hinv'].
  destruct (cstep_ty b t d o) as [E|[t' [-> [Es E]]]]; rewrite E; [exact Hb|].
  cbn [op_valid_mem fst] in Hv. now destruct (Hv Es).
Qed.
