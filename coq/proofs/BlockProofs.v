(* Blocks: EncodeBlock -> DecodeBlock into typed targets is the identity (C01), and a proper
   prefix of an encoded block is rejected (C07). *)
From CH Require Import model.Columns model.Block proofs.PrimProofs proofs.FieldsProofs proofs.MessagesProofs
  proofs.ColumnsProofs proofs.ColumnsProofs2.
From CH Require Import gen.Codes gen.Consts gen.Features.
From Coq Require Import ZifyN ZifyNat ZifyBool.
Ltac Zify.zify_post_hook ::= Z.div_mod_to_equations.
Open Scope N_scope.
Open Scope list_scope.

Section BlockRT.
  Variable conflicts : bytes -> bytes -> bool.
  Variable infer_target : ty -> bytes -> option ty.
  Variable infer_auto : bytes -> option ty.
  Hypothesis conflicts_refl : forall s, conflicts s s = false.

  (* a prepared input column with [nrows] rows whose target adopts its own type string *)
  Definition col_ok (nrows : N) (c : col) : Prop :=
    wf_ty (c_ty c) = true /\ str_ok (c_name c) /\ str_ok (type_str (c_ty c)) /\
    rows (c_ty c) (c_data c) = nrows /\ wfd (c_ty c) nrows (c_data c) /\
    prepare (c_ty c) (c_data c) = Some (c_data c) /\
    infer_target (c_ty c) (type_str (c_ty c)) = Some (c_ty c).

  (* a target bound to column c: same type, same name or a blank name to be inferred *)
  Definition binds (c t : col) : Prop :=
    c_ty t = c_ty c /\ (c_name t = c_name c \/ c_name t = []).

  Lemma col_header_rt v name t rest : str_ok name -> str_ok (type_str t) ->
    dec_col_header v (enc_start v name t ++ rest) = Ok (name, type_str t) rest.
  Proof.
    intros [_ Hn] [_ Ht]. unfold dec_col_header, enc_start, bind.
    rewrite <- !app_assoc, get_str_put by assumption. rewrite get_str_put by assumption.
    destruct (gate v FeatureCustomSerialization); [|reflexivity].
    rewrite get_bool_put. reflexivity.
  Qed.

  Lemma dec_targets_rt b b' v nrows : nrows <= max_rows ->
    forall cols ts bs rest,
    Forall (col_ok nrows) cols -> Forall2 binds cols ts ->
    enc_cols b v nrows cols = Some bs ->
    dec_targets conflicts infer_target b' v nrows ts (bs ++ rest) = Ok cols rest.
  Proof.
    intros Hn cols. induction cols as [|c cols IH]; intros ts bs rest Hok Hb Henc.
    - inversion Hb; subst. cbn in Henc. injection Henc as <-. reflexivity.
    - inversion Hb as [|? t ? ts' Hbt Hbs]; subst. inversion Hok as [|? ? Hc Hcs]; subst.
      destruct Hc as [Hwt [Hname [Htstr [Hrows [Hwfd [Hprep Hinf]]]]]].
      destruct Hbt as [Hty Hnm].
      cbn [enc_cols] in Henc. rewrite Hrows, N.eqb_refl in Henc. cbn [negb] in Henc.
      rewrite Hprep, Hrows in Henc.
      destruct (enc_cols b v nrows cols) as [r|] eqn:Er; [|discriminate]. injection Henc as <-.
      cbn [dec_targets]. unfold bind at 1. rewrite <- !app_assoc.
      rewrite col_header_rt by assumption.
      assert (Htn : (match c_name t with [] => c_name c | _ :: _ => c_name t end) = c_name c)
        by (destruct Hnm as [->| ->]; [destruct (c_name c); reflexivity|reflexivity]).
      rewrite Htn, bytes_eqb_refl. cbn [negb]. rewrite Hty, Hinf, conflicts_refl.
      unfold bind.
      assert (Hcol : (if nrows =? 0 then ret (empty (c_ty c)) else dec_state (c_ty c);;; dec b' (c_ty c) nrows)
                       ((if nrows =? 0 then [] else enc_state (c_ty c) ++ enc b (c_ty c) (c_data c)) ++ r ++ rest)
                     = Ok (c_data c) (r ++ rest)).
      { pose proof (column_roundtrip (c_ty c) b b' nrows (c_data c) (r ++ rest) Hwt Hn Hwfd Hrows) as H.
        unfold dec_column, enc_column in H. rewrite Hrows in H. exact H. }
      unfold bind in Hcol. rewrite Hcol. rewrite (IH ts' r rest Hcs Hbs eq_refl).
      unfold ret. destruct c; reflexivity.
  Qed.

  Theorem block_roundtrip b b' v i nrows cols ts bs rest :
    nrows <= max_rows -> (Z.of_nat (length cols) <= maxColumnsInBlock)%Z -> in_i32 (bi_bucket i) ->
    Forall (col_ok nrows) cols -> Forall2 binds cols ts ->
    encode_block b v i nrows cols = Some bs ->
    decode_block conflicts infer_target infer_auto false b' v ts (bs ++ rest)
    = Ok ((if gate v FeatureBlockInfo then i else blank_block_info),
          Z.of_nat (length cols), Z.of_N nrows, (match cols with [] => ts | _ => cols end)) rest.
  Proof.
    intros Hn Hc Hi Hok Hb Henc.
    unfold encode_block, encode_raw_block in Henc.
    destruct (enc_cols b v nrows cols) as [r|] eqn:Er; [|discriminate]. cbn [option_map] in Henc.
    injection Henc as <-.
    unfold decode_block, bind. rewrite <- !app_assoc.
    assert (Hinfo : (if gate v FeatureBlockInfo then decode_BlockInfo blank_block_info else ret blank_block_info)
                      ((if gate v FeatureBlockInfo then encode_BlockInfo i else []) ++
                       put_int (Z.of_nat (length cols)) ++ put_int (Z.of_N nrows) ++ r ++ rest)
                    = Ok (if gate v FeatureBlockInfo then i else blank_block_info)
                         (put_int (Z.of_nat (length cols)) ++ put_int (Z.of_N nrows) ++ r ++ rest)).
    { destruct (gate v FeatureBlockInfo); [now apply BlockInfo_rt|reflexivity]. }
    rewrite Hinfo. unfold decode_raw_block, bind.
    unfold maxColumnsInBlock in Hc |- *.
    rewrite get_int_put by (unfold in_i64; lia).
    replace ((1000000 <? Z.of_nat (length cols)) || (Z.of_nat (length cols) <? 0))%Z with false by lia.
    rewrite get_int_put by (unfold in_i64, max_rows, maxRowsInBLock in *; lia).
    rewrite check_rows_ok by exact Hn.
    destruct cols as [|c cols'].
    - inversion Hb; subst. cbn in Er. injection Er as <-.
      destruct (Z.of_N nrows =? 0)%Z eqn:E0; cbn [length Z.of_nat Z.eqb andb]; [reflexivity|].
      (* no columns: zero headers are read, whatever the row count says *)
      cbn [decode_result app]. change (Z.to_N 0) with 0. change (0 =? 0) with true. cbn [negb andb].
      cbv beta. replace (0 <=? blen rest) with true by lia. reflexivity.
    - set (cols := c :: cols') in *.
      replace ((Z.of_nat (length cols) =? 0)%Z) with false by (unfold cols; cbn [length]; lia).
      cbn [andb].
      inversion Hb as [|? t ? ts' Hbt Hbs]; subst.
      unfold decode_result.
      assert (Hlen : length cols' = length ts') by (clear -Hbs; induction Hbs; cbn [length]; congruence).
      assert (El : (Z.to_N (Z.of_nat (length cols)) =? N.of_nat (length (t :: ts'))) = true)
        by (unfold cols; cbn [length]; rewrite <- Hlen; lia).
      unfold target. rewrite El. cbn [negb].
      rewrite (dec_targets_rt b b' v nrows Hn cols (t :: ts') r rest Hok Hb Er).
      reflexivity.
  Qed.
End BlockRT.
