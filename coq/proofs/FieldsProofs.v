(* Generic round trip and monotonicity for layouts. *)
From CH Require Import model.Fields proofs.PrimProofs.
From Coq Require Import ZifyN ZifyNat ZifyBool.
Ltac Zify.zify_post_hook ::= Z.div_mod_to_equations.
Open Scope N_scope.

Lemma str_okb_spec s : str_okb s = true -> wf_bytes s /\ blen s < 2 ^ 63.
Proof.
  unfold str_okb. intros H. apply andb_true_iff in H as [H1 H2].
  split; [now apply wf_bytesb_spec|lia].
Qed.

Lemma swap8_16 t : length t = 16%nat -> swap8 (swap8 t) = t /\ length (swap8 t) = 16%nat.
Proof.
  intros H. do 17 (destruct t as [|? t]; try discriminate H). split; reflexivity.
Qed.
Lemma swap8_8 t : length t = 8%nat -> swap8 (swap8 t) = t /\ length (swap8 t) = 8%nat.
Proof.
  intros H. do 9 (destruct t as [|? t]; try discriminate H). split; reflexivity.
Qed.

Lemma mem_N_lt x l : mem_N x l = true -> In x l.
Proof.
  unfold mem_N. intros H. apply existsb_exists in H as [y [Hy E]].
  apply N.eqb_eq in E. now subst.
Qed.

Lemma dec_enc_field k x rest :
  fv_typed k x = true -> dec_field k (enc_field k x ++ rest) = Ok x rest.
Proof.
  destruct k, x; cbn [fv_typed]; try discriminate; intros H.
  - (* KStr *) apply str_okb_spec in H as [_ H].
    cbn [dec_field enc_field]. unfold pmap, bind, ret. now rewrite get_str_put.
  - (* KInt *) apply in_i64b_spec in H. cbn [dec_field enc_field]. unfold pmap, bind, ret.
    now rewrite get_int_put.
  - (* KUVar *) unfold u64b in H. cbn [dec_field enc_field]. unfold pmap, bind, ret.
    rewrite uvarint_put by lia. reflexivity.
  - (* KU8 *) cbn [dec_field enc_field]. unfold pmap at 1, bind, ret.
    rewrite get_u8_put by lia. reflexivity.
  - (* KEnum8 *) apply andb_true_iff in H as [H1 H2]. cbn [dec_field enc_field]. unfold bind.
    rewrite get_u8_put by lia. now rewrite H1.
  - (* KEnumUV *) apply andb_true_iff in H as [H1 H2]. cbn [dec_field enc_field]. unfold bind.
    rewrite uvarint_put by (change (2 ^ 64) with 18446744073709551616; lia).
    rewrite N.mod_small by lia. now rewrite H1.
  - (* KI32 *) apply in_i32b_spec in H. cbn [dec_field enc_field]. unfold pmap at 1, bind, ret.
    now rewrite get_i32_put.
  - (* KI64 *) apply in_i64b_spec in H. cbn [dec_field enc_field]. unfold pmap at 1, bind, ret.
    now rewrite get_i64_put.
  - (* KBool *) cbn [dec_field enc_field]. unfold pmap at 1, bind, ret. now rewrite get_bool_put.
  - (* KBoolInt *) cbn [dec_field enc_field]. unfold pmap at 1, bind, ret.
    destruct b; rewrite get_int_put by (unfold in_i64; lia); reflexivity.
  - (* KSpan *)
    destruct s as [s|]; [|reflexivity].
    do 6 (apply andb_true_iff in H as [H ?]).
    cbn [dec_field enc_field]. rewrite H.
    destruct s as [t sp st fl]; cbn [sp_trace sp_span sp_state sp_flags] in *.
    assert (Ht : length t = 16%nat) by (now apply Nat.eqb_eq).
    assert (Hs : length sp = 8%nat) by (now apply Nat.eqb_eq).
    destruct (swap8_16 t Ht) as [Ht1 Ht2]. destruct (swap8_8 sp Hs) as [Hs1 Hs2].
    match goal with Hst : str_okb st = true |- _ => apply str_okb_spec in Hst as [_ Hst] end.
    unfold bind. cbn [app].
    change (get_bool (1 :: ?x)) with (Ok true x).
    cbv iota. rewrite <- !app_assoc.
    rewrite read_raw_app by (try (symmetry; assumption); cbv; discriminate).
    rewrite read_raw_app by (try (symmetry; assumption); cbv; discriminate).
    rewrite get_str_put by assumption.
    rewrite get_u8_put by lia.
    unfold ret. now rewrite Ht1, Hs1.
Qed.

Theorem fields_roundtrip v l : forall xs rest,
  fields_typed l xs = true ->
  decode_fields v l (encode_fields v l xs ++ rest) = Ok (project v l xs) rest.
Proof.
  induction l as [|f l IH]; intros xs rest H.
  - destruct xs; [reflexivity|discriminate].
  - destruct xs as [|x xs]; [discriminate|].
    cbn [fields_typed] in H. apply andb_true_iff in H as [Hx Hxs].
    cbn [decode_fields encode_fields project]. unfold bind at 1.
    destruct (gate_in v (fgates f)).
    + rewrite <- app_assoc. rewrite dec_enc_field by assumption.
      unfold bind. rewrite IH by assumption. reflexivity.
    + cbn [app]. unfold ret at 1. unfold bind. rewrite IH by assumption. reflexivity.
Qed.

(* a field introduced at revision g is present from exactly g on, absent before:
   the encoding is the concatenation of the field encodings whose gates are open *)
Theorem fields_presence v l : forall xs,
  fields_typed l xs = true ->
  encode_fields v l xs =
  concat (map (fun '(f, x) => if gate_in v (fgates f) then enc_field (fk f) x else [])
              (combine l xs)).
Proof.
  induction l as [|f l IH]; intros xs H.
  - destruct xs; reflexivity.
  - destruct xs as [|x xs]; [discriminate|].
    cbn [fields_typed] in H. apply andb_true_iff in H as [_ Hxs].
    cbn [encode_fields combine map concat]. now rewrite IH.
Qed.

Lemma mono_dec_field k : mono (dec_field k).
Proof.
  destruct k; cbn [dec_field];
    try (apply mono_pmap; first [apply mono_get_str|apply mono_get_int|apply mono_uvarint
                                |apply mono_get_u8|apply mono_get_i32|apply mono_get_i64|apply mono_get_bool]).
  - apply mono_bind; [apply mono_get_u8|]. intros n. apply mono_if; [apply mono_ret|apply mono_fail].
  - apply mono_bind; [apply mono_uvarint|]. intros n. cbv zeta. apply mono_if; [apply mono_ret|apply mono_fail].
  - apply mono_bind; [apply mono_get_bool|]. intros [|]; [|apply mono_ret].
    apply mono_bind; [apply mono_read_raw|]. intros t.
    apply mono_bind; [apply mono_read_raw|]. intros s.
    apply mono_bind; [apply mono_get_str|]. intros st.
    apply mono_bind; [apply mono_get_u8|]. intros fl. apply mono_ret.
Qed.

Lemma mono_decode_fields v l : mono (decode_fields v l).
Proof.
  induction l as [|f l IH]; cbn [decode_fields]; [apply mono_ret|].
  apply mono_bind.
  - apply mono_if; [apply mono_dec_field|apply mono_ret].
  - intros x. apply mono_bind; [assumption|]. intros xs. apply mono_ret.
Qed.
