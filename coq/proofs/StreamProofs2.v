(* C08, extension: the whole receive loop is independent of silences in front of EVERY packet.

   Part 7   the loop with handler state (recv_st): fuel monotonicity, simulation (as StreamProofs.recv_sim), the
            layered loop is the loop on the gapped flat stream, Stream.recv_loop is the instance X = unit
   Part 8   what a read of the gapped stream leaves is a suffix of the stream; invariants of reader programs
   Part 9   the packet-code read under the armed deadline when the code's bytes are contiguous
   Part 10  gaps_at_boundaries and the main theorem on the gapped stream (both fuel directions)
   Part 11  the shape condition gaps_shape implies gaps_at_boundaries; gab_check decides it
   Part 12  the statements for the layered reader (bufio over the chunked connection), erase_gaps *)
From CH Require Import model.Stream model.StreamGaps proofs.PrimProofs proofs.StreamProofs gen.Consts.
From Coq Require Import ZifyN ZifyNat ZifyBool.
Ltac Zify.zify_post_hook ::= Z.div_mod_to_equations.
Open Scope N_scope.

(* ======================= Part 7 ======================= *)
Section StFuel.
Variable St : Type.
Variable rfull : nat -> St -> option ((bytes + ioerr) * St).
Variable avail : St -> nat.
Variable arm : bool -> St -> St.
Variable H : bytes -> N * N.
Variable decomp : N -> bytes -> N -> option bytes.
Context {X R : Type}.
Variable body : X -> N -> rd (X * step R).

Notation rs := (recv_st St rfull avail arm H decomp body).

(* more rounds than the loop needs change nothing *)
Lemma recv_st_mono : forall f g x s, snd (rs f x s) <> RFuel -> (f <= g)%nat -> rs g x s = rs f x s.
Proof.
  induction f as [|f IH]; intros g x s Hn Hle; [cbn in Hn; congruence|].
  destruct g as [|g]; [lia|]. cbn [recv_st] in *.
  destruct (packet St rfull avail arm H decomp s) as [code s'|e s'|c|]; try reflexivity.
  - destruct (run St rfull avail H decomp (body x code) s') as [[x' [|r]] s''|e s''|c|]; try reflexivity.
    apply IH; [exact Hn|lia].
  - destruct (is_timeout e); [|reflexivity]. apply IH; [exact Hn|lia].
Qed.
End StFuel.

Section StSim.
Variables S1 S2 : Type.
Variable rf1 : nat -> S1 -> option ((bytes + ioerr) * S1).
Variable rf2 : nat -> S2 -> option ((bytes + ioerr) * S2).
Variable av1 : S1 -> nat.
Variable av2 : S2 -> nat.
Variable f : S1 -> S2.
Variable inv : S1 -> Prop.
Variable H : bytes -> N * N.
Variable decomp : N -> bytes -> N -> option bytes.
Hypothesis Hrf : forall n s, inv s -> exists r s', rf1 n s = Some (r, s') /\ rf2 n (f s) = Some (r, f s') /\ inv s'.
Hypothesis Hav : forall s, inv s -> av1 s = av2 (f s).
Variable arm1 : bool -> S1 -> S1.
Variable arm2 : bool -> S2 -> S2.
Hypothesis Harm : forall a s, inv s -> inv (arm1 a s) /\ f (arm1 a s) = arm2 a (f s).
Context {X R : Type}.
Variable body : X -> N -> rd (X * step R).

Theorem recv_st_sim : forall fuel x s, inv (p_raw s) ->
  res_map f (recv_st S1 rf1 av1 arm1 H decomp body fuel x s) = recv_st S2 rf2 av2 arm2 H decomp body fuel x (pmap_st f s) /\
  rr_inv inv (snd (recv_st S1 rf1 av1 arm1 H decomp body fuel x s)).
Proof.
  induction fuel as [|fuel IH]; intros x s Hi; cbn [recv_st]; [split; [reflexivity|exact I]|].
  destruct (packet_sim S1 S2 rf1 rf2 av1 av2 f inv H decomp Hrf Hav arm1 arm2 Harm s Hi) as [E Hi']. rewrite <- E.
  destruct (packet S1 rf1 av1 arm1 H decomp s) as [code s'|e s'| |]; cbn [rr_map rr_inv] in *;
    try (split; [reflexivity|exact I]).
  - destruct (run_sim S1 S2 rf1 rf2 av1 av2 f inv H decomp Hrf Hav (body x code) s' Hi') as [E2 Hi2]. rewrite <- E2.
    destruct (run S1 rf1 av1 H decomp (body x code) s') as [[x' [|r]] s''|e s''| |]; cbn [rr_map rr_inv] in *;
      try (split; [reflexivity|first [exact I|exact Hi2]]).
    apply IH. exact Hi2.
  - destruct (is_timeout e); [apply IH; exact Hi'|split; [reflexivity|exact Hi']].
Qed.
End StSim.

Lemma avail_L_G s0 : avail_L s0 = avail_G (gfl s0).
Proof. unfold avail_L, avail_G, gfl, flatten. cbn [g_items]. now rewrite g_bytes_app, g_bytes_somes, g_bytes_evs. Qed.

(* the layered loop is the loop on the gapped flat stream: every chunking, every oracle, every state *)
Theorem recv_st_L_G orc H d {X R} (body : X -> N -> rd (X * step R)) fuel x s :
  res_map gfl (recv_st_L orc H d body fuel x s) = recv_st_G H d body fuel x (pmap_st gfl s).
Proof.
  refine (proj1 (recv_st_sim bufio gflat (rfull_L orc) rfull_G avail_L avail_G gfl (fun _ => True) H d _ _ arm_L arm_G _ body fuel x s I)).
  - intros n s0 _. destruct (rfull_L_gflat orc n s0) as (r & s' & E1 & E2). exists r, s'. auto.
  - intros s0 _. apply avail_L_G.
  - intros a s0 _. split; [exact I|reflexivity].
Qed.

(* Stream.recv_loop is recv_st with the trivial handler state *)
Lemma recv_loop_is_recv_st St rfull avail arm H d {R} (body : N -> rd (step R)) : forall fuel s,
  recv_loop St rfull avail arm H d body fuel s = snd (recv_st St rfull avail arm H d (lift_body body) fuel tt s).
Proof.
  induction fuel as [|fuel IH]; intros s; cbn [recv_loop recv_st]; [reflexivity|].
  destruct (packet St rfull avail arm H d s) as [code s'|e s'|c|]; try reflexivity.
  - unfold lift_body at 1, r_pmap. rewrite run_rbind.
    destruct (run St rfull avail H d (body code) s') as [[|r] s''|e s''|c|]; cbn [run]; try reflexivity.
    apply IH.
  - destruct (is_timeout e); [apply IH|reflexivity].
Qed.

(* ======================= Part 8 ======================= *)
Definition suffix_of (l' l : list (option N)) : Prop := exists pre, l = pre ++ l'.

Lemma suffix_refl l : suffix_of l l.
Proof. exists []. reflexivity. Qed.
Lemma suffix_trans a b c : suffix_of a b -> suffix_of b c -> suffix_of a c.
Proof. intros [p ->] [q ->]. exists (q ++ p). now rewrite app_assoc. Qed.
Lemma suffix_length l' l : suffix_of l' l -> (length l' <= length l)%nat.
Proof. intros [p ->]. rewrite app_length. lia. Qed.

Lemma g_take_suffix : forall l a tl n acc r l', g_take a tl l n acc = (r, l') -> suffix_of l' l.
Proof.
  induction l as [|x l IH]; intros a tl n acc r l' Hg; destruct n as [|n]; cbn [g_take] in Hg.
  - inversion Hg. apply suffix_refl.
  - inversion Hg. apply suffix_refl.
  - inversion Hg. apply suffix_refl.
  - destruct x as [b|].
    + apply IH in Hg. destruct Hg as [p ->]. exists (Some b :: p). reflexivity.
    + destruct a.
      * inversion Hg. exists [None]. reflexivity.
      * apply IH in Hg. destruct Hg as [p ->]. exists (None :: p). reflexivity.
Qed.

(* any property of the raw gapped reader that io.ReadFull preserves holds after every reader program *)
Lemma run_G_inv H d (inv : gflat -> Prop) :
  (forall n s r s', inv s -> rfull_G n s = Some (r, s') -> inv s') ->
  forall A (P : rd A) s, inv (p_raw s) -> rr_inv inv (run_G H d P s).
Proof.
  intros Hpres A P s Hi.
  refine (proj2 (run_sim gflat gflat rfull_G rfull_G avail_G avail_G (fun g => g) inv H d _ _ P s Hi)).
  - intros n s0 Hi0. destruct (rfull_G n s0) as [[r s']|] eqn:E.
    + exists r, s'. split; [reflexivity|]. split; [reflexivity|]. exact (Hpres n s0 r s' Hi0 E).
    + unfold rfull_G in E. destruct (g_take _ _ _ _ _); discriminate.
  - reflexivity.
Qed.

(* what is left is a suffix of what was there; the deadline and the tail error do not change *)
Definition frame_inv (l0 : list (option N)) (a : bool) (tl : ioerr) (g : gflat) : Prop :=
  suffix_of (g_items g) l0 /\ g_armed g = a /\ g_tl g = tl.

Lemma frame_inv_rfull l0 a tl n s r s' : frame_inv l0 a tl s -> rfull_G n s = Some (r, s') -> frame_inv l0 a tl s'.
Proof.
  intros (Hs & Ha & Ht) E. unfold rfull_G in E.
  destruct (g_take (g_armed s) (g_tl s) (g_items s) n []) as [r0 l'] eqn:Eg. inversion E; subst r s'. clear E.
  cbn [g_items g_armed g_tl]. split; [|split; assumption].
  eapply suffix_trans; [eapply g_take_suffix; exact Eg|exact Hs].
Qed.

Lemma run_G_frame H d {A} (P : rd A) s :
  rr_inv (frame_inv (g_items (p_raw s)) (g_armed (p_raw s)) (g_tl (p_raw s))) (run_G H d P s).
Proof.
  apply run_G_inv.
  - intros n s0 r s'. apply frame_inv_rfull.
  - split; [apply suffix_refl|split; reflexivity].
Qed.

Lemma count_none_app a b : count_none (a ++ b) = (count_none a + count_none b)%nat.
Proof. induction a as [|[x|] a IH]; cbn [app count_none]; lia. Qed.
Lemma count_none_suffix l' l : suffix_of l' l -> (count_none l' <= count_none l)%nat.
Proof. intros [p ->]. rewrite count_none_app. lia. Qed.

Lemma no_none_suffix l' l : suffix_of l' l -> no_none l -> no_none l'.
Proof. intros [p ->] Hn. apply Forall_app in Hn. tauto. Qed.

(* ======================= Part 9 ======================= *)
Definition mkG (l : list (option N)) (tl : ioerr) (a : bool) (dt : bytes) (ps : N) : prd gflat :=
  {| p_raw := {| g_items := l ; g_tl := tl ; g_armed := a |} ; p_data := dt ; p_pos := ps ; p_comp := false |}.

Definition boundary (s : prd gflat) : Prop := g_armed (p_raw s) = false /\ p_comp s = false.

Lemma boundary_mkG s : boundary s -> s = mkG (g_items (p_raw s)) (g_tl (p_raw s)) false (p_data s) (p_pos s).
Proof. destruct s as [[l tl a] dt ps c]. intros [Ha Hc]. cbn in *. subst. reflexivity. Qed.

Lemma run_G_full1_nil H d {A} (k : bytes -> rd A) tl a dt ps :
  run_G H d (RFull 1 k) (mkG [] tl a dt ps) = RErr (SIo tl) (mkG [] tl a dt ps).
Proof. reflexivity. Qed.
Lemma g_take_0 a tl l acc : g_take a tl l 0 acc = (inl acc, l).
Proof. destruct l; reflexivity. Qed.
Lemma run_G_full1_some H d {A} (k : bytes -> rd A) b l tl a dt ps :
  run_G H d (RFull 1 k) (mkG (Some b :: l) tl a dt ps) = run_G H d (k [b]) (mkG l tl a dt ps).
Proof.
  unfold run_G. cbn [run]. unfold p_readfull, rfull_G. cbn [mkG p_comp p_raw g_items g_tl g_armed g_take].
  rewrite g_take_0. reflexivity.
Qed.
Lemma run_F_full1_nil H d {A} (k : bytes -> rd A) tl a dt ps :
  run_F H d (RFull 1 k) (pmap_st gstrip (mkG [] tl a dt ps)) = RErr (SIo tl) (pmap_st gstrip (mkG [] tl a dt ps)).
Proof. reflexivity. Qed.
Lemma run_F_full1_some H d {A} (k : bytes -> rd A) b l tl a dt ps :
  run_F H d (RFull 1 k) (pmap_st gstrip (mkG (Some b :: l) tl a dt ps)) = run_F H d (k [b]) (pmap_st gstrip (mkG l tl a dt ps)).
Proof. reflexivity. Qed.

(* what the code read leaves: the same reader with a suffix of the stream; after a value at least one item is
   gone; a timeout that is reported can only be the tail error of an exhausted stream *)
Definition uv_post (l : list (option N)) tl a dt ps (r : rr gflat N) : Prop :=
  match r with
  | ROk _ s' => exists l', s' = mkG l' tl a dt ps /\ suffix_of l' l /\ (length l' < length l)%nat
  | RErr e s' => exists l', s' = mkG l' tl a dt ps /\ suffix_of l' l /\ (is_timeout e = true -> l' = [])
  | _ => False
  end.

(* binary.ReadUvarint over contiguous bytes: armed or not, it is the read of the flat stream *)
Lemma get_uv_contig H d : forall fuel i acc l tl a dt ps, (1 <= fuel)%nat -> code_contig fuel l = true ->
  rr_map gstrip (run_G H d (r_get_uv fuel i acc) (mkG l tl a dt ps)) =
    run_F H d (r_get_uv fuel i acc) (pmap_st gstrip (mkG l tl a dt ps)) /\
  uv_post l tl a dt ps (run_G H d (r_get_uv fuel i acc) (mkG l tl a dt ps)).
Proof.
  induction fuel as [|fuel IH]; intros i acc l tl a dt ps Hf Hc; [lia|].
  cbn [r_get_uv]. destruct l as [|[b|] l].
  - rewrite run_G_full1_nil, run_F_full1_nil. split; [reflexivity|].
    exists []. split; [reflexivity|]. split; [apply suffix_refl|reflexivity].
  - rewrite run_G_full1_some, run_F_full1_some. cbn [code_contig] in Hc.
    destruct (b <? 128).
    + destruct ((i =? 9) && (1 <? b))%bool.
      * split; [reflexivity|]. exists l. split; [reflexivity|]. split; [exists [Some b]; reflexivity|discriminate].
      * split; [reflexivity|]. exists l. split; [reflexivity|]. split; [exists [Some b]; reflexivity|cbn [length]; lia].
    + destruct fuel as [|fuel'].
      * split; [reflexivity|]. exists l. split; [reflexivity|]. split; [exists [Some b]; reflexivity|discriminate].
      * destruct (IH (i + 1) (acc + (b - 128) * 2 ^ (7 * i)) l tl a dt ps ltac:(lia) Hc) as [E P].
        split; [exact E|].
        destruct (run_G H d (r_get_uv (S fuel') (i + 1) (acc + (b - 128) * 2 ^ (7 * i))) (mkG l tl a dt ps)) as [n s'|e s'|c|];
          cbn [uv_post] in *; try exact P.
        -- destruct P as (l' & -> & Hs & Hl). exists l'. split; [reflexivity|].
           split; [eapply suffix_trans; [exact Hs|exists [Some b]; reflexivity]|cbn [length]; lia].
        -- destruct P as (l' & -> & Hs & Ht). exists l'. split; [reflexivity|].
           split; [eapply suffix_trans; [exact Hs|exists [Some b]; reflexivity]|exact Ht].
  - cbn [code_contig] in Hc. discriminate.
Qed.

Definition pk_post (s : prd gflat) (r : rr gflat N) : Prop :=
  match r with
  | ROk _ s' => boundary s' /\ g_tl (p_raw s') = g_tl (p_raw s) /\ suffix_of (g_items (p_raw s')) (g_items (p_raw s)) /\
                (length (g_items (p_raw s')) < length (g_items (p_raw s)))%nat
  | RErr e s' => boundary s' /\ g_tl (p_raw s') = g_tl (p_raw s) /\ suffix_of (g_items (p_raw s')) (g_items (p_raw s)) /\
                 (is_timeout e = true -> g_items (p_raw s') = [])
  | _ => False
  end.

(* Client.packet at a boundary in front of contiguous code bytes: the deadline does not matter *)
Lemma packet_G_contig H d s : boundary s -> code_contig 10 (g_items (p_raw s)) = true ->
  rr_map gstrip (packet_G H d s) = packet_F H d (pmap_st gstrip s) /\ pk_post s (packet_G H d s).
Proof.
  intros Hb Hc. rewrite (boundary_mkG s Hb) at 1 2 3 4.
  set (l := g_items (p_raw s)) in *. set (tl := g_tl (p_raw s)). set (dt := p_data s). set (ps := p_pos s).
  unfold packet_G, packet_F, packet.
  change (p_arm gflat arm_G true (mkG l tl false dt ps)) with (mkG l tl true dt ps).
  change (p_arm flat arm_F true (pmap_st gstrip (mkG l tl false dt ps))) with (pmap_st gstrip (mkG l tl true dt ps)).
  destruct (get_uv_contig H d 10 0 0 l tl true dt ps ltac:(lia) Hc) as [E P].
  fold (run_G H d (A := N)) (run_F H d (A := N)). unfold r_uvarint. rewrite <- E.
  destruct (run_G H d (r_get_uv 10 0 0) (mkG l tl true dt ps)) as [n s'|e s'|c|]; cbn [uv_post rr_map] in *; try contradiction.
  - destruct P as (l' & -> & Hs & Hl). cbv zeta.
    change (p_arm gflat arm_G false (mkG l' tl true dt ps)) with (mkG l' tl false dt ps).
    change (p_arm flat arm_F false (pmap_st gstrip (mkG l' tl true dt ps))) with (pmap_st gstrip (mkG l' tl false dt ps)).
    destruct (mem_N (n mod 256) server_codes); cbn [rr_map pk_post]; (split; [reflexivity|]);
      cbn [mkG p_raw g_items g_tl]; repeat split; try assumption. intros; discriminate.
  - destruct P as (l' & -> & Hs & Ht).
    change (p_arm gflat arm_G false (mkG l' tl true dt ps)) with (mkG l' tl false dt ps).
    change (p_arm flat arm_F false (pmap_st gstrip (mkG l' tl true dt ps))) with (pmap_st gstrip (mkG l' tl false dt ps)).
    split; [reflexivity|]. cbn [pk_post mkG p_raw g_items g_tl]. repeat split; assumption.
Qed.

(* ... and in front of a silence: one timeout, the silence is over, nothing else has changed *)
Lemma packet_G_at_gap H d s l : boundary s -> g_items (p_raw s) = None :: l ->
  packet_G H d s = RErr (SIo ITimeout) (set_items s l).
Proof.
  intros Hb Hl. rewrite (boundary_mkG s Hb). rewrite Hl.
  unfold set_items, with_raw. cbn [mkG p_raw p_data p_pos p_comp g_tl g_armed]. reflexivity.
Qed.

(* ======================= Part 10 ======================= *)
Lemma gstrip_set_items s l : g_items (p_raw s) = None :: l -> pmap_st gstrip (set_items s l) = pmap_st gstrip s.
Proof. destruct s as [[l0 tl a] dt ps c]. cbn. intros ->. reflexivity. Qed.

Lemma boundary_set_items s l : boundary s -> boundary (set_items s l).
Proof. destruct s as [[l0 tl a] dt ps c]. unfold boundary. cbn. auto. Qed.

Section Gaps.
Variable H : bytes -> N * N.
Variable decomp : N -> bytes -> N -> option bytes.
Context {X R : Type}.
Variable body : X -> N -> rd (X * step R).

Notation rsG := (recv_st_G H decomp body).
Notation rsF := (recv_st_F H decomp body).

(* Every silence of the stream lies where the code tolerates it.  [s] is the reader on the gapped flat stream
   (bytes with silence markers: gfl of the layered reader, so bytes that bufio has buffered come first and
   no silence can be in front of them), at a point where the receive loop is about to call Client.packet:
     gab_none    no silence is left at all, or
     gab_gap     compression is off, no deadline armed, a silence comes next: it will expire the deadline of the
                 packet-code read with nothing consumed; what follows it is again such a point, or
     gab_packet  compression is off, no deadline armed, the bytes of the next packet code arrive without a
                 silence between them (the only reads under a deadline), and wherever the handler of that packet
                 returns to the loop is again such a point.  Silences inside the packet's body are not restricted:
                 they are met with no deadline armed. *)
Inductive gaps_at_boundaries : X -> prd gflat -> Prop :=
| gab_none x s : g_armed (p_raw s) = false -> no_none (g_items (p_raw s)) -> gaps_at_boundaries x s
| gab_gap x s l : boundary s -> g_items (p_raw s) = None :: l -> gaps_at_boundaries x (set_items s l) ->
                  gaps_at_boundaries x s
| gab_packet x s : boundary s -> code_contig 10 (g_items (p_raw s)) = true ->
                   (forall code s' x' s'', packet_G H decomp s = ROk code s' ->
                                           run_G H decomp (body x code) s' = ROk (x', Continue) s'' ->
                                           gaps_at_boundaries x' s'') ->
                   gaps_at_boundaries x s.

(* no silence left: the gapped loop is the flat loop, round for round *)
Lemma recv_st_G_F_nonone fuel x s : no_none (g_items (p_raw s)) ->
  res_map gstrip (rsG fuel x s) = rsF fuel x (pmap_st gstrip s).
Proof.
  intros Hn.
  refine (proj1 (recv_st_sim gflat flat rfull_G rfull_F avail_G avail_F gstrip (fun g => no_none (g_items g)) H decomp
                   _ _ arm_G arm_F _ body fuel x s Hn)).
  - intros n s0 Hi. destruct (rfull_G_F n s0 (or_intror Hi)) as (r & s' & E1 & E2 & _).
    exists r, s'. split; [exact E1|]. split; [exact E2|].
    unfold rfull_G in E1. destruct (g_take (g_armed s0) (g_tl s0) (g_items s0) n []) as [r0 l'] eqn:Eg.
    inversion E1; subst. cbn [g_items]. eapply no_none_suffix; [eapply g_take_suffix; exact Eg|exact Hi].
  - reflexivity.
  - intros a s0 Hi. split; [exact Hi|reflexivity].
Qed.

Lemma body_step x code s' : boundary s' ->
  rr_map gstrip (run_G H decomp (body x code) s') = run_F H decomp (body x code) (pmap_st gstrip s') /\
  rr_inv (frame_inv (g_items (p_raw s')) false (g_tl (p_raw s'))) (run_G H decomp (body x code) s').
Proof.
  intros [Ha Hc]. split.
  - apply run_G_F. left. exact Ha.
  - rewrite <- Ha. apply run_G_frame.
Qed.

(* the loop on the stream without its silences returns r within f rounds: the loop on the gapped stream returns r
   within any number of rounds that allows one more per silence *)
Theorem recv_st_gaps_G_up : forall x s, gaps_at_boundaries x s ->
  forall f, snd (rsF f x (pmap_st gstrip s)) <> RFuel ->
  forall g, (f + count_none (g_items (p_raw s)) <= g)%nat ->
  res_map gstrip (rsG g x s) = rsF f x (pmap_st gstrip s).
Proof.
  induction 1 as [x s Ha Hn|x s l Hb Hl Hgab IH|x s Hb Hc Hk IH]; intros f HF g Hg.
  - rewrite recv_st_G_F_nonone by exact Hn. apply recv_st_mono; [exact HF|lia].
  - rewrite Hl in Hg. cbn [count_none] in Hg. destruct g as [|g]; [lia|].
    unfold recv_st_G. cbn [recv_st]. fold (packet_G H decomp s). rewrite (packet_G_at_gap H decomp s l Hb Hl).
    cbn [is_timeout]. fold (recv_st_G H decomp body g x (set_items s l)).
    rewrite <- (gstrip_set_items s l Hl) in *. apply IH; [exact HF|]. unfold set_items. cbn [with_raw p_raw g_items]. lia.
  - destruct f as [|f]; [cbn in HF; congruence|]. destruct g as [|g]; [lia|].
    destruct (packet_G_contig H decomp s Hb Hc) as [E P].
    unfold recv_st_G, recv_st_F in *. cbn [recv_st] in *.
    fold (packet_G H decomp s) (packet_F H decomp (pmap_st gstrip s)) in *. rewrite <- E in *.
    destruct (packet_G H decomp s) as [code s'|e s'|c|] eqn:Ep; cbn [rr_map pk_post] in *; try contradiction.
    + destruct P as (Hb' & Htl & Hs & Hlen).
      destruct (body_step x code s' Hb') as [E2 Hfr].
      fold (run_G H decomp (A := X * step R)) (run_F H decomp (A := X * step R)) in *. rewrite <- E2 in *.
      remember (run_G H decomp (body x code) s') as rb eqn:Er. symmetry in Er.
      destruct rb as [[x' [|r]] s''|e s''|c|]; cbn [rr_map rr_inv] in *; try reflexivity.
      destruct Hfr as (Hs2 & _ & _).
      apply (IH code s' x' s'' eq_refl Er f HF g).
      pose proof (count_none_suffix _ _ Hs2). pose proof (count_none_suffix _ _ Hs). lia.
    + destruct P as (Hb' & Htl & Hs & Ht). destruct (is_timeout e) eqn:Et; [|reflexivity].
      specialize (Ht eq_refl).
      fold (recv_st_G H decomp body g x s') (recv_st_F H decomp body f x (pmap_st gstrip s')) in *.
      rewrite recv_st_G_F_nonone by (rewrite Ht; constructor).
      apply recv_st_mono; [exact HF|lia].
Qed.

(* the loop on the gapped stream returns r within g rounds: so does the loop on the stream without its silences *)
Theorem recv_st_gaps_G_down : forall x s, gaps_at_boundaries x s ->
  forall g, snd (rsG g x s) <> RFuel -> res_map gstrip (rsG g x s) = rsF g x (pmap_st gstrip s).
Proof.
  induction 1 as [x s Ha Hn|x s l Hb Hl Hgab IH|x s Hb Hc Hk IH]; intros g HG.
  - apply recv_st_G_F_nonone. exact Hn.
  - destruct g as [|g]; [cbn in HG; congruence|].
    unfold recv_st_G in HG |- *. cbn [recv_st] in HG |- *. fold (packet_G H decomp s) in HG |- *.
    rewrite (packet_G_at_gap H decomp s l Hb Hl) in HG |- *. cbn [is_timeout] in HG |- *.
    fold (recv_st_G H decomp body g x (set_items s l)) in HG |- *.
    specialize (IH g HG).
    assert (HF : snd (rsF g x (pmap_st gstrip s)) <> RFuel).
    { rewrite <- (gstrip_set_items s l Hl), <- IH. unfold res_map. cbn [snd].
      destruct (snd (recv_st_G H decomp body g x (set_items s l))); cbn [rr_map]; congruence. }
    rewrite IH. rewrite (gstrip_set_items s l Hl).
    symmetry. apply recv_st_mono; [exact HF|lia].
  - destruct g as [|g]; [cbn in HG; congruence|].
    destruct (packet_G_contig H decomp s Hb Hc) as [E P].
    unfold recv_st_G, recv_st_F in *. cbn [recv_st] in *.
    fold (packet_G H decomp s) (packet_F H decomp (pmap_st gstrip s)) in *. rewrite <- E in *.
    destruct (packet_G H decomp s) as [code s'|e s'|c|] eqn:Ep; cbn [rr_map pk_post] in *; try contradiction.
    + destruct P as (Hb' & Htl & Hs & Hlen).
      destruct (body_step x code s' Hb') as [E2 Hfr].
      fold (run_G H decomp (A := X * step R)) (run_F H decomp (A := X * step R)) in *. rewrite <- E2 in *.
      remember (run_G H decomp (body x code) s') as rb eqn:Er. symmetry in Er.
      destruct rb as [[x' [|r]] s''|e s''|c|]; cbn [rr_map rr_inv] in *; try reflexivity.
      apply (IH code s' x' s'' eq_refl Er g HG).
    + destruct P as (Hb' & Htl & Hs & Ht). destruct (is_timeout e) eqn:Et; [|reflexivity].
      specialize (Ht eq_refl).
      fold (recv_st_G H decomp body g x s') (recv_st_F H decomp body g x (pmap_st gstrip s')) in *.
      apply recv_st_G_F_nonone. rewrite Ht. constructor.
Qed.
End Gaps.

(* ======================= Part 11 ======================= *)
Lemma gaps_shape_tail x l : gaps_shape (x :: l) = true -> gaps_shape l = true.
Proof. cbn [gaps_shape]. intros E. apply andb_true_iff in E. tauto. Qed.

Lemma gaps_shape_suffix l' l : suffix_of l' l -> gaps_shape l = true -> gaps_shape l' = true.
Proof.
  intros [p ->]. induction p as [|x p IH]; intros E; [exact E|].
  apply IH. cbn [app] in E. exact (gaps_shape_tail _ _ E).
Qed.

Definition head_not_gap (l : list (option N)) : Prop := match l with None :: _ => False | _ => True end.

Lemma gaps_shape_contig : forall n l, gaps_shape l = true -> head_not_gap l -> code_contig n l = true.
Proof.
  induction n as [|n IH]; intros l Hs Hh; [reflexivity|].
  destruct l as [|[b|] l]; cbn [code_contig]; [reflexivity| |contradiction].
  destruct (b <? 128) eqn:Eb; [reflexivity|].
  apply IH; [exact (gaps_shape_tail _ _ Hs)|].
  destruct l as [|[c|] l]; cbn [head_not_gap]; auto.
  cbn [gaps_shape] in Hs. rewrite Eb in Hs. discriminate.
Qed.

Lemma no_none_b_sound l : no_none_b l = true -> no_none l.
Proof.
  induction l as [|[b|] l IH]; cbn [no_none_b]; intros E; [constructor| |discriminate].
  constructor; [discriminate|exact (IH E)].
Qed.

Section Shape.
Variable H : bytes -> N * N.
Variable decomp : N -> bytes -> N -> option bytes.
Context {X R : Type}.
Variable body : X -> N -> rd (X * step R).

(* the handlers give the reader back with compression switched off (decodeBlock: defer DisableCompression) *)
Definition handlers_leave_compression_off : Prop :=
  forall x code (s : prd gflat), p_comp s = false -> comp_off (run_G H decomp (body x code) s).

(* the condition on the shape of the stream alone is preserved round the loop, whatever the handlers read *)
Theorem gaps_shape_gab : handlers_leave_compression_off ->
  forall n x s, (length (g_items (p_raw s)) <= n)%nat -> boundary s -> gaps_shape (g_items (p_raw s)) = true ->
  gaps_at_boundaries H decomp body x s.
Proof.
  intros Hoff. induction n as [|n IH]; intros x s Hlen Hb Hs.
  - apply gab_none; [exact (proj1 Hb)|]. destruct (g_items (p_raw s)); [constructor|cbn [length] in Hlen; lia].
  - destruct (g_items (p_raw s)) as [|[b|] l] eqn:El.
    + apply gab_none; [exact (proj1 Hb)|]. rewrite El. constructor.
    + apply gab_packet; [exact Hb|rewrite El; apply gaps_shape_contig; [exact Hs|exact I]|].
      intros code s' x' s'' Ep Er.
      destruct (packet_G_contig H decomp s Hb) as [_ P].
      { rewrite El. apply gaps_shape_contig; [exact Hs|exact I]. }
      rewrite Ep in P. cbn [pk_post] in P. destruct P as (Hb' & _ & Hsuf & Hlt).
      pose proof (run_G_frame H decomp (body x code) s') as Hfr. rewrite Er in Hfr. cbn [rr_inv] in Hfr.
      destruct Hfr as (Hsuf2 & Ha2 & _).
      pose proof (Hoff x code s' (proj2 Hb')) as Hc2. rewrite Er in Hc2. cbn [comp_off] in Hc2.
      apply IH.
      * pose proof (suffix_length _ _ Hsuf2). rewrite El in Hlt. cbn [length] in *. lia.
      * split; [rewrite Ha2; exact (proj1 Hb')|exact Hc2].
      * eapply gaps_shape_suffix; [exact Hsuf2|]. eapply gaps_shape_suffix; [exact Hsuf|]. rewrite El. exact Hs.
    + apply (gab_gap H decomp body x s l Hb El). apply IH.
      * unfold set_items. cbn [with_raw p_raw g_items]. cbn [length] in Hlen. lia.
      * apply boundary_set_items. exact Hb.
      * unfold set_items. cbn [with_raw p_raw g_items]. exact (gaps_shape_tail _ _ Hs).
Qed.

(* gab_check decides gaps_at_boundaries (as far as its fuel reaches) *)
Theorem gab_check_sound : forall fuel x s, gab_check H decomp body fuel x s = true -> gaps_at_boundaries H decomp body x s.
Proof.
  induction fuel as [|fuel IH]; intros x s E; [discriminate|].
  cbn [gab_check] in E. apply andb_true_iff in E. destruct E as [Ea E].
  apply negb_true_iff in Ea. apply orb_true_iff in E. destruct E as [E|E].
  - apply gab_none; [exact Ea|apply no_none_b_sound; exact E].
  - apply andb_true_iff in E. destruct E as [Ec E]. apply negb_true_iff in Ec.
    assert (Hb : boundary s) by (split; assumption).
    destruct (g_items (p_raw s)) as [|[b|] l] eqn:El.
    + apply gab_none; [exact Ea|rewrite El; constructor].
    + apply andb_true_iff in E. destruct E as [Ecc E].
      apply gab_packet; [exact Hb|rewrite El; exact Ecc|].
      intros code s' x' s'' Ep Er. rewrite Ep, Er in E. apply IH. exact E.
    + apply (gab_gap H decomp body x s l Hb El). apply IH. exact E.
Qed.
End Shape.

(* ======================= Part 12 ======================= *)
Lemma pmap_gstrip_gfl (s : prd bufio) : pmap_st gstrip (pmap_st gfl s) = pmap_st fl s.
Proof. unfold pmap_st. cbn [p_raw p_data p_pos p_comp]. now rewrite gstrip_gfl. Qed.

Lemma rr_map_gstrip_gfl {A} (r : rr bufio A) : rr_map gstrip (rr_map gfl r) = rr_map fl r.
Proof. destruct r; cbn [rr_map]; try reflexivity; now rewrite pmap_gstrip_gfl. Qed.

Lemma res_map_gstrip_gfl {X A} (r : X * rr bufio A) : res_map gstrip (res_map gfl r) = res_map fl r.
Proof. unfold res_map. cbn [fst snd]. now rewrite rr_map_gstrip_gfl. Qed.

Lemma rr_map_fuel {S1 S2 A} (f : S1 -> S2) (r : rr S1 A) : rr_map f r = RFuel <-> r = RFuel.
Proof. destruct r; cbn [rr_map]; split; intros E; try discriminate; reflexivity. Qed.

Lemma count_none_somes d : count_none (map Some d) = O.
Proof. induction d; cbn [map count_none]; auto. Qed.
Lemma count_none_evs evs : count_none (g_evs evs) = count_gaps evs.
Proof.
  unfold count_gaps. induction evs as [|[b|] evs IH]; cbn [g_evs filter is_chunk negb length count_none]; [reflexivity| |].
  - rewrite count_none_app, count_none_somes. exact IH.
  - now rewrite IH.
Qed.
Lemma count_none_gfl s : count_none (g_items (gfl s)) = count_gaps (c_evs (b_conn s)).
Proof. unfold gfl. cbn [g_items]. now rewrite count_none_app, count_none_somes, count_none_evs. Qed.

Definition erase_st (s : prd bufio) : prd bufio := pmap_st erase_bufio s.

Lemma cat_evs_erase evs : cat_evs (erase_gaps evs) = cat_evs evs.
Proof. unfold erase_gaps. induction evs as [|[b|] evs IH]; cbn [filter is_chunk cat_evs]; [reflexivity| |exact IH]. now rewrite IH. Qed.
Lemma fl_erase s : fl (erase_bufio s) = fl s.
Proof. unfold fl, flatten, erase_bufio, erase_conn. cbn [b_buf b_conn c_evs c_tl]. now rewrite cat_evs_erase. Qed.
Lemma pmap_fl_erase s : pmap_st fl (erase_st s) = pmap_st fl s.
Proof. unfold erase_st, pmap_st. cbn [p_raw p_data p_pos p_comp]. now rewrite fl_erase. Qed.
Lemma no_timeouts_erase evs : no_timeouts (erase_gaps evs).
Proof. unfold erase_gaps. induction evs as [|[b|] evs IH]; cbn [filter is_chunk]; [constructor| |exact IH]. constructor; [discriminate|exact IH]. Qed.
Lemma count_gaps_erase evs : count_gaps (erase_gaps evs) = O.
Proof. unfold count_gaps, erase_gaps. induction evs as [|[b|] evs IH]; cbn [filter is_chunk negb]; auto. Qed.

Section Layered.
Variable H : bytes -> N * N.
Variable decomp : N -> bytes -> N -> option bytes.
Context {X R : Type}.
Variable body : X -> N -> rd (X * step R).

(* the layered reader against the reference: the loop on the flat stream (the bytes, the error that ends them) *)
Theorem recv_st_gaps_L orc x (s : prd bufio) :
  gaps_at_boundaries H decomp body x (pmap_st gfl s) ->
  (forall f, snd (recv_st_F H decomp body f x (pmap_st fl s)) <> RFuel ->
   forall g, (f + count_gaps (c_evs (b_conn (p_raw s))) <= g)%nat ->
   res_map fl (recv_st_L orc H decomp body g x s) = recv_st_F H decomp body f x (pmap_st fl s)) /\
  (forall g, snd (recv_st_L orc H decomp body g x s) <> RFuel ->
   res_map fl (recv_st_L orc H decomp body g x s) = recv_st_F H decomp body g x (pmap_st fl s)).
Proof.
  intros Hgab. split.
  - intros f HF g Hg. rewrite <- res_map_gstrip_gfl, recv_st_L_G, <- pmap_gstrip_gfl.
    apply (recv_st_gaps_G_up H decomp body x _ Hgab).
    + rewrite pmap_gstrip_gfl. exact HF.
    + cbn [pmap_st p_raw]. rewrite count_none_gfl. exact Hg.
  - intros g HG. rewrite <- res_map_gstrip_gfl, recv_st_L_G, <- pmap_gstrip_gfl.
    apply (recv_st_gaps_G_down H decomp body x _ Hgab).
    rewrite <- (recv_st_L_G orc). unfold res_map. cbn [snd]. intros E. apply rr_map_fuel in E. contradiction.
Qed.

Lemma gab_erased x (s : prd bufio) : c_armed (b_conn (p_raw s)) = false ->
  gaps_at_boundaries H decomp body x (pmap_st gfl (erase_st s)).
Proof.
  intros Ha. apply gab_none; [exact Ha|].
  cbn [pmap_st erase_st p_raw gfl g_items erase_bufio erase_conn b_buf b_conn c_evs].
  apply Forall_app. split; [apply no_none_somes|apply no_none_evs, no_timeouts_erase].
Qed.

(* the layered reader on the events against the layered reader on erase_gaps of the events (any other oracle) *)
Theorem recv_st_erase_gaps_thm orc orc' x (s : prd bufio) :
  c_armed (b_conn (p_raw s)) = false ->
  gaps_at_boundaries H decomp body x (pmap_st gfl s) ->
  (forall f, snd (recv_st_L orc' H decomp body f x (erase_st s)) <> RFuel ->
   forall g, (f + count_gaps (c_evs (b_conn (p_raw s))) <= g)%nat ->
   res_map fl (recv_st_L orc H decomp body g x s) = res_map fl (recv_st_L orc' H decomp body f x (erase_st s))) /\
  (forall g, snd (recv_st_L orc H decomp body g x s) <> RFuel ->
   res_map fl (recv_st_L orc H decomp body g x s) = res_map fl (recv_st_L orc' H decomp body g x (erase_st s))).
Proof.
  intros Ha Hgab.
  destruct (recv_st_gaps_L orc x s Hgab) as [Up Down].
  destruct (recv_st_gaps_L orc' x (erase_st s) (gab_erased x s Ha)) as [Up' Down'].
  rewrite pmap_fl_erase in Up', Down'.
  assert (Hz : count_gaps (c_evs (b_conn (p_raw (erase_st s)))) = O) by apply count_gaps_erase.
  rewrite Hz in Up'. split.
  - intros f HF g Hg. rewrite (Down' f HF). apply Up; [|exact Hg].
    rewrite <- (Down' f HF). unfold res_map. cbn [snd]. intros E. apply rr_map_fuel in E. contradiction.
  - intros g HG. rewrite (Down g HG). symmetry. apply Up'; [|lia].
    rewrite <- (Down g HG). unfold res_map. cbn [snd]. intros E. apply rr_map_fuel in E. contradiction.
Qed.

(* the premise on the shape of the stream alone *)
Theorem recv_st_gaps_shape_thm orc orc' x (s : prd bufio) :
  handlers_leave_compression_off H decomp body ->
  c_armed (b_conn (p_raw s)) = false -> p_comp s = false ->
  gaps_shape (g_items (gfl (p_raw s))) = true ->
  (forall f, snd (recv_st_L orc' H decomp body f x (erase_st s)) <> RFuel ->
   forall g, (f + count_gaps (c_evs (b_conn (p_raw s))) <= g)%nat ->
   res_map fl (recv_st_L orc H decomp body g x s) = res_map fl (recv_st_L orc' H decomp body f x (erase_st s))) /\
  (forall g, snd (recv_st_L orc H decomp body g x s) <> RFuel ->
   res_map fl (recv_st_L orc H decomp body g x s) = res_map fl (recv_st_L orc' H decomp body g x (erase_st s))).
Proof.
  intros Hoff Ha Hc Hs. apply recv_st_erase_gaps_thm; [exact Ha|].
  apply (gaps_shape_gab H decomp body Hoff (length (g_items (gfl (p_raw s))))).
  - cbn [pmap_st p_raw]. lia.
  - split; [exact Ha|exact Hc].
  - exact Hs.
Qed.
End Layered.

(* Stream.recv_L, the loop with stateless handlers *)
Theorem recv_L_erase_gaps_thm H d {R} (body : N -> rd (step R)) orc orc' (s : prd bufio) :
  c_armed (b_conn (p_raw s)) = false ->
  gaps_at_boundaries H d (lift_body body) tt (pmap_st gfl s) ->
  (forall f, recv_L orc' H d body f (erase_st s) <> RFuel ->
   forall g, (f + count_gaps (c_evs (b_conn (p_raw s))) <= g)%nat ->
   rr_map fl (recv_L orc H d body g s) = rr_map fl (recv_L orc' H d body f (erase_st s))) /\
  (forall g, recv_L orc H d body g s <> RFuel ->
   rr_map fl (recv_L orc H d body g s) = rr_map fl (recv_L orc' H d body g (erase_st s))).
Proof.
  intros Ha Hgab. destruct (recv_st_erase_gaps_thm H d (lift_body body) orc orc' tt s Ha Hgab) as [Up Down].
  unfold recv_L. split.
  - intros f HF g Hg. rewrite !recv_loop_is_recv_st in *.
    exact (f_equal snd (Up f HF g Hg)).
  - intros g HG. rewrite !recv_loop_is_recv_st in *. exact (f_equal snd (Down g HG)).
Qed.

Lemma lift_body_comp_off H d {R} (body : N -> rd (step R)) :
  (forall code (s : prd gflat), p_comp s = false -> comp_off (run_G H d (body code) s)) ->
  handlers_leave_compression_off H d (lift_body body).
Proof.
  intros Hb x code s Hc. unfold lift_body, r_pmap, run_G. rewrite run_rbind.
  specialize (Hb code s Hc). unfold run_G in Hb.
  destruct (run gflat rfull_G avail_G H d (body code) s); cbn [run comp_off] in *; auto.
Qed.

Theorem recv_L_gaps_shape_thm H d {R} (body : N -> rd (step R)) orc orc' (s : prd bufio) :
  (forall code (s : prd gflat), p_comp s = false -> comp_off (run_G H d (body code) s)) ->
  c_armed (b_conn (p_raw s)) = false -> p_comp s = false ->
  gaps_shape (g_items (gfl (p_raw s))) = true ->
  (forall f, recv_L orc' H d body f (erase_st s) <> RFuel ->
   forall g, (f + count_gaps (c_evs (b_conn (p_raw s))) <= g)%nat ->
   rr_map fl (recv_L orc H d body g s) = rr_map fl (recv_L orc' H d body f (erase_st s))) /\
  (forall g, recv_L orc H d body g s <> RFuel ->
   rr_map fl (recv_L orc H d body g s) = rr_map fl (recv_L orc' H d body g (erase_st s))).
Proof.
  intros Hb Ha Hc Hs. apply recv_L_erase_gaps_thm; [exact Ha|].
  apply (gaps_shape_gab H d (lift_body body) (lift_body_comp_off H d body Hb) (length (g_items (gfl (p_raw s))))).
  - cbn [pmap_st p_raw]. lia.
  - split; [exact Ha|exact Hc].
  - exact Hs.
Qed.

(* the initial states: a fresh connection over the events / over the erased events *)
Lemma erase_st_init evs tl : erase_st (p_init (conn_init evs tl)) = p_init (conn_init (erase_gaps evs) tl).
Proof. reflexivity. Qed.
Lemma gfl_init evs tl : pmap_st gfl (p_init (conn_init evs tl)) = mkG (g_evs evs) tl false [] 0.
Proof. reflexivity. Qed.
