(* C06: decoding any in-memory byte string never panics and never requests memory beyond the
   library's own caps ([Crash] is the model of both), for every column type tree. *)
From CH Require Import model.Columns model.ColState model.Fields proofs.PrimProofs proofs.ColumnsProofs proofs.ColumnsProofs2
  proofs.ColStateProofs proofs.ColStateProofs2.
From CH Require Import gen.Codes gen.Consts.
From Coq Require Import ZifyN ZifyNat ZifyBool.
Ltac Zify.zify_post_hook ::= Z.div_mod_to_equations.
Open Scope N_scope.
Open Scope list_scope.

Definition nocrash {A} (p : parser A) : Prop := forall s, wfl s -> is_crash (p s) = false.

Lemma nocrash_ret {A} (a : A) : nocrash (ret a). Proof. intros s _. reflexivity. Qed.
Lemma nocrash_fail {A} e : nocrash (@fail A e). Proof. intros s _. reflexivity. Qed.
Lemma nocrash_bind {A B} (p : parser A) (f : A -> parser B) :
  nocrash p -> keeps p -> (forall a, nocrash (f a)) -> nocrash (bind p f).
Proof.
  intros Hp Hk Hf s Hs. unfold bind. specialize (Hp s Hs).
  destruct (p s) as [a r|e|c] eqn:E; try reflexivity; [|discriminate].
  apply Hf. eapply Hk; eassumption.
Qed.
Lemma nocrash_pmap {A B} (f : A -> B) p : nocrash p -> keeps p -> nocrash (pmap f p).
Proof. intros H K. apply nocrash_bind; [assumption|assumption|intros; apply nocrash_ret]. Qed.
Lemma nocrash_if {A} (b : bool) (p q : parser A) : nocrash p -> nocrash q -> nocrash (if b then p else q).
Proof. destruct b; auto. Qed.

Lemma nocrash_alloc n : n <= alloc_cap -> nocrash (alloc n).
Proof. intros H s _. now rewrite alloc_small. Qed.
Lemma nocrash_read_nN n : nocrash (read_nN n).
Proof. intros s _. unfold read_nN, read_n. destruct (n <=? blen s); [|reflexivity]. destruct (Nat.leb _ _); reflexivity. Qed.
Lemma nocrash_read_rawN n : n <= alloc_cap -> nocrash (read_rawN n).
Proof.
  intros H. apply nocrash_bind; [now apply nocrash_alloc|apply keeps_alloc|intros; apply nocrash_read_nN].
Qed.
Lemma nocrash_read_raw n : N.of_nat n <= alloc_cap -> nocrash (read_raw n).
Proof.
  intros H. apply nocrash_bind; [now apply nocrash_alloc|apply keeps_alloc|].
  intros _ s _. unfold read_n. destruct (Nat.leb _ _); reflexivity.
Qed.

Lemma alloc_cap_val : alloc_cap = 51201048576. Proof. reflexivity. Qed.

Lemma nocrash_dec_fix w n : (w <= 512)%nat -> n <= max_rows -> nocrash (dec_fix w n).
Proof.
  intros Hw Hn. unfold dec_fix. apply nocrash_if; [apply nocrash_ret|].
  apply nocrash_bind; [|apply keeps_read_rawN|intros; apply nocrash_ret].
  apply nocrash_read_rawN. rewrite alloc_cap_val. unfold max_rows, maxRowsInBLock in Hn. nia.
Qed.

Lemma get_uv_nocrash f : forall i acc s, is_crash (get_uv f i acc s) = false.
Proof.
  induction f as [|f IH]; intros i acc s; cbn [get_uv]; [reflexivity|].
  destruct s as [|b s]; [reflexivity|]. destruct (b <? 128).
  - destruct ((i =? 9) && (1 <? b)); reflexivity.
  - apply IH.
Qed.
Lemma nocrash_get_uv f i acc : nocrash (get_uv f i acc).
Proof. intros s _. apply get_uv_nocrash. Qed.
Lemma nocrash_uvarint : nocrash uvarint. Proof. apply nocrash_get_uv. Qed.
Lemma nocrash_get_int : nocrash get_int. Proof. apply nocrash_pmap; [apply nocrash_uvarint|apply keeps_get_uv]. Qed.
Lemma nocrash_strlen : nocrash strlen.
Proof.
  apply nocrash_bind; [apply nocrash_get_int|apply keeps_get_int|].
  intros z. apply nocrash_if; [apply nocrash_fail|apply nocrash_ret].
Qed.
Lemma nocrash_get_str : nocrash get_str.
Proof.
  apply nocrash_bind; [apply nocrash_strlen|apply keeps_strlen|]. intros n.
  apply nocrash_bind; [|apply keeps_alloc|intros; apply nocrash_read_nN].
  apply nocrash_alloc. rewrite alloc_cap_val. unfold str_chunk. lia.
Qed.
Lemma nocrash_get_u64 : nocrash get_u64.
Proof. apply nocrash_pmap; [|apply keeps_read_raw]. apply nocrash_read_raw. rewrite alloc_cap_val. lia. Qed.
Lemma nocrash_get_i64 : nocrash get_i64. Proof. apply nocrash_pmap; [apply nocrash_get_u64|apply keeps_get_u64]. Qed.

Lemma nocrash_rep {A} n (p : parser A) : nocrash p -> keeps p -> nocrash (rep n p).
Proof.
  intros Hp Hk. induction n as [|n IH]; cbn [rep]; [apply nocrash_ret|].
  apply nocrash_bind; [assumption|assumption|]. intros x.
  apply nocrash_bind; [assumption|now apply keeps_rep|intros; apply nocrash_ret].
Qed.
Lemma nocrash_repN {A} n (p : parser A) : nocrash p -> keeps p -> nocrash (repN n p).
Proof.
  intros Hp Hk s Hs. unfold repN. destruct (n <=? blen s).
  - now apply nocrash_rep.
  - pose proof (nocrash_rep (length s) p Hp Hk s Hs) as H. destruct (rep (length s) p s); [reflexivity|reflexivity|exact H].
Qed.
Lemma nocrash_check_rows z : nocrash (check_rows z).
Proof. unfold check_rows. apply nocrash_if; [apply nocrash_fail|]. apply nocrash_if; [apply nocrash_fail|apply nocrash_ret]. Qed.
Lemma check_rows_bound z s n r : check_rows z s = Ok n r -> n <= max_rows.
Proof.
  unfold check_rows, max_rows, maxRowsInBLock. destruct (z <? 0)%Z eqn:E1; [discriminate|].
  destruct (100000000 <? z)%Z eqn:E2; [discriminate|]. intros H. inversion H. lia.
Qed.

Lemma nocrash_dec_seq {T D} (f : T -> parser D) ts :
  Forall (fun t => nocrash (f t) /\ keeps (f t)) ts -> nocrash (dec_seq f ts).
Proof.
  induction 1 as [|t0 ts' [H0 K0] Hts IH]; cbn [dec_seq]; [apply nocrash_ret|].
  apply nocrash_bind; [exact H0|exact K0|]. intros d0.
  apply nocrash_bind; [exact IH| |intros; apply nocrash_ret].
  apply keeps_dec_seq. eapply Forall_impl; [|exact Hts]. intros t [_ K]. exact K.
Qed.

(* element widths within the widest generated codec: the by-design allocation rows x width stays
   within [alloc_cap] = row cap x 512 bytes *)
Fixpoint widths_ok (t : ty) : bool :=
  match t with
  | TFix _ w => Nat.leb w 512
  | TFixedStr n => Nat.leb n 512
  | TEnum _ w _ => Nat.leb w 512
  | TArr t' | TNullable t' | TLowCard t' | TNamed _ t' => widths_ok t'
  | TMap k v => widths_ok k && widths_ok v
  | TTuple ts => forallb widths_ok ts
  | _ => true
  end.

Lemma lc_key_valid k irows : k < 18446744073709551616 ->
  ((to_i64 (k mod 2 ^ 64) <? irows)%Z && (0 <=? to_i64 (k mod 2 ^ 64))%Z) = true -> (Z.of_N k < irows)%Z.
Proof.
  intros Hk H.
  assert (Hm : k mod 2 ^ 64 = k) by (apply N.mod_small; exact Hk).
  rewrite Hm in H. clear Hm.
  apply andb_true_iff in H as [H1 H2]. apply Z.ltb_lt in H1. apply Z.leb_le in H2.
  destruct (N.lt_ge_cases k (2 ^ 63)) as [Hs|Hl].
  - rewrite (to_i64_small k Hs) in H1. exact H1.
  - exfalso. unfold to_i64, to_signed in H2.
    replace (k <? 2 ^ (64 - 1)) with false in H2 by (symmetry; apply N.ltb_ge; exact Hl).
    change (Z.of_N 64) with 64%Z in H2. change (2 ^ 64)%Z with 18446744073709551616%Z in H2. lia.
Qed.

Lemma c16_ty_inv_arr t : c16_ty (TArr t) = true -> c16_ty t = true. Proof. unfold c16_ty. cbn. auto. Qed.

Theorem dec_nocrash : forall t, c16_ty t = true -> widths_ok t = true ->
  forall b n, okb b t = true -> n <= max_rows -> nocrash (dec b t n).
Proof.
  induction t as [name w| | | | |sz| | |name w defs|t IH|t IH|t IH|k v IHk IHv|ts IH|name t IH] using ty_ind';
    intros Hc Hw b n Hb Hn; cbn [dec].
  - cbn [widths_ok] in Hw. apply Nat.leb_le in Hw.
    apply nocrash_pmap; [now apply nocrash_dec_fix|apply keeps_dec_fix].
  - apply nocrash_pmap; [|apply keeps_dec_bool].
    assert (Hr : nocrash (read_rawN n)) by (apply nocrash_read_rawN; rewrite alloc_cap_val; unfold max_rows, maxRowsInBLock in Hn; lia).
    destruct b; unfold dec_bool.
    + apply nocrash_bind; [exact Hr|apply keeps_read_rawN|]. intros bs. apply nocrash_if; [apply nocrash_ret|apply nocrash_fail].
    + apply nocrash_if; [apply nocrash_ret|exact Hr].
  - assert (Hr : nocrash (read_rawN (n * 16))) by (apply nocrash_read_rawN; rewrite alloc_cap_val; unfold max_rows, maxRowsInBLock in Hn; lia).
    destruct b.
    + apply nocrash_bind; [exact Hr|apply keeps_read_rawN|intros; apply nocrash_ret].
    + apply nocrash_if; [apply nocrash_ret|]. apply nocrash_bind; [exact Hr|apply keeps_read_rawN|intros; apply nocrash_ret].
  - apply nocrash_pmap; [apply nocrash_repN; [apply nocrash_get_str|apply keeps_get_str]|apply keeps_repN, keeps_get_str].
  - apply nocrash_pmap; [apply nocrash_repN; [apply nocrash_get_str|apply keeps_get_str]|apply keeps_repN, keeps_get_str].
  - cbn [widths_ok] in Hw. apply Nat.leb_le in Hw.
    destruct sz; [apply nocrash_if; [apply nocrash_fail|apply nocrash_ret]|].
    apply nocrash_pmap; [|apply keeps_read_rawN]. apply nocrash_read_rawN.
    rewrite alloc_cap_val. unfold max_rows, maxRowsInBLock in Hn. nia.
  - apply nocrash_if; [apply nocrash_ret|].
    apply nocrash_bind; [|apply keeps_read_rawN|intros; apply nocrash_ret].
    apply nocrash_read_rawN. rewrite alloc_cap_val. unfold max_rows, maxRowsInBLock in Hn. lia.
  - apply nocrash_bind; [now apply nocrash_dec_fix; [lia|]|apply keeps_dec_fix|]. intros xs.
    apply nocrash_bind; [now apply nocrash_dec_fix; [lia|]|apply keeps_dec_fix|intros; apply nocrash_ret].
  - cbn [widths_ok] in Hw. apply Nat.leb_le in Hw.
    apply nocrash_bind; [now apply nocrash_dec_fix|apply keeps_dec_fix|]. intros raw.
    destruct (mapM _ raw); [apply nocrash_ret|apply nocrash_fail].
  - (* Array *)
    apply nocrash_bind; [apply nocrash_dec_fix; [lia|assumption]|apply keeps_dec_fix|]. intros offs.
    apply nocrash_if; [apply nocrash_fail|].
    intros s Hs. unfold bind. destruct (check_rows (to_i64 (last_or0 offs)) s) as [size r|e|c] eqn:E; try reflexivity.
    2:{ pose proof (nocrash_check_rows (to_i64 (last_or0 offs)) s Hs) as H. now rewrite E in H. }
    pose proof (check_rows_bound _ _ _ _ E) as Hsz.
    assert (Hr : wfl r) by (eapply keeps_check_rows; eassumption).
    pose proof (IH (c16_ty_inv_arr _ Hc) Hw b size Hb Hsz r Hr) as Hi.
    destruct (dec b t size r); [reflexivity|reflexivity|discriminate].
  - (* Nullable *)
    assert (Hc' : c16_ty t = true).
    { unfold c16_ty in *. cbn [wf_ty tuples_ok] in Hc. apply andb_true_iff in Hc as [H1 H2].
      now rewrite H1, H2. }
    apply nocrash_bind; [apply nocrash_dec_fix; [lia|assumption]|apply keeps_dec_fix|]. intros nulls.
    apply nocrash_bind; [now apply IH|apply keeps_dec|intros; apply nocrash_ret].
  - (* LowCardinality *)
    assert (Hc' : c16_ty t = true /\ lc_elem t = true).
    { unfold c16_ty in *. cbn [wf_ty tuples_ok] in Hc. apply andb_true_iff in Hc as [H1 H2].
      apply andb_true_iff in H1 as [H1 H1']. now rewrite H1, H2. }
    destruct Hc' as [Hc' Hlc]. cbn [widths_ok] in Hw.
    intros s Hs. destruct (n =? 0); [reflexivity|]. unfold bind.
    pose proof (nocrash_get_i64 s Hs) as H0.
    destruct (get_i64 s) as [meta r0|e|c] eqn:E0; [|reflexivity|discriminate].
    assert (Hr0 : wfl r0) by (eapply keeps_get_i64; eassumption). cbv zeta.
    destruct (negb (N.testbit (wrap64 meta) 9)); [reflexivity|].
    destruct (3 <? wrap64 meta mod 256) eqn:Ekey; [reflexivity|].
    pose proof (nocrash_get_i64 r0 Hr0) as H1.
    destruct (get_i64 r0) as [irows r1|e|c] eqn:E1; [|reflexivity|discriminate].
    assert (Hr1 : wfl r1) by (eapply keeps_get_i64; eassumption).
    pose proof (nocrash_check_rows irows r1 Hr1) as H2.
    destruct (check_rows irows r1) as [isz r2|e|c] eqn:E2; [|reflexivity|discriminate].
    assert (Hr2 : wfl r2) by (eapply keeps_check_rows; eassumption).
    pose proof (check_rows_bound _ _ _ _ E2) as Hisz.
    assert (Hiszv : isz = Z.to_N irows /\ (0 <= irows)%Z).
    { unfold check_rows in E2. destruct (irows <? 0)%Z eqn:En; [discriminate|].
      destruct (maxRowsInBLock <? irows)%Z; [discriminate|]. inversion E2. split; [reflexivity|lia]. }
    destruct Hiszv as [Hiszv Hirows].
    pose proof (IH Hc' Hw b isz Hb Hisz r2 Hr2) as H3.
    destruct (dec b t isz r2) as [idx r3|e|c] eqn:E3; [|reflexivity|discriminate].
    assert (Hr3 : wfl r3) by (eapply keeps_dec; eassumption).
    destruct (dec_good t Hc' b isz r2 idx r3 Hb Hr2 E3) as [Hgood [Hrows Hread]].
    pose proof (nocrash_get_i64 r3 Hr3) as H4.
    destruct (get_i64 r3) as [krows r4|e|c] eqn:E4; [|reflexivity|discriminate].
    assert (Hr4 : wfl r4) by (eapply keeps_get_i64; eassumption).
    pose proof (nocrash_check_rows krows r4 Hr4) as H5.
    destruct (check_rows krows r4) as [ksz r5|e|c] eqn:E5; [|reflexivity|discriminate].
    assert (Hr5 : wfl r5) by (eapply keeps_check_rows; eassumption).
    set (key := wrap64 meta mod 256) in *.
    assert (Hkw : (key_bytes key <= 8)%nat).
    { unfold key_bytes. assert (Hk3 : key <= 3) by lia.
      assert (Hp : 2 ^ key <= 2 ^ 3) by (apply N.pow_le_mono_r; lia). change (2 ^ 3) with 8 in Hp. lia. }
    pose proof (nocrash_dec_fix (key_bytes key) n ltac:(lia) Hn r5 Hr5) as H6.
    destruct (dec_fix (key_bytes key) n r5) as [keys r6|e|c] eqn:E6; [|reflexivity|discriminate].
    destruct (negb (forallb _ keys)) eqn:Ev; [reflexivity|].
    apply negb_false_iff in Ev. rewrite forallb_forall in Ev.
    assert (Hkeys : Forall (fun v => v < 256 ^ N.of_nat (key_bytes key)) keys).
    { assert (Hd : dec Safe (TFix [] (key_bytes key)) n r5 = Ok (DFix keys) r6)
        by (cbn [dec]; unfold pmap, bind; now rewrite E6).
      destruct (dec_ok_fix [] (key_bytes key) Safe n r5 (DFix keys) r6 eq_refl Hr5 Hd) as [Hg _]. exact Hg. }
    assert (Hm : mapM (fun k => row t idx (N.to_nat k)) keys <> None).
    { apply mapM_some. intros k Hk. apply Hread. unfold nrows. rewrite Hrows.
      rewrite Forall_forall in Hkeys. specialize (Hkeys k Hk). specialize (Ev k Hk).
      assert (Hk64 : k < 18446744073709551616).
      { eapply N.lt_le_trans; [exact Hkeys|].
        apply (N.le_trans _ (256 ^ 8)); [apply N.pow_le_mono_r; lia|vm_compute; discriminate]. }
      pose proof (lc_key_valid k irows Hk64 Ev) as Hlt. lia. }
    destruct (mapM (fun k => row t idx (N.to_nat k)) keys); [reflexivity|contradiction].
  - (* Map *)
    assert (Hck : c16_ty k = true /\ c16_ty v = true).
    { unfold c16_ty in *. cbn [wf_ty tuples_ok] in Hc. apply andb_true_iff in Hc as [H1 H2].
      apply andb_true_iff in H1 as [H1 H1']. apply andb_true_iff in H2 as [H2 H2']. now rewrite H1, H1', H2, H2'. }
    destruct Hck as [Hck Hcv]. cbn [widths_ok] in Hw. apply andb_true_iff in Hw as [Hwk Hwv].
    assert (Hbk : okb b k = true /\ okb b v = true).
    { destruct b; [split; reflexivity|]. cbn [okb no_bool] in Hb |- *. now apply andb_true_iff in Hb. }
    destruct Hbk as [Hbk Hbv].
    apply nocrash_if; [apply nocrash_ret|].
    apply nocrash_bind; [apply nocrash_dec_fix; [lia|assumption]|apply keeps_dec_fix|]. intros offs.
    apply nocrash_if; [apply nocrash_fail|].
    intros s Hs. unfold bind. destruct (check_rows (to_i64 (last_or0 offs)) s) as [cnt r|e|c] eqn:E; try reflexivity.
    2:{ pose proof (nocrash_check_rows (to_i64 (last_or0 offs)) s Hs) as H. now rewrite E in H. }
    pose proof (check_rows_bound _ _ _ _ E) as Hsz.
    assert (Hr : wfl r) by (eapply keeps_check_rows; eassumption).
    pose proof (IHk Hck Hwk b cnt Hbk Hsz r Hr) as Hi.
    destruct (dec b k cnt r) as [dk r2|e|c] eqn:Ek; [|reflexivity|discriminate].
    assert (Hr2 : wfl r2) by (eapply keeps_dec; eassumption).
    pose proof (IHv Hcv Hwv b cnt Hbv Hsz r2 Hr2) as Hi2.
    destruct (dec b v cnt r2); [reflexivity|reflexivity|discriminate].
  - (* Tuple *)
    apply nocrash_pmap.
    2:{ apply keeps_dec_seq. apply Forall_forall. intros t0 _. apply keeps_dec. }
    apply nocrash_dec_seq. apply Forall_forall. intros t0 Hin.
    split; [|apply keeps_dec].
    rewrite Forall_forall in IH. apply IH; try assumption.
    + unfold c16_ty in *. cbn [wf_ty tuples_ok] in Hc. apply andb_true_iff in Hc as [H1 H2].
      rewrite forallb_forall in H1. rewrite (H1 _ Hin).
      destruct ts; [destruct Hin|]. cbn [negb andb] in H2. rewrite forallb_forall in H2. now rewrite (H2 _ Hin).
    + cbn [widths_ok] in Hw. rewrite forallb_forall in Hw. now apply Hw.
    + destruct b; [reflexivity|]. cbn [okb no_bool] in Hb |- *. rewrite forallb_forall in Hb. now apply Hb.
  - (* Named *)
    apply IH; try assumption.
Qed.

(* ---------- state prefixes and whole columns --------------------------------------------------- *)
Lemma keeps_unit_seq {T} (f : T -> parser unit) ts : Forall (fun t => keeps (f t)) ts -> keeps (unit_seq f ts).
Proof.
  induction 1 as [|t0 ts' H0 Hts IH]; cbn [unit_seq]; [apply keeps_ret|].
  apply keeps_bind; [exact H0|intros; exact IH].
Qed.

Lemma dec_state_safe t : nocrash (dec_state t) /\ keeps (dec_state t).
Proof.
  induction t as [name w| | | | |sz| | |name w defs|t IH|t IH|t IH|k v IHk IHv|ts IH|name t IH] using ty_ind';
    cbn [dec_state]; try (split; [apply nocrash_ret|apply keeps_ret]); try exact IH.
  - split.
    + apply nocrash_bind; [apply nocrash_get_u64|apply keeps_get_u64|]. intros v. apply nocrash_if; [apply nocrash_ret|apply nocrash_fail].
    + apply keeps_bind; [apply keeps_get_u64|]. intros v. apply keeps_if; [apply keeps_ret|apply keeps_fail].
  - destruct IH as [IH1 IH2]. split.
    + apply nocrash_bind; [apply nocrash_get_i64|apply keeps_get_i64|]. intros v. apply nocrash_if; [exact IH1|apply nocrash_fail].
    + apply keeps_bind; [apply keeps_get_i64|]. intros v. apply keeps_if; [exact IH2|apply keeps_fail].
  - destruct IHk as [K1 K2], IHv as [V1 V2]. split.
    + apply nocrash_bind; [exact K1|exact K2|intros; exact V1].
    + apply keeps_bind; [exact K2|intros; exact V2].
  - assert (Hk : Forall (fun t => keeps (dec_state t)) ts) by (eapply Forall_impl; [|exact IH]; intros t [_ K]; exact K).
    split; [|now apply keeps_unit_seq].
    clear Hk. induction IH as [|t0 ts' [H0 K0] Hts IHts]; cbn [unit_seq]; [apply nocrash_ret|].
    apply nocrash_bind; [exact H0|exact K0|intros; exact IHts].
Qed.

Theorem dec_column_nocrash : forall t, c16_ty t = true -> widths_ok t = true ->
  forall b n, okb b t = true -> n <= max_rows -> nocrash (dec_column b t n).
Proof.
  intros t Hc Hw b n Hb Hn. unfold dec_column. apply nocrash_if; [apply nocrash_ret|].
  destruct (dec_state_safe t) as [S1 S2].
  apply nocrash_bind; [exact S1|exact S2|]. intros _. now apply dec_nocrash.
Qed.

(* ---------- protocol messages --------------------------------------------------------------------- *)
Lemma keeps_get_u8 : keeps get_u8. Proof. apply keeps_pmap, keeps_read_raw. Qed.
Lemma keeps_get_u32 : keeps get_u32. Proof. apply keeps_pmap, keeps_read_raw. Qed.
Lemma keeps_get_i32 : keeps get_i32. Proof. apply keeps_pmap, keeps_get_u32. Qed.
Lemma keeps_get_bool : keeps get_bool.
Proof.
  apply keeps_bind; [apply keeps_get_u8|]. intros v. apply keeps_if; [apply keeps_ret|]. apply keeps_if; [apply keeps_ret|apply keeps_fail].
Qed.
Lemma small_raw n : (n <= 64)%nat -> nocrash (read_raw n).
Proof. intros H. apply nocrash_read_raw. rewrite alloc_cap_val. lia. Qed.
Lemma nocrash_get_u8 : nocrash get_u8. Proof. apply nocrash_pmap; [apply small_raw; lia|apply keeps_read_raw]. Qed.
Lemma nocrash_get_u32 : nocrash get_u32. Proof. apply nocrash_pmap; [apply small_raw; lia|apply keeps_read_raw]. Qed.
Lemma nocrash_get_i32 : nocrash get_i32. Proof. apply nocrash_pmap; [apply nocrash_get_u32|apply keeps_get_u32]. Qed.
Lemma nocrash_get_bool : nocrash get_bool.
Proof.
  apply nocrash_bind; [apply nocrash_get_u8|apply keeps_get_u8|]. intros v.
  apply nocrash_if; [apply nocrash_ret|]. apply nocrash_if; [apply nocrash_ret|apply nocrash_fail].
Qed.

Lemma dec_field_safe k : nocrash (dec_field k) /\ keeps (dec_field k).
Proof.
  destruct k; cbn [dec_field].
  - split; [apply nocrash_pmap; [apply nocrash_get_str|apply keeps_get_str]|apply keeps_pmap, keeps_get_str].
  - split; [apply nocrash_pmap; [apply nocrash_get_int|apply keeps_get_int]|apply keeps_pmap, keeps_get_int].
  - split; [apply nocrash_pmap; [apply nocrash_uvarint|apply keeps_get_uv]|apply keeps_pmap, keeps_get_uv].
  - split; [apply nocrash_pmap; [apply nocrash_get_u8|apply keeps_get_u8]|apply keeps_pmap, keeps_get_u8].
  - split.
    + apply nocrash_bind; [apply nocrash_get_u8|apply keeps_get_u8|]. intros n. apply nocrash_if; [apply nocrash_ret|apply nocrash_fail].
    + apply keeps_bind; [apply keeps_get_u8|]. intros n. apply keeps_if; [apply keeps_ret|apply keeps_fail].
  - split.
    + apply nocrash_bind; [apply nocrash_uvarint|apply keeps_get_uv|]. intros n. cbv zeta. apply nocrash_if; [apply nocrash_ret|apply nocrash_fail].
    + apply keeps_bind; [apply keeps_get_uv|]. intros n. cbv zeta. apply keeps_if; [apply keeps_ret|apply keeps_fail].
  - split; [apply nocrash_pmap; [apply nocrash_get_i32|apply keeps_get_i32]|apply keeps_pmap, keeps_get_i32].
  - split; [apply nocrash_pmap; [apply nocrash_get_i64|apply keeps_get_i64]|apply keeps_pmap, keeps_get_i64].
  - split; [apply nocrash_pmap; [apply nocrash_get_bool|apply keeps_get_bool]|apply keeps_pmap, keeps_get_bool].
  - split; [apply nocrash_pmap; [apply nocrash_get_int|apply keeps_get_int]|apply keeps_pmap, keeps_get_int].
  - split.
    + apply nocrash_bind; [apply nocrash_get_bool|apply keeps_get_bool|]. intros has. apply nocrash_if; [|apply nocrash_ret].
      apply nocrash_bind; [apply small_raw; lia|apply keeps_read_raw|]. intros t.
      apply nocrash_bind; [apply small_raw; lia|apply keeps_read_raw|]. intros s.
      apply nocrash_bind; [apply nocrash_get_str|apply keeps_get_str|]. intros st.
      apply nocrash_bind; [apply nocrash_get_u8|apply keeps_get_u8|]. intros fl. apply nocrash_ret.
    + apply keeps_bind; [apply keeps_get_bool|]. intros has. apply keeps_if; [|apply keeps_ret].
      apply keeps_bind; [apply keeps_read_raw|]. intros t.
      apply keeps_bind; [apply keeps_read_raw|]. intros s.
      apply keeps_bind; [apply keeps_get_str|]. intros st.
      apply keeps_bind; [apply keeps_get_u8|]. intros fl. apply keeps_ret.
Qed.

Theorem decode_fields_nocrash v l : nocrash (decode_fields v l) /\ keeps (decode_fields v l).
Proof.
  induction l as [|f l [IH1 IH2]]; cbn [decode_fields]; [split; [apply nocrash_ret|apply keeps_ret]|].
  assert (Hf : nocrash (if gate_in v (fgates f) then dec_field (fk f) else ret (default_of (fk f))) /\
               keeps (if gate_in v (fgates f) then dec_field (fk f) else ret (default_of (fk f)))).
  { destruct (gate_in v (fgates f)); [apply dec_field_safe|split; [apply nocrash_ret|apply keeps_ret]]. }
  destruct Hf as [F1 F2]. split.
  - apply nocrash_bind; [exact F1|exact F2|]. intros x. apply nocrash_bind; [exact IH1|exact IH2|intros; apply nocrash_ret].
  - apply keeps_bind; [exact F2|]. intros x. apply keeps_bind; [exact IH2|intros; apply keeps_ret].
Qed.
