(* Round trips and monotonicity of the L1 primitives. *)
From CH Require Import model.Prim.
From Coq Require Import ZifyN ZifyNat ZifyBool.
Ltac Zify.zify_post_hook ::= Z.div_mod_to_equations.
Open Scope N_scope.

(* ---------- little endian ------------------------------------------------ *)
Lemma le_put_length k v : length (le_put k v) = k.
Proof. revert v; induction k as [|k IH]; intros v; cbn [le_put length]; [reflexivity|now rewrite IH]. Qed.

Lemma le_put_wf k v : wf_bytes (le_put k v).
Proof.
  revert v; induction k as [|k IH]; intros v; cbn [le_put]; constructor.
  - apply N.mod_lt; lia.
  - apply IH.
Qed.

Lemma le_get_put k v : le_get (le_put k v) = v mod 256 ^ N.of_nat k.
Proof.
  revert v; induction k as [|k IH]; intros v.
  - cbn [le_put le_get]. change (256 ^ N.of_nat 0) with 1. now rewrite N.mod_1_r.
  - cbn [le_put le_get]. rewrite IH.
    replace (N.of_nat (S k)) with (N.succ (N.of_nat k)) by lia.
    rewrite N.pow_succ_r'.
    assert (H : 256 ^ N.of_nat k <> 0) by (apply N.pow_nonzero; lia).
    rewrite (N.mod_mul_r v 256 (256 ^ N.of_nat k)) by lia.
    reflexivity.
Qed.

Lemma le_get_put_small k v : v < 256 ^ N.of_nat k -> le_get (le_put k v) = v.
Proof. intros H. rewrite le_get_put. now apply N.mod_small. Qed.

Lemma le_get_bound b : wf_bytes b -> le_get b < 256 ^ N.of_nat (length b).
Proof.
  induction 1 as [|x b Hx Hb IH].
  - cbv; reflexivity.
  - change (length (x :: b)) with (S (length b)). rewrite Nat2N.inj_succ, N.pow_succ_r'.
    cbn [le_get]. cbv beta in Hx. set (P := 256 ^ N.of_nat (length b)) in *. lia.
Qed.

Lemma le_put_get b : wf_bytes b -> le_put (length b) (le_get b) = b.
Proof.
  induction 1 as [|x b Hx Hb IH]; cbn [le_get length le_put]; [reflexivity|].
  cbv beta in Hx. f_equal.
  - lia.
  - replace ((x + 256 * le_get b) / 256) with (le_get b) by lia. exact IH.
Qed.

(* ---------- two's complement -------------------------------------------- *)
Lemma to_i64_wrap z : in_i64 z -> to_i64 (wrap64 z) = z.
Proof.
  unfold in_i64, to_i64, wrap64, to_signed, wrapN. intros H.
  change (Z.of_N 64) with 64%Z. change (2 ^ (64 - 1)) with 9223372036854775808.
  destruct (Z.to_N (z mod 2 ^ 64) <? 9223372036854775808) eqn:E; lia.
Qed.
Lemma to_i32_wrap z : in_i32 z -> to_i32 (wrap32 z) = z.
Proof.
  unfold in_i32, to_i32, wrap32, to_signed, wrapN. intros H.
  change (Z.of_N 32) with 32%Z. change (2 ^ (32 - 1)) with 2147483648.
  destruct (Z.to_N (z mod 2 ^ 32) <? 2147483648) eqn:E; lia.
Qed.
Lemma wrap64_lt z : wrap64 z < 2 ^ 64.
Proof. unfold wrap64, wrapN. change (Z.of_N 64) with 64%Z. lia. Qed.
Lemma wrap32_lt z : wrap32 z < 2 ^ 32.
Proof. unfold wrap32, wrapN. change (Z.of_N 32) with 32%Z. lia. Qed.
Lemma in_i64b_spec z : in_i64b z = true <-> in_i64 z.
Proof. unfold in_i64b, in_i64. lia. Qed.
Lemma in_i32b_spec z : in_i32b z = true <-> in_i32 z.
Proof. unfold in_i32b, in_i32. lia. Qed.

(* ---------- wf_bytes ------------------------------------------------------ *)
Lemma wf_bytesb_spec b : wf_bytesb b = true <-> wf_bytes b.
Proof.
  unfold wf_bytesb, wf_bytes. rewrite forallb_forall, Forall_forall.
  split; intros H x Hx; specialize (H x Hx); lia.
Qed.
Lemma wf_app a b : wf_bytes a -> wf_bytes b -> wf_bytes (a ++ b).
Proof. unfold wf_bytes. intros; now apply Forall_app. Qed.

(* ---------- reading n bytes ------------------------------------------------ *)
Lemma read_n_app a rest : read_n (length a) (a ++ rest) = Ok a rest.
Proof.
  unfold read_n. rewrite app_length.
  replace (Nat.leb (length a) (length a + length rest)) with true by (symmetry; apply Nat.leb_le; lia).
  rewrite firstn_app, skipn_app, Nat.sub_diag, firstn_all, skipn_all. cbn. now rewrite app_nil_r.
Qed.

Lemma read_n_app' n a rest : n = length a -> read_n n (a ++ rest) = Ok a rest.
Proof. intros ->. apply read_n_app. Qed.

Lemma read_nN_app a rest : read_nN (blen a) (a ++ rest) = Ok a rest.
Proof.
  unfold read_nN, blen. rewrite app_length.
  replace (N.of_nat (length a) <=? N.of_nat (length a + length rest)) with true by lia.
  rewrite Nat2N.id. apply read_n_app.
Qed.

Lemma alloc_small n s : n <= alloc_cap -> alloc n s = Ok tt s.
Proof. unfold alloc, alloc_ok. intros H. replace (n <=? alloc_cap) with true by lia. reflexivity. Qed.

Lemma read_raw_app n a rest :
  n = length a -> N.of_nat n <= alloc_cap -> read_raw n (a ++ rest) = Ok a rest.
Proof.
  intros -> H. unfold read_raw, bind. rewrite alloc_small by assumption. apply read_n_app.
Qed.

(* ---------- uvarint --------------------------------------------------------- *)
Lemma get_uv_put f : forall i acc n rest extra,
  n < 128 ^ N.of_nat (S f) -> (N.to_nat i + f <= 9)%nat -> n * 2 ^ (7 * i) < 2 ^ 64 ->
  get_uv (S f + extra) i acc (put_uv f n ++ rest) = Ok (acc + n * 2 ^ (7 * i)) rest.
Proof.
  induction f as [|f IH]; intros i acc n rest extra Hn Hi Hb.
  - cbn [put_uv app Nat.add get_uv].
    change (128 ^ N.of_nat 1) with 128 in Hn.
    replace (n <? 128) with true by lia.
    destruct ((i =? 9) && (1 <? n)) eqn:E; [|reflexivity].
    exfalso. apply andb_true_iff in E as [E1 E2].
    apply N.eqb_eq in E1; subst i. change (2 ^ (7 * 9)) with 9223372036854775808 in Hb.
    change (2 ^ 64) with 18446744073709551616 in Hb. lia.
  - cbn [put_uv]. destruct (n <? 128) eqn:E.
    + cbn [app Nat.add get_uv]. rewrite E.
      destruct ((i =? 9) && (1 <? n)) eqn:E'; [|reflexivity].
      exfalso. apply andb_true_iff in E' as [E1 E2]. apply N.eqb_eq in E1; subst i. lia.
    + change (S (S f) + extra)%nat with (S (S f + extra)).
      cbn [app get_uv].
      replace (n mod 128 + 128 <? 128) with false by lia.
      replace (n mod 128 + 128 - 128) with (n mod 128) by lia.
      assert (Hpow : 2 ^ (7 * (i + 1)) = 128 * 2 ^ (7 * i)).
      { replace (7 * (i + 1)) with (7 + 7 * i) by lia. now rewrite N.pow_add_r. }
      rewrite IH.
      * f_equal. rewrite Hpow.
        pose proof (N.div_mod n 128 ltac:(lia)) as Hdm.
        nia.
      * replace (N.of_nat (S (S f))) with (N.succ (N.of_nat (S f))) in Hn by lia.
        rewrite N.pow_succ_r' in Hn.
        apply N.div_lt_upper_bound; lia.
      * lia.
      * rewrite Hpow. pose proof (N.div_mod n 128 ltac:(lia)). nia.
Qed.

Lemma uvarint_put n rest : n < 2 ^ 64 -> uvarint (put_uvarint n ++ rest) = Ok n rest.
Proof.
  intros H. unfold uvarint, put_uvarint. rewrite N.mod_small by assumption.
  change 10%nat with (S 9 + 0)%nat.
  rewrite get_uv_put.
  - f_equal. change (2 ^ (7 * 0)) with 1. lia.
  - change (128 ^ N.of_nat 10) with 1180591620717411303424.
    change (2 ^ 64) with 18446744073709551616 in H. lia.
  - cbn; lia.
  - change (2 ^ (7 * 0)) with 1. lia.
Qed.

Lemma put_uv_wf f n : n < 128 ^ N.of_nat (S f) -> wf_bytes (put_uv f n).
Proof.
  revert n; induction f as [|f IH]; intros n Hn; cbn [put_uv].
  - change (128 ^ N.of_nat 1) with 128 in Hn. constructor; [lia|constructor].
  - destruct (n <? 128) eqn:E.
    + constructor; [lia|constructor].
    + constructor; [lia|]. apply IH.
      replace (N.of_nat (S (S f))) with (N.succ (N.of_nat (S f))) in Hn by lia.
      rewrite N.pow_succ_r' in Hn. apply N.div_lt_upper_bound; lia.
Qed.
Lemma put_uvarint_wf n : wf_bytes (put_uvarint n).
Proof.
  unfold put_uvarint. apply put_uv_wf.
  change (128 ^ N.of_nat 10) with 1180591620717411303424.
  pose proof (N.mod_lt n (2 ^ 64) ltac:(discriminate)) as H.
  change (2 ^ 64) with 18446744073709551616 in *. lia.
Qed.

Lemma put_uv_nonempty f n : put_uv f n <> [].
Proof. destruct f; cbn [put_uv]; [discriminate|destruct (n <? 128); discriminate]. Qed.

Lemma get_int_put z rest : in_i64 z -> get_int (put_int z ++ rest) = Ok z rest.
Proof.
  intros H. unfold get_int, put_int, pmap, bind, ret.
  rewrite uvarint_put by apply wrap64_lt. now rewrite to_i64_wrap.
Qed.

Lemma to_i64_small n : n < 2 ^ 63 -> to_i64 n = Z.of_N n.
Proof.
  unfold to_i64, to_signed. intros H. change (2 ^ (64 - 1)) with (2 ^ 63).
  now replace (n <? 2 ^ 63) with true by lia.
Qed.

Lemma strlen_put n rest : n < 2 ^ 63 -> strlen (put_uvarint n ++ rest) = Ok n rest.
Proof.
  intros H. unfold strlen, get_int, pmap, bind, ret.
  rewrite uvarint_put by (change (2 ^ 63) with 9223372036854775808 in H; change (2 ^ 64) with 18446744073709551616; lia).
  rewrite to_i64_small by assumption.
  replace (Z.of_N n <? 0)%Z with false by lia.
  now rewrite N2Z.id.
Qed.

Definition str_ok (s : bytes) : Prop := wf_bytes s /\ blen s < 2 ^ 63.

Lemma get_str_put s rest : blen s < 2 ^ 63 -> get_str (put_str s ++ rest) = Ok s rest.
Proof.
  intros H. unfold get_str, put_str, bind. rewrite <- app_assoc.
  rewrite strlen_put by assumption.
  rewrite alloc_small.
  - apply read_nN_app.
  - unfold str_chunk, alloc_cap. lia.
Qed.

(* ---------- fixed-width ints --------------------------------------------------- *)
Lemma get_le_put k v rest :
  N.of_nat k <= alloc_cap -> v < 256 ^ N.of_nat k ->
  pmap le_get (read_raw k) (le_put k v ++ rest) = Ok v rest.
Proof.
  intros Hk Hv. unfold pmap, bind, ret.
  rewrite read_raw_app by (try assumption; now rewrite le_put_length).
  now rewrite le_get_put_small.
Qed.

Lemma get_u8_put v rest : v < 256 -> get_u8 (put_u8 v ++ rest) = Ok v rest.
Proof. intros; apply get_le_put; [cbv; discriminate|assumption]. Qed.
Lemma get_u16_put v rest : v < 2 ^ 16 -> get_u16 (put_u16 v ++ rest) = Ok v rest.
Proof. intros; apply get_le_put; [cbv; discriminate|assumption]. Qed.
Lemma get_u32_put v rest : v < 2 ^ 32 -> get_u32 (put_u32 v ++ rest) = Ok v rest.
Proof. intros; apply get_le_put; [cbv; discriminate|assumption]. Qed.
Lemma get_u64_put v rest : v < 2 ^ 64 -> get_u64 (put_u64 v ++ rest) = Ok v rest.
Proof. intros; apply get_le_put; [cbv; discriminate|assumption]. Qed.
Lemma get_u128_put v rest : v < 2 ^ 128 -> get_u128 (put_u128 v ++ rest) = Ok v rest.
Proof. intros; apply get_le_put; [cbv; discriminate|assumption]. Qed.

Lemma get_i32_put z rest : in_i32 z -> get_i32 (put_i32 z ++ rest) = Ok z rest.
Proof.
  intros H. unfold get_i32, put_i32, pmap, bind, ret.
  fold (pmap le_get (read_raw 4)). fold get_u32.
  rewrite get_u32_put by apply wrap32_lt. now rewrite to_i32_wrap.
Qed.
Lemma get_i64_put z rest : in_i64 z -> get_i64 (put_i64 z ++ rest) = Ok z rest.
Proof.
  intros H. unfold get_i64, put_i64, pmap, bind, ret.
  fold (pmap le_get (read_raw 8)). fold get_u64.
  rewrite get_u64_put by apply wrap64_lt. now rewrite to_i64_wrap.
Qed.
Lemma get_bool_put b rest : get_bool (put_bool b ++ rest) = Ok b rest.
Proof. destruct b; reflexivity. Qed.

(* ---------- monotonicity: a successful parse did not look past what it consumed --- *)
Definition mono {A} (p : parser A) : Prop :=
  forall s a r more, p s = Ok a r -> p (s ++ more) = Ok a (r ++ more).

Lemma mono_ret {A} (a : A) : mono (ret a).
Proof. intros s a' r more H; inversion H; reflexivity. Qed.
Lemma mono_fail {A} e : mono (@fail A e).
Proof. intros s a r more H; discriminate. Qed.
Lemma mono_bind {A B} (p : parser A) (f : A -> parser B) :
  mono p -> (forall a, mono (f a)) -> mono (bind p f).
Proof.
  intros Hp Hf s b r more H. unfold bind in *.
  destruct (p s) as [a s'|e|c] eqn:E; try discriminate.
  rewrite (Hp _ _ _ more E). now apply Hf.
Qed.
Lemma mono_pmap {A B} (f : A -> B) p : mono p -> mono (pmap f p).
Proof. intros H. apply mono_bind; [assumption|intros; apply mono_ret]. Qed.
Lemma mono_if {A} (b : bool) (p q : parser A) : mono p -> mono q -> mono (if b then p else q).
Proof. destruct b; auto. Qed.

Lemma mono_alloc n : mono (alloc n).
Proof.
  intros s a r more H. unfold alloc, alloc_ok in *.
  destruct ((n <=? alloc_cap) || (n <=? 2 * N.of_nat (length s) + 4096)) eqn:E; [|discriminate].
  inversion H; subst. rewrite app_length.
  replace ((n <=? alloc_cap) || (n <=? 2 * N.of_nat (length r + length more) + 4096)) with true; [reflexivity|].
  symmetry. apply orb_true_iff. apply orb_true_iff in E. destruct E; [left|right]; lia.
Qed.
Lemma mono_read_n n : mono (read_n n).
Proof.
  intros s a r more H. unfold read_n in *.
  destruct (Nat.leb n (length s)) eqn:E; [|discriminate]. apply Nat.leb_le in E.
  inversion H; subst. rewrite app_length.
  replace (Nat.leb n (length s + length more)) with true by (symmetry; apply Nat.leb_le; lia).
  rewrite firstn_app, skipn_app.
  replace (n - length s)%nat with 0%nat by lia. cbn [firstn skipn]. now rewrite app_nil_r.
Qed.
Lemma mono_read_nN n : mono (read_nN n).
Proof.
  intros s a r more H. unfold read_nN in *.
  destruct (n <=? blen s) eqn:E; [|discriminate].
  unfold blen in *. rewrite app_length.
  replace (n <=? N.of_nat (length s + length more)) with true by lia.
  now apply mono_read_n.
Qed.
Lemma mono_read_byte : mono read_byte.
Proof. intros [|b s] a r more H; [discriminate|]. inversion H; reflexivity. Qed.
Lemma mono_read_raw n : mono (read_raw n).
Proof. apply mono_bind; [apply mono_alloc|intros; apply mono_read_n]. Qed.
Lemma mono_get_uv f : forall i acc, mono (get_uv f i acc).
Proof.
  induction f as [|f IH]; intros i acc s a r more H; [discriminate|].
  destruct s as [|b s]; [discriminate|]. cbn [get_uv app] in *.
  destruct (b <? 128).
  - destruct ((i =? 9) && (1 <? b)); [discriminate|]. inversion H; reflexivity.
  - now apply IH.
Qed.
Lemma mono_uvarint : mono uvarint.
Proof. apply mono_get_uv. Qed.
Lemma mono_get_int : mono get_int.
Proof. apply mono_pmap, mono_uvarint. Qed.
Lemma mono_strlen : mono strlen.
Proof. apply mono_bind; [apply mono_get_int|]. intros z. apply mono_if; [apply mono_fail|apply mono_ret]. Qed.
Lemma mono_get_str : mono get_str.
Proof.
  apply mono_bind; [apply mono_strlen|]. intros n.
  apply mono_bind; [apply mono_alloc|]. intros _. apply mono_read_nN.
Qed.
Lemma mono_get_u8 : mono get_u8. Proof. apply mono_pmap, mono_read_raw. Qed.
Lemma mono_get_u16 : mono get_u16. Proof. apply mono_pmap, mono_read_raw. Qed.
Lemma mono_get_u32 : mono get_u32. Proof. apply mono_pmap, mono_read_raw. Qed.
Lemma mono_get_u64 : mono get_u64. Proof. apply mono_pmap, mono_read_raw. Qed.
Lemma mono_get_u128 : mono get_u128. Proof. apply mono_pmap, mono_read_raw. Qed.
Lemma mono_get_i32 : mono get_i32. Proof. apply mono_pmap, mono_get_u32. Qed.
Lemma mono_get_i64 : mono get_i64. Proof. apply mono_pmap, mono_get_u64. Qed.
Lemma mono_get_bool : mono get_bool.
Proof.
  apply mono_bind; [apply mono_get_u8|]. intros v.
  repeat apply mono_if; try apply mono_ret; apply mono_fail.
Qed.
Lemma mono_rep {A} n (p : parser A) : mono p -> mono (rep n p).
Proof.
  intros Hp. induction n as [|n IH]; cbn [rep]; [apply mono_ret|].
  apply mono_bind; [assumption|]. intros x. apply mono_bind; [assumption|]. intros xs. apply mono_ret.
Qed.

(* ---------- primitives never report fuel exhaustion ---------------------------------- *)
Definition nofuel {A} (p : parser A) : Prop := forall s, p s <> Err EFuel.
Lemma nofuel_ret {A} (a : A) : nofuel (ret a). Proof. intros s; discriminate. Qed.
Lemma nofuel_fail {A} e : e <> EFuel -> nofuel (@fail A e).
Proof. intros H s E; inversion E; contradiction. Qed.
Lemma nofuel_bind {A B} (p : parser A) (f : A -> parser B) :
  nofuel p -> (forall a, nofuel (f a)) -> nofuel (bind p f).
Proof.
  intros Hp Hf s. unfold bind. specialize (Hp s).
  destruct (p s) as [a s'|e|c]; [apply Hf|congruence|discriminate].
Qed.
Lemma nofuel_pmap {A B} (f : A -> B) p : nofuel p -> nofuel (pmap f p).
Proof. intros H. apply nofuel_bind; [assumption|intros; apply nofuel_ret]. Qed.
Lemma nofuel_if {A} (b : bool) (p q : parser A) : nofuel p -> nofuel q -> nofuel (if b then p else q).
Proof. destruct b; auto. Qed.
Lemma nofuel_alloc n : nofuel (alloc n).
Proof. intros s. unfold alloc. destruct (alloc_ok n (length s)); discriminate. Qed.
Lemma nofuel_read_n n : nofuel (read_n n).
Proof. intros s. unfold read_n. destruct (Nat.leb n (length s)); discriminate. Qed.
Lemma nofuel_read_nN n : nofuel (read_nN n).
Proof. intros s. unfold read_nN. destruct (n <=? blen s); [apply nofuel_read_n|discriminate]. Qed.
Lemma nofuel_read_raw n : nofuel (read_raw n).
Proof. apply nofuel_bind; [apply nofuel_alloc|intros; apply nofuel_read_n]. Qed.
Lemma nofuel_get_uv f : forall i acc, nofuel (get_uv f i acc).
Proof.
  induction f as [|f IH]; intros i acc s; [discriminate|].
  destruct s as [|b s]; [discriminate|]. cbn [get_uv].
  destruct (b <? 128); [destruct ((i =? 9) && (1 <? b)); discriminate|apply IH].
Qed.
Lemma nofuel_uvarint : nofuel uvarint. Proof. apply nofuel_get_uv. Qed.
Lemma nofuel_get_int : nofuel get_int. Proof. apply nofuel_pmap, nofuel_uvarint. Qed.
Lemma nofuel_strlen : nofuel strlen.
Proof.
  apply nofuel_bind; [apply nofuel_get_int|]. intros z.
  apply nofuel_if; [apply nofuel_fail; discriminate|apply nofuel_ret].
Qed.
Lemma nofuel_get_str : nofuel get_str.
Proof.
  apply nofuel_bind; [apply nofuel_strlen|]. intros n.
  apply nofuel_bind; [apply nofuel_alloc|]. intros _. apply nofuel_read_nN.
Qed.
Lemma nofuel_get_u8 : nofuel get_u8. Proof. apply nofuel_pmap, nofuel_read_raw. Qed.
Lemma nofuel_get_u16 : nofuel get_u16. Proof. apply nofuel_pmap, nofuel_read_raw. Qed.
Lemma nofuel_get_u32 : nofuel get_u32. Proof. apply nofuel_pmap, nofuel_read_raw. Qed.
Lemma nofuel_get_u64 : nofuel get_u64. Proof. apply nofuel_pmap, nofuel_read_raw. Qed.
Lemma nofuel_get_i32 : nofuel get_i32. Proof. apply nofuel_pmap, nofuel_get_u32. Qed.
Lemma nofuel_get_i64 : nofuel get_i64. Proof. apply nofuel_pmap, nofuel_get_u64. Qed.
Lemma nofuel_get_bool : nofuel get_bool.
Proof.
  apply nofuel_bind; [apply nofuel_get_u8|]. intros v.
  repeat apply nofuel_if; try apply nofuel_ret. apply nofuel_fail; discriminate.
Qed.

(* ---------- decoders never read backwards: the rest is a suffix no longer than the input -- *)
Definition shrinks {A} (p : parser A) : Prop :=
  forall s a r, p s = Ok a r -> (length r <= length s)%nat.
Lemma shrinks_ret {A} (a : A) : shrinks (ret a).
Proof. intros s a' r H; inversion H; subst; lia. Qed.
Lemma shrinks_fail {A} e : shrinks (@fail A e). Proof. intros s a r H; discriminate. Qed.
Lemma shrinks_bind {A B} (p : parser A) (f : A -> parser B) :
  shrinks p -> (forall a, shrinks (f a)) -> shrinks (bind p f).
Proof.
  intros Hp Hf s b r H. unfold bind in H. destruct (p s) as [a s'|e|c] eqn:E; try discriminate.
  apply Hp in E. apply Hf in H. lia.
Qed.
Lemma shrinks_pmap {A B} (f : A -> B) p : shrinks p -> shrinks (pmap f p).
Proof. intros H. apply shrinks_bind; [assumption|intros; apply shrinks_ret]. Qed.
Lemma shrinks_if {A} (b : bool) (p q : parser A) : shrinks p -> shrinks q -> shrinks (if b then p else q).
Proof. destruct b; auto. Qed.
Lemma shrinks_alloc n : shrinks (alloc n).
Proof. intros s a r H. unfold alloc in H. destruct (alloc_ok _ _); inversion H; subst; lia. Qed.
Lemma shrinks_read_n n : shrinks (read_n n).
Proof.
  intros s a r H. unfold read_n in H. destruct (Nat.leb n (length s)); inversion H; subst.
  rewrite skipn_length. lia.
Qed.
Lemma shrinks_read_nN n : shrinks (read_nN n).
Proof.
  intros s a r H. unfold read_nN in H. destruct (n <=? blen s); [|discriminate].
  now apply shrinks_read_n in H.
Qed.
Lemma shrinks_read_raw n : shrinks (read_raw n).
Proof. apply shrinks_bind; [apply shrinks_alloc|intros; apply shrinks_read_n]. Qed.
Lemma get_uv_consumes f : forall i acc s n r,
  get_uv f i acc s = Ok n r -> (length r < length s)%nat.
Proof.
  induction f as [|f IH]; intros i acc s n r H; [discriminate|].
  destruct s as [|b s]; [discriminate|]. cbn [get_uv] in H.
  destruct (b <? 128).
  - destruct ((i =? 9) && (1 <? b)); [discriminate|]. inversion H; subst. cbn; lia.
  - apply IH in H. cbn; lia.
Qed.
Lemma uvarint_consumes s n r : uvarint s = Ok n r -> (length r < length s)%nat.
Proof. apply get_uv_consumes. Qed.
Lemma shrinks_uvarint : shrinks uvarint.
Proof. intros s a r H. apply uvarint_consumes in H. lia. Qed.
Lemma shrinks_get_int : shrinks get_int. Proof. apply shrinks_pmap, shrinks_uvarint. Qed.
Lemma shrinks_strlen : shrinks strlen.
Proof.
  apply shrinks_bind; [apply shrinks_get_int|]. intros z.
  apply shrinks_if; [apply shrinks_fail|apply shrinks_ret].
Qed.
Lemma shrinks_get_str : shrinks get_str.
Proof.
  apply shrinks_bind; [apply shrinks_strlen|]. intros n.
  apply shrinks_bind; [apply shrinks_alloc|]. intros _. apply shrinks_read_nN.
Qed.
Lemma get_str_consumes s a r : get_str s = Ok a r -> (length r < length s)%nat.
Proof.
  unfold get_str, strlen, get_int, pmap. unfold bind at 1 2 3. 
  destruct (uvarint s) as [n s1|e|c] eqn:E; try discriminate.
  apply uvarint_consumes in E. unfold ret at 1.
  destruct (to_i64 n <? 0)%Z; [discriminate|]. unfold ret at 1.
  intros H.
  assert (Hs : shrinks (bind (alloc (N.min (Z.to_N (to_i64 n)) str_chunk)) (fun _ => read_nN (Z.to_N (to_i64 n)))))
    by (apply shrinks_bind; [apply shrinks_alloc|intros; apply shrinks_read_nN]).
  apply Hs in H. lia.
Qed.
Lemma shrinks_get_u8 : shrinks get_u8. Proof. apply shrinks_pmap, shrinks_read_raw. Qed.
Lemma shrinks_get_u32 : shrinks get_u32. Proof. apply shrinks_pmap, shrinks_read_raw. Qed.
Lemma shrinks_get_u64 : shrinks get_u64. Proof. apply shrinks_pmap, shrinks_read_raw. Qed.
Lemma shrinks_get_i32 : shrinks get_i32. Proof. apply shrinks_pmap, shrinks_get_u32. Qed.
Lemma shrinks_get_i64 : shrinks get_i64. Proof. apply shrinks_pmap, shrinks_get_u64. Qed.
Lemma shrinks_get_bool : shrinks get_bool.
Proof.
  apply shrinks_bind; [apply shrinks_get_u8|]. intros v.
  repeat apply shrinks_if; try apply shrinks_ret. apply shrinks_fail.
Qed.

(* ---------- prefix rejection, once and for all ------------------------------------ *)
(* If a monotone decoder consumes an encoding exactly, it rejects every proper prefix. *)
Theorem prefix_rejected {A} (p : parser A) (enc : bytes) (a : A) :
  mono p -> p enc = Ok a [] ->
  forall pre suf, enc = pre ++ suf -> suf <> [] -> is_ok (p pre) = false.
Proof.
  intros Hm Henc pre suf -> Hs.
  destruct (p pre) as [a' r'|e|c] eqn:E; try reflexivity.
  exfalso. rewrite (Hm _ _ _ suf E) in Henc. inversion Henc as [[Ha Hr]].
  apply app_eq_nil in Hr as [_ Hr]. contradiction.
Qed.

Corollary prefix_rejected_firstn {A} (p : parser A) (enc : bytes) (a : A) :
  mono p -> p enc = Ok a [] ->
  forall k, (k < length enc)%nat -> is_ok (p (firstn k enc)) = false.
Proof.
  intros Hm Henc k Hk.
  apply (prefix_rejected p enc a Hm Henc (firstn k enc) (skipn k enc)).
  - now rewrite firstn_skipn.
  - intros H. apply (f_equal (@length _)) in H. rewrite skipn_length in H. cbn in H. lia.
Qed.
