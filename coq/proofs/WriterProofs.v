(* C14: the vectored writer refines "concatenate, in call order, everything appended or chained
   since the previous flush", for every history inside the ChainBuffer contract, every
   reallocation behaviour and every sink. *)
From CH Require Import model.Writer.
From Coq Require Import ZifyNat ZifyBool.
Open Scope nat_scope.

(* ---------- lists by positions ------------------------------------------ *)
Lemma nth_firstn_lt {X} (l : list X) n i x : i < n -> nth i (firstn n l) x = nth i l x.
Proof.
  revert n i; induction l as [|y l IH]; intros n i Hi.
  - now rewrite firstn_nil.
  - destruct n as [|n]; [lia|]. destruct i as [|i]; cbn [firstn nth]; [reflexivity|]. apply IH; lia.
Qed.

Lemma nth_skipn_plus {X} (l : list X) n i x : nth i (skipn n l) x = nth (n + i) l x.
Proof.
  revert n; induction l as [|y l IH]; intros n.
  - rewrite skipn_nil. destruct (n + i); destruct i; reflexivity.
  - destruct n as [|n]; cbn [skipn plus nth]; [reflexivity|]. apply IH.
Qed.

Lemma list_eq_nth {X} (d : X) (l1 l2 : list X) :
  length l1 = length l2 -> (forall i, i < length l1 -> nth i l1 d = nth i l2 d) -> l1 = l2.
Proof.
  revert l2; induction l1 as [|x l1 IH]; intros [|y l2] HL H; cbn [length] in *; try lia; [reflexivity|].
  f_equal.
  - apply (H 0); lia.
  - apply IH; [lia|]. intros i Hi. apply (H (S i)); lia.
Qed.

Lemma length_list_upd {X} (l : list X) i x : length (list_upd l i x) = length l.
Proof. revert i; induction l as [|y l IH]; intros [|i]; cbn [list_upd length]; auto. Qed.

Lemma nth_list_upd_eq {X} (l : list X) i x d : i < length l -> nth i (list_upd l i x) d = x.
Proof.
  revert i; induction l as [|y l IH]; intros [|i] H; cbn [list_upd nth length] in *; try lia; auto.
  apply IH; lia.
Qed.

Lemma nth_list_upd_neq {X} (l : list X) i j x d : i <> j -> nth j (list_upd l i x) d = nth j l d.
Proof.
  revert i j; induction l as [|y l IH]; intros [|i] [|j] H; cbn [list_upd nth]; try reflexivity; try lia.
  apply IH; lia.
Qed.

Lemma list_upd_same {X} (l : list X) i d : list_upd l i (nth i l d) = l.
Proof.
  revert i; induction l as [|y l IH]; intros [|i]; cbn [list_upd nth]; try reflexivity.
  now rewrite IH.
Qed.

(* ---------- arrays ------------------------------------------------------- *)
Lemma length_arr_read a o l : o + l <= length a -> length (arr_read a o l) = l.
Proof. intros H. unfold arr_read. rewrite firstn_length, skipn_length. lia. Qed.

Lemma nth_arr_read a o l i x : i < l -> nth i (arr_read a o l) x = nth (o + i) a x.
Proof. intros H. unfold arr_read. rewrite nth_firstn_lt by lia. apply nth_skipn_plus. Qed.

Lemma length_arr_write a p d : p + length d <= length a -> length (arr_write a p d) = length a.
Proof. intros H. unfold arr_write. rewrite !app_length, firstn_length, skipn_length. lia. Qed.

Lemma nth_arr_write a p d i (x : N) : p + length d <= length a ->
  nth i (arr_write a p d) x =
  if i <? p then nth i a x else if i <? p + length d then nth (i - p) d x else nth i a x.
Proof.
  intros H. unfold arr_write.
  assert (HF : length (firstn p a) = p) by (rewrite firstn_length; lia).
  destruct (i <? p) eqn:E1.
  - rewrite app_nth1 by lia. apply nth_firstn_lt; lia.
  - rewrite app_nth2 by lia. rewrite HF.
    destruct (i <? p + length d) eqn:E2.
    + rewrite app_nth1 by lia. reflexivity.
    + rewrite app_nth2 by lia. rewrite nth_skipn_plus. f_equal. lia.
Qed.

Lemma arr_write_nil a p : arr_write a p [] = a.
Proof. unfold arr_write. cbn [length app]. rewrite Nat.add_0_r. apply firstn_skipn. Qed.

(* bytes below the write position are not touched *)
Lemma arr_read_write_below a p d o l :
  p + length d <= length a -> o + l <= p -> arr_read (arr_write a p d) o l = arr_read a o l.
Proof.
  intros H1 H2. apply (list_eq_nth 0%N).
  - rewrite !length_arr_read; rewrite ?length_arr_write; lia.
  - intros i Hi. rewrite length_arr_read in Hi by (rewrite length_arr_write; lia).
    rewrite !nth_arr_read by lia. rewrite nth_arr_write by lia.
    destruct (o + i <? p) eqn:E; [reflexivity|lia].
Qed.

(* a write inside a window shows as the same write inside the window's contents *)
Lemma arr_read_write_inside a p d o l :
  o <= p -> p + length d <= o + l -> o + l <= length a ->
  arr_read (arr_write a p d) o l = arr_write (arr_read a o l) (p - o) d.
Proof.
  intros H1 H2 H3. apply (list_eq_nth 0%N).
  - rewrite length_arr_read by (rewrite length_arr_write; lia).
    rewrite length_arr_write; rewrite length_arr_read; lia.
  - intros i Hi. rewrite length_arr_read in Hi by (rewrite length_arr_write; lia).
    rewrite nth_arr_read by lia. rewrite nth_arr_write by lia.
    rewrite nth_arr_write by (rewrite length_arr_read; lia).
    destruct (o + i <? p) eqn:E1; destruct (i <? p - o) eqn:E1'; try lia.
    + now rewrite nth_arr_read by lia.
    + destruct (o + i <? p + length d) eqn:E2; destruct (i <? p - o + length d) eqn:E2'; try lia.
      * f_equal; lia.
      * now rewrite nth_arr_read by lia.
Qed.

(* appending at the end of a window extends the window's contents *)
Lemma arr_read_write_end a o l d :
  o + l + length d <= length a ->
  arr_read (arr_write a (o + l) d) o (l + length d) = arr_read a o l ++ d.
Proof.
  intros H. apply (list_eq_nth 0%N).
  - rewrite app_length, !length_arr_read; rewrite ?length_arr_write; lia.
  - intros i Hi. rewrite length_arr_read in Hi by (rewrite length_arr_write; lia).
    rewrite nth_arr_read by lia. rewrite nth_arr_write by lia.
    destruct (o + i <? o + l) eqn:E1.
    + rewrite app_nth1 by (rewrite length_arr_read; lia). now rewrite nth_arr_read by lia.
    + rewrite app_nth2 by (rewrite length_arr_read; lia). rewrite length_arr_read by lia.
      destruct (o + i <? o + l + length d) eqn:E2; [f_equal|]; lia.
Qed.

(* the array a reallocating append builds *)
Lemma arr_read_realloc a len d extra o l :
  len <= length a -> o + l <= len ->
  arr_read (firstn len a ++ d ++ repeat 0%N extra) o l = arr_read a o l.
Proof.
  intros H1 H2. apply (list_eq_nth 0%N).
  - rewrite !length_arr_read; rewrite ?app_length, ?firstn_length; lia.
  - intros i Hi. rewrite length_arr_read in Hi by (rewrite app_length, firstn_length; lia).
    rewrite !nth_arr_read by lia.
    rewrite app_nth1 by (rewrite firstn_length; lia). apply nth_firstn_lt; lia.
Qed.

Lemma arr_read_realloc_end a len d extra o l :
  len <= length a -> o + l = len ->
  arr_read (firstn len a ++ d ++ repeat 0%N extra) o (l + length d) = arr_read a o l ++ d.
Proof.
  intros H1 H2. apply (list_eq_nth 0%N).
  - rewrite app_length, !length_arr_read; rewrite ?app_length, ?firstn_length, ?app_length; lia.
  - intros i Hi.
    rewrite length_arr_read in Hi by (rewrite app_length, firstn_length, app_length; lia).
    rewrite nth_arr_read by lia.
    assert (HF : length (firstn len a) = len) by (rewrite firstn_length; lia).
    destruct (i <? l) eqn:E.
    + rewrite app_nth1 by lia. rewrite app_nth1 by (rewrite length_arr_read; lia).
      rewrite nth_firstn_lt by lia. now rewrite nth_arr_read by lia.
    + rewrite app_nth2 by lia. rewrite HF. rewrite app_nth1 by lia.
      rewrite app_nth2 by (rewrite length_arr_read; lia). rewrite length_arr_read by lia.
      f_equal; lia.
Qed.

Lemma arr_read_firstn a o l m : m <= l -> firstn m (arr_read a o l) = arr_read a o m.
Proof. intros H. unfold arr_read. rewrite firstn_firstn. f_equal. lia. Qed.

Lemma arr_read_0 a o : arr_read a o 0 = [].
Proof. reflexivity. Qed.

Lemma harr_upd_eq h a x : a < length h -> harr (list_upd h a x) a = x.
Proof. intros H. unfold harr. now apply nth_list_upd_eq. Qed.
Lemma harr_upd_neq h a b x : a <> b -> harr (list_upd h a x) b = harr h b.
Proof. intros H. unfold harr. now apply nth_list_upd_neq. Qed.
Lemma harr_app_old h x a : a < length h -> harr (h ++ [x]) a = harr h a.
Proof. intros H. unfold harr. now apply app_nth1. Qed.
Lemma harr_app_new h x : harr (h ++ [x]) (length h) = x.
Proof. unfold harr. rewrite app_nth2 by lia. now rewrite Nat.sub_diag. Qed.

(* ---------- the staging buffer under a ChainBuffer callback -------------- *)
Definition BI (h : heap_t) (b : bufr) (off : nat) (t : bytes) (v : list piece) (dn : list item) : Prop :=
  b_arr b < length h /\
  b_cap b <= length (harr h (b_arr b)) /\
  b_len b <= b_cap b /\
  off + length t = b_len b /\
  arr_read (harr h (b_arr b)) off (length t) = t /\
  Forall2 (piece_ok h (b_arr b) off) v dn.

Lemma Forall2_imp {X Y} (P Q : X -> Y -> Prop) l1 l2 :
  (forall x y, P x y -> Q x y) -> Forall2 P l1 l2 -> Forall2 Q l1 l2.
Proof. intros H F. induction F; constructor; auto. Qed.

(* what a change of memory has to respect for the chained pieces to stay what they are *)
Lemma piece_ok_frame h h' barr barr' off off' p i :
  length h <= length h' ->
  (forall a o l, a < length h -> o + l <= length (harr h a) -> (a = barr -> o + l <= off) ->
     o + l <= length (harr h' a) /\ arr_read (harr h' a) o l = arr_read (harr h a) o l /\
     (a = barr' -> o + l <= off')) ->
  piece_ok h barr off p i -> piece_ok h' barr' off' p i.
Proof.
  intros HL HF. destruct p as [a o l c|id], i as [b|id']; cbn [piece_ok]; try tauto.
  intros (H1 & H2 & H3 & H4 & H5).
  destruct (HF a o l H1 H3 H5) as (G1 & G2 & G3).
  repeat split; try assumption; try lia. now rewrite G2.
Qed.

Lemma bstep_ok h b off t v dn o t' :
  BI h b off t v dn -> sb_step off t o = Some t' ->
  exists h' b', bstep h b o = Some (h', b') /\ BI h' b' off t' v dn /\ length h <= length h'.
Proof.
  intros (I1 & I2 & I3 & I4 & I5 & I6) HS.
  destruct b as [arr len cap]. cbn [b_arr b_len b_cap] in *.
  set (a := harr h arr) in *.
  destruct o as [d force extra|start d|n]; cbn [sb_step bstep b_arr b_len b_cap] in *.
  - (* append *)
    injection HS as <-. unfold go_append. cbn [b_arr b_len b_cap]. fold a.
    destruct ((len + length d <=? cap) && negb force) eqn:E.
    + (* in place *)
      assert (Hfit : len + length d <= cap) by lia.
      eexists _, _. split; [reflexivity|]. split; [|rewrite length_list_upd; lia].
      unfold BI. cbn [b_arr b_len b_cap].
      rewrite length_list_upd, harr_upd_eq by assumption.
      rewrite length_arr_write by lia.
      repeat split; try lia.
      * rewrite app_length. lia.
      * rewrite app_length. replace len with (off + length t) by lia.
        rewrite arr_read_write_end by lia. now rewrite I5.
      * eapply Forall2_imp; [|exact I6]. intros p i. apply piece_ok_frame.
        { rewrite length_list_upd. lia. }
        intros a0 o l Ha0 Hol Hb. destruct (Nat.eq_dec a0 arr) as [->|Hne].
        -- rewrite harr_upd_eq by assumption. fold a in Hol. specialize (Hb eq_refl).
           rewrite length_arr_write by lia. rewrite arr_read_write_below by lia. fold a. auto.
        -- rewrite harr_upd_neq by congruence. repeat split; auto; congruence.
    + (* reallocation *)
      eexists _, _. split; [reflexivity|]. split; [|rewrite app_length; lia].
      unfold BI. cbn [b_arr b_len b_cap].
      rewrite harr_app_new, !app_length, firstn_length, repeat_length. cbn [length].
      repeat split; try lia.
      * replace (length t + length d) with (length t + length d) by lia.
        rewrite arr_read_realloc_end by lia. now rewrite I5.
      * eapply Forall2_imp; [|exact I6]. intros p i. apply piece_ok_frame.
        { rewrite app_length. lia. }
        intros a0 o l Ha0 Hol Hb. rewrite harr_app_old by assumption.
        repeat split; auto. lia.
  - (* rewrite inside the uncut tail *)
    destruct ((off <=? start) && (start <=? off + length t)) eqn:E; [|discriminate].
    injection HS as <-.
    assert (Hs : off <= start /\ start <= len) by lia.
    destruct (len <? start) eqn:E2; [lia|].
    eexists _, _. split; [reflexivity|]. split; [|rewrite length_list_upd; lia].
    replace (off + length t - start) with (len - start) by lia.
    set (d' := firstn (len - start) d).
    assert (Hd' : length d' <= len - start) by (unfold d'; rewrite firstn_length; lia).
    unfold BI. cbn [b_arr b_len b_cap]. fold a.
    rewrite length_list_upd, harr_upd_eq by assumption.
    rewrite length_arr_write by lia.
    assert (HT : length (arr_write t (start - off) d') = length t) by (apply length_arr_write; lia).
    rewrite HT.
    repeat split; try lia.
    + rewrite arr_read_write_inside by lia. now rewrite I5.
    + eapply Forall2_imp; [|exact I6]. intros p i. apply piece_ok_frame.
      { rewrite length_list_upd. lia. }
      intros a0 o l Ha0 Hol Hb. destruct (Nat.eq_dec a0 arr) as [->|Hne].
      * rewrite harr_upd_eq by assumption. fold a in Hol. specialize (Hb eq_refl).
        rewrite length_arr_write by lia. rewrite arr_read_write_below by lia. fold a. auto.
      * rewrite harr_upd_neq by congruence. repeat split; auto; congruence.
  - (* shrink the uncut tail *)
    destruct ((off <=? n) && (n <=? off + length t)) eqn:E; [|discriminate].
    injection HS as <-.
    destruct (cap <? n) eqn:E2; [lia|].
    eexists _, _. split; [reflexivity|]. split; [|lia].
    unfold BI. cbn [b_arr b_len b_cap]. fold a.
    assert (HT : length (firstn (n - off) t) = n - off) by (rewrite firstn_length; lia).
    rewrite HT. repeat split; try lia; try assumption.
    transitivity (firstn (n - off) (arr_read a off (length t))); [|now rewrite I5].
    rewrite arr_read_firstn by lia. reflexivity.
Qed.

Lemma brun_ok os : forall h b off t v dn t',
  BI h b off t v dn -> sb_run off t os = Some t' ->
  exists h' b', brun h b os = Some (h', b') /\ BI h' b' off t' v dn /\ length h <= length h'.
Proof.
  induction os as [|o os IH]; intros h b off t v dn t' HI HS; cbn [sb_run brun] in *.
  - injection HS as <-. eauto.
  - destruct (sb_step off t o) as [t1|] eqn:E; [|discriminate].
    destruct (bstep_ok _ _ _ _ _ _ _ _ HI E) as (h1 & b1 & -> & HI1 & HL1).
    destruct (IH _ _ _ _ _ _ _ HI1 HS) as (h2 & b2 & -> & HI2 & HL2).
    eexists _, _. split; [reflexivity|]. split; [assumption|lia].
Qed.

(* ---------- Writer methods ----------------------------------------------- *)
Lemma wrel_BI st s :
  wrel st s <->
  ext st = s_ext s /\ boff st = s_base s /\
  BI (heap st) (buf st) (boff st) (s_tail s) (vec st) (s_done s).
Proof. unfold wrel, BI. tauto. Qed.

Lemma close_tail_ext s : s_ext (close_tail s) = s_ext s.
Proof. destruct s as [e dn base [|x t]]; reflexivity. Qed.

Lemma close_tail_tail s : s_tail (close_tail s) = [].
Proof. destruct s as [e dn base [|x t]]; reflexivity. Qed.

Lemma expected_close s : expected (close_tail s) = expected s.
Proof.
  destruct s as [e dn base [|x t]]; [reflexivity|].
  unfold close_tail, expected. cbn [s_tail s_done s_ext].
  rewrite map_app, concat_app. cbn [map concat resolve]. now rewrite !app_nil_r.
Qed.

(* cutBuffer closes the tail *)
Lemma cut_ok st s : wrel st s ->
  exists st1, cut_buffer st = Some st1 /\ wrel st1 (close_tail s) /\
              heap st1 = heap st /\ ext st1 = ext st /\ buf st1 = buf st /\
              exists suffix, vec st1 = vec st ++ suffix.
Proof.
  intros (R1 & R2 & R3 & R4 & R5 & R6 & R7 & R8).
  destruct st as [h e b off v], s as [se dn base t]. cbn [heap ext buf boff vec s_ext s_done s_base s_tail] in *.
  unfold cut_buffer. cbn [heap ext buf boff vec].
  destruct (b_len b <? off) eqn:E; [lia|].
  replace (b_len b - off) with (length t) by lia.
  destruct t as [|x t].
  - cbn [length Nat.eqb]. eexists. split; [reflexivity|].
    split; [|repeat split; auto; exists []; now rewrite app_nil_r].
    unfold wrel, close_tail. cbn [heap ext buf boff vec s_ext s_done s_base s_tail length]. tauto.
  - cbn [length Nat.eqb]. eexists. split; [reflexivity|].
    split; [|repeat split; auto; eexists; reflexivity].
    unfold wrel, close_tail. cbn [heap ext buf boff vec s_ext s_done s_base s_tail length] in *.
    repeat split; try assumption; try lia.
    apply Forall2_app.
    + eapply Forall2_imp; [|exact R8]. intros p i. apply piece_ok_frame; [lia|].
      intros a0 o l Ha0 Hol Hb. repeat split; auto. intros ->. specialize (Hb eq_refl). lia.
    + constructor; [|constructor]. cbn [piece_ok]. repeat split; try assumption; try lia.
Qed.

Lemma chain_write_ok st s id : wrel st s ->
  exists st', chain_write st id = Some st' /\
    wrel st' (mks (s_ext (close_tail s)) (s_done (close_tail s) ++ [IExt id]) (s_base (close_tail s)) []).
Proof.
  intros HR. destruct (cut_ok _ _ HR) as (st1 & HC & HR1 & _).
  unfold chain_write. rewrite HC. eexists. split; [reflexivity|].
  pose proof (close_tail_tail s) as HT.
  destruct HR1 as (R1 & R2 & R3 & R4 & R5 & R6 & R7 & R8). rewrite HT in *.
  unfold wrel. cbn [heap ext buf boff vec s_ext s_done s_base s_tail].
  repeat split; try assumption.
  apply Forall2_app; [assumption|]. constructor; [reflexivity|constructor].
Qed.

Lemma chain_buffer_ok st s cb t' : wrel st s -> sb_run (s_base s) (s_tail s) cb = Some t' ->
  exists st', chain_buffer st cb = Some st' /\ wrel st' (mks (s_ext s) (s_done s) (s_base s) t') /\
              length (heap st) <= length (heap st') /\ vec st' = vec st.
Proof.
  intros HR HS. apply wrel_BI in HR. destruct HR as (R1 & R2 & HB). rewrite <- R2 in HS.
  destruct (brun_ok _ _ _ _ _ _ _ _ HB HS) as (h' & b' & HBR & HB' & HL).
  unfold chain_buffer. rewrite HBR. eexists. split; [reflexivity|]. split; [|split; [exact HL|reflexivity]].
  apply wrel_BI. cbn [set_buf heap ext buf boff vec s_ext s_done s_base s_tail]. auto.
Qed.

(* ---------- the write loop ------------------------------------------------ *)
Definition acc (calls : list (bytes * nat)) : bytes := concat (map (fun c => firstn (snd c) (fst c)) calls).

Lemma sink_write_le sk p nb err sk' : sink_write sk p = (nb, err, sk') -> nb <= length p.
Proof.
  destruct sk as [|n|k e]; cbn [sink_write].
  - intros [= <- _ _]. lia.
  - destruct (length p <=? n) eqn:E; intros [= <- _ _]; lia.
  - destruct (length p <=? k) eqn:E; intros [= <- _ _]; lia.
Qed.

Lemma sink_write_conf sk p nb err sk' :
  sink_write sk p = (nb, err, sk') -> conforming sk = true ->
  conforming sk' = true /\ (err = false -> nb = length p) /\ (err = true -> nb < length p).
Proof.
  destruct sk as [|n|k e]; cbn [sink_write conforming].
  - intros [= <- <- <-] _. repeat split; auto; discriminate.
  - destruct (length p <=? n) eqn:E; intros [= <- <- <-] _; cbn [conforming]; repeat split; auto; try discriminate; lia.
  - destruct (length p <=? k) eqn:E; intros [= <- <- <-] ->; cbn [conforming]; repeat split; auto; try discriminate; lia.
Qed.

Lemma scribble_id h barr off p i scr : piece_ok h barr off p i -> scribble h p scr = h.
Proof.
  destruct p as [a o l c|id]; [|reflexivity]. destruct i as [b|]; cbn [piece_ok]; [|tauto].
  intros (_ & -> & _). cbn [scribble].
  destruct (l + length scr <=? l) eqn:E; [|reflexivity].
  assert (scr = []) as -> by (destruct scr; [reflexivity|cbn [length] in E; lia]).
  rewrite arr_write_nil. apply list_upd_same.
Qed.

Lemma read_resolve h e barr off p i : piece_ok h barr off p i -> read_piece h e p = resolve e i.
Proof.
  destruct p as [a o l c|id], i as [b|id']; cbn [piece_ok read_piece resolve]; try tauto.
  now intros ->.
Qed.

Lemma is_prefix_app_r (a b c : bytes) : is_prefix b c -> is_prefix (a ++ b) (a ++ c).
Proof. intros (r & ->). exists r. now rewrite app_assoc. Qed.

Lemma write_loop_ok v dn : forall h e barr off sk scr n calls,
  Forall2 (piece_ok h barr off) v dn ->
  exists n' err new,
    write_loop h e v sk scr n calls = (h, n', err, calls ++ new) /\
    n' = n + length (acc new) /\
    is_prefix (concat (map fst new)) (concat (map (resolve e) dn)) /\
    (err = false -> concat (map fst new) = concat (map (resolve e) dn)) /\
    (conforming sk = true ->
       is_prefix (acc new) (concat (map (resolve e) dn)) /\
       (err = false -> acc new = concat (map (resolve e) dn)) /\
       (err = true -> length (acc new) < length (concat (map (resolve e) dn)))).
Proof.
  intros h e barr off sk scr n calls F. revert sk n calls.
  induction F as [|p i v dn Hp F IH]; intros sk n calls.
  - exists n, false, []. cbn [write_loop acc map concat length]. rewrite app_nil_r.
    repeat split; auto; try lia; try (exists []; reflexivity); discriminate.
  - cbn [write_loop]. rewrite (scribble_id _ _ _ _ _ scr Hp). rewrite (read_resolve _ e _ _ _ _ Hp).
    set (data := resolve e i). cbn [map concat]. fold data.
    destruct (sink_write sk data) as [[nb err] sk'] eqn:ES.
    pose proof (sink_write_le _ _ _ _ _ ES) as Hle.
    destruct err.
    + (* the sink failed on this piece: the loop stops *)
      exists (n + nb), true, [(data, nb)]. unfold acc. cbn [map concat fst snd]. rewrite !app_nil_r.
      rewrite firstn_length_le by assumption.
      split; [reflexivity|]. split; [reflexivity|].
      split; [exists (concat (map (resolve e) dn)); reflexivity|].
      split; [discriminate|].
      intros HK. split; [|split].
      * exists (skipn nb data ++ concat (map (resolve e) dn)). now rewrite app_assoc, firstn_skipn.
      * discriminate.
      * intros _. destruct (sink_write_conf _ _ _ _ _ ES HK) as (_ & _ & G). specialize (G eq_refl).
        rewrite app_length. lia.
    + destruct (IH sk' (n + nb) (calls ++ [(data, nb)])) as (n' & err' & new & HW & Hn & HP & HC & HK).
      exists n', err', ((data, nb) :: new). rewrite HW. rewrite <- app_assoc. cbn [app].
      unfold acc in *. cbn [map concat fst snd].
      rewrite app_length, firstn_length_le by assumption.
      split; [reflexivity|]. split; [lia|].
      split; [now apply is_prefix_app_r|].
      split; [intros E; now rewrite (HC E)|].
      intros HKc. destruct (sink_write_conf _ _ _ _ _ ES HKc) as (K1 & K2 & _).
      rewrite (K2 eq_refl), firstn_all. destruct (HK K1) as (G1 & G2 & G3).
      split; [|split].
      * now apply is_prefix_app_r.
      * intros E. now rewrite (G2 E).
      * intros E. specialize (G3 E). rewrite !app_length. lia.
Qed.

(* Flush: delivers what the specification expects, and leaves a fresh writer whatever the sink did *)
Lemma flush_rel st s sk scr : wrel st s ->
  exists st' fo, flush st sk scr = Some (st', fo) /\
    wrel st' (sfresh (s_ext s)) /\ flush_ok (conforming sk) fo (expected s).
Proof.
  intros HR. destruct (cut_ok _ _ HR) as (st1 & HC & HR1 & Hh & He & Hb & _).
  unfold flush. rewrite HC.
  destruct HR1 as (R1 & R2 & R3 & R4 & R5 & R6 & R7 & R8).
  destruct (write_loop_ok _ _ _ (ext st1) _ _ sk scr 0 [] R8) as (n' & err & new & HW & Hn & HP & HE & HK).
  rewrite HW. cbn [app]. eexists _, _. split; [reflexivity|].
  rewrite <- (expected_close s). unfold expected. rewrite close_tail_tail, app_nil_r. rewrite <- R1.
  split.
  - unfold wrel, reset, sfresh. cbn [heap ext buf boff vec s_ext s_done s_base s_tail b_arr b_len b_cap firstn length].
    rewrite close_tail_ext in R1.
    repeat split; try assumption; try lia. constructor.
  - unfold flush_ok, presented, accepted. cbn [fo_calls fo_n fo_err]. fold (acc new).
    repeat split; auto; try lia; apply HK; assumption.
Qed.

(* ---------- one operation, then histories -------------------------------- *)
Lemma wstep_ok st s o s' es : wrel st s -> sstep s o = Some (s', es) ->
  exists st' fos, wstep st o = Some (st', fos) /\ wrel st' s' /\ all_flush_ok (flush_sinks [o]) fos es.
Proof.
  intros HR HS. destruct o as [cb|id|id d|sk scr]; cbn [sstep wstep flush_sinks flat_map app] in *.
  - destruct (sb_run (s_base s) (s_tail s) cb) as [t'|] eqn:E; [|discriminate]. injection HS as <- <-.
    destruct (chain_buffer_ok _ _ _ _ HR E) as (st' & -> & HR' & _).
    eexists _, _. split; [reflexivity|]. split; [assumption|exact I].
  - injection HS as <- <-.
    destruct (chain_write_ok _ _ id HR) as (st' & -> & HR').
    eexists _, _. split; [reflexivity|]. split; [assumption|exact I].
  - injection HS as <- <-. eexists _, _. split; [reflexivity|]. split; [|exact I].
    destruct HR as (R1 & R2 & R3 & R4 & R5 & R6 & R7 & R8).
    unfold wrel. cbn [heap ext buf boff vec s_ext s_done s_base s_tail]. rewrite R1. tauto.
  - injection HS as <- <-.
    destruct (flush_rel _ _ sk scr HR) as (st' & fo & -> & HR' & HF).
    eexists _, _. split; [reflexivity|]. split; [assumption|]. cbn [all_flush_ok]. auto.
Qed.

Lemma all_flush_ok_app c1 : forall f1 e1 c2 f2 e2,
  all_flush_ok c1 f1 e1 -> all_flush_ok c2 f2 e2 -> all_flush_ok (c1 ++ c2) (f1 ++ f2) (e1 ++ e2).
Proof.
  induction c1 as [|c c1 IH]; intros [|f f1] [|e e1] c2 f2 e2 H1 H2; cbn [all_flush_ok app] in *; try tauto.
  destruct H1 as [H1 H1']. split; [assumption|]. now apply IH.
Qed.

Lemma flush_sinks_cons o ops : flush_sinks (o :: ops) = flush_sinks [o] ++ flush_sinks ops.
Proof. unfold flush_sinks. cbn [flat_map]. now rewrite app_nil_r. Qed.

Lemma wrun_ok ops : forall st s s' es, wrel st s -> srun s ops = Some (s', es) ->
  exists st' fos, wrun st ops = Some (st', fos) /\ wrel st' s' /\ all_flush_ok (flush_sinks ops) fos es.
Proof.
  induction ops as [|o ops IH]; intros st s s' es HR HS; cbn [srun wrun] in *.
  - injection HS as <- <-. eexists _, _. split; [reflexivity|]. split; [assumption|exact I].
  - destruct (sstep s o) as [[s1 e1]|] eqn:E1; [|discriminate].
    destruct (srun s1 ops) as [[s2 e2]|] eqn:E2; [|discriminate]. injection HS as <- <-.
    destruct (wstep_ok _ _ _ _ _ HR E1) as (st1 & f1 & -> & HR1 & HF1).
    destruct (IH _ _ _ _ HR1 E2) as (st2 & f2 & -> & HR2 & HF2).
    eexists _, _. split; [reflexivity|]. split; [assumption|].
    rewrite flush_sinks_cons. now apply all_flush_ok_app.
Qed.

(* ---------- main statements ----------------------------------------------- *)
Lemma winit_rel init cap e : wrel (winit init cap e) (sinit init e).
Proof.
  unfold wrel, winit, sinit. cbn [heap ext buf boff vec s_ext s_done s_base s_tail b_arr b_len b_cap length harr nth].
  rewrite app_length, repeat_length.
  repeat split; try lia; [|constructor].
  unfold arr_read. cbn [skipn]. rewrite firstn_app, Nat.sub_diag, firstn_all. cbn [firstn]. now rewrite app_nil_r.
Qed.

(* every history inside the contract, every reallocation oracle, every sink *)
Theorem refines_inv ops st s s' es : wrel st s -> srun s ops = Some (s', es) ->
  exists st' fos, wrun st ops = Some (st', fos) /\ wrel st' s' /\ all_flush_ok (flush_sinks ops) fos es.
Proof. apply wrun_ok. Qed.

Theorem refines_init init cap e ops s' es : srun (sinit init e) ops = Some (s', es) ->
  exists st' fos, wrun (winit init cap e) ops = Some (st', fos) /\ wrel st' s' /\
                  all_flush_ok (flush_sinks ops) fos es.
Proof. apply wrun_ok. apply winit_rel. Qed.

(* W3, unconditionally: whatever the state and whatever the sink did *)
Theorem flush_resets_any st sk scr st' fo : flush st sk scr = Some (st', fo) ->
  vec st' = [] /\ boff st' = 0 /\ b_len (buf st') = 0 /\ ext st' = ext st.
Proof.
  unfold flush. destruct (cut_buffer st) as [st1|] eqn:EC; [|discriminate].
  destruct (write_loop (heap st1) (ext st1) (vec st1) sk scr 0 []) as [[[h n] err] calls].
  intros [= <- _]. unfold reset. cbn [vec boff buf b_len ext firstn]. repeat split.
  unfold cut_buffer in EC. destruct (b_len (buf st) <? boff st); [discriminate|].
  destruct (b_len (buf st) - boff st =? 0); injection EC as <-; reflexivity.
Qed.

(* after a flush - successful or failed - the writer is a fresh writer: what later flushes deliver
   is determined by the later operations alone *)
Theorem after_flush_fresh st s sk scr st' fo ops s2 es :
  wrel st s -> flush st sk scr = Some (st', fo) ->
  srun (sfresh (ext st')) ops = Some (s2, es) ->
  exists st'' fos, wrun st' ops = Some (st'', fos) /\ wrel st'' s2 /\ all_flush_ok (flush_sinks ops) fos es.
Proof.
  intros HR HF HS. destruct (flush_rel _ _ sk scr HR) as (st0 & fo0 & HF0 & HR0 & _).
  rewrite HF in HF0. injection HF0 as <- <-.
  assert (E : ext st' = s_ext s) by (destruct HR0 as (R1 & _); exact R1).
  rewrite E in HS. eapply wrun_ok; eassumption.
Qed.

(* a sink that accepts everything gets everything *)
Lemma write_loop_accept v : forall h e scr n calls,
  snd (fst (write_loop h e v SAccept scr n calls)) = false.
Proof.
  induction v as [|p v IH]; intros h e scr n calls; cbn [write_loop sink_write]; [reflexivity|]. apply IH.
Qed.

Theorem flush_accepting st s scr st' fo : wrel st s -> flush st SAccept scr = Some (st', fo) ->
  fo_err fo = false /\ accepted fo = expected s /\ fo_n fo = length (expected s).
Proof.
  intros HR HF. destruct (flush_rel _ _ SAccept scr HR) as (st0 & fo0 & HF0 & _ & HK).
  rewrite HF in HF0. injection HF0 as <- <-.
  assert (E : fo_err fo = false).
  { unfold flush in HF. destruct (cut_buffer st) as [st1|]; [|discriminate].
    pose proof (write_loop_accept (vec st1) (heap st1) (ext st1) scr 0 []) as W.
    destruct (write_loop (heap st1) (ext st1) (vec st1) SAccept scr 0 []) as [[[h n] err] calls].
    injection HF as _ <-. exact W. }
  destruct HK as (_ & _ & Hn & HC). destruct (HC eq_refl) as (_ & G & _).
  split; [exact E|]. split; [exact (G E)|]. rewrite Hn, (G E). reflexivity.
Qed.

(* W2: no operation other than a flush changes the bytes a chained piece refers to, and the
   vector only grows *)
Lemma app_eq_len {X} (a : list X) : forall b c d, a ++ b = c ++ d -> length a = length c -> a = c /\ b = d.
Proof.
  induction a as [|x a IH]; intros b [|y c] d H HL; cbn [length app] in *; try lia; [auto|].
  injection H as <- H. destruct (IH _ _ _ H) as [-> ->]; [lia|auto].
Qed.

Lemma pieces_same_bytes h barr off h' barr' off' v dn :
  Forall2 (piece_ok h barr off) v dn -> Forall2 (piece_ok h' barr' off') v dn ->
  forall a o l c, In (PBuf a o l c) v -> arr_read (harr h' a) o l = arr_read (harr h a) o l.
Proof.
  intros F. induction F as [|p i v dn Hp F IH]; intros F' a o l c HI; [destruct HI|].
  inversion F' as [|? ? ? ? Hp' F'']; subst.
  destruct HI as [->|HI]; [|eapply IH; eassumption].
  destruct i as [b|id]; cbn [piece_ok] in Hp, Hp'; [|tauto].
  destruct Hp as (_ & _ & _ & -> & _). destruct Hp' as (_ & _ & _ & G & _). exact G.
Qed.

Lemma Forall2_len {X Y} (P : X -> Y -> Prop) l1 l2 : Forall2 P l1 l2 -> length l1 = length l2.
Proof. induction 1; cbn [length]; auto. Qed.


Lemma nonflush_grows st s o s' es st' fos :
  wrel st s -> sstep s o = Some (s', es) -> wstep st o = Some (st', fos) -> is_flush o = false ->
  (exists suffix, vec st' = vec st ++ suffix) /\ (exists dsuffix, s_done s' = s_done s ++ dsuffix).
Proof.
  intros HR HS HW HF. destruct o as [cb|id|id d|sk scr]; cbn [sstep wstep is_flush] in *; try discriminate.
  - destruct (sb_run (s_base s) (s_tail s) cb) as [t'|] eqn:E; [|discriminate]. injection HS as <- <-.
    destruct (chain_buffer_ok _ _ _ _ HR E) as (st0 & HC & _ & _ & HV). rewrite HC in HW. injection HW as <- <-.
    split; [exists []|exists []]; cbn [s_done]; now rewrite ?HV, app_nil_r.
  - injection HS as <- <-. destruct (cut_ok _ _ HR) as (st1 & HC & _ & _ & _ & _ & (sf & HV)).
    unfold chain_write in HW. rewrite HC in HW. injection HW as <- <-. cbn [vec s_done].
    split; [exists (sf ++ [PExt id]); now rewrite HV, app_assoc|].
    destruct s as [e dn base [|x t]]; cbn [close_tail s_done s_tail].
    + eexists; reflexivity.
    + eexists. rewrite <- app_assoc. reflexivity.
  - injection HS as <- <-. injection HW as <- <-. cbn [vec s_done]. split; exists []; now rewrite app_nil_r.
Qed.

Theorem chained_bytes_stable st s o s' es st' fos :
  wrel st s -> sstep s o = Some (s', es) -> wstep st o = Some (st', fos) -> is_flush o = false ->
  (exists suffix, vec st' = vec st ++ suffix) /\
  forall a off len cap, In (PBuf a off len cap) (vec st) ->
    arr_read (harr (heap st') a) off len = arr_read (harr (heap st) a) off len.
Proof.
  intros HR HS HW HF.
  destruct (nonflush_grows _ _ _ _ _ _ _ HR HS HW HF) as ((sf & HV) & (df & HD)).
  split; [eauto|].
  destruct (wstep_ok _ _ _ _ _ HR HS) as (st0 & f0 & HW0 & HR0 & _). rewrite HW in HW0. injection HW0 as <- <-.
  destruct HR as (_ & _ & _ & _ & _ & _ & _ & R8). destruct HR0 as (_ & _ & _ & _ & _ & _ & _ & R8').
  rewrite HV, HD in R8'. apply Forall2_app_inv_l in R8'. destruct R8' as (l1 & l2 & F1 & _ & E).
  apply app_eq_len in E; [|rewrite <- (Forall2_len _ _ _ F1); symmetry; apply (Forall2_len _ _ _ R8)].
  destruct E as [<- _]. eapply pieces_same_bytes; eassumption.
Qed.

(* the specification never looks at the reallocation oracle *)

Lemma sb_run_erase cb : forall base t, sb_run base t (map erase_bop cb) = sb_run base t cb.
Proof.
  induction cb as [|o cb IH]; intros base t; cbn [map sb_run]; [reflexivity|].
  assert (E : sb_step base t (erase_bop o) = sb_step base t o) by (destruct o; reflexivity).
  rewrite E. destruct (sb_step base t o); [apply IH|reflexivity].
Qed.

Theorem spec_ignores_oracle ops : forall s, srun s (map erase_oracle ops) = srun s ops.
Proof.
  induction ops as [|o ops IH]; intros s; cbn [map srun]; [reflexivity|].
  assert (E : sstep s (erase_oracle o) = sstep s o).
  { destruct o; cbn [erase_oracle sstep]; try reflexivity. now rewrite sb_run_erase. }
  rewrite E. destruct (sstep s o) as [[s1 e1]|]; [|reflexivity]. now rewrite IH.
Qed.

Lemma flush_sinks_erase ops : flush_sinks (map erase_oracle ops) = flush_sinks ops.
Proof.
  unfold flush_sinks. induction ops as [|o ops IH]; cbn [map flat_map]; [reflexivity|].
  rewrite IH. now destruct o.
Qed.

(* ---------- the two encoding paths at the level of writer operations ------
   A column's WriteColumn is its EncodeColumn with ChainWrite(slice) in place of append(slice) and
   ChainBuffer(cb) in place of cb(buf).  For such operation sequences the flush delivers what the
   buffer path would have appended. *)

Lemma sb_run_app_only cb : forall base t, app_only cb = true -> sb_run base t cb = Some (t ++ cb_bytes cb).
Proof.
  induction cb as [|o cb IH]; intros base t H; cbn [sb_run cb_bytes map concat].
  - now rewrite app_nil_r.
  - unfold app_only in H. cbn [forallb] in H. apply andb_true_iff in H. destruct H as [H1 H2].
    destruct o as [d f x| |]; try discriminate. cbn [sb_step]. rewrite (IH _ _ H2).
    unfold cb_bytes. now rewrite app_assoc.
Qed.

Lemma sstep_enc s o : enc_op o = true ->
  exists s', sstep s o = Some (s', []) /\ s_ext s' = s_ext s /\ expected s' = expected s ++ plain (s_ext s) o.
Proof.
  intros H. destruct o as [cb|id|id d|sk scr]; cbn [enc_op] in H; try discriminate; cbn [sstep plain].
  - rewrite (sb_run_app_only _ _ _ H). eexists. split; [reflexivity|]. split; [reflexivity|].
    unfold expected. cbn [s_ext s_done s_tail]. now rewrite app_assoc.
  - eexists. split; [reflexivity|]. cbn [s_ext]. split; [apply close_tail_ext|].
    rewrite <- (expected_close s). unfold expected. cbn [s_ext s_done s_tail].
    rewrite close_tail_tail, close_tail_ext, map_app, concat_app. cbn [map concat resolve].
    now rewrite !app_nil_r.
Qed.

Theorem enc_ops_expected ops : forall s sk scr, forallb enc_op ops = true ->
  exists s', srun s (ops ++ [WFlush sk scr]) =
             Some (s', [expected s ++ concat (map (plain (s_ext s)) ops)]).
Proof.
  induction ops as [|o ops IH]; intros s sk scr H; cbn [app srun map concat].
  - cbn [sstep app]. eexists. rewrite app_nil_r. reflexivity.
  - cbn [forallb] in H. apply andb_true_iff in H. destruct H as [H1 H2].
    destruct (sstep_enc s o H1) as (s1 & -> & HE & HX).
    destruct (IH s1 sk scr H2) as (s2 & ->). eexists. cbn [app]. rewrite HX, HE, <- app_assoc. reflexivity.
Qed.

(* the cut slices are capacity-limited (cap = len) and lie inside their arrays: a consumer that
   appends to a slice it was handed cannot reach the bytes of the next piece *)
Theorem pieces_capacity_limited st s : wrel st s ->
  forall a off len cap, In (PBuf a off len cap) (vec st) ->
    cap = len /\ off + len <= length (harr (heap st) a) /\
    forall scr, scribble (heap st) (PBuf a off len cap) scr = heap st.
Proof.
  intros (_ & _ & _ & _ & _ & _ & _ & R8) a off len cap HI.
  induction R8 as [|p i v dn Hp F IH]; [destruct HI|].
  destruct HI as [->|HI]; [|now apply IH].
  split; [|split].
  - destruct i; cbn [piece_ok] in Hp; tauto.
  - destruct i; cbn [piece_ok] in Hp; tauto.
  - intros scr. eapply scribble_id; exact Hp.
Qed.
