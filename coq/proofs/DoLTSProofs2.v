(* Proofs about Client.Do, second part: cancellation is noticed; termination. *)
From CH Require Import model.DoLTS proofs.DoLTSProofs.
From Coq Require Import Lia.

(* cancellation is noticed: if the caller's context ends while the watcher has not yet taken its decision,
   Do returns an error *)
Definition qinv (s : st) : Prop :=
  pcancel s = true /\
  match wmd s with
  | WSkipHook | WRet None | WDone => failed s = true \/ gotexc s = true
  | _ => True
  end.

Ltac brki :=
  repeat (cbn; match goal with
         | |- context [st_record _ ?e] => is_var e; destruct e
         | |- context [match ?x with _ => _ end] =>
           lazymatch x with
           | context [match _ with _ => _ end] => fail
           | _ => destruct x eqn:?
           end
         end).
Ltac crunch :=
  repeat (brki; cbn; auto);
  try match goal with |- context [st_record _ ?e] => destruct e end; cbn; auto; try congruence.

Lemma frame_wmd : forall fx sc g alt s, g <> GW -> wmd (step fx sc g alt s) = wmd s.
Proof.
  intros fx sc g alt s Hg. destruct g; cbn [step]; try congruence.
  - unfold step_s. crunch.
  - unfold step_r. crunch.
  - unfold step_m. crunch.
  - unfold step_env. crunch.
Qed.

Lemma mono_failed : forall fx sc g alt s, failed s = true -> failed (step fx sc g alt s) = true.
Proof.
  intros fx sc g alt s H. unfold failed in *. destruct (err1 s) eqn:E; try discriminate.
  destruct g; cbn [step].
  - unfold step_s. crunch; rewrite ?E; auto.
  - unfold step_r. crunch; rewrite ?E; auto.
  - unfold step_w. crunch; rewrite ?E; auto.
  - unfold step_m. rewrite E. crunch; rewrite ?E; auto.
  - unfold step_env. crunch; rewrite ?E; auto.
Qed.

Lemma mono_gotexc : forall fx sc g alt s, gotexc s = true -> gotexc (step fx sc g alt s) = true.
Proof.
  intros fx sc g alt s H. destruct g; cbn [step].
  - unfold step_s. crunch.
  - unfold step_r. crunch; rewrite ?H; auto.
  - unfold step_w. crunch.
  - unfold step_m. crunch.
  - unfold step_env. crunch.
Qed.

Lemma mono_pcancel : forall fx sc g alt s, pcancel s = true -> pcancel (step fx sc g alt s) = true.
Proof.
  intros fx sc g alt s H. destruct g; cbn [step].
  - unfold step_s. crunch.
  - unfold step_r. crunch.
  - unfold step_w. crunch.
  - unfold step_m. crunch.
  - unfold step_env. crunch.
Qed.

Lemma qinv_step : forall sc g alt s, inv s -> cinv s -> qinv s -> qinv (step all_fixed sc g alt s).
Proof.
  intros sc g alt s Hinv Hcinv [Hp Hq]. pose proof (c_sw _ Hcinv Hp) as Hc.
  split; [apply mono_pcancel; auto|].
  assert (Hmono : failed s = true \/ gotexc s = true ->
                  failed (step all_fixed sc g alt s) = true \/ gotexc (step all_fixed sc g alt s) = true).
  { intros [H|H]; [left; apply mono_failed|right; apply mono_gotexc]; auto. }
  destruct g; try (rewrite frame_wmd by discriminate; destruct (wmd s) as [| | | | | |[k|]|]; auto; fail).
  cbn [step] in *. unfold step_w in *. rewrite Hc in *.
  destruct (wmd s) eqn:Ew; cbn; auto.
  - destruct (done s); cbn; rewrite ?Ew; auto.
  - destruct (gotexc s) eqn:Eg; cbn; auto.
  - destruct e as [k|]; cbn; unfold failed; cbn; auto.
    left. destruct (err1 s); auto.
  - rewrite Ew. exact Hq.
Qed.

Theorem cancel_noticed_thm : forall sc sched1 sched2 s1 s2,
  wf_prog true (sc_prog sc) = true ->
  s1 = run all_fixed sc sched1 (init sc) ->
  (wmd s1 = WWait \/ wmd s1 = WWake) -> pcancel s1 = false -> terminal s1 = false ->
  s2 = run all_fixed sc sched2 (step_env s1) ->
  terminal s2 = true -> failed s2 = true.
Proof.
  intros sc sched1 sched2 s1 s2 Hwf Hs1 Hw Hp Ht Hs2 Ht2.
  pose proof (both_reach sc sched1 Hwf) as H1. rewrite <- Hs1 in H1.
  assert (H0 : (inv (step_env s1) /\ cinv (step_env s1)) /\ qinv (step_env s1)).
  { split. { apply (both_step sc GEnv false); auto. }
    unfold qinv, step_env, terminal in *.
    destruct (mmd s1); try discriminate; rewrite Hp; cbn; (split; [reflexivity|]);
      destruct Hw as [Hw|Hw]; rewrite Hw; exact I. }
  assert (Hall : forall sched s, (inv s /\ cinv s) /\ qinv s ->
                 (inv (run all_fixed sc sched s) /\ cinv (run all_fixed sc sched s)) /\ qinv (run all_fixed sc sched s)).
  { induction sched as [|[g alt] r IH]; intros s [Hb Hq]; cbn [run]; auto.
    apply IH. split; [apply both_step; auto|]. destruct Hb; apply qinv_step; auto. }
  destruct (Hall sched2 _ H0) as [[Hi Hc] [_ Hq]]. rewrite <- Hs2 in *.
  unfold terminal in Ht2. destruct (mmd s2) eqn:Em; try discriminate.
  pose proof (i_m _ Hi) as Him. rewrite Em in Him. destruct Him as [Had _].
  apply all_done_s in Had. destruct Had as [E1 [E2 E3]]. rewrite E3 in Hq.
  destruct Hq as [Hq|Hq]; auto.
  destruct (c_g _ Hc Hq) as [Hf|Hf]; auto. rewrite E2 in Hf. discriminate.
Qed.

(* ---------------------------------------------------------------- termination: a variant *)

Definition w_act (a : sact) : nat :=
  match a with
  | AEnc ops => 1 + 2 * length ops
  | AEncFail ops => 2 + 2 * length ops
  | _ => 3
  end.
Fixpoint w_prog (p : list sact) : nat := match p with [] => 0 | a :: r => w_act a + w_prog r end.
Definition tlen (t : option bool) : nat := match t with Some _ => 1 | None => 0 end.
Definition plen (s : st) : nat := length (pvec s) + tlen (ptail s).

Definition mu_s (s : st) : nat :=
  match smd s with
  | SRun => w_prog (sprog s) + plen s + 2
  | SWriting => w_prog (sprog s) + plen s + 3
  | SAtGate | SAtCb _ => w_prog (sprog s) + plen s + 4
  | SRet _ => 1
  | SDone => 0
  end.
Definition mu_r (sc : scen) (s : st) : nat :=
  match rmd s with
  | RTop => 6 * (length (sc_script sc) - pos s) + 12
  | RRead => 6 * (length (sc_script sc) - pos s) + 11
  | RAtCb _ | RSendInfo => 6 * (length (sc_script sc) - pos s) + 15
  | RExit1 _ => 4 | RExit2 _ => 3 | RHook _ => 2 | RRet _ => 1 | RDone => 0
  end.
Definition mu_w (s : st) : nat :=
  match wmd s with
  | WWait => 8 | WWake => 7 | WCancelHook => 6 | WWrite => 5 | WClose => 4 | WSkipHook => 3 | WRet _ => 1 | WDone => 0
  end.
Definition mu_m (s : st) : nat :=
  match mmd s with MWait => 4 | MCancelWrite => 3 | MClose => 2 | MDone => 0 end.
Definition mu_e (s : st) : nat := if pcancel s then 0 else 1.
Definition mu (sc : scen) (s : st) : nat := mu_s s + mu_r sc s + mu_w s + mu_m s + mu_e s.

(* a scheduler choice that lets an armed read deadline fire *)
Definition is_timeout (g : who) (alt : bool) (s : st) : bool :=
  match g, rmd s with GR, RRead => alt | _, _ => false end.

Lemma enc_plen : forall ops v t,
  length (fst (enc ops v t)) + tlen (snd (enc ops v t)) <= length v + tlen t + 2 * length ops.
Proof.
  induction ops as [|o ops IH]; intros v t; [cbn; lia|].
  destruct o; cbn [enc].
  - specialize (IH v (Some endp)). cbn [length tlen] in *. destruct t; cbn [tlen]; lia.
  - specialize (IH (cut v t ++ [endp]) None).
    assert (length (cut v t ++ [endp]) = length v + tlen t + 1).
    { rewrite app_length. destruct t; cbn [cut tlen]; rewrite ?app_length; cbn; lia. }
    cbn [length tlen] in *. lia.
Qed.
Arguments tlen : simpl never.

Lemma next_read_pkt : forall sc s p, next_read sc s = RdPkt p -> pos s < length (sc_script sc).
Proof.
  intros sc s p H. unfold next_read in H.
  assert (forall a q, nth_error (sc_script sc) (pos s) = Some (a, q) -> pos s < length (sc_script sc)).
  { intros a q E. apply nth_error_Some. congruence. }
  destruct (closed s); try discriminate.
  destruct (sc_cut sc) as [[k i]|].
  - destruct (Nat.eqb k (pos s)); try discriminate.
    destruct (nth_error (sc_script sc) (pos s)) as [[a q]|] eqn:E; try discriminate. eauto.
  - destruct (nth_error (sc_script sc) (pos s)) as [[a q]|] eqn:E; try discriminate. eauto.
Qed.

Definition blocked_s (s : st) : bool :=
  match smd s, sprog s with
  | SRun, AWaitInfo :: _ => negb (ci_item s || ci_closed s || cancelled s)
  | _, _ => false
  end.
Definition blocked_r (sc : scen) (s : st) : bool :=
  match rmd s with
  | RRead => match next_read sc s with RdBlock => true | _ => false end
  | RSendInfo => ci_item s && negb (cancelled s)
  | _ => false
  end.

Ltac frames := unfold mu_r, mu_w, mu_m, mu_e, mu_s, plen; cbn; change (tlen None) with 0.

Lemma mu_step_s : forall fx sc alt s,
  let s' := step_s fx sc alt s in
  mu_r sc s' = mu_r sc s /\ mu_w s' = mu_w s /\ mu_m s' = mu_m s /\ mu_e s' = mu_e s /\
  mu_s s' <= mu_s s /\
  (blocked_s s = false -> smd s <> SDone -> mu_s s' < mu_s s).
Proof.
  intros fx sc alt s. cbv zeta. unfold step_s, blocked_s.
  destruct (smd s) eqn:Esm.
  - destruct (sprog s) as [|a p] eqn:Ep.
    + frames. rewrite Esm, Ep. cbn. repeat split; auto; lia.
    + destruct a.
      * destruct (closed s); frames; rewrite Esm, Ep; cbn; repeat split; auto; lia.
      * rewrite (enc_pair ops). frames. rewrite Esm, Ep. cbn [w_prog w_act].
        pose proof (enc_plen ops (pvec s) (ptail s)). repeat split; auto; lia.
      * frames. rewrite Esm, Ep. cbn. repeat split; auto; lia.
      * rewrite (enc_pair ops). frames. rewrite Esm, Ep. cbn [w_prog w_act]. repeat split; auto; lia.
      * destruct (cancelled s); [frames; rewrite Esm, Ep; cbn; repeat split; auto; lia|].
        unfold pend_chunks. destruct (cut (pvec s) (ptail s)) eqn:Ec.
        { frames; rewrite Esm, Ep; cbn; repeat split; auto; lia. }
        { frames; rewrite Esm, Ep; cbn [w_prog w_act].
          assert (length (b :: l) = length (pvec s) + tlen (ptail s)).
          { rewrite <- Ec. destruct (ptail s); cbn [cut]; rewrite ?app_length; unfold tlen; cbn [length]; lia. }
          change (tlen None) with 0.
          cbn [length] in H. repeat split; auto; lia. }
      * destruct (ci_item s || ci_closed s) eqn:Er; destruct (cancelled s) eqn:Ecn; cbn [andb negb orb];
          try destruct alt; frames; rewrite ?Esm, ?Ep; cbn; repeat split; auto; try lia; try discriminate.
        all: rewrite ?orb_true_r, ?orb_false_r; cbn; intros; try discriminate; try lia.
      * destruct (cancelled s); frames; rewrite Esm, Ep; cbn; repeat split; auto; lia.
      * frames; rewrite Esm, Ep; cbn; repeat split; auto; lia.
  - destruct (pvec s) as [|c rest] eqn:Epv.
    + frames. rewrite Esm, Epv. cbn. repeat split; auto; lia.
    + assert (Hok : forall s1, s1 = st_set_pend (st_write s (Some (WChunk c)) true) rest None ->
                let s' := match rest with [] => st_set_s s1 (sprog s) SRun | _ => s1 end in
                mu_r sc s' = mu_r sc s /\ mu_w s' = mu_w s /\ mu_m s' = mu_m s /\ mu_e s' = mu_e s /\
                mu_s s' <= mu_s s /\ (false = false -> SWriting <> SDone -> mu_s s' < mu_s s)).
      { intros s1 ->. destruct rest; frames; rewrite ?Esm, ?Epv; cbn; repeat split; auto; lia. }
      destruct (closed s).
      { frames. rewrite Esm, Epv. cbn. repeat split; auto; lia. }
      destruct (sc_wfault sc) as [[k partial]|]; [|apply Hok; reflexivity].
      destruct (Nat.eqb k (nwcalls s)); [|apply Hok; reflexivity].
      destruct (fx_failed fx), partial; frames; rewrite Esm, Epv; cbn; repeat split; auto; lia.
  - frames. rewrite Esm. cbn. repeat split; auto; lia.
  - destruct r; frames; rewrite Esm; cbn; repeat split; auto; lia.
  - destruct e; frames; rewrite Esm; cbn; repeat split; auto; lia.
  - frames. rewrite Esm. repeat split; auto. congruence.
Qed.

Lemma mu_step_r : forall fx sc alt s,
  let s' := step_r fx sc alt s in
  mu_s s' = mu_s s /\ mu_w s' = mu_w s /\ mu_m s' = mu_m s /\ mu_e s' = mu_e s /\
  (is_timeout GR alt s = false -> mu_r sc s' <= mu_r sc s) /\
  (is_timeout GR alt s = true -> mu_r sc s' <= mu_r sc s + 1) /\
  (is_timeout GR alt s = false -> blocked_r sc s = false -> rmd s <> RDone -> mu_r sc s' < mu_r sc s).
Proof.
  intros fx sc alt s. cbv zeta. unfold step_r, blocked_r, is_timeout.
  destruct (rmd s) eqn:Erm.
  - destruct (cancelled s); frames; rewrite Erm; cbn; repeat split; auto; intros; try discriminate; lia.
  - destruct (next_read sc s) eqn:Enr.
    + frames; rewrite Erm; cbn; repeat split; auto; intros; try discriminate; lia.
    + frames; rewrite Erm; cbn; repeat split; auto; intros; try discriminate; lia.
    + pose proof (next_read_pkt _ _ _ Enr) as Hlt.
      destruct alt; [frames; rewrite Erm; cbn; repeat split; auto; intros; try discriminate; lia|].
      destruct p as [[ok|]| | | | |]; frames; rewrite Erm; cbn; repeat split; auto; intros; try discriminate; lia.
    + destruct alt; frames; rewrite Erm; cbn; repeat split; auto; intros; try discriminate; lia.
  - destruct ok; frames; rewrite Erm; cbn; repeat split; auto; intros; try discriminate; lia.
  - destruct (ci_item s), (cancelled s); cbn [negb andb]; try destruct alt;
      frames; rewrite Erm; cbn; repeat split; auto; intros; try discriminate; lia.
  - destruct (sc_insert sc); frames; rewrite Erm; cbn; repeat split; auto; intros; try discriminate; lia.
  - frames; rewrite Erm; cbn; repeat split; auto; intros; try discriminate; lia.
  - frames; rewrite Erm; cbn; repeat split; auto; intros; try discriminate; lia.
  - destruct e; frames; rewrite Erm; cbn; repeat split; auto; intros; try discriminate; lia.
  - frames; rewrite Erm; cbn; repeat split; auto; intros; try discriminate; try lia. congruence.
Qed.

Lemma mu_step_w : forall fx sc s,
  let s' := step_w fx sc s in
  mu_s s' = mu_s s /\ mu_r sc s' = mu_r sc s /\ mu_m s' = mu_m s /\ mu_e s' = mu_e s /\
  mu_w s' <= mu_w s /\
  ((wmd s = WWait -> done s = true) -> wmd s <> WDone -> mu_w s' < mu_w s).
Proof.
  intros fx sc s. cbv zeta. unfold step_w.
  destruct (wmd s) eqn:Ew.
  - destruct (done s); frames; rewrite Ew; cbn; repeat split; auto; intros; try lia.
    assert (false = true) by auto. discriminate.
  - destruct (cancelled s && negb (gotexc s)); frames; rewrite Ew; cbn; repeat split; auto; intros; lia.
  - frames; rewrite Ew; cbn; repeat split; auto; intros; lia.
  - destruct (closed s); frames; rewrite Ew; cbn; repeat split; auto; intros; lia.
  - frames; rewrite Ew; cbn; repeat split; auto; intros; lia.
  - frames; rewrite Ew; cbn; repeat split; auto; intros; lia.
  - destruct e; frames; rewrite Ew; cbn; repeat split; auto; intros; lia.
  - frames; rewrite Ew; cbn; repeat split; auto; intros; try lia. congruence.
Qed.

Lemma mu_step_m : forall fx sc s,
  let s' := step_m fx sc s in
  mu_s s' = mu_s s /\ mu_r sc s' = mu_r sc s /\ mu_w s' = mu_w s /\ mu_e s' = mu_e s /\
  mu_m s' <= mu_m s /\
  ((mmd s = MWait -> all_done s = true) -> mmd s <> MDone -> mu_m s' < mu_m s).
Proof.
  intros fx sc s. cbv zeta. unfold step_m.
  destruct (mmd s) eqn:Em.
  - destruct (all_done s) eqn:Ead.
    + pose proof (all_done_s _ Ead) as [E1 _].
      destruct (err1 s); [|frames; rewrite Em; cbn; repeat split; auto; intros; lia].
      destruct (fx_failed fx); [|frames; rewrite Em; cbn; repeat split; auto; intros; lia].
      cbn. destruct (fx_ctx fx && pcancel s); [destruct (closed s)|destruct (gotexc s)];
        frames; rewrite ?Em, ?E1; cbn; repeat split; auto; intros; lia.
    + frames; rewrite Em; cbn; repeat split; auto; intros; try lia.
      assert (false = true) by auto. discriminate.
  - destruct (closed s); frames; rewrite Em; cbn; repeat split; auto; intros; lia.
  - frames; rewrite Em; cbn; repeat split; auto; intros; lia.
  - frames; rewrite Em; cbn; repeat split; auto; intros; try lia. congruence.
Qed.

Lemma mu_step_env : forall sc s,
  let s' := step_env s in
  mu_s s' = mu_s s /\ mu_r sc s' = mu_r sc s /\ mu_w s' = mu_w s /\ mu_m s' = mu_m s /\ mu_e s' <= mu_e s.
Proof.
  intros sc s. cbv zeta. unfold step_env.
  destruct (mmd s) eqn:Em; try (repeat split; auto; fail).
  all: destruct (pcancel s) eqn:Ep; try (repeat split; auto; fail).
  all: frames; rewrite ?Em, ?Ep; cbn; repeat split; auto.
Qed.

(* the variant: no step increases it, except that a read deadline firing adds at most one *)
Theorem measure_step_thm : forall fx sc g alt s,
  (is_timeout g alt s = false -> mu sc (step fx sc g alt s) <= mu sc s) /\
  (is_timeout g alt s = true -> mu sc (step fx sc g alt s) <= mu sc s + 1).
Proof.
  intros fx sc g alt s. unfold mu. destruct g; cbn [step].
  - pose proof (mu_step_s fx sc alt s) as H. cbv zeta in H. unfold is_timeout. split; intros; try discriminate. lia.
  - pose proof (mu_step_r fx sc alt s) as H. cbv zeta in H.
    destruct H as [H1 [H2 [H3 [H4 [H5 [H6 H7]]]]]]; split; intros Ht; [specialize (H5 Ht)|specialize (H6 Ht)]; lia.
  - pose proof (mu_step_w fx sc s) as H. cbv zeta in H. unfold is_timeout. split; intros; try discriminate. lia.
  - pose proof (mu_step_m fx sc s) as H. cbv zeta in H. unfold is_timeout. split; intros; try discriminate. lia.
  - pose proof (mu_step_env sc s) as H. cbv zeta in H. unfold is_timeout. split; intros; try discriminate. lia.
Qed.

Fixpoint timeouts (fx : fixes) (sc : scen) (sched : list (who * bool)) (s : st) : nat :=
  match sched with
  | [] => 0
  | (g, alt) :: r => (if is_timeout g alt s then 1 else 0) + timeouts fx sc r (step fx sc g alt s)
  end.

Theorem measure_run_thm : forall fx sc sched s,
  mu sc (run fx sc sched s) <= mu sc s + timeouts fx sc sched s.
Proof.
  induction sched as [|[g alt] r IH]; intros s; cbn [run timeouts]; [lia|].
  specialize (IH (step fx sc g alt s)).
  destruct (measure_step_thm fx sc g alt s) as [H0 H1].
  destruct (is_timeout g alt s); [specialize (H1 eq_refl)|specialize (H0 eq_refl)]; lia.
Qed.

(* facts about reachable states needed for progress *)
Definition has_wait (p : list sact) : bool := existsb (fun a => match a with AWaitInfo => true | _ => false end) p.
Definition r_closed_done (m : rmode) : bool := match m with RHook _ | RRet _ | RDone => true | _ => false end.
Definition r_closed_ci (m : rmode) : bool := match m with RExit2 _ | RHook _ | RRet _ | RDone => true | _ => false end.

Record pinv (sc : scen) (s : st) : Prop := {
  p_done : r_closed_done (rmd s) = true -> done s = true;
  p_ci : r_closed_ci (rmd s) = true -> sc_insert sc = true -> ci_closed s = true;
  p_wait : has_wait (sprog s) = true -> sc_insert sc = true
}.

Lemma pinv_init : forall sc, (has_wait (sc_prog sc) = true -> sc_insert sc = true) -> pinv sc (init sc).
Proof. intros sc H. constructor; cbn; auto; intros; discriminate. Qed.

Lemma pinv_step : forall fx sc g alt s, pinv sc s -> pinv sc (step fx sc g alt s).
Proof.
  intros fx sc g alt s [Hd Hc Hw]. destruct g; cbn [step].
  - unfold step_s. destruct (smd s) eqn:Esm; try (constructor; cbn; auto; fail).
    + destruct (sprog s) as [|a p] eqn:Ep; [constructor; cbn; auto|].
      assert (Hw' : has_wait p = true -> sc_insert sc = true).
      { intros H. apply Hw. unfold has_wait in *. cbn. rewrite H. apply orb_true_r. }
      destruct a; crunch; constructor; cbn; auto.
      all: try (intros; apply Hw; reflexivity).
    + crunch; constructor; cbn; auto.
    + crunch; constructor; cbn; auto.
    + destruct e; constructor; cbn; auto.
  - unfold step_r. destruct (rmd s) eqn:Erm; cbn [r_closed_done r_closed_ci] in *.
    all: crunch; try (constructor; cbn; auto; intros; try discriminate; try congruence; fail).
    all: try (constructor; rewrite ?Erm; cbn; auto; intros; discriminate).
    all: try (constructor; cbn; intros; auto; try discriminate; try congruence; exfalso;
              match goal with H : has_wait _ = true |- _ => apply Hw in H; discriminate end).
    all: try (constructor; cbn [r_closed_done r_closed_ci rmd sprog st_set_r done ci_closed st_chan];
              [intros; discriminate | intros; congruence | intros H; exfalso; apply Hw in H; discriminate]).
  - unfold step_w. crunch; constructor; cbn; auto.
    all: intros H; apply Hd in H; congruence.
  - unfold step_m. crunch; constructor; cbn; auto.
  - unfold step_env. crunch; constructor; cbn; auto.
Qed.

(* progress: in a state where Do has not returned, some goroutine has a step that strictly decreases the
   variant, unless everything that is left waits for the network (the receiver sits in a read for which the
   server has sent nothing: the armed deadline will fire) or for the caller (the receiver waits to hand a second
   schema block to a sender that no longer listens: only the caller's cancellation ends that) *)
Theorem progress_thm : forall fx sc s,
  pinv sc s ->
  terminal s = false ->
  (exists g alt, is_timeout g alt s = false /\ mu sc (step fx sc g alt s) < mu sc s) \/
  (rmd s = RRead /\ next_read sc s = RdBlock) \/
  (rmd s = RSendInfo /\ ci_item s = true /\ cancelled s = false).
Proof.
  intros fx sc s [Pd Pc Pw] Ht.
  destruct (smd s) eqn:Esm.
  1-5: destruct (blocked_s s) eqn:Ebs.
  all: try (left; exists GS, false; split; [reflexivity|];
            pose proof (mu_step_s fx sc false s) as H; cbv zeta in H; unfold mu; cbn [step];
            destruct H as [H1 [H2 [H3 [H4 [H5 H6]]]]]; specialize (H6 Ebs); rewrite Esm in H6;
            assert (mu_s (step_s fx sc false s) < mu_s s) by (apply H6; discriminate); lia).
  all: try (unfold blocked_s in Ebs; rewrite Esm in Ebs; discriminate).
  (* the sender is blocked on colInfo, or done *)
  all: destruct (rmd s) eqn:Erm.
  all: try (destruct (blocked_r sc s) eqn:Ebr;
            [| left; exists GR, false; split; [unfold is_timeout; rewrite Erm; reflexivity|];
               pose proof (mu_step_r fx sc false s) as H; cbv zeta in H; unfold mu; cbn [step];
               destruct H as [H1 [H2 [H3 [H4 [H5 [H6 H7]]]]]];
               assert (mu_r sc (step_r fx sc false s) < mu_r sc s)
                 by (apply H7; [unfold is_timeout; rewrite Erm; reflexivity|exact Ebr|rewrite Erm; discriminate]); lia]).
  all: try (unfold blocked_r in Ebr; rewrite Erm in Ebr; try discriminate).
  all: try (right; left; split; [reflexivity|]; destruct (next_read sc s); try discriminate; reflexivity).
  all: try (right; right; apply andb_prop in Ebr; destruct Ebr as [E1 E2]; repeat split; auto;
            destruct (cancelled s); auto; discriminate).
  - (* sender blocked on colInfo although the receiver is gone: impossible *)
    exfalso. unfold blocked_s in Ebs. rewrite Esm in Ebs.
    destruct (sprog s) as [|a p] eqn:Ep; try discriminate. destruct a; try discriminate.
    cbn in Pc, Pw. rewrite Pc in Ebs; auto. rewrite orb_true_r in Ebs. discriminate.
  - (* sender and receiver are done *)
    cbn in Pd. left.
    destruct (wmd s) eqn:Ew.
    1-7: exists GW, false; split; [reflexivity|];
         pose proof (mu_step_w fx sc s) as H; cbv zeta in H; unfold mu; cbn [step];
         destruct H as [H1 [H2 [H3 [H4 [H5 H6]]]]];
         assert (mu_w (step_w fx sc s) < mu_w s) by (apply H6; [intros; auto|rewrite Ew; discriminate]); lia.
    exists GM, false; split; [reflexivity|].
    pose proof (mu_step_m fx sc s) as H; cbv zeta in H; unfold mu; cbn [step].
    destruct H as [H1 [H2 [H3 [H4 [H5 H6]]]]].
    assert (mu_m (step_m fx sc s) < mu_m s).
    { apply H6. - intros _. unfold all_done. rewrite Esm, Erm, Ew. reflexivity.
      - unfold terminal in Ht. destruct (mmd s); discriminate. }
    lia.
Qed.

(* ---------------------------------------------------------------- the handshake *)

Definition hinv (s : hst) : Prop :=
  match kmd s with
  | KDone => h_pc s = true -> h_closed s = true /\ has_ctx (h_ret s) = true /\ h_ok s = false
  | _ => True
  end.

Lemma hinv_step : forall a st1 st2 r g alt s, hinv s -> hinv (hstep true a st1 st2 r g alt s).
Proof.
  intros a st1 st2 r g alt [pc gc hd cl ncl e1 rt ok hm dm km] H. unfold hinv in *. cbn in *.
  destruct g; cbn.
  - destruct hm as [| | | | |e|e|]; try destruct e; cbn; repeat (brki; cbn; auto).
  - destruct dm; cbn; repeat (brki; cbn; auto).
    all: intros Hp; destruct (H Hp) as [_ [? ?]]; auto.
  - destruct km; cbn; auto.
    + destruct hm, dm; cbn; auto.
    + destruct pc; cbn.
      * intros _. rewrite has_ctx_add. auto.
      * destruct e1; cbn; intros; congruence.
  - destruct km; cbn; auto.
Qed.

Theorem handshake_cancel_thm : forall a st1 st2 r sched s,
  s = hrun true a st1 st2 r sched hinit -> hterminal s = true -> h_pc s = true ->
  h_closed s = true /\ has_ctx (h_ret s) = true /\ h_ok s = false.
Proof.
  intros a st1 st2 r sched s -> Ht Hp.
  assert (Hall : forall sched s0, hinv s0 -> hinv (hrun true a st1 st2 r sched s0)).
  { induction sched0 as [|[g alt] q IH]; intros s0 H0; cbn [hrun]; auto using hinv_step. }
  specialize (Hall sched hinit I). unfold hinv, hterminal in *.
  destruct (kmd (hrun true a st1 st2 r sched hinit)); try discriminate. auto.
Qed.

(* ---------------------------------------------------------------- the code as found: witnesses *)

Definition rep (n : nat) (g : who) : list (who * bool) := repeat (g, false) n.
Definition mk_sc (k : qkind) (comp gate : bool) (rows0 : nat) (rounds : list cbr) script cutv wf : scen :=
  {| sc_insert := match k with QSel => false | _ => true end; sc_prog := compile k comp gate rows0 rounds;
     sc_script := script; sc_cut := cutv; sc_wfault := wf; sc_cancel_wfault := false; sc_close_err := false |}.

(* finding 7: a result callback fails; the watcher looks at the context after done is closed and before
   errgroup cancels it: S^10 R^5 W^4 R^3 W^2 M *)
Definition sc_w7 := mk_sc QSel false false 0 [] [(1, PCont (Some false)); (1, PCont (Some true)); (1, PEnd)] None None.
Definition sch_w7 := rep 10 GS ++ rep 5 GR ++ rep 4 GW ++ rep 3 GR ++ rep 2 GW ++ rep 2 GM.
(* finding 8: streaming INSERT, the exception arrives while the next block is being encoded *)
Definition sc_w8 := mk_sc QStr false true 2 [CbOk; CbEof] [(1, PInfo); (1, PExc)] None None.
Definition sch_w8 := rep 5 GS ++ rep 4 GR ++ rep 5 GS ++ rep 6 GR ++ rep 4 GW ++ rep 3 GR ++ rep 8 GS ++ rep 2 GM.
(* candidate, now a finding: a partial write coincides with a server exception *)
Definition sc_w9 := mk_sc QIns false false 2 [] [(1, PInfo); (1, PExc)] None (Some (2, true)).
Definition sch_w9 := rep 5 GS ++ rep 4 GR ++ rep 6 GS ++ rep 6 GR ++ rep 4 GW ++ rep 3 GS ++ rep 3 GR ++ rep 2 GM.
(* finding 6: the Cancel packet is preceded by a stray zero byte *)
Definition sc_w6 := mk_sc QSel false false 0 [] [(1, PCont (Some true)); (1, PEnd)] None None.
Definition sch_w6 := rep 10 GS ++ [(GEnv, false)] ++ rep 2 GR ++ [(GR, true)] ++ rep 6 GR ++ rep 8 GW ++ rep 3 GR ++ rep 4 GM.
(* finding 20: the caller cancels, then a server exception arrives *)
Definition sc_w20 := mk_sc QSel false false 0 [] [(1, PExc)] None None.
Definition sch_w20 := rep 10 GS ++ rep 2 GR ++ [(GEnv, false)] ++ rep 6 GR ++ rep 8 GW ++ rep 3 GR ++ rep 4 GM.

Lemma witness_7 : let s := run as_found sc_w7 sch_w7 (init sc_w7) in
  wf_prog true (sc_prog sc_w7) = true /\ terminal s = true /\ failed s = true /\ closed s = false /\ ended s = false.
Proof. vm_compute. repeat split; reflexivity. Qed.
Lemma witness_8 : let s := run as_found sc_w8 sch_w8 (init sc_w8) in
  wf_prog true (sc_prog sc_w8) = true /\ terminal s = true /\ failed s = true /\ closed s = false /\ pend_chunks s = [false; true].
Proof. vm_compute. repeat split; reflexivity. Qed.
Lemma witness_9 : let s := run as_found sc_w9 sch_w9 (init sc_w9) in
  wf_prog true (sc_prog sc_w9) = true /\ terminal s = true /\ failed s = true /\ closed s = false /\ out_boundary (wire s) = false.
Proof. vm_compute. repeat split; reflexivity. Qed.
Lemma witness_6 : let s := run as_found sc_w6 sch_w6 (init sc_w6) in
  terminal s = true /\ failed s = true /\ pcancel s = true /\ no_stray (wire s) = false.
Proof. vm_compute. repeat split; reflexivity. Qed.
Lemma witness_20 : let s := run as_found sc_w20 sch_w20 (init sc_w20) in
  terminal s = true /\ failed s = true /\ pcancel s = true /\ closed s = false /\ has_ctx (ret s) = false /\ count_cancel (wire s) = 0.
Proof. vm_compute. repeat split; reflexivity. Qed.

Theorem do_safe_refuted_thm :
  ~ (forall sc sched s, wf_prog true (sc_prog sc) = true -> s = run as_found sc sched (init sc) ->
       terminal s = true -> failed s = true -> safe s).
Proof.
  intros H. destruct witness_7 as [Hw [Ht [Hf [Hc He]]]].
  destruct (H sc_w7 sch_w7 _ Hw eq_refl Ht Hf) as [Hx|[_ [_ [Hx _]]]]; congruence.
Qed.

Theorem cancel_closes_refuted_thm :
  ~ (forall sc sched s, wf_prog true (sc_prog sc) = true -> s = run as_found sc sched (init sc) ->
       terminal s = true -> failed s = true -> pcancel s = true ->
       closed s = true /\ has_ctx (ret s) = true /\ no_stray (wire s) = true).
Proof.
  intros H. destruct witness_20 as [Ht [Hf [Hp [Hc _]]]].
  destruct (H sc_w20 sch_w20 _ eq_refl eq_refl Ht Hf Hp) as [Hx _]. congruence.
Qed.

(* handshake as found: the hello goroutine finishes its last write, the context ends, the watchdog closes the
   connection: handshake() returns nil *)
Definition hsch_w : list (hwho * bool) :=
  repeat (HH, false) 5 ++ [(HEnv, false)] ++ repeat (HD, false) 2 ++ repeat (HH, false) 2 ++ repeat (HD, false) 2 ++ repeat (HK, false) 2.
Lemma witness_hs : let s := hrun false true false false HrHello hsch_w hinit in
  hterminal s = true /\ h_pc s = true /\ h_closed s = true /\ h_ok s = true.
Proof. vm_compute. repeat split; reflexivity. Qed.
(* and: the context ended before the handshake started, the hello goroutine fails first, the watchdog leaves
   through its other select case: the context's error is returned and the connection stays open *)
Definition hsch_w2 : list (hwho * bool) :=
  [(HEnv, false)] ++ repeat (HH, false) 3 ++ repeat (HD, false) 2 ++ repeat (HK, false) 2.
Lemma witness_hs2 : let s := hrun false true false false HrHello hsch_w2 hinit in
  hterminal s = true /\ h_pc s = true /\ h_closed s = false /\ has_ctx (h_ret s) = true.
Proof. vm_compute. repeat split; reflexivity. Qed.

Theorem handshake_cancel_refuted_thm :
  ~ (forall a st1 st2 r sched s, s = hrun false a st1 st2 r sched hinit -> hterminal s = true -> h_pc s = true ->
       h_closed s = true /\ has_ctx (h_ret s) = true /\ h_ok s = false).
Proof.
  intros H. destruct witness_hs as [Ht [Hp [Hc Ho]]].
  destruct (H true false false HrHello hsch_w _ eq_refl Ht Hp) as [_ [_ Hx]]. congruence.
Qed.

(* the scenarios of the real client keep the writer whole *)
Lemma compile_wf : forall k comp gate rows0 rounds, wf_prog true (compile k comp gate rows0 rounds) = true.
Proof.
  assert (Hb : forall comp gate rows w r, wf_prog true r = true -> wf_prog w (enc_block comp gate rows ++ r) = true).
  { intros comp gate rows w r Hr. unfold enc_block. destruct rows; [cbn; auto|].
    destruct comp, gate; cbn; auto. }
  assert (Hl : forall comp gate rounds r, wf_prog true r = true -> wf_prog true (send_loop comp gate rounds ++ r) = true).
  { intros comp gate rounds. induction rounds as [|c rounds IH]; intros r Hr.
    - cbn [send_loop]. rewrite <- !app_assoc. cbn [app wf_prog]. apply Hb. cbn. auto.
    - cbn [send_loop]. rewrite <- !app_assoc. cbn [app wf_prog]. apply Hb. cbn [app wf_prog andb].
      destruct c; cbn [app wf_prog]; auto.
      all: try (rewrite <- ?app_assoc; apply Hb; auto). }
  intros k comp gate rows0 rounds. unfold compile. destruct k.
  - cbn. reflexivity.
  - cbn [app wf_prog ops_whole rev andb]. rewrite <- ?app_assoc. apply Hb. cbn. reflexivity.
  - cbn [app wf_prog ops_whole rev andb].
    destruct rows0.
    + destruct rounds as [|c r]; [cbn; reflexivity|].
      destruct c; cbn [app wf_prog]; auto.
      * rewrite <- app_assoc. apply Hl. cbn. reflexivity.
      * rewrite <- app_assoc. apply Hb. cbn. reflexivity.
    + rewrite <- app_assoc. apply Hl. cbn. reflexivity.
  - destruct gate; cbn; reflexivity.
Qed.

Lemma pinv_run : forall fx sc sched,
  (has_wait (sc_prog sc) = true -> sc_insert sc = true) -> pinv sc (run fx sc sched (init sc)).
Proof.
  intros fx sc sched H.
  assert (Hall : forall sched s, pinv sc s -> pinv sc (run fx sc sched s)).
  { induction sched0 as [|[g alt] r IH]; intros s Hs; cbn [run]; auto using pinv_step. }
  apply Hall. apply pinv_init. exact H.
Qed.
