(* C03, extension: compressed result blocks made of several frames.

   Part 1  compress.Reader under a decoder: for every list of frames whose payloads concatenate to what the
           decoder accepts, [read_comp] (the decoder re-run on each arrival) returns the decoder's value, leaves
           nothing buffered and the stream right behind the last frame (over proofs/ParserStable.v).
   Part 2  the wire relation: a script on the wire with every compressed block cut into any frames.
   Part 3  one packet, the whole script, the theorems of props/C03.v for every framing.
   Part 4  the executable framed server encoder (model/Recv.v encode_packets_fr) is an instance. *)
From CH Require Import model.Recv.
From CH Require Import proofs.PrimProofs proofs.FieldsProofs proofs.MessagesProofs proofs.ColumnsProofs proofs.ColumnsProofs2
  proofs.CompressProofs proofs.RecvProofs proofs.ParserStable.
From CH Require Import gen.Features gen.Codes gen.Consts.
From Coq Require Import ZifyN ZifyNat ZifyBool.
Ltac Zify.zify_post_hook ::= Z.div_mod_to_equations.
Open Scope N_scope.
Open Scope list_scope.

(* ---------- small facts ------------------------------------------------------------------------ *)
Lemma last_nonempty_concat (d : bytes) (ds : list bytes) :
  last (d :: ds) [] <> [] -> d ++ concat ds <> [].
Proof.
  revert d. induction ds as [|d' ds IH]; intros d Hl.
  - cbn in *. now rewrite app_nil_r.
  - change (last (d :: d' :: ds) []) with (last (d' :: ds) []) in Hl. specialize (IH d' Hl).
    cbn [concat]. intros E. apply app_eq_nil in E as [_ E]. contradiction.
Qed.

(* ---------- Part 1: frames under a decoder ------------------------------------------------------- *)
Section Frames.
  Variable H : bytes -> N * N.
  Variable comp : method -> bytes -> option bytes.
  Variable decomp : N -> bytes -> N -> option bytes.
  Hypothesis codec : codec_rt comp decomp.

  (* a frame within the limits of compress.Reader *)
  Definition frame_fits (md : method * bytes) : Prop :=
    blen (snd md) <= maxDataSize /\
    forall f, compress_frame H comp (fst md) (snd md) = inr f -> blen f <= 25 + maxBlockSize.

  Lemma encode_frames_length : forall l payload,
    encode_frames H comp l = Some payload -> (length l <= length payload)%nat.
  Proof.
    induction l as [|[m d] l IH]; intros payload He; cbn [encode_frames] in He.
    - cbn. lia.
    - destruct (compress_frame H comp m d) as [e|f] eqn:Ef; [discriminate|].
      destruct (encode_frames H comp l) as [r|]; [|discriminate]. injection He as <-.
      specialize (IH _ eq_refl). rewrite app_length. cbn [length].
      destruct (compress_frame_shape H comp decomp _ _ _ Ef) as (c0 & Hc0 & _ & _).
      pose proof (frame_length H comp decomp _ _ _ _ Ef Hc0) as Hl. unfold blen in Hl. lia.
  Qed.

  (* the decoder sees the concatenation of the payloads; it is asked again after every frame *)
  Lemma read_comp_frames {A} (p : parser A) (a : A) : mono p -> stable p ->
    forall l payload carry fuel rest,
      encode_frames H comp l = Some payload -> Forall frame_fits l -> (length l < fuel)%nat ->
      p (carry ++ concat (map snd l)) = Ok a [] ->
      (l <> [] -> last (map snd l) [] <> []) ->
      2 * blen (carry ++ concat (map snd l)) + 4096 <= alloc_cap ->
      read_comp H decomp fuel p carry (payload ++ rest) = Ok (a, []) rest.
  Proof.
    intros Hm Hs. induction l as [|[m d] l IH]; intros payload carry fuel rest He Hfit Hfuel Hok Hlast Hcap.
    - cbn in He. injection He as <-. cbn [map concat] in Hok. rewrite app_nil_r in Hok.
      cbn [app]. now apply read_comp_ok.
    - cbn [encode_frames] in He.
      destruct (compress_frame H comp m d) as [e|f] eqn:Ef; [discriminate|].
      destruct (encode_frames H comp l) as [r|] eqn:Er; [|discriminate]. injection He as <-.
      inversion Hfit as [|x l0 Hx Hfit']; subst. destruct Hx as (Hd & Hf). cbn [fst snd] in Hd, Hf.
      cbn [map concat snd] in Hok, Hcap.
      assert (Hsuf : d ++ concat (map snd l) <> []).
      { apply last_nonempty_concat. apply Hlast. discriminate. }
      pose proof (prefix_eof p carry (d ++ concat (map snd l)) a Hm Hs Hok Hsuf Hcap) as Heof.
      destruct fuel as [|fuel]; [cbn [length] in Hfuel; lia|].
      cbn [read_comp]. rewrite Heof. rewrite <- app_assoc.
      rewrite (read_block_written H comp decomp m d f (r ++ rest) codec Ef Hd (Hf f Ef)).
      apply IH; try assumption.
      + reflexivity.
      + cbn [length] in Hfuel. lia.
      + now rewrite <- app_assoc.
      + intros Hl. specialize (Hlast ltac:(discriminate)). cbn [map snd] in Hlast.
        destruct l as [|md l']; [now elim Hl|]. exact Hlast.
      + now rewrite <- app_assoc.
  Qed.

  (* the frames of one block *)
  Definition frames_of (body payload : bytes) : Prop :=
    exists l : list (method * bytes),
      concat (map snd l) = body /\ last (map snd l) [] <> [] /\
      encode_frames H comp l = Some payload /\ Forall frame_fits l.

  (* the decompressing path of decodeBlock over any framing of the block *)
  Theorem via_frames {A} c (p : parser A) a body payload rest :
    mono p -> stable p -> p body = Ok a [] -> c_comp c = true ->
    frames_of body payload -> 2 * blen body + 4096 <= alloc_cap ->
    via H decomp c true p [] (payload ++ rest) = Ok (a, []) rest.
  Proof.
    intros Hm Hs Hok Hc (l & Hcat & Hlast & He & Hfit) Hcap. unfold via. rewrite Hc. cbn [andb].
    apply (read_comp_frames p a Hm Hs l); try assumption.
    - pose proof (encode_frames_length _ _ He). rewrite app_length. lia.
    - cbn [app]. now rewrite Hcat.
    - intros _. exact Hlast.
    - cbn [app]. now rewrite Hcat.
  Qed.
End Frames.

(* ---------- Part 2 and 3: the script on the wire, every framing ----------------------------------- *)
Section ScriptF.
  Variable conflicts : bytes -> bytes -> bool.
  Variable infer_target : ty -> bytes -> option ty.
  Variable infer_auto : bytes -> option ty.
  Variable H : bytes -> N * N.
  Variable comp : method -> bytes -> option bytes.
  Variable decomp : N -> bytes -> N -> option bytes.
  Hypothesis conflicts_refl : forall s, conflicts s s = false.
  Hypothesis codec : codec_rt comp decomp.

  Notation recv_step := (recv_step conflicts infer_target infer_auto H decomp).
  Notation recv_loop := (recv_loop conflicts infer_target infer_auto H decomp).
  Notation recv := (recv conflicts infer_target infer_auto H decomp).
  Notation dispatch := (dispatch conflicts infer_target infer_auto H decomp).
  Notation on_data := (on_data conflicts infer_target infer_auto H decomp).
  Notation block_parser := (block_parser conflicts infer_target infer_auto).
  Notation accepts := (accepts infer_target).
  Notation fits := (fits infer_target infer_auto).
  Notation pe_fits := (pe_fits infer_target infer_auto).
  Notation rel := RecvProofs.rel.
  Notation R := RecvProofs.R.

  Definition is_comp (c : cfg) (k : bkind) : bool := c_comp c && compressible (Z.to_N (bkind_code k)).

  (* a well-formed packet: as RecvProofs.packet_ok, but a compressed block is bounded only by the allocation
     budget of the model (about 25 GB), not by the limits of a single frame *)
  Definition packet_okF (c : cfg) (tg : rtarget) (p : packet) : Prop :=
    match p with
    | PBlock k info nrows cols =>
      in_i32 (bi_bucket info) /\ nrows <= max_rows /\ (Z.of_nat (length cols) <= maxColumnsInBlock)%Z /\
      (exists cols', Forall2 (col_ok nrows) cols cols' /\
         (is_end_marker nrows cols = false ->
          match k with
          | BData | BTotals => fits tg nrows cols
          | BLog => Forall2 accepts log_fixed cols
          | BPEvents => pe_fits cols
          end)) /\
      (is_comp c k = true ->
       forall body, encode_block (c_build c) (c_rev c) info nrows cols = Some body ->
         2 * blen body + 4096 <= alloc_cap)
    | PProgress xs => fields_typed L_Progress xs = true
    | PProfile xs => fields_typed L_Profile xs = true
    | PTableColumns xs => fields_typed L_TableColumns xs = true
    | PException top next => exc_ok top /\ Forall exc_ok next
    | PEnd => True
    end.

  Fixpoint script_okF (c : cfg) (tg : rtarget) (ps : list packet) : Prop :=
    match ps with
    | [] => True
    | p :: ps' => packet_okF c tg p /\ script_okF c (tg_after tg p) ps'
    end.

  (* a packet on the wire: a compressed block is ANY admissible list of frames whose payloads concatenate to
     the block's encoding and whose last payload is not empty (an empty last frame would not be asked for by the
     decoder and would be taken for the next packet); everything else is what encode_packet writes *)
  Definition wire_packet (c : cfg) (p : packet) (bs : bytes) : Prop :=
    match p with
    | PBlock k info nrows cols =>
      exists body pl, encode_block (c_build c) (c_rev c) info nrows cols = Some body /\
        (if is_comp c k then frames_of H comp body pl else pl = body) /\
        bs = code_byte (bkind_code k) ++ (if gate (c_rev c) FeatureTempTables then put_str [] else []) ++ pl
    | _ => encode_packet H comp MNone c p = Some bs
    end.

  Fixpoint wire_script (c : cfg) (ps : list packet) (stream : bytes) : Prop :=
    match ps with
    | [] => stream = []
    | p :: ps' => exists a b, wire_packet c p a /\ wire_script c ps' b /\ stream = a ++ b
    end.

  Definition uncomp (c : cfg) : cfg := {| c_rev := c_rev c ; c_comp := false ; c_build := c_build c |}.

  Lemma packet_okF_uncomp c tg p : packet_okF c tg p ->
    packet_ok infer_target infer_auto H comp MNone (uncomp c) tg p.
  Proof.
    destruct p as [k info nrows cols|xs|xs|xs|top next|]; cbn [packet_okF packet_ok]; try (intros Hp; exact Hp).
    intros (Hb & Hn & Hc & Hex & _).
    split; [exact Hb|split; [exact Hn|split; [exact Hc|split; [exact Hex|]]]].
    cbn [uncomp c_comp andb]. discriminate.
  Qed.

  Lemma packet_okF_nc c tg p : (forall k i n cs, p = PBlock k i n cs -> is_comp c k = false) ->
    packet_okF c tg p -> packet_ok infer_target infer_auto H comp MNone c tg p.
  Proof.
    intros Hk. destruct p as [k info nrows cols|xs|xs|xs|top next|]; cbn [packet_okF packet_ok]; try (intros Hp; exact Hp).
    intros (Hb & Hn & Hc & Hex & _).
    split; [exact Hb|split; [exact Hn|split; [exact Hc|split; [exact Hex|]]]].
    specialize (Hk _ _ _ _ eq_refl). unfold is_comp in Hk. rewrite Hk. discriminate.
  Qed.

  Lemma spec_step_uncomp c hs ss p : spec_step (uncomp c) hs ss p = spec_step c hs ss p.
  Proof. destruct p as [[| | |] info nrows cols|xs|xs|xs|top next|]; reflexivity. Qed.

  (* a packet that does not go through the decompressing path: the one-frame proof applies as it is *)
  Lemma wire_plain c p bs : (forall k i n cs, p = PBlock k i n cs -> is_comp c k = false) ->
    wire_packet c p bs -> encode_packet H comp MNone c p = Some bs.
  Proof.
    intros Hk. destruct p as [k info nrows cols|xs|xs|xs|top next|]; cbn [wire_packet]; try (intros Hp; exact Hp).
    intros (body & pl & Hb & Hpl & ->). specialize (Hk _ _ _ _ eq_refl). rewrite Hk in Hpl. subst pl.
    cbn [encode_packet]. unfold encode_block_packet. rewrite Hb. unfold is_comp in Hk. rewrite Hk. reflexivity.
  Qed.

  (* Data / Totals through the decompressing path, any framing: the same step as without compression *)
  Lemma data_RF c hs st ss k info nrows cols bs rest :
    (k = BData \/ k = BTotals) -> c_comp c = true ->
    rel st ss -> packet_okF c (s_tg ss) (PBlock k info nrows cols) ->
    wire_packet c (PBlock k info nrows cols) bs ->
    R rest (recv_step c hs st (bs ++ rest)) (spec_step c hs ss (PBlock k info nrows cols)).
  Proof.
    intros Hk Hcomp Hr Hokf Hw.
    pose proof (packet_okF_uncomp _ _ _ Hokf) as Hoku.
    assert (Hic : is_comp c k = true) by (unfold is_comp; rewrite Hcomp; destruct Hk; subst k; reflexivity).
    destruct Hw as (body & pl & Hbody & Hpl & ->). rewrite Hic in Hpl.
    (* the same packet without compression *)
    set (bsU := code_byte (bkind_code k) ++ (if gate (c_rev c) FeatureTempTables then put_str [] else []) ++ body).
    assert (HeU : encode_block_packet H comp MNone (uncomp c) k info nrows cols = Some bsU).
    { unfold encode_block_packet. cbn [uncomp c_build c_rev c_comp andb]. rewrite Hbody. reflexivity. }
    pose proof (data_R conflicts infer_target infer_auto H comp decomp MNone conflicts_refl codec
                  (uncomp c) hs st ss k info nrows cols bsU rest Hk Hr Hoku HeU) as HRU.
    rewrite spec_step_uncomp in HRU.
    enough (Heq : recv_step c hs st ((code_byte (bkind_code k) ++
                    (if gate (c_rev c) FeatureTempTables then put_str [] else []) ++ pl) ++ rest)
                  = recv_step (uncomp c) hs st (bsU ++ rest)) by (rewrite Heq; exact HRU).
    destruct Hokf as (Hb & Hn & Hc & (cols' & Hok & Hfit) & Hsz).
    destruct Hr as (R1 & R2 & R3 & R4).
    assert (Hfit' : is_end_marker nrows cols = false -> fits (r_tg st) nrows cols).
    { intros E. rewrite R2. destruct Hk; subst k; exact (Hfit E). }
    destruct (block_parser_rt conflicts infer_target infer_auto conflicts_refl c (r_tg st) info nrows cols cols' Hb Hn Hc Hok Hfit')
      as (body0 & Hbody0 & Hdec).
    rewrite Hbody in Hbody0. injection Hbody0 as <-.
    destruct (bkind_code_small k) as (Hsmall & Hsc).
    unfold bsU. rewrite <- !app_assoc.
    rewrite !(recv_step_code conflicts infer_target infer_auto H decomp) by assumption.
    assert (Hdisp : forall c0 tail, dispatch c0 hs (Z.to_N (bkind_code k) mod 256) st tail
                    = on_data c0 hs (Z.to_N (bkind_code k)) st tail).
    { intros c0 tail. destruct Hk; subst k; reflexivity. }
    rewrite !Hdisp. unfold Recv.on_data. rewrite R3.
    assert (Hcz : compressible (Z.to_N (bkind_code k)) = true) by (destruct Hk; subst k; reflexivity).
    rewrite Hcz.
    destruct (ms_block_parser conflicts infer_target infer_auto c (r_tg st)) as (Hm & Hs).
    assert (HF : (temp_table (c_rev c) ;;; via H decomp c true (block_parser c (r_tg st)) [])
                   ((if gate (c_rev c) FeatureTempTables then put_str [] else []) ++ pl ++ rest)
                 = Ok (info_at (c_rev c) info, Z.of_nat (length cols), Z.of_N nrows,
                       (if is_end_marker nrows cols then r_tg st else tg_with (r_tg st) cols'), []) rest).
    { unfold bind. rewrite temp_table_rt.
      apply (via_frames H comp decomp codec c _ _ body pl rest Hm Hs); try assumption.
      - rewrite <- (app_nil_r body). apply Hdec.
      - exact (Hsz Hic body Hbody). }
    assert (HU : (temp_table (c_rev (uncomp c)) ;;; via H decomp (uncomp c) true (block_parser (uncomp c) (r_tg st)) [])
                   ((if gate (c_rev c) FeatureTempTables then put_str [] else []) ++ body ++ rest)
                 = Ok (info_at (c_rev c) info, Z.of_nat (length cols), Z.of_N nrows,
                       (if is_end_marker nrows cols then r_tg st else tg_with (r_tg st) cols'), []) rest).
    { unfold bind, uncomp. cbn [c_rev]. rewrite temp_table_rt. unfold via. cbn [c_comp andb].
      change (block_parser {| c_rev := c_rev c ; c_comp := false ; c_build := c_build c |} (r_tg st))
        with (block_parser c (r_tg st)).
      rewrite Hdec. reflexivity. }
    rewrite HF. unfold uncomp in HU |- *. cbn [c_rev] in HU |- *. rewrite HU. reflexivity.
  Qed.

  Lemma packet_RF c hs st ss p bs rest :
    rel st ss -> packet_okF c (s_tg ss) p -> wire_packet c p bs ->
    R rest (recv_step c hs st (bs ++ rest)) (spec_step c hs ss p).
  Proof.
    intros Hr Hok Hw.
    assert (Hplain : (forall k i n cs, p = PBlock k i n cs -> is_comp c k = false) ->
                     R rest (recv_step c hs st (bs ++ rest)) (spec_step c hs ss p)).
    { intros Hk. apply (packet_R conflicts infer_target infer_auto H comp decomp MNone conflicts_refl codec).
      - exact Hr.
      - now apply packet_okF_nc.
      - now apply wire_plain. }
    destruct p as [k info nrows cols|xs|xs|xs|top next|]; try (apply Hplain; discriminate).
    destruct (is_comp c k) eqn:Hic.
    - unfold is_comp in Hic. apply andb_true_iff in Hic as (Hcomp & Hcz).
      apply data_RF; auto. destruct k; auto; discriminate.
    - apply Hplain. now intros k0 i n cs [= <- _ _ _].
  Qed.

  (* ---- the whole script ---------------------------------------------------------------------------- *)
  Lemma wire_packet_nonempty c p a : wire_packet c p a -> (1 <= length a)%nat.
  Proof.
    destruct p as [k info nrows cols|xs|xs|xs|top next|]; cbn [wire_packet encode_packet].
    - intros (body & pl & _ & _ & ->). cbn [code_byte app length]. lia.
    - intros [= <-]. cbn [code_byte app length]. lia.
    - intros [= <-]. cbn [encode_Profile code_byte app length]. lia.
    - intros [= <-]. cbn [encode_TableColumns code_byte app length]. lia.
    - intros [= <-]. cbn [code_byte app length]. lia.
    - intros [= <-]. cbn [code_byte length]. lia.
  Qed.

  Lemma wire_script_length c : forall ps stream, wire_script c ps stream -> (length ps <= length stream)%nat.
  Proof.
    induction ps as [|p ps IH]; intros stream Hw; cbn [wire_script] in Hw.
    - subst. cbn. lia.
    - destruct Hw as (a0 & b & Ha & Hb & ->). rewrite app_length. cbn [length].
      pose proof (wire_packet_nonempty _ _ _ Ha). specialize (IH _ Hb). lia.
  Qed.

  Lemma script_RF c hs : forall ps fuel st ss stream rest,
    rel st ss -> script_okF c (s_tg ss) ps -> wire_script c ps stream -> (length ps < fuel)%nat ->
    match spec_run c hs ss ps with
    | (Some o, ss') => exists st' r, recv_loop fuel c hs st (stream ++ rest) = (o, st', r) /\ rel st' ss'
    | (None, ss') => exists st', rel st' ss' /\
                     recv_loop fuel c hs st (stream ++ rest) = recv_loop (fuel - length ps) c hs st' rest
    end.
  Proof.
    induction ps as [|p ps IH]; intros fuel st ss stream rest Hr Hok Hw Hf.
    - cbn in Hw. subst stream. cbn [spec_run length app]. exists st. split; [exact Hr|]. now rewrite Nat.sub_0_r.
    - cbn [wire_script] in Hw. destruct Hw as (a & b & Ha & Hb & ->).
      destruct Hok as (Hp & Hps).
      destruct fuel as [|fuel]; [cbn [length] in Hf; lia|].
      pose proof (packet_RF c hs st ss p a (b ++ rest) Hr Hp Ha) as HR.
      cbn [spec_run Recv.recv_loop]. rewrite <- app_assoc.
      destruct (spec_step c hs ss p) as [ss1|o ss1] eqn:Es; cbn [RecvProofs.R] in HR.
      + destruct HR as (st1 & -> & Hr1).
        pose proof (spec_step_tg _ _ _ _ _ Es) as Htg. rewrite <- Htg in Hps.
        specialize (IH fuel st1 ss1 b rest Hr1 Hps Hb ltac:(cbn [length] in Hf; lia)).
        destruct (spec_run c hs ss1 ps) as [[o|] ss2]; [exact IH|].
        destruct IH as (st2 & Hr2 & ->). exists st2. split; [exact Hr2|]. reflexivity.
      + destruct HR as (st1 & r & -> & Hr1). eexists _, _. split; [reflexivity|exact Hr1].
  Qed.

  (* ---- the theorems of props/C03.v, for every framing ------------------------------------------------ *)
  Theorem recv_refines_specF c hs tg ps stream rest o :
    script_okF c tg ps -> wire_script c ps stream ->
    expected_outcome c hs tg ps = Some o ->
    exists st r, recv c hs tg (stream ++ rest) = (o, st, r) /\
      r_trace st = expected_trace c hs tg ps /\
      r_tg st = s_tg (snd (spec_run c hs (sst_init tg) ps)) /\ r_carry st = [].
  Proof.
    intros Hok Hw Ho. unfold Recv.recv, expected_outcome, expected_trace in *.
    pose proof (script_RF c hs ps (S (length (stream ++ rest))) (st_init tg) (sst_init tg) stream rest
                  (rel_init tg) Hok Hw) as Hs.
    assert (Hf : (length ps < S (length (stream ++ rest)))%nat).
    { pose proof (wire_script_length c ps stream Hw). rewrite app_length. lia. }
    specialize (Hs Hf).
    destruct (spec_run c hs (sst_init tg) ps) as [[o'|] ss']; cbn [fst snd] in *; [|discriminate].
    injection Ho as ->. destruct Hs as (st' & r & Hrun & (_ & Htg & Hcar & Htr)).
    exists st', r. auto.
  Qed.

  Theorem recv_unterminatedF c hs tg ps stream :
    script_okF c tg ps -> wire_script c ps stream ->
    expected_outcome c hs tg ps = None ->
    exists st r, recv c hs tg stream = (OErr (RDecode EEof), st, r) /\
      r_trace st = expected_trace c hs tg ps.
  Proof.
    intros Hok Hw Ho. unfold Recv.recv, expected_outcome, expected_trace in *.
    pose proof (script_RF c hs ps (S (length stream)) (st_init tg) (sst_init tg) stream []
                  (rel_init tg) Hok Hw) as Hs.
    assert (Hf : (length ps < S (length stream))%nat).
    { pose proof (wire_script_length c ps stream Hw). lia. }
    specialize (Hs Hf). rewrite app_nil_r in Hs.
    destruct (spec_run c hs (sst_init tg) ps) as [[o'|] ss']; cbn [fst snd] in *; [discriminate|].
    destruct Hs as (st' & (_ & _ & _ & Htr) & Hrun). rewrite Hrun.
    destruct (S (length stream) - length ps)%nat as [|k] eqn:Ek; [lia|].
    cbn [Recv.recv_loop]. unfold Recv.recv_step. cbn. eexists _, _. split; [reflexivity|exact Htr].
  Qed.

  Theorem recv_fullF c hs tg ps stream rest :
    script_okF c tg ps -> wire_script c ps stream ->
    (expected_outcome c hs tg ps = None -> rest = []) ->
    exists st r,
      recv c hs tg (stream ++ rest) =
        (match expected_outcome c hs tg ps with Some o => o | None => OErr (RDecode EEof) end, st, r) /\
      r_trace st = expected_trace c hs tg ps.
  Proof.
    intros Hok Hw Hrest. destruct (expected_outcome c hs tg ps) as [o|] eqn:Eo.
    - destruct (recv_refines_specF c hs tg ps stream rest o Hok Hw Eo) as (st & r & Hrun & Htr & _).
      exists st, r. auto.
    - rewrite (Hrest eq_refl), app_nil_r. now apply recv_unterminatedF.
  Qed.

  (* a script without a terminating event leaves the receiver exactly in front of what follows it on the wire:
     nothing of [rest] was read, nothing is left in the decompressing reader *)
  Theorem recv_packet_boundaryF c hs tg ps stream rest fuel :
    script_okF c tg ps -> wire_script c ps stream ->
    expected_outcome c hs tg ps = None -> (length ps < fuel)%nat ->
    exists st, r_carry st = [] /\ r_trace st = expected_trace c hs tg ps /\
      r_tg st = s_tg (snd (spec_run c hs (sst_init tg) ps)) /\
      recv_loop fuel c hs (st_init tg) (stream ++ rest) = recv_loop (fuel - length ps) c hs st rest.
  Proof.
    intros Hok Hw Ho Hf. unfold expected_outcome, expected_trace in *.
    pose proof (script_RF c hs ps fuel (st_init tg) (sst_init tg) stream rest (rel_init tg) Hok Hw Hf) as Hs.
    destruct (spec_run c hs (sst_init tg) ps) as [[o'|] ss']; cbn [fst snd] in *; [discriminate|].
    destruct Hs as (st' & (_ & Htg & Hcar & Htr) & Hrun). exists st'. auto.
  Qed.

  Theorem recv_nil_iffF c hs tg ps stream rest :
    script_okF c tg ps -> wire_script c ps stream ->
    (expected_outcome c hs tg ps = None -> rest = []) ->
    (fst (fst (recv c hs tg (stream ++ rest))) = ONil <->
     exists ps1 ps2, ps = ps1 ++ PEnd :: ps2 /\ expected_outcome c hs tg ps1 = None).
  Proof.
    intros Hok Hw Hrest.
    destruct (recv_fullF c hs tg ps stream rest Hok Hw Hrest) as (st & r & Hrun & _).
    rewrite Hrun. cbn [fst]. unfold expected_outcome in *. rewrite <- spec_nil_iff.
    destruct (fst (spec_run c hs (sst_init tg) ps)) as [o|].
    - split; [now intros ->|now intros [= ->]].
    - split; discriminate.
  Qed.

  Theorem exception_chainF c hs tg ps1 top next ps2 stream rest :
    script_okF c tg (ps1 ++ PException top next :: ps2) ->
    wire_script c (ps1 ++ PException top next :: ps2) stream ->
    expected_outcome c hs tg ps1 = None ->
    let e := {| x_top := top ; x_next := next |} in
    (exists st r, recv c hs tg (stream ++ rest) = (OExc e, st, r) /\
                  r_trace st = expected_trace c hs tg ps1) /\
    (forall code, errors_is e code = true <-> In code (map e_code (top :: next))) /\
    (forall code, is_code e [code] = true <-> e_code top = code).
  Proof.
    intros Hok Hw Hn e. split; [|split; [apply errors_is_chain|apply is_code_top]].
    assert (Hrun : spec_run c hs (sst_init tg) (ps1 ++ PException top next :: ps2) =
                   (Some (OExc e), snd (spec_run c hs (sst_init tg) ps1))).
    { rewrite spec_run_app. unfold expected_outcome in Hn.
      destruct (spec_run c hs (sst_init tg) ps1) as [[o|] s1]; cbn [fst snd] in *; [discriminate|]. reflexivity. }
    destruct (recv_refines_specF c hs tg _ stream rest (OExc e) Hok Hw) as (st & r & Hr & Htr & _).
    { unfold expected_outcome. now rewrite Hrun. }
    exists st, r. split; [exact Hr|]. rewrite Htr. unfold expected_trace. now rewrite Hrun.
  Qed.

  (* ---- Part 4: the executable framed encoder is an instance ------------------------------------------- *)
  Lemma cut_frames_concat : forall sp m b, concat (map snd (cut_frames sp m b)) = b.
  Proof.
    induction sp as [|[m0 n] sp IH]; intros m b; cbn [cut_frames map snd concat].
    - apply app_nil_r.
    - rewrite IH. apply firstn_skipn.
  Qed.

  (* what must hold of a framing: frames within the reader's limits, the last one not empty *)
  Definition framing_ok (c : cfg) (p : packet) (fr : framing) : Prop :=
    match p with
    | PBlock k info nrows cols =>
      is_comp c k = true ->
      forall body, encode_block (c_build c) (c_rev c) info nrows cols = Some body ->
        last (map snd (cut_frames (fst fr) (snd fr) body)) [] <> [] /\
        Forall (frame_fits H comp) (cut_frames (fst fr) (snd fr) body)
    | _ => True
    end.

  Fixpoint framings_ok (c : cfg) (ps : list packet) (frs : list framing) : Prop :=
    match ps with
    | [] => True
    | p :: ps' => framing_ok c p (hd ([], MNone) frs) /\ framings_ok c ps' (tl frs)
    end.

  Lemma encode_packet_fr_wire c p fr bs :
    encode_packet_fr H comp c p fr = Some bs -> framing_ok c p fr -> wire_packet c p bs.
  Proof.
    destruct p as [k info nrows cols|xs|xs|xs|top next|]; cbn [encode_packet_fr wire_packet framing_ok];
      try (intros He _; exact He).
    unfold encode_block_packet_fr. fold (is_comp c k).
    destruct (encode_block (c_build c) (c_rev c) info nrows cols) as [body|]; [|discriminate].
    intros He Hfr. exists body.
    destruct (is_comp c k) eqn:Hic.
    - destruct (encode_frames H comp (cut_frames (fst fr) (snd fr) body)) as [pl|] eqn:Epl; [|discriminate].
      injection He as <-. exists pl. split; [reflexivity|]. split; [|reflexivity].
      destruct (Hfr eq_refl body eq_refl) as (Hlast & Hfit).
      exists (cut_frames (fst fr) (snd fr) body). repeat split; try assumption. apply cut_frames_concat.
    - injection He as <-. exists body. repeat split.
  Qed.

  Theorem encode_packets_fr_wire c : forall ps frs stream,
    encode_packets_fr H comp c ps frs = Some stream -> framings_ok c ps frs -> wire_script c ps stream.
  Proof.
    induction ps as [|p ps IH]; intros frs stream He Hfr; cbn [encode_packets_fr wire_script] in *.
    - now injection He as <-.
    - destruct (encode_packet_fr H comp c p (hd ([], MNone) frs)) as [a|] eqn:Ea; [|discriminate].
      destruct (encode_packets_fr H comp c ps (tl frs)) as [b|] eqn:Eb; [|discriminate]. injection He as <-.
      destruct Hfr as (Hf0 & Hfs). exists a, b. split; [exact (encode_packet_fr_wire c p _ a Ea Hf0)|].
      split; [now apply (IH (tl frs))|reflexivity].
  Qed.
End ScriptF.
