(* C16: a reused column refines a plain list of values.  See model/ColState.v. *)
From CH Require Import model.Columns model.ColState proofs.PrimProofs proofs.ColumnsProofs proofs.ColumnsProofs2.
From CH Require Import gen.Codes gen.Consts.
From Coq Require Import ZifyN ZifyNat ZifyBool.
Ltac Zify.zify_post_hook ::= Z.div_mod_to_equations.
Open Scope N_scope.
Open Scope list_scope.

(* ---------- lists ------------------------------------------------------------------------- *)
Lemma nth_error_snoc_old {A} (l : list A) x i : (i < length l)%nat -> nth_error (l ++ [x]) i = nth_error l i.
Proof. intros H. now apply nth_error_app1. Qed.
Lemma nth_error_snoc_new {A} (l : list A) x : nth_error (l ++ [x]) (length l) = Some x.
Proof. rewrite nth_error_app2 by lia. now rewrite Nat.sub_diag. Qed.

Lemma mapM_ext_in {X Y} (f g : X -> option Y) l : (forall x, In x l -> f x = g x) -> mapM f l = mapM g l.
Proof.
  induction l as [|x l IH]; intros H; cbn [mapM]; [reflexivity|].
  rewrite (H x) by now left. rewrite IH; [reflexivity|]. intros y Hy. apply H. now right.
Qed.

Lemma mapM_app {X Y} (f : X -> option Y) l1 l2 :
  mapM f (l1 ++ l2) = match mapM f l1, mapM f l2 with Some a, Some b => Some (a ++ b) | _, _ => None end.
Proof.
  induction l1 as [|x l1 IH]; cbn [mapM app].
  - destruct (mapM f l2); reflexivity.
  - rewrite IH. destruct (f x); [|reflexivity]. destruct (mapM f l1); [|reflexivity].
    destruct (mapM f l2); reflexivity.
Qed.

Lemma mapM_seq_nth {Y} (f : nat -> option Y) (l : list Y) s :
  (forall k, (k < length l)%nat -> f (s + k)%nat = nth_error l k) -> mapM f (seq s (length l)) = Some l.
Proof.
  revert s. induction l as [|y l IH]; intros s H; cbn [length seq mapM]; [reflexivity|].
  specialize (H O) as H0. rewrite Nat.add_0_r in H0. rewrite H0 by (cbn [length]; lia). cbn [nth_error].
  rewrite IH; [reflexivity|]. intros k Hk. replace (S s + k)%nat with (s + S k)%nat by lia.
  rewrite H by (cbn [length]; lia). reflexivity.
Qed.

Lemma mapM_nth {X Y} (f : X -> option Y) l r : mapM f l = Some r ->
  forall i x, nth_error l i = Some x -> exists y, f x = Some y /\ nth_error r i = Some y.
Proof.
  revert r. induction l as [|a l IH]; intros r H i x Hi; [destruct i; discriminate|].
  cbn [mapM] in H. destruct (f a) as [y|] eqn:E; [|discriminate].
  destruct (mapM f l) as [r'|] eqn:E2; [|discriminate]. injection H as <-.
  destruct i as [|i]; cbn [nth_error] in *.
  - injection Hi as <-. exists y. now split.
  - now apply (IH r' eq_refl).
Qed.

Lemma fold_opt_app {D V} (f : D -> V -> option D) l1 l2 d :
  fold_opt f (l1 ++ l2) d = match fold_opt f l1 d with Some d1 => fold_opt f l2 d1 | None => None end.
Proof.
  revert d. induction l1 as [|x l1 IH]; intros d; cbn [fold_opt app]; [reflexivity|].
  destruct (f d x); [apply IH|reflexivity].
Qed.

Lemma last_or0_snoc l x : last_or0 (l ++ [x]) = x.
Proof. unfold last_or0. apply last_last. Qed.

Lemma last_nonempty {A} (l : list A) : forall y p q, last (y :: l) p = last (y :: l) q.
Proof.
  induction l as [|z l IH]; intros y p q; [reflexivity|].
  change (last (y :: z :: l) p) with (last (z :: l) p). change (last (y :: z :: l) q) with (last (z :: l) q). apply IH.
Qed.
Lemma last_cons {A} (l : list A) x p : last (x :: l) p = last l x.
Proof. destruct l as [|y l]; [reflexivity|]. change (last (x :: y :: l) p) with (last (y :: l) p). apply last_nonempty. Qed.

Lemma monotoneb_snoc l : forall p x, monotoneb p l = true -> last l p <= x -> monotoneb p (l ++ [x]) = true.
Proof.
  induction l as [|y l IH]; intros p x H Hx.
  - cbn [monotoneb app last] in *. rewrite andb_true_r. now apply N.leb_le.
  - rewrite last_cons in Hx. cbn [monotoneb app] in *. apply andb_true_iff in H as [H1 H2]. rewrite H1. cbn [andb].
    now apply IH.
Qed.

Lemma nth_last_or0 (l : list N) j : length l = S j -> nth j l 0 = last_or0 l.
Proof.
  unfold last_or0. revert j. induction l as [|x l IH]; intros j H; [discriminate|].
  cbn [length] in H. destruct l as [|y l].
  - destruct j; [reflexivity|discriminate].
  - destruct j as [|j]; [discriminate|]. cbn [nth]. change (last (x :: y :: l) 0) with (last (y :: l) 0).
    apply IH. cbn [length] in *; lia.
Qed.

Lemma monotone_nth_le l i e : monotoneb 0 l = true -> nth_error l i = Some e -> e <= last_or0 l.
Proof.
  intros Hm Hi. destruct (monotone_le_last l 0 Hm) as [Ha _]. rewrite Forall_forall in Ha.
  apply Ha. eapply nth_error_In; eassumption.
Qed.

(* start of slice i *)
Definition slice_start (offs : list N) (i : nat) : N := match i with O => 0 | S j => nth j offs 0 end.

Lemma slice_start_le offs i e : monotoneb 0 offs = true -> nth_error offs i = Some e -> slice_start offs i <= e.
Proof.
  revert i. assert (G : forall l p i e, monotoneb p l = true -> nth_error l i = Some e ->
                          p <= e /\ match i with O => True | S j => nth j l 0 <= e end).
  { induction l as [|x l IH]; intros p i e' Hm Hi; [destruct i; discriminate|].
    cbn [monotoneb] in Hm. apply andb_true_iff in Hm as [H1 H2]. apply N.leb_le in H1.
    destruct i as [|i]; cbn [nth_error] in Hi.
    - injection Hi as <-. split; [exact H1|exact I].
    - destruct (IH x i e' H2 Hi) as [Ha Hb]. split; [lia|].
      destruct i as [|i]; cbn [nth]; [exact Ha|exact Hb]. }
  intros i Hm Hi. destruct (G offs 0 i e Hm Hi) as [Ha Hb]. destruct i; cbn [slice_start]; [lia|exact Hb].
Qed.

(* ---------- the invariant of a usable column -------------------------------------------------- *)
(* nothing is said about derived fields: LowCardinality index / key / keys, Enum raw codes *)
Fixpoint good (t : ty) (d : cdata) : Prop :=
  match t, d with
  | TFix _ w, DFix vs => Forall (fun v => v < 256 ^ N.of_nat w) vs
  | TBool, DBool vs => Forall (fun v => v = 0 \/ v = 1) vs
  | TUUID, DBytes vs => Forall (fun x => length x = 16%nat /\ wf_bytes x) vs
  | TStr, DBytes vs | TJSON, DBytes vs => Forall (fun x => wf_bytes x /\ blen x < 2 ^ 63) vs
  | TFixedStr sz, DFixedStr buf => (exists k, length buf = (k * sz)%nat) /\ wf_bytes buf
  | TNothing, DNothing _ => True
  | TPoint, DPoint xs ys =>
    length xs = length ys /\ Forall (fun v => v < 2 ^ 64) xs /\ Forall (fun v => v < 2 ^ 64) ys
  | TEnum _ _ _, DEnum _ _ => True
  | TArr t', DArr offs d' => monotoneb 0 offs = true /\ rows t' d' = last_or0 offs /\ good t' d'
  | TNullable t', DNullable nulls d' =>
    blen nulls = rows t' d' /\ Forall (fun v => v < 256) nulls /\ good t' d'
  | TLowCard t', DLowCard vals _ _ _ => forallb (has_ty t') vals = true
  | TMap tk tv, DMap offs dk dv =>
    monotoneb 0 offs = true /\ rows tk dk = last_or0 offs /\ rows tv dv = last_or0 offs /\
    good tk dk /\ good tv dv
  | TTuple ts, DTuple ds =>
    all2 (fun t0 d0 => good t0 d0 /\ rows t0 d0 = rows (TTuple ts) (DTuple ds)) ts ds
  | TNamed _ t', _ => good t' d
  | _, _ => False
  end.

(* [d'] holds the rows of [d] followed by [l] *)
Definition ext (t : ty) (d d' : cdata) (l : list val) : Prop :=
  rows t d' = rows t d + N.of_nat (length l) /\
  (forall i, (i < nrows t d)%nat -> row t d' i = row t d i) /\
  (forall k, (k < length l)%nat -> row t d' (nrows t d + k) = nth_error l k).

Lemma ext_refl t d : ext t d d [].
Proof. split; [cbn [length]; lia|]. split; [reflexivity|]. intros k Hk. cbn [length] in Hk. lia. Qed.

Lemma ext_trans t d0 d1 d2 l1 l2 : ext t d0 d1 l1 -> ext t d1 d2 l2 -> ext t d0 d2 (l1 ++ l2).
Proof.
  intros [R1 [O1 N1]] [R2 [O2 N2]].
  assert (Hn : nrows t d1 = (nrows t d0 + length l1)%nat) by (unfold nrows; rewrite R1; lia).
  split; [rewrite R2, R1, app_length; lia|]. split.
  - intros i Hi. rewrite O2 by lia. now apply O1.
  - intros k Hk. rewrite app_length in Hk. destruct (Nat.lt_ge_cases k (length l1)) as [Hlt|Hge].
    + rewrite O2 by lia. rewrite N1 by exact Hlt. now rewrite nth_error_app1.
    + replace (nrows t d0 + k)%nat with (nrows t d1 + (k - length l1))%nat by lia.
      rewrite N2 by lia. now rewrite nth_error_app2.
Qed.

Lemma abs_ext t d d' l0 l : abs t d = Some l0 -> ext t d d' l -> abs t d' = Some (l0 ++ l).
Proof.
  intros Ha [R [O Nw]]. unfold abs in *.
  replace (nrows t d') with (nrows t d + length l)%nat by (unfold nrows; rewrite R; lia).
  rewrite seq_app, mapM_app.
  rewrite (mapM_ext_in (row t d') (row t d)) by (intros i Hi; apply in_seq in Hi; apply O; lia).
  rewrite Ha. cbn [Nat.add]. rewrite mapM_seq_nth; [reflexivity|exact Nw].
Qed.

Lemma abs_rows t d l : abs t d = Some l -> length l = nrows t d.
Proof. unfold abs. intros H. apply mapM_length in H. now rewrite seq_length in H. Qed.

Lemma abs_same t d d' : rows t d' = rows t d -> (forall i, row t d' i = row t d i) -> abs t d' = abs t d.
Proof. intros R H. unfold abs, nrows. rewrite R. apply mapM_ext_in. intros; apply H. Qed.

(* ---------- Append adds exactly one row, with its value, and changes no earlier row ----------- *)
Definition app_ok (t : ty) : Prop := forall d v, good t d -> has_ty t v = true ->
  exists d', append t d v = Some d' /\ good t d' /\ ext t d d' [v].

Lemma append_all_ok t : app_ok t -> forall l d, good t d -> forallb (has_ty t) l = true ->
  exists d', append_all t d l = Some d' /\ good t d' /\ ext t d d' l.
Proof.
  intros Hok. unfold append_all. induction l as [|v l IH]; intros d Hg Hl; cbn [fold_opt].
  - exists d. split; [reflexivity|]. split; [exact Hg|apply ext_refl].
  - cbn [forallb] in Hl. apply andb_true_iff in Hl as [Hv Hl].
    destruct (Hok d v Hg Hv) as [d1 [E1 [G1 X1]]]. rewrite E1.
    destruct (IH d1 G1 Hl) as [d2 [E2 [G2 X2]]]. exists d2. split; [exact E2|]. split; [exact G2|].
    change (v :: l) with ([v] ++ l). eapply ext_trans; eassumption.
Qed.

Ltac ext_list :=
  unfold ext, nrows; cbn [rows row length]; unfold blen; rewrite ?app_length; cbn [length];
  split; [lia|]; split;
  [ intros i Hi; rewrite ?nth_error_snoc_old by lia; reflexivity
  | intros k Hk; assert (k = 0)%nat by lia; subst k; rewrite Nat.add_0_r, Nat2N.id, ?nth_error_snoc_new ].

Lemma app_ok_fix name w : app_ok (TFix name w).
Proof.
  intros d v Hg Hv. destruct d; cbn [good] in Hg; try contradiction. destruct v; cbn [has_ty] in Hv; try discriminate.
  cbn [append]. rewrite Hv. eexists; split; [reflexivity|]. split.
  - cbn [good]. apply Forall_app. split; [exact Hg|]. constructor; [now apply N.ltb_lt|constructor].
  - ext_list. reflexivity.
Qed.

Lemma app_ok_bool : app_ok TBool.
Proof.
  intros d v Hg Hv. destruct d; cbn [good] in Hg; try contradiction. destruct v; cbn [has_ty] in Hv; try discriminate.
  cbn [append]. eexists; split; [reflexivity|]. split.
  - cbn [good]. apply Forall_app. split; [exact Hg|]. constructor; [destruct b; auto|constructor].
  - ext_list. now destruct b.
Qed.

Lemma app_ok_uuid : app_ok TUUID.
Proof.
  intros d v Hg Hv. destruct d; cbn [good] in Hg; try contradiction. destruct v; cbn [has_ty] in Hv; try discriminate.
  apply andb_true_iff in Hv as [H1 H2]. cbn [append]. rewrite H1. eexists; split; [reflexivity|]. split.
  - cbn [good]. apply Forall_app. split; [exact Hg|]. constructor; [|constructor].
    split; [now apply Nat.eqb_eq|now apply wf_bytesb_spec].
  - ext_list. reflexivity.
Qed.

Lemma app_ok_str : app_ok TStr.
Proof.
  intros d v Hg Hv. destruct d; cbn [good] in Hg; try contradiction. destruct v; cbn [has_ty] in Hv; try discriminate.
  apply andb_true_iff in Hv as [H1 H2]. cbn [append]. eexists; split; [reflexivity|]. split.
  - cbn [good]. apply Forall_app. split; [exact Hg|]. constructor; [|constructor].
    split; [now apply wf_bytesb_spec|now apply N.ltb_lt].
  - ext_list. reflexivity.
Qed.

Lemma app_ok_json : app_ok TJSON.
Proof.
  intros d v Hg Hv. destruct d; cbn [good] in Hg; try contradiction. destruct v; cbn [has_ty] in Hv; try discriminate.
  apply andb_true_iff in Hv as [H1 H2]. cbn [append]. eexists; split; [reflexivity|]. split.
  - cbn [good]. apply Forall_app. split; [exact Hg|]. constructor; [|constructor].
    split; [now apply wf_bytesb_spec|now apply N.ltb_lt].
  - ext_list. reflexivity.
Qed.

Lemma app_ok_nothing : app_ok TNothing.
Proof.
  intros d v Hg Hv. destruct d; cbn [good] in Hg; try contradiction. destruct v; cbn [has_ty] in Hv; try discriminate.
  cbn [append]. eexists; split; [reflexivity|]. split; [exact I|].
  unfold ext, nrows; cbn [rows row length]. split; [lia|]. split.
  - intros i Hi. replace (N.of_nat i <? n + 1) with true by lia. replace (N.of_nat i <? n) with true by lia. reflexivity.
  - intros k Hk. assert (k = 0)%nat by lia. subst k. replace (N.of_nat (N.to_nat n + 0) <? n + 1) with true by lia. reflexivity.
Qed.

Lemma app_ok_point : app_ok TPoint.
Proof.
  intros d v Hg Hv. destruct d; cbn [good] in Hg; try contradiction. destruct v; cbn [has_ty] in Hv; try discriminate.
  destruct Hg as [Hl [Hx Hy]]. cbn [append]. rewrite Hv. apply andb_true_iff in Hv as [H1 H2].
  eexists; split; [reflexivity|]. split.
  - cbn [good]. rewrite !app_length, Hl. split; [reflexivity|].
    split; apply Forall_app; (split; [assumption|]); (constructor; [now apply N.ltb_lt|constructor]).
  - unfold ext, nrows; cbn [rows row length]; unfold blen; rewrite ?app_length; cbn [length].
    split; [lia|]. split.
    + intros i Hi. rewrite !nth_error_snoc_old by lia. reflexivity.
    + intros k Hk. assert (k = 0)%nat by lia. subst k. rewrite Nat.add_0_r, Nat2N.id, nth_error_snoc_new.
      rewrite Hl, nth_error_snoc_new. reflexivity.
Qed.

Lemma app_ok_enum name w defs : app_ok (TEnum name w defs).
Proof.
  intros d v Hg Hv. destruct d; cbn [good] in Hg; try contradiction. destruct v; cbn [has_ty] in Hv; try discriminate.
  cbn [append]. eexists; split; [reflexivity|]. split; [exact I|].
  unfold ext, nrows; cbn [rows row length]; rewrite ?app_length; cbn [length].
  split; [lia|]. split.
  - intros i Hi. rewrite nth_error_snoc_old by lia. reflexivity.
  - intros k Hk. assert (k = 0)%nat by lia. subst k. rewrite Nat.add_0_r, Nat2N.id, nth_error_snoc_new. reflexivity.
Qed.

Lemma app_ok_lc t' : app_ok (TLowCard t').
Proof.
  intros d v Hg Hv. destruct d; cbn [good] in Hg; try contradiction. cbn [has_ty] in Hv.
  cbn [append]. eexists; split; [reflexivity|]. split.
  - cbn [good]. rewrite forallb_app, Hg. cbn [forallb]. now rewrite Hv.
  - unfold ext, nrows; cbn [rows row length]; rewrite ?app_length; cbn [length].
    split; [lia|]. split.
    + intros i Hi. rewrite nth_error_snoc_old by lia. reflexivity.
    + intros k Hk. assert (k = 0)%nat by lia. subst k. rewrite Nat.add_0_r, Nat2N.id, nth_error_snoc_new. reflexivity.
Qed.

Lemma app_ok_fstr sz : (0 < sz)%nat -> app_ok (TFixedStr sz).
Proof.
  intros Hsz d v Hg Hv. destruct d; cbn [good] in Hg; try contradiction. destruct v; cbn [has_ty] in Hv; try discriminate.
  destruct Hg as [[k Hk] Hwf]. apply andb_true_iff in Hv as [H1 H2]. cbn [append]. rewrite H1.
  apply Nat.eqb_eq in H1. apply wf_bytesb_spec in H2.
  eexists; split; [reflexivity|]. split.
  - cbn [good]. split; [exists (S k); rewrite app_length; lia|now apply wf_app].
  - assert (Hrows : forall m (x : bytes), length x = (m * sz)%nat -> rows (TFixedStr sz) (DFixedStr x) = N.of_nat m).
    { intros m x Hx. cbn [rows]. destruct sz; [lia|]. unfold blen. rewrite Hx. rewrite Nat2N.inj_mul.
      rewrite N.div_mul by lia. reflexivity. }
    unfold ext, nrows. rewrite (Hrows (S k) (buf ++ b)) by (rewrite app_length; lia). rewrite (Hrows k buf Hk). cbn [length].
    split; [lia|]. rewrite Nat2N.id. split.
    + intros i Hi. cbn [row]. rewrite app_length.
      replace (Nat.leb ((i + 1) * sz) (length buf + length b)) with true by (symmetry; apply Nat.leb_le; nia).
      replace (Nat.leb ((i + 1) * sz) (length buf)) with true by (symmetry; apply Nat.leb_le; nia).
      do 2 f_equal. rewrite skipn_app. replace (i * sz - length buf)%nat with O by nia. rewrite skipn_O.
      rewrite firstn_app. replace (sz - length (skipn (i * sz) buf))%nat with O by (rewrite skipn_length; nia).
      rewrite firstn_O, app_nil_r. reflexivity.
    + intros j Hj. assert (j = 0)%nat by lia. subst j. rewrite Nat.add_0_r. cbn [row nth_error]. rewrite app_length.
      replace (Nat.leb ((k + 1) * sz) (length buf + length b)) with true by (symmetry; apply Nat.leb_le; nia).
      do 2 f_equal. rewrite skipn_app. rewrite <- Hk. rewrite skipn_all, Nat.sub_diag, skipn_O. cbn [app].
      rewrite <- H1. apply firstn_all.
Qed.

Lemma app_ok_nullable t' : app_ok t' -> app_ok (TNullable t').
Proof.
  intros IH d v Hg Hv. destruct d; cbn [good] in Hg; try contradiction. destruct v; cbn [has_ty] in Hv; try discriminate.
  destruct Hg as [Hl [Hn Hg]]. destruct (IH d v Hg Hv) as [d1 [E1 [G1 [R1 [O1 N1]]]]].
  cbn [append]. rewrite E1. eexists; split; [reflexivity|]. split.
  - cbn [good]. split; [unfold blen in *; rewrite app_length; cbn [length] in *; lia|].
    split; [|exact G1]. apply Forall_app. split; [exact Hn|]. constructor; [destruct set; lia|constructor].
  - unfold ext, nrows. cbn [rows row length]. unfold blen in *. rewrite app_length. cbn [length]. split; [lia|]. split.
    + intros i Hi. rewrite nth_error_snoc_old by lia. rewrite O1 by (unfold nrows; lia). reflexivity.
    + intros k Hk. assert (k = 0)%nat by lia. subst k. rewrite Nat.add_0_r, Nat2N.id, nth_error_snoc_new.
      specialize (N1 O). rewrite Nat.add_0_r in N1. unfold nrows in N1. rewrite <- Hl, Nat2N.id in N1.
      rewrite N1 by (cbn [length]; lia). cbn [nth_error]. destruct set; reflexivity.
Qed.

Lemma slice_start_snoc offs x i : (i <= length offs)%nat ->
  match i with O => 0 | S j => nth j (offs ++ [x]) 0 end = match i with O => 0 | S j => nth j offs 0 end.
Proof. intros H. destruct i; [reflexivity|]. now rewrite app_nth1 by lia. Qed.

Lemma slice_start_last offs : match length offs with O => 0 | S j => nth j offs 0 end = last_or0 offs.
Proof.
  destruct (length offs) as [|j] eqn:E.
  - destruct offs; [reflexivity|discriminate].
  - now apply nth_last_or0.
Qed.

Lemma app_ok_arr t' : app_ok t' -> app_ok (TArr t').
Proof.
  intros IH d v Hg Hv. destruct d; cbn [good] in Hg; try contradiction. destruct v; cbn [has_ty] in Hv; try discriminate.
  destruct Hg as [Hm [Hr Hg]].
  destruct (append_all_ok t' IH l d Hg Hv) as [d1 [E1 [G1 [R1 [O1 N1]]]]].
  cbn [append]. unfold append_all in E1. rewrite E1. eexists; split; [reflexivity|]. split.
  - cbn [good]. split; [apply monotoneb_snoc; [exact Hm|fold (last_or0 offs); lia]|].
    split; [now rewrite last_or0_snoc|exact G1].
  - unfold ext, nrows. cbn [rows length]. unfold blen. rewrite app_length. cbn [length]. split; [lia|].
    rewrite Nat2N.id. split.
    + intros i Hi. cbn [row]. rewrite nth_error_snoc_old by lia.
      destruct (nth_error offs i) as [e|] eqn:Ei; [|reflexivity].
      rewrite slice_start_snoc by lia. f_equal. apply mapM_ext_in. intros x Hx. apply in_seq in Hx. apply O1.
      unfold nrows. pose proof (monotone_nth_le offs i e Hm Ei) as H1.
      pose proof (slice_start_le offs i e Hm Ei) as H2. unfold slice_start in H2. lia.
    + intros k Hk. assert (k = 0)%nat by lia. subst k. rewrite Nat.add_0_r. cbn [row nth_error].
      rewrite nth_error_snoc_new. rewrite slice_start_snoc by lia. rewrite slice_start_last, <- Hr, R1.
      replace (N.to_nat (rows t' d + N.of_nat (length l)) - N.to_nat (rows t' d))%nat with (length l) by lia.
      fold (nrows t' d). rewrite mapM_seq_nth by exact N1. reflexivity.
Qed.

Definition pair_step (tk tv : ty) :=
  fun (ab : cdata * cdata) (xy : val * val) =>
    match append tk (fst ab) (fst xy), append tv (snd ab) (snd xy) with
    | Some a', Some b' => Some (a', b')
    | _, _ => None
    end.

Lemma fold_pair_ok tk tv : app_ok tk -> app_ok tv -> forall l dk dv, good tk dk -> good tv dv ->
  forallb (fun '(a, b) => has_ty tk a && has_ty tv b) l = true ->
  exists dk' dv', fold_opt (pair_step tk tv) l (dk, dv) = Some (dk', dv') /\ good tk dk' /\ good tv dv' /\
                  ext tk dk dk' (map fst l) /\ ext tv dv dv' (map snd l).
Proof.
  intros Hk Hv. induction l as [|[a b] l IH]; intros dk dv Gk Gv Hl; cbn [fold_opt map].
  - exists dk, dv. split; [reflexivity|]. split; [exact Gk|]. split; [exact Gv|]. split; apply ext_refl.
  - cbn [forallb] in Hl. apply andb_true_iff in Hl as [Hab Hl]. apply andb_true_iff in Hab as [Ha Hb].
    destruct (Hk dk a Gk Ha) as [dk1 [Ek [Gk1 Xk]]]. destruct (Hv dv b Gv Hb) as [dv1 [Ev [Gv1 Xv]]].
    unfold pair_step at 1. cbn [fst snd]. rewrite Ek, Ev.
    destruct (IH dk1 dv1 Gk1 Gv1 Hl) as [dk2 [dv2 [E2 [Gk2 [Gv2 [Xk2 Xv2]]]]]].
    exists dk2, dv2. split; [exact E2|]. split; [exact Gk2|]. split; [exact Gv2|]. split.
    + change (a :: map fst l) with ([a] ++ map fst l). eapply ext_trans; eassumption.
    + change (b :: map snd l) with ([b] ++ map snd l). eapply ext_trans; eassumption.
Qed.

Lemma app_ok_map tk tv : app_ok tk -> app_ok tv -> app_ok (TMap tk tv).
Proof.
  intros IHk IHv d v Hg Hv. destruct d; cbn [good] in Hg; try contradiction. destruct v; cbn [has_ty] in Hv; try discriminate.
  destruct Hg as [Hm [Hrk [Hrv [Gk Gv]]]].
  destruct (fold_pair_ok tk tv IHk IHv l d1 d2 Gk Gv Hv) as [dk [dv [E [Gk1 [Gv1 [[Rk [Ok Nk]] [Rv [Ov Nv]]]]]]]].
  cbn [append]. fold (pair_step tk tv). rewrite E. eexists; split; [reflexivity|].
  rewrite map_length in Rk, Rv. split.
  - cbn [good]. split; [apply monotoneb_snoc; [exact Hm|fold (last_or0 offs); lia]|].
    rewrite last_or0_snoc. repeat split; try assumption. lia.
  - unfold ext, nrows. cbn [rows length]. unfold blen. rewrite app_length. cbn [length]. split; [lia|].
    rewrite Nat2N.id. split.
    + intros i Hi. cbn [row]. rewrite nth_error_snoc_old by lia.
      destruct (nth_error offs i) as [e|] eqn:Ei; [|reflexivity].
      rewrite slice_start_snoc by lia. f_equal. apply mapM_ext_in. intros x Hx. apply in_seq in Hx.
      pose proof (monotone_nth_le offs i e Hm Ei) as H1.
      pose proof (slice_start_le offs i e Hm Ei) as H2. unfold slice_start in H2.
      rewrite Ok by (unfold nrows; lia). rewrite Ov by (unfold nrows; lia). reflexivity.
    + intros k Hk. assert (k = 0)%nat by lia. subst k. rewrite Nat.add_0_r. cbn [row nth_error].
      rewrite nth_error_snoc_new. rewrite slice_start_snoc by lia. rewrite slice_start_last, <- Hrk, Rk.
      replace (N.to_nat (rows tk d1 + N.of_nat (length l)) - N.to_nat (rows tk d1))%nat with (length l) by lia.
      rewrite mapM_seq_nth; [reflexivity|]. intros k Hk'.
      assert (Hn : nrows tv d2 = N.to_nat (rows tk d1)) by (unfold nrows; lia).
      specialize (Nk k). specialize (Nv k). rewrite map_length in Nk, Nv. unfold nrows in Nk. rewrite Hn in Nv.
      rewrite Nk, Nv by exact Hk'. rewrite !nth_error_map. destruct (nth_error l k) as [[a b]|]; reflexivity.
Qed.

Lemma tuple_members ts : Forall app_ok ts -> forall ds l n,
  all2 (fun t0 d0 => good t0 d0 /\ rows t0 d0 = n) ts ds -> all2b has_ty ts l = true ->
  exists ds', map3o append ts ds l = Some ds' /\
    all2 (fun t0 d0 => good t0 d0 /\ rows t0 d0 = n + 1) ts ds' /\
    (forall i, (i < N.to_nat n)%nat ->
       map2o (fun t0 d0 => row t0 d0 i) ts ds' = map2o (fun t0 d0 => row t0 d0 i) ts ds) /\
    map2o (fun t0 d0 => row t0 d0 (N.to_nat n)) ts ds' = Some l.
Proof.
  induction 1 as [|t0 ts H0 Hts IH]; intros ds l n Hg Hl.
  - destruct ds; [|contradiction]. destruct l; [|discriminate]. exists []. repeat split; reflexivity.
  - destruct ds as [|d0 ds]; [contradiction|]. destruct l as [|v0 l]; [discriminate|].
    cbn [all2] in Hg. destruct Hg as [[G0 R0] Hg]. cbn [all2b] in Hl. apply andb_true_iff in Hl as [Hv0 Hl].
    destruct (H0 d0 v0 G0 Hv0) as [d0' [E0 [G0' [R0' [O0 N0]]]]].
    destruct (IH ds l n Hg Hl) as [ds' [E [G' [Old Nw]]]].
    exists (d0' :: ds'). cbn [map3o]. rewrite E0, E. split; [reflexivity|]. split.
    + cbn [all2]. split; [split; [exact G0'|cbn [length] in R0'; lia]|exact G'].
    + split.
      * intros i Hi. cbn [map2o]. rewrite O0 by (unfold nrows; lia). now rewrite Old.
      * cbn [map2o]. specialize (N0 O). rewrite Nat.add_0_r in N0. unfold nrows in N0. rewrite R0 in N0.
        rewrite N0 by (cbn [length]; lia). cbn [nth_error]. now rewrite Nw.
Qed.

Lemma app_ok_tuple ts : ts <> [] -> Forall app_ok ts -> app_ok (TTuple ts).
Proof.
  intros Hne IH d v Hg Hv. destruct d; cbn [good] in Hg; try contradiction. destruct v; cbn [has_ty] in Hv; try discriminate.
  destruct (tuple_members ts IH ds l _ Hg Hv) as [ds' [E [G' [Old Nw]]]].
  cbn [append]. rewrite E. cbn [option_map]. eexists; split; [reflexivity|].
  assert (Hr : rows (TTuple ts) (DTuple ds') = rows (TTuple ts) (DTuple ds) + 1).
  { destruct ts as [|t0 ts]; [contradiction|]. destruct ds' as [|d0' ds']; [contradiction|].
    destruct G' as [[_ R] _]. cbn [rows] in *. exact R. }
  split.
  - cbn [good]. rewrite Hr. exact G'.
  - unfold ext, nrows. rewrite Hr. cbn [length]. split; [lia|]. split.
    + intros i Hi. cbn [row]. now rewrite Old.
    + intros k Hk. assert (k = 0)%nat by lia. subst k. rewrite Nat.add_0_r. cbn [row nth_error]. now rewrite Nw.
Qed.

Lemma app_ok_named name t' : app_ok t' -> app_ok (TNamed name t').
Proof.
  intros IH d v Hg Hv. destruct (IH d v Hg Hv) as [d' [E [G X]]]. exists d'. split; [exact E|]. split; [exact G|exact X].
Qed.

Lemma tuples_ok_nonempty ts : tuples_ok (TTuple ts) = true -> ts <> [].
Proof. destruct ts; [discriminate|discriminate]. Qed.

Theorem append_ok : forall t, c16_ty t = true -> app_ok t.
Proof.
  unfold c16_ty.
  induction t as [name w| | | | |sz| | |name w defs|t IH|t IH|t IH|k v IHk IHv|ts IH|name t IH] using ty_ind';
    intros Hc; apply andb_true_iff in Hc as [Hw Ht]; cbn [wf_ty tuples_ok] in Hw, Ht.
  - apply app_ok_fix.
  - apply app_ok_bool.
  - apply app_ok_uuid.
  - apply app_ok_str.
  - apply app_ok_json.
  - apply app_ok_fstr. apply andb_true_iff in Hw as [Hw _]. now apply Nat.ltb_lt.
  - apply app_ok_nothing.
  - apply app_ok_point.
  - apply app_ok_enum.
  - apply app_ok_arr, IH. now rewrite Hw, Ht.
  - apply app_ok_nullable, IH. now rewrite Hw, Ht.
  - apply app_ok_lc.
  - apply andb_true_iff in Hw as [Hwk Hwv]. apply andb_true_iff in Ht as [Htk Htv].
    apply app_ok_map; [apply IHk; now rewrite Hwk, Htk|apply IHv; now rewrite Hwv, Htv].
  - destruct ts as [|t0 ts]; [discriminate|]. apply app_ok_tuple; [discriminate|].
    rewrite forallb_forall in Hw, Ht. rewrite Forall_forall in IH. apply Forall_forall. intros x Hx.
    apply IH; [exact Hx|]. now rewrite (Hw x Hx), (Ht x Hx).
  - apply app_ok_named, IH. now rewrite Hw, Ht.
Qed.

(* ---------- Prepare changes derived fields only ------------------------------------------------- *)
Definition prep_ok (t : ty) : Prop := forall d d', prepare t d = Some d' ->
  rows t d' = rows t d /\ (forall i, row t d' i = row t d i) /\ (good t d -> good t d') /\ prepare t d' = Some d'.

Lemma prep_ok_id t : (forall d, prepare t d = Some d) -> prep_ok t.
Proof. intros H d d' E. rewrite H in E. injection E as <-. repeat split; auto. Qed.

Lemma prep_tuple ts : Forall prep_ok ts -> forall ds ds' n, map2o prepare ts ds = Some ds' ->
  (forall i, map2o (fun t0 d0 => row t0 d0 i) ts ds' = map2o (fun t0 d0 => row t0 d0 i) ts ds) /\
  (all2 (fun t0 d0 => good t0 d0 /\ rows t0 d0 = n) ts ds -> all2 (fun t0 d0 => good t0 d0 /\ rows t0 d0 = n) ts ds') /\
  map2o prepare ts ds' = Some ds' /\
  match ts, ds, ds' with t0 :: _, d0 :: _, d0' :: _ => rows t0 d0' = rows t0 d0 | _, _, _ => True end.
Proof.
  induction 1 as [|t0 ts H0 Hts IH]; intros ds ds' n E.
  - destruct ds; [|discriminate]. injection E as <-. repeat split; auto.
  - destruct ds as [|d0 ds]; [discriminate|]. cbn [map2o] in E.
    destruct (prepare t0 d0) as [d0'|] eqn:E0; [|discriminate].
    destruct (map2o prepare ts ds) as [r|] eqn:E1; [|discriminate]. injection E as <-.
    destruct (H0 d0 d0' E0) as [R0 [W0 [G0 I0]]]. destruct (IH ds r n E1) as [W1 [G1 [I1 _]]].
    split; [intros i; cbn [map2o]; now rewrite W0, W1|]. split.
    + cbn [all2]. intros [[Ga Gb] Gc]. split; [split; [now apply G0|lia]|now apply G1].
    + split; [cbn [map2o]; now rewrite I0, I1|exact R0].
Qed.

Theorem prepare_ok : forall t, prep_ok t.
Proof.
  induction t as [name w| | | | |sz| | |name w defs|t IH|t IH|t IH|k v IHk IHv|ts IH|name t IH] using ty_ind';
    try (apply prep_ok_id; intros d; reflexivity).
  - (* Enum *) intros d d' E. destruct d; try (cbn [prepare] in E; injection E as <-; repeat split; auto; fail).
    cbn [prepare] in E. destruct (mapM (enum_str_to_raw defs) vals) as [zs|] eqn:Ez; [|discriminate]. injection E as <-.
    repeat split; auto. cbn [prepare]. now rewrite Ez.
  - (* Array *) intros d d' E. destruct d; try (cbn [prepare] in E; injection E as <-; repeat split; auto; fail).
    cbn [prepare] in E. destruct (prepare t d) as [d1|] eqn:E1; [|discriminate]. injection E as <-.
    destruct (IH d d1 E1) as [R [W [G I]]]. split; [reflexivity|]. split; [|split].
    + intros i. cbn [row]. destruct (nth_error offs i); [|reflexivity]. f_equal. apply mapM_ext_in. intros; apply W.
    + cbn [good]. intros [Hm [Hr Hg]]. split; [exact Hm|]. split; [lia|now apply G].
    + cbn [prepare]. now rewrite I.
  - (* Nullable *) intros d d' E. destruct d; try (cbn [prepare] in E; injection E as <-; repeat split; auto; fail).
    cbn [prepare] in E. destruct (prepare t d) as [d1|] eqn:E1; [|discriminate]. injection E as <-.
    destruct (IH d d1 E1) as [R [W [G I]]]. split; [reflexivity|]. split; [|split].
    + intros i. cbn [row]. now rewrite W.
    + cbn [good]. intros [Hl [Hn Hg]]. split; [lia|]. split; [exact Hn|now apply G].
    + cbn [prepare]. now rewrite I.
  - (* LowCardinality *) intros d d' E. destruct d; try (cbn [prepare] in E; injection E as <-; repeat split; auto; fail).
    cbn [prepare] in E. destruct (of_rows t (dedup vals)) as [ix|] eqn:E1; [|discriminate].
    destruct (mapM (fun v => index_of v (dedup vals)) vals) as [ks|] eqn:E2; [|discriminate]. injection E as <-.
    repeat split; auto. cbn [prepare]. now rewrite E1, E2.
  - (* Map *) intros d d' E. destruct d; try (cbn [prepare] in E; injection E as <-; repeat split; auto; fail).
    cbn [prepare] in E. destruct (prepare k d1) as [a|] eqn:Ea; [|discriminate].
    destruct (prepare v d2) as [b|] eqn:Eb; [|discriminate]. injection E as <-.
    destruct (IHk d1 a Ea) as [Rk [Wk [Gk Ik]]]. destruct (IHv d2 b Eb) as [Rv [Wv [Gv Iv]]].
    split; [reflexivity|]. split; [|split].
    + intros i. cbn [row]. destruct (nth_error offs i); [|reflexivity]. f_equal. apply mapM_ext_in. intros x _. now rewrite Wk, Wv.
    + cbn [good]. intros [Hm [Hrk [Hrv [Hgk Hgv]]]]. split; [exact Hm|]. split; [lia|]. split; [lia|]. split; [now apply Gk|now apply Gv].
    + cbn [prepare]. now rewrite Ik, Iv.
  - (* Tuple *) intros d d' E. destruct d; try (cbn [prepare] in E; injection E as <-; repeat split; auto; fail).
    cbn [prepare] in E. destruct (map2o prepare ts ds) as [ds'|] eqn:E1; [|discriminate]. injection E as <-.
    destruct (prep_tuple ts IH ds ds' (rows (TTuple ts) (DTuple ds)) E1) as [W [G [I R]]].
    assert (Hr : rows (TTuple ts) (DTuple ds') = rows (TTuple ts) (DTuple ds)).
    { cbn [rows]. destruct ts as [|t0 ts]; [reflexivity|]. destruct ds as [|d0 ds]; [discriminate|].
      destruct ds' as [|d0' ds']; [|exact R]. cbn [map2o] in E1. destruct (prepare t0 d0); [|discriminate].
      destruct (map2o prepare ts ds); discriminate. }
    split; [exact Hr|]. split; [|split].
    + intros i. cbn [row]. now rewrite W.
    + cbn [good]. rewrite Hr. exact G.
    + cbn [prepare]. now rewrite I.
  - (* Named *) intros d d' E. apply (IH d d' E).
Qed.

(* ---------- a prepared usable column is well-formed in the sense of the round-trip theorem ------- *)
Fixpoint small (t : ty) (d : cdata) : Prop :=
  match t, d with
  | TArr t', DArr offs d' => last_or0 offs <= max_rows /\ small t' d'
  | TNullable t', DNullable _ d' => small t' d'
  | TMap tk tv, DMap offs dk dv => last_or0 offs <= max_rows /\ small tk dk /\ small tv dv
  | TTuple ts, DTuple ds => all2 small ts ds
  | TNamed _ t', _ => small t' d
  | _, _ => True
  end.

Definition wfd_ok (t : ty) : Prop := forall d, good t d -> small t d -> prepare t d = Some d -> wfd t (rows t d) d.

Theorem good_wfd : forall t, c16_ty t = true -> wfd_ok t.
Proof.
  unfold c16_ty.
  induction t as [name w| | | | |sz| | |name w defs|t IH|t IH|t IH|k v IHk IHv|ts IH|name t IH] using ty_ind';
    intros Hc d Hg Hs Hp; apply andb_true_iff in Hc as [Hw Ht]; cbn [wf_ty tuples_ok] in Hw, Ht;
    lazymatch goal with
    | |- wfd (TNamed _ _) _ _ => idtac
    | _ => destruct d; cbn [good] in Hg; try contradiction
    end; cbn [wfd rows].
  - split; [reflexivity|exact Hg].
  - split; [reflexivity|exact Hg].
  - split; [reflexivity|exact Hg].
  - split; [reflexivity|exact Hg].
  - split; [reflexivity|exact Hg].
  - destruct Hg as [[k Hk] Hwf]. split; [|exact Hwf]. apply andb_true_iff in Hw as [Hw _]. apply Nat.ltb_lt in Hw.
    destruct sz; [lia|]. unfold blen. rewrite Hk, Nat2N.inj_mul, N.div_mul by lia. reflexivity.
  - reflexivity.
  - destruct Hg as [Hl [Hx Hy]]. unfold blen. rewrite Hl. repeat split; assumption.
  - split; [reflexivity|]. cbn [prepare] in Hp. destruct (mapM (enum_str_to_raw defs) vals) as [zs|]; [|discriminate].
    injection Hp as Hp. exists zs. split; [reflexivity|now symmetry].
  - destruct Hg as [Hm [Hr Hg]]. destruct Hs as [Hl Hs]. split; [reflexivity|]. split; [exact Hm|]. split; [exact Hl|].
    rewrite <- Hr. apply IH; [now rewrite Hw, Ht|exact Hg|exact Hs|].
    cbn [prepare] in Hp. destruct (prepare t d); [|discriminate]. now injection Hp as ->.
  - destruct Hg as [Hl [Hn Hg]]. split; [reflexivity|]. split; [exact Hn|].
    rewrite Hl. apply IH; [now rewrite Hw, Ht|exact Hg|exact Hs|].
    cbn [prepare] in Hp. destruct (prepare t d); [|discriminate]. now injection Hp as ->.
  - split; [reflexivity|]. split; [exact Hg|exact Hp].
  - destruct Hg as [Hm [Hrk [Hrv [Gk Gv]]]]. destruct Hs as [Hl [Sk Sv]].
    apply andb_true_iff in Hw as [Hwk Hwv]. apply andb_true_iff in Ht as [Htk Htv].
    cbn [prepare] in Hp. destruct (prepare k d1) as [a|] eqn:Ea; [|discriminate].
    destruct (prepare v d2) as [b|] eqn:Eb; [|discriminate]. injection Hp as -> ->.
    split; [reflexivity|]. split; [exact Hm|]. split; [exact Hl|]. split.
    + rewrite <- Hrk. apply IHk; [now rewrite Hwk, Htk|assumption..].
    + rewrite <- Hrv. apply IHv; [now rewrite Hwv, Htv|assumption..].
  - cbn [prepare] in Hp. destruct (map2o prepare ts ds) as [ds'|] eqn:E; [|discriminate]. injection Hp as ->.
    cbn [small] in Hs. cbn [rows] in Hg. revert Hg.
    generalize (match ts with [] => 0 | t0 :: _ => match ds with [] => 0 | d0 :: _ => rows t0 d0 end end). intros n Hg.
    assert (Hts : forallb tuples_ok ts = true) by (destruct ts; [discriminate|exact Ht]). clear Ht.
    revert ds Hg Hs E. induction IH as [|t0 ts' H0 Hts' IHts]; intros [|d0 ds] Hg Hs E; try contradiction; [exact I|].
    cbn [forallb] in Hw, Hts. apply andb_true_iff in Hw as [Hw0 Hw']. apply andb_true_iff in Hts as [Ht0 Ht'].
    destruct Hg as [[G0 R0] Hg]. destruct Hs as [S0 Hs]. cbn [map2o] in E.
    destruct (prepare t0 d0) as [d0'|] eqn:E0; [|discriminate]. destruct (map2o prepare ts' ds) as [r|] eqn:E1; [|discriminate].
    injection E as -> ->. cbn [all2]. split.
    + rewrite <- R0. apply H0; [now rewrite Hw0, Ht0|assumption..].
    + now apply IHts.
  - cbn [good small prepare] in *. apply IH; [now rewrite Hw, Ht|assumption..].
Qed.

(* ---------- the reset column -------------------------------------------------------------------------- *)
Lemma empty_ok : forall t, good t (empty t) /\ rows t (empty t) = 0.
Proof.
  induction t as [name w| | | | |sz| | |name w defs|t IH|t IH|t IH|k v IHk IHv|ts IH|name t IH] using ty_ind';
    cbn [empty good rows].
  - split; [constructor|reflexivity].
  - split; [constructor|reflexivity].
  - split; [constructor|reflexivity].
  - split; [constructor|reflexivity].
  - split; [constructor|reflexivity].
  - split; [split; [exists O; reflexivity|constructor]|]. destruct sz; reflexivity.
  - split; [exact I|reflexivity].
  - split; [|reflexivity]. split; [reflexivity|]. split; constructor.
  - split; [exact I|reflexivity].
  - destruct IH as [G R]. split; [|reflexivity]. split; [reflexivity|]. split; [exact R|exact G].
  - destruct IH as [G R]. split; [|reflexivity]. split; [now rewrite R|]. split; [constructor|exact G].
  - split; reflexivity.
  - destruct IHk as [Gk Rk]. destruct IHv as [Gv Rv]. split; [|reflexivity].
    split; [reflexivity|]. split; [exact Rk|]. split; [exact Rv|]. split; assumption.
  - assert (H0 : match ts with [] => 0 | t0 :: _ => match map empty ts with [] => 0 | d0 :: _ => rows t0 d0 end end = 0).
    { destruct ts as [|t0 ts]; [reflexivity|]. cbn [map]. inversion IH as [|? ? [_ R] _]; subst. exact R. }
    split; [|exact H0]. rewrite H0. clear H0.
    induction IH as [|t0 ts' [G R] Hts IHts]; cbn [map all2]; [exact I|]. split; [split; assumption|exact IHts].
  - exact IH.
Qed.

Lemma abs_empty t : abs t (empty t) = Some [].
Proof. unfold abs, nrows. destruct (empty_ok t) as [_ ->]. reflexivity. Qed.

(* ---------- Infer replaces type parameters only --------------------------------------------------------- *)
Lemma has_ty_shape a a' v : lc_elem a = true -> same_shape a a' = true -> has_ty a' v = has_ty a v.
Proof.
  destruct a; cbn [lc_elem]; try discriminate; intros _; destruct a'; cbn [same_shape]; try discriminate; intros H;
    try reflexivity.
  apply Nat.eqb_eq in H. now subst.
Qed.

Definition shape_ok (t : ty) : Prop := forall t', wf_ty t = true -> same_shape t t' = true ->
  (forall d, rows t' d = rows t d) /\ (forall d i, row t' d i = row t d i) /\ (forall d, good t d -> good t' d).

Lemma shape_tuple ts : Forall shape_ok ts -> forall ts', forallb wf_ty ts = true -> all2b same_shape ts ts' = true ->
  (forall ds i, map2o (fun t0 d0 => row t0 d0 i) ts' ds = map2o (fun t0 d0 => row t0 d0 i) ts ds) /\
  (forall ds n, all2 (fun t0 d0 => good t0 d0 /\ rows t0 d0 = n) ts ds -> all2 (fun t0 d0 => good t0 d0 /\ rows t0 d0 = n) ts' ds) /\
  (forall ds, rows (TTuple ts') (DTuple ds) = rows (TTuple ts) (DTuple ds)).
Proof.
  induction 1 as [|t0 ts H0 Hts IH]; intros ts' Hw Hs.
  - destruct ts'; [|discriminate]. repeat split; auto.
  - destruct ts' as [|t0' ts']; [discriminate|]. cbn [all2b forallb] in *.
    apply andb_true_iff in Hw as [Hw0 Hw]. apply andb_true_iff in Hs as [Hs0 Hs].
    destruct (H0 t0' Hw0 Hs0) as [R0 [W0 G0]]. destruct (IH ts' Hw Hs) as [W [G _]].
    split; [|split].
    + intros [|d0 ds] i; cbn [map2o]; [reflexivity|]. now rewrite W0, W.
    + intros [|d0 ds] n; cbn [all2]; [auto|]. intros [[Ga Gb] Gc]. split; [split; [now apply G0|now rewrite R0]|now apply G].
    + intros [|d0 ds]; cbn [rows]; [reflexivity|apply R0].
Qed.

Theorem infer_shape : forall t, shape_ok t.
Proof.
  induction t as [name w| | | | |sz| | |name w defs|t IH|t IH|t IH|k v IHk IHv|ts IH|name t IH] using ty_ind';
    intros t' Hw Hs; destruct t'; cbn [same_shape] in Hs; try discriminate; cbn [wf_ty] in Hw;
    try (repeat split; intros; reflexivity || assumption).
  - apply Nat.eqb_eq in Hs. subst. repeat split; auto.
  - apply Nat.eqb_eq in Hs. subst. repeat split; auto.
  - destruct (IH t' Hw Hs) as [R [W G]]. split; [reflexivity|]. split.
    + intros d i. destruct d; try reflexivity. cbn [row]. destruct (nth_error offs i); [|reflexivity]. f_equal.
      apply mapM_ext_in. intros; apply W.
    + intros d. destruct d; cbn [good]; try contradiction. intros [Hm [Hr Hg]]. rewrite R. repeat split; auto.
  - destruct (IH t' Hw Hs) as [R [W G]]. split; [reflexivity|]. split.
    + intros d i. destruct d; try reflexivity. cbn [row]. now rewrite W.
    + intros d. destruct d; cbn [good]; try contradiction. intros [Hl [Hn Hg]]. rewrite R. repeat split; auto.
  - apply andb_true_iff in Hw as [Hw Hlc]. split; [reflexivity|]. split; [reflexivity|].
    intros d. destruct d; cbn [good]; try contradiction. intros Hg. rewrite <- Hg.
    clear Hg. induction vals as [|x vals IHv]; cbn [forallb]; [reflexivity|]. now rewrite IHv, (has_ty_shape t t' x Hlc Hs).
  - apply andb_true_iff in Hw as [Hwk Hwv]. apply andb_true_iff in Hs as [Hsk Hsv].
    destruct (IHk _ Hwk Hsk) as [Rk [Wk Gk]]. destruct (IHv _ Hwv Hsv) as [Rv [Wv Gv]]. split; [reflexivity|]. split.
    + intros d i. destruct d; try reflexivity. cbn [row]. destruct (nth_error offs i); [|reflexivity]. f_equal.
      apply mapM_ext_in. intros x _. now rewrite Wk, Wv.
    + intros d. destruct d; cbn [good]; try contradiction. intros [Hm [Hrk [Hrv [Hgk Hgv]]]]. rewrite Rk, Rv. repeat split; auto.
  - destruct (shape_tuple ts IH ts0 Hw Hs) as [W [G R]]. split; [|split].
    + intros d. destruct d; try reflexivity. apply R.
    + intros d i. destruct d; try reflexivity. cbn [row]. now rewrite W.
    + intros d. destruct d; cbn [good]; try contradiction. rewrite R. apply G.
  - apply (IH t' Hw Hs).
Qed.

(* ---------- histories ------------------------------------------------------------------------------------- *)
(* the column object is usable and the accessors report exactly [l] *)
Definition inv (s : ty * cdata) (l : list val) : Prop :=
  good (fst s) (snd s) /\ abs (fst s) (snd s) = Some l.

(* "valid data": whatever the decoder accepts and leaves structurally sound with every row readable.
   Automatic for the encoding of any usable prepared column ([dec_valid_of_enc]); for other accepted
   input (e.g. a LowCardinality dictionary in another order) it is what C06 establishes. *)
Definition dec_valid (b : build) (t : ty) (n : N) (bs : bytes) : Prop :=
  forall d rest, dec_col b t n bs = Ok d rest -> good t d /\ exists l, abs t d = Some l.

Definition op_valid (b : build) (s : ty * cdata) (o : cop) : Prop :=
  match o with
  | OAppend v => has_ty (fst s) v = true                     (* Go's type system *)
  | OAppendArr vs => forallb (has_ty (fst s)) vs = true
  | OInfer t' => same_shape (fst s) t' = true -> c16_ty t' = true
  | ODecode n bs _ => dec_valid b (fst s) n bs
  | _ => True
  end.

(* what an encode step's bytes are: both builds decode them to exactly the column that was encoded
   (whose rows are the current list), provided no level exceeds the decoder's row limit *)
Definition readback (b : build) (o : cop) (s' : ty * cdata) (bs : bytes) : Prop :=
  small (fst s') (snd s') -> rows (fst s') (snd s') <= max_rows ->
  forall b' rest,
    (match o with
     | OEncodeBlock => dec_col b' (fst s') (rows (fst s') (snd s'))
     | _ => dec b' (fst s') (rows (fst s') (snd s'))
     end) (bs ++ rest) = Ok (snd s') rest.

Definition claim (b : build) (s : ty * cdata) (l : option (list val)) (o : cop)
           (s' : ty * cdata) (out : cout) (l' : option (list val)) : Prop :=
  c16_ty (fst s') = true /\
  (forall x, l' = Some x -> inv s' x) /\
  (forall x bs, l = Some x -> out = OBytes bs -> readback b o s' bs /\ l' = Some x) /\
  (forall x, l = Some x -> match o with OAppend _ | OAppendArr _ | OReset => out = ONone | _ => True end) /\
  match o with
  | ODecode _ _ _ => cstep b (fst s, empty (fst s)) o = (s', out)    (* = what a fresh column gives *)
  | _ => True
  end.

Fixpoint refines (b : build) (s : ty * cdata) (l : option (list val)) (ops : list cop) : Prop :=
  match ops with
  | [] => True
  | o :: ops' =>
    op_valid b s o ->
    let r := cstep b s o in
    let l' := lstep b (fst s) l o (snd r) in
    claim b s l o (fst r) (snd r) l' /\ refines b (fst r) l' ops'
  end.

Lemma encode_readback b t d d' : c16_ty t = true -> good t d -> prepare t d = Some d' ->
  good t d' /\ abs t d' = abs t d /\
  (small t d' -> rows t d' <= max_rows -> forall b' rest,
     dec b' t (rows t d') (enc b t d' ++ rest) = Ok d' rest /\
     dec_col b' t (rows t d') (col_body b t d' ++ rest) = Ok d' rest).
Proof.
  intros Hc Hg Hp. destruct (prepare_ok t d d' Hp) as [R [W [G I]]].
  split; [now apply G|]. split; [now apply abs_same|].
  intros Hs Hn b' rest.
  assert (Hw : wfd t (rows t d') d') by (apply good_wfd; auto).
  assert (Hwt : wf_ty t = true) by (unfold c16_ty in Hc; now apply andb_true_iff in Hc as [? _]).
  split; [now apply col_roundtrip|].
  apply (column_roundtrip t b b' (rows t d') d' rest Hwt Hn Hw eq_refl).
Qed.

Lemma step_ok b t d l o : c16_ty t = true -> (forall x, l = Some x -> inv (t, d) x) -> op_valid b (t, d) o ->
  let r := cstep b (t, d) o in claim b (t, d) l o (fst r) (snd r) (lstep b t l o (snd r)).
Proof.
  intros Hc Hinv Hv. unfold claim. destruct o; cbn [op_valid fst snd] in Hv; cbn [cstep lstep fst snd].
  - (* Append *)
    destruct l as [x|].
    + destruct (Hinv x eq_refl) as [Hg Ha]. cbn [fst snd] in Hg, Ha.
      destruct (append_ok t Hc d v Hg Hv) as [d' [E [G X]]]. rewrite E. cbn [fst snd option_map].
      split; [exact Hc|]. split; [|split; [discriminate|split; [reflexivity|exact I]]].
      intros y Hy. injection Hy as <-. split; [exact G|]. cbn [fst snd]. eapply abs_ext; eassumption.
    + destruct (append t d v); cbn [fst snd option_map]; (split; [exact Hc|]); (split; [discriminate|]);
        (split; [discriminate|]); (split; [discriminate|exact I]).
  - (* AppendArr *)
    destruct l as [x|].
    + destruct (Hinv x eq_refl) as [Hg Ha]. cbn [fst snd] in Hg, Ha.
      destruct (append_all_ok t (append_ok t Hc) l0 d Hg Hv) as [d' [E [G X]]]. rewrite E. cbn [fst snd option_map].
      split; [exact Hc|]. split; [|split; [discriminate|split; [reflexivity|exact I]]].
      intros y Hy. injection Hy as <-. split; [exact G|]. cbn [fst snd]. eapply abs_ext; eassumption.
    + destruct (append_all t d l0); cbn [fst snd option_map]; (split; [exact Hc|]); (split; [discriminate|]);
        (split; [discriminate|]); (split; [discriminate|exact I]).
  - (* Reset *)
    split; [exact Hc|]. split; [|split; [discriminate|split; [reflexivity|exact I]]].
    intros y Hy. injection Hy as <-. split; [apply empty_ok|apply abs_empty].
  - (* Prepare *)
    destruct (prepare t d) as [d'|] eqn:E; cbn [fst snd]; (split; [exact Hc|]).
    + split; [|split; [discriminate|split; [reflexivity|exact I]]]. intros y Hy. subst l.
      destruct (Hinv y eq_refl) as [Hg Ha]. cbn [fst snd] in Hg, Ha.
      destruct (encode_readback b t d d' Hc Hg E) as [G [A _]]. split; [exact G|]. cbn [fst snd]. now rewrite A.
    + split; [discriminate|]. split; [discriminate|split; [reflexivity|exact I]].
  - (* Encode *)
    destruct (prepare t d) as [d'|] eqn:E; cbn [fst snd]; (split; [exact Hc|]).
    + split; [|split; [|split; [reflexivity|exact I]]].
      * intros y Hy. subst l. destruct (Hinv y eq_refl) as [Hg Ha]. cbn [fst snd] in Hg, Ha.
        destruct (encode_readback b t d d' Hc Hg E) as [G [A _]]. split; [exact G|]. cbn [fst snd]. now rewrite A.
      * intros x bs Hl Hb. injection Hb as <-. split; [|exact Hl]. subst l.
        destruct (Hinv x eq_refl) as [Hg Ha]. cbn [fst snd] in Hg.
        destruct (encode_readback b t d d' Hc Hg E) as [_ [_ RB]]. intros Hs Hn b' rest. cbn [fst snd] in *.
        now destruct (RB Hs Hn b' rest).
    + split; [discriminate|]. split; [discriminate|split; [reflexivity|exact I]].
  - (* Write *)
    destruct (prepare t d) as [d'|] eqn:E; cbn [fst snd]; (split; [exact Hc|]).
    + split; [|split; [|split; [reflexivity|exact I]]].
      * intros y Hy. subst l. destruct (Hinv y eq_refl) as [Hg Ha]. cbn [fst snd] in Hg, Ha.
        destruct (encode_readback b t d d' Hc Hg E) as [G [A _]]. split; [exact G|]. cbn [fst snd]. now rewrite A.
      * intros x bs Hl Hb. injection Hb as <-. split; [|exact Hl]. subst l.
        destruct (Hinv x eq_refl) as [Hg Ha]. cbn [fst snd] in Hg.
        destruct (encode_readback b t d d' Hc Hg E) as [_ [_ RB]]. intros Hs Hn b' rest. cbn [fst snd] in *.
        now destruct (RB Hs Hn b' rest).
    + split; [discriminate|]. split; [discriminate|split; [reflexivity|exact I]].
  - (* EncodeBlock *)
    destruct (prepare t d) as [d'|] eqn:E; cbn [fst snd]; (split; [exact Hc|]).
    + split; [|split; [|split; [reflexivity|exact I]]].
      * intros y Hy. subst l. destruct (Hinv y eq_refl) as [Hg Ha]. cbn [fst snd] in Hg, Ha.
        destruct (encode_readback b t d d' Hc Hg E) as [G [A _]]. split; [exact G|]. cbn [fst snd]. now rewrite A.
      * intros x bs Hl Hb. injection Hb as <-. split; [|exact Hl]. subst l.
        destruct (Hinv x eq_refl) as [Hg Ha]. cbn [fst snd] in Hg.
        destruct (encode_readback b t d d' Hc Hg E) as [_ [_ RB]]. intros Hs Hn b' rest. cbn [fst snd] in *.
        now destruct (RB Hs Hn b' rest).
    + split; [discriminate|]. split; [discriminate|split; [reflexivity|exact I]].
  - (* Infer *)
    destruct (same_shape t t') eqn:Es; cbn [fst snd].
    + split; [now apply Hv|]. split; [|split; [discriminate|split; [reflexivity|exact I]]].
      intros y Hy. subst l. destruct (Hinv y eq_refl) as [Hg Ha]. cbn [fst snd] in Hg, Ha.
      assert (Hwt : wf_ty t = true) by (unfold c16_ty in Hc; now apply andb_true_iff in Hc as [? _]).
      destruct (infer_shape t t' Hwt Es) as [R [W G]]. split; [now apply G|]. cbn [fst snd].
      rewrite <- Ha. unfold abs, nrows. rewrite R. apply mapM_ext_in. intros; apply W.
    + split; [exact Hc|]. split; [exact Hinv|]. split; [discriminate|split; [reflexivity|exact I]].
  - (* Decode *)
    destruct (dec_col b t n bs) as [d' rest| |] eqn:E; cbn [fst snd]; (split; [exact Hc|]).
    + split; [|split; [discriminate|split; [reflexivity|reflexivity]]].
      intros y Hy. destruct (Hv d' rest E) as [G [l0 A]]. split; [exact G|]. cbn [fst snd]. exact Hy.
    + split; [discriminate|]. split; [discriminate|split; [reflexivity|reflexivity]].
    + split; [discriminate|]. split; [discriminate|split; [reflexivity|reflexivity]].
Qed.

Theorem reuse_refines_list_proof : forall ops b s l,
  c16_ty (fst s) = true -> (forall x, l = Some x -> inv s x) -> refines b s l ops.
Proof.
  induction ops as [|o ops IH]; intros b [t d] l Hc Hinv; cbn [refines]; [exact I|].
  intros Hv. pose proof (step_ok b t d l o Hc Hinv Hv) as Hs. cbv zeta in Hs. cbn [fst] in *.
  split; [exact Hs|]. destruct Hs as [Hc' [Hinv' _]]. apply IH; assumption.
Qed.

(* the bytes of any usable prepared column are valid data *)
Lemma dec_valid_of_enc b b0 t d l rest : c16_ty t = true -> good t d -> prepare t d = Some d -> small t d ->
  rows t d <= max_rows -> abs t d = Some l -> dec_valid b t (rows t d) (col_body b0 t d ++ rest).
Proof.
  intros Hc Hg Hp Hs Hn Ha d' rest' E.
  destruct (encode_readback b0 t d d Hc Hg Hp) as [_ [_ RB]]. destruct (RB Hs Hn b rest) as [_ R2].
  rewrite R2 in E. injection E as <- <-. split; [exact Hg|now exists l].
Qed.

(* encoding again without a change re-sends the same bytes and leaves the same object *)
Lemma encode_twice b s o : match o with OEncode | OWrite | OEncodeBlock => True | _ => False end ->
  forall bs, snd (cstep b s o) = OBytes bs -> cstep b (fst (cstep b s o)) o = cstep b s o.
Proof.
  destruct s as [t d]. intros Ho bs. destruct o; try contradiction; cbn [cstep fst snd];
    (destruct (prepare t d) as [d'|] eqn:E; cbn [fst snd]; [|discriminate]); intros _;
    destruct (prepare_ok t d d' E) as [_ [_ [_ I]]]; now rewrite I.
Qed.

(* Reset, then decode: nothing of what the column held before (and no earlier history) matters *)
Lemma reset_decode_fresh_proof b t d n bs st : cstep b (t, d) (ODecode n bs st) = cstep b (t, empty t) (ODecode n bs st).
Proof. reflexivity. Qed.

(* Append: exactly one more row, holding the value, earlier rows untouched *)
Lemma append_once_proof b t d l v : c16_ty t = true -> inv (t, d) l -> has_ty t v = true ->
  exists d', cstep b (t, d) (OAppend v) = ((t, d'), ONone) /\ inv (t, d') (l ++ [v]) /\
             rows t d' = rows t d + 1 /\ forall i, (i < nrows t d)%nat -> row t d' i = row t d i.
Proof.
  intros Hc [Hg Ha] Hv. cbn [fst snd] in *. destruct (append_ok t Hc d v Hg Hv) as [d' [E [G X]]].
  exists d'. cbn [cstep fst snd]. rewrite E. split; [reflexivity|]. split; [split; [exact G|eapply abs_ext; eassumption]|].
  destruct X as [R [O1 _]]. split; [exact R|exact O1].
Qed.
