(* C01 / C18 (extension C18y): a Tuple column with adopting elements binds to a typed target of its own shape.

   ColTuple.Infer (repaired) cuts the arguments of Tuple(...) with splitTypeArgs and hands element i argument i,
   trimmed; ColNamed.Infer strips "<Name> ".  Here:
   - [scan]: the state machine of splitTypeArgs run over a string that contains no top-level comma; [split_top_scan]
     steps [split_top] over such a string; [split_join2]: the arguments of strings.Join(xs, ", ") are xs again (each but
     the first with the blank that follows the comma), provided every x is a balanced argument ([arg_str_ok]: quotes and
     parentheses closed, no comma outside them, no white space at either end);
   - [tuple_ok]: the class of column trees whose printed type they adopt themselves: columns that are not Inferable,
     everything ColAuto round-trips with its own parameters (model/AutoClass.v: Enum8/16, DateTime('z'), DateTime64(p,'z'),
     Interval, Array / Nullable / LowCardinality over them, Map(String, String)), and Tuple / Named / Array / Nullable /
     LowCardinality / Map over members of the class whose printed types are balanced arguments;
   - [tuple_ok_self]: such a tree's Infer accepts its own Type() and leaves the tree as it is, hence [tuple_col_ok]: the
     premise [col_ok infer_target] of C01's [block_roundtrip] and of C18's binding theorems. *)
From CH Require Import model.Columns model.Block model.TypeStr model.Results model.AutoClass.
From CH Require Import proofs.PrimProofs proofs.ColumnsProofs proofs.ColumnsProofs2 proofs.BlockProofs proofs.TypeStrProofs
  proofs.ResultsProofs proofs.ResultsProofs2 proofs.AutoRoundtripProofs.
From CH Require Import gen.Features gen.Consts gen.TypeNames.
From Coq Require Import ZifyN ZifyNat ZifyBool.
Ltac Zify.zify_post_hook ::= Z.div_mod_to_equations.
Open Scope N_scope.
Open Scope list_scope.

(* ---- splitTypeArgs over a string without a top-level comma ------------------------------------------------ *)
(* the mode and depth splitTypeArgs is in after [s], or None when it cut *)
Fixpoint scan (m : smode) (depth : Z) (s : bytes) : option (smode * Z) :=
  match s with
  | [] => Some (m, depth)
  | c :: s' =>
    match m with
    | MEsc => scan MQuote depth s'
    | MQuote =>
      if c =? 92 then scan MEsc depth s'
      else if c =? 39 then scan MNormal depth s'
      else scan MQuote depth s'
    | MNormal =>
      if c =? 39 then scan MQuote depth s'
      else if c =? 40 then scan MNormal (depth + 1) s'
      else if c =? 41 then scan MNormal (depth - 1) s'
      else if (c =? 44) && (depth =? 0)%Z then None
      else scan MNormal depth s'
    end
  end.

Lemma split_top_scan : forall x m d cur y m' d',
  scan m d x = Some (m', d') -> split_top m d cur (x ++ y) = split_top m' d' (rev x ++ cur) y.
Proof.
  induction x as [|c x IH]; intros m d cur y m' d' H; cbn [scan] in H.
  - injection H as <- <-. reflexivity.
  - cbn [app split_top rev]. rewrite <- app_assoc. cbn [app].
    destruct m.
    + destruct (c =? 39); [now apply IH|]. destruct (c =? 40); [now apply IH|]. destruct (c =? 41); [now apply IH|].
      destruct ((c =? 44) && (d =? 0)%Z); [discriminate|]. now apply IH.
    + destruct (c =? 92); [now apply IH|]. destruct (c =? 39); now apply IH.
    + now apply IH.
Qed.

(* a balanced argument: the scanner is back where it started, never cut, and TrimSpace leaves the string alone *)
Definition balanced (x : bytes) : bool :=
  match scan MNormal 0 x with Some (MNormal, 0%Z) => true | _ => false end.
Definition arg_str_ok (x : bytes) : bool := balanced x && bytes_eqb (trim_space x) x.

Lemma balanced_scan x : balanced x = true -> scan MNormal 0 x = Some (MNormal, 0%Z).
Proof. unfold balanced. destruct (scan MNormal 0 x) as [[[| |] [| |]]|]; try discriminate. reflexivity. Qed.

(* strings.Join(xs, ", ") *)
Fixpoint join2 (xs : list bytes) : bytes :=
  match xs with
  | [] => []
  | [x] => x
  | x :: r => x ++ [44; 32] ++ join2 r
  end.

Lemma split_top_join2 : forall r x0 cur, Forall (fun x => balanced x = true) (x0 :: r) ->
  split_top MNormal 0 cur (join2 (x0 :: r)) = (rev cur ++ x0) :: map (cons 32) r.
Proof.
  induction r as [|x1 r IH]; intros x0 cur H; inversion H as [|? ? H0 Hr]; subst.
  - cbn [join2 map]. rewrite <- (app_nil_r x0) at 1.
    rewrite (split_top_scan x0 MNormal 0 cur [] MNormal 0 (balanced_scan _ H0)). cbn [split_top].
    now rewrite rev_app_distr, rev_involutive.
  - change (join2 (x0 :: x1 :: r)) with (x0 ++ [44; 32] ++ join2 (x1 :: r)).
    rewrite (split_top_scan x0 MNormal 0 cur _ MNormal 0 (balanced_scan _ H0)).
    cbn [app split_top N.eqb Pos.eqb andb Z.eqb]. rewrite rev_app_distr, rev_involutive.
    rewrite (IH x1 [32] Hr). reflexivity.
Qed.

Lemma split_join2 x0 r : Forall (fun x => balanced x = true) (x0 :: r) ->
  split_type_args (join2 (x0 :: r)) = x0 :: map (cons 32) r.
Proof. intros H. unfold split_type_args. now rewrite (split_top_join2 r x0 [] H). Qed.

Lemma trim_space_blank x : trim_space (32 :: x) = trim_space x.
Proof. exact (trim_space_spaces 1 x). Qed.

(* Type() of a tuple with elements is Tuple(<the elements' types joined by ", ">) *)
Lemma type_str_tuple ts : ts <> [] -> type_str (TTuple ts) = s2b "Tuple" ++ 40 :: join2 (map type_str ts) ++ [41].
Proof.
  intros Hne. cbn [type_str]. destruct ts as [|t0 r]; [contradiction|].
  change (s2b "Tuple(") with (s2b "Tuple" ++ [40]). rewrite <- app_assoc. cbn [app]. do 6 f_equal.
  change (s2b ")") with [41]. f_equal.
  clear Hne. revert t0. induction r as [|t1 r IH]; intros t0; [reflexivity|].
  cbn [map join2]. change (s2b ", ") with [44; 32]. f_equal. f_equal. apply IH.
Qed.

Lemma has_prefix_app p x : has_prefix p (p ++ x) = true.
Proof. induction p as [|c p IH]; [reflexivity|]. cbn [app has_prefix]. now rewrite N.eqb_refl, IH. Qed.

Lemma cut_prefix_app p x : cut_prefix p (p ++ x) = Some x.
Proof.
  unfold cut_prefix. rewrite has_prefix_app. f_equal.
  rewrite skipn_app, Nat.sub_diag, skipn_all. reflexivity.
Qed.

Lemma fold_and_Forall {A} (P : A -> Prop) l : fold_right (fun x acc => P x /\ acc) True l <-> Forall P l.
Proof.
  induction l as [|a l IH]; cbn [fold_right]; split; intros H.
  - constructor.
  - exact I.
  - destruct H as [H1 H2]. constructor; [assumption|now apply IH].
  - inversion H; subst. split; [assumption|now apply IH].
Qed.

Section TupleRT.
  Variable zone : bytes -> option bytes.
  Variable tl : bytes -> bytes.

  Notation infer_st := (infer_st zone tl).
  Notation infer_target := (infer_target zone tl).
  Notation opt_infer := (opt_infer zone tl).
  Notation tup_infer := (tup_infer zone tl).

  (* a column tree that adopts its own printed type *)
  Fixpoint tuple_ok (t : ty) : Prop :=
    inferable_ty t = false \/
    (inferable zone t = true /\ norm zone t = t) \/
    match t with
    | TTuple ts => ts <> [] /\ fold_right (fun x acc => (tuple_ok x /\ arg_str_ok (type_str x) = true) /\ acc) True ts
    | TNamed _ d => tuple_ok d
    | TArr d | TNullable d | TLowCard d => tuple_ok d
    | TMap k v => tuple_ok k /\ tuple_ok v /\ arg_str_ok (type_str k) = true /\ arg_str_ok (type_str v) = true
    | _ => False
    end.

  Definition self (t : ty) : Prop := opt_infer t (type_str t) = (t, IOk).

  Lemma self_plain t : inferable_ty t = false -> self t.
  Proof. intros H. unfold self, ResultsProofs.opt_infer. now rewrite H. Qed.

  Lemma self_auto t : inferable zone t = true -> norm zone t = t -> self t.
  Proof.
    intros Hi Hn. pose proof (norm_infer_target zone tl t Hi) as H. rewrite Hn in H.
    unfold Results.infer_target in H. unfold self, ResultsProofs.opt_infer.
    destruct (inferable_ty t); [|reflexivity].
    destruct (infer_st t (type_str t)) as [t' o]. destruct o; try discriminate. now injection H as ->.
  Qed.

  Lemma self_infer_st t : self t -> inferable_ty t = true -> infer_st t (type_str t) = (t, IOk).
  Proof. unfold self, ResultsProofs.opt_infer. intros H E. now rewrite E in H. Qed.

  Lemma tup_infer_self : forall ts args, Forall self ts -> Forall2 (fun t a => trim_space a = type_str t) ts args ->
    tup_infer ts args = (ts, IOk).
  Proof.
    induction ts as [|t0 r IH]; intros args Hs Ha; inversion Ha as [|? a ? ar H0 Hr]; subst; [reflexivity|].
    inversion Hs as [|? ? Hs0 Hsr]; subst. cbn [ResultsProofs.tup_infer]. rewrite H0, Hs0, (IH ar Hsr Hr). reflexivity.
  Qed.

  Lemma arg_ok_parts x : arg_str_ok x = true -> balanced x = true /\ trim_space x = x.
  Proof. unfold arg_str_ok. intros H. apply andb_prop in H as [H1 H2]. split; [exact H1|now apply TypeStrProofs.bytes_eqb_eq]. Qed.

  Lemma self_tuple ts : ts <> [] -> Forall self ts -> Forall (fun t => arg_str_ok (type_str t) = true) ts -> self (TTuple ts).
  Proof.
    intros Hne Hs Ha. unfold self, ResultsProofs.opt_infer. cbn [inferable_ty].
    rewrite infer_st_tuple. destruct (existsb inferable_ty ts); [|reflexivity].
    rewrite (type_str_tuple ts Hne), elem_wrap by (reflexivity || discriminate).
    destruct ts as [|t0 r]; [contradiction|]. cbn [map].
    assert (Hb : Forall (fun x => balanced x = true) (type_str t0 :: map type_str r)).
    { change (type_str t0 :: map type_str r) with (map type_str (t0 :: r)). apply Forall_forall. intros x Hx.
      apply in_map_iff in Hx. destruct Hx as (t & <- & Hin).
      exact (proj1 (arg_ok_parts _ (proj1 (Forall_forall _ _) Ha t Hin))). }
    rewrite (split_join2 _ _ Hb). cbn [length]. rewrite !map_length, Nat.eqb_refl. cbn [negb].
    rewrite tup_infer_self; [reflexivity|exact Hs|].
    inversion Ha as [|? ? Ha0 Har]; subst. constructor; [exact (proj2 (arg_ok_parts _ Ha0))|].
    clear -Har. induction Har as [|t r H _ IH]; cbn [map]; constructor; [|exact IH].
    rewrite trim_space_blank. exact (proj2 (arg_ok_parts _ H)).
  Qed.

  Lemma self_named n d : self d -> self (TNamed n d).
  Proof.
    intros Hs. unfold self, ResultsProofs.opt_infer. cbn [inferable_ty]. rewrite infer_st_named.
    destruct (inferable_ty d) eqn:Ei; [|reflexivity].
    cbn [type_str]. change (s2b " ") with [32]. rewrite app_assoc, cut_prefix_app.
    now rewrite (self_infer_st d Hs Ei).
  Qed.

  Lemma self_wrap k d : self d -> self (wrap_ty k d).
  Proof.
    intros Hs. unfold self, ResultsProofs.opt_infer.
    replace (inferable_ty (wrap_ty k d)) with true by (destruct k; reflexivity).
    rewrite infer_st_wrap. destruct (inferable_ty d) eqn:Ei; [|reflexivity].
    assert (He : elem (type_str (wrap_ty k d)) = type_str d).
    { destruct k; cbn [wrap_ty type_str].
      - change (s2b "Array(") with (s2b "Array" ++ [40]). rewrite <- app_assoc. cbn [app]. change (s2b ")") with [41].
        apply (elem_wrap (s2b "Array")); (reflexivity || discriminate).
      - change (s2b "Nullable(") with (s2b "Nullable" ++ [40]). rewrite <- app_assoc. cbn [app]. change (s2b ")") with [41].
        apply (elem_wrap (s2b "Nullable")); (reflexivity || discriminate).
      - change (s2b "LowCardinality(") with (s2b "LowCardinality" ++ [40]). rewrite <- app_assoc. cbn [app]. change (s2b ")") with [41].
        apply (elem_wrap (s2b "LowCardinality")); (reflexivity || discriminate). }
    rewrite He, (self_infer_st d Hs Ei). reflexivity.
  Qed.

  Lemma self_map k v : self k -> self v -> arg_str_ok (type_str k) = true -> arg_str_ok (type_str v) = true -> self (TMap k v).
  Proof.
    intros Hk Hv Hak Hav. unfold self, ResultsProofs.opt_infer. cbn [inferable_ty]. rewrite infer_st_map.
    assert (He : elem (type_str (TMap k v)) = join2 [type_str k; type_str v]).
    { cbn [type_str join2]. change (s2b "Map(") with (s2b "Map" ++ [40]). rewrite <- app_assoc. cbn [app].
      change (s2b ", ") with [44; 32]. change (s2b ")") with [41].
      replace (type_str k ++ [44; 32] ++ type_str v ++ [41]) with ((type_str k ++ [44; 32] ++ type_str v) ++ [41])
        by (now rewrite <- !app_assoc).
      apply (elem_wrap (s2b "Map")); (reflexivity || discriminate). }
    rewrite He, split_join2
      by (constructor; [exact (proj1 (arg_ok_parts _ Hak))|constructor; [exact (proj1 (arg_ok_parts _ Hav))|constructor]]).
    cbn [map]. rewrite trim_space_blank, (proj2 (arg_ok_parts _ Hak)), (proj2 (arg_ok_parts _ Hav)).
    unfold self in Hk, Hv. rewrite Hk, Hv. reflexivity.
  Qed.

  Theorem tuple_ok_self : forall t, tuple_ok t -> self t.
  Proof.
    induction t as [name w| | | | |sz| | |name w defs|t IH|t IH|t IH|k v IHk IHv|ts IH|name t IH] using ty_ind';
      intros H; cbn [tuple_ok] in H;
      (destruct H as [H|[[H1 H2]|H]]; [now apply self_plain|now apply self_auto|]); try contradiction.
    - now apply (self_wrap WArr), IH.
    - now apply (self_wrap WNullable), IH.
    - now apply (self_wrap WLowCard), IH.
    - destruct H as (Hk & Hv & Hak & Hav). apply self_map; auto.
    - destruct H as [Hne H]. apply fold_and_Forall in H.
      apply self_tuple; [exact Hne| |].
      + apply Forall_forall. intros t Hin.
        apply (proj1 (Forall_forall _ _) IH t Hin). exact (proj1 (proj1 (Forall_forall _ _) H t Hin)).
      + apply Forall_forall. intros t Hin. exact (proj2 (proj1 (Forall_forall _ _) H t Hin)).
    - now apply self_named, IH.
  Qed.

  (* the target's Infer accepts the column's own Type() and the target is then the column's type *)
  Theorem tuple_ok_infer_target t : tuple_ok t -> infer_target t (type_str t) = Some t.
  Proof.
    intros H. apply tuple_ok_self in H. unfold self, ResultsProofs.opt_infer in H. unfold Results.infer_target.
    destruct (inferable_ty t); [now rewrite H|reflexivity].
  Qed.

  (* a prepared input column with [nrows] rows of such a type *)
  Definition col_ok_tuple (nrows : N) (c : Block.col) : Prop :=
    tuple_ok (c_ty c) /\ wf_ty (c_ty c) = true /\ str_ok (c_name c) /\ str_ok (type_str (c_ty c)) /\
    rows (c_ty c) (c_data c) = nrows /\ wfd (c_ty c) nrows (c_data c) /\
    prepare (c_ty c) (c_data c) = Some (c_data c).

  Lemma tuple_col_ok nrows c : col_ok_tuple nrows c -> col_ok infer_target nrows c.
  Proof.
    intros (Ht & Hw & Hn & Hs & Hr & Hd & Hp). unfold col_ok. repeat split; try assumption; try apply Hn; try apply Hs.
    now apply tuple_ok_infer_target.
  Qed.

  Lemma tuple_cols_ok nrows cols : Forall (col_ok_tuple nrows) cols -> Forall (col_ok infer_target nrows) cols.
  Proof. intros H. eapply Forall_impl; [|exact H]. intros c. apply tuple_col_ok. Qed.

  (* C01 at block level for such columns: EncodeBlock -> DecodeBlock into typed targets of the same types *)
  Theorem tuple_block_roundtrip_typed_proof b b' v i nrows cols ts bs rest :
    nrows <= max_rows -> (Z.of_nat (length cols) <= maxColumnsInBlock)%Z -> in_i32 (bi_bucket i) ->
    Forall (col_ok_tuple nrows) cols -> Forall2 binds cols ts ->
    encode_block b v i nrows cols = Some bs ->
    decode_block conflicts_b infer_target (infer_auto zone tl) false b' v ts (bs ++ rest)
    = Ok ((if gate v FeatureBlockInfo then i else blank_block_info),
          Z.of_nat (length cols), Z.of_N nrows, (match cols with [] => ts | _ => cols end)) rest.
  Proof.
    intros Hn Hc Hi Hok Hb Henc.
    exact (block_roundtrip conflicts_b infer_target (infer_auto zone tl) conflicts_b_refl b b' v i nrows cols ts bs rest
             Hn Hc Hi (tuple_cols_ok nrows cols Hok) Hb Henc).
  Qed.

  (* ... and into targets of the same SHAPE whatever parameters (precision, zone, enum definitions) and contents they
     hold - rows of an earlier block, the residue of a failed decode: every target ends up with name, type and contents of
     its own column *)
  Theorem tuple_block_binds_any_parameters_proof b b' v nrows cols ts bs rest :
    nrows <= max_rows -> Forall (col_ok_tuple nrows) cols -> Forall2 fits cols ts ->
    enc_cols b v nrows cols = Some bs ->
    bind_result zone tl b' v (N.of_nat (length cols)) nrows ts (bs ++ rest) = (map typed_target cols, BOk rest).
  Proof.
    intros Hn Hok Hf Henc.
    exact (fitting_block_binds zone tl b b' v nrows cols ts bs rest Hn (tuple_cols_ok nrows cols Hok) Hf Henc).
  Qed.
End TupleRT.
