(* C08: reading through the chunked connection, bufio and the decompressing reader is reading the flat stream.

   Part 1  bufio over the chunked connection, read with io.ReadFull, is the gapped flat stream (rfull_L_gflat)
   Part 2  without an armed deadline (or without gaps) the gapped stream is the flat stream (rfull_G_F), hence
           readfull_flatten
   Part 3  everything above the raw reader (decompressing reader, reader programs, packet, receive loop)
           commutes with any such simulation (run_sim, packet_sim, recv_sim)
   Part 4  the primitives of Prim.v and the message decoders of Fields.v are reader programs (the realizes lemmas)
   Part 5  decode_chunk_independent and its corollaries
   Part 6  read timeouts between packets *)
From CH Require Import model.Stream proofs.PrimProofs gen.Consts.
From Coq Require Import ZifyN ZifyNat ZifyBool.
Ltac Zify.zify_post_hook ::= Z.div_mod_to_equations.
Open Scope N_scope.

Definition all_none (l : list (option N)) : Prop := Forall (fun x => x = None) l.
Definition no_none (l : list (option N)) : Prop := Forall (fun x => x <> None) l.
Definition no_timeouts (evs : list event) : Prop := Forall (fun e => e <> Timeout) evs.

(* the deadline is not armed, or there is no silence to wait for *)
Definition tm_okG (s : gflat) : Prop := g_armed s = false \/ no_none (g_items s).
Definition tm_ok (s : bufio) : Prop := c_armed (b_conn s) = false \/ no_timeouts (c_evs (b_conn s)).

(* ======================= Part 1 ======================= *)
Lemma g_take_nones mk : forall l n acc tl, all_none mk -> (1 <= n)%nat ->
  g_take false tl (mk ++ l) n acc = g_take false tl l n acc.
Proof.
  induction mk as [|x mk IH]; intros l n acc tl Hm Hn; [reflexivity|].
  inversion Hm as [|? ? Hx Hm']; subst. destruct n as [|n]; [lia|].
  cbn [app g_take]. now apply IH.
Qed.

Lemma g_take_somes d : forall l n acc armed tl, (length d <= n)%nat ->
  g_take armed tl (map Some d ++ l) n acc = g_take armed tl l (n - length d) (acc ++ d).
Proof.
  induction d as [|b d IH]; intros l n acc armed tl Hn.
  - cbn [map app length]. now rewrite Nat.sub_0_r, app_nil_r.
  - cbn [length] in Hn. destruct n as [|n]; [lia|].
    cbn [map app g_take length]. rewrite IH by lia.
    rewrite <- app_assoc. reflexivity.
Qed.

Lemma g_take_all_none l : forall n acc tl, all_none l -> (1 <= n)%nat ->
  g_take false tl l n acc = (inr (full_err acc tl), []).
Proof.
  induction l as [|x l IH]; intros n acc tl Hl Hn; destruct n as [|n]; try lia.
  - reflexivity.
  - inversion Hl; subst. cbn [g_take]. apply IH; [assumption|lia].
Qed.

Lemma read_limit_bounds k m : (1 <= m)%nat -> (1 <= read_limit k m <= m)%nat.
Proof. unfold read_limit. destruct k; lia. Qed.

Lemma conn_take_spec k m armed tl : forall evs r evs', (1 <= m)%nat ->
  conn_take k m armed tl evs = (r, evs') ->
  match r with
  | inl d => exists mk, g_evs evs = mk ++ map Some d ++ g_evs evs' /\ all_none mk /\ (armed = true -> mk = []) /\
                        (length d <= m)%nat /\ (length evs' <= length evs)%nat /\
                        (d = [] -> (length evs' < length evs)%nat)
  | inr e => (armed = true /\ e = ITimeout /\ g_evs evs = None :: g_evs evs') \/
             (e = tl /\ all_none (g_evs evs) /\ (armed = true -> g_evs evs = []) /\ evs' = [])
  end.
Proof.
  induction evs as [|ev evs IH]; intros r evs' Hm Hc.
  - cbn in Hc. inversion Hc; subst. right. repeat split; try constructor.
  - destruct ev as [b|].
    + cbn [conn_take] in Hc. destruct b as [|x b].
      * inversion Hc; subst. exists []. cbn [g_evs map app length].
        split; [reflexivity|]. split; [constructor|]. split; [reflexivity|]. split; [lia|]. split; [lia|]. intros _; lia.
      * set (bb := x :: b) in *.
        pose proof (read_limit_bounds k m Hm) as Hj.
        set (j := read_limit k m) in *.
        assert (Hd : firstn j bb <> []).
        { destruct j; [lia|]. subst bb. cbn. discriminate. }
        assert (Hlen : (length (firstn j bb) <= m)%nat) by (rewrite firstn_length; lia).
        inversion Hc; subst r evs'. clear Hc.
        exists []. cbn [app].
        change (g_evs (Chunk bb :: evs)) with (map Some bb ++ g_evs evs).
        destruct (skipn j bb) as [|y rest] eqn:Es.
        -- split; [rewrite <- (firstn_skipn j bb) at 1; rewrite Es, app_nil_r; reflexivity|].
           split; [constructor|]. split; [reflexivity|]. split; [exact Hlen|].
           split; [cbn [length]; lia|]. intro E; contradiction.
        -- change (g_evs (Chunk (y :: rest) :: evs)) with (map Some (y :: rest) ++ g_evs evs).
           split; [rewrite app_assoc, <- map_app, <- Es, firstn_skipn; reflexivity|].
           split; [constructor|]. split; [reflexivity|]. split; [exact Hlen|].
           split; [cbn [length]; lia|]. intro E; contradiction.
    + cbn [conn_take] in Hc. destruct armed.
      * inversion Hc; subst. left. repeat split.
      * specialize (IH r evs' Hm Hc). destruct r as [d|e].
        -- destruct IH as (mk & E & Hmk & Ha & Hl & Hle & Hlt).
           exists (None :: mk). cbn [g_evs app length]. repeat split.
           ++ now rewrite E.
           ++ constructor; [reflexivity|assumption].
           ++ discriminate.
           ++ assumption.
           ++ lia.
           ++ intro E'. specialize (Hlt E'). lia.
        -- destruct IH as [(Ha & _)|(E & Hn & _ & He)]; [discriminate|].
           right. cbn [g_evs]. repeat split; try assumption.
           ++ constructor; [reflexivity|assumption].
           ++ discriminate.
Qed.

Definition gi (s : bufio) : list (option N) := map Some (b_buf s) ++ g_evs (c_evs (b_conn s)).

Lemma bufio_size_pos : (1 <= bufio_size)%nat.
Proof. unfold bufio_size, defaultReaderSize. lia. Qed.

Lemma bufio_read_spec orc m s r s' : (1 <= m)%nat ->
  bufio_read orc m s = (r, s') ->
  c_tl (b_conn s') = c_tl (b_conn s) /\ c_armed (b_conn s') = c_armed (b_conn s) /\
  match r with
  | inl d => exists mk, gi s = mk ++ map Some d ++ gi s' /\ all_none mk /\ (c_armed (b_conn s) = true -> mk = []) /\
                        (length d <= m)%nat /\ (length (c_evs (b_conn s')) <= length (c_evs (b_conn s)))%nat /\
                        (d = [] -> (length (c_evs (b_conn s')) < length (c_evs (b_conn s)))%nat)
  | inr e => (c_armed (b_conn s) = true /\ e = ITimeout /\ gi s = None :: gi s') \/
             (e = c_tl (b_conn s) /\ all_none (gi s) /\ (c_armed (b_conn s) = true -> gi s = []) /\ gi s' = [])
  end.
Proof.
  intros Hm Hr. destruct m as [|m']; [lia|].
  destruct s as [buf c]. unfold bufio_read in Hr. cbv iota in Hr. cbn [b_buf b_conn] in *.
  remember (S m') as m eqn:Em.
  unfold gi. cbn [b_buf b_conn].
  destruct buf as [|x buf].
  - cbn [map app].
    destruct (Nat.leb bufio_size m).
    + unfold conn_read in Hr.
      destruct (conn_take (orc (c_calls c)) m (c_armed c) (c_tl c) (c_evs c)) as [r0 evs'] eqn:Ec.
      inversion Hr; subst r s'. cbn [b_conn b_buf c_tl c_armed c_evs map app].
      split; [reflexivity|]. split; [reflexivity|].
      apply conn_take_spec in Ec; [|lia]. destruct r0 as [d0|e]; [exact Ec|].
      destruct Ec as [Ec|(E1 & E2 & E3 & ->)]; [left; exact Ec|right; auto].
    + unfold conn_read in Hr.
      destruct (conn_take (orc (c_calls c)) bufio_size (c_armed c) (c_tl c) (c_evs c)) as [r0 evs'] eqn:Ec.
      apply conn_take_spec in Ec; [|apply bufio_size_pos].
      destruct r0 as [d0|e]; inversion Hr; subst r s'; cbn [b_conn b_buf c_tl c_armed c_evs map app];
        (split; [reflexivity|]); (split; [reflexivity|]).
      * destruct Ec as (mk & E & Hmk & Ha & Hl & Hle & Hlt).
        exists mk. repeat split; try assumption.
        -- rewrite E. rewrite (app_assoc (map Some (firstn m d0))), <- map_app, firstn_skipn. reflexivity.
        -- rewrite firstn_length. lia.
        -- intro E0. apply Hlt. destruct d0; [reflexivity|]. subst m. cbn in E0. discriminate.
      * destruct Ec as [Ec|(E1 & E2 & E3 & ->)]; [left; exact Ec|right; auto].
  - inversion Hr; subst r s'. cbn [b_conn b_buf].
    split; [reflexivity|]. split; [reflexivity|].
    exists []. cbn [app]. repeat split; try constructor; try lia.
    + rewrite app_assoc, <- map_app, firstn_skipn. reflexivity.
    + rewrite firstn_length. lia.
    + subst m. cbn. discriminate.
Qed.

Lemma io_full_L orc : forall fuel n acc s, (n + length (c_evs (b_conn s)) < fuel)%nat ->
  exists r s', io_read_full (bufio_read orc) full_err fuel n acc s = Some (r, s') /\
    g_take (c_armed (b_conn s)) (c_tl (b_conn s)) (gi s) n (concat (rev acc)) = (r, gi s') /\
    c_tl (b_conn s') = c_tl (b_conn s) /\ c_armed (b_conn s') = c_armed (b_conn s).
Proof.
  induction fuel as [|fuel IH]; intros n acc s Hf; [lia|].
  destruct n as [|n'].
  - exists (inl (concat (rev acc))), s. cbn [io_read_full]. repeat split. destruct (gi s); reflexivity.
  - set (n := S n') in *. cbn [io_read_full]. fold n.
    destruct (bufio_read orc n s) as [r1 s1] eqn:Er.
    pose proof (bufio_read_spec orc n s r1 s1 ltac:(lia) Er) as (Htl & Har & Hsp).
    destruct r1 as [d|e].
    + destruct Hsp as (mk & E & Hmk & Ha & Hl & Hle & Hlt).
      destruct (IH (n - length d)%nat (d :: acc) s1) as (r & s' & Hio & Hg & Htl' & Har').
      { destruct d as [|y d]; [specialize (Hlt eq_refl); cbn [length]; lia | cbn [length] in *; lia]. }
      exists r, s'. split; [exact Hio|]. split.
      * rewrite E. rewrite Htl, Har in Hg. cbn [rev] in Hg. rewrite concat_app in Hg. cbn [concat] in Hg.
        rewrite app_nil_r in Hg.
        destruct (c_armed (b_conn s)) eqn:Earm.
        -- rewrite (Ha eq_refl). cbn [app]. rewrite g_take_somes by lia. exact Hg.
        -- rewrite g_take_nones by (try assumption; lia). rewrite g_take_somes by lia. exact Hg.
      * split; congruence.
    + exists (inr (full_err (concat (rev acc)) e)), s1. split; [reflexivity|]. split; [|split; assumption].
      destruct Hsp as [(Ha & He & E)|(He & Hn & Ha & E')].
      * rewrite E, Ha, He. subst n. reflexivity.
      * rewrite E'. subst e. destruct (c_armed (b_conn s)) eqn:Earm.
        -- rewrite (Ha eq_refl). subst n. reflexivity.
        -- apply g_take_all_none; [assumption|lia].
Qed.

(* io.ReadFull through bufio and the chunked connection = io.ReadFull on the gapped flat stream:
   for every chunking, every short-read oracle, armed or not, with or without gaps *)
Theorem rfull_L_gflat orc n s :
  exists r s', rfull_L orc n s = Some (r, s') /\ rfull_G n (gfl s) = Some (r, gfl s').
Proof.
  unfold rfull_L.
  destruct (io_full_L orc (S (n + length (c_evs (b_conn s)))) n [] s ltac:(lia)) as (r & s' & Hio & Hg & Htl & Har).
  exists r, s'. split; [exact Hio|].
  unfold rfull_G, gfl. cbn [g_items g_tl g_armed]. fold (gi s) (gi s'). cbn [rev concat] in Hg.
  rewrite Hg, Htl, Har. reflexivity.
Qed.

(* ======================= Part 2 ======================= *)
Lemma g_take_strip l : forall armed tl n acc, armed = false \/ no_none l ->
  exists r l', g_take armed tl l n acc = (r, l') /\ (armed = false \/ no_none l') /\
    (if Nat.leb n (length (g_bytes l))
     then r = inl (acc ++ firstn n (g_bytes l)) /\ g_bytes l' = skipn n (g_bytes l)
     else r = inr (full_err (acc ++ g_bytes l) tl) /\ g_bytes l' = []).
Proof.
  induction l as [|x l IH]; intros armed tl n acc Hok.
  - destruct n; cbn [g_take g_bytes length Nat.leb firstn skipn]; eexists _, _; (split; [reflexivity|]);
      rewrite app_nil_r; repeat split; try (right; constructor); reflexivity.
  - destruct n as [|n].
    + cbn [g_take]. eexists _, _. split; [reflexivity|]. split; [exact Hok|].
      cbn [Nat.leb firstn skipn]. rewrite app_nil_r. split; reflexivity.
    + destruct x as [b|].
      * cbn [g_take g_bytes length Nat.leb].
        destruct (IH armed tl n (acc ++ [b])) as (r & l' & Hg & Hok' & Hres).
        { destruct Hok as [?|Hn]; [now left|right; now inversion Hn]. }
        exists r, l'. split; [exact Hg|]. split; [exact Hok'|].
        destruct (Nat.leb n (length (g_bytes l))); cbn [firstn skipn];
          rewrite <- app_assoc in Hres; exact Hres.
      * destruct Hok as [Ha|Hn]; [|inversion Hn; congruence].
        subst armed. cbn [g_take g_bytes].
        destruct (IH false tl (S n) acc (or_introl eq_refl)) as (r & l' & Hg & Hok' & Hres).
        exists r, l'. auto.
Qed.

Theorem rfull_G_F n s : tm_okG s ->
  exists r s', rfull_G n s = Some (r, s') /\ rfull_F n (gstrip s) = Some (r, gstrip s') /\ tm_okG s'.
Proof.
  intros Hok. destruct s as [l tl armed]. unfold tm_okG in Hok. cbn [g_armed g_items] in Hok.
  destruct (g_take_strip l armed tl n [] Hok) as (r & l' & Hg & Hok' & Hres).
  unfold rfull_G, rfull_F, gstrip. cbn [g_items g_tl g_armed f_bytes f_tl]. rewrite Hg.
  eexists _, _. split; [reflexivity|]. cbn [g_items g_tl g_armed].
  split; [|exact Hok'].
  destruct (Nat.leb n (length (g_bytes l))); destruct Hres as [-> ->]; reflexivity.
Qed.

(* asking the flat stream for more than it holds: how much more does not matter *)
Lemma rfull_F_clamp n s : (length (f_bytes s) < n)%nat -> rfull_F n s = rfull_F (S (length (f_bytes s))) s.
Proof.
  intros Hn. unfold rfull_F.
  replace (Nat.leb n (length (f_bytes s))) with false by (symmetry; apply Nat.leb_gt; lia).
  replace (Nat.leb (S (length (f_bytes s))) (length (f_bytes s))) with false by (symmetry; apply Nat.leb_gt; lia).
  reflexivity.
Qed.

Lemma g_bytes_app a b : g_bytes (a ++ b) = g_bytes a ++ g_bytes b.
Proof. induction a as [|[x|] a IH]; cbn [app g_bytes]; [reflexivity|now rewrite IH|exact IH]. Qed.
Lemma g_bytes_somes d : g_bytes (map Some d) = d.
Proof. induction d as [|x d IH]; cbn [map g_bytes]; [reflexivity|now rewrite IH]. Qed.
Lemma g_bytes_evs evs : g_bytes (g_evs evs) = cat_evs evs.
Proof.
  induction evs as [|[b|] evs IH]; cbn [g_evs cat_evs g_bytes]; [reflexivity| |exact IH].
  now rewrite g_bytes_app, g_bytes_somes, IH.
Qed.
Lemma gstrip_gfl s : gstrip (gfl s) = fl s.
Proof.
  unfold gstrip, gfl, fl, flatten. cbn [g_items g_tl]. now rewrite g_bytes_app, g_bytes_somes, g_bytes_evs.
Qed.

Lemma no_none_somes d : no_none (map Some d).
Proof. induction d; cbn [map]; constructor; [discriminate|assumption]. Qed.
Lemma no_none_evs evs : no_timeouts evs -> no_none (g_evs evs).
Proof.
  induction 1 as [|[b|] evs Hx Hevs IH]; cbn [g_evs]; [constructor| |congruence].
  apply Forall_app. split; [apply no_none_somes|exact IH].
Qed.
Lemma no_none_evs_inv evs : no_none (g_evs evs) -> no_timeouts evs.
Proof.
  induction evs as [|[b|] evs IH]; cbn [g_evs]; intros Hn; constructor.
  - discriminate.
  - apply IH. now apply Forall_app in Hn.
  - inversion Hn. congruence.
  - inversion Hn. congruence.
Qed.
Lemma tm_ok_gfl s : tm_ok s <-> tm_okG (gfl s).
Proof.
  unfold tm_ok, tm_okG, gfl. cbn [g_armed g_items]. split; intros [H|H]; [now left| |now left|].
  - right. apply Forall_app. split; [apply no_none_somes|now apply no_none_evs].
  - right. apply Forall_app in H. now apply no_none_evs_inv.
Qed.

(* io.ReadFull of n bytes through the layers = io.ReadFull on the flat stream *)
Theorem rfull_L_F orc n s : tm_ok s ->
  exists r s', rfull_L orc n s = Some (r, s') /\ rfull_F n (fl s) = Some (r, fl s') /\ tm_ok s'.
Proof.
  intros Hok. destruct (rfull_L_gflat orc n s) as (r & s' & HL & HG).
  destruct (rfull_G_F n (gfl s) (proj1 (tm_ok_gfl s) Hok)) as (r2 & g' & HG' & HF & Hok').
  rewrite HG in HG'. inversion HG'; subst r2 g'.
  exists r, s'. split; [exact HL|]. rewrite <- !gstrip_gfl. split; [exact HF|]. now apply tm_ok_gfl.
Qed.

(* the statement of C08's first theorem, spelled out *)
Theorem readfull_flatten_thm orc n s : tm_ok s ->
  exists r s', rfull_L orc n s = Some (r, s') /\ tm_ok s' /\ c_tl (b_conn s') = c_tl (b_conn s) /\
    (if Nat.leb n (length (flatten s))
     then r = inl (firstn n (flatten s)) /\ flatten s' = skipn n (flatten s)
     else r = inr (full_err (flatten s) (c_tl (b_conn s))) /\ flatten s' = []).
Proof.
  intros Hok. destruct (rfull_L_F orc n s Hok) as (r & s' & HL & HF & Hok').
  exists r, s'. split; [exact HL|]. split; [exact Hok'|].
  unfold rfull_F, fl in HF. cbn [f_bytes f_tl] in HF.
  destruct (Nat.leb n (length (flatten s))); inversion HF; auto.
Qed.

(* ======================= Part 3 ======================= *)
Definition rr_inv {S1 A} (inv : S1 -> Prop) (r : rr S1 A) : Prop :=
  match r with ROk _ s | RErr _ s => inv (p_raw s) | _ => True end.

Section Sim.
Variables S1 S2 : Type.
Variable rf1 : nat -> S1 -> option ((bytes + ioerr) * S1).
Variable rf2 : nat -> S2 -> option ((bytes + ioerr) * S2).
Variable av1 : S1 -> nat.
Variable av2 : S2 -> nat.
Variable f : S1 -> S2.
Variable inv : S1 -> Prop.
Variable H : bytes -> N * N.
Variable decomp : N -> bytes -> N -> option bytes.
Hypothesis Hrf : forall n s, inv s -> exists r s', rf1 n s = Some (r, s') /\ rf2 n (f s) = Some (r, f s') /\ inv s'.
Hypothesis Hav : forall s, inv s -> av1 s = av2 (f s).

Definition omap {X} (r : option ((X) * S1)) : option (X * S2) :=
  match r with Some (x, s) => Some (x, f s) | None => None end.
Definition omapp {X} (r : option (X * prd S1)) : option (X * prd S2) :=
  match r with Some (x, s) => Some (x, pmap_st f s) | None => None end.
Definition oinv {X} (r : option (X * S1)) : Prop := match r with Some (_, s) => inv s | None => True end.
Definition oinvp {X} (r : option (X * prd S1)) : Prop := match r with Some (_, s) => inv (p_raw s) | None => True end.

Lemma zread_block_sim raw : inv raw ->
  omap (zread_block S1 rf1 av1 H decomp raw) = zread_block S2 rf2 av2 H decomp (f raw) /\ oinv (zread_block S1 rf1 av1 H decomp raw).
Proof.
  intros Hi. unfold zread_block.
  destruct (Hrf headerSize raw Hi) as (r & raw1 & E1 & E2 & Hi1). rewrite E1, E2.
  destruct r as [header|e]; [|split; [reflexivity|exact Hi1]].
  destruct (maxDataSize <? _); [split; [reflexivity|exact Hi1]|].
  destruct (_ || _)%bool; [split; [reflexivity|exact Hi1]|].
  cbv zeta. rewrite <- (Hav raw1 Hi1).
  match goal with |- context [rf1 ?n raw1] => destruct (Hrf n raw1 Hi1) as (r2 & raw2 & E3 & E4 & Hi2) end.
  rewrite E3, E4. destruct r2 as [payload|e]; [|split; [reflexivity|exact Hi2]].
  destruct (negb _); [split; [reflexivity|exact Hi2]|].
  destruct (decode_payload _ _ _ _ _); split; try reflexivity; exact Hi2.
Qed.

Lemma zread_sim n s : inv (p_raw s) ->
  omapp (zread S1 rf1 av1 H decomp n s) = zread S2 rf2 av2 H decomp n (pmap_st f s) /\ oinvp (zread S1 rf1 av1 H decomp n s).
Proof.
  intros Hi. unfold zread. cbn [pmap_st p_data p_pos p_raw p_comp].
  destruct (blen (p_data s) <=? p_pos s).
  - destruct (zread_block_sim (p_raw s) Hi) as [E Hi'].
    rewrite <- E. destruct (zread_block S1 rf1 av1 H decomp (p_raw s)) as [[[e|d] raw']|]; cbn in *; auto.
  - split; [reflexivity|exact Hi].
Qed.

Lemma zfull_sim : forall fuel n acc s, inv (p_raw s) ->
  omapp (zfull S1 rf1 av1 H decomp fuel n acc s) = zfull S2 rf2 av2 H decomp fuel n acc (pmap_st f s) /\
  oinvp (zfull S1 rf1 av1 H decomp fuel n acc s).
Proof.
  induction fuel as [|fuel IH]; intros n acc s Hi; destruct n as [|n']; cbn [zfull]; try (split; [reflexivity|]; cbn; auto; fail).
  destruct (zread_sim (S n') s Hi) as [E Hi']. rewrite <- E.
  destruct (zread S1 rf1 av1 H decomp (S n') s) as [[[d|e] s']|]; cbn [omapp] in *.
  - apply IH. exact Hi'.
  - split; [reflexivity|exact Hi'].
  - split; [reflexivity|exact I].
Qed.

Lemma p_readfull_sim n s : inv (p_raw s) ->
  omapp (p_readfull S1 rf1 av1 H decomp n s) = p_readfull S2 rf2 av2 H decomp n (pmap_st f s) /\
  oinvp (p_readfull S1 rf1 av1 H decomp n s).
Proof.
  intros Hi. unfold p_readfull. cbn [pmap_st p_comp p_raw]. destruct (p_comp s) eqn:Ec.
  - rewrite <- (Hav _ Hi). apply zfull_sim. exact Hi.
  - destruct (Hrf n (p_raw s) Hi) as (r & raw' & E1 & E2 & Hi'). rewrite E1, E2.
    destruct r; split; try reflexivity; exact Hi'.
Qed.

Lemma p_avail_sim s : inv (p_raw s) -> p_avail S1 av1 s = p_avail S2 av2 (pmap_st f s).
Proof. intros Hi. unfold p_avail, pending. cbn [pmap_st p_comp p_raw p_pos p_data]. now rewrite (Hav _ Hi). Qed.

Theorem run_sim {A} (P : rd A) : forall s, inv (p_raw s) ->
  rr_map f (run S1 rf1 av1 H decomp P s) = run S2 rf2 av2 H decomp P (pmap_st f s) /\
  rr_inv inv (run S1 rf1 av1 H decomp P s).
Proof.
  induction P as [a|e|c|n k IH|k IH|on k IH]; intros s Hi; cbn [run].
  - split; [reflexivity|exact Hi].
  - split; [reflexivity|exact Hi].
  - split; [reflexivity|exact I].
  - destruct (p_readfull_sim n s Hi) as [E Hi']. rewrite <- E.
    destruct (p_readfull S1 rf1 av1 H decomp n s) as [[[b|e] s']|]; cbn [omapp oinvp] in *.
    + apply IH. exact Hi'.
    + split; [reflexivity|exact Hi'].
    + split; [reflexivity|exact I].
  - rewrite <- (p_avail_sim s Hi). apply IH. exact Hi.
  - apply (IH (with_comp on s)). exact Hi.
Qed.

Variable arm1 : bool -> S1 -> S1.
Variable arm2 : bool -> S2 -> S2.
Hypothesis Harm : forall a s, inv s -> inv (arm1 a s) /\ f (arm1 a s) = arm2 a (f s).

Lemma p_arm_sim a s : inv (p_raw s) ->
  pmap_st f (p_arm S1 arm1 a s) = p_arm S2 arm2 a (pmap_st f s) /\ inv (p_raw (p_arm S1 arm1 a s)).
Proof.
  intros Hi. destruct (Harm a (p_raw s) Hi) as [Hi' E]. unfold p_arm, with_raw, pmap_st. cbn [p_raw p_data p_pos p_comp].
  rewrite E. split; [reflexivity|exact Hi'].
Qed.

Theorem packet_sim s : inv (p_raw s) ->
  rr_map f (packet S1 rf1 av1 arm1 H decomp s) = packet S2 rf2 av2 arm2 H decomp (pmap_st f s) /\
  rr_inv inv (packet S1 rf1 av1 arm1 H decomp s).
Proof.
  intros Hi. unfold packet.
  destruct (p_arm_sim true s Hi) as [Ea Hia]. rewrite <- Ea.
  destruct (run_sim r_uvarint _ Hia) as [E Hi']. rewrite <- E.
  destruct (run S1 rf1 av1 H decomp r_uvarint (p_arm S1 arm1 true s)) as [n s'|e s'| |]; cbn [rr_map rr_inv] in *;
    try (split; [reflexivity|exact I]).
  - destruct (p_arm_sim false s' Hi') as [Eb Hib]. rewrite <- Eb.
    cbv zeta. destruct (mem_N (n mod 256) server_codes); cbn [rr_map rr_inv]; split; try reflexivity; exact Hib.
  - destruct (p_arm_sim false s' Hi') as [Eb Hib]. rewrite <- Eb. split; [reflexivity|exact Hib].
Qed.

Theorem recv_sim {R} (body : N -> rd (step R)) : forall fuel s, inv (p_raw s) ->
  rr_map f (recv_loop S1 rf1 av1 arm1 H decomp body fuel s) = recv_loop S2 rf2 av2 arm2 H decomp body fuel (pmap_st f s) /\
  rr_inv inv (recv_loop S1 rf1 av1 arm1 H decomp body fuel s).
Proof.
  induction fuel as [|fuel IH]; intros s Hi; cbn [recv_loop]; [split; [reflexivity|exact I]|].
  destruct (packet_sim s Hi) as [E Hi']. rewrite <- E.
  destruct (packet S1 rf1 av1 arm1 H decomp s) as [code s'|e s'| |]; cbn [rr_map rr_inv] in *;
    try (split; [reflexivity|exact I]).
  - destruct (run_sim (body code) s' Hi') as [E2 Hi2]. rewrite <- E2.
    destruct (run S1 rf1 av1 H decomp (body code) s') as [[|r] s''|e s''| |]; cbn [rr_map rr_inv] in *;
      try (split; [reflexivity|first [exact I|exact Hi2]]).
    apply IH. exact Hi2.
  - destruct (is_timeout e); [apply IH; exact Hi'|split; [reflexivity|exact Hi']].
Qed.
End Sim.

(* ======================= Part 4 ======================= *)
Section Bind.
Variable St : Type.
Variable rfull : nat -> St -> option ((bytes + ioerr) * St).
Variable avail : St -> nat.
Variable H : bytes -> N * N.
Variable decomp : N -> bytes -> N -> option bytes.
Lemma run_rbind {A B} (P : rd A) (F : A -> rd B) : forall s,
  run St rfull avail H decomp (rbind P F) s =
  match run St rfull avail H decomp P s with
  | ROk a s' => run St rfull avail H decomp (F a) s'
  | RErr e s' => RErr e s'
  | RCrash c => RCrash c
  | RFuel => RFuel
  end.
Proof.
  induction P as [a|e|c|n k IH|k IH|on k IH]; intros s; cbn [rbind run]; try reflexivity.
  - destruct (p_readfull St rfull avail H decomp n s) as [[[b|e] s']|]; [apply IH|reflexivity|reflexivity].
  - apply IH.
  - apply IH.
Qed.
End Bind.

Definition fbytes (s : prd flat) : bytes := f_bytes (p_raw s).

Lemma run_F_full {A} H decomp n (k : bytes -> rd A) (s : prd flat) : p_comp s = false ->
  run_F H decomp (RFull n k) s =
  if Nat.leb n (length (fbytes s))
  then run_F H decomp (k (firstn n (fbytes s))) (with_raw s {| f_bytes := skipn n (fbytes s) ; f_tl := f_tl (p_raw s) |})
  else RErr (SIo (full_err (fbytes s) (f_tl (p_raw s)))) (with_raw s {| f_bytes := [] ; f_tl := f_tl (p_raw s) |}).
Proof.
  intros Hc. unfold run_F, fbytes. cbn [run]. unfold p_readfull, rfull_F. rewrite Hc.
  destruct (Nat.leb n (length (f_bytes (p_raw s)))); reflexivity.
Qed.

Lemma realizes_ret {A} (a : A) : realizes (RRet a) (ret a).
Proof. intros H d s Hc. split; [reflexivity|exact Hc]. Qed.
Lemma realizes_fail {A} e : realizes (@RFail A e) (fail e).
Proof. intros H d s Hc. split; [reflexivity|exact I]. Qed.

Lemma realizes_bind {A B} (P : rd A) (p : parser A) (F : A -> rd B) (f : A -> parser B) :
  realizes P p -> (forall a, realizes (F a) (f a)) -> realizes (rbind P F) (bind p f).
Proof.
  intros HP HF H d s Hc. unfold run_F. rewrite run_rbind. fold (@run_F H d A). 
  destruct (HP H d s Hc) as [E C]. unfold bind. rewrite <- E.
  destruct (run_F H d P s) as [a s'|e s'|c|]; cbn [to_res comp_off] in *; try (split; [reflexivity|exact I]).
  exact (HF a H d s' C).
Qed.

Lemma realizes_pmap {A B} (g : A -> B) P p : realizes P p -> realizes (r_pmap g P) (pmap g p).
Proof. intros HP. apply realizes_bind; [exact HP|]. intros a. apply realizes_ret. Qed.

Lemma realizes_ext {A} (P : rd A) (p q : parser A) : (forall s, p s = q s) -> realizes P p -> realizes P q.
Proof. intros E HP H d s Hc. destruct (HP H d s Hc) as [E1 C]. split; [now rewrite <- E|exact C]. Qed.

Lemma realizes_if {A} (c : bool) (P Q : rd A) p q : realizes P p -> realizes Q q ->
  realizes (if c then P else Q) (if c then p else q).
Proof. destruct c; auto. Qed.

Lemma realizes_read_n n : realizes (r_read_n n) (read_n n).
Proof.
  intros H d s Hc. unfold r_read_n. rewrite run_F_full by exact Hc. unfold read_n. fold (fbytes s).
  destruct (Nat.leb n (length (fbytes s))); cbn; split; auto.
Qed.

Lemma realizes_alloc n : realizes (r_alloc n) (alloc n).
Proof.
  intros H d s Hc. unfold r_alloc, run_F. cbn [run]. unfold p_avail, alloc. rewrite Hc.
  unfold avail_F. destruct (alloc_ok n (length (f_bytes (p_raw s)))); cbn; split; auto.
Qed.

(* a program that asks for the number of bytes still to come implements a parser that takes its fuel from the
   length of its input *)
Lemma realizes_avail {A} (F : nat -> rd A) (f : nat -> parser A) :
  (forall n, realizes (F n) (f n)) -> realizes (RAvail F) (fun s => f (length s) s).
Proof.
  intros HF H d s Hc. unfold run_F. cbn [run]. unfold p_avail. rewrite Hc. unfold avail_F.
  exact (HF _ H d s Hc).
Qed.

Lemma realizes_read_raw n : realizes (r_read_raw n) (read_raw n).
Proof. apply realizes_bind; [apply realizes_alloc|intros _; apply realizes_read_n]. Qed.

Lemma realizes_read_byte : realizes r_read_byte read_byte.
Proof.
  intros H d s Hc. unfold r_read_byte. rewrite run_F_full by exact Hc. unfold read_byte. fold (fbytes s).
  destruct (fbytes s) as [|b l]; cbn; split; auto.
Qed.

Lemma realizes_get_uv : forall fuel i acc, realizes (r_get_uv fuel i acc) (get_uv fuel i acc).
Proof.
  induction fuel as [|fuel IH]; intros i acc; [apply realizes_fail|].
  intros H d s Hc. cbn [r_get_uv get_uv]. rewrite run_F_full by exact Hc. fold (fbytes s).
  destruct (fbytes s) as [|b l] eqn:Eb; [cbn; split; auto|].
  cbn [length Nat.leb firstn skipn].
  destruct (b <? 128).
  - destruct ((i =? 9) && (1 <? b))%bool; cbn; split; auto.
  - specialize (IH (i + 1) (acc + (b - 128) * 2 ^ (7 * i)) H d
                   (with_raw s {| f_bytes := l ; f_tl := f_tl (p_raw s) |}) Hc).
    exact IH.
Qed.

Lemma realizes_uvarint : realizes r_uvarint uvarint.
Proof. apply realizes_get_uv. Qed.
Lemma realizes_get_int : realizes r_get_int get_int.
Proof. apply realizes_pmap, realizes_uvarint. Qed.
Lemma realizes_strlen : realizes r_strlen strlen.
Proof.
  apply realizes_bind; [apply realizes_get_int|]. intros n.
  apply realizes_if; [apply realizes_fail|apply realizes_ret].
Qed.

Lemma firstn_add {X} (a b : nat) (l : list X) : firstn (a + b) l = firstn a l ++ firstn b (skipn a l).
Proof.
  revert l; induction a as [|a IH]; intros l; [reflexivity|].
  destruct l as [|x l]; cbn [Nat.add firstn skipn app]; [now rewrite firstn_nil|now rewrite IH].
Qed.
Lemma skipn_add {X} (a b : nat) (l : list X) : skipn (a + b) l = skipn b (skipn a l).
Proof.
  revert l; induction a as [|a IH]; intros l; [reflexivity|].
  destruct l as [|x l]; cbn [Nat.add skipn]; [now rewrite skipn_nil|apply IH].
Qed.

Lemma str_loop_flat H d : forall fuel need acc (s : prd flat), p_comp s = false ->
  (length (fbytes s) < fuel)%nat ->
  to_res (run_F H d (r_str_loop fuel need acc) s) =
    (if need <=? blen (fbytes s)
     then Ok (acc ++ firstn (N.to_nat need) (fbytes s)) (skipn (N.to_nat need) (fbytes s))
     else Err EEof) /\
  comp_off (run_F H d (r_str_loop fuel need acc) s).
Proof.
  induction fuel as [|fuel IH]; intros need acc s Hc Hf; [lia|].
  cbn [r_str_loop]. destruct (need =? 0) eqn:E0.
  - apply N.eqb_eq in E0. subst need.
    replace (0 <=? blen (fbytes s)) with true by (symmetry; apply N.leb_le; lia).
    cbn. rewrite app_nil_r. split; [reflexivity|exact Hc].
  - apply N.eqb_neq in E0.
    assert (Hchunk : 1 <= N.min need str_chunk <= need) by (unfold str_chunk; lia).
    set (c := N.min need str_chunk) in *.
    rewrite run_F_full by exact Hc.
    destruct (Nat.leb (N.to_nat c) (length (fbytes s))) eqn:El.
    + apply Nat.leb_le in El.
      set (s1 := with_raw s {| f_bytes := skipn (N.to_nat c) (fbytes s) ; f_tl := f_tl (p_raw s) |}).
      assert (Hb1 : fbytes s1 = skipn (N.to_nat c) (fbytes s)) by reflexivity.
      assert (Hl1 : length (fbytes s1) = (length (fbytes s) - N.to_nat c)%nat) by (rewrite Hb1; apply skipn_length).
      destruct (IH (need - c) (acc ++ firstn (N.to_nat c) (fbytes s)) s1 Hc ltac:(lia)) as [E C].
      split; [|exact C]. rewrite E. unfold blen. rewrite Hl1.
      destruct (need <=? N.of_nat (length (fbytes s))) eqn:E1.
      * replace (need - c <=? N.of_nat (length (fbytes s) - N.to_nat c)) with true by (symmetry; apply N.leb_le; lia).
        rewrite Hb1. replace (N.to_nat need) with (N.to_nat c + N.to_nat (need - c))%nat by lia.
        rewrite firstn_add, skipn_add, <- app_assoc. reflexivity.
      * replace (need - c <=? N.of_nat (length (fbytes s) - N.to_nat c)) with false by (symmetry; apply N.leb_gt; lia).
        reflexivity.
    + apply Nat.leb_gt in El. cbn [to_res comp_off err_class]. split; [|exact I].
      replace (need <=? blen (fbytes s)) with false by (symmetry; apply N.leb_gt; unfold blen; lia).
      reflexivity.
Qed.

Lemma chunk_alloc_ok n av : alloc_ok (N.min n str_chunk) av = true.
Proof.
  unfold alloc_ok. apply orb_true_iff. left. apply N.leb_le.
  assert (str_chunk <= alloc_cap) by (vm_compute; discriminate). lia.
Qed.

Lemma realizes_get_str : realizes r_get_str get_str.
Proof.
  apply realizes_bind; [apply realizes_strlen|]. intros n H d s Hc.
  unfold run_F. cbn [run]. fold (@run_F H d bytes). unfold p_avail. rewrite Hc. unfold avail_F. fold (fbytes s).
  destruct (str_loop_flat H d (S (length (fbytes s))) n [] s Hc ltac:(lia)) as [E C].
  split; [|exact C]. rewrite E. unfold bind, alloc. rewrite chunk_alloc_ok. unfold read_nN, read_n.
  destruct (n <=? blen (fbytes s)) eqn:E1; [|reflexivity].
  apply N.leb_le in E1. unfold blen in E1.
  replace (Nat.leb (N.to_nat n) (length (fbytes s))) with true by (symmetry; apply Nat.leb_le; lia).
  reflexivity.
Qed.

Lemma realizes_get_u8 : realizes r_get_u8 get_u8.
Proof. apply realizes_pmap, realizes_read_raw. Qed.
Lemma realizes_get_u16 : realizes r_get_u16 get_u16.
Proof. apply realizes_pmap, realizes_read_raw. Qed.
Lemma realizes_get_u32 : realizes r_get_u32 get_u32.
Proof. apply realizes_pmap, realizes_read_raw. Qed.
Lemma realizes_get_u64 : realizes r_get_u64 get_u64.
Proof. apply realizes_pmap, realizes_read_raw. Qed.
Lemma realizes_get_u128 : realizes r_get_u128 get_u128.
Proof. apply realizes_pmap, realizes_read_raw. Qed.
Lemma realizes_get_i32 : realizes r_get_i32 get_i32.
Proof. apply realizes_pmap, realizes_get_u32. Qed.
Lemma realizes_get_i64 : realizes r_get_i64 get_i64.
Proof. apply realizes_pmap, realizes_get_u64. Qed.
Lemma realizes_get_bool : realizes r_get_bool get_bool.
Proof.
  apply realizes_bind; [apply realizes_get_u8|]. intros v.
  apply realizes_if; [apply realizes_ret|]. apply realizes_if; [apply realizes_ret|apply realizes_fail].
Qed.

Lemma realizes_rep {A} (P : rd A) p : realizes P p -> forall n, realizes (r_rep n P) (rep n p).
Proof.
  intros HP. induction n as [|n IH]; cbn [r_rep rep]; [apply realizes_ret|].
  apply realizes_bind; [exact HP|]. intros x. apply realizes_bind; [exact IH|]. intros xs. apply realizes_ret.
Qed.

Lemma realizes_dec_field k : realizes (r_dec_field k) (dec_field k).
Proof.
  destruct k; cbn [r_dec_field dec_field].
  - apply realizes_pmap, realizes_get_str.
  - apply realizes_pmap, realizes_get_int.
  - apply realizes_pmap, realizes_uvarint.
  - apply realizes_pmap, realizes_get_u8.
  - apply realizes_bind; [apply realizes_get_u8|]. intros n. apply realizes_if; [apply realizes_ret|apply realizes_fail].
  - apply realizes_bind; [apply realizes_uvarint|]. intros n. cbv zeta.
    apply realizes_if; [apply realizes_ret|apply realizes_fail].
  - apply realizes_pmap, realizes_get_i32.
  - apply realizes_pmap, realizes_get_i64.
  - apply realizes_pmap, realizes_get_bool.
  - apply realizes_pmap, realizes_get_int.
  - apply realizes_bind; [apply realizes_get_bool|]. intros has.
    apply realizes_if; [|apply realizes_ret].
    apply realizes_bind; [apply realizes_read_raw|]. intros t.
    apply realizes_bind; [apply realizes_read_raw|]. intros sp.
    apply realizes_bind; [apply realizes_get_str|]. intros st.
    apply realizes_bind; [apply realizes_get_u8|]. intros fl.
    apply realizes_ret.
Qed.

Lemma realizes_decode_fields v : forall l, realizes (r_decode_fields v l) (decode_fields v l).
Proof.
  induction l as [|f l IH]; cbn [r_decode_fields decode_fields]; [apply realizes_ret|].
  apply realizes_bind.
  - apply realizes_if; [apply realizes_dec_field|apply realizes_ret].
  - intros x. apply realizes_bind; [exact IH|]. intros xs. apply realizes_ret.
Qed.

(* ======================= Part 5 ======================= *)
Theorem run_L_G orc H d {A} (P : rd A) s :
  rr_map gfl (run_L orc H d P s) = run_G H d P (pmap_st gfl s).
Proof.
  refine (proj1 (run_sim bufio gflat (rfull_L orc) rfull_G avail_L avail_G gfl (fun _ => True) H d _ _ P s I)).
  - intros n s0 _. destruct (rfull_L_gflat orc n s0) as (r & s' & E1 & E2). exists r, s'. auto.
  - intros s0 _. unfold avail_L, avail_G, gfl, flatten. cbn [g_items].
    now rewrite g_bytes_app, g_bytes_somes, g_bytes_evs.
Qed.

Theorem run_L_F orc H d {A} (P : rd A) s : tm_ok (p_raw s) ->
  rr_map fl (run_L orc H d P s) = run_F H d P (pmap_st fl s) /\ rr_inv tm_ok (run_L orc H d P s).
Proof.
  apply (run_sim bufio flat (rfull_L orc) rfull_F avail_L avail_F fl tm_ok H d).
  - intros n s0 Hok. exact (rfull_L_F orc n s0 Hok).
  - intros s0 _. reflexivity.
Qed.

Theorem run_G_F H d {A} (P : rd A) s : tm_okG (p_raw s) ->
  rr_map gstrip (run_G H d P s) = run_F H d P (pmap_st gstrip s) /\ rr_inv tm_okG (run_G H d P s).
Proof.
  apply (run_sim gflat flat rfull_G rfull_F avail_G avail_F gstrip tm_okG H d).
  - intros n s0 Hok. exact (rfull_G_F n s0 Hok).
  - intros s0 _. reflexivity.
Qed.

Theorem decode_chunk_independent_thm {A} (P : rd A) (p : parser A) : realizes P p ->
  forall orc H d (s : prd bufio), p_comp s = false -> tm_ok (p_raw s) ->
  to_res (rr_map fl (run_L orc H d P s)) = p (flatten (p_raw s)).
Proof.
  intros HP orc H d s Hc Hok. rewrite (proj1 (run_L_F orc H d P s Hok)).
  exact (proj1 (HP H d (pmap_st fl s) Hc)).
Qed.

Theorem segmentation_independent_thm {A} (P : rd A) orc1 orc2 H d (s1 s2 : prd bufio) :
  tm_ok (p_raw s1) -> tm_ok (p_raw s2) -> pmap_st fl s1 = pmap_st fl s2 ->
  rr_map fl (run_L orc1 H d P s1) = rr_map fl (run_L orc2 H d P s2).
Proof.
  intros H1 H2 E. rewrite (proj1 (run_L_F orc1 H d P s1 H1)), (proj1 (run_L_F orc2 H d P s2 H2)). now rewrite E.
Qed.

Theorem messages_chunk_independent_thm v l orc H d (s : prd bufio) : p_comp s = false -> tm_ok (p_raw s) ->
  to_res (rr_map fl (run_L orc H d (r_decode_fields v l) s)) = decode_fields v l (flatten (p_raw s)).
Proof. apply decode_chunk_independent_thm, realizes_decode_fields. Qed.

(* the packet-code read and the receive loop, with their deadline: layered = gapped flat *)
Theorem recv_L_G orc H d {R} (body : N -> rd (step R)) fuel s :
  rr_map gfl (recv_L orc H d body fuel s) = recv_G H d body fuel (pmap_st gfl s).
Proof.
  refine (proj1 (recv_sim bufio gflat (rfull_L orc) rfull_G avail_L avail_G gfl (fun _ => True) H d _ _ arm_L arm_G _ body fuel s I)).
  - intros n s0 _. destruct (rfull_L_gflat orc n s0) as (r & s' & E1 & E2). exists r, s'. auto.
  - intros s0 _. unfold avail_L, avail_G, gfl, flatten. cbn [g_items].
    now rewrite g_bytes_app, g_bytes_somes, g_bytes_evs.
  - intros a s0 _. split; [exact I|reflexivity].
Qed.

Theorem packet_L_G orc H d s :
  rr_map gfl (packet_L orc H d s) = packet_G H d (pmap_st gfl s).
Proof.
  refine (proj1 (packet_sim bufio gflat (rfull_L orc) rfull_G avail_L avail_G gfl (fun _ => True) H d _ _ arm_L arm_G _ s I)).
  - intros n s0 _. destruct (rfull_L_gflat orc n s0) as (r & s' & E1 & E2). exists r, s'. auto.
  - intros s0 _. unfold avail_L, avail_G, gfl, flatten. cbn [g_items].
    now rewrite g_bytes_app, g_bytes_somes, g_bytes_evs.
  - intros a s0 _. split; [exact I|reflexivity].
Qed.

(* ======================= Part 6 ======================= *)
(* a reader at a packet boundary: nothing armed, compression off *)
Definition gst (l : list (option N)) (tl : ioerr) (dt : bytes) (ps : N) : prd gflat :=
  {| p_raw := {| g_items := l ; g_tl := tl ; g_armed := false |} ; p_data := dt ; p_pos := ps ; p_comp := false |}.
Definition lst (evs : list event) (tl : ioerr) (calls : nat) (dt : bytes) (ps : N) : prd bufio :=
  {| p_raw := {| b_buf := [] ; b_conn := {| c_evs := evs ; c_tl := tl ; c_armed := false ; c_calls := calls |} |} ;
     p_data := dt ; p_pos := ps ; p_comp := false |}.

Lemma packet_G_gap H d l tl dt ps :
  packet_G H d (gst (None :: l) tl dt ps) = RErr (SIo ITimeout) (gst l tl dt ps).
Proof. reflexivity. Qed.

(* k silences in front of a packet cost k rounds of the receive loop and nothing else *)
Lemma recv_G_leading_gaps H d {R} (body : N -> rd (step R)) : forall k fuel l tl dt ps,
  recv_G H d body (k + fuel) (gst (repeat None k ++ l) tl dt ps) = recv_G H d body fuel (gst l tl dt ps).
Proof.
  induction k as [|k IH]; intros fuel l tl dt ps; [reflexivity|].
  cbn [repeat app Nat.add]. unfold recv_G. cbn [recv_loop].
  fold (packet_G H d (gst (None :: repeat None k ++ l) tl dt ps)). rewrite packet_G_gap.
  apply IH.
Qed.

Lemma g_evs_gaps k evs : g_evs (repeat Timeout k ++ evs) = repeat None k ++ g_evs evs.
Proof. induction k as [|k IH]; cbn [repeat app g_evs]; [reflexivity|now rewrite IH]. Qed.

Theorem timeout_between_packets_neutral_thm orc orc' H d {R} (body : N -> rd (step R)) k fuel evs tl calls calls' dt ps :
  rr_map gfl (recv_L orc H d body (k + fuel) (lst (repeat Timeout k ++ evs) tl calls dt ps)) =
  rr_map gfl (recv_L orc' H d body fuel (lst evs tl calls' dt ps)).
Proof.
  rewrite !recv_L_G. unfold lst, pmap_st, gfl. cbn [p_raw p_data p_pos p_comp b_buf b_conn c_evs c_tl c_armed map app].
  rewrite g_evs_gaps. apply (recv_G_leading_gaps H d body k fuel (g_evs evs) tl dt ps).
Qed.

(* the packet-code read alone, with the retry of the receive loop *)
Definition code_body := code_body_m.
Corollary packet_code_read_gaps_neutral_thm orc orc' H d k fuel evs tl calls calls' dt ps :
  rr_map gfl (recv_L orc H d code_body (k + fuel) (lst (repeat Timeout k ++ evs) tl calls dt ps)) =
  rr_map gfl (recv_L orc' H d code_body fuel (lst evs tl calls' dt ps)).
Proof. apply timeout_between_packets_neutral_thm. Qed.

(* without an armed deadline a silence anywhere is waited out: the gaps can be erased (this is what makes the
   bodies of the packets, which are read without deadline, independent of timing) *)
Theorem unarmed_gaps_neutral_thm orc H d {A} (P : rd A) (s : prd bufio) : c_armed (b_conn (p_raw s)) = false ->
  rr_map fl (run_L orc H d P s) = run_F H d P (pmap_st fl s).
Proof. intros Ha. apply run_L_F. now left. Qed.

(* ======================= obligations and the summary statement ======================= *)
Lemma stream_obligations_thm :
  (1 <= bufio_size)%nat /\ N.of_nat bufio_size = Z.to_N defaultReaderSize /\
  str_chunk = Z.to_N maxStrPrealloc /\ str_chunk <= alloc_cap /\
  Forall (fun c => c < 128) server_codes /\ NoDup server_codes /\ headerSize = 25%nat.
Proof.
  split; [apply bufio_size_pos|]. split; [unfold bufio_size, defaultReaderSize; lia|].
  split; [reflexivity|]. split; [vm_compute; discriminate|].
  split; [repeat constructor|]. split; [|reflexivity].
  repeat (constructor; [cbn; intuition discriminate|]). constructor.
Qed.

Lemma primitives_are_reader_programs_thm :
  (forall A (a : A), realizes (RRet a) (ret a)) /\ (forall A e, realizes (@RFail A e) (fail e)) /\
  (forall A B (P : rd A) p (F : A -> rd B) f, realizes P p -> (forall a, realizes (F a) (f a)) -> realizes (rbind P F) (bind p f)) /\
  (forall A (P : rd A) p, realizes P p -> forall n, realizes (r_rep n P) (rep n p)) /\
  (forall A (F : nat -> rd A) f, (forall n, realizes (F n) (f n)) -> realizes (RAvail F) (fun s => f (length s) s)) /\
  (forall n, realizes (r_read_n n) (read_n n)) /\ (forall n, realizes (r_read_raw n) (read_raw n)) /\
  (forall n, realizes (r_alloc n) (alloc n)) /\ realizes r_read_byte read_byte /\
  realizes r_uvarint uvarint /\ realizes r_get_int get_int /\ realizes r_strlen strlen /\ realizes r_get_str get_str /\
  realizes r_get_u8 get_u8 /\ realizes r_get_u16 get_u16 /\ realizes r_get_u32 get_u32 /\ realizes r_get_u64 get_u64 /\
  realizes r_get_u128 get_u128 /\ realizes r_get_i32 get_i32 /\ realizes r_get_i64 get_i64 /\ realizes r_get_bool get_bool.
Proof.
  split; [exact @realizes_ret|]. split; [exact @realizes_fail|]. split; [exact @realizes_bind|].
  split; [exact @realizes_rep|]. split; [exact @realizes_avail|]. split; [exact realizes_read_n|].
  split; [exact realizes_read_raw|]. split; [exact realizes_alloc|]. split; [exact realizes_read_byte|].
  split; [exact realizes_uvarint|]. split; [exact realizes_get_int|]. split; [exact realizes_strlen|].
  split; [exact realizes_get_str|]. split; [exact realizes_get_u8|]. split; [exact realizes_get_u16|].
  split; [exact realizes_get_u32|]. split; [exact realizes_get_u64|]. split; [exact realizes_get_u128|].
  split; [exact realizes_get_i32|]. split; [exact realizes_get_i64|]. exact realizes_get_bool.
Qed.
