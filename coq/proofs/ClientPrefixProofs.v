(* C07, client-to-server direction: a proper prefix of a Data packet the client writes (model/Send.v
   [packet_bytes]: code, table name, the block - plain, or as the one frame of compress.Writer) is not parsed
   as a packet by the reference server-side parser of C02 ([parse_data], the packet parser under
   [parse_client_stream]); and no proper prefix of a whole query stream parses.
   Route: the reference parser is monotone (also on the compressed path: readBlock over a longer stream reads
   the same frame) and consumes the packet exactly (SendProofs.parse_data_packet / client_stream_wellformed_thm). *)
From CH Require Import model.Send.
From CH Require Import proofs.PrimProofs proofs.FieldsProofs proofs.MessagesProofs proofs.ColumnsProofs proofs.ColumnsProofs2
  proofs.CompressProofs proofs.ParserStable proofs.SendProofs.
From CH Require Import gen.Features gen.Codes gen.Consts.
From Coq Require Import ZifyN ZifyNat ZifyBool.
Ltac Zify.zify_post_hook ::= Z.div_mod_to_equations.
Open Scope N_scope.
Open Scope list_scope.

Section ClientPrefix.
  Variable H : bytes -> N * N.
  Variable comp : method -> bytes -> option bytes.
  Variable decomp : N -> bytes -> N -> option bytes.
  Hypothesis Hrt : codec_rt comp decomp.

  (* readBlock accepted a frame: with more bytes behind it the same frame is read, the rest stays *)
  Lemma read_block_more u d u' al more :
    read_block H decomp u = (inr d, u', al) -> read_block H decomp (u ++ more) = (inr d, u' ++ more, al).
  Proof.
    intros Hr. destruct (Nat.lt_ge_cases (length u) 25) as [Hs|Hl].
    { rewrite (read_block_short H comp decomp u Hs) in Hr. discriminate. }
    destruct (split_header H comp decomp u Hl) as (ck & mb & rs4 & ds4 & tail & -> & Lc & Lr & Ld).
    rewrite read_block_spec in Hr by assumption.
    replace ((ck ++ mb :: rs4 ++ ds4 ++ tail) ++ more) with (ck ++ mb :: rs4 ++ ds4 ++ (tail ++ more))
      by (rewrite <- app_assoc; cbn [app]; now rewrite <- !app_assoc).
    rewrite read_block_spec by assumption.
    unfold rb_spec in *.
    destruct (maxDataSize <? le_get ds4); [discriminate|].
    destruct ((Z.of_N (le_get rs4) - 9 <? 0)%Z || (Z.of_N maxBlockSize <? Z.of_N (le_get rs4) - 9)%Z); [discriminate|].
    set (rawSize := Z.to_N (Z.of_N (le_get rs4) - 9)) in *.
    destruct (N.ltb_spec (blen tail) rawSize) as [C|C]; [discriminate|].
    destruct (N.ltb_spec (blen (tail ++ more)) rawSize) as [C'|C']; [rewrite blen_app in C'; lia|].
    assert (Hk : (N.to_nat rawSize <= length tail)%nat) by (unfold blen in C; lia).
    rewrite firstn_app, skipn_app.
    replace (N.to_nat rawSize - length tail)%nat with 0%nat by lia.
    cbn [firstn skipn]. rewrite app_nil_r.
    destruct (negb (pair_eqb (ck_pair ck) _)); [discriminate|].
    destruct (decode_payload decomp mb (firstn (N.to_nat rawSize) tail) rawSize (le_get ds4)) as [e|d0]; [discriminate|].
    injection Hr as <- <- <-. reflexivity.
  Qed.

  Lemma mono_parse_block cmp b v ts : mono (parse_block H decomp cmp b v ts).
  Proof.
    unfold parse_block. destruct cmp; [|apply (ms_decode_block exact_conflicts keep_type (fun _ => None))].
    intros s a r more.
    destruct (read_block H decomp s) as [[[e|payload] rest] al] eqn:Er.
    - destruct e; discriminate.
    - rewrite (read_block_more _ _ _ _ more Er).
      destruct (dec_typed_block b v ts payload) as [x [|y l]|e|c]; try discriminate.
      now intros [= <- <-].
  Qed.

  Lemma mono_parse_data cmp b v ts : mono (parse_data H decomp cmp b v ts).
  Proof.
    unfold parse_data.
    apply mono_bind; [apply mono_uvarint|]. intros code. apply mono_if; [apply mono_fail|].
    apply mono_bind; [apply mono_decode_fields|]. intros cd.
    apply mono_bind; [apply mono_parse_block|]. intros [[[i c] r] ts']. apply mono_ret.
  Qed.

  (* every proper prefix of a Data packet as the client writes it - cut in the code, the table name, the
     block info, a column header, column data, or anywhere in the compressed frame - is rejected *)
  Theorem client_packet_prefix_rejected_thm k b b' table cols ts p :
    cols_ok cols -> str_okb table = true -> fits H comp k b cols ->
    blank_targets ts = blank_targets cols ->
    packet_bytes H comp k b table cols = Some p ->
    forall j, (j < length p)%nat ->
      is_ok (parse_data H decomp (compressed k) b' (k_rev k) ts (firstn j p)) = false.
  Proof.
    intros Hok Ht Hfit Hts Hp j Hj.
    pose proof (parse_data_packet H comp decomp Hrt k b b' table cols ts p [] Hok Ht Hfit Hts Hp) as Hd.
    rewrite app_nil_r in Hd.
    exact (prefix_rejected_firstn _ _ _ (mono_parse_data _ _ _ _) Hd j Hj).
  Qed.

  (* ---- the whole stream of a query --------------------------------------------------------------- *)
  Lemma mono_parse_until_end cmp b v ts : forall fuel, mono (parse_until_end H decomp fuel cmp b v ts).
  Proof.
    induction fuel as [|f IH]; cbn [parse_until_end]; [apply mono_fail|].
    apply mono_bind; [apply mono_parse_data|]. intros d. apply mono_if; [apply mono_ret|].
    apply mono_bind; [exact IH|intros; apply mono_ret].
  Qed.

  Lemma parse_until_end_fuel cmp b v ts : forall f e s x r,
    parse_until_end H decomp f cmp b v ts s = Ok x r -> parse_until_end H decomp (f + e) cmp b v ts s = Ok x r.
  Proof.
    induction f as [|f IH]; intros e s x r; cbn [Nat.add parse_until_end]; [discriminate|].
    unfold bind. destruct (parse_data H decomp cmp b v ts s) as [d s1|e0|c0]; try discriminate.
    destruct (is_end d); [auto|].
    destruct (parse_until_end H decomp f cmp b v ts s1) as [y s2|e0|c0] eqn:E; try discriminate.
    now rewrite (IH e _ _ _ E).
  Qed.

  (* the stream parser without its final "nothing else is written" test, at a given fuel *)
  Definition parse_packets (fuel : nat) (k : ccfg) (b : build) (sc : schema) : parser (list packet) :=
    let v := k_rev k in
    let cmp := match k_comp k with None => false | Some _ => true end in
    code <- uvarint ;;
    if negb (code =? Z.to_N ClientCodeQuery) then fail EInvalid else
    q <- decode_Query v ;;
    ext <- parse_until_end H decomp fuel cmp b v (sc_ext sc) ;;
    inp <- (match sc_input sc with
            | None => ret []
            | Some ts => parse_until_end H decomp fuel cmp b v ts
            end) ;;
    ret (PQuery q :: map PData ext ++ map PData inp).

  Lemma parse_client_stream_inv k b sc s x r :
    parse_client_stream H decomp k b sc s = Ok x r ->
    r = [] /\ parse_packets (S (length s)) k b sc s = Ok x [].
  Proof.
    unfold parse_client_stream, parse_packets, bind.
    destruct (uvarint s) as [code s1|e|c]; try discriminate.
    destruct (negb (code =? Z.to_N ClientCodeQuery)); [discriminate|].
    destruct (decode_Query (k_rev k) s1) as [q s2|e|c]; try discriminate.
    destruct (parse_until_end H decomp (S (length s)) _ b (k_rev k) (sc_ext sc) s2) as [ext s3|e|c]; try discriminate.
    destruct (match sc_input sc with None => ret [] | Some ts => _ end s3) as [inp s4|e|c]; try discriminate.
    destruct s4; [|discriminate]. intros [= <- <-]. split; reflexivity.
  Qed.

  Lemma mono_parse_packets fuel k b sc : mono (parse_packets fuel k b sc).
  Proof.
    unfold parse_packets. cbv zeta.
    apply mono_bind; [apply mono_uvarint|]. intros code. apply mono_if; [apply mono_fail|].
    apply mono_bind; [apply mono_decode_Query|]. intros q.
    apply mono_bind; [apply mono_parse_until_end|]. intros ext.
    apply mono_bind; [|intros; apply mono_ret].
    destruct (sc_input sc); [apply mono_parse_until_end|apply mono_ret].
  Qed.

  Lemma parse_packets_fuel k b sc f e s x r :
    parse_packets f k b sc s = Ok x r -> parse_packets (f + e) k b sc s = Ok x r.
  Proof.
    unfold parse_packets, bind. cbv zeta.
    destruct (uvarint s) as [code s1|e0|c]; try discriminate.
    destruct (negb (code =? Z.to_N ClientCodeQuery)); [discriminate|].
    destruct (decode_Query (k_rev k) s1) as [q s2|e0|c]; try discriminate.
    destruct (parse_until_end H decomp f _ b (k_rev k) (sc_ext sc) s2) as [ext s3|e0|c] eqn:E1; try discriminate.
    rewrite (parse_until_end_fuel _ _ _ _ _ e _ _ _ E1).
    destruct (sc_input sc) as [ts|].
    - destruct (parse_until_end H decomp f _ b (k_rev k) ts s3) as [inp s4|e0|c] eqn:E2; try discriminate.
      now rewrite (parse_until_end_fuel _ _ _ _ _ e _ _ _ E2).
    - auto.
  Qed.

  (* a stream the reference parser accepts has no proper prefix it accepts: in particular (C02
     client_stream_wellformed) no proper prefix of what the client writes for a query - cut inside the Query
     packet, inside any Data packet or exactly between two packets - is a well-formed packet sequence *)
  Theorem client_stream_prefix_rejected_thm k b sc bs x :
    parse_client_stream H decomp k b sc bs = Ok x [] ->
    forall j, (j < length bs)%nat -> is_ok (parse_client_stream H decomp k b sc (firstn j bs)) = false.
  Proof.
    intros Hfull j Hj.
    destruct (parse_client_stream H decomp k b sc (firstn j bs)) as [y r|e|c] eqn:E; try reflexivity.
    exfalso.
    apply parse_client_stream_inv in E as (-> & E). apply parse_client_stream_inv in Hfull as (_ & Hfull).
    rewrite firstn_length_le in E by lia.
    pose proof (mono_parse_packets _ _ _ _ _ _ _ (skipn j bs) E) as E'.
    rewrite firstn_skipn in E'. cbn [app] in E'.
    apply (parse_packets_fuel _ _ _ _ (length bs - j)) in E'.
    replace (S j + (length bs - j))%nat with (S (length bs)) in E' by lia.
    rewrite Hfull in E'. injection E' as _ E'.
    apply (f_equal (@length _)) in E'. rewrite skipn_length in E'. cbn in E'. lia.
  Qed.

  (* C02's theorem and the one above: what the client writes for a query has no proper prefix that parses *)
  Corollary client_query_stream_prefix_rejected_thm k b b' u bs :
    gate (k_rev k) FeatureSettingsSerializedAsStrings = true ->
    query_ok (proto_query k u) = true ->
    str_okb (ext_table u) = true ->
    cols_ok (u_ext u) -> cols_ok (u_input u) ->
    fits H comp k b (u_ext u) -> fits H comp k b (u_input u) -> fits H comp k b [] ->
    client_stream H comp k b u = Some bs ->
    forall j, (j < length bs)%nat ->
      is_ok (parse_client_stream H decomp k b' (schema_of u) (firstn j bs)) = false.
  Proof.
    intros Hg Hq Ht He Hi Hfe Hfi Hf0 Hs.
    exact (client_stream_prefix_rejected_thm k b' (schema_of u) bs _
             (client_stream_wellformed_thm H comp decomp Hrt k b b' u bs Hg Hq Ht He Hi Hfe Hfi Hf0 Hs)).
  Qed.
End ClientPrefix.
