(* C12: soundness of the discipline checked by [Races.no_conflict], and the generated instance. *)
From Coq Require Import String List NArith Bool Arith Lia.
From CH Require Import gen.Access model.Races.
Import ListNotations.
Local Open Scope string_scope.
Local Open Scope list_scope.

(* ------------------------------------------------------------------ executions, happens-before, races *)

(* [wf_system t ths]: every thread runs a program made of the table's accesses for its role, taking the
   locks the table says; an episode (one owner call) has one kind and one thread per role; there is one
   pool constructor. *)
Definition wf_system (t : list acc) (ths : list thread) : Prop :=
  (forall i th, nth_error ths i = Some th -> prog_ok t (th_role th) [] (th_prog th) = true)
  /\ (forall i j a b, nth_error ths i = Some a -> nth_error ths j = Some b -> i <> j ->
        match cls (th_role a), cls (th_role b) with
        | COwner ka _, COwner kb _ => th_epi a = th_epi b -> ka = kb /\ th_role a <> th_role b
        | CPoolNew, CPoolNew => False
        | _, _ => True
        end).

(* [execution ths tr]: tr is an interleaving (a merge: its projection on every thread is that thread's
   program), mutual exclusion of every mutex holds along it, and it is consistent with the structural
   happens-before edges: no event of a thread that starts after another one is over comes first. *)
Definition execution (ths : list thread) (tr : list event) : Prop :=
  (forall e, In e tr -> exists th, nth_error ths (fst e) = Some th)
  /\ (forall i th, nth_error ths i = Some th -> proj i tr = th_prog th)
  /\ (exists st, lrun [] tr = Some st)
  /\ (forall i j ei ej a b, i < j -> nth_error tr i = Some ei -> nth_error tr j = Some ej ->
        nth_error ths (fst ei) = Some a -> nth_error ths (fst ej) = Some b -> before b a = false).

Inductive hb (ths : list thread) (tr : list event) : nat -> nat -> Prop :=
| hb_po : forall i j ei ej, i < j -> nth_error tr i = Some ei -> nth_error tr j = Some ej -> fst ei = fst ej -> hb ths tr i j
| hb_fork : forall i j ei ej a b, i < j -> nth_error tr i = Some ei -> nth_error tr j = Some ej ->
    nth_error ths (fst ei) = Some a -> nth_error ths (fst ej) = Some b -> before a b = true -> hb ths tr i j
| hb_sync : forall i j t1 t2 m, i < j -> nth_error tr i = Some (t1, Unlock m) -> nth_error tr j = Some (t2, Lock m) -> hb ths tr i j
| hb_trans : forall i j k, hb ths tr i j -> hb ths tr j k -> hb ths tr i k.

Definition both_atomic (a b : acc) : Prop := c_prot a = PAtomic /\ c_prot b = PAtomic.

(* no two conflicting accesses (same shared location, different threads, one a write, not both atomic)
   are unordered *)
Definition race_free (ths : list thread) (tr : list event) : Prop :=
  forall i j ti tj a b, i < j ->
    nth_error tr i = Some (ti, Acc a) -> nth_error tr j = Some (tj, Acc b) -> ti <> tj ->
    c_loc a = c_loc b -> per_thread_instance (fst (c_loc a)) = false ->
    c_write a || c_write b = true -> ~ both_atomic a b ->
    hb ths tr i j.

(* ------------------------------------------------------------------ small facts *)

Lemma loc_eqb_eq : forall x y, loc_eqb x y = true <-> x = y.
Proof.
  intros [a b] [c d]; unfold loc_eqb; cbn [fst snd]. rewrite andb_true_iff, !String.eqb_eq.
  split; [intros [-> ->]; reflexivity | intros H; inversion H; auto].
Qed.

Lemma role_eqb_eq : forall a b, role_eqb a b = true <-> a = b.
Proof. intros a b; split; [destruct a, b; cbn; congruence || discriminate | intros ->; destruct b; reflexivity]. Qed.

Lemma nth_mid : forall (A : Type) (l1 : list A) x l2, nth_error (l1 ++ x :: l2) (length l1) = Some x.
Proof. intros A l1; induction l1; cbn; auto. Qed.

Lemma nth_split : forall (A : Type) (l : list A) n x, nth_error l n = Some x ->
  exists l1 l2, l = l1 ++ x :: l2 /\ length l1 = n.
Proof.
  intros A l; induction l as [|y l IH]; intros [|n] x H; cbn in H; try discriminate.
  - inversion H; subst. exists [], l; auto.
  - destruct (IH _ _ H) as (l1 & l2 & -> & Hl). exists (y :: l1), l2; cbn; auto.
Qed.

(* ------------------------------------------------------------------ programs *)

Definition hstep (held : list string) (a : action) : list string :=
  match a with
  | Acc _ => held
  | Lock m => m :: held
  | Unlock m => filter (fun x => negb (m =? x)) held
  end.

Definition hrun (held : list string) (p : list action) : list string := fold_left hstep p held.

Lemma existsb_eqb_In : forall m l, existsb (String.eqb m) l = true <-> In m l.
Proof.
  intros m l; rewrite existsb_exists; split.
  - intros (x & Hin & He). apply String.eqb_eq in He; subst; auto.
  - intros H; exists m; split; auto. apply String.eqb_refl.
Qed.

Lemma prog_ok_split : forall t r p1 a p2 held,
  prog_ok t r held (p1 ++ Acc a :: p2) = true ->
  In a t /\ c_role a = r /\ (forall m, c_prot a = PLocked m -> In m (hrun held p1)).
Proof.
  intros t r p1; induction p1 as [|x p1 IH]; intros a p2 held H.
  - cbn [app prog_ok] in H. rewrite !andb_true_iff in H. destruct H as [[[Hex Hr] Hh] _].
    split; [|split].
    + apply existsb_exists in Hex. destruct Hex as (b & Hin & Hb).
      rewrite !andb_true_iff in Hb. destruct Hb as [[[Hrb Hl] Hw] Hp].
      apply role_eqb_eq in Hrb. apply role_eqb_eq in Hr. apply loc_eqb_eq in Hl. apply Bool.eqb_prop in Hw.
      assert (a = b); [|subst; auto].
      destruct a as [ra la wa pa], b as [rb lb wb pb]; cbn in *; subst.
      f_equal. destruct pa, pb; try discriminate; auto. apply String.eqb_eq in Hp; subst; auto.
    + apply role_eqb_eq in Hr; auto.
    + intros m Hm. rewrite Hm in Hh. cbn. apply existsb_eqb_In; auto.
  - cbn [app] in H. destruct x; cbn [prog_ok] in H; rewrite ?andb_true_iff in H.
    + destruct H as [_ H]. apply IH in H. cbn. exact H.
    + destruct H as [_ H]. apply IH in H. cbn. exact H.
    + destruct H as [_ H]. apply IH in H. cbn. exact H.
Qed.

(* ------------------------------------------------------------------ lock state *)

Lemma holder_filter : forall st m m',
  holder (filter (fun x : string * nat => negb (fst x =? m)) st) m' = if m =? m' then None else holder st m'.
Proof.
  induction st as [|[n t] st IH]; intros m m'; cbn.
  - destruct (m =? m'); auto.
  - destruct (n =? m) eqn:E; cbn.
    + apply String.eqb_eq in E; subst. rewrite IH. destruct (m =? m') eqn:E2; auto.
    + rewrite IH. destruct (n =? m') eqn:E2; auto.
      apply String.eqb_eq in E2; subst. rewrite String.eqb_sym, E. auto.
Qed.

(* one step changes the holder of m only by Lock m (None -> Some t) or Unlock m by the holder (-> None) *)
Lemma lstep_holder : forall st e st' m,
  lstep st e = Some st' ->
  (holder st' m = holder st m)
  \/ (e = (fst e, Lock m) /\ holder st m = None /\ holder st' m = Some (fst e))
  \/ (e = (fst e, Unlock m) /\ holder st m = Some (fst e) /\ holder st' m = None).
Proof.
  intros st [t a] st' m H. unfold lstep in H; cbn [fst snd] in *. destruct a as [a|n|n].
  - inversion H; auto.
  - destruct (holder st n) eqn:Hn; [discriminate|]. inversion H; subst; clear H. cbn.
    destruct (n =? m) eqn:E; auto. apply String.eqb_eq in E; subst. right; left; auto.
  - destruct (holder st n) as [t'|] eqn:Hn; [|discriminate].
    destruct (Nat.eqb t' t) eqn:Et; [|discriminate]. apply Nat.eqb_eq in Et; subst.
    inversion H; subst; clear H. rewrite holder_filter.
    destruct (n =? m) eqn:E; auto. apply String.eqb_eq in E; subst. right; right; auto.
Qed.

Lemma lrun_app : forall tr1 tr2 st st2, lrun st (tr1 ++ tr2) = Some st2 ->
  exists st1, lrun st tr1 = Some st1 /\ lrun st1 tr2 = Some st2.
Proof.
  induction tr1 as [|e tr1 IH]; intros tr2 st st2 H; cbn in *.
  - eauto.
  - destruct (lstep st e); [|discriminate]. apply IH; auto.
Qed.

(* the holder of m changes from t1: the first change is an Unlock m by t1 *)
Lemma release_gen : forall m t1 mid s s2,
  lrun s mid = Some s2 -> holder s m = Some t1 -> holder s2 m <> Some t1 ->
  exists m1 m2 s', mid = m1 ++ (t1, Unlock m) :: m2 /\ lrun s' m2 = Some s2 /\ holder s' m = None.
Proof.
  intros m t1 mid; induction mid as [|e mid IH]; intros s s2 Hrun Hs Hs2; cbn in Hrun.
  - inversion Hrun; subst; congruence.
  - destruct (lstep s e) as [s'|] eqn:Hst; [|discriminate].
    destruct (lstep_holder _ _ _ m Hst) as [Heq | [(He & Hn & _) | (He & Hh & Hn)]].
    + rewrite Hs in Heq. destruct (IH _ _ Hrun Heq Hs2) as (m1 & m2 & s'' & -> & Hr & Hn).
      exists (e :: m1), m2, s''; auto.
    + congruence.
    + rewrite Hs in Hh. injection Hh as Ht1. subst t1. exists [], mid, s'. cbn [app].
      split; [f_equal; exact He | auto].
Qed.

(* the holder of m becomes t2: there is a Lock m by t2 *)
Lemma acquire_gen : forall m t2 mid s s2,
  lrun s mid = Some s2 -> holder s2 m = Some t2 -> holder s m <> Some t2 ->
  exists m2 m3, mid = m2 ++ (t2, Lock m) :: m3.
Proof.
  intros m t2 mid; induction mid as [|e mid IH]; intros s s2 Hrun Hs2 Hs; cbn in Hrun.
  - inversion Hrun; subst; congruence.
  - destruct (lstep s e) as [s'|] eqn:Hst; [|discriminate].
    destruct (lstep_holder _ _ _ m Hst) as [Heq | [(He & Hn & Hh) | (He & Hh & Hn)]].
    + rewrite <- Heq in Hs. destruct (IH _ _ Hrun Hs2 Hs) as (m2 & m3 & ->). exists (e :: m2), m3; auto.
    + destruct (Nat.eq_dec (fst e) t2) as [<-|Hne].
      * exists [], mid. cbn [app]. f_equal. exact He.
      * assert (Hs' : holder s' m <> Some t2) by (rewrite Hh; congruence).
        destruct (IH _ _ Hrun Hs2 Hs') as (m2 & m3 & ->). exists (e :: m2), m3; auto.
    + assert (Hs' : holder s' m <> Some t2) by (rewrite Hn; congruence).
      destruct (IH _ _ Hrun Hs2 Hs') as (m2 & m3 & ->). exists (e :: m2), m3; auto.
Qed.

(* ------------------------------------------------------------------ thread-local held = global holder *)

Definition upd (H : nat -> list string) (k : nat) (v : list string) : nat -> list string :=
  fun i => if Nat.eqb i k then v else H i.

Definition agree (st : lstate) (H : nat -> list string) : Prop :=
  forall k m, In m (H k) -> holder st m = Some k.

Lemma proj_app : forall i a b, proj i (a ++ b) = proj i a ++ proj i b.
Proof. intros; unfold proj. rewrite filter_app, map_app; auto. Qed.

Lemma hrun_app : forall p q h, hrun h (p ++ q) = hrun (hrun h p) q.
Proof. intros; unfold hrun; apply fold_left_app. Qed.

(* running a prefix: the per-thread held sets computed from the projections agree with the global state,
   provided every Lock in a thread's program is of a mutex it does not hold (prog_ok) - here we only need
   the direction "locally held => globally the holder". *)
Lemma agree_run : forall pre st st' H,
  lrun st pre = Some st' -> agree st H ->
  agree st' (fun k => hrun (H k) (proj k pre)).
Proof.
  induction pre as [|[t a] pre IH]; intros st st' H Hrun Hag.
  - cbn in Hrun. inversion Hrun; subst. intros k m. cbn. apply Hag.
  - cbn [lrun] in Hrun. destruct (lstep st (t, a)) as [s1|] eqn:Hst; [|discriminate].
    assert (Hag1 : agree s1 (upd H t (hstep (H t) a))).
    { intros k m Hin. unfold upd in Hin. unfold lstep in Hst; cbn [fst snd] in Hst.
      destruct a as [x|n|n].
      - inversion Hst; subst. destruct (Nat.eqb k t) eqn:E; [apply Nat.eqb_eq in E; subst|]; cbn in Hin; apply Hag; auto.
      - destruct (holder st n) eqn:Hn; [discriminate|]. inversion Hst; subst; clear Hst. cbn.
        destruct (Nat.eqb k t) eqn:E.
        + apply Nat.eqb_eq in E; subst. cbn in Hin. destruct Hin as [->|Hin].
          * rewrite String.eqb_refl; auto.
          * destruct (n =? m) eqn:E2; auto.
        + destruct (n =? m) eqn:E2.
          * apply String.eqb_eq in E2; subst. apply Hag in Hin. congruence.
          * apply Hag; auto.
      - destruct (holder st n) as [t'|] eqn:Hn; [|discriminate].
        destruct (Nat.eqb t' t) eqn:Et; [|discriminate]. apply Nat.eqb_eq in Et; subst.
        inversion Hst; subst; clear Hst. rewrite holder_filter.
        destruct (Nat.eqb k t) eqn:E.
        + apply Nat.eqb_eq in E; subst. cbn in Hin. apply filter_In in Hin. destruct Hin as [Hin Hne].
          destruct (n =? m) eqn:E2; [discriminate|]. apply Hag; auto.
        + destruct (n =? m) eqn:E2.
          * apply String.eqb_eq in E2; subst. apply Hag in Hin. rewrite Hn in Hin. inversion Hin; subst.
            rewrite Nat.eqb_refl in E; discriminate.
          * apply Hag; auto. }
    specialize (IH _ _ _ Hrun Hag1).
    intros k m Hin. apply IH. unfold upd.
    unfold proj in Hin |- *. cbn [filter fst] in Hin.
    destruct (Nat.eqb t k) eqn:E.
    + apply Nat.eqb_eq in E; subst. rewrite Nat.eqb_refl. cbn [map snd] in Hin. exact Hin.
    + rewrite Nat.eqb_sym, E. exact Hin.
Qed.

Lemma agree_nil : agree [] (fun _ => []).
Proof. intros k m []. Qed.

(* at an access marked PLocked m, the accessing thread is the global holder of m *)
Lemma locked_access_holds : forall t ths pre ti a suf st1 m th,
  nth_error ths ti = Some th ->
  prog_ok t (th_role th) [] (th_prog th) = true ->
  proj ti (pre ++ (ti, Acc a) :: suf) = th_prog th ->
  lrun [] pre = Some st1 ->
  c_prot a = PLocked m ->
  In a t /\ c_role a = th_role th /\ holder st1 m = Some ti.
Proof.
  intros t ths pre ti a suf st1 m th Hth Hok Hproj Hrun Hp.
  rewrite proj_app in Hproj. unfold proj at 2 in Hproj. cbn [filter fst] in Hproj.
  rewrite Nat.eqb_refl in Hproj. cbn [map snd] in Hproj.
  rewrite <- Hproj in Hok. apply prog_ok_split in Hok. destruct Hok as (Hin & Hr & Hheld).
  split; [auto|split; [auto|]].
  pose proof (agree_run _ _ _ _ Hrun agree_nil) as Hag.
  apply (Hag ti m). apply Hheld; auto.
Qed.

Lemma access_in_table : forall t ths pre ti a suf th,
  nth_error ths ti = Some th ->
  prog_ok t (th_role th) [] (th_prog th) = true ->
  proj ti (pre ++ (ti, Acc a) :: suf) = th_prog th ->
  In a t /\ c_role a = th_role th.
Proof.
  intros t ths pre ti a suf th Hth Hok Hproj.
  rewrite proj_app in Hproj. unfold proj at 2 in Hproj. cbn [filter fst] in Hproj.
  rewrite Nat.eqb_refl in Hproj. cbn [map snd] in Hproj.
  rewrite <- Hproj in Hok. apply prog_ok_split in Hok. tauto.
Qed.

(* ------------------------------------------------------------------ roles that cannot overlap are ordered *)

Lemma not_parallel_ordered : forall a b,
  may_parallel (th_role a) (th_role b) = false ->
  match cls (th_role a), cls (th_role b) with
  | COwner ka _, COwner kb _ => th_epi a = th_epi b -> ka = kb /\ th_role a <> th_role b
  | CPoolNew, CPoolNew => False
  | _, _ => True
  end ->
  before a b = true \/ before b a = true.
Proof.
  intros [ra ea pa] [rb eb pb]; cbn [th_role th_epi].
  unfold before; cbn [th_role th_epi].
  destruct (Nat.lt_trichotomy ea eb) as [Hl|[He|Hl]].
  - assert (E1 : Nat.ltb ea eb = true) by (apply Nat.ltb_lt; auto).
    destruct ra, rb; cbn -[Nat.ltb Nat.eqb]; rewrite ?E1; cbn; intros Hp Hw; try discriminate; auto; try contradiction.
  - subst eb. rewrite Nat.ltb_irrefl, Nat.eqb_refl.
    destruct ra, rb; cbn; intros Hp Hw; try discriminate; auto; try contradiction;
      try (destruct (Hw eq_refl) as [Hk Hne]; try discriminate; congruence).
  - assert (E1 : Nat.ltb eb ea = true) by (apply Nat.ltb_lt; auto).
    destruct ra, rb; cbn -[Nat.ltb Nat.eqb]; rewrite ?E1; cbn; intros Hp Hw; try discriminate; auto; try contradiction.
Qed.

(* ------------------------------------------------------------------ the theorem *)

Theorem discipline_sound : forall t,
  no_conflict_accs t = true ->
  forall ths tr, wf_system t ths -> execution ths tr -> race_free ths tr.
Proof.
  intros t Hnc ths tr [Hprog Hwf] (Hidx & Hproj & [stf Hrun] & Hord).
  intros i j ti tj a b Hij Hi Hj Hne Hloc Hshared Hwr Hnat.
  destruct (Hidx (ti, Acc a)) as [tha Htha]; [eapply nth_error_In; eauto|].
  destruct (Hidx (tj, Acc b)) as [thb Hthb]; [eapply nth_error_In; eauto|].
  cbn [fst] in Htha, Hthb.
  (* split the trace at j, then its prefix at i *)
  destruct (nth_split _ _ _ _ Hj) as (prej & sufj & Etr & Hlj).
  assert (Hi' : nth_error prej i = Some (ti, Acc a)).
  { rewrite Etr in Hi. rewrite nth_error_app1 in Hi; auto. lia. }
  destruct (nth_split _ _ _ _ Hi') as (prei & mid & Epre & Hli).
  pose proof (Hproj _ _ Htha) as Hpa. pose proof (Hproj _ _ Hthb) as Hpb.
  pose proof (Hprog _ _ Htha) as Hoka. pose proof (Hprog _ _ Hthb) as Hokb.
  assert (Hpa' : proj ti (prei ++ (ti, Acc a) :: mid ++ (tj, Acc b) :: sufj) = th_prog tha).
  { rewrite <- Hpa, Etr, Epre. rewrite <- app_assoc. reflexivity. }
  destruct (access_in_table _ _ _ _ _ _ _ Htha Hoka Hpa') as [Hina Hra].
  assert (Hpb' : proj tj (prej ++ (tj, Acc b) :: sufj) = th_prog thb) by (rewrite <- Hpb, Etr; reflexivity).
  destruct (access_in_table _ _ _ _ _ _ _ Hthb Hokb Hpb') as [Hinb Hrb].
  (* the table's verdict on this pair *)
  unfold no_conflict_accs in Hnc. rewrite forallb_forall in Hnc.
  specialize (Hnc _ Hina). rewrite forallb_forall in Hnc. specialize (Hnc _ Hinb).
  unfold pair_ok in Hnc. rewrite !orb_true_iff in Hnc.
  destruct Hnc as [[[[Hl | Hpt] | Hw] | Hpar] | Hprot].
  - rewrite Hloc in Hl. assert (loc_eqb (c_loc b) (c_loc b) = true) by (apply loc_eqb_eq; auto).
    rewrite H in Hl; discriminate.
  - congruence.
  - rewrite Hwr in Hw; discriminate.
  - (* the two roles never overlap: one thread is over before the other starts *)
    apply negb_true_iff in Hpar. rewrite Hra, Hrb in Hpar.
    assert (Hti : ti <> tj) by auto.
    pose proof (Hwf _ _ _ _ Htha Hthb Hti) as Hw.
    destruct (not_parallel_ordered _ _ Hpar Hw) as [Hab | Hba].
    + eapply hb_fork; eauto.
    + pose proof (Hord _ _ _ _ _ _ Hij Hi Hj Htha Hthb) as Hf. congruence.
  - (* both protected *)
    unfold prot_ok in Hprot.
    destruct (c_prot a) as [| |m] eqn:Epa; try discriminate;
      destruct (c_prot b) as [| |n] eqn:Epb; try discriminate.
    + exfalso. apply Hnat. split; auto.
    + apply String.eqb_eq in Hprot; subst n.
      (* states before the two accesses *)
      rewrite Etr in Hrun. apply lrun_app in Hrun. destruct Hrun as (sj & Hrj & _).
      pose proof Hrj as Hrj0.
      rewrite Epre in Hrj. apply lrun_app in Hrj. destruct Hrj as (si & Hri & Hrmid).
      destruct (locked_access_holds _ _ _ _ _ _ _ m _ Htha Hoka Hpa' Hri Epa) as (_ & _ & Hhi).
      destruct (locked_access_holds _ _ _ _ _ _ _ m _ Hthb Hokb Hpb' Hrj0 Epb) as (_ & _ & Hhj).
      cbn [lrun lstep snd] in Hrmid.
      assert (Hsj : holder sj m <> Some ti) by (rewrite Hhj; congruence).
      destruct (release_gen _ _ _ _ _ Hrmid Hhi Hsj) as (m1 & m2 & s' & Emid & Hr2 & Hnone).
      assert (Hs' : holder s' m <> Some tj) by (rewrite Hnone; congruence).
      destruct (acquire_gen _ _ _ _ _ Hr2 Hhj Hs') as (m3 & m4 & Em2).
      (* indices of the Unlock and of the Lock *)
      unfold event in *.
      remember (length prei + 1 + length m1) as k eqn:Ek.
      remember (k + 1 + length m3) as l eqn:El.
      assert (Etr' : tr = (prei ++ (ti, Acc a) :: m1) ++ (ti, Unlock m) :: (m3 ++ (tj, Lock m) :: m4) ++ (tj, Acc b) :: sufj).
      { rewrite Etr, Epre, Emid, Em2. repeat first [rewrite <- app_assoc | rewrite <- app_comm_cons]. reflexivity. }
      assert (Hk : nth_error tr k = Some (ti, Unlock m)).
      { rewrite Etr'. replace k with (length (prei ++ (ti, Acc a) :: m1)); [apply nth_mid|].
        rewrite app_length; cbn [length]; lia. }
      assert (Etr'' : tr = (prei ++ (ti, Acc a) :: m1 ++ (ti, Unlock m) :: m3) ++ (tj, Lock m) :: m4 ++ (tj, Acc b) :: sufj).
      { rewrite Etr'. repeat first [rewrite <- app_assoc | rewrite <- app_comm_cons]. reflexivity. }
      assert (Hl : nth_error tr l = Some (tj, Lock m)).
      { rewrite Etr''. replace l with (length (prei ++ (ti, Acc a) :: m1 ++ (ti, Unlock m) :: m3)); [apply nth_mid|].
        rewrite app_length; cbn [length]; rewrite app_length; cbn [length]; lia. }
      assert (Hjl : j = l + 1 + length m4).
      { rewrite <- Hlj, Epre, Emid, Em2.
        repeat (rewrite app_length; cbn [length]). lia. }
      assert (Hik : i < k) by lia.
      assert (Hkl : k < l) by lia.
      assert (Hlj' : l < j) by lia.
      eapply hb_trans; [eapply (hb_po ths tr i k); eauto|].
      eapply hb_trans; [eapply (hb_sync ths tr k l); eauto|].
      eapply (hb_po ths tr l j); eauto.
Qed.

(* ------------------------------------------------------------------ the generated instance *)

Lemma access_table_ok : no_conflict access_table = true.
Proof. vm_compute. reflexivity. Qed.

Lemma access_table_roles_known : roles_known access_table = true.
Proof. vm_compute. reflexivity. Qed.

Lemma access_table_pool_calls_ok : pool_calls_ok pool_client_calls = true.
Proof. vm_compute. reflexivity. Qed.

Lemma access_table_foreign_writes_locked : foreign_writes_locked access_table = true.
Proof. vm_compute. reflexivity. Qed.

Lemma access_table_no_conflicts_listed : conflicts access_table = [].
Proof. vm_compute. reflexivity. Qed.

(* the two together: no interleaving of programs built from the accesses of the CURRENT source has a race *)
Theorem ch_go_race_free : forall ths tr,
  wf_system (map conv access_table) ths -> execution ths tr -> race_free ths tr.
Proof.
  intros ths tr Hwf Hex.
  assert (Hnc : no_conflict_accs (map conv access_table) = true) by (vm_compute; reflexivity).
  exact (discipline_sound _ Hnc ths tr Hwf Hex).
Qed.

(* the check is not vacuous: the table as it was before the repair (sender and receiver both writing a
   plain counter of the per-query metrics) is rejected *)
Definition as_found_metrics : list access :=
  [ mk_access "Sender" "ch.queryMetrics" "BlocksSent" "w" "plain" "Client.metricsInc" "query_metrics.go" 30;
    mk_access "Receiver" "ch.queryMetrics" "BlocksSent" "w" "plain" "Client.metricsInc" "query_metrics.go" 30 ].

Lemma as_found_rejected : no_conflict as_found_metrics = false.
Proof. vm_compute. reflexivity. Qed.

(* ... and such a table really has a racy execution: discipline_sound's hypothesis cannot be dropped *)
Definition racy_acc (r : role) : acc := mk_acc r ("ch.queryMetrics", "BlocksSent") true PPlain.
Definition racy_threads : list thread :=
  [ mk_thread RSender 1 [Acc (racy_acc RSender)]; mk_thread RReceiver 1 [Acc (racy_acc RReceiver)] ].
Definition racy_trace : list event := [ (0, Acc (racy_acc RSender)); (1, Acc (racy_acc RReceiver)) ].

Lemma hb_lt : forall ths tr i j, hb ths tr i j -> i < j.
Proof. induction 1; lia. Qed.

Lemma racy_witness :
  wf_system (map conv as_found_metrics) racy_threads /\ execution racy_threads racy_trace
  /\ ~ race_free racy_threads racy_trace.
Proof.
  split; [|split].
  - split.
    + intros [|[|i]] th H; cbn in H; [inversion H; subst; vm_compute; reflexivity ..|destruct i; discriminate].
    + intros [|[|i]] [|[|j]] a b Ha Hb Hne; cbn in Ha, Hb; inversion Ha; inversion Hb; subst; cbn; try congruence;
        try (destruct i; discriminate); try (destruct j; discriminate); intros _; split; congruence.
  - split; [|split; [|split]].
    + intros e [<-|[<-|[]]]; cbn; eauto.
    + intros [|[|i]] th H; cbn in H; [inversion H; subst; reflexivity ..|destruct i; discriminate].
    + eexists; vm_compute; reflexivity.
    + intros [|[|i]] [|[|j]] ei ej a b Hlt Hi Hj Ha Hb; cbn in Hi, Hj; try lia;
        try (destruct i; discriminate); try (destruct j; discriminate).
      inversion Hi; inversion Hj; subst; cbn in Ha, Hb. inversion Ha; inversion Hb; subst. reflexivity.
  - intros Hrf.
    assert (H : hb racy_threads racy_trace 0 1).
    { eapply (Hrf 0 1 0 1); cbn; try reflexivity; try lia; try discriminate. intros [H _]; discriminate. }
    (* no edge orders the two events *)
    clear Hrf.
    assert (Hno : forall i j, hb racy_threads racy_trace i j -> False).
    { induction 1 as [i j ei ej Hlt Hi Hj Hf | i j ei ej a b Hlt Hi Hj Ha Hb Hbf | i j t1 t2 m Hlt Hi Hj | ]; auto.
      - destruct i as [|[|i]], j as [|[|j]]; cbn in Hi, Hj; try lia; try (destruct i; discriminate); try (destruct j; discriminate).
        inversion Hi; inversion Hj; subst; cbn in Hf; discriminate.
      - destruct i as [|[|i]], j as [|[|j]]; cbn in Hi, Hj; try lia; try (destruct i; discriminate); try (destruct j; discriminate).
        inversion Hi; inversion Hj; subst; cbn in Ha, Hb. inversion Ha; inversion Hb; subst. cbn in Hbf. discriminate.
      - destruct i as [|[|i]]; cbn in Hi; try discriminate. destruct i; discriminate. }
    exact (Hno _ _ H).
Qed.

(* ------------------------------------------------------------------ the hypotheses are satisfiable *)

Definition demo_acc (r : role) : acc := mk_acc r ("S", "f") true (PLocked "mu").
Definition demo_table : list acc := [demo_acc RSender; demo_acc RReceiver].
Definition demo_threads : list thread :=
  [ mk_thread RSender 1 [Lock "mu"; Acc (demo_acc RSender); Unlock "mu"];
    mk_thread RReceiver 1 [Lock "mu"; Acc (demo_acc RReceiver); Unlock "mu"] ].
Definition demo_trace : list event :=
  [ (0, Lock "mu"); (0, Acc (demo_acc RSender)); (0, Unlock "mu");
    (1, Lock "mu"); (1, Acc (demo_acc RReceiver)); (1, Unlock "mu") ].

Lemma demo_ok :
  no_conflict_accs demo_table = true /\ wf_system demo_table demo_threads /\ execution demo_threads demo_trace
  /\ race_free demo_threads demo_trace.
Proof.
  assert (Hnc : no_conflict_accs demo_table = true) by (vm_compute; reflexivity).
  assert (Hwf : wf_system demo_table demo_threads).
  { split.
    - intros [|[|i]] th H; cbn in H; [inversion H; subst; vm_compute; reflexivity ..|destruct i; discriminate].
    - intros [|[|i]] [|[|j]] a b Ha Hb Hne; cbn in Ha, Hb; inversion Ha; inversion Hb; subst; cbn; try congruence;
        try (destruct i; discriminate); try (destruct j; discriminate); intros _; split; congruence. }
  assert (Hex : execution demo_threads demo_trace).
  { split; [|split; [|split]].
    - intros e H; cbn in H.
      repeat (destruct H as [<-|H]; [cbn; eauto|]). contradiction.
    - intros [|[|i]] th H; cbn in H; [inversion H; subst; reflexivity ..|destruct i; discriminate].
    - eexists; vm_compute; reflexivity.
    - intros i j ei ej a b _ _ _ Ha Hb.
      assert (Hr : forall k th, nth_error demo_threads k = Some th ->
                 (th_role th = RSender \/ th_role th = RReceiver) /\ th_epi th = 1).
      { intros [|[|k]] th H; cbn in H; [inversion H; subst; cbn; auto ..|destruct k; discriminate]. }
      destruct (Hr _ _ Ha) as [[Ra|Ra] Ea]; destruct (Hr _ _ Hb) as [[Rb|Rb] Eb];
        unfold before; rewrite Ra, Rb, Ea, Eb; reflexivity. }
  repeat split; auto; try apply Hwf; try apply Hex.
  exact (discipline_sound _ Hnc _ _ Hwf Hex).
Qed.
