(* Proofs about model/Scalars.v (C20). *)
From CH Require Import model.Scalars gen.Consts proofs.CalendarProofs.
From Coq Require Import Lia ZArith List Bool.
Open Scope Z_scope.
Ltac Zify.zify_post_hook ::= Z.to_euclidean_division_equations.

(* ---- calendar: from the finite in-era facts to all of Z --------------- *)
Lemma split_doe_spec doe : 0 <= doe < 146097 ->
  exists yoe mp d, split_doe doe = (yoe, mp, d) /\ 0 <= yoe < 400 /\ 0 <= mp < 12 /\
                   1 <= d <= mdays yoe mp /\ doe_of yoe mp d = doe.
Proof.
  intros H. pose proof (chkA_ok doe H) as C. unfold chkA in C.
  destruct (split_doe doe) as [[yoe mp] d]. exists yoe, mp, d.
  repeat (apply andb_prop in C; destruct C as [C ?]). split; [reflexivity|]. lia.
Qed.

Lemma mdays_le31 yoe mp : mdays yoe mp <= 31.
Proof. unfold mdays. repeat (destruct (_ =? _); cbn [orb]); try destruct (is_leap _); lia. Qed.

Lemma doe_of_spec yoe mp d : 0 <= yoe < 400 -> 0 <= mp < 12 -> 1 <= d <= mdays yoe mp ->
  0 <= doe_of yoe mp d < 146097 /\ split_doe (doe_of yoe mp d) = (yoe, mp, d).
Proof.
  intros Hy Hm Hd. pose proof (mdays_le31 yoe mp) as H31.
  pose proof (chkB_ok (yoe * 372 + mp * 31 + (d - 1))) as C.
  unfold chkB in C.
  replace ((yoe * 372 + mp * 31 + (d - 1)) / 372) with yoe in C by lia.
  replace (((yoe * 372 + mp * 31 + (d - 1)) / 31) mod 12) with mp in C by lia.
  replace ((yoe * 372 + mp * 31 + (d - 1)) mod 31 + 1) with d in C by lia.
  destruct (d <=? mdays yoe mp) eqn:E; [|lia].
  specialize (C ltac:(lia)).
  destruct (split_doe (doe_of yoe mp d)) as [[a b] c].
  repeat (apply andb_prop in C; destruct C as [C ?]).
  split; [lia|]. f_equal; [f_equal|]; lia.
Qed.

(* the two model functions written through the in-era maps *)
Lemma dfc_unfold y m d :
  days_from_civil y m d =
  let y' := if m <=? 2 then y - 1 else y in
  let mp := if 2 <? m then m - 3 else m + 9 in
  (y' / 400) * 146097 + doe_of (y' - (y' / 400) * 400) mp d - 719468.
Proof. unfold days_from_civil, doe_of. cbv zeta. lia. Qed.

Lemma cfd_unfold z :
  civil_from_days z =
  let era := (z + 719468) / 146097 in
  let '(yoe, mp, d) := split_doe (z + 719468 - era * 146097) in
  let m := if mp <? 10 then mp + 3 else mp - 9 in
  ((if m <=? 2 then yoe + era * 400 + 1 else yoe + era * 400), m, d).
Proof. reflexivity. Qed.

Lemma is_leap_era y era : is_leap (y + era * 400) = is_leap y.
Proof.
  unfold is_leap.
  replace ((y + era * 400) mod 4) with (y mod 4) by lia.
  replace ((y + era * 400) mod 100) with (y mod 100) by lia.
  replace ((y + era * 400) mod 400) with (y mod 400) by lia. reflexivity.
Qed.

(* month length in civil terms = month length in March-based terms *)
Lemma mdays_civil yoe era mp :
  0 <= mp < 12 ->
  let m := if mp <? 10 then mp + 3 else mp - 9 in
  let y := if m <=? 2 then yoe + era * 400 + 1 else yoe + era * 400 in
  days_in_month y m = mdays yoe mp.
Proof.
  intros Hm. cbv zeta. unfold days_in_month, mdays.
  assert (mp = 0 \/ mp = 1 \/ mp = 2 \/ mp = 3 \/ mp = 4 \/ mp = 5 \/ mp = 6 \/ mp = 7 \/ mp = 8 \/ mp = 9 \/ mp = 10 \/ mp = 11) as C by lia.
  repeat (destruct C as [->|C]); try subst mp; cbn; try reflexivity.
  replace (yoe + era * 400 + 1) with (yoe + 1 + era * 400) by lia. rewrite is_leap_era. reflexivity.
Qed.

Theorem days_from_civil_of_days : forall z,
  let '(y, m, d) := civil_from_days z in days_from_civil y m d = z /\ valid_civil y m d.
Proof.
  intros z. rewrite cfd_unfold. cbv zeta.
  set (era := (z + 719468) / 146097).
  assert (Hdoe : 0 <= z + 719468 - era * 146097 < 146097) by (subst era; lia).
  destruct (split_doe_spec _ Hdoe) as (yoe & mp & d & E & Hy & Hm & Hd & Hdoe').
  rewrite E.
  pose proof (mdays_civil yoe era mp Hm) as MD. cbv zeta in MD.
  split.
  - rewrite dfc_unfold. cbv zeta.
    destruct (mp <? 10) eqn:E10.
    + replace (mp + 3 <=? 2) with false by lia. replace (2 <? mp + 3) with true by lia.
      replace ((yoe + era * 400) / 400) with era by lia.
      replace (yoe + era * 400 - era * 400) with yoe by lia.
      replace (mp + 3 - 3) with mp by lia. lia.
    + replace (mp - 9 <=? 2) with true by lia. replace (2 <? mp - 9) with false by lia.
      replace (yoe + era * 400 + 1 - 1) with (yoe + era * 400) by lia.
      replace ((yoe + era * 400) / 400) with era by lia.
      replace (yoe + era * 400 - era * 400) with yoe by lia.
      replace (mp - 9 + 9) with mp by lia. lia.
  - unfold valid_civil. rewrite MD. destruct (mp <? 10) eqn:E10; lia.
Qed.

Theorem civil_of_days_from_civil : forall y m d,
  valid_civil y m d -> civil_from_days (days_from_civil y m d) = (y, m, d).
Proof.
  intros y m d [Hm Hd]. rewrite dfc_unfold. cbv zeta.
  set (y' := if m <=? 2 then y - 1 else y).
  set (mp := if 2 <? m then m - 3 else m + 9).
  set (era := y' / 400). set (yoe := y' - era * 400).
  assert (Hy : 0 <= yoe < 400) by (subst yoe era; lia).
  assert (Hmp : 0 <= mp < 12) by (subst mp; destruct (2 <? m) eqn:E; lia).
  pose proof (mdays_civil yoe era mp Hmp) as MD. cbv zeta in MD.
  assert (Hback : (if mp <? 10 then mp + 3 else mp - 9) = m) by (subst mp; destruct (2 <? m) eqn:E; destruct (_ <? 10) eqn:E2; lia).
  rewrite Hback in MD.
  assert (Hyback : (if m <=? 2 then yoe + era * 400 + 1 else yoe + era * 400) = y)
    by (subst yoe y'; destruct (m <=? 2); lia).
  rewrite Hyback in MD. rewrite MD in Hd.
  destruct (doe_of_spec yoe mp d Hy Hmp Hd) as [Hr Hs].
  rewrite cfd_unfold. cbv zeta.
  replace ((era * 146097 + doe_of yoe mp d - 719468 + 719468) / 146097) with era by lia.
  replace (era * 146097 + doe_of yoe mp d - 719468 + 719468 - era * 146097) with (doe_of yoe mp d) by lia.
  rewrite Hs. rewrite Hback, Hyback. reflexivity.
Qed.

(* ---- machine integers ---------------------------------------------------- *)
Lemma i64_id z : in_i64z z -> i64 z = z.
Proof. unfold in_i64z, i64, two63, two64. lia. Qed.
Lemma i64_add_l a b : i64 (i64 a + b) = i64 (a + b).
Proof. unfold i64, two63, two64. lia. Qed.
Lemma i32_id z : - two31 <= z < two31 -> i32 z = z.
Proof. unfold i32, two31, two32. lia. Qed.

Ltac unf := unfold to_date, to_date32, to_datetime, date_Time, date32_Time, date_Unix, date32_Unix, datetime_Time,
  time_Unix, t_UTC, t_In, t_Unix, t_ZoneOffset, t_Nanosecond, local_day, local_sec, secInDay, ns_per_s,
  u16, u32, i32, i64, two16, two31, two32, two63, two64 in *; cbn [unix nsec zoff] in *.

Lemma time_Unix_0 loc s : time_Unix loc s 0 = mkT s 0 loc.
Proof. reflexivity. Qed.
Lemma date_Time_eq d : date_Time d = mkT (i64 (86400 * d)) 0 0.
Proof. reflexivity. Qed.
Lemma date32_Time_eq d : date32_Time d = mkT (i64 (86400 * d)) 0 0.
Proof. reflexivity. Qed.
Lemma dT d : in_i64z (86400 * d) -> date_Time d = mkT (86400 * d) 0 0.
Proof. intros H. rewrite date_Time_eq, i64_id by exact H. reflexivity. Qed.
Lemma dT32 d : in_i64z (86400 * d) -> date32_Time d = mkT (86400 * d) 0 0.
Proof. intros H. rewrite date32_Time_eq, i64_id by exact H. reflexivity. Qed.

Lemma not_zero u n o : u <> -62135596800 -> t_IsZero (mkT u n o) = false.
Proof. intros H. unfold t_IsZero, zero_unix. cbn [unix nsec]. apply andb_false_iff. left. lia. Qed.

Lemma zero_false t : t_IsZero t = false -> unix t <> zero_unix \/ nsec t <> 0.
Proof. unfold t_IsZero. intros H. apply andb_false_iff in H. lia. Qed.

(* ---- Date ---------------------------------------------------------------- *)
Theorem date_rt : forall t,
  t_IsZero t = false -> 0 <= local_day t < 65536 ->
  to_date t = local_day t /\
  col_date_Row (col_date_Append t) = mkT (86400 * local_day t) 0 0 /\
  t_Date (col_date_Row (col_date_Append t)) = t_Date t /\
  0 <= local_sec t - unix (col_date_Row (col_date_Append t)) < 86400.
Proof.
  intros t Hz Hr. unfold col_date_Row, col_date_Append.
  assert (E : to_date t = local_day t).
  { unfold to_date. rewrite Hz. unf. lia. }
  rewrite E.
  assert (T : date_Time (local_day t) = mkT (86400 * local_day t) 0 0).
  { apply dT. unfold in_i64z, two63. lia. }
  rewrite T. repeat split; try reflexivity.
  - unfold t_Date. f_equal. unf. lia.
  - unf. lia.
  - unf. lia.
Qed.

(* every Date value is the Date of its own Time: all 65 536 of them *)
Theorem date_inv : forall d, 0 <= d < 65536 ->
  t_IsZero (date_Time d) = false /\ to_date (date_Time d) = d /\
  unix (date_Time d) = 86400 * d /\ nsec (date_Time d) = 0 /\ zoff (date_Time d) = 0.
Proof.
  intros d Hd.
  assert (T : date_Time d = mkT (86400 * d) 0 0). { apply dT. unfold in_i64z, two63. lia. }
  rewrite T. assert (Z0 : t_IsZero (mkT (86400 * d) 0 0) = false).
  { apply not_zero. lia. }
  split; [exact Z0|]. split; [|cbn; auto].
  unfold to_date. rewrite Z0. unf. lia.
Qed.

(* exactly, when the instant is representable: a UTC midnight *)
Theorem date_exact : forall t,
  zoff t = 0 -> nsec t = 0 -> unix t mod 86400 = 0 -> 0 <= unix t < 65536 * 86400 ->
  date_Time (to_date t) = t.
Proof.
  intros [u n o] Ho Hn Hm Hr. cbn in *. subst.
  assert (Hz : t_IsZero (mkT u 0 0) = false).
  { apply not_zero. lia. }
  unfold to_date. rewrite Hz. unfold t_ZoneOffset, t_Unix. cbn [unix nsec zoff].
  replace (u16 (i64 (u + 0) ÷ secInDay)) with (u / 86400) by (unf; lia).
  rewrite dT by (unfold in_i64z, two63; lia). f_equal. lia.
Qed.

(* ---- Date32 (after the fix) ---------------------------------------------- *)
Lemma to_date32_floor t : t_IsZero t = false -> in_i64z (local_sec t) ->
  to_date32 t = i32 (local_sec t / 86400).
Proof.
  intros Hz Hr. unfold to_date32. rewrite Hz. unfold t_ZoneOffset, t_Unix.
  change (unix t + zoff t) with (local_sec t). rewrite (i64_id _ Hr).
  set (s := local_sec t). f_equal. unfold secInDay. destruct (_ <? 0) eqn:En; lia.
Qed.

Theorem date32_rt : forall t,
  t_IsZero t = false -> - two31 <= local_day t < two31 ->
  to_date32 t = local_day t /\
  col_date32_Row (col_date32_Append t) = mkT (86400 * local_day t) 0 0 /\
  t_Date (col_date32_Row (col_date32_Append t)) = t_Date t /\
  0 <= local_sec t - unix (col_date32_Row (col_date32_Append t)) < 86400.
Proof.
  intros t Hz Hr. unfold col_date32_Row, col_date32_Append.
  assert (E : to_date32 t = local_day t).
  { unfold to_date32. rewrite Hz. unf. destruct (_ <? 0) eqn:En; lia. }
  rewrite E.
  assert (T : date32_Time (local_day t) = mkT (86400 * local_day t) 0 0).
  { apply dT32. unfold in_i64z, two63, two31 in *. lia. }
  rewrite T. repeat split; try reflexivity.
  - unfold t_Date. f_equal. unf. lia.
  - unf. lia.
  - unf. lia.
Qed.

Lemma date32_doc_bounds : days_from_civil 1900 1 1 = -25567 /\ days_from_civil 2299 12 31 = 120529.
Proof. split; vm_compute; reflexivity. Qed.

(* the documented range 1900-01-01 .. 2299-12-31, fixed zones -12h .. +14h: no side condition left *)
Theorem date32_rt_documented : forall t,
  -43200 <= zoff t <= 50400 ->
  days_from_civil 1900 1 1 <= local_day t <= days_from_civil 2299 12 31 ->
  to_date32 t = local_day t /\
  col_date32_Row (col_date32_Append t) = mkT (86400 * local_day t) 0 0 /\
  t_Date (col_date32_Row (col_date32_Append t)) = t_Date t /\
  0 <= local_sec t - unix (col_date32_Row (col_date32_Append t)) < 86400.
Proof.
  intros t Ho Hr. destruct date32_doc_bounds as [-> ->] in Hr.
  apply date32_rt.
  - unfold t_IsZero, zero_unix. apply andb_false_iff. left. unf. lia.
  - unfold two31. lia.
Qed.

Theorem date32_inv : forall d, - two31 <= d < two31 -> d <> -719162 ->
  to_date32 (date32_Time d) = d /\
  unix (date32_Time d) = 86400 * d /\ nsec (date32_Time d) = 0 /\ zoff (date32_Time d) = 0.
Proof.
  intros d Hd Hn.
  assert (T : date32_Time d = mkT (86400 * d) 0 0). { apply dT32. unfold in_i64z, two63, two31 in *. lia. }
  rewrite T. assert (Z0 : t_IsZero (mkT (86400 * d) 0 0) = false).
  { apply not_zero. lia. }
  split; [|cbn; auto].
  rewrite to_date32_floor; [|exact Z0|unfold in_i64z, local_sec, two63, two31 in *; cbn [unix zoff]; lia].
  unfold local_sec. cbn [unix zoff]. replace ((86400 * d + 0) / 86400) with d by lia.
  apply i32_id. exact Hd.
Qed.

Theorem date32_exact : forall t,
  zoff t = 0 -> nsec t = 0 -> unix t mod 86400 = 0 -> - two31 * 86400 <= unix t < two31 * 86400 ->
  t_IsZero t = false -> date32_Time (to_date32 t) = t.
Proof.
  intros [u n o] Ho Hn Hm Hr Hz. cbn in *. subst.
  assert (E : to_date32 (mkT u 0 0) = u / 86400).
  { rewrite to_date32_floor; [|exact Hz|unfold in_i64z, local_sec, two63, two31 in *; cbn [unix zoff]; lia].
    unfold local_sec. cbn [unix zoff]. replace (u + 0) with u by lia. apply i32_id. unfold two31 in *. lia. }
  rewrite E. rewrite dT32 by (unfold in_i64z, two63, two31 in *; lia). f_equal. lia.
Qed.

(* ---- DateTime ------------------------------------------------------------ *)
Theorem datetime_rt : forall loc cloc t,
  t_IsZero t = false -> 0 <= unix t < two32 ->
  to_datetime t = unix t /\
  datetime_Time loc (to_datetime t) = mkT (unix t) 0 loc /\
  col_datetime_Row loc cloc (col_datetime_Append t) = mkT (unix t) 0 (col_loc loc cloc).
Proof.
  intros loc cloc t Hz Hr. unfold col_datetime_Row, col_datetime_Append.
  assert (E : to_datetime t = unix t). { unfold to_datetime. rewrite Hz. unf. lia. }
  rewrite E. unf. cbn. auto.
Qed.

Theorem datetime_inv : forall loc v, 0 <= v < two32 ->
  to_datetime (datetime_Time loc v) = v /\ datetime_Time loc v = mkT v 0 loc.
Proof.
  intros loc v Hv. assert (T : datetime_Time loc v = mkT v 0 loc) by (unf; reflexivity).
  rewrite T. split; [|reflexivity]. unfold to_datetime.
  replace (t_IsZero (mkT v 0 loc)) with false.
  - unf. lia.
  - symmetry. apply not_zero. unfold two32 in Hv. lia.
Qed.
(* ---- DateTime64 (after the fix) ------------------------------------------ *)
Definition ticks_of (t : gotime) (p : Z) : Z := total_ns t / precision_Scale p.

Lemma prec_cases p : 0 <= p <= 9 ->
  p = 0 \/ p = 1 \/ p = 2 \/ p = 3 \/ p = 4 \/ p = 5 \/ p = 6 \/ p = 7 \/ p = 8 \/ p = 9.
Proof. lia. Qed.

Lemma scale_pow p : 0 <= p <= 9 -> precision_Scale p = 10 ^ (9 - p).
Proof. intros H. destruct (prec_cases p H) as [->|[->|[->|[->|[->|[->|[->|[->|[->| ->]]]]]]]]]; reflexivity. Qed.

Ltac time_unix_cases :=
  unfold time_Unix; cbv zeta;
  match goal with |- context [if ?c then _ else _] => destruct c eqn:?E1 end;
  [ match goal with |- context [if ?c then _ else _] => destruct c eqn:?E2 end | ];
  cbn [unix nsec zoff].
Ltac concrete_scale :=
  match goal with |- context [precision_Scale ?k] =>
    let v := eval vm_compute in (precision_Scale k) in change (precision_Scale k) with v in * end;
  match goal with |- context [Z.quot ns_per_s ?s] =>
    let v := eval vm_compute in (Z.quot ns_per_s s) in change (Z.quot ns_per_s s) with v in * end.

Theorem datetime64_rt : forall loc p t,
  0 <= p <= 9 -> wf_time t -> t_IsZero t = false -> in_i64z (ticks_of t p) ->
  to_datetime64 t p = ticks_of t p /\
  unix (datetime64_Time loc (to_datetime64 t p) p) = unix t /\
  nsec (datetime64_Time loc (to_datetime64 t p) p) = nsec t - nsec t mod precision_Scale p /\
  zoff (datetime64_Time loc (to_datetime64 t p) p) = loc.
Proof.
  intros loc p t Hp Hw Hz Hr.
  assert (E : to_datetime64 t p = ticks_of t p).
  { unfold to_datetime64, ticks_of, total_ns, in_i64z, wf_time, t_Unix, t_Nanosecond in *. rewrite Hz. cbv zeta. rewrite i64_add_l.
    destruct (prec_cases p Hp) as [->|[->|[->|[->|[->|[->|[->|[->|[->| ->]]]]]]]]];
    concrete_scale; unfold i64, ns_per_s, two63, two64 in *; lia. }
  rewrite E. unfold ticks_of, total_ns, in_i64z, wf_time in *.
  destruct (prec_cases p Hp) as [->|[->|[->|[->|[->|[->|[->|[->|[->| ->]]]]]]]]];
    unfold datetime64_Time; cbv zeta; concrete_scale.
  all: unfold ns_per_s, two63 in *.
  all: repeat split; time_unix_cases; unfold i64, ns_per_s, two63, two64 in *; lia.
Qed.

(* what the round trip means as an instant: the same second, the sub-second part rounded down to the tick *)
Corollary datetime64_rt_instant : forall loc p t,
  0 <= p <= 9 -> wf_time t -> t_IsZero t = false -> in_i64z (ticks_of t p) ->
  let b := datetime64_Time loc (to_datetime64 t p) p in
  wf_time b /\ total_ns b = ticks_of t p * precision_Scale p /\
  total_ns b <= total_ns t < total_ns b + precision_Scale p /\
  (nsec t mod precision_Scale p = 0 -> unix b = unix t /\ nsec b = nsec t) /\
  t_Date (t_In (zoff t) b) = t_Date t.
Proof.
  intros loc p t Hp Hw Hz Hr b.
  destruct (datetime64_rt loc p t Hp Hw Hz Hr) as (E & Eu & En & Eo). fold b in Eu, En, Eo.
  unfold wf_time, total_ns, ticks_of, total_ns in *. rewrite Eu, En.
  assert (HS : 0 < precision_Scale p /\ exists k, ns_per_s = k * precision_Scale p).
  { destruct (prec_cases p Hp) as [->|[->|[->|[->|[->|[->|[->|[->|[->| ->]]]]]]]]];
    (split; [reflexivity|]);
    [exists 1|exists 10|exists 100|exists 1000|exists 10000|exists 100000|exists 1000000|exists 10000000|exists 100000000|exists 1000000000]; reflexivity. }
  destruct HS as [HS [k Hk]]. set (S := precision_Scale p) in *.
  assert (Hm : 0 <= nsec t mod S < S) by (apply Z.mod_pos_bound; lia).
  assert (Hd : (unix t * ns_per_s + nsec t) / S = unix t * k + nsec t / S).
  { rewrite Hk. replace (unix t * (k * S) + nsec t) with (nsec t + (unix t * k) * S) by ring.
    rewrite Z.div_add by lia. ring. }
  pose proof (Z.div_mod (nsec t) S ltac:(lia)) as DM.
  pose proof (Z.mod_le (nsec t) S ltac:(lia) HS) as Hle.
  repeat split; try lia.
  unfold t_Date, local_day, local_sec, t_In. cbn [unix zoff]. rewrite Eu. reflexivity.
Qed.

(* every DateTime64 value is the DateTime64 of its own Time *)
Theorem datetime64_inv : forall loc p v,
  0 <= p <= 9 -> in_i64z v ->
  let b := datetime64_Time loc v p in
  wf_time b /\ total_ns b = v * precision_Scale p /\ zoff b = loc /\
  (t_IsZero b = false -> to_datetime64 b p = v).
Proof.
  intros loc p v Hp Hv b.
  assert (W : wf_time b /\ total_ns b = v * precision_Scale p /\ zoff b = loc).
  { subst b. unfold wf_time, total_ns, in_i64z in *.
    destruct (prec_cases p Hp) as [->|[->|[->|[->|[->|[->|[->|[->|[->| ->]]]]]]]]];
      unfold datetime64_Time; cbv zeta; concrete_scale.
    all: repeat split; time_unix_cases; unfold i64, ns_per_s, two63, two64 in *; lia. }
  destruct W as (W1 & W2 & W3). split; [exact W1|]. split; [exact W2|]. split; [exact W3|].
  intros Hz.
  assert (R : in_i64z (ticks_of b p)).
  { unfold ticks_of. rewrite W2. rewrite Z.div_mul; [exact Hv|]. rewrite scale_pow by lia. apply Z.pow_nonzero; lia. }
  destruct (datetime64_rt loc p b Hp W1 Hz R) as (E & _). rewrite E.
  unfold ticks_of. rewrite W2. apply Z.div_mul. rewrite scale_pow by lia. apply Z.pow_nonzero; lia.
Qed.

(* the documented range of DateTime64: 1900-01-01 00:00:00 .. 2299-12-31 23:59:59.99999999 for
   precisions 0..8; at precision 9 the value is int64 nanoseconds, 1677-09-21 .. 2262-04-11 *)
Theorem datetime64_documented_range : forall p t,
  0 <= p <= 8 -> wf_time t -> -2208988800 <= unix t < 10413792000 -> in_i64z (ticks_of t p).
Proof.
  intros p t Hp Hw Hr. unfold ticks_of, total_ns, in_i64z, wf_time, two63, ns_per_s in *.
  assert (C : p = 0 \/ p = 1 \/ p = 2 \/ p = 3 \/ p = 4 \/ p = 5 \/ p = 6 \/ p = 7 \/ p = 8) by lia.
  destruct C as [->|[->|[->|[->|[->|[->|[->|[->| ->]]]]]]]];
  match goal with |- context [precision_Scale ?k] =>
    let v := eval vm_compute in (precision_Scale k) in change (precision_Scale k) with v in * end; lia.
Qed.
Theorem datetime64_nano_range : forall t, ticks_of t 9 = total_ns t.
Proof. intros t. unfold ticks_of. change (precision_Scale 9) with 1. apply Z.div_1_r. Qed.
Lemma datetime64_bounds_are_dates :
  days_from_civil 1900 1 1 * 86400 = -2208988800 /\ days_from_civil 2300 1 1 * 86400 = 10413792000.
Proof. split; vm_compute; reflexivity. Qed.
