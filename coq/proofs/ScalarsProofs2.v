(* Proofs about model/Scalars.v (C20), part 2: wide integers, IP addresses, Interval.Add. *)
From CH Require Import model.Scalars gen.Consts proofs.CalendarProofs proofs.ScalarsProofs.
From Coq Require Import Lia ZArith List Bool ZifyBool.
Import ListNotations.
Open Scope Z_scope.
Ltac Zify.zify_post_hook ::= Z.to_euclidean_division_equations.

Ltac unfi := unfold int128_FromUInt64, uint128_FromInt, uint256_FromInt, uint128_Int in *; unfold int128_FromInt, int128_Int, int128_UInt64, uint128_FromUInt64, int128_FromUInt64, uint128_FromInt,
  uint128_UInt64, uint128_Int, int256_FromInt, uint256_FromInt, uint256_FromUInt64,
  i256_val, u256_val, i128_val, u128_val, in_i64z, maxu64, maxi64, u64, i64 in *;
  cbn [lo128 hi128 lo256 hi256] in *;
  unfold two63, two64, two127, two128, two255, two256 in *.

(* ---- 128/256-bit helpers --------------------------------------------------- *)
Theorem int128_inv : forall v, in_i64z v ->
  int128_Int (int128_FromInt v) = v /\ i128_val (int128_FromInt v) = v.
Proof.
  intros v Hv. unfi. destruct (v <? 0) eqn:E; cbn [lo128 hi128]; destruct (_ || _) eqn:T; split; lia.
Qed.

Theorem int128_uint64_inv : forall v, 0 <= v < two64 ->
  int128_UInt64 (int128_FromUInt64 v) = v /\ i128_val (int128_FromUInt64 v) = v.
Proof. intros v Hv. unfi. destruct (_ || _) eqn:T; split; lia. Qed.

Theorem uint128_inv : forall v, 0 <= v < two64 ->
  uint128_UInt64 (uint128_FromUInt64 v) = v /\ u128_val (uint128_FromUInt64 v) = v.
Proof. intros v Hv. unfi. destruct (0 <? 0) eqn:T; split; lia. Qed.

Theorem uint128_int_inv : forall v, in_i64z v ->
  u128_val (uint128_FromInt v) = v mod two128 /\ (0 <= v -> uint128_Int (uint128_FromInt v) = v).
Proof.
  intros v Hv. unfi. destruct (v <? 0) eqn:E; cbn [lo128 hi128]; split; try lia.
  intros _. destruct (0 <? 0) eqn:T; lia.
Qed.

Theorem int256_sign_ext : forall v, in_i64z v -> i256_val (int256_FromInt v) = v.
Proof. intros v Hv. unfi. destruct (v <? 0) eqn:E; cbn [lo128 hi128 lo256 hi256]; lia. Qed.

Theorem uint256_inv : forall v,
  (0 <= v < two64 -> u256_val (uint256_FromUInt64 v) = v) /\
  (in_i64z v -> u256_val (uint256_FromInt v) = v mod two256).
Proof.
  intros v. split; intros Hv; unfi; [lia|].
  destruct (v <? 0) eqn:E; cbn [lo128 hi128 lo256 hi256]; lia.
Qed.

(* ---- IPv4 / IPv6 ------------------------------------------------------------ *)
Definition is_byte (x : Z) : Prop := 0 <= x < 256.

Theorem ipv4_inv : forall v, 0 <= v < two32 -> to_IPv4 (ipv4_ToIP v) = Some v.
Proof.
  intros v Hv. unfold to_IPv4, ipv4_ToIP, addr_As4, put_be32, option_map, be32, two32 in *. f_equal. lia.
Qed.

Theorem ipv4_inv' : forall a b c d, is_byte a -> is_byte b -> is_byte c -> is_byte d ->
  exists v, to_IPv4 (Addr4 [a; b; c; d]) = Some v /\ 0 <= v < two32 /\ ipv4_ToIP v = Addr4 [a; b; c; d].
Proof.
  intros a b c d Ha Hb Hc Hd. unfold is_byte in *. eexists. split; [reflexivity|].
  unfold be32, ipv4_ToIP, put_be32, two32. split; [lia|].
  f_equal. repeat (f_equal; try lia).
Qed.

(* IPv4-mapped IPv6 addresses unmap to the same number *)
Theorem ipv4_of_mapped : forall a b c d,
  to_IPv4 (Addr6 (v4in6_prefix ++ [a; b; c; d])) = to_IPv4 (Addr4 [a; b; c; d]).
Proof. reflexivity. Qed.

Theorem ipv6_inv : forall v, to_IPv6 (ipv6_ToIP v) = v /\ ipv6_ToIP (to_IPv6 (Addr6 v)) = Addr6 v.
Proof. split; reflexivity. Qed.

Theorem ipv6_of_v4 : forall a b c d,
  to_IPv6 (Addr4 [a; b; c; d]) = v4in6_prefix ++ [a; b; c; d] /\
  to_IPv4 (ipv6_ToIP (to_IPv6 (Addr4 [a; b; c; d]))) = to_IPv4 (Addr4 [a; b; c; d]).
Proof. split; reflexivity. Qed.
