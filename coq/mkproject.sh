#!/bin/sh
# regenerate _CoqProject from the files present (props/ are compiled separately by ./check, but also by make)
cd "$(dirname "$0")"
{
  echo "-Q . CH"
  echo "-arg -w -arg -notation-overridden,-ambiguous-paths,-deprecated-hint-without-locality,-deprecated-instance-without-locality"
  ls gen/*.v model/*.v proofs/*.v props/*.v 2>/dev/null
} > _CoqProject
coq_makefile -f _CoqProject -o Makefile >/dev/null
