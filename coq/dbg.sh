#!/bin/sh
# usage: dbg.sh file.v LINE  — show the goal just before LINE
f=$1; n=$2
head -n $((n-1)) "$f" > /tmp/dbg_$$.v
echo "Show. " >> /tmp/dbg_$$.v
cd /verif/coq && coqtop -Q . CH -batch -l /tmp/dbg_$$.v 2>&1 | tail -${3:-30}
rm -f /tmp/dbg_$$.v
