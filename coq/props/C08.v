(* C08 - Decoding is independent of how the transport segments the byte stream.
   Nothing but statements closed by [exact], each followed by Print Assumptions, and one non-vacuity Example.

   Model: model/Stream.v.  A connection is a list of events [Chunk bytes | Timeout] (a Timeout is a silence longer
   than the read timeout), a short-read oracle [orc : nat -> nat] says how many of the available bytes the i-th
   conn.Read hands out, bufio.Reader (defaultReaderSize) sits on top, io.ReadFull loops over it, compress.Reader
   (readBlock / Read) and proto.Reader (ReadFull, readFull, ReadByte, UVarInt, StrRaw, ..., Enable/DisableCompression)
   on top of that, then Client.packet (deadline armed only while the packet code is read) and the receive loop's
   retry of timeouts.  A decoder is a reader program [rd A]; [run_L orc H decomp P s] runs it through the layers
   (H = CityHash128, decomp = the block codecs: arbitrary functions), [run_F] runs it on the flat stream
   (bytes + the error that ends them), [run_G] on the gapped flat stream (bytes with silence markers).
     flatten s   the bytes still to come (bufio's buffer, then the chunks), fl s = (flatten s, tail error)
     gfl s       the same with the silences kept as markers
     tm_ok s     no deadline is armed, or no silence is left
     realizes P p   the reader program P returns on the flat stream what the parser p (model/Prim.v) returns *)
From CH Require Import gen.Consts model.Messages model.Stream proofs.StreamProofs.
From CH Require Import model.StreamGaps proofs.StreamProofs2.
From CH Require Import model.Columns model.StreamCols proofs.ColumnsProofs2 proofs.StreamColsProofs.
Open Scope N_scope.

(* what the model takes from the regenerated tables *)
Theorem stream_obligations :
  (1 <= bufio_size)%nat /\ N.of_nat bufio_size = Z.to_N defaultReaderSize /\
  str_chunk = Z.to_N maxStrPrealloc /\ str_chunk <= alloc_cap /\
  Forall (fun c => c < 128) server_codes /\ NoDup server_codes /\ headerSize = 25%nat.
Proof. exact stream_obligations_thm. Qed.
Print Assumptions stream_obligations.

(* For every chunking, every short-read oracle, every buffer state: io.ReadFull of n bytes through bufio and the
   connection returns the first n bytes of the concatenation and leaves a state that flattens to the rest; it fails
   iff fewer than n bytes remain, with the flat stream's error (io.EOF when nothing was left, io.ErrUnexpectedEOF
   after a partial read, any other tail error as it is), everything consumed; the fuel never runs out. *)
Theorem readfull_flatten : forall orc n s, tm_ok s ->
  exists r s', rfull_L orc n s = Some (r, s') /\ tm_ok s' /\ c_tl (b_conn s') = c_tl (b_conn s) /\
    (if Nat.leb n (length (flatten s))
     then r = inl (firstn n (flatten s)) /\ flatten s' = skipn n (flatten s)
     else r = inr (full_err (flatten s) (c_tl (b_conn s))) /\ flatten s' = []).
Proof. exact readfull_flatten_thm. Qed.
Print Assumptions readfull_flatten.

(* ... and with a deadline armed and silences anywhere it is io.ReadFull on the gapped flat stream: the result
   depends on the bytes and on where the silences lie between them, never on the chunking or the oracle *)
Theorem readfull_gapped : forall orc n s,
  exists r s', rfull_L orc n s = Some (r, s') /\ rfull_G n (gfl s) = Some (r, gfl s').
Proof. exact rfull_L_gflat. Qed.
Print Assumptions readfull_gapped.

(* Every reader program - any sequence of ReadFull / ReadByte / UVarInt / StrRaw / ... calls, with compression
   switched on and off, whatever it computes from what it read - returns through the layers exactly what it returns
   on the flat stream: same value, same error, same reader state (the decompressing reader's buffer included), same
   bytes left.  This is the statement "through the decompressing layer" as well: [run] reads compressed data with
   compress.Reader over io.ReadFull of the raw reader. *)
Theorem reader_program_flatten : forall orc H decomp A (P : rd A) (s : prd bufio), tm_ok (p_raw s) ->
  rr_map fl (run_L orc H decomp P s) = run_F H decomp P (pmap_st fl s) /\ rr_inv tm_ok (run_L orc H decomp P s).
Proof. exact (fun orc H d A P s => run_L_F orc H d P s). Qed.
Print Assumptions reader_program_flatten.

(* hence two deliveries of the same bytes (other chunks, other short reads, another split between bufio's buffer and
   the wire) give the same outcome, for every reader program *)
Theorem segmentation_independent : forall A (P : rd A) orc1 orc2 H decomp (s1 s2 : prd bufio),
  tm_ok (p_raw s1) -> tm_ok (p_raw s2) -> pmap_st fl s1 = pmap_st fl s2 ->
  rr_map fl (run_L orc1 H decomp P s1) = rr_map fl (run_L orc2 H decomp P s2).
Proof. exact (fun A P => segmentation_independent_thm P). Qed.
Print Assumptions segmentation_independent.

(* ANY parser of model/Prim.v that is implemented by a reader program returns, run through the layered reader, the
   value, the error class and the unread input it returns on the concatenated bytes - for every segmentation *)
Theorem decode_chunk_independent : forall A (P : rd A) (p : parser A), realizes P p ->
  forall orc H decomp (s : prd bufio), p_comp s = false -> tm_ok (p_raw s) ->
  to_res (rr_map fl (run_L orc H decomp P s)) = p (flatten (p_raw s)).
Proof. exact (fun A P p => decode_chunk_independent_thm P p). Qed.
Print Assumptions decode_chunk_independent.

(* the column decoders are such programs, for every type tree, build and declared row count: DecodeState +
   DecodeColumn through bufio and a connection that delivers the bytes in any segmentation, with any short reads,
   return the column, the error and the unread input they return on the concatenated bytes *)
Theorem column_decoders_are_reader_programs : forall b t n,
  realizes (r_dec_column b t n) (dec_column b t n) /\ realizes (r_dec b t n) (dec b t n) /\
  realizes (r_dec_state t) (dec_state t).
Proof. intros b t n. split; [apply realizes_dec_column|split; [apply realizes_dec|apply realizes_dec_state]]. Qed.
Print Assumptions column_decoders_are_reader_programs.

Theorem column_decode_chunk_independent : forall b t n orc H decomp (s : prd bufio),
  p_comp s = false -> tm_ok (p_raw s) ->
  to_res (rr_map fl (run_L orc H decomp (r_dec_column b t n) s)) = dec_column b t n (flatten (p_raw s)).
Proof. intros b t n. exact (decode_chunk_independent_thm (r_dec_column b t n) (dec_column b t n) (realizes_dec_column b t n)). Qed.
Print Assumptions column_decode_chunk_independent.

(* the parsers of L1 are such programs, and being one is preserved by bind, by rows-indexed loops and by loops whose
   fuel is the length of the input: every decoder built from them (L2-L4) is covered *)
Theorem primitives_are_reader_programs :
  (forall A (a : A), realizes (RRet a) (ret a)) /\ (forall A e, realizes (@RFail A e) (fail e)) /\
  (forall A B (P : rd A) p (F : A -> rd B) f, realizes P p -> (forall a, realizes (F a) (f a)) -> realizes (rbind P F) (bind p f)) /\
  (forall A (P : rd A) p, realizes P p -> forall n, realizes (r_rep n P) (rep n p)) /\
  (forall A (F : nat -> rd A) f, (forall n, realizes (F n) (f n)) -> realizes (RAvail F) (fun s => f (length s) s)) /\
  (forall n, realizes (r_read_n n) (read_n n)) /\ (forall n, realizes (r_read_raw n) (read_raw n)) /\
  (forall n, realizes (r_alloc n) (alloc n)) /\ realizes r_read_byte read_byte /\
  realizes r_uvarint uvarint /\ realizes r_get_int get_int /\ realizes r_strlen strlen /\ realizes r_get_str get_str /\
  realizes r_get_u8 get_u8 /\ realizes r_get_u16 get_u16 /\ realizes r_get_u32 get_u32 /\ realizes r_get_u64 get_u64 /\
  realizes r_get_u128 get_u128 /\ realizes r_get_i32 get_i32 /\ realizes r_get_i64 get_i64 /\ realizes r_get_bool get_bool.
Proof. exact primitives_are_reader_programs_thm. Qed.
Print Assumptions primitives_are_reader_programs.

(* instance: every protocol message (ServerHello, Progress, Profile, Exception, TableColumns, ClientInfo, ... - any
   layout at any revision) decodes to the same fields, error and consumed count however its bytes arrive *)
Theorem messages_chunk_independent : forall v l orc H decomp (s : prd bufio), p_comp s = false -> tm_ok (p_raw s) ->
  to_res (rr_map fl (run_L orc H decomp (r_decode_fields v l) s)) = decode_fields v l (flatten (p_raw s)).
Proof. exact messages_chunk_independent_thm. Qed.
Print Assumptions messages_chunk_independent.

(* The receive loop (packet code read under the deadline, timeouts retried, then the handler [body]) run through
   the layers is the receive loop on the gapped flat stream, for every handler: its outcome does not depend on
   chunking or short reads even when read deadlines expire *)
Theorem receive_loop_gapped : forall orc H decomp R (body : N -> rd (step R)) fuel s,
  rr_map gfl (recv_L orc H decomp body fuel s) = recv_G H decomp body fuel (pmap_st gfl s).
Proof. exact (fun orc H d R body fuel s => recv_L_G orc H d body fuel s). Qed.
Print Assumptions receive_loop_gapped.

(* k read timeouts that expire in front of a packet (the reader is at a packet boundary: nothing buffered, no
   deadline armed, compression off) cost k rounds of the loop and change nothing else: same outcome and same
   remaining stream as without them, for every handler, every later chunking and silences, every oracle *)
Theorem timeout_between_packets_neutral : forall orc orc' H decomp R (body : N -> rd (step R)) k fuel evs tl calls calls' dt ps,
  rr_map gfl (recv_L orc H decomp body (k + fuel) (lst (repeat Timeout k ++ evs) tl calls dt ps)) =
  rr_map gfl (recv_L orc' H decomp body fuel (lst evs tl calls' dt ps)).
Proof. exact (fun orc orc' H d R body => timeout_between_packets_neutral_thm orc orc' H d body). Qed.
Print Assumptions timeout_between_packets_neutral.

(* the packet-code read alone (the handler just returns the code) *)
Theorem packet_code_read_gaps_neutral : forall orc orc' H decomp k fuel evs tl calls calls' dt ps,
  rr_map gfl (recv_L orc H decomp code_body (k + fuel) (lst (repeat Timeout k ++ evs) tl calls dt ps)) =
  rr_map gfl (recv_L orc' H decomp code_body fuel (lst evs tl calls' dt ps)).
Proof. exact packet_code_read_gaps_neutral_thm. Qed.
Print Assumptions packet_code_read_gaps_neutral.

(* silences met while no deadline is armed (every read of a packet's body) are waited out: they can be erased *)
Theorem unarmed_gaps_neutral : forall orc H decomp A (P : rd A) (s : prd bufio), c_armed (b_conn (p_raw s)) = false ->
  rr_map fl (run_L orc H decomp P s) = run_F H decomp P (pmap_st fl s).
Proof. exact (fun orc H d A P s => unarmed_gaps_neutral_thm orc H d P s). Qed.
Print Assumptions unarmed_gaps_neutral.

(* Non-vacuity.  A stream of two packets - Progress (3; 300, 2, 1, 0, 0, 0 at the current revision) and EndOfStream
   (5) - arrives as: two silences, a chunk ending inside the two-byte varint 300, an empty read, the rest; the
   oracle hands out one byte at a time on every other read.  The receive loop (fuel 4) delivers the Progress fields
   and ends cleanly, with nothing left; the same bytes in one chunk with no silence give the same outcome with fuel 2;
   and a deadline that expires inside a two-byte packet code (not at a boundary) does change the outcome. *)
Example c08_nonvacuous :
  let H := fun _ : list N => (0, 0) in
  let decomp := fun (_ : N) (_ : list N) (_ : N) => @None (list N) in
  let body := fun code : N =>
    if code =? 3 then rbind (r_decode_fields 54460 L_Progress) (fun _ => RRet (@Continue (list fv)))
    else if code =? 5 then RRet (Done [])
    else RFail EInvalid in
  let body2 := fun code : N =>
    if code =? 3 then rbind (r_decode_fields 54460 L_Progress) (fun f => RRet (Done f)) else RFail EInvalid in
  let orc := fun i : nat => if Nat.even i then 1%nat else 0%nat in
  let out := fun r : rr bufio (list fv) => match r with
                                           | ROk f s => Some (f, flatten (p_raw s))
                                           | _ => None
                                           end in
  let evs := [Timeout; Timeout; Chunk [3; 172]; Chunk []; Chunk [2; 2; 1; 0; 0; 0; 5]] in
  out (recv_L orc H decomp body 4 (lst evs IEof 0 [] 0)) = Some ([], []) /\
  out (recv_L orc H decomp body2 3 (lst evs IEof 0 [] 0)) =
    Some ([FN 300; FN 2; FN 1; FN 0; FN 0; FN 0], [5]) /\
  out (recv_L (fun _ => 0%nat) H decomp body2 1 (lst [Chunk [3; 172; 2; 2; 1; 0; 0; 0; 5]] IEof 7 [] 0)) =
    Some ([FN 300; FN 2; FN 1; FN 0; FN 0; FN 0], [5]) /\
  out (recv_L orc H decomp body2 3 (lst [Chunk [131]; Timeout; Chunk [0; 172; 2; 2; 1; 0; 0; 0; 5]] IEof 0 [] 0)) = None /\
  out (recv_L orc H decomp body2 3 (lst [Timeout; Chunk [131]; Chunk [0; 172; 2; 2; 1; 0; 0; 0; 5]] IEof 0 [] 0)) =
    Some ([FN 300; FN 2; FN 1; FN 0; FN 0; FN 0], [5]).
Proof. vm_compute. repeat split. Qed.

(* ======================= silences in front of EVERY packet =======================

   model/StreamGaps.v: [recv_st] is the receive loop with the handlers' state x : X carried from packet to packet and
   returned with every outcome (an error or exhausted fuel included): with X = the list of what the handlers were
   handed, the equalities below say "the same handler results in the same order".  [erase_gaps evs] = evs without its
   Timeout events, [erase_st s] = the layered reader s over the erased events, [count_gaps] = their number.
   Everything is compared under [fl]: the outcome, the handler state, the reader's state above the raw reader and the
   bytes still to come with the error that ends them.

   proofs/StreamProofs2.v: [gaps_at_boundaries H decomp body x g] (g = the reader on the gapped flat stream, i.e.
   [pmap_st gfl s]: bytes bufio has buffered come first, so no silence can lie in front of them) says that every
   silence still in the stream lies where the code tolerates one - inductively:
     gab_none    no deadline armed and no silence left, or
     gab_gap     no deadline armed, compression off, a silence comes next, and after it again gaps_at_boundaries, or
     gab_packet  no deadline armed, compression off, the bytes of the next packet code are contiguous
                 ([code_contig 10]: the only reads under a deadline are those of Client.packet's UVarInt), and
                 wherever the handler of that packet returns to the loop, again gaps_at_boundaries (silences inside
                 the body are met with no deadline armed and are not restricted). *)

(* the loop with handler state through bufio and the chunked connection is the loop on the gapped flat stream *)
Theorem receive_loop_st_gapped : forall orc H decomp X R (body : X -> N -> rd (X * step R)) fuel x s,
  res_map gfl (recv_st_L orc H decomp body fuel x s) = recv_st_G H decomp body fuel x (pmap_st gfl s).
Proof. exact (fun orc H d X R body fuel x s => recv_st_L_G orc H d body fuel x s). Qed.
Print Assumptions receive_loop_st_gapped.

(* Stream.recv_loop (every raw reader) is the instance with the trivial handler state *)
Theorem receive_loop_is_stateless_instance : forall St rfull avail arm H decomp R (body : N -> rd (step R)) fuel s,
  recv_loop St rfull avail arm H decomp body fuel s =
  snd (recv_st St rfull avail arm H decomp (lift_body body) fuel tt s).
Proof. exact (fun St rfull avail arm H d R body => recv_loop_is_recv_st St rfull avail arm H d body). Qed.
Print Assumptions receive_loop_is_stateless_instance.

(* THE GENERAL STATEMENT, against the reference (the loop on the flat stream = the bytes and the error that ends them):
   silences in front of any number of packets, any number of them, arbitrary chunking, short reads, any buffer state.
   (1) if the reference returns within f rounds, the real loop returns the same within any g >= f + (number of
       silences) rounds; (2) if the real loop returns within g rounds, so does the reference, the same.
   "The same" = handler state (results in order), outcome, reader state and remaining stream. *)
Theorem receive_loop_gaps_neutral : forall H decomp X R (body : X -> N -> rd (X * step R)) orc x (s : prd bufio),
  gaps_at_boundaries H decomp body x (pmap_st gfl s) ->
  (forall f, snd (recv_st_F H decomp body f x (pmap_st fl s)) <> RFuel ->
   forall g, (f + count_gaps (c_evs (b_conn (p_raw s))) <= g)%nat ->
   res_map fl (recv_st_L orc H decomp body g x s) = recv_st_F H decomp body f x (pmap_st fl s)) /\
  (forall g, snd (recv_st_L orc H decomp body g x s) <> RFuel ->
   res_map fl (recv_st_L orc H decomp body g x s) = recv_st_F H decomp body g x (pmap_st fl s)).
Proof. exact (fun H d X R body => recv_st_gaps_L H d body). Qed.
Print Assumptions receive_loop_gaps_neutral.

(* ... and as erasure: recv_st_L (evs) = recv_st_L (erase_gaps evs), modulo the rounds the silences cost, for any two
   short-read oracles *)
Theorem receive_loop_erase_gaps : forall H decomp X R (body : X -> N -> rd (X * step R)) orc orc' x (s : prd bufio),
  c_armed (b_conn (p_raw s)) = false ->
  gaps_at_boundaries H decomp body x (pmap_st gfl s) ->
  (forall f, snd (recv_st_L orc' H decomp body f x (erase_st s)) <> RFuel ->
   forall g, (f + count_gaps (c_evs (b_conn (p_raw s))) <= g)%nat ->
   res_map fl (recv_st_L orc H decomp body g x s) = res_map fl (recv_st_L orc' H decomp body f x (erase_st s))) /\
  (forall g, snd (recv_st_L orc H decomp body g x s) <> RFuel ->
   res_map fl (recv_st_L orc H decomp body g x s) = res_map fl (recv_st_L orc' H decomp body g x (erase_st s))).
Proof. exact (fun H d X R body => recv_st_erase_gaps_thm H d body). Qed.
Print Assumptions receive_loop_erase_gaps.

(* A premise on the SHAPE OF THE STREAM ALONE implies gaps_at_boundaries, for every handler that gives the reader back
   with compression off, and is preserved round the loop (the proof is an induction over the loop): no silence directly
   after a byte >= 128 ([gaps_shape], a boolean function of the stream).  Only a byte >= 128 can be a continuation
   byte of the packet code's varint, so under this premise a deadline never expires with part of a code consumed. *)
Theorem gaps_shape_implies_gaps_at_boundaries : forall H decomp X R (body : X -> N -> rd (X * step R)),
  handlers_leave_compression_off H decomp body ->
  forall n x s, (length (g_items (p_raw s)) <= n)%nat -> boundary s -> gaps_shape (g_items (p_raw s)) = true ->
  gaps_at_boundaries H decomp body x s.
Proof. exact (fun H d X R body => gaps_shape_gab H d body). Qed.
Print Assumptions gaps_shape_implies_gaps_at_boundaries.

Theorem receive_loop_erase_gaps_shape : forall H decomp X R (body : X -> N -> rd (X * step R)) orc orc' x (s : prd bufio),
  handlers_leave_compression_off H decomp body ->
  c_armed (b_conn (p_raw s)) = false -> p_comp s = false ->
  gaps_shape (g_items (gfl (p_raw s))) = true ->
  (forall f, snd (recv_st_L orc' H decomp body f x (erase_st s)) <> RFuel ->
   forall g, (f + count_gaps (c_evs (b_conn (p_raw s))) <= g)%nat ->
   res_map fl (recv_st_L orc H decomp body g x s) = res_map fl (recv_st_L orc' H decomp body f x (erase_st s))) /\
  (forall g, snd (recv_st_L orc H decomp body g x s) <> RFuel ->
   res_map fl (recv_st_L orc H decomp body g x s) = res_map fl (recv_st_L orc' H decomp body g x (erase_st s))).
Proof. exact (fun H d X R body => recv_st_gaps_shape_thm H d body). Qed.
Print Assumptions receive_loop_erase_gaps_shape.

(* the same two statements for Stream.recv_L (stateless handlers), as the brief names it *)
Theorem recv_L_erase_gaps : forall H decomp R (body : N -> rd (step R)) orc orc' (s : prd bufio),
  c_armed (b_conn (p_raw s)) = false ->
  gaps_at_boundaries H decomp (lift_body body) tt (pmap_st gfl s) ->
  (forall f, recv_L orc' H decomp body f (erase_st s) <> RFuel ->
   forall g, (f + count_gaps (c_evs (b_conn (p_raw s))) <= g)%nat ->
   rr_map fl (recv_L orc H decomp body g s) = rr_map fl (recv_L orc' H decomp body f (erase_st s))) /\
  (forall g, recv_L orc H decomp body g s <> RFuel ->
   rr_map fl (recv_L orc H decomp body g s) = rr_map fl (recv_L orc' H decomp body g (erase_st s))).
Proof. exact (fun H d R body => recv_L_erase_gaps_thm H d body). Qed.
Print Assumptions recv_L_erase_gaps.

Theorem recv_L_erase_gaps_shape : forall H decomp R (body : N -> rd (step R)) orc orc' (s : prd bufio),
  (forall code (g : prd gflat), p_comp g = false -> comp_off (run_G H decomp (body code) g)) ->
  c_armed (b_conn (p_raw s)) = false -> p_comp s = false ->
  gaps_shape (g_items (gfl (p_raw s))) = true ->
  (forall f, recv_L orc' H decomp body f (erase_st s) <> RFuel ->
   forall g, (f + count_gaps (c_evs (b_conn (p_raw s))) <= g)%nat ->
   rr_map fl (recv_L orc H decomp body g s) = rr_map fl (recv_L orc' H decomp body f (erase_st s))) /\
  (forall g, recv_L orc H decomp body g s <> RFuel ->
   rr_map fl (recv_L orc H decomp body g s) = rr_map fl (recv_L orc' H decomp body g (erase_st s))).
Proof. exact (fun H d R body => recv_L_gaps_shape_thm H d body). Qed.
Print Assumptions recv_L_erase_gaps_shape.

(* gaps_at_boundaries is checkable: the boolean gab_check (model/StreamGaps.v) implies it *)
Theorem gaps_at_boundaries_checkable : forall H decomp X R (body : X -> N -> rd (X * step R)) fuel x s,
  gab_check H decomp body fuel x s = true -> gaps_at_boundaries H decomp body x s.
Proof. exact (fun H d X R body => gab_check_sound H d body). Qed.
Print Assumptions gaps_at_boundaries_checkable.

(* the initial states: a fresh connection over the events, and over the erased events *)
Theorem erase_gaps_initial_state : forall evs tl,
  erase_st (p_init (conn_init evs tl)) = p_init (conn_init (erase_gaps evs) tl) /\
  pmap_st gfl (p_init (conn_init evs tl)) = mkG (g_evs evs) tl false [] 0.
Proof. exact (fun evs tl => conj (erase_st_init evs tl) (gfl_init evs tl)). Qed.
Print Assumptions erase_gaps_initial_state.

(* Non-vacuity.  Three packets - Progress(300,2,1,0,0,0), Progress(5,1,1,0,0,0), EndOfStream - with the handlers
   logging what they decoded.  evs1: silences in front of all three packets (1, 2 and 1 of them), the first packet
   split inside the varint 300; it meets the shape premise; the loop needs 3 + 4 rounds and delivers the same log, in
   the same order, with the same (empty) remaining stream as the erased events in 3 rounds (another oracle); with 6
   rounds it runs out of fuel having delivered both Progress packets.  evs2: one more silence inside the first packet's
   body directly after the byte 172 >= 128: the shape premise fails, gaps_at_boundaries holds (gab_check) - the silence
   is met without a deadline - and the outcome is again that of the erased events.  evs3: a silence inside a
   non-canonical two-byte packet code: gab_check rejects it, and the outcome differs. *)
Example c08_gaps_before_every_packet :
  let H := fun _ : list N => (0, 0) in
  let decomp := fun (_ : N) (_ : list N) (_ : N) => @None (list N) in
  let handler := fun code : N =>
    if code =? 3 then rbind (r_decode_fields 54460 L_Progress) (fun f => RRet (f, @Continue unit))
    else if code =? 5 then RRet ([], Done tt)
    else RFail EInvalid in
  let body := log_body handler in
  let orc := fun i : nat => if Nat.even i then 1%nat else 0%nat in
  let orc0 := fun _ : nat => 0%nat in
  let out := fun r : list (N * list fv) * rr bufio unit =>
    (rev (fst r), match snd r with ROk _ s => Some (flatten (p_raw s)) | _ => None end) in
  let p1 := [FN 300; FN 2; FN 1; FN 0; FN 0; FN 0] in
  let p2 := [FN 5; FN 1; FN 1; FN 0; FN 0; FN 0] in
  let evs1 := [Timeout; Chunk [3; 172]; Chunk [2; 2; 1; 0; 0; 0]; Timeout; Timeout; Chunk [3; 5; 1; 1; 0; 0; 0];
               Timeout; Chunk [5]] in
  let evs2 := [Timeout; Chunk [3; 172]; Timeout; Chunk [2; 2; 1; 0; 0; 0]; Timeout; Timeout; Chunk [3; 5; 1; 1; 0; 0; 0];
               Timeout; Chunk [5]] in
  let evs3 := [Timeout; Chunk [131]; Timeout; Chunk [0; 172; 2; 2; 1; 0; 0; 0; 5]] in
  let st := fun evs => p_init (conn_init evs IEof) in
  gaps_shape (g_evs evs1) = true /\ count_gaps evs1 = 4%nat /\
  erase_gaps evs1 = [Chunk [3; 172]; Chunk [2; 2; 1; 0; 0; 0]; Chunk [3; 5; 1; 1; 0; 0; 0]; Chunk [5]] /\
  out (recv_st_L orc H decomp body 7 [] (st evs1)) = ([(3, p1); (3, p2); (5, [])], Some []) /\
  out (recv_st_L orc0 H decomp body 3 [] (st (erase_gaps evs1))) = ([(3, p1); (3, p2); (5, [])], Some []) /\
  out (recv_st_L orc H decomp body 6 [] (st evs1)) = ([(3, p1); (3, p2)], None) /\
  gaps_shape (g_evs evs2) = false /\
  gab_check H decomp body 20 [] (pmap_st gfl (st evs2)) = true /\
  out (recv_st_L orc H decomp body 8 [] (st evs2)) = ([(3, p1); (3, p2); (5, [])], Some []) /\
  gab_check H decomp body 20 [] (pmap_st gfl (st evs3)) = false /\
  out (recv_st_L orc H decomp body 8 [] (st evs3)) = ([], None) /\
  out (recv_st_L orc H decomp body 8 [] (st (erase_gaps evs3))) = ([(3, p1); (5, [])], Some []).
Proof. vm_compute. repeat split. Qed.
