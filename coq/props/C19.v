(* C19 — Type inference is total and sound; type compatibility is reflexive and symmetric.
   Nothing but statements closed by [exact], each followed by Print Assumptions.
   [zone] is time.LoadLocation and [tl] is strings.ToLower: arbitrary functions, universally quantified.
   [conflicts_r] is ColumnType.Conflicts with every Go slice expression checked ([Crash] = panic),
   [infer] is ColAuto.Infer on a fresh ColAuto, [col_type] the Type() of the column it created. *)
From CH Require Import model.TypeStr proofs.TypeStrProofs.
Open Scope N_scope.
Open Scope list_scope.

(* ColAuto.Infer, on every byte string: a column (whose DataType echoes the request) or an error; never a
   panic, never fuel exhaustion of the model *)
Theorem infer_no_panic : forall zone tl t,
  (exists i, infer zone tl t = Ok i [] /\ dtype i = t) \/ (exists e, infer zone tl t = Err e /\ e <> EFuel).
Proof. exact infer_total. Qed.
Print Assumptions infer_no_panic.

(* whenever Infer succeeds, the created column's own Type() does not conflict with the requested string,
   in either order — for every byte string, well formed or not *)
Theorem infer_sound : forall zone tl t i r, infer zone tl t = Ok i r ->
  conflicts_r t (col_type (data i)) = rok false /\ conflicts_r (col_type (data i)) t = rok false /\ dtype i = t.
Proof. exact infer_sound_r. Qed.
Print Assumptions infer_sound.

(* Results.Auto: when the first header block infers a column, a second block naming the same type is accepted
   (the column's own Infer succeeds again and its Type() still does not conflict), and Type() is unchanged *)
Theorem second_block_accepted : forall zone tl t i r, infer zone tl t = Ok i r ->
  exists c', auto_two_blocks zone tl t = rok c' /\ col_type c' = col_type (data i).
Proof. exact two_blocks_ok. Qed.
Print Assumptions second_block_accepted.

(* ColInterval.Infer does not depend on what strings.ToLower does *)
Theorem interval_infer_independent_of_tolower : forall tl1 tl2 t, interval_infer tl1 t = interval_infer tl2 t.
Proof. exact interval_infer_lower_irrelevant. Qed.
Print Assumptions interval_infer_independent_of_tolower.

(* Base and Elem never slice out of bounds; Elem is strictly shorter *)
Theorem base_elem_no_panic : forall c,
  base_r c = rok (base c) /\ elem_r c = rok (elem c) /\ (c <> [] -> (length (elem c) < length c)%nat).
Proof. exact (fun c => conj (base_r_ok c) (conj (elem_r_ok c) (elem_shorter c))). Qed.
Print Assumptions base_elem_no_panic.

(* Conflicts terminates without panic on every pair, and satisfies its recursive equation *)
Theorem conflicts_no_panic : forall c b, exists r, conflicts_r c b = rok r.
Proof. exact conflicts_r_no_panic. Qed.
Print Assumptions conflicts_no_panic.

Theorem conflicts_equation : forall c b, conflicts_r c b = conf_body conflicts_r c b.
Proof. exact conflicts_r_unfold. Qed.
Print Assumptions conflicts_equation.

Theorem conflicts_refl : forall c, conflicts_r c c = rok false.
Proof. exact conflicts_r_refl. Qed.
Print Assumptions conflicts_refl.

Theorem conflicts_sym : forall c b, conflicts_r c b = conflicts_r b c.
Proof. exact conflicts_r_sym. Qed.
Print Assumptions conflicts_sym.

(* documented equivalences *)
Theorem equiv_enum8_int8 : forall c, base c = T_Enum8 ->
  conflicts_r c T_Int8 = rok false /\ conflicts_r T_Int8 c = rok false.
Proof. exact conflicts_enum8_int8. Qed.
Print Assumptions equiv_enum8_int8.

Theorem equiv_enum16_int16 : forall c, base c = T_Enum16 ->
  conflicts_r c T_Int16 = rok false /\ conflicts_r T_Int16 c = rok false.
Proof. exact conflicts_enum16_int16. Qed.
Print Assumptions equiv_enum16_int16.

Theorem equiv_enum_enum : forall c b, base c = base b -> is_enum (base c) = true -> conflicts_r c b = rok false.
Proof. exact conflicts_enum_enum. Qed.
Print Assumptions equiv_enum_enum.

(* Decimal(P, S) and the DecimalN of its precision class (1..9, 10..18, 19..38, 39..76) *)
Theorem equiv_decimal_alias : forall c p a,
  base c = T_Decimal -> decimal_prec (elem c) = Some p -> decimal_alias p = Some a ->
  conflicts_r c a = rok false /\ conflicts_r a c = rok false.
Proof. exact conflicts_decimal_alias. Qed.
Print Assumptions equiv_decimal_alias.

Theorem equiv_decimal_same_class : forall c b p q a,
  base c = T_Decimal -> base b = T_Decimal ->
  decimal_prec (elem c) = Some p -> decimal_prec (elem b) = Some q ->
  decimal_alias p = Some a -> decimal_alias q = Some a -> conflicts_r c b = rok false.
Proof. exact conflicts_decimal_same_class. Qed.
Print Assumptions equiv_decimal_same_class.

(* DecimalN(S) and DecimalN (finding 17, after its repair) *)
Theorem equiv_decimal_n_scale : forall c, is_decimal_n (base c) = true ->
  conflicts_r c (base c) = rok false /\ conflicts_r (base c) c = rok false.
Proof. exact conflicts_decimal_n_scale. Qed.
Print Assumptions equiv_decimal_n_scale.

(* spacing after commas: equal bases, equal after trimming every comma-separated piece *)
Theorem equiv_comma_spacing : forall c b,
  base c = base b -> dec_clause (base c) (base b) = false -> normalize_commas c = normalize_commas b ->
  conflicts_r c b = rok false.
Proof. exact conflicts_normalized. Qed.
Print Assumptions equiv_comma_spacing.

(* concretely: B(x,y) against B(x,   y), any number of spaces after the comma, B not of the decimal family *)
Theorem equiv_spaces_after_comma : forall B x y n,
  index_byte 40 B = None -> B <> [] -> dec_clause B B = false ->
  conflicts_r (B ++ 40 :: (x ++ 44 :: y) ++ [41]) (B ++ 40 :: (x ++ 44 :: repeat 32 n ++ y) ++ [41]) = rok false.
Proof. exact conflicts_spaces_after_comma. Qed.
Print Assumptions equiv_spaces_after_comma.

(* time-zone parameters: DateTime / DateTime64 with any parameters *)
Theorem equiv_timezone : forall c b, base c = base b -> is_dt (base c) = true -> conflicts_r c b = rok false.
Proof. exact conflicts_datetime. Qed.
Print Assumptions equiv_timezone.

(* element-wise for Array / Nullable / LowCardinality: W(x) against W(y) is x against y
   (unless the two strings already agree up to comma spacing) *)
Theorem equiv_elementwise : forall W x y, is_wrapper W = true ->
  conflicts_r (wrap W x) (wrap W y) =
  if bytes_eqb (normalize_commas (wrap W x)) (normalize_commas (wrap W y)) then rok false else conflicts_r x y.
Proof. exact conflicts_elementwise. Qed.
Print Assumptions equiv_elementwise.

Theorem equiv_elementwise_compat : forall W x y, is_wrapper W = true ->
  conflicts_r x y = rok false -> conflicts_r (wrap W x) (wrap W y) = rok false.
Proof. exact conflicts_elementwise_compat. Qed.
Print Assumptions equiv_elementwise_compat.

(* otherwise: different bases conflict ... *)
Theorem conflicts_diff_base : forall c b,
  base c <> base b -> enum_int_clause (base c) (base b) c b = false -> dec_clause (base c) (base b) = false ->
  conflicts_r c b = rok true.
Proof. exact TypeStrProofs.conflicts_diff_base. Qed.
Print Assumptions conflicts_diff_base.

(* ... and with the same base and no parameter rule, the strings must agree up to comma spacing *)
Theorem conflicts_same_base : forall c b,
  base c = base b -> dec_clause (base c) (base b) = false -> is_enum (base c) = false ->
  is_wrapper (base c) = false -> is_dt (base c) = false ->
  conflicts_r c b = rok (negb (bytes_eqb (normalize_commas c) (normalize_commas b))).
Proof. exact conflicts_same_base_other. Qed.
Print Assumptions conflicts_same_base.

(* non-vacuity: the inputs of finding 17 and friends, on the model of the repaired code *)
Local Open Scope string_scope.
Example c19_nonvacuous :
  let z := fun q => if bytes_eqb q (s2b "UTC") then Some (s2b "UTC") else None in
  let ty := fun s => match infer z (fun x => x) (s2b s) with
                     | Ok i _ => Some (b2s (struct_name (data i)), b2s (col_type (data i)))
                     | _ => None
                     end in
  ty "Decimal32(4)" = Some ("ColDecimal32", "Decimal32") /\
  ty "Array(Nullable(DateTime64(3, 'UTC')))" = Some ("ColArr", "Array(Nullable(DateTime64(3, 'UTC')))") /\
  ty "Array(Array(Int8))" = None /\ ty "IntervalWEEK" = None /\ ty "Decimal(77)" = None /\
  conflicts_r (s2b "Decimal32(4)") (s2b "Decimal32") = rok false /\
  conflicts_r (s2b "Map(String,String)") (s2b "Map(String, String)") = rok false /\
  conflicts_r (s2b "Array(Enum8('a'=1))") (s2b "Array(Int8)") = rok false /\
  conflicts_r (s2b "Array(Int32)") (s2b "Array(Int64)") = rok true /\
  conflicts_r (s2b "Decimal(76, 38)") (s2b "Decimal256") = rok false.
Proof. vm_compute. repeat split. Qed.

(* ======== the same, over the functions TRANSLATED from /repo/proto/column.go on this run (C19x) ========
   gen/TypeFuns.v is written by translator/gostr.go from the Go source of ColumnType.Base, Elem, isDecimalN,
   decimalDowncast, normalizeCommas, Conflicts and IsArray on every run ([go_Base] ... [go_Conflicts]; a slice
   expression is Go's bounds check, [Crash] = panic; Conflicts recurses on fuel = S (length of the receiver)).
   If the source changes its meaning, the equations below stop being provable and this file no longer compiles. *)
From CH Require Import gen.TypeFuns proofs.TypeFunsProofs.

(* every translated function is the hand model of model/TypeStr.v, for all byte strings *)
Theorem type_functions_are_source :
  (forall c, go_Base c = base_r c) /\
  (forall c, go_Elem c = elem_r c) /\
  (forall c, go_isDecimalN c = is_decimal_n c) /\
  (forall c, go_decimalDowncast c = decimal_downcast_r c) /\
  (forall c, go_normalizeCommas c = normalize_commas c) /\
  (forall c, go_IsArray c = is_array c) /\
  (forall rec c b, go_Conflicts_step rec c b = conf_step rec c b) /\
  (forall c b, go_Conflicts c b = conflicts_r c b).
Proof. exact type_functions_are_source_proof. Qed.
Print Assumptions type_functions_are_source.

(* the source's Base, Elem and decimalDowncast never slice out of bounds; Elem is strictly shorter *)
Theorem source_base_elem_no_panic : forall c,
  (exists B, go_Base c = rok B) /\
  (exists e, go_Elem c = rok e /\ (c <> [] -> (length e < length c)%nat)) /\
  (exists d, go_decimalDowncast c = rok d).
Proof. exact src_base_elem_no_panic. Qed.
Print Assumptions source_base_elem_no_panic.

(* the source's Conflicts returns a value on every pair: no panic, and the fuel of the translation is never
   exhausted (any fuel above the length of either argument gives the same result) *)
Theorem source_conflicts_no_panic : forall c b, exists r, go_Conflicts c b = rok r.
Proof. exact go_Conflicts_no_panic. Qed.
Print Assumptions source_conflicts_no_panic.

Theorem source_conflicts_fuel_enough : forall n c b,
  (length c < n \/ length b < n)%nat -> go_Conflicts_fuel n c b = go_Conflicts c b.
Proof. exact go_Conflicts_fuel_enough. Qed.
Print Assumptions source_conflicts_fuel_enough.

(* Conflicts is the translated body applied to itself *)
Theorem source_conflicts_equation : forall c b, go_Conflicts c b = go_Conflicts_step go_Conflicts c b.
Proof. exact go_Conflicts_equation. Qed.
Print Assumptions source_conflicts_equation.

Theorem source_conflicts_refl : forall c, go_Conflicts c c = rok false.
Proof. exact src_conflicts_refl. Qed.
Print Assumptions source_conflicts_refl.

Theorem source_conflicts_sym : forall c b, go_Conflicts c b = go_Conflicts b c.
Proof. exact src_conflicts_sym. Qed.
Print Assumptions source_conflicts_sym.

(* documented equivalences; `go_Base c = rok B` reads "c.Base() returns B" *)
Theorem source_equiv_enum8_int8 : forall c, go_Base c = rok T_Enum8 ->
  go_Conflicts c T_Int8 = rok false /\ go_Conflicts T_Int8 c = rok false.
Proof. exact src_enum8_int8. Qed.
Print Assumptions source_equiv_enum8_int8.

Theorem source_equiv_enum16_int16 : forall c, go_Base c = rok T_Enum16 ->
  go_Conflicts c T_Int16 = rok false /\ go_Conflicts T_Int16 c = rok false.
Proof. exact src_enum16_int16. Qed.
Print Assumptions source_equiv_enum16_int16.

Theorem source_equiv_enum_enum : forall c b B, go_Base c = rok B -> go_Base b = rok B -> is_enum B = true ->
  go_Conflicts c b = rok false.
Proof. exact src_enum_enum. Qed.
Print Assumptions source_equiv_enum_enum.

Theorem source_equiv_decimal_alias : forall c e p a,
  go_Base c = rok T_Decimal -> go_Elem c = rok e -> decimal_prec e = Some p -> decimal_alias p = Some a ->
  go_Conflicts c a = rok false /\ go_Conflicts a c = rok false.
Proof. exact src_decimal_alias. Qed.
Print Assumptions source_equiv_decimal_alias.

Theorem source_equiv_decimal_same_class : forall c b ec eb p q a,
  go_Base c = rok T_Decimal -> go_Base b = rok T_Decimal -> go_Elem c = rok ec -> go_Elem b = rok eb ->
  decimal_prec ec = Some p -> decimal_prec eb = Some q ->
  decimal_alias p = Some a -> decimal_alias q = Some a -> go_Conflicts c b = rok false.
Proof. exact src_decimal_same_class. Qed.
Print Assumptions source_equiv_decimal_same_class.

Theorem source_equiv_decimal_n_scale : forall c B, go_Base c = rok B -> go_isDecimalN B = true ->
  go_Conflicts c B = rok false /\ go_Conflicts B c = rok false.
Proof. exact src_decimal_n_scale. Qed.
Print Assumptions source_equiv_decimal_n_scale.

Theorem source_equiv_comma_spacing : forall c b B,
  go_Base c = rok B -> go_Base b = rok B -> dec_clause B B = false ->
  go_normalizeCommas c = go_normalizeCommas b -> go_Conflicts c b = rok false.
Proof. exact src_comma_spacing. Qed.
Print Assumptions source_equiv_comma_spacing.

Theorem source_equiv_spaces_after_comma : forall B x y n,
  index_byte 40 B = None -> B <> [] -> dec_clause B B = false ->
  go_Conflicts (B ++ 40 :: (x ++ 44 :: y) ++ [41]) (B ++ 40 :: (x ++ 44 :: repeat 32 n ++ y) ++ [41]) = rok false.
Proof. exact src_spaces_after_comma. Qed.
Print Assumptions source_equiv_spaces_after_comma.

Theorem source_equiv_timezone : forall c b B, go_Base c = rok B -> go_Base b = rok B -> is_dt B = true ->
  go_Conflicts c b = rok false.
Proof. exact src_timezone. Qed.
Print Assumptions source_equiv_timezone.

Theorem source_equiv_elementwise : forall W x y, is_wrapper W = true ->
  go_Conflicts (wrap W x) (wrap W y) =
  if bytes_eqb (go_normalizeCommas (wrap W x)) (go_normalizeCommas (wrap W y)) then rok false else go_Conflicts x y.
Proof. exact src_elementwise. Qed.
Print Assumptions source_equiv_elementwise.

Theorem source_equiv_elementwise_compat : forall W x y, is_wrapper W = true ->
  go_Conflicts x y = rok false -> go_Conflicts (wrap W x) (wrap W y) = rok false.
Proof. exact src_elementwise_compat. Qed.
Print Assumptions source_equiv_elementwise_compat.

(* otherwise: different bases conflict ... *)
Theorem source_conflicts_diff_base : forall c b cB bB,
  go_Base c = rok cB -> go_Base b = rok bB -> cB <> bB ->
  enum_int_clause cB bB c b = false -> dec_clause cB bB = false -> go_Conflicts c b = rok true.
Proof. exact src_conflicts_diff_base. Qed.
Print Assumptions source_conflicts_diff_base.

(* ... and with the same base and no parameter rule, the strings must agree up to comma spacing *)
Theorem source_conflicts_same_base : forall c b B,
  go_Base c = rok B -> go_Base b = rok B -> dec_clause B B = false -> is_enum B = false ->
  is_wrapper B = false -> is_dt B = false ->
  go_Conflicts c b = rok (negb (bytes_eqb (go_normalizeCommas c) (go_normalizeCommas b))).
Proof. exact src_conflicts_same_base. Qed.
Print Assumptions source_conflicts_same_base.

(* non-vacuity: the translated source, run *)
Example c19_source_nonvacuous :
  go_Base (s2b "Decimal(76, 38)") = rok (s2b "Decimal") /\ go_Elem (s2b "Decimal(76, 38)") = rok (s2b "76, 38") /\
  go_Base (s2b ")(") = rok (s2b ")(") /\ go_Elem (s2b "x()") = rok [] /\
  go_decimalDowncast (s2b "Decimal( 9 ,2)") = rok (s2b "Decimal32") /\
  go_normalizeCommas (s2b "Map(String ,  String)") = s2b "Map(String,String)" /\
  go_Conflicts (s2b "Decimal32(4)") (s2b "Decimal32") = rok false /\
  go_Conflicts (s2b "Map(String,String)") (s2b "Map(String, String)") = rok false /\
  go_Conflicts (s2b "Array(Enum8('a'=1))") (s2b "Array(Int8)") = rok false /\
  go_Conflicts (s2b "Array(Int32)") (s2b "Array(Int64)") = rok true /\
  go_Conflicts (s2b "Decimal(76, 38)") (s2b "Decimal256") = rok false /\
  go_IsArray (s2b "Array(Int8)") = true.
Proof. vm_compute. repeat split. Qed.
