(* C19 — Type inference is total and sound; type compatibility is reflexive and symmetric.
   Nothing but statements closed by [exact], each followed by Print Assumptions.
   [zone] is time.LoadLocation and [tl] is strings.ToLower: arbitrary functions, universally quantified.
   [conflicts_r] is ColumnType.Conflicts with every Go slice expression checked ([Crash] = panic),
   [infer] is ColAuto.Infer on a fresh ColAuto, [col_type] the Type() of the column it created. *)
From CH Require Import model.TypeStr proofs.TypeStrProofs.
Open Scope N_scope.
Open Scope list_scope.

(* ColAuto.Infer, on every byte string: a column (whose DataType echoes the request) or an error; never a
   panic, never fuel exhaustion of the model *)
Theorem infer_no_panic : forall zone tl t,
  (exists i, infer zone tl t = Ok i [] /\ dtype i = t) \/ (exists e, infer zone tl t = Err e /\ e <> EFuel).
Proof. exact infer_total. Qed.
Print Assumptions infer_no_panic.

(* whenever Infer succeeds, the created column's own Type() does not conflict with the requested string,
   in either order — for every byte string, well formed or not *)
Theorem infer_sound : forall zone tl t i r, infer zone tl t = Ok i r ->
  conflicts_r t (col_type (data i)) = rok false /\ conflicts_r (col_type (data i)) t = rok false /\ dtype i = t.
Proof. exact infer_sound_r. Qed.
Print Assumptions infer_sound.

(* Results.Auto: when the first header block infers a column, a second block naming the same type is accepted
   (the column's own Infer succeeds again and its Type() still does not conflict), and Type() is unchanged *)
Theorem second_block_accepted : forall zone tl t i r, infer zone tl t = Ok i r ->
  exists c', auto_two_blocks zone tl t = rok c' /\ col_type c' = col_type (data i).
Proof. exact two_blocks_ok. Qed.
Print Assumptions second_block_accepted.

(* ColInterval.Infer does not depend on what strings.ToLower does *)
Theorem interval_infer_independent_of_tolower : forall tl1 tl2 t, interval_infer tl1 t = interval_infer tl2 t.
Proof. exact interval_infer_lower_irrelevant. Qed.
Print Assumptions interval_infer_independent_of_tolower.

(* Base and Elem never slice out of bounds; Elem is strictly shorter *)
Theorem base_elem_no_panic : forall c,
  base_r c = rok (base c) /\ elem_r c = rok (elem c) /\ (c <> [] -> (length (elem c) < length c)%nat).
Proof. exact (fun c => conj (base_r_ok c) (conj (elem_r_ok c) (elem_shorter c))). Qed.
Print Assumptions base_elem_no_panic.

(* Conflicts terminates without panic on every pair, and satisfies its recursive equation *)
Theorem conflicts_no_panic : forall c b, exists r, conflicts_r c b = rok r.
Proof. exact conflicts_r_no_panic. Qed.
Print Assumptions conflicts_no_panic.

Theorem conflicts_equation : forall c b, conflicts_r c b = conf_body conflicts_r c b.
Proof. exact conflicts_r_unfold. Qed.
Print Assumptions conflicts_equation.

Theorem conflicts_refl : forall c, conflicts_r c c = rok false.
Proof. exact conflicts_r_refl. Qed.
Print Assumptions conflicts_refl.

Theorem conflicts_sym : forall c b, conflicts_r c b = conflicts_r b c.
Proof. exact conflicts_r_sym. Qed.
Print Assumptions conflicts_sym.

(* documented equivalences *)
Theorem equiv_enum8_int8 : forall c, base c = T_Enum8 ->
  conflicts_r c T_Int8 = rok false /\ conflicts_r T_Int8 c = rok false.
Proof. exact conflicts_enum8_int8. Qed.
Print Assumptions equiv_enum8_int8.

Theorem equiv_enum16_int16 : forall c, base c = T_Enum16 ->
  conflicts_r c T_Int16 = rok false /\ conflicts_r T_Int16 c = rok false.
Proof. exact conflicts_enum16_int16. Qed.
Print Assumptions equiv_enum16_int16.

Theorem equiv_enum_enum : forall c b, base c = base b -> is_enum (base c) = true -> conflicts_r c b = rok false.
Proof. exact conflicts_enum_enum. Qed.
Print Assumptions equiv_enum_enum.

(* Decimal(P, S) and the DecimalN of its precision class (1..9, 10..18, 19..38, 39..76) *)
Theorem equiv_decimal_alias : forall c p a,
  base c = T_Decimal -> decimal_prec (elem c) = Some p -> decimal_alias p = Some a ->
  conflicts_r c a = rok false /\ conflicts_r a c = rok false.
Proof. exact conflicts_decimal_alias. Qed.
Print Assumptions equiv_decimal_alias.

Theorem equiv_decimal_same_class : forall c b p q a,
  base c = T_Decimal -> base b = T_Decimal ->
  decimal_prec (elem c) = Some p -> decimal_prec (elem b) = Some q ->
  decimal_alias p = Some a -> decimal_alias q = Some a -> conflicts_r c b = rok false.
Proof. exact conflicts_decimal_same_class. Qed.
Print Assumptions equiv_decimal_same_class.

(* DecimalN(S) and DecimalN (finding 17, after its repair) *)
Theorem equiv_decimal_n_scale : forall c, is_decimal_n (base c) = true ->
  conflicts_r c (base c) = rok false /\ conflicts_r (base c) c = rok false.
Proof. exact conflicts_decimal_n_scale. Qed.
Print Assumptions equiv_decimal_n_scale.

(* spacing after commas: equal bases, equal after trimming every comma-separated piece *)
Theorem equiv_comma_spacing : forall c b,
  base c = base b -> dec_clause (base c) (base b) = false -> normalize_commas c = normalize_commas b ->
  conflicts_r c b = rok false.
Proof. exact conflicts_normalized. Qed.
Print Assumptions equiv_comma_spacing.

(* concretely: B(x,y) against B(x,   y), any number of spaces after the comma, B not of the decimal family *)
Theorem equiv_spaces_after_comma : forall B x y n,
  index_byte 40 B = None -> B <> [] -> dec_clause B B = false ->
  conflicts_r (B ++ 40 :: (x ++ 44 :: y) ++ [41]) (B ++ 40 :: (x ++ 44 :: repeat 32 n ++ y) ++ [41]) = rok false.
Proof. exact conflicts_spaces_after_comma. Qed.
Print Assumptions equiv_spaces_after_comma.

(* time-zone parameters: DateTime / DateTime64 with any parameters *)
Theorem equiv_timezone : forall c b, base c = base b -> is_dt (base c) = true -> conflicts_r c b = rok false.
Proof. exact conflicts_datetime. Qed.
Print Assumptions equiv_timezone.

(* element-wise for Array / Nullable / LowCardinality: W(x) against W(y) is x against y
   (unless the two strings already agree up to comma spacing) *)
Theorem equiv_elementwise : forall W x y, is_wrapper W = true ->
  conflicts_r (wrap W x) (wrap W y) =
  if bytes_eqb (normalize_commas (wrap W x)) (normalize_commas (wrap W y)) then rok false else conflicts_r x y.
Proof. exact conflicts_elementwise. Qed.
Print Assumptions equiv_elementwise.

Theorem equiv_elementwise_compat : forall W x y, is_wrapper W = true ->
  conflicts_r x y = rok false -> conflicts_r (wrap W x) (wrap W y) = rok false.
Proof. exact conflicts_elementwise_compat. Qed.
Print Assumptions equiv_elementwise_compat.

(* otherwise: different bases conflict ... *)
Theorem conflicts_diff_base : forall c b,
  base c <> base b -> enum_int_clause (base c) (base b) c b = false -> dec_clause (base c) (base b) = false ->
  conflicts_r c b = rok true.
Proof. exact TypeStrProofs.conflicts_diff_base. Qed.
Print Assumptions conflicts_diff_base.

(* ... and with the same base and no parameter rule, the strings must agree up to comma spacing *)
Theorem conflicts_same_base : forall c b,
  base c = base b -> dec_clause (base c) (base b) = false -> is_enum (base c) = false ->
  is_wrapper (base c) = false -> is_dt (base c) = false ->
  conflicts_r c b = rok (negb (bytes_eqb (normalize_commas c) (normalize_commas b))).
Proof. exact conflicts_same_base_other. Qed.
Print Assumptions conflicts_same_base.

(* non-vacuity: the inputs of finding 17 and friends, on the model of the repaired code *)
Local Open Scope string_scope.
Example c19_nonvacuous :
  let z := fun q => if bytes_eqb q (s2b "UTC") then Some (s2b "UTC") else None in
  let ty := fun s => match infer z (fun x => x) (s2b s) with
                     | Ok i _ => Some (b2s (struct_name (data i)), b2s (col_type (data i)))
                     | _ => None
                     end in
  ty "Decimal32(4)" = Some ("ColDecimal32", "Decimal32") /\
  ty "Array(Nullable(DateTime64(3, 'UTC')))" = Some ("ColArr", "Array(Nullable(DateTime64(3, 'UTC')))") /\
  ty "Array(Array(Int8))" = None /\ ty "IntervalWEEK" = None /\ ty "Decimal(77)" = None /\
  conflicts_r (s2b "Decimal32(4)") (s2b "Decimal32") = rok false /\
  conflicts_r (s2b "Map(String,String)") (s2b "Map(String, String)") = rok false /\
  conflicts_r (s2b "Array(Enum8('a'=1))") (s2b "Array(Int8)") = rok false /\
  conflicts_r (s2b "Array(Int32)") (s2b "Array(Int64)") = rok true /\
  conflicts_r (s2b "Decimal(76, 38)") (s2b "Decimal256") = rok false.
Proof. vm_compute. repeat split. Qed.
