(* C11 — A pooled connection has one holder; dead or expired ones are never reissued.
   Nothing but statements closed by [exact], each followed by Print Assumptions.

   Vocabulary (coq/model/Pool.v; the code mirrored is /repo/chpool and puddle v2.2.2):
     pool       resources ever constructed ([ress], index = connection id; status RIdle | RAcquired |
                RDestroying (Destroy called, goroutine pending, token still held) | RClosing (removed after
                Close, destructor pending) | RDead; creation time, last use, [r_cclosed] = ch.Client.closed),
                the idle stack, the handles (chpool.Client.res, by handle id), the running health check
                ([hc]: its `now` and the resources it still has to visit), closed flag, clock;
     pop        PAcquire dial_ok | PRelease h | PDo h kind closes | PPing h | PPoolDo .. | PPoolPing ..
                | PTickBegin | PTickStep | PAdvance dt | PFinish r | PClose.  What ch.Client does with a
                request ([closes]), whether a dial succeeds, when time passes, when a goroutine started by
                puddle finishes (PFinish) and how the health check interleaves with holders are all chosen
                by the history: the theorems hold for every history, any number of handles;
     prun       runs a history; [None] = puddle panics (Value / Release / Destroy on a resource that is not
                acquired, "bug: semaphore allowed more acquires than pool allows");
     handle_of  the resource a handle holds;  status_of / get_res  a resource;  total / stat_*  puddle Stat().
   The model mirrors chpool AFTER the repair of Client.Release (/repo commit "fix: chpool.Client.Release gives
   up its resource ..."): before it the first three statements are false (Acquire; Release; Acquire;
   Release(old handle) puts two handles on one connection; a repeated destroying Release panics in puddle). *)
From CH Require Import model.Pool proofs.PoolProofs.
From Coq Require Import List NArith Bool.
Import ListNotations.
Open Scope nat_scope.

(* pool_inv: EVERY history runs without a puddle panic and ends in a state satisfying the invariant
   [pinv] (P1 an acquired resource has exactly one owner - a handle or the health check -, handles are
   injective, an idle resource has none and its client is open; P2 idle + tokens held <= MaxConns;
   a dead resource's client is closed) and [cinv] (a closed pool has no idle resource). *)
Theorem pool_inv : forall c ops, exists p, prun (pinit c) ops = Some p /\ pinv p /\ cinv p.
Proof. exact h_pool_inv. Qed.
Print Assumptions pool_inv.

(* at most one holder: two handles never hold the same resource, and a held resource is acquired,
   not on the idle stack and not in the hands of the health check *)
Theorem one_holder : forall c ops p h1 h2 r, prun (pinit c) ops = Some p ->
  handle_of p h1 = Some r -> handle_of p h2 = Some r ->
  h1 = h2 /\ status_of p r = Some RAcquired /\ ~ In r (hc_pending p) /\ ~ In r (idle p).
Proof. exact h_one_holder. Qed.
Print Assumptions one_holder.

(* the number of open connections in the pool never exceeds MaxConns (Stat: total = idle + acquired) *)
Theorem total_le_max : forall c ops p, prun (pinit c) ops = Some p ->
  total p <= c_max c /\ total p = stat_idle p + stat_acquired p /\ stat_idle p = length (idle p).
Proof. exact h_total_le_max. Qed.
Print Assumptions total_le_max.

(* what Acquire hands out: a resource no other handle holds, acquired, whose client is open *)
Theorem acquire_hands_out_live_unshared : forall c ops p d p', prun (pinit c) ops = Some p ->
  pstep p (PAcquire d) = POk p' OOk ->
  exists r x, handle_of p' (length (handles p)) = Some r /\ get_res p' r = Some x /\
              r_status x = RAcquired /\ r_cclosed x = false /\ (forall h, handle_of p h <> Some r).
Proof. exact (fun c ops p d p' H => acquire_gives_open p d p' (hist_good c ops p H)). Qed.
Print Assumptions acquire_hands_out_live_unshared.

(* a connection released with a closed client or past its lifetime is destroyed, and in EVERY later
   history it stays destroyed: no handle ever holds it again, it is never idle again *)
Theorem released_dead_never_reissued : forall c ops p h r x, prun (pinit c) ops = Some p ->
  handle_of p h = Some r -> get_res p r = Some x ->
  r_cclosed x = true \/ expired_life (p_cfg p) (now p) (r_created x) = true ->
  exists p', pstep p (PRelease h) = POk p' OOk /\ status_of p' r = Some RDestroying /\
    forall later p'', prun p' later = Some p'' ->
      (exists x'', get_res p'' r = Some x'' /\ gone (r_status x'') = true) /\
      (forall h', handle_of p'' h' <> Some r) /\ ~ In r (idle p'') /\ ~ In r (hc_pending p'').
Proof. exact (fun c ops p h r x H => release_dead_destroys p h r x (hist_good c ops p H)). Qed.
Print Assumptions released_dead_never_reissued.

(* destroyed is absorbing, from any reachable state, and a closed client stays closed *)
Theorem destroyed_is_absorbing : forall c ops p r x later p', prun (pinit c) ops = Some p ->
  get_res p r = Some x -> gone (r_status x) = true -> prun p later = Some p' ->
  exists x', get_res p' r = Some x' /\ gone (r_status x') = true /\
             (r_cclosed x = true -> r_cclosed x' = true) /\
             (forall h, handle_of p' h <> Some r) /\ ~ In r (idle p') /\ ~ In r (hc_pending p').
Proof. exact (fun c ops p r x later p' H => gone_forever p r x later p' (hist_good c ops p H)). Qed.
Print Assumptions destroyed_is_absorbing.

(* Release clears the handle; releasing a handle that holds nothing (again, or never acquired) changes
   NOTHING in the pool; a first Release leaves every other handle and its resource untouched *)
Theorem repeated_release_is_noop :
  (forall p h p' o, pstep p (PRelease h) = POk p' o -> handle_of p' h = None) /\
  (forall p h, handle_of p h = None -> pstep p (PRelease h) = POk p OOk) /\
  (forall c ops p h p' o, prun (pinit c) ops = Some p -> pstep p (PRelease h) = POk p' o ->
     forall h', h' <> h -> handle_of p' h' = handle_of p h' /\
       forall r', handle_of p h' = Some r' -> get_res p' r' = get_res p r').
Proof.
  exact (conj release_clears (conj release_again_noop
          (fun c ops p h p' o H => release_others_untouched p h p' o (hist_good c ops p H)))).
Qed.
Print Assumptions repeated_release_is_noop.

(* a whole health check on an open pool destroys exactly the idle resources past their lifetime or idle
   time, leaves the others idle, and touches no handle and no other resource *)
Theorem tick_destroys_expired_idle : forall c ops p, prun (pinit c) ops = Some p ->
  hc p = None -> pclosed p = false ->
  exists p', tick_full p = Some p' /\ hc p' = None /\ pgood p' /\
    (forall r x, In r (idle p) -> get_res p r = Some x ->
       if expired_life (p_cfg p) (now p) (r_created x) || expired_idle (p_cfg p) (now p) (r_lastused x)
       then status_of p' r = Some RDestroying
       else status_of p' r = Some RIdle /\ In r (idle p')) /\
    (forall r, ~ In r (idle p) -> get_res p' r = get_res p r) /\ handles p' = handles p.
Proof. exact (fun c ops p H => tick_full_spec p (hist_good c ops p H)). Qed.
Print Assumptions tick_destroys_expired_idle.

(* the same for one iteration of the health check's loop, in any reachable state (holders may have run
   since the health check took the idle resources) *)
Theorem tick_step_judges_one : forall c ops p t0 r rest x, prun (pinit c) ops = Some p ->
  hc p = Some (t0, r :: rest) -> get_res p r = Some x ->
  exists p', tick_step p = POk p' ONone /\ hc p' = hc_rest t0 rest /\ now p' = now p /\ p_cfg p' = p_cfg p /\
    pclosed p' = pclosed p /\ handles p' = handles p /\
    (forall r', r' <> r -> get_res p' r' = get_res p r') /\
    (forall r', In r' (idle p) -> In r' (idle p')) /\
    (if tick_verdict (p_cfg p) t0 (now p) x then status_of p' r = Some RDestroying
     else status_of p' r = Some RIdle /\ In r (idle p')).
Proof. exact (fun c ops p t0 r rest x H => tick_step_spec p t0 r rest x (hist_good c ops p H)). Qed.
Print Assumptions tick_step_judges_one.

(* after Close, once every handle has been released and the goroutines puddle started have finished,
   every connection the pool ever opened is closed *)
Theorem closed_pool_everything_closed : forall c ops p, prun (pinit c) ops = Some p ->
  pclosed p = true -> (forall h, handle_of p h = None) ->
  (forall r, status_of p r <> Some RDestroying /\ status_of p r <> Some RClosing) ->
  forall r x, get_res p r = Some x -> r_status x = RDead /\ r_cclosed x = true.
Proof. exact (fun c ops p H => closed_released_all_closed p (hist_good c ops p H)). Qed.
Print Assumptions closed_pool_everything_closed.

(* ... and that state is always within reach: from EVERY reachable state in which the health check is
   not in the middle of a round, Close, a Release of every handle and the end of every goroutine puddle
   started leave the pool empty and every connection it ever opened closed *)
Theorem close_release_all_closes_everything : forall c ops p, prun (pinit c) ops = Some p -> hc p = None ->
  exists p', prun p (PClose :: map PRelease (seq 0 (length (handles p))) ++ map PFinish (seq 0 (length (ress p)))) = Some p' /\
    length (ress p') = length (ress p) /\ total p' = 0 /\
    forall r x, get_res p' r = Some x -> r_status x = RDead /\ r_cclosed x = true.
Proof. exact h_drain. Qed.
Print Assumptions close_release_all_closes_everything.

(* non-vacuity: MaxConns 1, lifetime 5.  A handle's client dies, it is released twice, the connection is
   destroyed and a new one dialed; that one outlives its lifetime idle and the health check destroys it;
   the pool is closed with a handle out, the handle comes back, the goroutines finish: three connections
   were opened, all three are closed, nothing is left in the pool *)
Example c11_witness :
  let ops := [PAcquire true; PDo 0 DCut true; PRelease 0; PRelease 0; PFinish 0;
              PAcquire true; PRelease 1; PAdvance 9; PTickBegin; PTickStep; PFinish 1;
              PAcquire true; PClose; PRelease 2; PRelease 1; PFinish 2] in
  option_map (fun p => (map r_status (ress p), map r_cclosed (ress p), handles p, total p, pclosed p))
             (prun (pinit (mkCfg 1 5 5)) ops)
  = Some ([RDead; RDead; RDead], [true; true; true], [None; None; None], 0, true).
Proof. vm_compute. reflexivity. Qed.
