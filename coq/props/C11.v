(* C11 — A pooled connection has one holder; dead or expired ones are never reissued.
   Nothing but statements closed by [exact], each followed by Print Assumptions.

   Vocabulary (coq/model/Pool.v; the code mirrored is /repo/chpool and puddle v2.2.2):
     cfg        MaxConns, MinConns, MaxConnLifetime, MaxConnIdleTime (any values: the theorems hold for every MinConns);
     pool       resources ever constructed ([ress], index = connection id; status RIdle | RAcquired |
                RDestroying (Destroy called, goroutine pending, token still held, still counted by Stat) | RClosing
                (removed after Close, destructor pending) | RDead; creation time, last use, [r_cclosed] =
                ch.Client.closed), the idle stack, the handles (chpool.Client.res, by handle id), the tick in progress
                ([hc]: its `now` and the resources it still has to visit; Some (t, []) = checkMinConns is next), the
                goroutines checkMinConns has started ([spawned]), the CreateResource calls in flight ([constructing]:
                they hold a token and are counted by Stat), [ghosts] (resources constructed after Close: puddle
                destructs them but keeps counting them), closed flag, clock;
     pnew c ds  newPool: createIdleResources = MinConns CreateResource calls with dial outcomes [ds]; the first
                failure closes the pool ([pnew_ok] = New returned no error);
     pop        PAcquire dial_ok | PRelease h | PDo h kind closes | PPing h | PPoolDo .. | PPoolPing ..
                | PTickBegin | PTickStep | PCheckMin | PSpawnBegin | PSpawnEnd i dial_ok | PAdvance dt | PFinish r
                | PClose.  What ch.Client does with a request ([closes]), whether a dial succeeds, when time
                passes, when a goroutine started by puddle finishes (PFinish), when a goroutine started by
                checkMinConns enters CreateResource (PSpawnBegin) and when its dial returns (PSpawnEnd), and how the
                health check interleaves with holders are all chosen by the history: the theorems hold for every
                history, any number of handles;
     prun       runs a history; [None] = puddle panics (Value / Release / Destroy on a resource that is not
                acquired, "bug: semaphore allowed more acquires than pool allows");
     handle_of  the resource a handle holds;  status_of / get_res  a resource;  total / stat_*  puddle Stat();
     live       idle + held connections;  destroying  connections whose Destroy goroutine has not finished.
   The model mirrors chpool AFTER the repair of Client.Release (/repo commit "fix: chpool.Client.Release gives
   up its resource ..."): before it the first three statements are false (Acquire; Release; Acquire;
   Release(old handle) puts two handles on one connection; a repeated destroying Release panics in puddle). *)
From CH Require Import model.Pool proofs.PoolProofs.
From Coq Require Import List NArith Bool.
Import ListNotations.
Open Scope nat_scope.

(* pool_inv: EVERY history after EVERY New (any MinConns, any dial outcomes) runs without a puddle panic and ends
   in a state satisfying the invariant [pinv] (P1 an acquired resource has exactly one owner - a handle or the
   health check -, handles are injective, an idle resource has none and its client is open; P2 idle + tokens held
   (creations in flight included) + ghosts <= MaxConns; a dead resource's client is closed; ghosts only in a
   closed pool) and [cinv] (a closed pool has no idle resource and no tick in progress). *)
Theorem pool_inv : forall c dials ops, exists p, prun (pnew c dials) ops = Some p /\ pinv p /\ cinv p.
Proof. exact h_pool_inv. Qed.
Print Assumptions pool_inv.

(* at most one holder: two handles never hold the same resource, and a held resource is acquired,
   not on the idle stack and not in the hands of the health check *)
Theorem one_holder : forall c dials ops p h1 h2 r, prun (pnew c dials) ops = Some p ->
  handle_of p h1 = Some r -> handle_of p h2 = Some r ->
  h1 = h2 /\ status_of p r = Some RAcquired /\ ~ In r (hc_pending p) /\ ~ In r (idle p).
Proof. exact h_one_holder. Qed.
Print Assumptions one_holder.

(* the number of resources in the pool - creations in flight included - never exceeds MaxConns
   (Stat: total = idle + acquired + constructing; Stat's idle = the idle stack, plus, in a closed pool only,
   the resources CreateResource finished after Close) *)
Theorem total_le_max : forall c dials ops p, prun (pnew c dials) ops = Some p ->
  total p <= c_max c /\ total p = stat_idle p + stat_acquired p + stat_constructing p /\
  stat_idle p = length (idle p) + ghosts p /\ (pclosed p = false -> ghosts p = 0).
Proof. exact h_total_le_max. Qed.
Print Assumptions total_le_max.

(* what Acquire hands out: a resource no other handle holds, acquired, whose client is open *)
Theorem acquire_hands_out_live_unshared : forall c dials ops p d p', prun (pnew c dials) ops = Some p ->
  pstep p (PAcquire d) = POk p' OOk ->
  exists r x, handle_of p' (length (handles p)) = Some r /\ get_res p' r = Some x /\
              r_status x = RAcquired /\ r_cclosed x = false /\ (forall h, handle_of p h <> Some r).
Proof. exact (fun c dials ops p d p' H => acquire_gives_open p d p' (hist_good c dials ops p H)). Qed.
Print Assumptions acquire_hands_out_live_unshared.

(* a connection released with a closed client or past its lifetime is destroyed, and in EVERY later
   history it stays destroyed: no handle ever holds it again, it is never idle again *)
Theorem released_dead_never_reissued : forall c dials ops p h r x, prun (pnew c dials) ops = Some p ->
  handle_of p h = Some r -> get_res p r = Some x ->
  r_cclosed x = true \/ expired_life (p_cfg p) (now p) (r_created x) = true ->
  exists p', pstep p (PRelease h) = POk p' OOk /\ status_of p' r = Some RDestroying /\
    forall later p'', prun p' later = Some p'' ->
      (exists x'', get_res p'' r = Some x'' /\ gone (r_status x'') = true) /\
      (forall h', handle_of p'' h' <> Some r) /\ ~ In r (idle p'') /\ ~ In r (hc_pending p'').
Proof. exact (fun c dials ops p h r x H => release_dead_destroys p h r x (hist_good c dials ops p H)). Qed.
Print Assumptions released_dead_never_reissued.

(* destroyed is absorbing, from any reachable state, and a closed client stays closed *)
Theorem destroyed_is_absorbing : forall c dials ops p r x later p', prun (pnew c dials) ops = Some p ->
  get_res p r = Some x -> gone (r_status x) = true -> prun p later = Some p' ->
  exists x', get_res p' r = Some x' /\ gone (r_status x') = true /\
             (r_cclosed x = true -> r_cclosed x' = true) /\
             (forall h, handle_of p' h <> Some r) /\ ~ In r (idle p') /\ ~ In r (hc_pending p').
Proof. exact (fun c dials ops p r x later p' H => gone_forever p r x later p' (hist_good c dials ops p H)). Qed.
Print Assumptions destroyed_is_absorbing.

(* Release clears the handle; releasing a handle that holds nothing (again, or never acquired) changes
   NOTHING in the pool; a first Release leaves every other handle and its resource untouched *)
Theorem repeated_release_is_noop :
  (forall p h p' o, pstep p (PRelease h) = POk p' o -> handle_of p' h = None) /\
  (forall p h, handle_of p h = None -> pstep p (PRelease h) = POk p OOk) /\
  (forall c dials ops p h p' o, prun (pnew c dials) ops = Some p -> pstep p (PRelease h) = POk p' o ->
     forall h', h' <> h -> handle_of p' h' = handle_of p h' /\
       forall r', handle_of p h' = Some r' -> get_res p' r' = get_res p r').
Proof.
  exact (conj release_clears (conj release_again_noop
          (fun c dials ops p h p' o H => release_others_untouched p h p' o (hist_good c dials ops p H)))).
Qed.
Print Assumptions repeated_release_is_noop.

(* a whole tick (idle pass, then checkMinConns) on an open pool, for EVERY MinConns: exactly the idle resources
   past their lifetime or idle time are destroyed - no matter how few resources that leaves -, the others stay idle,
   no handle and no other resource is touched; Stat's total is unchanged (a resource being destroyed is still
   counted) and checkMinConns has started MinConns - total goroutines *)
Theorem tick_destroys_expired_idle : forall c dials ops p, prun (pnew c dials) ops = Some p ->
  hc p = None -> pclosed p = false ->
  exists p', tick_full p = Some p' /\ hc p' = None /\ pgood p' /\
    (forall r x, In r (idle p) -> get_res p r = Some x ->
       if expired_life (p_cfg p) (now p) (r_created x) || expired_idle (p_cfg p) (now p) (r_lastused x)
       then status_of p' r = Some RDestroying
       else status_of p' r = Some RIdle /\ In r (idle p')) /\
    (forall r, ~ In r (idle p) -> get_res p' r = get_res p r) /\ handles p' = handles p /\
    total p' = total p /\ constructing p' = constructing p /\
    spawned p' = spawned p + (c_min (p_cfg p) - total p).
Proof. exact (fun c dials ops p H => tick_full_spec p (hist_good c dials ops p H)). Qed.
Print Assumptions tick_destroys_expired_idle.

(* in particular at the MinConns floor: an idle connection past its lifetime or idle time is destroyed by the tick
   although the pool holds no more than MinConns resources - it is not kept to satisfy MinConns -, and no handle
   holds it afterwards *)
Theorem expired_idle_is_destroyed_at_the_floor : forall c dials ops p r x, prun (pnew c dials) ops = Some p ->
  hc p = None -> pclosed p = false -> total p <= c_min (p_cfg p) -> In r (idle p) -> get_res p r = Some x ->
  expired_life (p_cfg p) (now p) (r_created x) = true \/ expired_idle (p_cfg p) (now p) (r_lastused x) = true ->
  exists p', tick_full p = Some p' /\ status_of p' r = Some RDestroying /\ ~ In r (idle p') /\
    (forall h, handle_of p' h <> Some r) /\ total p' = total p.
Proof. exact (fun c dials ops p r x H => expired_idle_destroyed_at_floor p r x (hist_good c dials ops p H)). Qed.
Print Assumptions expired_idle_is_destroyed_at_the_floor.

(* the same for one iteration of the health check's loop, in any reachable state (holders may have run
   since the health check took the idle resources) *)
Theorem tick_step_judges_one : forall c dials ops p t0 r rest x, prun (pnew c dials) ops = Some p ->
  hc p = Some (t0, r :: rest) -> get_res p r = Some x ->
  exists p', tick_step p = POk p' ONone /\ hc p' = hc_rest t0 rest /\ now p' = now p /\ p_cfg p' = p_cfg p /\
    pclosed p' = pclosed p /\ handles p' = handles p /\
    (forall r', r' <> r -> get_res p' r' = get_res p r') /\
    (forall r', In r' (idle p) -> In r' (idle p')) /\
    (if tick_verdict (p_cfg p) t0 (now p) x then status_of p' r = Some RDestroying
     else status_of p' r = Some RIdle /\ In r (idle p')).
Proof. exact (fun c dials ops p t0 r rest x H => tick_step_spec p t0 r rest x (hist_good c dials ops p H)). Qed.
Print Assumptions tick_step_judges_one.

(* MinConns: from any reachable state in which checkMinConns is about to run, checkMinConns, then every goroutine it
   started entering CreateResource, then every creation in flight completing with a successful dial leave the
   pool open with at least min(MinConns, MaxConns) resources, none under construction; the resources that
   existed are as they were.  The count is puddle's: it includes the connections whose Destroy goroutine had not
   finished when checkMinConns read Stat(); all others are live (idle or held) connections *)
Theorem min_conns_restored : forall c dials ops p t0, prun (pnew c dials) ops = Some p -> hc p = Some (t0, []) ->
  exists p1 p2, prun (check_min p) (repeat PSpawnBegin (spawned (check_min p))) = Some p1 /\
    prun p1 (repeat (PSpawnEnd 0 true) (length (constructing p1))) = Some p2 /\
    pgood p2 /\ hc p2 = None /\ pclosed p2 = false /\ spawned p2 = 0 /\ constructing p2 = [] /\ ghosts p2 = 0 /\
    handles p2 = handles p /\
    Nat.min (c_min (p_cfg p)) (c_max (p_cfg p)) <= total p2 /\
    total p2 = live p2 + destroying p2 /\ destroying p2 = destroying p /\
    (forall r x, get_res p r = Some x -> get_res p2 r = Some x).
Proof. exact (fun c dials ops p t0 H => check_min_restores p t0 (hist_good c dials ops p H)). Qed.
Print Assumptions min_conns_restored.

(* ... and the whole tick with what it starts: the expired idle connections are destroyed and not kept to satisfy
   MinConns; they are replaced by new ones as far as puddle's count allows *)
Theorem tick_destroys_then_refills : forall c dials ops p, prun (pnew c dials) ops = Some p ->
  hc p = None -> pclosed p = false ->
  exists p0 p1 p2, tick_pass p = Some p0 /\ hc p0 = Some (now p, []) /\
    prun (check_min p0) (repeat PSpawnBegin (spawned (check_min p0))) = Some p1 /\
    prun p1 (repeat (PSpawnEnd 0 true) (length (constructing p1))) = Some p2 /\
    pgood p2 /\ hc p2 = None /\ pclosed p2 = false /\ spawned p2 = 0 /\ constructing p2 = [] /\ handles p2 = handles p /\
    Nat.min (c_min (p_cfg p)) (c_max (p_cfg p)) <= total p2 /\
    total p2 = live p2 + destroying p2 /\ destroying p2 = destroying p0 /\
    (forall r x, In r (idle p) -> get_res p r = Some x ->
       if tick_verdict (p_cfg p) (now p) (now p) x then status_of p2 r = Some RDestroying
       else status_of p2 r = Some RIdle) /\
    (forall r x, ~ In r (idle p) -> get_res p r = Some x -> get_res p2 r = Some x).
Proof. exact (fun c dials ops p H => tick_restores p (hist_good c dials ops p H)). Qed.
Print Assumptions tick_destroys_then_refills.

(* New: when it succeeds the pool is open with exactly MinConns idle connections (and MinConns <= MaxConns); when
   a dial fails, or MinConns > MaxConns, the pool it had begun to fill is closed and holds no idle connection
   (close_release_all_closes_everything with an empty history: what it had dialed gets closed) *)
Theorem new_pool_spec : forall c dials,
  if pnew_ok c dials
  then let p := pnew c dials in
       pclosed p = false /\ c_min c <= c_max c /\ total p = c_min c /\ length (idle p) = c_min c /\ live p = c_min c /\
       handles p = [] /\ hc p = None /\ spawned p = 0 /\ constructing p = []
  else pclosed (pnew c dials) = true /\ idle (pnew c dials) = [] /\ handles (pnew c dials) = [] /\ hc (pnew c dials) = None.
Proof. exact pnew_spec. Qed.
Print Assumptions new_pool_spec.

(* after Close, once every handle has been released and the goroutines puddle started have finished,
   every connection the pool ever opened is closed *)
Theorem closed_pool_everything_closed : forall c dials ops p, prun (pnew c dials) ops = Some p ->
  pclosed p = true -> (forall h, handle_of p h = None) ->
  (forall r, status_of p r <> Some RDestroying /\ status_of p r <> Some RClosing) ->
  forall r x, get_res p r = Some x -> r_status x = RDead /\ r_cclosed x = true.
Proof. exact (fun c dials ops p H => closed_released_all_closed p (hist_good c dials ops p H)). Qed.
Print Assumptions closed_pool_everything_closed.

(* ... and when no creation is in flight either, that is final: in every later history the closed pool stays
   closed and never dials again *)
Theorem closed_pool_never_dials : forall c dials ops p later p', prun (pnew c dials) ops = Some p ->
  pclosed p = true -> constructing p = [] -> prun p later = Some p' ->
  pclosed p' = true /\ constructing p' = [] /\ length (ress p') = length (ress p).
Proof. exact (fun c dials ops p later p' H => closed_pool_dials_no_more later p p' (hist_good c dials ops p H)). Qed.
Print Assumptions closed_pool_never_dials.

(* that state is always within reach: from EVERY reachable state in which no tick is in progress, Close, a
   Release of every handle, every goroutine of checkMinConns running, every creation in flight completing -
   whatever its dial does: a connection dialed for a pool that has been closed meanwhile is handed to the
   destructor -, and the end of every goroutine puddle started leave nothing in flight and every connection the
   pool ever opened closed (what Stat still counts are the resources puddle forgot to remove: [ghosts]) *)
Theorem close_release_all_closes_everything : forall c dials0 ops p dials, prun (pnew c dials0) ops = Some p ->
  hc p = None -> length dials = length (constructing p) ->
  exists p', prun p (PClose :: map PRelease (seq 0 (length (handles p))) ++ repeat PSpawnBegin (spawned p) ++
                     map (PSpawnEnd 0) dials ++ map PFinish (seq 0 (length (ress p) + length dials))) = Some p' /\
    length (ress p') = length (ress p) + length (filter (fun d => d) dials) /\
    spawned p' = 0 /\ constructing p' = [] /\ total p' = ghosts p' /\
    forall r x, get_res p' r = Some x -> r_status x = RDead /\ r_cclosed x = true.
Proof. exact h_drain. Qed.
Print Assumptions close_release_all_closes_everything.

(* non-vacuity: MaxConns 2, MinConns 1, lifetime 5.  New dials connection 0.  It outlives its lifetime idle: the
   tick destroys it although that empties the pool; its Destroy goroutine ends before checkMinConns looks, which
   starts one creation: connection 1.  A holder takes it, keeps it past its lifetime and releases it: destroyed;
   the next checkMinConns still counts it and starts nothing; the one after starts a creation; the pool is closed
   while that dial is in flight; the dial succeeds: connection 2 goes to the destructor.  Three connections were
   opened, all three are closed, no handle holds anything, and puddle's Stat counts one resource for ever *)
Example c11_witness :
  let ops := [PAdvance 9; PTickBegin; PTickStep; PFinish 0; PCheckMin; PSpawnBegin; PSpawnEnd 0 true;
              PAcquire true; PAdvance 9; PTickBegin; PCheckMin; PRelease 0; PRelease 0;
              PTickBegin; PCheckMin; PFinish 1; PTickBegin; PCheckMin; PSpawnBegin; PClose;
              PSpawnEnd 0 true; PFinish 2] in
  option_map (fun p => (map r_status (ress p), map r_cclosed (ress p), handles p, total p, ghosts p, spawned p, pclosed p))
             (prun (pnew (mkCfg 2 1 5 5) [true]) ops)
  = Some ([RDead; RDead; RDead], [true; true; true], [None], 1, 1, 0, true).
Proof. vm_compute. reflexivity. Qed.
