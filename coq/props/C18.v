(* C18 — Result blocks bind only to compatible targets; mismatches are errors.
   Nothing but statements closed by [exact], each followed by Print Assumptions.

   [zone] is time.LoadLocation and [tl] is strings.ToLower: arbitrary functions, universally quantified.
   model/Results.v: [bind_result] = Results.DecodeResult returning what every target holds afterwards, also after a
   failure; [bind_one] = one iteration of its loop; [infer_st] = the Inferable hook of a column (ColEnum, ColDateTime,
   ColDateTime64, ColInterval, ColArr, ColMap, ColTuple, ColNamed), [infer_tcol] the same for a target that may be a
   ColAuto; [conflicts_b] = ColumnType.Conflicts; [decode_block_st] / [run_blocks] = Block.DecodeBlock on one block /
   on the blocks of a query against the same Results.  [bound] (proofs/ResultsProofs.v) is the specification of a
   successful bind: column by column, the header names the target's name (or the target's is blank), the target's
   Infer accepts the type, its Type() afterwards does not conflict, and the bytes directly behind that header decode
   into it. *)
From CH Require Import model.Columns model.Block model.TypeStr model.Results.
From CH Require Import proofs.ColumnsProofs proofs.BlockProofs proofs.TypeStrProofs proofs.ResultsProofs.
Open Scope N_scope.
Open Scope list_scope.

(* the model is the block model of C01: on typed targets Results.DecodeResult of model/Block.v (which returns the
   targets on success only) and of model/Results.v agree in outcome, targets, unread input and error *)
Theorem block_model_refined : forall zone tl b v ncols nrows c cs s,
  proj (bind_result zone tl b v ncols nrows (map typed_target (c :: cs)) s) =
  decode_result conflicts_b (infer_target zone tl) b v ncols nrows (c :: cs) s.
Proof. exact bind_result_refines. Qed.
Print Assumptions block_model_refined.

(* success only if: the column count is the number of targets (or there are no targets and no columns-with-rows),
   and [bound] holds — names equal or blank, Infer accepted, no type conflict after Infer, own bytes decoded *)
Theorem bind_ok_only_if_compatible : forall zone tl b v ncols nrows ts s ts' rest,
  bind_result zone tl b v ncols nrows ts s = (ts', BOk rest) ->
  (ts = [] /\ ts' = [] /\ (ncols = 0 \/ nrows = 0)) \/
  (ts <> [] /\ ncols = N.of_nat (length ts) /\ bound zone tl b v nrows ts s ts' rest).
Proof. exact bind_result_ok. Qed.
Print Assumptions bind_ok_only_if_compatible.

(* ... and whenever that holds the bind succeeds with exactly those targets *)
Theorem bind_ok_if_compatible : forall zone tl b v nrows ts s ts' rest,
  ts <> [] -> bound zone tl b v nrows ts s ts' rest ->
  bind_result zone tl b v (N.of_nat (length ts)) nrows ts s = (ts', BOk rest).
Proof. exact bind_result_ok_intro. Qed.
Print Assumptions bind_ok_if_compatible.

(* what [bound] gives target by target: every name was blank or is the column's; no Type() conflicts with the
   server's type; callers' names are enforced *)
Theorem bound_names_blank_or_equal : forall zone tl b v nrows ts s ts' rest, bound zone tl b v nrows ts s ts' rest ->
  Forall2 (fun t t' => rt_name t = [] \/ rt_name t = rt_name t') ts ts'.
Proof. exact bound_names. Qed.
Print Assumptions bound_names_blank_or_equal.

Theorem bound_types_compatible : forall zone tl b v nrows ts s ts' rest, bound zone tl b v nrows ts s ts' rest ->
  Forall (fun t' => exists tstr, conflicts_b tstr (tcol_type (rt_col t')) = false) ts'.
Proof. exact bound_types. Qed.
Print Assumptions bound_types_compatible.

Theorem names_enforced : forall zone tl b v nrows ts s ts' rest, bound zone tl b v nrows ts s ts' rest ->
  Forall (fun t => rt_name t <> []) ts -> map rt_name ts' = map rt_name ts.
Proof. exact bound_names_enforced. Qed.
Print Assumptions names_enforced.

(* then target i holds exactly column i's data: for every block the library encodes (any columns of C01's
   well-formed set, either build, any revision, any trailing bytes) and targets of the same types whose names
   are equal or blank, each target ends up with the name, type and contents of its own column *)
Theorem bind_holds_own_data : forall zone tl b b' v nrows cols ts bs rest,
  nrows <= max_rows -> Forall (col_ok (infer_target zone tl) nrows) cols -> Forall2 binds cols ts ->
  enc_cols b v nrows cols = Some bs ->
  bind_targets zone tl b' v nrows 0 (map typed_target ts) (bs ++ rest) = (map typed_target cols, BOk rest).
Proof. exact ResultsProofs.bind_holds_own_data. Qed.
Print Assumptions bind_holds_own_data.

(* otherwise the result is an error whose kind names the mismatch: a wrong column count touches nothing; else the
   targets before the failing one are bound to their own columns ([bound] on the prefix), the failing step is
   explained by [fail_reason], the targets behind it are untouched *)
Theorem bind_mismatch_error : forall zone tl b v ncols nrows ts s ts' j k e,
  bind_result zone tl b v ncols nrows ts s = (ts', BFail j k e) ->
  (k = FCount /\ ts' = ts /\ ncols <> N.of_nat (length ts) /\ (ts = [] -> nrows <> 0)) \/
  (ts = [] /\ ts' = [] /\ k <> FCount) \/
  (ts <> [] /\ ncols = N.of_nat (length ts) /\
   exists pre t post pre' t' s1,
     ts = pre ++ t :: post /\ ts' = pre' ++ t' :: post /\ j = length pre /\
     bound zone tl b v nrows pre s pre' s1 /\ bind_one zone tl b v nrows t s1 = (t', SFail k e) /\
     fail_reason zone tl b v nrows t s1 k e t').
Proof. exact bind_result_fail. Qed.
Print Assumptions bind_mismatch_error.

(* no target ever receives another column's bytes: the failing target's contents are what they were, or an empty
   (reset or newly created) column *)
Theorem failing_target_never_foreign_data : forall zone tl b v nrows t s t' k e,
  bind_one zone tl b v nrows t s = (t', SFail k e) ->
  tcol_data (rt_col t') = tcol_data (rt_col t) \/
  exists ty', tcol_ty (rt_col t') = Some ty' /\ tcol_data (rt_col t') = Some (empty ty').
Proof. exact failing_target_contents. Qed.
Print Assumptions failing_target_never_foreign_data.

(* the loop itself: success iff [bound] *)
Theorem bind_targets_spec : forall zone tl b v nrows ts i s ts' rest,
  bind_targets zone tl b v nrows i ts s = (ts', BOk rest) <-> bound zone tl b v nrows ts s ts' rest.
Proof. exact bind_ok_iff. Qed.
Print Assumptions bind_targets_spec.

(* blank names are filled from the first block that binds and enforced afterwards; more: whatever blocks arrive
   (well formed or not, binding or not, through Results or Results.Auto()), a target keeps its position and a name
   it has is the name it keeps *)
Theorem names_sticky : forall zone tl auto b v blocks ts,
  Forall (names_kept ts) (map bo_targets (run_blocks zone tl auto b v ts blocks)).
Proof. exact ResultsProofs.names_sticky. Qed.
Print Assumptions names_sticky.

Theorem names_sticky_one_block : forall zone tl auto b v ts s,
  names_kept ts (bo_targets (decode_block_st zone tl auto b v ts s)).
Proof. exact names_sticky_block. Qed.
Print Assumptions names_sticky_one_block.

(* after Infer an inferable target's parameters are the server's and only the server's:
   ColEnum — type string, width and value mapping are a function of the server's type alone (finding 18 repaired) *)
Theorem infer_adopts_enum : forall zone tl n1 w1 d1 n2 w2 d2 s t',
  infer_st zone tl (TEnum n1 w1 d1) s = (t', IOk) ->
  infer_st zone tl (TEnum n2 w2 d2) s = (t', IOk) /\ type_str t' = s /\
  exists ds, t' = TEnum s (if bytes_eqb (base s) T_Enum8 then 1 else 2)%nat ds /\
             enum_parse (split_byte 44 (elem s)) = Some ds.
Proof. exact infer_enum_adopts. Qed.
Print Assumptions infer_adopts_enum.

(* ColDateTime, ColDateTime64, ColInterval — the Type() afterwards does not depend on the zone, precision or scale
   the column had before *)
Theorem infer_adopts_datetime : forall zone tl name1 name2 w s t',
  fix_kind name1 w = fix_kind name2 w -> fix_kind name1 w <> FPlain ->
  infer_st zone tl (TFix name1 w) s = (t', IOk) -> infer_st zone tl (TFix name2 w) s = (t', IOk).
Proof. exact infer_fix_adopts. Qed.
Print Assumptions infer_adopts_datetime.

Theorem infer_adopts_interval : forall zone tl name w s t',
  fix_kind name w = FInterval -> infer_st zone tl (TFix name w) s = (t', IOk) -> t' = TFix s w.
Proof. exact infer_interval_adopts. Qed.
Print Assumptions infer_adopts_interval.

(* Infer never slices a type string out of range, for any column tree and any byte string *)
Theorem infer_never_panics : forall zone tl t s, snd (infer_st zone tl t s) <> ICrash.
Proof. exact infer_st_no_crash. Qed.
Print Assumptions infer_never_panics.

(* non-vacuity: a two-column block (Enum8, DateTime64 with a zone) encoded by the model binds to a blank-named
   ColEnum without parameters and a ColDateTime64 without precision — names filled, parameters adopted, old rows
   replaced by the columns' own; the same block against a renamed target, and against an Int16 target, is an error
   that leaves every target as it was; an Int8 target takes the enum's raw values *)
Local Open Scope string_scope.
Definition ex_zone (q : bytes) := if bytes_eqb q (s2b "UTC") then Some (s2b "UTC") else None.
Definition ex_cols : list Block.col :=
  [ {| c_name := s2b "a" ; c_ty := TEnum (s2b "Enum8('x' = 1, 'y' = 2)") 1 [(s2b "x", 1%Z); (s2b "y", 2%Z)] ;
       c_data := DEnum [s2b "y"; s2b "x"] [] |} ;
    {| c_name := s2b "b" ; c_ty := TFix (s2b "DateTime64(3, 'UTC')") 8 ; c_data := DFix [5; 7] |} ].
Definition ex_targets (n1 : string) (t1 : ty) : list rtarget :=
  [ {| rt_name := s2b n1 ; rt_col := CTyped t1 (DEnum [s2b "old"] []) |} ;
    {| rt_name := s2b "b" ; rt_col := CTyped (TFix (s2b "DateTime64") 8) (DFix [9]) |} ].
Definition ex_run (n1 : string) (t1 : ty) : option block_out :=
  option_map (decode_block_st ex_zone (fun x => x) false Safe 54460 (ex_targets n1 t1))
             (encode_block Unsafe 54460 blank_block_info 2 ex_cols).
Definition ex_view (o : option block_out) :=
  option_map (fun o => (bo_out o, map (fun t => (b2s (rt_name t), b2s (tcol_type (rt_col t)), tcol_data (rt_col t))) (bo_targets o))) o.
Example c18_nonvacuous :
  ex_view (ex_run "" (TEnum [] 2 [])) =
    Some (BOk [], [("a", "Enum8('x' = 1, 'y' = 2)", Some (DEnum [s2b "y"; s2b "x"] [2; 1]));
                   ("b", "DateTime64(3, 'UTC')", Some (DFix [5; 7]))]) /\
  ex_view (ex_run "zz" (TEnum [] 2 [])) =
    Some (BFail 0 FName EInvalid, [("zz", "", Some (DEnum [s2b "old"] [])); ("b", "DateTime64", Some (DFix [9]))]) /\
  ex_view (ex_run "a" (TFix (s2b "Int16") 2)) =
    Some (BFail 0 FType EInvalid, [("a", "Int16", Some (DEnum [s2b "old"] [])); ("b", "DateTime64", Some (DFix [9]))]) /\
  ex_view (ex_run "a" (TFix (s2b "Int8") 1)) =
    Some (BOk [], [("a", "Int8", Some (DFix [2; 1])); ("b", "DateTime64(3, 'UTC')", Some (DFix [5; 7]))]).
Proof. vm_compute. repeat split. Qed.
